import OPM.Lemmas.InterpC02f
import OPM.Lemmas.InterpC02d
set_option linter.unusedSimpArgs false
set_option linter.unusedVariables false
/-!
C02 lemmas, part 7: sequential methods — a line is entered only after its enclosing scope has started.

`ScopeInv`: every frame on the stack other than a wrapper that is still waiting belongs to a started
node, and a scope whose loop has advanced (`child_index > 0`) is started.  (`started` is cleared only by
the body of a trailing Blank/Comment — which has no lines of its own — and by Alarm / macro resets.)
-/
namespace OPM.InterpC02
open OPM.Interp OPM.InterpRun

/-- wrapper frames before the `started` flag is set -/
def exempt : Frame → Bool
  | .wrapEnter _ | .wrapThr _ => true
  | _ => false

def startedOrBlank (p : Prog) (s : St) (n : Nat) : Prop := (s.rt n).started = true ∨ isTrailingBlank p n = true

structure ScopeInv (p : Prog) (s : St) (st : List Frame) : Prop where
  frames : ∀ f ∈ st, exempt f = false → startedOrBlank p s (frameNode f)
  advanced : ∀ n, 0 < (s.rt n).childIndex → startedOrBlank p s n

theorem started_endBlockStep (p : Prog) (s : St) (k : Nat) :
    ((endBlockStep p s).rt k).started = (s.rt k).started :=
  proj_endBlockStep (·.started) (fun _ _ => rfl) (fun _ _ => rfl) (fun _ _ => rfl) p s k

theorem started_endBlocksStep (p : Prog) (s : St) (k : Nat) :
    ((endBlocksStep p s).rt k).started = (s.rt k).started :=
  proj_endBlocksStep (·.started) (fun _ _ => rfl) (fun _ _ => rfl) (fun _ _ => rfl) p s k

theorem stepBody_started_mono (p : Prog) (s : St) (n pc : Nat) (below : List Frame) (k : Nat)
    (hk : seqKind (node p n).kind = true) (hb : isTrailingBlank p k = false) (h : (s.rt k).started = true) :
    ((outState (stepBody p s n pc below)).rt k).started = true := by
  unfold stepBody
  simp only []
  split
  all_goals (try (rename_i hkind; rw [hkind] at hk; simp [seqKind] at hk; done))
  all_goals (repeat' split)
  all_goals (simp only [outState, rt_setRt, rt_emit, rt_finishNode, rt_markFailed, rt_markCompleted,
    rt_registerInterrupt, rt_tryActivate, getRt_eq, started_endBlockStep, started_endBlocksStep])
  all_goals (try (repeat' split))
  all_goals (try subst_vars)
  all_goals (try (first | (rw [started_endBlockStep]; exact h) | (rw [started_endBlocksStep]; exact h)))
  all_goals (try (simp_all [isTrailingBlank]; done))
  all_goals (try exact h)

theorem stepFrame_started_mono (p : Prog) (hseq : sequential p = true) (s : St) (f : Frame) (below : List Frame)
    (k : Nat) (hb : isTrailingBlank p k = false) (h : (s.rt k).started = true) :
    ((outState (stepFrame p s f below)).rt k).started = true := by
  cases f with
  | body n pc => exact stepBody_started_mono p s n pc below k (seq_kind p hseq n) hb h
  | callRet n m =>
    simp only [stepFrame, outState]
    unfold callFinish
    simp only [rt_setRt, rt_finishNode, getRt_eq]
    repeat' split
    all_goals (try subst_vars)
    all_goals exact h
  | _ =>
    unfold stepFrame
    simp only []
    repeat' split
    all_goals (simp only [outState, rt_setRt, rt_emit, rt_finishNode, getRt_eq])
    all_goals (try (repeat' split))
    all_goals (try subst_vars)
    all_goals (first | exact h | rfl)

theorem unwind_started (s : St) (stack : List Frame) (k : Nat) :
    (((unwind s stack).1).rt k).started = (s.rt k).started := by
  induction stack with
  | nil => rfl
  | cons f rest ih =>
    cases f <;> simp only [unwind, ih]
    simp only [rt_setRt]
    split
    · rename_i h; subst h; rfl
    · rfl

theorem stepGen_started_mono (p : Prog) (hseq : sequential p = true) (s : St) (st : List Frame)
    (k : Nat) (hb : isTrailingBlank p k = false) (h : (s.rt k).started = true) :
    (((stepGen p s st).1).rt k).started = true := by
  cases st with
  | nil => exact h
  | cons f below =>
    have := stepFrame_started_mono p hseq s f below k hb h
    unfold stepGen
    simp only []
    cases hst : stepFrame p s f below with
    | next s' top sig => rw [hst] at this; exact this
    | raise s' => rw [hst] at this; simp only [outState] at this; simp only []; rw [unwind_started]; exact this

theorem startedOrBlank_mono (p : Prog) (hseq : sequential p = true) (s : St) (st : List Frame) (n : Nat)
    (h : startedOrBlank p s n) : startedOrBlank p (stepGen p s st).1 n := by
  cases hb : isTrailingBlank p n with
  | true => exact Or.inr hb
  | false =>
    rcases h with h | h
    · exact Or.inl (stepGen_started_mono p hseq s st n hb h)
    · rw [hb] at h; cases h

/-- the new top frames: waiting wrappers, or frames of the stepped frame's own node — started by then -/
theorem top_nodes (p : Prog) (hseq : sequential p = true) (s : St) (f : Frame) (below : List Frame)
    (s' : St) (top : List Frame) (sig : Signal) (hst : stepFrame p s f below = .next s' top sig) :
    ∀ a ∈ top, exempt a = true ∨
      (frameNode a = frameNode f ∧ (exempt f = true → (s'.rt (frameNode f)).started = true)) := by
  cases f with
  | body n pc =>
    have hshape := stepBody_topShape p s n pc below (seq_kind p hseq n)
    simp only [stepFrame] at hst
    rw [hst] at hshape
    simp only [outTop] at hshape
    intro a ha
    exact Or.inr ⟨hshape.1 a ha, fun h => by simp [exempt] at h⟩
  | wrapEnter n =>
    by_cases hc : (s.rt n).completed = true
    · have : stepFrame p s (.wrapEnter n) below = .next s [] .cont := by
        simp only [stepFrame, getRt_eq, hc, if_true]
      rw [this] at hst; cases hst
      intro a ha; cases ha
    · have : stepFrame p s (.wrapEnter n) below =
          .next (setRt s n (fun r => { r with hasRecord := true })) [.wrapThr n] .cont := by
        simp only [stepFrame, getRt_eq, hc, if_false, Bool.false_eq_true]
      rw [this] at hst; cases hst
      intro a ha
      simp only [List.mem_singleton] at ha; subst ha
      exact Or.inl rfl
  | wrapThr n =>
    rcases wrapThr_cases p s n below s' top sig hst with ⟨_, e2⟩ | ⟨_, e2⟩ | ⟨e1, e2⟩ <;> subst e2
    · intro a ha; cases ha
    · intro a ha
      simp only [List.mem_singleton] at ha; subst ha
      exact Or.inl rfl
    · intro a ha
      simp only [List.mem_singleton] at ha; subst ha
      subst e1
      exact Or.inr ⟨rfl, fun _ => by simp [frameNode]⟩
  | wrapDispatch n =>
    simp only [stepFrame] at hst; cases hst
    intro a ha
    simp only [List.mem_cons, List.mem_nil_iff, or_false] at ha
    rcases ha with e | e <;> subst e <;> exact Or.inr ⟨rfl, fun h => by simp [exempt] at h⟩
  | wrapAfter n =>
    simp only [stepFrame] at hst; cases hst
    intro a ha; cases ha
  | callRet n m =>
    simp only [stepFrame] at hst; cases hst
    intro a ha
    simp only [List.mem_singleton] at ha; subst ha
    exact Or.inr ⟨rfl, fun h => by simp [exempt] at h⟩
  | waitLoop n e =>
    rcases waitLoop_cases p s n e below s' top sig hst with ⟨_, e2⟩ | ⟨_, e2⟩ <;> subst e2 <;>
      (intro a ha; simp only [List.mem_singleton] at ha; subst ha
       exact Or.inr ⟨rfl, fun h => by simp [exempt] at h⟩)
  | children n inx b =>
    cases b with
    | true =>
      simp only [stepFrame, if_true] at hst; cases hst
      intro a ha
      simp only [List.mem_singleton] at ha; subst ha
      exact Or.inr ⟨rfl, fun h => by simp [exempt] at h⟩
    | false =>
      rcases children_false_cases p s n inx below with ⟨s1, h1, _⟩ | ⟨h1, _⟩ | ⟨c, hc, hge, h1⟩ <;>
        rw [h1] at hst <;> cases hst
      · intro a ha; cases ha
      · intro a ha
        simp only [List.mem_singleton] at ha; subst ha
        exact Or.inr ⟨rfl, fun h => by simp [exempt] at h⟩
      · intro a ha
        simp only [List.mem_cons, List.mem_nil_iff, or_false] at ha
        rcases ha with e | e <;> subst e
        · exact Or.inl rfl
        · exact Or.inr ⟨rfl, fun h => by simp [exempt] at h⟩

/-- `child_index` of `k` grows only in a step of a (non-waiting) frame of `k` itself -/
theorem ci_grows_only_by_own_frame (p : Prog) (hseq : sequential p = true) (s : St) (f : Frame) (below : List Frame)
    (k : Nat) (h : (s.rt k).childIndex = 0) (h' : 0 < ((outState (stepFrame p s f below)).rt k).childIndex) :
    frameNode f = k ∧ exempt f = false := by
  cases f with
  | body n pc =>
    by_cases hkn : k = n
    · subst hkn; exact ⟨rfl, rfl⟩
    · have := stepBody_ci_other p s n pc below k (seq_kind p hseq n) hkn
      simp only [stepFrame] at h'
      rw [this, h] at h'; omega
  | callRet n m =>
    simp only [stepFrame, outState] at h'
    rw [(callFinish_ci_hr s n m k).1, h] at h'; omega
  | children n inx b =>
    cases b with
    | true =>
      by_cases hkn : k = n
      · subst hkn; exact ⟨rfl, rfl⟩
      · simp only [stepFrame, if_true, outState, rt_setRt, hkn, if_false] at h'
        rw [h] at h'; omega
    | false =>
      exfalso
      rcases children_false_cases p s n inx below with ⟨s1, h1, hrt⟩ | ⟨h1, _⟩ | ⟨c, hc, hge, h1⟩ <;>
        rw [h1] at h' <;> simp only [outState] at h'
      · rw [(hrt k).1, h] at h'; omega
      · rw [h] at h'; omega
      · rw [h] at h'; omega
  | _ =>
    exfalso
    unfold stepFrame at h'
    simp only [] at h'
    repeat' split at h'
    all_goals (simp only [outState, rt_setRt, rt_emit, rt_finishNode, getRt_eq] at h')
    all_goals (try (repeat' split at h'))
    all_goals (try subst_vars)
    all_goals (try (simp only [] at h'))
    all_goals (first | (rw [h] at h'; omega) | omega)

theorem unwind_ci' (s : St) (stack : List Frame) (k : Nat) :
    (((unwind s stack).1).rt k).childIndex = (s.rt k).childIndex := unwind_ci s stack k

/-- **One micro-step of a sequential method keeps `ScopeInv`.** -/
theorem scopeInv_stepGen (p : Prog) (hseq : sequential p = true) (s : St) (st : List Frame) (h : ScopeInv p s st) :
    ScopeInv p (stepGen p s st).1 (stepGen p s st).2.1 := by
  cases st with
  | nil => exact h
  | cons f below =>
    have hmono := fun n hn => startedOrBlank_mono p hseq s (f :: below) n hn
    have hadv : ∀ n, 0 < ((stepGen p s (f :: below)).1.rt n).childIndex →
        startedOrBlank p (stepGen p s (f :: below)).1 n := by
      intro n hn
      by_cases h0 : 0 < (s.rt n).childIndex
      · exact hmono n (h.advanced n h0)
      · have h0' : (s.rt n).childIndex = 0 := by omega
        have hci : 0 < ((outState (stepFrame p s f below)).rt n).childIndex := by
          unfold stepGen at hn
          simp only [] at hn
          cases hst : stepFrame p s f below with
          | next s' top sig => rw [hst] at hn; exact hn
          | raise s' => rw [hst] at hn; simp only [] at hn; rw [unwind_ci'] at hn; exact hn
        obtain ⟨e1, e2⟩ := ci_grows_only_by_own_frame p hseq s f below n h0' hci
        subst e1
        exact hmono _ (h.frames f (by simp) e2)
    refine ⟨?_, hadv⟩
    intro a ha hex
    unfold stepGen at ha ⊢
    simp only [] at ha ⊢
    cases hst : stepFrame p s f below with
    | next s' top sig =>
      rw [hst] at ha
      simp only [] at ha ⊢
      have hm : ∀ n, startedOrBlank p s n → startedOrBlank p s' n := by
        intro n hn
        have := hmono n hn
        unfold stepGen at this; simp only [] at this; rw [hst] at this; exact this
      rcases List.mem_append.mp ha with h1 | h1
      · rcases top_nodes p hseq s f below s' top sig hst a h1 with h2 | ⟨h2, h3⟩
        · rw [h2] at hex; cases hex
        · rw [h2]
          cases hf : exempt f with
          | true => exact Or.inl (h3 hf)
          | false => exact hm _ (h.frames f (by simp) hf)
      · exact hm _ (h.frames a (List.mem_cons_of_mem _ h1) hex)
    | raise s' =>
      rw [hst] at ha
      simp only [] at ha ⊢
      have hm : ∀ n, startedOrBlank p s n → startedOrBlank p (unwind s' below).1 n := by
        intro n hn
        have := hmono n hn
        unfold stepGen at this; simp only [] at this; rw [hst] at this; exact this
      obtain ⟨pre, hp⟩ := unwind_suffix s' below
      have : a ∈ below := by rw [hp]; exact List.mem_append_right _ ha
      exact hm _ (h.frames a (List.mem_cons_of_mem _ this) hex)

/-! ### lifting -/

theorem scopeInv_runGen (p : Prog) (hseq : sequential p = true) (fuel : Nat) (s : St) (st : List Frame)
    (h : ScopeInv p s st) : ScopeInv p (runGen p fuel s st).1 (runGen p fuel s st).2.1 := by
  induction fuel generalizing s st with
  | zero => exact h
  | succ fuel ih =>
    unfold runGen
    have h1 := scopeInv_stepGen p hseq s st h
    rcases hst : stepGen p s st with ⟨s1, st1, sig⟩
    rw [hst] at h1
    cases sig
    · exact ih s1 st1 h1
    · exact h1
    · exact h1

theorem scopeInv_of_proj (p : Prog) (s s' : St) (st : List Frame) (h : ScopeInv p s st)
    (hp : ∀ k, (s'.rt k).childIndex = (s.rt k).childIndex ∧ (s'.rt k).started = (s.rt k).started) :
    ScopeInv p s' st := by
  refine ⟨?_, ?_⟩
  · intro f hf hex
    rcases h.frames f hf hex with h1 | h1
    · exact Or.inl (by rw [(hp _).2]; exact h1)
    · exact Or.inr h1
  · intro n hn
    rw [(hp n).1] at hn
    rcases h.advanced n hn with h1 | h1
    · exact Or.inl (by rw [(hp n).2]; exact h1)
    · exact Or.inr h1

/-- the run state between ticks with both invariants -/
def SeqState2 (p : Prog) (s : St) : Prop :=
  s.imap = [] ∧ ∃ st, s.gens = [{ gid := 0, node := 0, stack := st }] ∧ SeqInv p s st ∧ ScopeInv p s st

theorem seqState2_tickF (fuel : Nat) (p : Prog) (hseq : sequential p = true) (s : St) (i : TickIn)
    (h : SeqState2 p s) : SeqState2 p (tickF fuel p s i).1 := by
  obtain ⟨him, st, hg, hi, hsc⟩ := h
  have hi0 : SeqInv p (tickStart s i) st := seqInv_of_proj p s _ st hi (fun k => ⟨rfl, rfl⟩)
  have hs0 : ScopeInv p (tickStart s i) st := scopeInv_of_proj p s _ st hsc (fun k => ⟨rfl, rfl⟩)
  have hc0 : CntInv (fun _ => 0) (tickStart s i) st := by
    intro k; simp [tickStart, cntStart]
  have hget : getGen (tickStart s i) 0 = some { gid := 0, node := 0, stack := st } := by
    simp [getGen, tickStart, hg]
  have hrun := seqAll_runGen p hseq (fun _ => 0) fuel (tickStart s i) st hi0 hc0 him
  have hrun2 := scopeInv_runGen p hseq fuel (tickStart s i) st hs0
  generalize hR : runGen p fuel (tickStart s i) st = R at hrun hrun2
  have hr : runGid p fuel (tickStart s i) 0 = (setGenStack R.1 0 R.2.1, R.2.2) := by
    unfold runGid
    rw [hget]
    simp only [hR]
  have hgens : (setGenStack R.1 0 R.2.1).gens = [{ gid := 0, node := 0, stack := R.2.1 }] := by
    unfold setGenStack
    simp only [hrun.2.2.2]
    simp [tickStart, hg]
  have himap : (setGenStack R.1 0 R.2.1).imap = [] := hrun.2.2.1
  have htick : (tickF fuel p s i).1 =
      { (setGenStack R.1 0 R.2.1) with gens := [{ gid := 0, node := 0, stack := R.2.1 }] } := by
    unfold tickF
    simp only [hr, himap, List.map_nil, List.foldl_nil, hgens]
    simp
  have hrt : ∀ k, (tickF fuel p s i).1.rt k = R.1.rt k := by
    intro k; rw [htick]; rfl
  refine ⟨by rw [htick]; exact himap, R.2.1, by rw [htick], ?_, ?_⟩
  · exact seqInv_of_proj p _ _ _ hrun.1 (fun k => by rw [hrt k]; exact ⟨rfl, rfl⟩)
  · exact scopeInv_of_proj p _ _ _ hrun2 (fun k => by rw [hrt k]; exact ⟨rfl, rfl⟩)

theorem seqState2_setRt (p : Prog) (s : St) (n : Nat) (f : NodeRt → NodeRt)
    (hf : ∀ r, (f r).childIndex = r.childIndex ∧ (f r).hasRecord = r.hasRecord ∧ (f r).started = r.started)
    (h : SeqState2 p s) : SeqState2 p (setRt s n f) := by
  obtain ⟨him, st, hg, hi, hsc⟩ := h
  have hp : ∀ k, ((setRt s n f).rt k).childIndex = (s.rt k).childIndex ∧
      ((setRt s n f).rt k).hasRecord = (s.rt k).hasRecord ∧ ((setRt s n f).rt k).started = (s.rt k).started := by
    intro k; simp only [rt_setRt]; split
    · rename_i e; subst e; exact hf _
    · exact ⟨rfl, rfl, rfl⟩
  exact ⟨him, st, hg, seqInv_of_proj p s _ st hi (fun k => ⟨(hp k).1, (hp k).2.1⟩),
    scopeInv_of_proj p s _ st hsc (fun k => ⟨(hp k).1, (hp k).2.2⟩)⟩

theorem seqState2_applyReq (p : Prog) (hseq : sequential p = true) (s : St) (r : Req) (h : SeqState2 p s) :
    SeqState2 p (applyReq p s r) := by
  cases r with
  | tick i =>
    simp only [applyReq]
    rw [tick_eq_tickF]
    exact seqState2_tickF microFuel p hseq s i h
  | cancel n =>
    simp only [applyReq]
    cases hc : cancel p s n with
    | none => exact h
    | some s' =>
      simp only [Option.getD]
      unfold cancel at hc
      split at hc
      · cases hc; exact seqState2_setRt p s n _ (fun _ => ⟨rfl, rfl, rfl⟩) h
      · cases hc
  | force n =>
    simp only [applyReq]
    cases hc : force p s n with
    | none => exact h
    | some s' =>
      simp only [Option.getD]
      unfold force at hc
      split at hc
      · cases hc; exact seqState2_setRt p s n _ (fun _ => ⟨rfl, rfl, rfl⟩) h
      · cases hc
  | complete n =>
    simp only [applyReq]
    split
    · unfold completeCmd
      split
      · exact h
      · exact seqState2_setRt p s n _ (fun _ => ⟨rfl, rfl, rfl⟩) h
    · exact h

theorem seqState2_init (p : Prog) : SeqState2 p (init p) := by
  obtain ⟨h1, st, h2, h3, _⟩ := seqState_init p
  refine ⟨h1, st, h2, h3, ?_⟩
  simp only [init, List.cons.injEq, and_true] at h2
  have : st = [.wrapEnter 0] := by
    have := h2; simp only [Gen.mk.injEq, true_and] at this; exact this.symm
  subst this
  refine ⟨?_, ?_⟩
  · intro f hf hex
    simp only [List.mem_singleton] at hf; subst hf; simp [exempt] at hex
  · intro n hn; simp [init] at hn

theorem seqState2_final (p : Prog) (hseq : sequential p = true) (reqs : List Req) : SeqState2 p (final p reqs) := by
  unfold final run
  have : ∀ (acc : St × List Event), SeqState2 p acc.1 → SeqState2 p (reqs.foldl (execStep p) acc).1 := by
    induction reqs with
    | nil => intro acc h; exact h
    | cons r rs ih => intro acc h; exact ih _ (seqState2_applyReq p hseq acc.1 r h)
  exact this _ (seqState2_init p)

end OPM.InterpC02
