import OPM.Lemmas.InterpC04Events
set_option linter.unusedSimpArgs false
set_option linter.unusedVariables false
/-!
C04 lemmas: the `scope_activate` event of a Watch/Alarm is emitted in exactly the micro-step that
emits its `bodyStart` (same text as the `bodyStart` lemmas, for the other event).  This ties the
event the theorems speak about to the `sa:<n>` observation that the shared M3 driver prints and that
the correspondence compares with the real emitter's `emit_on_scope_activate`.
-/
namespace OPM.Interp

/-- number of `scopeActivate w` events in the tick's event log -/
def saCount (s : St) (w : Nat) : Nat := s.events.count (Event.scopeActivate w)

@[simp] theorem sa_setRt (s : St) (n : Nat) (f : NodeRt → NodeRt) (w : Nat) :
    saCount (setRt s n f) w = saCount s w := rfl

theorem sa_emit (s : St) (e : Event) (w : Nat) :
    saCount (emit s e) w = saCount s w + (if e = Event.scopeActivate w then 1 else 0) := by
  simp only [saCount, events_emit, List.count_cons]
  by_cases h : e = Event.scopeActivate w <;> simp [h]

@[simp] theorem sa_emit_ne (s : St) (e : Event) (w : Nat) (h : ∀ k, e ≠ Event.scopeActivate k) :
    saCount (emit s e) w = saCount s w := by
  rw [sa_emit]; simp [h w]

@[simp] theorem sa_markCompleted (s : St) (n w : Nat) : saCount (markCompleted s n) w = saCount s w := by
  unfold markCompleted
  simp only []
  split <;> simp [sa_emit]

@[simp] theorem sa_finishNode (s : St) (n w : Nat) : saCount (finishNode s n) w = saCount s w := by
  unfold finishNode; simp

@[simp] theorem sa_markFailed (s : St) (n w : Nat) : saCount (markFailed s n) w = saCount s w := by
  unfold markFailed; simp [sa_emit]

@[simp] theorem sa_tryActivate (s : St) (n : Nat) (c : Cond) (w : Nat) :
    saCount (tryActivate s n c) w = saCount s w := by
  unfold tryActivate
  simp only []
  repeat' split
  all_goals rfl

@[simp] theorem sa_registerInterrupt (p : Prog) (s : St) (n w : Nat) :
    saCount (registerInterrupt p s n) w = saCount s w := by
  unfold registerInterrupt
  simp only []
  split <;> simp [sa_emit, saCount, emit, setRt]

@[simp] theorem sa_unregisterInterrupt (s : St) (n w : Nat) :
    saCount (unregisterInterrupt s n) w = saCount s w := by
  unfold unregisterInterrupt
  simp [sa_emit, saCount, emit, setRt]

theorem sa_foldl_keep {α : Type} (g : St → α → St) (w : Nat)
    (hg : ∀ s a, saCount (g s a) w = saCount s w) (l : List α) (s : St) :
    saCount (l.foldl g s) w = saCount s w := by
  induction l generalizing s with
  | nil => rfl
  | cons a l ih => simp [List.foldl, ih, hg]

@[simp] theorem sa_abort (p : Prog) (s : St) (b w : Nat) :
    saCount (abortBlockInterrupts p s b) w = saCount s w := by
  unfold abortBlockInterrupts
  apply sa_foldl_keep
  intro s a
  split <;> simp

@[simp] theorem sa_resetSubtree (p : Prog) (s : St) (n w : Nat) :
    saCount (resetSubtree p s n) w = saCount s w := by
  unfold resetSubtree
  apply sa_foldl_keep
  intro s a; rfl

@[simp] theorem sa_endOneBlock (p : Prog) (s : St) (old : Nat) (nm : String) (w : Nat) :
    saCount (endOneBlock p s old nm) w = saCount s w := by
  unfold endOneBlock
  simp [sa_emit]

@[simp] theorem sa_endBlockStep (p : Prog) (s : St) (w : Nat) :
    saCount (endBlockStep p s) w = saCount s w := by
  unfold endBlockStep
  split
  · rfl
  · simp only [sa_endOneBlock]; rfl

@[simp] theorem sa_endBlocksStep (p : Prog) (s : St) (w : Nat) :
    saCount (endBlocksStep p s) w = saCount s w := by
  unfold endBlocksStep
  simp only []
  show saCount (List.foldl _ s _) w = _
  apply sa_foldl_keep
  intro s a; simp

@[simp] theorem sa_alarmRearm (p : Prog) (s : St) (n w : Nat) :
    saCount (alarmRearm p s n) w = saCount s w := by
  unfold alarmRearm
  simp [sa_emit]

@[simp] theorem sa_callPrepare (p : Prog) (s : St) (m w : Nat) :
    saCount (callPrepare p s m) w = saCount s w := by
  unfold callPrepare
  simp only []
  split <;> simp

@[simp] theorem sa_callFinish (s : St) (n m w : Nat) :
    saCount (callFinish s n m) w = saCount s w := by
  unfold callFinish
  simp


/-- Only the invocation point (`pc = 2`) of a Watch/Alarm appends a `bodyStart` event for it. -/
theorem stepBody_sa (p : Prog) (s : St) (n pc : Nat) (below : List Frame) (w : Nat) (hw : isCond p w = true) :
    saCount (outState (stepBody p s n pc below)) w = saCount s w ∨ (w = n ∧ pc = 2) := by
  by_cases hc : w = n ∧ pc = 2
  · exact Or.inr hc
  · left
    unfold isCond at hw
    unfold stepBody
    simp only []
    split
    all_goals (repeat' split)
    all_goals (try simp only [outState, sa_setRt, sa_finishNode, sa_markFailed, sa_markCompleted,
      sa_registerInterrupt, sa_unregisterInterrupt, sa_tryActivate, sa_abort, sa_endBlockStep, sa_endBlocksStep,
      sa_alarmRearm, sa_callPrepare, sa_callFinish, sa_emit])
    all_goals (try (simp [saCount]; done))
    all_goals (try (simp_all [saCount]; done))
    all_goals (
      have hne : ¬ (Event.scopeActivate n = Event.scopeActivate w) := by
        intro e; injection e with e; subst e; simp_all
      simp [saCount, hne, emit, setRt])

theorem sa_unwind (s : St) (stack : List Frame) (w : Nat) :
    saCount (unwind s stack).1 w = saCount s w := by
  induction stack with
  | nil => rfl
  | cons f rest ih =>
    cases f <;> simp only [unwind, ih]
    rfl

theorem stepFrame_sa (p : Prog) (s : St) (f : Frame) (below : List Frame) (w : Nat) (hw : isCond p w = true) :
    saCount (outState (stepFrame p s f below)) w = saCount s w ∨ f = .body w 2 := by
  cases f with
  | body n pc =>
    rcases stepBody_sa p s n pc below w hw with h | ⟨e1, e2⟩
    · exact Or.inl h
    · subst e1; subst e2; exact Or.inr rfl
  | _ =>
    left
    unfold stepFrame
    simp only []
    repeat' split
    all_goals (try simp only [outState, sa_setRt, sa_finishNode, sa_callFinish, sa_emit])
    all_goals (try (simp [saCount]; done))

/-- **Body-start guard (where).** A micro-step of a generator appends a `bodyStart w` event for a
    Watch/Alarm `w` only if the stepped frame is `w`'s invocation point. -/
theorem stepGen_sa (p : Prog) (s : St) (stack : List Frame) (w : Nat) (hw : isCond p w = true) :
    saCount (stepGen p s stack).1 w = saCount s w ∨ stack.head? = some (.body w 2) := by
  unfold stepGen
  cases stack with
  | nil => exact Or.inl rfl
  | cons f below =>
    simp only []
    have := stepFrame_sa p s f below w hw
    cases hs : stepFrame p s f below with
    | next s' top sig =>
      rw [hs] at this
      rcases this with h | h
      · exact Or.inl h
      · exact Or.inr (by rw [h]; rfl)
    | raise s' =>
      rw [hs] at this
      simp only []
      rw [sa_unwind]
      rcases this with h | h
      · exact Or.inl h
      · exact Or.inr (by rw [h]; rfl)

theorem sa_pc2 (s : St) (w k : Nat) :
    saCount (emit (emit s (.scopeActivate w)) (.bodyStart w)) k = saCount s k + (if w = k then 1 else 0) := by
  rw [sa_emit, sa_emit]
  by_cases h : w = k <;> simp [h]


/-- In every micro-step, for a Watch/Alarm `w`: as many `scope_activate` events as `bodyStart` events
    are appended (none, or one of each at the invocation point). -/
theorem stepGen_sa_eq_bs (p : Prog) (s : St) (stack : List Frame) (w : Nat) (hw : isCond p w = true) :
    saCount (stepGen p s stack).1 w - saCount s w = bsCount (stepGen p s stack).1 w - bsCount s w := by
  by_cases h : stack.head? = some (.body w 2)
  · cases stack with
    | nil => cases h
    | cons f rest =>
      simp only [List.head?, Option.some.injEq] at h
      subst h
      rw [stepGen_pc2 p s w rest hw, sa_pc2, bs_pc2]
      simp
  · have h1 : saCount (stepGen p s stack).1 w = saCount s w := by
      rcases stepGen_sa p s stack w hw with h1 | h1
      · exact h1
      · exact absurd h1 h
    have h2 : bsCount (stepGen p s stack).1 w = bsCount s w := by
      rcases stepGen_bs p s stack w hw with h2 | h2
      · exact h2
      · exact absurd h2 h
    rw [h1, h2]; simp

end OPM.Interp
