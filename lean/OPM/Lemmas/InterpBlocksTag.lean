import OPM.Lemmas.InterpBlocksStep
set_option linter.unusedSimpArgs false
set_option linter.unusedVariables false
/-!
# Blocks: the chain invariant and the Block-tag invariant, micro-step by micro-step  (C05)

* `chain_stepGen … chain_tick`: the locked blocks stay a chain (every program, every schedule).
* `activeBlocks` = locked and not ended, innermost first; `TagOk`: the Block tag is the name of the first
  active block, empty when there is none.
* `exoticStep`: the four kinds of micro-step outside the Block-tag theorem, as a decidable test on the state
  and the frame about to be stepped; `tagOk_stepGen`: every other micro-step of every generator keeps `TagOk`.
-/
namespace OPM.Interp

/-! ## the chain invariant -/

theorem chain_of_lock_step (p : Prog) (s s' : St) (n : Nat)
    (hstep : ∀ k, (s'.rt k).lockAcquired = true →
      (s.rt k).lockAcquired = true ∨ (k = n ∧ AcqOk p s k))
    (h : Chain p s) : Chain p s' := by
  intro a b ha hb
  rw [mem_lockedBlocks] at ha hb
  have old : ∀ k, k < p.size → (node p k).inProgram = true → isBlock p k = true →
      (s.rt k).lockAcquired = true → k ∈ lockedBlocks p s := by
    intro k h1 h2 h3 h4; exact (mem_lockedBlocks p s k).mpr ⟨h1, h2, h3, h4⟩
  rcases hstep a ha.2.2.2 with la | ⟨ea, _, acqa⟩ <;> rcases hstep b hb.2.2.2 with lb | ⟨eb, _, acqb⟩
  · exact h a b (old a ha.1 ha.2.1 ha.2.2.1 la) (old b hb.1 hb.2.1 hb.2.2.1 lb)
  · -- b acquires now: every locked block is an ancestor of b
    right; left
    have := List.all_eq_true.mp acqb a (old a ha.1 ha.2.1 ha.2.2.1 la)
    simpa using this
  · right; right
    have := List.all_eq_true.mp acqa b (old b hb.1 hb.2.1 hb.2.2.1 lb)
    simpa using this
  · left; rw [ea, eb]

/-- Every micro-step of every generator preserves the chain. -/
theorem chain_stepGen (p : Prog) (s : St) (stack : List Frame) (h : Chain p s) :
    Chain p (stepGen p s stack).1 := by
  cases stack with
  | nil => exact h
  | cons f below =>
    apply chain_of_lock_step p s _ (frameNode f) _ h
    intro k hk
    rcases stepGen_lock p s (f :: below) k hk with h1 | ⟨f', hf, e, acq⟩
    · exact Or.inl h1
    · simp only [List.head?, Option.some.injEq] at hf
      subst hf
      exact Or.inr ⟨e, acq⟩

theorem chain_congr (p : Prog) (s s' : St) (hrt : s'.rt = s.rt) (h : Chain p s) : Chain p s' := by
  apply chain_of_lock_step p s s' 0 _ h
  intro k hk; left; rw [hrt] at hk; exact hk

theorem chain_runGen (p : Prog) (fuel : Nat) (s : St) (stack : List Frame) (h : Chain p s) :
    Chain p (runGen p fuel s stack).1 := by
  induction fuel generalizing s stack with
  | zero => exact h
  | succ fuel ih =>
    unfold runGen
    have h1 := chain_stepGen p s stack h
    rcases hs : stepGen p s stack with ⟨s1, stack1, sig⟩
    rw [hs] at h1
    cases sig
    · exact ih s1 stack1 h1
    · exact h1
    · exact h1

theorem chain_runGid (p : Prog) (fuel : Nat) (s : St) (gid : Nat) (h : Chain p s) :
    Chain p (runGid p fuel s gid).1 := by
  unfold runGid
  split
  · exact h
  · rename_i g _
    have h1 := chain_runGen p fuel s g.stack h
    rcases hr : runGen p fuel s g.stack with ⟨s1, stack1, ok⟩
    rw [hr] at h1
    exact chain_congr p s1 _ rfl h1

theorem chain_foldInterrupts (p : Prog) (l : List Nat) (acc : St × Bool) (h : Chain p acc.1) :
    Chain p (l.foldl (fun (acc : St × Bool) gid =>
      let r := runGid p microFuel { acc.1 with inInterrupt := true } gid
      ({ r.1 with inInterrupt := false }, acc.2 && r.2)) acc).1 := by
  induction l generalizing acc with
  | nil => exact h
  | cons g l ih =>
    simp only [List.foldl]
    apply ih
    apply chain_congr p _ _ rfl
    exact chain_runGid p microFuel _ g (chain_congr p acc.1 _ rfl h)

/-- A whole interpreter tick preserves the chain. -/
theorem chain_tick (p : Prog) (s : St) (i : TickIn) (h : Chain p s) : Chain p (tick p s i).1 := by
  unfold tick
  simp only []
  apply chain_congr p _ _ rfl
  apply chain_foldInterrupts
  apply chain_runGid
  exact chain_congr p s _ rfl h

theorem chain_init (p : Prog) : Chain p (init p) := by
  intro a b ha _
  rw [mem_lockedBlocks] at ha
  simp [init] at ha

theorem chain_setRt_keep (p : Prog) (s : St) (n : Nat) (f : NodeRt → NodeRt)
    (hf : ∀ r, (f r).lockAcquired = r.lockAcquired) (h : Chain p s) : Chain p (setRt s n f) := by
  apply chain_of_lock_step p s _ 0 _ h
  intro k hk; left
  simp only [rt_setRt] at hk
  split at hk
  · rename_i e; subst e; rw [hf] at hk; exact hk
  · exact hk

/-! ## everything about blocks depends on the state through (tag, locks, ended) only -/

theorem lockedBlocks_congr (p : Prog) (s s' : St)
    (h : ∀ k, (s'.rt k).lockAcquired = (s.rt k).lockAcquired) : lockedBlocks p s' = lockedBlocks p s := by
  unfold lockedBlocks
  simp only [getRt_eq, h]

theorem lockedBlocks_same (p : Prog) {s s' : St} (h : BlkSame s s') : lockedBlocks p s' = lockedBlocks p s :=
  lockedBlocks_congr p s s' (fun k => (h.2 k).1)

theorem chain_same (p : Prog) {s s' : St} (h : BlkSame s s') (hc : Chain p s) : Chain p s' := by
  unfold Chain; rw [lockedBlocks_same p h]; exact hc

theorem activeBlocks_congr (p : Prog) (s s' : St)
    (hl : ∀ k, (s'.rt k).lockAcquired = (s.rt k).lockAcquired)
    (he : ∀ k, (s.rt k).lockAcquired = true → (s'.rt k).blockEnded = (s.rt k).blockEnded) :
    activeBlocks p s' = activeBlocks p s := by
  unfold activeBlocks
  rw [lockedBlocks_congr p s s' hl]
  apply List.filter_congr
  intro b hb
  rw [he b ((mem_lockedBlocks p s b).mp hb).2.2.2]

theorem tagOk_congr (p : Prog) (s s' : St) (ht : s'.blockTag = s.blockTag)
    (hl : ∀ k, (s'.rt k).lockAcquired = (s.rt k).lockAcquired)
    (he : ∀ k, (s.rt k).lockAcquired = true → (s'.rt k).blockEnded = (s.rt k).blockEnded)
    (h : TagOk p s) : TagOk p s' := by
  unfold TagOk innermostName at *
  rw [ht, activeBlocks_congr p s s' hl he]; exact h

theorem activeBlocks_same (p : Prog) {s s' : St} (h : BlkSame s s') : activeBlocks p s' = activeBlocks p s :=
  activeBlocks_congr p s s' (fun k => (h.2 k).1) (fun k _ => (h.2 k).2)

theorem tagOk_same (p : Prog) {s s' : St} (h : BlkSame s s') (ht : TagOk p s) : TagOk p s' :=
  tagOk_congr p s s' h.1 (fun k => (h.2 k).1) (fun k _ => (h.2 k).2) ht

/-! ## End block / End blocks: the state change -/

theorem ended_endOneBlock (p : Prog) (s : St) (old : Nat) (nm : String) (k : Nat) :
    ((endOneBlock p s old nm).rt k).blockEnded = if k = old then true else (s.rt k).blockEnded := by
  unfold endOneBlock
  simp only [rt_emit, ended_abort, rt_setRt]
  split
  · rfl
  · rfl

@[simp] theorem blockTag_endOneBlock (p : Prog) (s : St) (old : Nat) (nm : String) :
    (endOneBlock p s old nm).blockTag = s.blockTag := by
  unfold endOneBlock; simp

theorem imap_endOneBlock (p : Prog) (s : St) (old : Nat) (nm : String) :
    (endOneBlock p s old nm).imap = s.imap.filter (fun e => !(descendants p old).contains e.1) := by
  unfold endOneBlock
  simp only [emit]
  rw [imap_abort]; rfl

/-- What `End block` does when `get_locked_blocks()` is `old :: rest`. -/
theorem endBlockStep_cons (p : Prog) (s : St) (old : Nat) (rest : List Nat)
    (hl : lockedBlocks p s = old :: rest) :
    (endBlockStep p s).blockTag = rest.head?.map (blockName p) ∧
    (∀ k, ((endBlockStep p s).rt k).blockEnded = if k = old then true else (s.rt k).blockEnded) ∧
    (∀ k, ((endBlockStep p s).rt k).lockAcquired = (s.rt k).lockAcquired) ∧
    (endBlockStep p s).imap = s.imap.filter (fun e => !(descendants p old).contains e.1) := by
  simp only [endBlockStep, hl]
  refine ⟨by simp, fun k => ?_, fun k => lock_endOneBlock p _ old _ k, ?_⟩
  · rw [ended_endOneBlock]
  · rw [imap_endOneBlock]

theorem endBlockStep_nil (p : Prog) (s : St) (hl : lockedBlocks p s = []) : endBlockStep p s = s := by
  simp [endBlockStep, hl]

theorem ended_foldl_endOneBlock (p : Prog) (l : List (Nat × Nat)) (g : Nat × Nat → String) (s : St) (k : Nat) :
    ((l.foldl (fun s x => endOneBlock p s x.1 (g x)) s).rt k).blockEnded =
      ((s.rt k).blockEnded || (l.map (·.1)).contains k) := by
  induction l generalizing s with
  | nil => simp
  | cons x l ih =>
    simp only [List.foldl, List.map_cons]
    rw [ih, ended_endOneBlock]
    by_cases hk : k = x.1
    · subst hk; simp
    · have h1 : (k == x.1) = false := by simp [hk]
      simp [hk, h1]

/-- What `End blocks` does: the tag is cleared, exactly the locked blocks get `block_ended`, no lock moves. -/
theorem endBlocksStep_effect (p : Prog) (s : St) :
    (endBlocksStep p s).blockTag = none ∧
    (∀ k, ((endBlocksStep p s).rt k).blockEnded = ((s.rt k).blockEnded || (lockedBlocks p s).contains k)) ∧
    (∀ k, ((endBlocksStep p s).rt k).lockAcquired = (s.rt k).lockAcquired) := by
  refine ⟨rfl, fun k => ?_, fun k => lock_endBlocksStep p s k⟩
  simp only [endBlocksStep]
  have := ended_foldl_endOneBlock p (lockedBlocks p s).zipIdx
    (fun x => if x.2 + 1 < (lockedBlocks p s).length - 1 then
      ((lockedBlocks p s)[x.2 + 1]?.map (blockName p)).getD "" else "") s k
  have hm : List.map (fun x : Nat × Nat => x.1) (lockedBlocks p s).zipIdx = lockedBlocks p s :=
    List.zipIdx_map_fst 0 _
  rw [hm] at this
  exact this

/-! ## how the locked list moves -/

theorem lockedBlocks_acquire (p : Prog) (s s1 : St) (n : Nat) (hwf : ProgWF p = true)
    (hch : Chain p s) (hch1 : Chain p s1) (hb : isBlock p n = true)
    (hall : (lockedBlocks p s).all (fun b => (ancestors p n).contains b) = true)
    (hl1 : ∀ k, (s1.rt k).lockAcquired = if k = n then true else (s.rt k).lockAcquired) :
    lockedBlocks p s1 = n :: lockedBlocks p s := by
  apply lockedBlocks_unique p s1 hwf hch1
  · rw [List.pairwise_cons]
    refine ⟨?_, lockedBlocks_pairwise p s hwf hch⟩
    intro y hy
    have := List.all_eq_true.mp hall y hy
    simpa [Deeper] using this
  · intro x
    have hn := isBlock_lt_size p n hb
    rw [List.mem_cons, mem_lockedBlocks, mem_lockedBlocks, hl1]
    by_cases hx : x = n
    · subst hx
      simp only [if_true, true_or, true_iff, and_true]
      exact ⟨hn, (wf_node p hwf x hn).1, hb⟩
    · simp [hx]

theorem lockedBlocks_release (p : Prog) (s s1 : St) (n : Nat) (hwf : ProgWF p = true)
    (hch : Chain p s) (hch1 : Chain p s1)
    (hl1 : ∀ k, (s1.rt k).lockAcquired = if k = n then false else (s.rt k).lockAcquired) :
    lockedBlocks p s1 = (lockedBlocks p s).filter (fun b => b != n) := by
  apply lockedBlocks_unique p s1 hwf hch1
  · exact List.Pairwise.filter _ (lockedBlocks_pairwise p s hwf hch)
  · intro x
    rw [List.mem_filter, mem_lockedBlocks, mem_lockedBlocks, hl1]
    by_cases hx : x = n
    · subst hx; simp
    · simp [hx]

/-! ## the micro-steps outside the Block-tag theorem -/

theorem tagOk_reset (p : Prog) (s : St) (root : Nat)
    (hno : (root :: descendants p root).any (fun k => (s.rt k).lockAcquired) = false)
    (h : TagOk p s) : TagOk p (resetSubtree p s root) := by
  have hno' : ∀ k, k ∈ root :: descendants p root → (s.rt k).lockAcquired = false := by
    intro k hk
    cases hl : (s.rt k).lockAcquired with
    | false => rfl
    | true =>
      have : (root :: descendants p root).any (fun k => (s.rt k).lockAcquired) = true :=
        List.any_eq_true.mpr ⟨k, hk, hl⟩
      rw [hno] at this; cases this
  apply tagOk_congr p s _ (blockTag_resetSubtree p s root) _ _ h
  · intro k
    rw [rt_resetSubtree_mem]
    split
    · rename_i hk; rw [hno' k hk]; rfl
    · rfl
  · intro k hk
    rw [rt_resetSubtree_mem]
    split
    · rename_i hm; rw [hno' k hm] at hk; cases hk
    · rfl

theorem tagOk_acquire (p : Prog) (s s1 : St) (n : Nat) (name : String) (hwf : ProgWF p = true)
    (hch : Chain p s) (hch1 : Chain p s1)
    (hk : (node p n).kind = .block name)
    (hall : (lockedBlocks p s).all (fun b => (ancestors p n).contains b) = true)
    (hne : (s.rt n).blockEnded = false)
    (ht : s1.blockTag = some name)
    (hl1 : ∀ k, (s1.rt k).lockAcquired = if k = n then true else (s.rt k).lockAcquired)
    (he1 : ∀ k, (s1.rt k).blockEnded = (s.rt k).blockEnded) :
    TagOk p s1 := by
  have hb : isBlock p n = true := by simp [isBlock, hk]
  have hL := lockedBlocks_acquire p s s1 n hwf hch hch1 hb hall hl1
  unfold TagOk innermostName activeBlocks
  rw [hL, ht]
  have h2 : (!(s1.rt n).blockEnded) = true := by rw [he1, hne]; rfl
  rw [List.filter_cons, if_pos h2]
  simp [tagName, blockName, hk]

theorem tagOk_release (p : Prog) (s s1 : St) (n : Nat) (hwf : ProgWF p = true)
    (hch : Chain p s) (hch1 : Chain p s1)
    (he : (s.rt n).blockEnded = true) (h : TagOk p s)
    (ht : s1.blockTag = s.blockTag)
    (hl1 : ∀ k, (s1.rt k).lockAcquired = if k = n then false else (s.rt k).lockAcquired)
    (he1 : ∀ k, (s1.rt k).blockEnded = (s.rt k).blockEnded) :
    TagOk p s1 := by
  have hL := lockedBlocks_release p s s1 n hwf hch hch1 hl1
  unfold TagOk innermostName activeBlocks at *
  rw [hL, List.filter_filter, ht]
  have : List.filter (fun a => (!(s1.rt a).blockEnded) && (a != n)) (lockedBlocks p s) =
      List.filter (fun b => !(s.rt b).blockEnded) (lockedBlocks p s) := by
    apply List.filter_congr
    intro b _
    rw [he1]
    by_cases hb : b = n
    · subst hb; simp [he]
    · simp [hb]
  rw [this]
  exact h

theorem tagOk_endBlock (p : Prog) (s : St) (hwf : ProgWF p = true) (hch : Chain p s)
    (hex : (match lockedBlocks p s with | _ :: b :: _ => (s.rt b).blockEnded | _ => false) = false)
    (h : TagOk p s) : TagOk p (endBlockStep p s) := by
  cases hl : lockedBlocks p s with
  | nil => rw [endBlockStep_nil p s hl]; exact h
  | cons old rest =>
    obtain ⟨ht, he, hlk, _⟩ := endBlockStep_cons p s old rest hl
    have hL : lockedBlocks p (endBlockStep p s) = old :: rest := by
      rw [lockedBlocks_congr p s _ hlk, hl]
    have hpw := lockedBlocks_pairwise p s hwf hch
    rw [hl, List.pairwise_cons] at hpw
    unfold TagOk innermostName activeBlocks
    rw [hL, ht]
    simp only [List.filter_cons, he, if_true, Bool.not_true]
    cases rest with
    | nil => simp [tagName]
    | cons b rest' =>
      rw [hl] at hex
      simp only at hex
      have hbo : b ≠ old := by
        have := ancestors_lt p hwf old b (hpw.1 b (List.mem_cons_self ..))
        omega
      simp [hbo, hex, tagName]

theorem tagOk_endBlocks (p : Prog) (s : St) : TagOk p (endBlocksStep p s) := by
  obtain ⟨ht, he, hlk⟩ := endBlocksStep_effect p s
  unfold TagOk innermostName activeBlocks
  rw [ht, lockedBlocks_congr p s _ hlk]
  have : List.filter (fun b => !((endBlocksStep p s).rt b).blockEnded) (lockedBlocks p s) = [] := by
    rw [List.filter_eq_nil_iff]
    intro b hb
    rw [he]
    simp [hb]
  rw [this]
  rfl

/-! ## every non-exotic micro-step keeps the Block tag right -/

theorem tagOk_stepBody (p : Prog) (s : St) (n pc : Nat) (below : List Frame) (hwf : ProgWF p = true)
    (hch : Chain p s) (hch' : Chain p (outState (stepBody p s n pc below)))
    (hex : exoticStep p s (.body n pc :: below) = false) (h : TagOk p s) :
    TagOk p (outState (stepBody p s n pc below)) := by
  have eff := stepBody_blk p s n pc below
  generalize outState (stepBody p s n pc below) = s' at *
  cases eff with
  | same hs => exact tagOk_same p hs h
  | acquire name hk hpc hnl hall hs =>
    subst hpc
    have hne : (s.rt n).blockEnded = false := by
      simp only [exoticStep, hk, hnl] at hex
      simpa using hex
    apply tagOk_acquire p s s' n name hwf hch hch' hk hall hne
    · rw [hs.1]
    · intro k; rw [(hs.2 k).1]; simp only [rt_setRt]; split <;> rfl
    · intro k; rw [(hs.2 k).2]; simp only [rt_setRt]; split
      · rename_i e; subst e; rfl
      · rfl
  | release hb hcond hs =>
    have hl1 : ∀ k, (s'.rt k).lockAcquired = if k = n then false else (s.rt k).lockAcquired := by
      intro k; rw [(hs.2 k).1]; simp only [rt_setRt]; split <;> rfl
    have he1 : ∀ k, (s'.rt k).blockEnded = (s.rt k).blockEnded := by
      intro k; rw [(hs.2 k).2]; simp only [rt_setRt]; split
      · rename_i e; subst e; rfl
      · rfl
    have ht : s'.blockTag = s.blockTag := by rw [hs.1]; rfl
    cases he : (s.rt n).blockEnded with
    | true => exact tagOk_release p s s' n hwf hch hch' he h ht hl1 he1
    | false =>
      -- not ended: this is the "already completed" path at pc 0; non-exotic means the lock was not held
      rcases hcond with he' | ⟨hpc, hc⟩
      · rw [he] at he'; cases he'
      · subst hpc
        have hlk : (s.rt n).lockAcquired = false := by
          unfold isBlock at hb
          split at hb
          · rename_i nm hk
            simp only [exoticStep, hk, hc, he] at hex
            simpa using hex
          · cases hb
        apply tagOk_congr p s s' ht _ (fun k _ => he1 k) h
        intro k; rw [hl1]; split
        · rename_i e; subst e; exact hlk.symm
        · rfl
  | endBlock hk hpc hs =>
    subst hpc
    refine tagOk_same p hs (tagOk_endBlock p s hwf hch ?_ h)
    simp only [exoticStep, hk] at hex
    exact hex
  | endBlocks hk hpc hs => exact tagOk_same p hs (tagOk_endBlocks p s)
  | rearm c hk hpc hs _ =>
    subst hpc
    refine tagOk_same p hs (tagOk_reset p s n ?_ h)
    simp only [exoticStep, hk] at hex
    exact hex
  | recall name m hk hpc hm hs _ =>
    subst hpc
    refine tagOk_same p hs (tagOk_reset p s m ?_ h)
    simp only [exoticStep, hk, hm] at hex
    exact hex

theorem tagOk_stepGen (p : Prog) (s : St) (stack : List Frame) (hwf : ProgWF p = true)
    (hch : Chain p s) (hex : exoticStep p s stack = false) (h : TagOk p s) :
    TagOk p (stepGen p s stack).1 := by
  have hch' := chain_stepGen p s stack hch
  cases stack with
  | nil => exact h
  | cons f below =>
    have key : TagOk p (outState (stepFrame p s f below)) ∧
        (Chain p (stepGen p s (f :: below)).1 → True) := by
      refine ⟨?_, fun _ => trivial⟩
      cases f with
      | body n pc =>
        apply tagOk_stepBody p s n pc below hwf hch _ hex h
        -- the chain after the body step (before a possible unwind)
        have := hch'
        unfold stepGen at this
        simp only [stepFrame] at this
        cases hs : stepBody p s n pc below with
        | next s1 top sig => rw [hs] at this; exact this
        | raise s1 =>
          rw [hs] at this
          simp only [] at this
          exact chain_same p (blkSame_unwind s1 below).symm this
      | wrapEnter n => exact tagOk_same p (stepFrame_same p s _ below (by intros; simp)) h
      | wrapThr n => exact tagOk_same p (stepFrame_same p s _ below (by intros; simp)) h
      | wrapDispatch n => exact tagOk_same p (stepFrame_same p s _ below (by intros; simp)) h
      | wrapAfter n => exact tagOk_same p (stepFrame_same p s _ below (by intros; simp)) h
      | children n inx ic => exact tagOk_same p (stepFrame_same p s _ below (by intros; simp)) h
      | callRet n m => exact tagOk_same p (stepFrame_same p s _ below (by intros; simp)) h
      | waitLoop n e => exact tagOk_same p (stepFrame_same p s _ below (by intros; simp)) h
    unfold stepGen
    simp only []
    cases hs : stepFrame p s f below with
    | next s1 top sig =>
      have := key.1; rw [hs] at this; exact this
    | raise s1 =>
      have := key.1; rw [hs] at this
      simp only []
      exact tagOk_same p (blkSame_unwind s1 below) this

end OPM.Interp
