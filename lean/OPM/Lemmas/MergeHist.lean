import OPM.Model.Merge
import OPM.Lemmas.Interp
/-!
# The as-is merge model over histories (lemmas for C01 / C14)

`OPM.Merge.edit` is `Engine.set_method` as the code is.  This file characterises what an accepted
edit leaves behind (`Restarted`: the interpreter of a method loaded from the start, plus the
re-registered interrupts and macros), for **every** state, and lifts it over histories of ticks,
requests, injections and any number of edits (`HOp`, `runH`):

* `accepted_edit_restarts`        — after any accepted edit (merge or set) every runtime record is
  pristine, the main generator stands in front of the program node, the tags are kept;
* `merge_without_registrations_is_fresh_start` — with no interrupt and no macro registered the
  merged state *is* `freshInterp` of the new program: the run continues exactly as a run of the new
  method from its first line (with the Mark tag carried over);
* `unshared_edit_is_set`, `edit_after_merge_is_set` — after one merged edit the method manager's
  view stays detached through any ticks / requests / injections, so the next edit takes the
  `set_method` branch: it is never validated and never rejected, whatever it changes;
* `edits_after_accepted_all_set`  — in a burst of edits everything after the first accepted one is
  `set`;
* `set_edit_drops_all_interrupts`, `merged_gens` — what happens to generators (injected code).
-/
namespace OPM.Merge
open OPM.Interp
attribute [-simp] OPM.Interp.getRt_eq

/-- Everything in the runtime record of a node is as in a new interpreter, except the two
    registration flags that `_create_interpreter_from_state` sets again. -/
def PristineRt (r : NodeRt) : Prop :=
  r.started = false ∧ r.completed = false ∧ r.failed = false ∧ r.cancelled = false ∧ r.forced = false ∧
  r.childIndex = 0 ∧ r.childrenComplete = false ∧ r.activated = false ∧ r.blockEnded = false ∧
  r.lockAcquired = false ∧ r.runCount = 0 ∧ r.runStarted = 0 ∧ r.runCompleted = 0 ∧ r.waitStart = none ∧
  r.hasRecord = false

theorem pristine_default : PristineRt ({} : NodeRt) := by
  simp [PristineRt]

theorem pristine_interruptRegistered (r : NodeRt) (b : Bool) (h : PristineRt r) :
    PristineRt { r with interruptRegistered := b } := h

theorem pristine_isRegistered (r : NodeRt) (b : Bool) (h : PristineRt r) :
    PristineRt { r with isRegistered := b } := h

def mainGen : Gen := { gid := 0, node := 0, stack := [.wrapEnter 0] }

/-- The state an accepted edit installs, relative to the interpreter state `old` it replaces. -/
structure Restarted (old s : St) : Prop where
  rt : ∀ k, PristineRt (s.rt k)
  main : s.gens.head? = some mainGen
  fresh : ∀ g ∈ s.gens, g.stack = [.wrapEnter g.node]
  marks : s.marks = old.marks
  blockTag : s.blockTag = old.blockTag
  baseFactor : s.baseFactor = old.baseFactor
  baseUnit : s.baseUnit = old.baseUnit
  lastError : s.lastError = none
  events : s.events = []

theorem foldl_inv {α : Type} (P : St → Prop) (g : St → α → St) (l : List α)
    (hg : ∀ s a, a ∈ l → P s → P (g s a)) (s : St) (h : P s) : P (l.foldl g s) := by
  induction l generalizing s with
  | nil => exact h
  | cons a l ih =>
    simp only [List.foldl]
    apply ih
    · intro s a' ha' hs; exact hg s a' (List.mem_cons_of_mem _ ha') hs
    · exact hg s a List.mem_cons_self h

/-- `Restarted` without the `events` clause (events are cleared at the very end). -/
structure Restarted' (old s : St) : Prop where
  rt : ∀ k, PristineRt (s.rt k)
  main : s.gens.head? = some mainGen
  fresh : ∀ g ∈ s.gens, g.stack = [.wrapEnter g.node]
  marks : s.marks = old.marks
  blockTag : s.blockTag = old.blockTag
  baseFactor : s.baseFactor = old.baseFactor
  baseUnit : s.baseUnit = old.baseUnit
  lastError : s.lastError = none

theorem restarted'_freshInterp (old : St) (p : Prog) : Restarted' old (freshInterp old p) := by
  refine ⟨?_, ?_, ?_, rfl, rfl, rfl, rfl, rfl⟩
  · intro k; exact pristine_default
  · rfl
  · intro g hg
    simp [freshInterp, init] at hg
    subst hg; rfl

theorem registerInterrupt_fields (p : Prog) (s : St) (n : Nat) :
    (registerInterrupt p s n).gens = s.gens ++ [{ gid := s.nextGid, node := n, stack := [.wrapEnter n] }] ∧
    (registerInterrupt p s n).imap = dictSet s.imap n s.nextGid ∧
    (registerInterrupt p s n).marks = s.marks ∧ (registerInterrupt p s n).blockTag = s.blockTag ∧
    (registerInterrupt p s n).baseFactor = s.baseFactor ∧ (registerInterrupt p s n).baseUnit = s.baseUnit ∧
    (registerInterrupt p s n).lastError = s.lastError ∧ (registerInterrupt p s n).macros = s.macros := by
  unfold registerInterrupt
  simp only []
  split <;> exact ⟨rfl, rfl, rfl, rfl, rfl, rfl, rfl, rfl⟩

theorem restarted'_registerInterrupt (old : St) (p : Prog) (s : St) (n : Nat) (h : Restarted' old s) :
    Restarted' old (registerInterrupt p s n) := by
  obtain ⟨hg, _, hm, hb, hf, hu, he, _⟩ := registerInterrupt_fields p s n
  refine ⟨?_, ?_, ?_, hm.trans h.marks, hb.trans h.blockTag, hf.trans h.baseFactor, hu.trans h.baseUnit,
    he.trans h.lastError⟩
  · intro k
    rw [rt_registerInterrupt]
    split
    · exact pristine_interruptRegistered _ _ (h.rt n)
    · exact h.rt k
  · rw [hg]
    have := h.main
    cases hgs : s.gens with
    | nil => rw [hgs] at this; cases this
    | cons a l => rw [hgs] at this; simpa using this
  · intro g hmem
    rw [hg] at hmem
    rcases List.mem_append.mp hmem with h1 | h1
    · exact h.fresh g h1
    · simp at h1; subst h1; rfl

theorem restarted'_freshFromState_core (mm : MM) (new : Method) :
    Restarted' mm.st
      (mm.st.macros.foldl (fun s e =>
        match indexOfId new (idOf mm.m e.2) with
        | some k => if k ≠ 0 && isMacro new.prog k then
            setRt { s with macros := dictSet s.macros (macroName new.prog k) k } k (fun r => { r with isRegistered := true })
          else s
        | none => s)
      (mm.st.imap.foldl (fun s e =>
        match indexOfId new (idOf mm.m e.1) with
        | some k => if k ≠ 0 && hasChildrenKind new.prog k then registerInterrupt new.prog s k else s
        | none => s) (freshInterp mm.st new.prog))) := by
  refine foldl_inv (Restarted' mm.st) _ _ ?_ _ ?_
  · intro s a _ hs
    split
    · split
      · refine ⟨?_, hs.main, hs.fresh, hs.marks, hs.blockTag, hs.baseFactor, hs.baseUnit, hs.lastError⟩
        intro k
        simp only [rt_setRt]
        split
        · exact pristine_isRegistered _ _ (hs.rt _)
        · exact hs.rt k
      · exact hs
    · exact hs
  · refine foldl_inv (Restarted' mm.st) _ _ ?_ _ (restarted'_freshInterp mm.st new.prog)
    intro s a _ hs
    split
    · split
      · exact restarted'_registerInterrupt _ _ _ _ hs
      · exact hs
    · exact hs

theorem restarted_freshFromState (mm : MM) (new : Method) : Restarted mm.st (freshFromState mm new) := by
  have h := restarted'_freshFromState_core mm new
  unfold freshFromState
  exact ⟨h.rt, h.main, h.fresh, h.marks, h.blockTag, h.baseFactor, h.baseUnit, h.lastError, rfl⟩

theorem restarted_freshInterp (old : St) (p : Prog) : Restarted old (freshInterp old p) := by
  have h := restarted'_freshInterp old p
  exact ⟨h.rt, h.main, h.fresh, h.marks, h.blockTag, h.baseFactor, h.baseUnit, h.lastError, rfl⟩

/-! ## one edit, any state -/

theorem edit_cases (mm : MM) (new : Method) :
    ((mm.mmShared && (getRt mm.st 0).started) = true ∧ validate mm new = true ∧
        edit mm new = ({ m := new, st := freshFromState mm new, mmShared := false }, .merged)) ∨
    ((mm.mmShared && (getRt mm.st 0).started) = true ∧ validate mm new = false ∧ edit mm new = (mm, .rejected)) ∨
    ((mm.mmShared && (getRt mm.st 0).started) = false ∧
        edit mm new = ({ m := new, st := freshInterp mm.st new.prog, mmShared := true }, .set)) := by
  unfold edit
  by_cases h1 : (mm.mmShared && (getRt mm.st 0).started) = true
  · by_cases h2 : validate mm new = true
    · left; exact ⟨h1, h2, by simp only [h1, h2, if_true]⟩
    · right; left
      have h2' : validate mm new = false := by simpa using h2
      exact ⟨h1, h2', by simp only [h1, h2', if_true, Bool.false_eq_true, if_false]⟩
  · right; right
    have h1' : (mm.mmShared && (getRt mm.st 0).started) = false := by simpa using h1
    exact ⟨h1', by simp only [h1', Bool.false_eq_true, if_false]⟩

/-- **As-is behaviour, every state.** Whatever was running, an accepted edit (merged *or* set) leaves
    an interpreter in which no node has any progress, whose main generator is about to enter the
    program node, and which has kept the tags. -/
theorem accepted_edit_restarts (mm : MM) (new : Method) (h : (edit mm new).2 ≠ .rejected) :
    (edit mm new).1.m = new ∧ Restarted mm.st (edit mm new).1.st := by
  rcases edit_cases mm new with ⟨_, _, e⟩ | ⟨_, _, e⟩ | ⟨_, e⟩
  · rw [e]; exact ⟨rfl, restarted_freshFromState mm new⟩
  · rw [e] at h; exact absurd rfl h
  · rw [e]; exact ⟨rfl, restarted_freshInterp mm.st new.prog⟩

/-- With nothing registered (no Watch / Alarm / injected code, no macro) the merged state is literally
    a new interpreter over the new program: the run goes on as a run of the new method from its
    first line. -/
theorem merge_without_registrations_is_fresh_start (mm : MM) (new : Method)
    (hi : mm.st.imap = []) (hm : mm.st.macros = []) (h : (edit mm new).2 = .merged) :
    (edit mm new).1.st = freshInterp mm.st new.prog := by
  rcases edit_cases mm new with ⟨_, _, e⟩ | ⟨_, _, e⟩ | ⟨_, e⟩
  · rw [e]
    show freshFromState mm new = _
    unfold freshFromState
    simp only [hi, hm, List.foldl]
    rfl
  · rw [e] at h; cases h
  · rw [e] at h; cases h

/-- Once the method manager's view is detached, an edit is never validated: it takes the
    `set_method` branch whatever it changes, and drops every interrupt and macro registration. -/
theorem unshared_edit_is_set (mm : MM) (h : mm.mmShared = false) (new : Method) :
    edit mm new = ({ m := new, st := freshInterp mm.st new.prog, mmShared := true }, .set) := by
  rcases edit_cases mm new with ⟨h1, _, _⟩ | ⟨h1, _, _⟩ | ⟨_, e⟩
  · simp [h] at h1
  · simp [h] at h1
  · exact e

theorem set_edit_drops_all_interrupts (mm : MM) (new : Method) (h : (edit mm new).2 = .set) :
    (edit mm new).1.st.imap = [] ∧ (edit mm new).1.st.macros = [] ∧ (edit mm new).1.st.gens = [mainGen] := by
  rcases edit_cases mm new with ⟨_, _, e⟩ | ⟨_, _, e⟩ | ⟨_, e⟩
  · rw [e] at h; cases h
  · rw [e] at h; cases h
  · rw [e]; exact ⟨rfl, rfl, rfl⟩

/-- Every generator that exists after a merge is the main one or a brand-new one in front of its
    node: no generator of the old interpreter (in particular none running injected code) survives. -/
theorem merged_gens (mm : MM) (new : Method) (h : (edit mm new).2 ≠ .rejected) :
    ∀ g ∈ (edit mm new).1.st.gens, g.stack = [.wrapEnter g.node] :=
  (accepted_edit_restarts mm new h).2.fresh

/-! ## histories -/

/-- Everything that can happen to a running method between two observations. -/
inductive HOp where
  | tick (i : TickIn)
  | complete (k : Nat)
  | cancel (k : Nat)
  | force (k : Nat)
  | inject (extra : Array Node) (ids : Array Nat) (sigs : Array String) (n : Nat)
  | edit (new : Method)

def HOp.isEdit : HOp → Bool
  | .edit _ => true
  | _ => false

def stepH (mm : MM) : HOp → MM × Option EditResult
  | .tick i => ({ mm with st := (tick mm.m.prog mm.st i).1 }, none)
  | .complete k => ({ mm with st := completeCmd mm.st k }, none)
  | .cancel k => ({ mm with st := (cancel mm.m.prog mm.st k).getD mm.st }, none)
  | .force k => ({ mm with st := (force mm.m.prog mm.st k).getD mm.st }, none)
  | .inject extra ids sigs n =>
    let m' : Method := { mm.m with prog := mm.m.prog ++ extra, ids := mm.m.ids ++ ids, sigs := mm.m.sigs ++ sigs }
    ({ mm with m := m', st := inject m'.prog mm.st n }, none)
  | .edit new => ((edit mm new).1, some (edit mm new).2)

def runH (mm : MM) : List HOp → MM × List EditResult
  | [] => (mm, [])
  | o :: ops =>
    let r := stepH mm o
    let rest := runH r.1 ops
    (rest.1, (match r.2 with | some x => [x] | none => []) ++ rest.2)

theorem stepH_mmShared (mm : MM) (o : HOp) (h : o.isEdit = false) : (stepH mm o).1.mmShared = mm.mmShared := by
  cases o <;> first | rfl | (simp [HOp.isEdit] at h)

theorem runH_mmShared (mm : MM) (ops : List HOp) (h : ∀ o ∈ ops, o.isEdit = false) :
    (runH mm ops).1.mmShared = mm.mmShared := by
  induction ops generalizing mm with
  | nil => rfl
  | cons o ops ih =>
    simp only [runH]
    rw [ih _ (fun o' ho' => h o' (List.mem_cons_of_mem _ ho'))]
    exact stepH_mmShared mm o (h o List.mem_cons_self)

theorem runH_append (mm : MM) (a b : List HOp) :
    runH mm (a ++ b) = ((runH (runH mm a).1 b).1, (runH mm a).2 ++ (runH (runH mm a).1 b).2) := by
  induction a generalizing mm with
  | nil => simp [runH]
  | cons o a ih =>
    simp only [List.cons_append, runH]
    rw [ih]
    simp [List.append_assoc]

/-- **Successive edits.** After a merged edit, whatever happens next that is not an edit (ticks,
    requests, injections, in any number), the next edit takes the `set_method` branch: it is not
    validated, cannot be rejected, and restarts the method again. -/
theorem edit_after_merge_is_set (mm : MM) (new : Method) (h : (edit mm new).2 = .merged)
    (ops : List HOp) (hops : ∀ o ∈ ops, o.isEdit = false) (new' : Method) :
    (edit (runH (edit mm new).1 ops).1 new').2 = .set := by
  have hs : (edit mm new).1.mmShared = false := by
    rcases edit_cases mm new with ⟨_, _, e⟩ | ⟨_, _, e⟩ | ⟨_, e⟩
    · rw [e]
    · rw [e] at h; cases h
    · rw [e] at h; cases h
  have := runH_mmShared (edit mm new).1 ops hops
  rw [hs] at this
  rw [unshared_edit_is_set _ this]

/-- A rejected edit leaves the whole future of the run as it was. -/
theorem rejected_edit_future_unchanged (mm : MM) (new : Method) (h : (edit mm new).2 = .rejected)
    (ops : List HOp) : runH (edit mm new).1 ops = runH mm ops := by
  rcases edit_cases mm new with ⟨_, _, e⟩ | ⟨_, _, e⟩ | ⟨_, e⟩
  · rw [e] at h; cases h
  · rw [e]
  · rw [e] at h; cases h

/-- Neither the interpreter nor the method manager's program has a started root: the next edit
    takes the `set_method` branch. -/
def Unguarded (mm : MM) : Prop := (mm.mmShared && (getRt mm.st 0).started) = false

theorem unguarded_after_accepted (mm : MM) (new : Method) (h : (edit mm new).2 ≠ .rejected) :
    Unguarded (edit mm new).1 := by
  have hr := (accepted_edit_restarts mm new h).2.rt 0
  unfold Unguarded getRt
  rw [hr.1]; simp

theorem unguarded_edit (mm : MM) (h : Unguarded mm) (new : Method) :
    (edit mm new).2 = .set ∧ Unguarded (edit mm new).1 := by
  rcases edit_cases mm new with ⟨h1, _, _⟩ | ⟨h1, _, _⟩ | ⟨_, e⟩
  · unfold Unguarded at h; rw [h] at h1; cases h1
  · unfold Unguarded at h; rw [h] at h1; cases h1
  · have h2 : (edit mm new).2 = .set := by rw [e]
    exact ⟨h2, unguarded_after_accepted mm new (by rw [h2]; decide)⟩

/-- A burst of edits (nothing in between): results of all edits. -/
def runEdits (mm : MM) (news : List Method) : MM × List EditResult := runH mm (news.map .edit)

theorem unguarded_runEdits (mm : MM) (h : Unguarded mm) (news : List Method) :
    ∀ r ∈ (runEdits mm news).2, r = .set := by
  induction news generalizing mm with
  | nil => intro r hr; simp [runEdits, runH] at hr
  | cons n news ih =>
    intro r hr
    simp only [runEdits, List.map_cons, runH, stepH] at hr
    obtain ⟨h1, h2⟩ := unguarded_edit mm h n
    rcases List.mem_append.mp hr with hr | hr
    · simp at hr; rw [hr, h1]
    · exact ih _ h2 r hr

/-- **Any number of successive edits.** In a burst of edits, once one has been accepted every later
    one is accepted through `set_method` — none of them is checked against what has started. -/
theorem edits_after_accepted_all_set (mm : MM) (new : Method) (h : (edit mm new).2 ≠ .rejected)
    (news : List Method) : ∀ r ∈ (runEdits (edit mm new).1 news).2, r = .set :=
  unguarded_runEdits _ (unguarded_after_accepted mm new h) news

/-- …and each of them restarts the method: after any history that ends with an accepted edit the
    interpreter is pristine. -/
theorem history_ending_in_accepted_edit_restarts (mm : MM) (ops : List HOp) (new : Method)
    (h : (edit (runH mm ops).1 new).2 ≠ .rejected) :
    (runH mm (ops ++ [.edit new])).1.m = new ∧
    Restarted (runH mm ops).1.st (runH mm (ops ++ [.edit new])).1.st := by
  rw [runH_append]
  simp only [runH, stepH]
  exact accepted_edit_restarts _ new h

end OPM.Merge
