import OPM.Model.ParseIndent
/-!
Helper lemmas for C17.

Part 1: the tree under construction.  `openRows st` lists the nodes appended so far in pre-order; every
operation of the loop either leaves it alone (`pop`) or appends one row at the end, and closing the
spine at the end produces exactly that list.  Hence `parseRows = crows` (tree = control machine), for
any decision policy.

Part 2: the control machine under the repaired policy: invariant `Good`, preserved by blank/comment
lines and by correctly indented instruction lines; an incorrectly indented instruction line is flagged.
-/
namespace OPM.ParseIndent

/-! ## Part 1 -/

theorem rowsL_append (p : Option Nat) (a b : List Tree) : rowsL p (a ++ b) = rowsL p a ++ rowsL p b := by
  induction a with
  | nil => simp [rowsL]
  | cons t ts ih => simp [rowsL, ih]

theorem rowsL_single (p : Option Nat) (t : Tree) : rowsL p [t] = t.rows p := by
  simp [rowsL]

/-- rows of the open nodes, outermost first -/
def spineRows : List Frame → List Row
  | [] => []
  | f :: fs => spineRows fs ++ (⟨f.idx, curOf (fs.map Frame.sig), f.err, f.info⟩ :: rowsL (some f.idx) f.kids)

def openRows (st : St) : List Row := rowsL none st.top ++ spineRows st.spine

theorem curOf_map_cons (f : Frame) (fs : List Frame) : curOf ((f :: fs).map Frame.sig) = some f.idx := rfl

theorem openRows_attach (t : Tree) (st : St) :
    openRows (St.attach t st) = openRows st ++ t.rows (curOf st.ctl.sigs) := by
  unfold St.attach openRows St.ctl
  cases h : st.spine with
  | nil => simp [spineRows, rowsL_append, rowsL_single, curOf]
  | cons f fs => simp [spineRows, rowsL_append, rowsL_single, curOf, Frame.sig]

theorem attach_ctl (t : Tree) (st : St) : (St.attach t st).ctl = st.ctl := by
  unfold St.attach St.ctl
  cases h : st.spine with
  | nil => simp
  | cons f fs => simp [Frame.sig]

theorem openRows_pop (st : St) : openRows st.pop = openRows st := by
  unfold St.pop
  cases h : st.spine with
  | nil => rfl
  | cons f fs =>
    simp only []
    rw [openRows_attach]
    simp [openRows, St.ctl, spineRows, Frame.close, Tree.rows, h]

theorem pop_ctl (st : St) : st.pop.ctl = { st.ctl with sigs := st.ctl.sigs.tail } := by
  unfold St.pop
  cases h : st.spine with
  | nil => simp [St.ctl, h]
  | cons f fs =>
    simp only []
    rw [attach_ctl]
    simp [St.ctl, h]

theorem openRows_popK (k : Nat) (st : St) : openRows (St.popK k st) = openRows st := by
  induction k generalizing st with
  | zero => rfl
  | succ k ih => simp [St.popK, ih, openRows_pop]

theorem popK_ctl (k : Nat) (st : St) : (St.popK k st).ctl = { st.ctl with sigs := st.ctl.sigs.drop k } := by
  induction k generalizing st with
  | zero => simp [St.popK]
  | succ k ih =>
    simp only [St.popK, ih, pop_ctl]
    simp

theorem openRows_add (l : LineInfo) (e o : Bool) (st : St) :
    openRows (st.add l e o) = openRows st ++ [⟨st.n, curOf st.ctl.sigs, e, l⟩] := by
  unfold St.add
  cases o with
  | true => simp [openRows, spineRows, rowsL, St.ctl]
  | false => simp [openRows_attach, Tree.rows, rowsL]

theorem add_ctl (l : LineInfo) (e o : Bool) (st : St) :
    (st.add l e o).ctl = { st.ctl with sigs := (if o then [(st.n, l)] else []) ++ st.ctl.sigs } := by
  unfold St.add
  cases o with
  | true => simp [St.ctl, Frame.sig]
  | false => simp [attach_ctl]

theorem popK_n (k : Nat) (st : St) : (St.popK k st).n = st.n :=
  congrArg Ctl.n (popK_ctl k st)

theorem popK_sigs (k : Nat) (st : St) : (St.popK k st).spine.map Frame.sig = (st.spine.map Frame.sig).drop k :=
  congrArg Ctl.sigs (popK_ctl k st)

theorem add_sigs (l : LineInfo) (e o : Bool) (st : St) :
    (st.add l e o).spine.map Frame.sig = (if o then [(st.n, l)] else []) ++ st.spine.map Frame.sig :=
  congrArg Ctl.sigs (add_ctl l e o st)

theorem apply_ctl (d : Dec) (st : St) (l : LineInfo) :
    ({ (St.popK d.pops st).add l d.err d.opn with prev := d.prev, incr := d.incr, n := st.n + 1 } : St).ctl
      = st.ctl.apply d l := by
  simp only [St.ctl, Ctl.apply, add_sigs, popK_sigs, popK_n]

theorem step_ctl (fx : Bool) (st : St) (l : LineInfo) : (step fx st l).ctl = cstep fx st.ctl l := by
  simp only [step, cstep]
  exact apply_ctl _ st l

theorem openRows_apply (d : Dec) (st : St) (l : LineInfo) :
    openRows ({ (St.popK d.pops st).add l d.err d.opn with prev := d.prev, incr := d.incr, n := st.n + 1 } : St)
      = openRows st ++ [st.ctl.row d l] := by
  have h := openRows_add l d.err d.opn (St.popK d.pops st)
  rw [openRows_popK, popK_ctl, popK_n] at h
  simpa [openRows, Ctl.row, St.ctl] using h

theorem openRows_step (fx : Bool) (st : St) (l : LineInfo) :
    openRows (step fx st l) = openRows st ++ [crow fx st.ctl l] := by
  simp only [step, crow]
  exact openRows_apply _ st l

theorem closeSpine_rows (fs : List Frame) (acc : Option Tree) :
    rowsL none (closeSpine fs acc).toList
      = spineRows fs ++ rowsL (curOf (fs.map Frame.sig)) acc.toList := by
  induction fs generalizing acc with
  | nil => simp [closeSpine, spineRows, curOf]
  | cons f fs ih =>
    simp only [closeSpine, ih]
    simp [spineRows, rowsL, Tree.rows, rowsL_append, curOf, Frame.sig]

theorem finish_rows (st : St) : rowsL none st.finish = openRows st := by
  simp [St.finish, rowsL_append, closeSpine_rows, openRows, rowsL]

theorem run_rows (fx : Bool) (st : St) (ls : List LineInfo) :
    rowsL none (run fx st ls).finish = openRows st ++ crows fx st.ctl ls := by
  induction ls generalizing st with
  | nil => simp [run, crows, finish_rows]
  | cons l ls ih =>
    have := ih (step fx st l)
    simp only [run, List.foldl_cons] at this ⊢
    rw [this, openRows_step, step_ctl]
    simp [crows]

/-- the finished tree, read in pre-order, is the output of the control machine -/
theorem parseRows_eq_crows (fx : Bool) (ls : List LineInfo) : parseRows fx ls = crows fx Ctl.init ls := by
  have := run_rows fx St.init ls
  simpa [parseRows, parse, openRows, St.init, spineRows, rowsL, St.ctl, Ctl.init] using this

/-! ## Part 2 -/

/-- open nodes of a correctly indented prefix: openers at indentation 0, 4, 8, … (outermost last) -/
def chainOK : List Sig → Prop
  | [] => True
  | s :: ss => s.2.char = 4 * ss.length ∧ s.2.kind = .opener ∧ chainOK ss

theorem chainOK_drop (k : Nat) (ss : List Sig) (h : chainOK ss) : chainOK (ss.drop k) := by
  induction k generalizing ss with
  | zero => simpa using h
  | succ k ih =>
    cases ss with
    | nil => simpa using h
    | cons s ss => exact ih ss h.2.2

theorem chainOK_mem {ss : List Sig} (h : chainOK ss) {s : Sig} (hs : s ∈ ss) :
    s.2.char + 4 ≤ 4 * ss.length ∧ s.2.kind = .opener := by
  induction ss with
  | nil => cases hs
  | cons t ts ih =>
    rcases List.mem_cons.mp hs with rfl | hm
    · exact ⟨by have := h.1; simp only [List.length_cons]; omega, h.2.1⟩
    · have := ih h.2.2 hm
      exact ⟨by simp only [List.length_cons]; omega, this.2⟩

theorem chainOK_pchar {ss : List Sig} (h : chainOK ss) (hne : ss ≠ []) : pcharOf ss + 4 = 4 * ss.length := by
  cases ss with
  | nil => exact absurd rfl hne
  | cons s ss => simp only [pcharOf, List.length_cons]; have := h.1; omega

/-- the line is an instruction that continues a correctly indented text -/
def okLine (c : Ctl) (l : LineInfo) : Prop :=
  l.perr = false ∧ l.char % 4 = 0 ∧ (l.char ≤ c.prev ∨ (c.incr = true ∧ l.char = c.prev + 4))

structure Good (c : Ctl) (log : List Row) : Prop where
  chain : chainOK c.sigs
  rel : if c.incr then c.sigs ≠ [] ∧ c.prev + 4 = 4 * c.sigs.length else c.prev = 4 * c.sigs.length
  inLog : ∀ s ∈ c.sigs, ∃ q ∈ log, q.idx = s.1 ∧ q.info = s.2
  opn : ∀ s ∈ c.sigs, ∀ m ∈ log, s.1 < m.idx → m.info.kind ≠ .ws → s.2.char + 4 ≤ m.info.char
  bound : ∀ m ∈ log, m.idx < c.n
  placed : ∀ r ∈ log, r.info.kind ≠ .ws → r.err = false ∧ r.placed log

theorem good_init : Good Ctl.init [] := by
  constructor <;> simp [Ctl.init, chainOK]

/-- blank and comment lines do not touch the control state (repaired code) -/
theorem decide_ws (c : Ctl) (l : LineInfo) (h : l.kind = .ws) :
    (decideStep true c l).pops = 0 ∧ (decideStep true c l).opn = false ∧
    (decideStep true c l).prev = c.prev ∧ (decideStep true c l).incr = c.incr := by
  have hc : closesEmpty true c l = false := by simp [closesEmpty, h]
  simp only [decideStep, hc, decideCore, h]
  repeat' split
  all_goals simp_all

/-- the chain on a normalised state (`increment_required` off, `prev_indent` = depth): an instruction at
    most as deep as the previous one pops back to its level and is appended without error -/
theorem core_ok (sigs : List Sig) (prev : Nat) (l : LineInfo) (pre : Nat)
    (hc : chainOK sigs) (hp : prev = 4 * sigs.length) (hk : l.kind ≠ .ws) (he : l.perr = false)
    (hm : l.char % 4 = 0) (hle : l.char ≤ prev) :
    decideCore true sigs prev false l pre
      = ⟨pre + (prev - l.char) / 4, false, l.kind == .opener, l.char, l.kind == .opener⟩ := by
  have hws : (l.kind == Kind.ws) = false := by simpa using hk
  generalize hop : (l.kind == Kind.opener) = isOp
  by_cases heq : l.char = prev
  · simp [decideCore, he, hws, heq, hop]
  · have hlt : l.char < prev := by omega
    have h4 : (l.char == pcharOf sigs + 4 && !sigs.isEmpty) = false := by
      cases sigs with
      | nil => simp
      | cons s ss =>
        have := hc.1
        simp only [pcharOf, List.isEmpty_cons, Bool.not_false, Bool.and_true, beq_eq_false_iff_ne]
        simp only [List.length_cons] at hp
        omega
    have hk4 : (prev - l.char) / 4 ≤ sigs.length := by omega
    have hmin : min ((prev - l.char) / 4) sigs.length = (prev - l.char) / 4 := by omega
    have h2 : ¬ (prev < l.char) := by omega
    have h5 : ¬ (prev + 4 < l.char) := by omega
    have hgt : ¬ (sigs.length < (prev - l.char) / 4) := by omega
    simp [decideCore, he, hws, heq, h4, hlt, h2, h5, hmin, hgt, hop]

/-- a correctly indented instruction line: no error, appended at depth `char / 4` -/
theorem decide_ok (c : Ctl) (log : List Row) (hg : Good c log) (l : LineInfo) (hk : l.kind ≠ .ws)
    (hok : okLine c l) :
    ∃ p, decideStep true c l = ⟨p, false, l.kind == .opener, l.char, l.kind == .opener⟩ ∧
      4 * (c.sigs.drop p).length = l.char := by
  obtain ⟨he, hm, hpos⟩ := hok
  have hws : (l.kind == Kind.ws) = false := by simpa using hk
  have hrel := hg.rel
  cases hi : c.incr with
  | false =>
    simp only [hi] at hrel hpos
    have hle : l.char ≤ c.prev := by
      rcases hpos with h | h
      · exact h
      · exact absurd h.1 (by simp)
    have hce : closesEmpty true c l = false := by simp [closesEmpty, hi]
    refine ⟨0 + (c.prev - l.char) / 4, ?_, ?_⟩
    · simp only [decideStep, hce, hi]
      exact core_ok c.sigs c.prev l 0 hg.chain hrel hk he hm hle
    · simp only [List.length_drop]; rw [hrel] at hle ⊢; omega
  | true =>
    simp only [hi] at hrel hpos
    obtain ⟨hne, hrel⟩ := hrel
    have hpc := chainOK_pchar hg.chain hne
    by_cases hle : l.char ≤ c.prev
    · have hce : closesEmpty true c l = true := by
        simp only [closesEmpty, hi, he]
        have hpp : c.prev = pcharOf c.sigs := by omega
        have hle' : l.char ≤ pcharOf c.sigs := by omega
        simp [hk, hle', hpp, hne]
      refine ⟨1 + (c.prev - l.char) / 4, ?_, ?_⟩
      · simp only [decideStep, hce]
        have hlen : c.sigs.tail.length = c.sigs.length - 1 := by simp
        have hpos : 0 < c.sigs.length := List.length_pos_iff.mpr hne
        refine core_ok c.sigs.tail c.prev l 1 ?_ (by omega) hk he hm hle
        have := chainOK_drop 1 c.sigs hg.chain
        simpa using this
      · have hp2 : c.prev = 4 * c.sigs.length - 4 := by omega
        have hpos : 0 < c.sigs.length := List.length_pos_iff.mpr hne
        simp only [List.length_drop]; rw [hp2] at hle ⊢; omega
    · have hch : l.char = c.prev + 4 := by
        rcases hpos with h | h
        · exact absurd h hle
        · exact h.2
      have hce : closesEmpty true c l = false := by simp [closesEmpty, hle]
      refine ⟨0, ?_, ?_⟩
      · have h3 : ¬ (l.char = c.prev) := by omega
        have h4 : (l.char == pcharOf c.sigs + 4 && !c.sigs.isEmpty) = true := by
          have : l.char = pcharOf c.sigs + 4 := by omega
          simp [this, hne]
        generalize hop : (l.kind == Kind.opener) = isOp
        simp [decideStep, hce, hi, decideCore, he, hws, h3, h4, hop]
      · simp only [List.drop_zero]; omega

/-- an instruction line that breaks the indentation discipline is flagged -/
theorem decide_bad (c : Ctl) (log : List Row) (hg : Good c log) (l : LineInfo) (hk : l.kind ≠ .ws)
    (hw : l.perr = true ↔ l.char % 4 ≠ 0) (hbad : ¬ okLine c l) :
    (decideStep true c l).err = true := by
  have hws : (l.kind == Kind.ws) = false := by simpa using hk
  cases he : l.perr with
  | true =>
    have hce : closesEmpty true c l = false := by simp [closesEmpty, he]
    simp [decideStep, hce, decideCore, he]
  | false =>
    have hm : l.char % 4 = 0 := by
      by_cases h : l.char % 4 = 0
      · exact h
      · have := hw.mpr h
        simp [he] at this
    have hnot : ¬ (l.char ≤ c.prev) ∧ ¬ (c.incr = true ∧ l.char = c.prev + 4) := by
      constructor
      · intro h; exact hbad ⟨he, hm, Or.inl h⟩
      · intro h; exact hbad ⟨he, hm, Or.inr h⟩
    have hce : closesEmpty true c l = false := by simp [closesEmpty, hnot.1]
    have hgt : c.prev < l.char := by omega
    have hrel := hg.rel
    cases hi : c.incr with
    | false => simp [decideStep, hce, hi, decideCore, he, hgt]
    | true =>
      simp only [hi] at hrel
      obtain ⟨hne, hrel⟩ := hrel
      have hpc := chainOK_pchar hg.chain hne
      have hne4 : l.char ≠ c.prev + 4 := fun h => hnot.2 ⟨hi, h⟩
      have h3 : ¬ (l.char = c.prev) := by omega
      have h4 : (l.char == pcharOf c.sigs + 4 && !c.sigs.isEmpty) = false := by
        have : l.char ≠ pcharOf c.sigs + 4 := by omega
        simp [this]
      have h5 : c.prev + 4 < l.char := by omega
      simp [decideStep, hce, hi, decideCore, he, h3, h4, h5]

theorem placed_mono {log extra : List Row} {r : Row} (h : r.placed log)
    (hx : ∀ m ∈ extra, r.idx ≤ m.idx) : r.placed (log ++ extra) := by
  unfold Row.placed at h ⊢
  cases hp : r.parent with
  | none => simpa [hp] using h
  | some j =>
    simp only [hp] at h ⊢
    obtain ⟨q, hq, h1, h2, h3, h4, h5⟩ := h
    refine ⟨q, List.mem_append_left _ hq, h1, h2, h3, h4, ?_⟩
    intro m hm hjm hmr hk
    rcases List.mem_append.mp hm with hm | hm
    · exact h5 m hm hjm hmr hk
    · have := hx m hm; omega

theorem crow_idx (fx : Bool) (c : Ctl) (l : LineInfo) : (crow fx c l).idx = c.n := rfl
theorem crow_info (fx : Bool) (c : Ctl) (l : LineInfo) : (crow fx c l).info = l := rfl
theorem cstep_n (fx : Bool) (c : Ctl) (l : LineInfo) : (cstep fx c l).n = c.n + 1 := rfl

theorem good_ws (c : Ctl) (log : List Row) (hg : Good c log) (l : LineInfo) (h : l.kind = .ws) :
    Good (cstep true c l) (log ++ [crow true c l]) ∧ (cstep true c l).prev = c.prev ∧
      (cstep true c l).incr = c.incr := by
  obtain ⟨h1, h2, h3, h4⟩ := decide_ws c l h
  have hs : (cstep true c l).sigs = c.sigs := by simp [cstep, Ctl.apply, h1, h2]
  have hp : (cstep true c l).prev = c.prev := by simp [cstep, Ctl.apply, h3]
  have hi : (cstep true c l).incr = c.incr := by simp [cstep, Ctl.apply, h4]
  refine ⟨?_, hp, hi⟩
  constructor
  · rw [hs]; exact hg.chain
  · rw [hs, hp, hi]; exact hg.rel
  · intro s hsm
    rw [hs] at hsm
    obtain ⟨q, hq, hq'⟩ := hg.inLog s hsm
    exact ⟨q, List.mem_append_left _ hq, hq'⟩
  · intro s hsm m hm hlt hk
    rw [hs] at hsm
    rcases List.mem_append.mp hm with hm | hm
    · exact hg.opn s hsm m hm hlt hk
    · simp only [List.mem_singleton] at hm
      subst hm
      exact absurd h hk
  · intro m hm
    rw [cstep_n]
    rcases List.mem_append.mp hm with hm | hm
    · have := hg.bound m hm; omega
    · simp only [List.mem_singleton] at hm
      subst hm
      simp [crow_idx]
  · intro r hr hk
    rcases List.mem_append.mp hr with hr | hr
    · obtain ⟨he, hpl⟩ := hg.placed r hr hk
      refine ⟨he, placed_mono hpl ?_⟩
      intro m hm
      simp only [List.mem_singleton] at hm
      subst hm
      have := hg.bound r hr
      simp only [crow_idx]; omega
    · simp only [List.mem_singleton] at hr
      subst hr
      exact absurd h hk

theorem good_ok (c : Ctl) (log : List Row) (hg : Good c log) (l : LineInfo) (hk : l.kind ≠ .ws)
    (hok : okLine c l) :
    Good (cstep true c l) (log ++ [crow true c l]) ∧ (cstep true c l).prev = l.char ∧
      (cstep true c l).incr = (l.kind == .opener) ∧ (crow true c l).err = false := by
  obtain ⟨p, hd, hlen⟩ := decide_ok c log hg l hk hok
  have hrc : chainOK (c.sigs.drop p) := chainOK_drop p c.sigs hg.chain
  have hsub : ∀ s ∈ c.sigs.drop p, s ∈ c.sigs := fun s hs => List.mem_of_mem_drop hs
  have hs : (cstep true c l).sigs = (if (l.kind == .opener) = true then [(c.n, l)] else []) ++ c.sigs.drop p := by
    simp [cstep, Ctl.apply, hd]
  have hp : (cstep true c l).prev = l.char := by simp [cstep, Ctl.apply, hd]
  have hi : (cstep true c l).incr = (l.kind == .opener) := by simp [cstep, Ctl.apply, hd]
  have hrow : crow true c l = ⟨c.n, curOf (c.sigs.drop p), false, l⟩ := by simp [crow, Ctl.row, hd]
  refine ⟨?_, hp, hi, by rw [hrow]⟩
  constructor
  · rw [hs]
    cases ho : (l.kind == .opener) with
    | false => simpa using hrc
    | true =>
      simp only [↓reduceIte, List.cons_append, List.nil_append, chainOK]
      exact ⟨by omega, by simpa using ho, hrc⟩
  · rw [hs, hp, hi]
    have hl := hlen
    simp only [List.length_drop] at hl
    cases ho : (l.kind == .opener) with
    | false => simp; omega
    | true => simp; omega
  · intro s hsm
    rw [hs] at hsm
    rcases List.mem_append.mp hsm with hsm | hsm
    · refine ⟨crow true c l, by simp, ?_⟩
      split at hsm
      · simp only [List.mem_singleton] at hsm
        subst hsm
        simp [hrow]
      · cases hsm
    · obtain ⟨q, hq, hq'⟩ := hg.inLog s (hsub s hsm)
      exact ⟨q, List.mem_append_left _ hq, hq'⟩
  · intro s hsm m hm hlt hkm
    rw [hs] at hsm
    rcases List.mem_append.mp hsm with hsm | hsm
    · split at hsm
      · simp only [List.mem_singleton] at hsm
        subst hsm
        rcases List.mem_append.mp hm with hm | hm
        · have := hg.bound m hm; simp only at hlt; omega
        · simp only [List.mem_singleton] at hm
          subst hm
          simp [hrow] at hlt
      · cases hsm
    · rcases List.mem_append.mp hm with hm | hm
      · exact hg.opn s (hsub s hsm) m hm hlt hkm
      · simp only [List.mem_singleton] at hm
        subst hm
        have := (chainOK_mem hrc hsm).1
        simp only [hrow]; omega
  · intro m hm
    rw [cstep_n]
    rcases List.mem_append.mp hm with hm | hm
    · have := hg.bound m hm; omega
    · simp only [List.mem_singleton] at hm
      subst hm
      simp [crow_idx]
  · intro r hr hkr
    rcases List.mem_append.mp hr with hr | hr
    · obtain ⟨he, hpl⟩ := hg.placed r hr hkr
      refine ⟨he, placed_mono hpl ?_⟩
      intro m hm
      simp only [List.mem_singleton] at hm
      subst hm
      have := hg.bound r hr
      simp only [crow_idx]; omega
    · simp only [List.mem_singleton] at hr
      subst hr
      refine ⟨by rw [hrow], ?_⟩
      rw [hrow]
      unfold Row.placed
      cases hrest : c.sigs.drop p with
      | nil =>
        simp only [curOf]
        rw [hrest] at hlen
        simpa using hlen.symm
      | cons s ss =>
        simp only [curOf]
        rw [hrest] at hlen hrc
        have hsm : s ∈ c.sigs := hsub s (by rw [hrest]; exact List.mem_cons_self)
        obtain ⟨q, hq, hq1, hq2⟩ := hg.inLog s hsm
        refine ⟨q, List.mem_append_left _ hq, hq1, ?_, ?_, ?_, ?_⟩
        · have := hg.bound q hq; omega
        · rw [hq2]; exact hrc.2.1
        · rw [hq2]; have := hrc.1; simp only [List.length_cons] at hlen; omega
        · intro m hm hlt hlt2 hkm
          rcases List.mem_append.mp hm with hm | hm
          · have h1 := hg.opn s hsm m hm hlt hkm
            have h2 := hrc.1
            simp only [List.length_cons] at hlen
            omega
          · simp only [List.mem_singleton] at hm
            subst hm
            simp at hlt2

/-- C17, structure half, on the control machine: a correctly indented continuation keeps `Good` -/
theorem crows_good (ls : List LineInfo) : ∀ (c : Ctl) (log : List Row), Good c log →
    correctFrom c.prev c.incr ls = true → ∃ c', Good c' (log ++ crows true c ls) := by
  induction ls with
  | nil => intro c log hg _; exact ⟨c, by simpa [crows] using hg⟩
  | cons l ls ih =>
    intro c log hg hc
    have happ : log ++ crows true c (l :: ls) = (log ++ [crow true c l]) ++ crows true (cstep true c l) ls := by
      simp [crows]
    rw [happ]
    by_cases hws : l.kind = .ws
    · obtain ⟨hg', hp, hi⟩ := good_ws c log hg l hws
      apply ih _ _ hg'
      rw [hp, hi]
      simpa [correctFrom, hws] using hc
    · have hws' : (l.kind == Kind.ws) = false := by simpa using hws
      simp only [correctFrom, hws', Bool.false_eq_true, ↓reduceIte, Bool.and_eq_true, Bool.not_eq_eq_eq_not,
        Bool.not_true, beq_iff_eq, Bool.or_eq_true, decide_eq_true_eq] at hc
      obtain ⟨⟨⟨h1, h2⟩, h3⟩, h4⟩ := hc
      have hok : okLine c l := ⟨h1, h2, h3⟩
      obtain ⟨hg', hp, hi, _⟩ := good_ok c log hg l hws hok
      apply ih _ _ hg'
      rw [hp, hi]
      exact h4

/-- C17, flag half, on the control machine: the first instruction line that breaks the discipline is
    flagged -/
theorem crows_flag (ls : List LineInfo) : ∀ (c : Ctl) (log : List Row), Good c log →
    WellClassified ls → correctFrom c.prev c.incr ls = false →
    ∃ r ∈ crows true c ls, r.info.kind ≠ .ws ∧ r.err = true := by
  induction ls with
  | nil => intro c log _ _ hc; simp [correctFrom] at hc
  | cons l ls ih =>
    intro c log hg hw hc
    have hw' : WellClassified ls := fun x hx => hw x (List.mem_cons_of_mem _ hx)
    by_cases hws : l.kind = .ws
    · obtain ⟨hg', hp, hi⟩ := good_ws c log hg l hws
      have hc' : correctFrom (cstep true c l).prev (cstep true c l).incr ls = false := by
        rw [hp, hi]; simpa [correctFrom, hws] using hc
      obtain ⟨r, hr, h⟩ := ih _ _ hg' hw' hc'
      exact ⟨r, by simp [crows, hr], h⟩
    · by_cases hok : okLine c l
      · obtain ⟨hg', hp, hi, _⟩ := good_ok c log hg l hws hok
        have hws' : (l.kind == Kind.ws) = false := by simpa using hws
        have hc' : correctFrom (cstep true c l).prev (cstep true c l).incr ls = false := by
          rw [hp, hi]
          obtain ⟨h1, h2, h3⟩ := hok
          simp only [correctFrom, hws', Bool.false_eq_true, ↓reduceIte] at hc
          have h3' : (decide (l.char ≤ c.prev) || (c.incr && l.char == c.prev + 4)) = true := by
            rcases h3 with h | h
            · simp [h]
            · simp [h.1, h.2]
          simpa [h1, h2, h3'] using hc
        obtain ⟨r, hr, h⟩ := ih _ _ hg' hw' hc'
        exact ⟨r, by simp [crows, hr], h⟩
      · refine ⟨crow true c l, by simp [crows], by simpa [crow_info] using hws, ?_⟩
        exact decide_bad c log hg l hws (hw l List.mem_cons_self hws) hok

/-! ## Part 3: bookkeeping -/

theorem crows_idx (fx : Bool) (ls : List LineInfo) : ∀ c : Ctl,
    (crows fx c ls).map Row.idx = List.range' c.n ls.length := by
  induction ls with
  | nil => intro c; simp [crows]
  | cons l ls ih => intro c; simp [crows, ih, crow_idx, cstep_n, List.range'_succ]

theorem crows_info (fx : Bool) (ls : List LineInfo) : ∀ c : Ctl, (crows fx c ls).map Row.info = ls := by
  induction ls with
  | nil => intro c; simp [crows]
  | cons l ls ih => intro c; simp [crows, ih, crow_info]

/-- rows and lines correspond by index -/
theorem rows_lookup {rs : List Row} {ls : List LineInfo} (hi : rs.map Row.idx = List.range ls.length)
    (hf : rs.map Row.info = ls) :
    (∀ m ∈ rs, ls[m.idx]? = some m.info) ∧ (∀ k, k < ls.length → ∃ m ∈ rs, m.idx = k ∧ ls[k]? = some m.info) := by
  have hlen : rs.length = ls.length := by simpa using congrArg List.length hf
  have h1 : ∀ t (h : t < rs.length), rs[t].idx = t := by
    intro t h
    have := congrArg (fun l => l[t]?) hi
    simp only [List.getElem?_map, List.getElem?_eq_getElem h, Option.map_some] at this
    rw [List.getElem?_range (by omega)] at this
    exact Option.some.inj this
  have h2 : ∀ t (h : t < rs.length), ls[t]? = some rs[t].info := by
    intro t h
    have := congrArg (fun l => l[t]?) hf
    simp only [List.getElem?_map, List.getElem?_eq_getElem h, Option.map_some] at this
    exact this.symm
  constructor
  · intro m hm
    obtain ⟨t, ht, rfl⟩ := List.mem_iff_getElem.mp hm
    rw [h1 t ht]; exact h2 t ht
  · intro k hk
    have hk' : k < rs.length := by omega
    exact ⟨rs[k], List.getElem_mem hk', h1 k hk', h2 k hk'⟩

theorem find_rev_range (p : Nat → Bool) : ∀ (i j : Nat), j < i → p j = true →
    (∀ k, j < k → k < i → p k = false) → (List.range i).reverse.find? p = some j := by
  intro i
  induction i with
  | zero => intro j h; omega
  | succ i ih =>
    intro j hj hp hb
    rw [List.range_succ, List.reverse_append]
    simp only [List.reverse_cons, List.reverse_nil, List.nil_append, List.singleton_append, List.find?_cons]
    by_cases hji : j = i
    · subst hji; simp [hp]
    · have : p i = false := hb i (by omega) (by omega)
      simp only [this]
      exact ih j (by omega) hp (fun k h1 h2 => hb k h1 (by omega))

end OPM.ParseIndent
