import OPM.Lemmas.InterpC02e
set_option linter.unusedSimpArgs false
set_option linter.unusedVariables false
/-!
C02 lemmas, part 8 (ALL methods, per generator): the life of one children-loop frame.

A frame `children n inx b` sitting directly on `rest` is one run of the body of `n` by this generator
(one invocation: it is pushed together with the `bodyStart` event, see `SiteB`).  While it is alive its
*position* `loopPos` — `4·inx`, plus the phase of the wrapper of the child it is inside of — never
decreases, whatever the other generators and requests do to the state between this generator's steps
(the step theorem holds for every state `s`).  Hence, within one invocation and one generator: the
lines are entered in index order, each at most once, and the wrapper of a line passes its `start` point at
most once.
-/
namespace OPM.InterpC02
open OPM.Interp

def vphase : Frame → Nat
  | .wrapEnter _ => 1
  | .wrapThr _ => 2
  | _ => 3

/-- position of the loop frame `children n inx b` with the frames `pre` above it -/
def loopPos (pre : List Frame) (inx : Nat) (b : Bool) : Nat :=
  if b then 4 * inx + (match pre.getLast? with | none => 3 | some f => vphase f) else 4 * inx

theorem vphase_le (f : Frame) : vphase f ≤ 3 := by cases f <;> simp [vphase]

/-- the wrapper frames of a visit only move forward: enter → threshold wait → dispatched/after -/
theorem v_frame_progress (p : Prog) (s : St) (f : Frame) (below : List Frame) (s' : St) (top : List Frame)
    (sig : Signal) (c : Nat) (hst : stepFrame p s f below = .next s' top sig) (hv : cls f = .V c)
    (x : Frame) (hx : top.getLast? = some x) : vphase f ≤ vphase x := by
  cases f with
  | wrapEnter n =>
    by_cases hc : (s.rt n).completed = true
    · have : stepFrame p s (.wrapEnter n) below = .next s [] .cont := by
        simp only [stepFrame, getRt_eq, hc, if_true]
      rw [this] at hst; cases hst; cases hx
    · have : stepFrame p s (.wrapEnter n) below =
          .next (setRt s n (fun r => { r with hasRecord := true })) [.wrapThr n] .cont := by
        simp only [stepFrame, getRt_eq, hc, if_false, Bool.false_eq_true]
      rw [this] at hst; cases hst
      simp only [List.getLast?_singleton, Option.some.injEq] at hx; subst hx; simp [vphase]
  | wrapThr n =>
    rcases wrapThr_cases p s n below s' top sig hst with ⟨_, e2⟩ | ⟨_, e2⟩ | ⟨_, e2⟩ <;> subst e2
    · cases hx
    · simp only [List.getLast?_singleton, Option.some.injEq] at hx; subst hx; simp [vphase]
    · simp only [List.getLast?_singleton, Option.some.injEq] at hx; subst hx; simp [vphase]
  | wrapDispatch n =>
    simp only [stepFrame] at hst; cases hst
    simp only [List.getLast?_cons_cons, List.getLast?_singleton, Option.some.injEq] at hx; subst hx; simp [vphase]
  | wrapAfter n =>
    simp only [stepFrame] at hst; cases hst; cases hx
  | _ => simp [cls] at hv

theorem exists_snoc_frame {α : Type} (a : α) (l : List α) : ∃ x pre', a :: l = pre' ++ [x] := by
  induction l generalizing a with
  | nil => exact ⟨a, [], rfl⟩
  | cons b l ih =>
    obtain ⟨x, pre', h⟩ := ih b
    exact ⟨x, a :: pre', by rw [h]; rfl⟩

theorem getLast?_append_ne {α : Type} (a b : List α) (hb : b ≠ []) : (a ++ b).getLast? = b.getLast? := by
  cases b with
  | nil => exact absurd rfl hb
  | cons x r => exact getLast?_append_cons a x r

/-- nothing sits above a loop frame that is between two children -/
theorem above_loop_is_true (p : Prog) (pre rest : List Frame) (n inx : Nat) (b : Bool) (hp : pre ≠ [])
    (h : chainOK p (pre ++ .children n inx b :: rest)) : b = true ∧
      ∃ c x, pre.getLast? = some x ∧ cls x = .V c := by
  obtain ⟨x, pre', hx⟩ : ∃ x pre', pre = pre' ++ [x] := by
    cases pre with
    | nil => exact absurd rfl hp
    | cons a l => obtain ⟨x, pre', h'⟩ := exists_snoc_frame a l; exact ⟨x, pre', h'⟩
  subst hx
  have h2 := chainOK_suffix p pre' _ (by simpa [List.append_assoc] using h)
  have h3 := h2.1
  simp only [headOK] at h3
  refine ⟨?_, ?_⟩
  · cases b with
    | true => rfl
    | false => cases hc : cls x <;> rw [hc] at h3 <;> simp [aboveC] at h3
  · cases hc : cls x with
    | V c => exact ⟨c, x, by simp, hc⟩
    | B c => rw [hc] at h3; cases b <;> simp [aboveC] at h3
    | L c => rw [hc] at h3; cases b <;> simp [aboveC] at h3

/-- **One micro-step never moves a loop frame backwards** (any state, any method): the frame is still
    there with a position that is at least the old one, or it has been popped (its body returned). -/
theorem loop_frame_progress (p : Prog) (s : St) (pre rest : List Frame) (n inx : Nat) (b : Bool)
    (h : chainOK p (pre ++ .children n inx b :: rest)) :
    (∃ pre' inx' b', (stepGen p s (pre ++ .children n inx b :: rest)).2.1 = pre' ++ .children n inx' b' :: rest ∧
        loopPos pre inx b ≤ loopPos pre' inx' b') ∨
    (stepGen p s (pre ++ .children n inx b :: rest)).2.1 = rest := by
  cases pre with
  | nil =>
    simp only [List.nil_append]
    cases b with
    | true =>
      left
      refine ⟨[], inx + 1, false, ?_, ?_⟩
      · simp [stepGen, stepFrame]
      · simp [loopPos]; omega
    | false =>
      rcases children_false_cases p s n inx rest with ⟨s1, h1, _⟩ | ⟨h1, _⟩ | ⟨c, _, _, h1⟩
      · right; simp [stepGen, h1]
      · left; exact ⟨[], inx + 1, false, by simp [stepGen, h1], by simp [loopPos]; omega⟩
      · left; exact ⟨[.wrapEnter c], inx, true, by simp [stepGen, h1], by simp [loopPos, vphase]⟩
  | cons f pre0 =>
    obtain ⟨hb, c, x, hx, hcx⟩ := above_loop_is_true p (f :: pre0) rest n inx b (by simp) h
    subst hb
    left
    simp only [List.cons_append]
    unfold stepGen
    simp only []
    cases hst : stepFrame p s f (pre0 ++ .children n inx true :: rest) with
    | next s' top sig =>
      simp only []
      refine ⟨top ++ pre0, inx, true, by simp [List.append_assoc], ?_⟩
      cases pre0 with
      | nil =>
        simp only [List.append_nil, loopPos, if_true, List.getLast?_singleton]
        simp only [List.getLast?_singleton, Option.some.injEq] at hx
        subst hx
        cases hl : top.getLast? with
        | none => simp only []; have := vphase_le f; omega
        | some y =>
          simp only []
          have := v_frame_progress p s f _ s' top sig c hst hcx y hl
          omega
      | cons g pre1 =>
        have e1 : (top ++ g :: pre1).getLast? = (g :: pre1).getLast? := getLast?_append_cons top g pre1
        have e2 : (f :: g :: pre1).getLast? = (g :: pre1).getLast? := by rw [List.getLast?_cons_cons]
        simp only [loopPos, if_true, e1, e2]
        exact Nat.le_refl _
    | raise s' =>
      simp only []
      -- a raising frame is a body-level frame: it sits directly on its `wrapAfter`, which is all that is dropped
      have hB : ∃ c', cls f = .B c' := by
        rcases raise_only_body p s f _ s' hst with ⟨n', pc, e, _⟩ | ⟨n', e', e, _⟩ <;> subst e <;> exact ⟨n', rfl⟩
      obtain ⟨c', hB⟩ := hB
      cases pre0 with
      | nil =>
        exfalso
        have := h.1
        simp [headOK, hB, aboveC] at this
      | cons g pre1 =>
        have hg := h.1
        cases g <;> simp [headOK, hB, aboveC] at hg
        case wrapAfter c'' =>
          refine ⟨pre1, inx, true, by simp [unwind], ?_⟩
          cases pre1 with
          | nil => simp [loopPos, vphase]
          | cons g2 pre2 =>
            simp only [loopPos, if_true, List.getLast?_cons_cons]
            exact Nat.le_refl _

/-- **A line is entered only by the loop advancing onto it**: when the loop frame `children n inx false` is
    stepped and the new top is `wrapEnter c`, then `c` is line number `inx` of `n` and the loop frame now
    waits inside it (`children n inx true`). -/
theorem child_entered_by_loop_advance (p : Prog) (s : St) (rest : List Frame) (n inx : Nat) (c : Nat) (rest' : List Frame)
    (hch : chainOK p (.children n inx false :: rest))
    (h : (stepGen p s (.children n inx false :: rest)).2.1 = .wrapEnter c :: rest') :
    (node p n).children[inx]? = some c ∧ rest' = .children n inx true :: rest := by
  rcases children_false_cases p s n inx rest with ⟨s1, h1, _⟩ | ⟨h1, _⟩ | ⟨c', hc, _, h1⟩
  · exfalso
    simp only [stepGen, h1, List.nil_append] at h
    cases rest with
    | nil => cases h
    | cons g r =>
      simp only [List.cons.injEq] at h
      exact (chain_top_only p _ g r hch).1 c h.1
  · simp only [stepGen, h1, List.singleton_append, List.cons.injEq, reduceCtorEq, false_and] at h
  · simp only [stepGen, h1, List.cons_append, List.nil_append, List.cons.injEq, Frame.wrapEnter.injEq] at h
    obtain ⟨e1, e2⟩ := h
    subst e1
    exact ⟨hc, e2.symm⟩

/-! ### the whole life of a loop frame -/

/-- `Life p n rest x y`: the generator goes from a stack in which `children n x.inx x.b` sits on `rest` (with
    `x.pre` above) to one with `y`, by any number of its own micro-steps, each taken in an ARBITRARY state
    (whatever other generators, the engine and requests did in between), the loop frame staying on `rest`
    throughout: one invocation of the body of `n` by this generator. -/
inductive Life (p : Prog) (n : Nat) (rest : List Frame) : (List Frame × Nat × Bool) → (List Frame × Nat × Bool) → Prop
  | refl (x : List Frame × Nat × Bool) : Life p n rest x x
  | step (x y z : List Frame × Nat × Bool) (s : St) :
      (stepGen p s (x.1 ++ .children n x.2.1 x.2.2 :: rest)).2.1 = y.1 ++ .children n y.2.1 y.2.2 :: rest →
      Life p n rest y z → Life p n rest x z

theorem Life.trans {p : Prog} {n : Nat} {rest : List Frame} {x y z : List Frame × Nat × Bool}
    (h1 : Life p n rest x y) (h2 : Life p n rest y z) : Life p n rest x z := by
  induction h1 with
  | refl _ => exact h2
  | step a b c s hs _ ih => exact Life.step a b z s hs (ih h2)

def pos (x : List Frame × Nat × Bool) : Nat := loopPos x.1 x.2.1 x.2.2

theorem append_loop_inj (pre pre' rest : List Frame) (n inx inx' : Nat) (b b' : Bool)
    (h : pre ++ Frame.children n inx b :: rest = pre' ++ Frame.children n inx' b' :: rest) :
    pre = pre' ∧ inx = inx' ∧ b = b' := by
  have hl : pre.length = pre'.length := by
    have := congrArg List.length h
    simp at this; omega
  have := List.append_inj h hl
  refine ⟨this.1, ?_⟩
  have h2 := this.2
  simp only [List.cons.injEq, Frame.children.injEq, true_and, and_true] at h2
  exact h2

/-- **Within one invocation the position only grows**: lines are entered in index order, none twice. -/
theorem life_monotone (p : Prog) (n : Nat) (rest : List Frame) (x z : List Frame × Nat × Bool)
    (h : Life p n rest x z) (hc : chainOK p (x.1 ++ .children n x.2.1 x.2.2 :: rest)) : pos x ≤ pos z := by
  induction h with
  | refl _ => exact Nat.le_refl _
  | step a b c s hs _ ih =>
    have hc' : chainOK p (b.1 ++ .children n b.2.1 b.2.2 :: rest) := by
      rw [← hs]; exact chain_stepGen p s _ hc
    have h1 : pos a ≤ pos b := by
      rcases loop_frame_progress p s a.1 rest n a.2.1 a.2.2 hc with ⟨pre', inx', b', he, hle⟩ | he
      · rw [hs] at he
        obtain ⟨e1, e2, e3⟩ := append_loop_inj _ _ _ _ _ _ _ _ he
        unfold pos; rw [e1, e2, e3]; exact hle
      · exfalso
        rw [hs] at he
        have := congrArg List.length he
        simp at this; omega
    exact Nat.le_trans h1 (ih hc')

/-- **No line is entered twice in one invocation** (per generator): if the loop is at the same position at
    two moments of one invocation, it was there all the time in between — once it has moved past a line
    (or past the line's `start` point) it never comes back. -/
theorem no_return_within_invocation (p : Prog) (n : Nat) (rest : List Frame) (x y z : List Frame × Nat × Bool)
    (h1 : Life p n rest x y) (h2 : Life p n rest y z) (hc : chainOK p (x.1 ++ .children n x.2.1 x.2.2 :: rest))
    (hc' : chainOK p (y.1 ++ .children n y.2.1 y.2.2 :: rest)) (he : pos x = pos z) : pos y = pos x := by
  have a := life_monotone p n rest x y h1 hc
  have b := life_monotone p n rest y z h2 hc'
  omega

/-- the positions of one line: `4·i` before it, `4·i+1` entered, `4·i+2` waiting for its threshold,
    `4·i+3` started (or its visit returned), `4·(i+1)` the loop has moved on -/
theorem pos_entered (n inx c : Nat) : pos ([Frame.wrapEnter c], inx, true) = 4 * inx + 1 := by
  simp [pos, loopPos, vphase]

theorem pos_waiting (n inx c : Nat) : pos ([Frame.wrapThr c], inx, true) = 4 * inx + 2 := by
  simp [pos, loopPos, vphase]

/-- **The `start` of a line moves the position from `4·i+2` to `4·i+3`**: the only step that emits
    `start c` for the line the loop is inside of is the wrapper's, which then is `wrapDispatch c`; by
    `life_monotone` it cannot happen a second time in the same invocation. -/
theorem start_moves_position (p : Prog) (s : St) (c : Nat) (below : List Frame) (e : Event)
    (hcore : coreEvs (stepGen p s (.wrapThr c :: below)).1 = e :: coreEvs s) :
    e = .start c ∧ (stepGen p s (.wrapThr c :: below)).2.1 = .wrapDispatch c :: below := by
  rcases stepGen_core p s (.wrapThr c :: below) with h | ⟨e', f, below', hst, hc, hsite⟩
  · rw [h] at hcore
    exact absurd hcore (by intro h'; have := congrArg List.length h'; simp at this)
  · simp only [List.cons.injEq] at hst
    obtain ⟨e1, e2⟩ := hst
    subst e1 e2
    rw [hc] at hcore
    simp only [List.cons.injEq, and_true] at hcore
    subst hcore
    simp only [SiteF] at hsite
    obtain ⟨h1, htop, _, _, _⟩ := hsite
    refine ⟨h1, ?_⟩
    unfold stepGen
    simp only []
    cases hs : stepFrame p s (.wrapThr c) below with
    | next s' top sig => rw [hs] at htop; simp only [outTop] at htop; subst htop; rfl
    | raise s' => rw [hs] at htop; simp [outTop] at htop

end OPM.InterpC02
