import OPM.Lemmas.Interp
import OPM.Lemmas.InterpLock
set_option linter.unusedSimpArgs false
set_option linter.unusedVariables false
/-!
Frame lemmas behind C03 (thresholds and Wait durations):

* `Env` — what a micro-step can never change: the three clock inputs of the tick (`tickTime`,
  `scopeClock`, `blockClock`);
* `started` — where the `started` flag can flip to true (`stepGen_started`);
* events — a micro-step only *adds* events, and a `start` event is added only by the wrapper at its
  threshold point (`stepGen_events`).

All lemmas hold for every program and every state (no reachability assumption).
-/
namespace OPM.Interp

/-! ## the clocks of the tick are constant during the tick -/

/-- The tick inputs a threshold / a Wait is measured against. -/
def clk (s : St) : Rat × Rat × Rat := (s.tickTime, s.scopeClock, s.blockClock)

@[simp] theorem clk_setRt (s : St) (n : Nat) (f : NodeRt → NodeRt) : clk (setRt s n f) = clk s := rfl
@[simp] theorem clk_emit (s : St) (e : Event) : clk (emit s e) = clk s := rfl

@[simp] theorem clk_markCompleted (s : St) (n : Nat) : clk (markCompleted s n) = clk s := by
  unfold markCompleted; split <;> rfl

@[simp] theorem clk_finishNode (s : St) (n : Nat) : clk (finishNode s n) = clk s := by
  unfold finishNode; simp

@[simp] theorem clk_markFailed (s : St) (n : Nat) : clk (markFailed s n) = clk s := rfl

@[simp] theorem clk_tryActivate (s : St) (n : Nat) (c : Cond) : clk (tryActivate s n c) = clk s := by
  unfold tryActivate; simp only []; split
  · rfl
  · split <;> rfl

@[simp] theorem clk_registerInterrupt (p : Prog) (s : St) (n : Nat) : clk (registerInterrupt p s n) = clk s := by
  unfold registerInterrupt; simp only []; split <;> rfl

@[simp] theorem clk_unregisterInterrupt (s : St) (n : Nat) : clk (unregisterInterrupt s n) = clk s := rfl

/-- A fold of steps that each keep a projection of the whole state keeps it. -/
theorem st_foldl_keep {α β : Type} (π : St → β) (g : St → α → St)
    (hg : ∀ s a, π (g s a) = π s) (l : List α) (s : St) : π (l.foldl g s) = π s := by
  induction l generalizing s with
  | nil => rfl
  | cons a l ih => simp [List.foldl, ih, hg]

@[simp] theorem clk_abort (p : Prog) (s : St) (b : Nat) : clk (abortBlockInterrupts p s b) = clk s := by
  unfold abortBlockInterrupts
  apply st_foldl_keep clk
  intro s a; split <;> rfl

@[simp] theorem clk_endOneBlock (p : Prog) (s : St) (old : Nat) (nm : String) :
    clk (endOneBlock p s old nm) = clk s := by
  unfold endOneBlock; simp

@[simp] theorem clk_endBlockStep (p : Prog) (s : St) : clk (endBlockStep p s) = clk s := by
  unfold endBlockStep; split
  · rfl
  · simp only [clk_endOneBlock]; rfl

@[simp] theorem clk_endBlocksStep (p : Prog) (s : St) : clk (endBlocksStep p s) = clk s := by
  unfold endBlocksStep
  simp only []
  show clk (List.foldl _ s _) = clk s
  exact st_foldl_keep clk _ (fun s a => clk_endOneBlock p s _ _) _ s

@[simp] theorem clk_resetSubtree (p : Prog) (s : St) (n : Nat) : clk (resetSubtree p s n) = clk s := by
  unfold resetSubtree
  exact st_foldl_keep clk (fun s k => setRt s k resetOne) (fun s a => rfl) _ s

@[simp] theorem clk_alarmRearm (p : Prog) (s : St) (n : Nat) : clk (alarmRearm p s n) = clk s := by
  unfold alarmRearm; simp

@[simp] theorem clk_callPrepare (p : Prog) (s : St) (m : Nat) : clk (callPrepare p s m) = clk s := by
  unfold callPrepare; simp only []; split
  · simp
  · rfl

@[simp] theorem clk_callFinish (s : St) (n m : Nat) : clk (callFinish s n m) = clk s := by
  unfold callFinish; simp

theorem clk_unwind (s : St) (stack : List Frame) : clk (unwind s stack).1 = clk s := by
  induction stack with
  | nil => rfl
  | cons f rest ih => cases f <;> simp only [unwind, ih] <;> rfl

theorem stepBody_clk (p : Prog) (s : St) (n pc : Nat) (below : List Frame) :
    clk (outState (stepBody p s n pc below)) = clk s := by
  unfold stepBody
  simp only []
  split
  all_goals (repeat' split)
  all_goals (first | rfl | (simp [outState] <;> rfl))

theorem stepFrame_clk (p : Prog) (s : St) (f : Frame) (below : List Frame) :
    clk (outState (stepFrame p s f below)) = clk s := by
  cases f with
  | body n pc => exact stepBody_clk p s n pc below
  | _ =>
    unfold stepFrame
    simp only []
    repeat' split
    all_goals (first | rfl | (simp [outState]; done))

theorem stepGen_clk (p : Prog) (s : St) (stack : List Frame) : clk (stepGen p s stack).1 = clk s := by
  unfold stepGen
  cases stack with
  | nil => rfl
  | cons f below =>
    simp only []
    have := stepFrame_clk p s f below
    cases hs : stepFrame p s f below with
    | next s' top sig => rw [hs] at this; exact this
    | raise s' =>
      rw [hs] at this
      simp only []
      rw [clk_unwind]; exact this

/-! ## where the `started` flag can become true -/

theorem started_abort (p : Prog) (s : St) (b k : Nat) :
    ((abortBlockInterrupts p s b).rt k).started = (s.rt k).started :=
  proj_abortBlockInterrupts (·.started) (fun _ _ => rfl) (fun _ _ => rfl) p s b k

theorem started_endOneBlock (p : Prog) (s : St) (old : Nat) (nm : String) (k : Nat) :
    ((endOneBlock p s old nm).rt k).started = (s.rt k).started := by
  unfold endOneBlock
  simp only [rt_emit, started_abort, rt_setRt]
  split
  · rename_i h; subst h; rfl
  · rfl

theorem started_endBlockStep (p : Prog) (s : St) (k : Nat) :
    ((endBlockStep p s).rt k).started = (s.rt k).started := by
  unfold endBlockStep
  split
  · rfl
  · simp only [started_endOneBlock]

theorem started_endBlocksStep (p : Prog) (s : St) (k : Nat) :
    ((endBlocksStep p s).rt k).started = (s.rt k).started := by
  unfold endBlocksStep
  simp only []
  exact proj_foldl_keep (·.started) _ (fun s a k => started_endOneBlock p s _ _ k) _ s k

theorem started_resetSubtree_le (p : Prog) (s : St) (n k : Nat)
    (h : ((resetSubtree p s n).rt k).started = true) : (s.rt k).started = true := by
  rcases rt_resetSubtree p s n k with e | e
  · rwa [e] at h
  · rw [e] at h; simp [resetOne] at h

theorem started_alarmRearm_le (p : Prog) (s : St) (n k : Nat)
    (h : ((alarmRearm p s n).rt k).started = true) : (s.rt k).started = true := by
  unfold alarmRearm at h
  simp only [rt_registerInterrupt] at h
  have key : ∀ j, ((resetSubtree p (unregisterInterrupt (setRt (emit (markCompleted s n) (Event.scopeEnd n)) n
      fun r => { r with runCount := r.runCount + 1 }) n) n).rt j).started = true → (s.rt j).started = true := by
    intro j hj
    have := started_resetSubtree_le _ _ _ _ hj
    simp only [rt_unregisterInterrupt, rt_setRt, rt_emit, rt_markCompleted] at this
    repeat' split at this
    all_goals simp_all
  split at h
  · rename_i hk; subst hk; exact key _ h
  · exact key _ h

theorem started_callPrepare_le (p : Prog) (s : St) (m k : Nat)
    (h : ((callPrepare p s m).rt k).started = true) : (s.rt k).started = true := by
  unfold callPrepare at h
  simp only [] at h
  split at h
  · simp only [rt_setRt] at h
    split at h
    · rename_i hk; subst hk; exact started_resetSubtree_le _ _ _ _ h
    · exact started_resetSubtree_le _ _ _ _ h
  · exact h

theorem started_callFinish (s : St) (n m k : Nat) :
    ((callFinish s n m).rt k).started = (s.rt k).started := by
  unfold callFinish
  simp only [rt_setRt, rt_finishNode, getRt_eq]
  repeat' split
  all_goals (try subst_vars)
  all_goals rfl

/-- No instruction body sets `started`, except the Blank/Comment body (`node.started = True` in
    `visit_BlankNode`, which runs after the wrapper has passed the threshold). -/
theorem stepBody_started (p : Prog) (s : St) (n pc : Nat) (below : List Frame) (k : Nat)
    (h : ((outState (stepBody p s n pc below)).rt k).started = true) :
    (s.rt k).started = true ∨ (k = n ∧ (node p n).kind = .blank false) := by
  unfold stepBody at h
  simp only [] at h
  split at h
  all_goals (repeat' split at h)
  all_goals (try simp only [outState, rt_setRt, rt_emit, rt_finishNode, rt_markFailed, rt_markCompleted,
    rt_registerInterrupt, rt_unregisterInterrupt, rt_tryActivate, getRt_eq, started_abort,
    started_endBlockStep, started_endBlocksStep] at h)
  all_goals (try (repeat' split at h))
  all_goals (try (first | exact Or.inl h | exact Or.inl (started_alarmRearm_le _ _ _ _ h)
                        | exact Or.inl (started_callPrepare_le _ _ _ _ h)
                        | exact Or.inl ((started_endBlockStep _ _ _).symm.trans h)
                        | exact Or.inl ((started_endBlocksStep _ _ _).symm.trans h)
                        | (simp_all; done)))

theorem awaiting_false_of_completed (p : Prog) (s : St) (n : Nat) (h : (s.rt n).completed = true) :
    awaitingThreshold p s n = false := by
  unfold awaitingThreshold; simp [h]

/-- The `started` flag of a node flips to true only (a) in the wrapper step at the node's threshold
    point, and only if `_is_awaiting_threshold` is false there, or (b) in a Blank/Comment body. -/
theorem stepFrame_started (p : Prog) (s : St) (f : Frame) (below : List Frame) (k : Nat)
    (h0 : (s.rt k).started = false)
    (h : ((outState (stepFrame p s f below)).rt k).started = true) :
    (f = .wrapThr k ∧ awaitingThreshold p s k = false) ∨
    (∃ pc, f = .body k pc ∧ (node p k).kind = .blank false) := by
  cases f with
  | body n pc =>
    rcases stepBody_started p s n pc below k h with h1 | ⟨e, hk⟩
    · rw [h0] at h1; cases h1
    · subst e; exact Or.inr ⟨pc, rfl, hk⟩
  | wrapThr n =>
    left
    unfold stepFrame at h
    simp only [] at h
    by_cases hc : (!(getRt s n).started && !(getRt s n).completed && awaitingThreshold p s n) = true
    · rw [if_pos hc] at h
      by_cases he : inEndedBlock p s below n = true
      · rw [if_pos he] at h; simp only [outState] at h; rw [h0] at h; cases h
      · rw [if_neg he] at h; simp only [outState] at h; rw [h0] at h; cases h
    · rw [if_neg hc] at h
      simp only [outState, rt_emit, rt_setRt] at h
      by_cases e : k = n
      · subst e
        refine ⟨rfl, ?_⟩
        by_cases hcomp : (s.rt k).completed = true
        · exact awaiting_false_of_completed p s k hcomp
        · simp [h0, hcomp] at hc; exact hc
      · rw [if_neg e, h0] at h; cases h
  | _ =>
    exfalso
    unfold stepFrame at h
    simp only [] at h
    repeat' split at h
    all_goals (try simp only [outState, rt_setRt, rt_emit, rt_finishNode, rt_markFailed, rt_markCompleted,
      getRt_eq, started_callFinish] at h)
    all_goals (try (repeat' split at h))
    all_goals (try subst_vars)
    all_goals (first | (rw [h0] at h; cases h) | (simp_all; done))

theorem unwind_started (s : St) (stack : List Frame) (k : Nat) :
    (((unwind s stack).1).rt k).started = (s.rt k).started := by
  induction stack with
  | nil => rfl
  | cons f rest ih =>
    cases f <;> simp only [unwind, ih]
    simp only [rt_setRt]
    split
    · rename_i h; subst h; rfl
    · rfl

/-- **Guard (micro-step level).** In any micro-step of any generator, a node's `started` flag flips
    only at the node's own threshold point with `_is_awaiting_threshold = False` (or in a Blank body). -/
theorem stepGen_started (p : Prog) (s : St) (stack : List Frame) (k : Nat)
    (h0 : (s.rt k).started = false)
    (h : (((stepGen p s stack).1).rt k).started = true) :
    (stack.head? = some (.wrapThr k) ∧ awaitingThreshold p s k = false) ∨
    (∃ pc, stack.head? = some (.body k pc) ∧ (node p k).kind = .blank false) := by
  unfold stepGen at h
  cases stack with
  | nil => simp only [] at h; rw [h0] at h; cases h
  | cons f below =>
    simp only [] at h
    have := stepFrame_started p s f below k h0
    cases hs : stepFrame p s f below with
    | next s' top sig =>
      rw [hs] at h this
      rcases this h with ⟨e, ha⟩ | ⟨pc, e, hk⟩
      · exact Or.inl ⟨by rw [e]; rfl, ha⟩
      · exact Or.inr ⟨pc, by rw [e]; rfl, hk⟩
    | raise s' =>
      rw [hs] at h this
      simp only [] at h
      rw [unwind_started] at h
      rcases this h with ⟨e, ha⟩ | ⟨pc, e, hk⟩
      · exact Or.inl ⟨by rw [e]; rfl, ha⟩
      · exact Or.inr ⟨pc, by rw [e]; rfl, hk⟩

/-! ## events: a micro-step only adds events; `start` events come from the wrapper only -/

def isStart : Event → Bool
  | .start _ => true
  | _ => false

/-- `s'` carries the events of `s` as a suffix, and every added event satisfies `P`. -/
def EvExt (P : Event → Prop) (s s' : St) : Prop := ∃ l, s'.events = l ++ s.events ∧ ∀ e ∈ l, P e

theorem EvExt.of_eq {P : Event → Prop} {s s' : St} (h : s'.events = s.events) : EvExt P s s' :=
  ⟨[], by simp [h], by intro e he; cases he⟩

theorem EvExt.refl (P : Event → Prop) (s : St) : EvExt P s s := EvExt.of_eq rfl

theorem EvExt.trans {P : Event → Prop} {s1 s2 s3 : St} (h12 : EvExt P s1 s2) (h23 : EvExt P s2 s3) :
    EvExt P s1 s3 := by
  rcases h12 with ⟨l1, e1, p1⟩
  rcases h23 with ⟨l2, e2, p2⟩
  refine ⟨l2 ++ l1, by rw [e2, e1, List.append_assoc], ?_⟩
  intro e he
  rcases List.mem_append.mp he with h | h
  · exact p2 e h
  · exact p1 e h

theorem EvExt.mono {P Q : Event → Prop} {s s' : St} (hpq : ∀ e, P e → Q e) (h : EvExt P s s') : EvExt Q s s' := by
  rcases h with ⟨l, e, pl⟩
  exact ⟨l, e, fun x hx => hpq x (pl x hx)⟩

theorem EvExt.emit {P : Event → Prop} {s s' : St} (h : EvExt P s s') (e : Event) (he : P e) :
    EvExt P s (emit s' e) := by
  rcases h with ⟨l, el, pl⟩
  refine ⟨e :: l, by simp [Interp.emit, el], ?_⟩
  intro x hx
  rcases List.mem_cons.mp hx with h | h
  · rw [h]; exact he
  · exact pl x h

theorem EvExt.setRt {P : Event → Prop} {s s' : St} (h : EvExt P s s') (n : Nat) (f : NodeRt → NodeRt) :
    EvExt P s (setRt s' n f) := h

theorem EvExt.foldl {α : Type} {P : Event → Prop} (g : St → α → St) (hg : ∀ s a, EvExt P s (g s a))
    (l : List α) (s : St) : EvExt P s (l.foldl g s) := by
  induction l generalizing s with
  | nil => exact EvExt.refl P s
  | cons a l ih => exact (hg s a).trans (ih (g s a))

/-- "not a start event" -/
abbrev NoStart : Event → Prop := fun e => isStart e = false

theorem EvExt.emitNS {s s' : St} (h : EvExt NoStart s s') (e : Event) (he : isStart e = false) :
    EvExt NoStart s (Interp.emit s' e) := EvExt.emit h e he

theorem EvExt.reflNS (s : St) : EvExt NoStart s s := EvExt.refl _ s

theorem EvExt.ofEqNS {s s' : St} (h : s'.events = s.events) : EvExt NoStart s s' := EvExt.of_eq h

theorem ev_markCompleted (s : St) (n : Nat) : EvExt NoStart s (markCompleted s n) := by
  unfold markCompleted
  split
  · exact (EvExt.reflNS s).emitNS _ rfl
  · exact ((EvExt.reflNS s).setRt _ _).emitNS _ rfl

theorem ev_finishNode (s : St) (n : Nat) : EvExt NoStart s (finishNode s n) := by
  unfold finishNode; exact (ev_markCompleted s n).setRt _ _

theorem ev_markFailed (s : St) (n : Nat) : EvExt NoStart s (markFailed s n) := by
  unfold markFailed; exact ((EvExt.reflNS s).setRt _ _).emitNS _ rfl

theorem ev_tryActivate (s : St) (n : Nat) (c : Cond) : EvExt NoStart s (tryActivate s n c) := by
  unfold tryActivate; simp only []; split
  · exact EvExt.reflNS s
  · split
    · exact (EvExt.reflNS s).setRt _ _
    · exact EvExt.reflNS s

theorem ev_registerInterrupt (p : Prog) (s : St) (n : Nat) : EvExt NoStart s (registerInterrupt p s n) := by
  unfold registerInterrupt
  simp only []
  split
  · exact EvExt.emitNS (EvExt.emitNS (EvExt.ofEqNS rfl) _ rfl) _ rfl
  · exact EvExt.emitNS (EvExt.emitNS (EvExt.ofEqNS rfl) _ rfl) _ rfl
  · exact EvExt.emitNS (EvExt.ofEqNS rfl) _ rfl

theorem ev_unregisterInterrupt (s : St) (n : Nat) : EvExt NoStart s (unregisterInterrupt s n) := by
  unfold unregisterInterrupt
  exact EvExt.emitNS (EvExt.ofEqNS rfl) _ rfl

theorem ev_abort (p : Prog) (s : St) (b : Nat) : EvExt NoStart s (abortBlockInterrupts p s b) := by
  unfold abortBlockInterrupts
  apply EvExt.foldl
  intro s a
  split
  · exact ((EvExt.reflNS s).setRt _ _).trans (ev_unregisterInterrupt _ _)
  · exact EvExt.reflNS s

theorem ev_endOneBlock (p : Prog) (s : St) (old : Nat) (nm : String) : EvExt NoStart s (endOneBlock p s old nm) := by
  unfold endOneBlock
  exact (((((EvExt.reflNS s).emitNS _ rfl).setRt _ _).trans (ev_abort p _ old)).emitNS _ rfl)

theorem ev_endBlockStep (p : Prog) (s : St) : EvExt NoStart s (endBlockStep p s) := by
  unfold endBlockStep
  split
  · exact EvExt.reflNS s
  · exact (EvExt.ofEqNS (s := s) rfl).trans (ev_endOneBlock p _ _ _)

theorem ev_endBlocksStep (p : Prog) (s : St) : EvExt NoStart s (endBlocksStep p s) := by
  unfold endBlocksStep
  simp only []
  have h := EvExt.foldl (P := NoStart) (fun (s : St) (x : Nat × Nat) =>
      endOneBlock p s x.1 (if x.2 + 1 < (lockedBlocks p s).length - 1 then
        ((lockedBlocks p s)[x.2 + 1]?.map (blockName p)).getD "" else "")) (fun s a => ev_endOneBlock p s _ _)
  refine EvExt.trans ?_ (EvExt.ofEqNS rfl)
  exact EvExt.foldl (P := NoStart) _ (fun s a => ev_endOneBlock p s _ _) _ s

theorem ev_resetSubtree (p : Prog) (s : St) (n : Nat) : EvExt NoStart s (resetSubtree p s n) := by
  unfold resetSubtree
  exact EvExt.foldl (P := NoStart) (fun s k => Interp.setRt s k resetOne) (fun s a => (EvExt.reflNS s).setRt _ _) _ s

theorem ev_alarmRearm (p : Prog) (s : St) (n : Nat) : EvExt NoStart s (alarmRearm p s n) := by
  unfold alarmRearm
  exact (((((ev_markCompleted s n).emitNS _ rfl).setRt _ _).trans (ev_unregisterInterrupt _ _)).trans
    (ev_resetSubtree p _ _)).trans (ev_registerInterrupt p _ _)

theorem ev_callPrepare (p : Prog) (s : St) (m : Nat) : EvExt NoStart s (callPrepare p s m) := by
  unfold callPrepare; simp only []; split
  · exact (ev_resetSubtree p s m).setRt _ _
  · exact EvExt.reflNS s

theorem ev_callFinish (s : St) (n m : Nat) : EvExt NoStart s (callFinish s n m) := by
  unfold callFinish
  exact (((((EvExt.reflNS s).setRt _ _).trans (ev_finishNode _ _)).setRt _ _).setRt _ _)

theorem events_unwind (s : St) (stack : List Frame) : (unwind s stack).1.events = s.events := by
  induction stack with
  | nil => rfl
  | cons f rest ih => cases f <;> simp only [unwind, ih] <;> rfl

/-- peel one constructor off the state expression of an `EvExt NoStart s _` goal -/
macro "ev_peel" : tactic => `(tactic| first
  | with_reducible exact EvExt.reflNS _
  | with_reducible apply EvExt.emitNS _ _ rfl
  | with_reducible apply EvExt.setRt
  | with_reducible refine EvExt.trans ?_ (ev_finishNode _ _)
  | with_reducible refine EvExt.trans ?_ (ev_markFailed _ _)
  | with_reducible refine EvExt.trans ?_ (ev_markCompleted _ _)
  | with_reducible refine EvExt.trans ?_ (ev_alarmRearm _ _ _)
  | with_reducible refine EvExt.trans ?_ (ev_registerInterrupt _ _ _)
  | with_reducible refine EvExt.trans ?_ (ev_unregisterInterrupt _ _)
  | with_reducible refine EvExt.trans ?_ (ev_resetSubtree _ _ _)
  | with_reducible refine EvExt.trans ?_ (ev_tryActivate _ _ _)
  | with_reducible refine EvExt.trans ?_ (ev_alarmRearm _ _ _)
  | with_reducible refine EvExt.trans ?_ (ev_callPrepare _ _ _)
  | with_reducible refine EvExt.trans ?_ (ev_callFinish _ _ _)
  | with_reducible refine EvExt.trans ?_ (ev_endBlockStep _ _)
  | with_reducible refine EvExt.trans ?_ (ev_endBlocksStep _ _)
  | exact EvExt.ofEqNS rfl)

/-- No instruction body emits a `start` event; it only adds events. -/
theorem stepBody_ev (p : Prog) (s : St) (n pc : Nat) (below : List Frame) :
    EvExt NoStart s (outState (stepBody p s n pc below)) := by
  unfold stepBody
  simp only []
  split
  all_goals (repeat' split)
  all_goals (simp only [outState])
  all_goals (repeat ev_peel)

/-- What a `start` event added by a micro-step on frame `f` in state `s` must look like. -/
def StartOk (p : Prog) (s : St) (f : Option Frame) : Event → Prop := fun e =>
  isStart e = true → ∃ n, e = .start n ∧ f = some (.wrapThr n) ∧
    ((s.rt n).started = true ∨ awaitingThreshold p s n = false)

theorem stepFrame_ev (p : Prog) (s : St) (f : Frame) (below : List Frame) :
    EvExt (StartOk p s (some f)) s (outState (stepFrame p s f below)) := by
  have weaken : ∀ s', EvExt NoStart s s' → EvExt (StartOk p s (some f)) s s' := by
    intro s' h
    exact h.mono (fun e he hs => by rw [he] at hs; cases hs)
  cases f with
  | body n pc => exact weaken _ (stepBody_ev p s n pc below)
  | wrapThr n =>
    unfold stepFrame
    simp only []
    by_cases hc : (!(getRt s n).started && !(getRt s n).completed && awaitingThreshold p s n) = true
    · rw [if_pos hc]
      by_cases he : inEndedBlock p s below n = true
      · rw [if_pos he]; exact EvExt.refl _ s
      · rw [if_neg he]; exact EvExt.refl _ s
    · rw [if_neg hc]
      simp only [outState]
      refine EvExt.emit (EvExt.of_eq rfl) _ ?_
      intro _
      refine ⟨n, rfl, rfl, ?_⟩
      by_cases hst : (s.rt n).started = true
      · exact Or.inl hst
      · right
        by_cases hcomp : (s.rt n).completed = true
        · exact awaiting_false_of_completed p s n hcomp
        · simp [hst, hcomp] at hc; exact hc
  | _ =>
    apply weaken
    unfold stepFrame
    simp only []
    repeat' split
    all_goals (simp only [outState])
    all_goals (repeat ev_peel)

/-- **Events of a micro-step.** A micro-step keeps all events of the tick so far and adds new ones in
    front; an added `start n` event comes from the wrapper of `n` at its threshold point, in a state
    where `n` was already started or `_is_awaiting_threshold(n)` is false. -/
theorem stepGen_events (p : Prog) (s : St) (stack : List Frame) :
    EvExt (StartOk p s stack.head?) s (stepGen p s stack).1 := by
  unfold stepGen
  cases stack with
  | nil => exact EvExt.refl _ s
  | cons f below =>
    simp only [List.head?]
    have := stepFrame_ev p s f below
    cases hs : stepFrame p s f below with
    | next s' top sig => rw [hs] at this; exact this
    | raise s' =>
      rw [hs] at this
      simp only [outState] at this ⊢
      exact this.trans (EvExt.of_eq (events_unwind s' below))

/-! ## a tick as a chain of micro-steps -/

/-- `Micro p s s'`: `s'` arises from `s` by one micro-step of some generator, or by bookkeeping of
    `PInterpreter.tick` (storing a generator's stack, the `_in_interrupt` flag, dropping dead
    generators) that touches neither node flags, clocks, Block tag, base unit nor events. -/
inductive Micro (p : Prog) : St → St → Prop
  | step (s : St) (stack : List Frame) : Micro p s (stepGen p s stack).1
  | admin (s s' : St) : s'.rt = s.rt → clk s' = clk s → s'.blockTag = s.blockTag →
      s'.baseFactor = s.baseFactor → s'.events = s.events → Micro p s s'

/-- `Within p s s'`: `s'` is reached from `s` inside one tick (reflexive-transitive closure of `Micro`). -/
inductive Within (p : Prog) : St → St → Prop
  | refl (s : St) : Within p s s
  | tail (s s1 s2 : St) : Within p s s1 → Micro p s1 s2 → Within p s s2

theorem Within.trans {p : Prog} {s1 s2 s3 : St} (h12 : Within p s1 s2) (h23 : Within p s2 s3) : Within p s1 s3 := by
  induction h23 with
  | refl => exact h12
  | tail sa sb hw hm ih => exact Within.tail _ _ _ ih hm

theorem Within.single {p : Prog} {s s' : St} (h : Micro p s s') : Within p s s' :=
  Within.tail _ _ _ (Within.refl s) h

theorem within_runGen (p : Prog) (fuel : Nat) (s : St) (stack : List Frame) :
    Within p s (runGen p fuel s stack).1 := by
  induction fuel generalizing s stack with
  | zero => exact Within.refl s
  | succ fuel ih =>
    unfold runGen
    have h1 : Within p s (stepGen p s stack).1 := Within.single (Micro.step s stack)
    rcases hs : stepGen p s stack with ⟨s1, stack1, sig⟩
    rw [hs] at h1
    cases sig
    · exact h1.trans (ih s1 stack1)
    · exact h1
    · exact h1

theorem within_runGid (p : Prog) (fuel : Nat) (s : St) (gid : Nat) : Within p s (runGid p fuel s gid).1 := by
  unfold runGid
  split
  · exact Within.refl s
  · rename_i g _
    have h1 := within_runGen p fuel s g.stack
    rcases hr : runGen p fuel s g.stack with ⟨s1, stack1, ok⟩
    rw [hr] at h1
    exact Within.tail _ _ _ h1 (Micro.admin _ _ rfl rfl rfl rfl rfl)

theorem within_foldInterrupts (p : Prog) (l : List Nat) (acc : St × Bool) :
    Within p acc.1 (l.foldl (fun (acc : St × Bool) gid =>
      let r := runGid p microFuel { acc.1 with inInterrupt := true } gid
      ({ r.1 with inInterrupt := false }, acc.2 && r.2)) acc).1 := by
  induction l generalizing acc with
  | nil => exact Within.refl _
  | cons g l ih =>
    simp only [List.foldl]
    refine Within.trans ?_ (ih _)
    have a1 : Within p acc.1 { acc.1 with inInterrupt := true } :=
      Within.single (Micro.admin _ _ rfl rfl rfl rfl rfl)
    have a2 := within_runGid p microFuel { acc.1 with inInterrupt := true } g
    exact (a1.trans a2).trans (Within.single (Micro.admin _ _ rfl rfl rfl rfl rfl))

/-- The state in which the generators of a tick start running: the tick's clock inputs and condition
    tags are in place, the event list of the tick is empty. -/
def tickStart (s : St) (i : TickIn) : St :=
  { s with tickTime := i.time, scopeClock := i.scopeClock, blockClock := i.blockClock,
           tags := i.tags, events := [], inInterrupt := false }

/-- A whole `PInterpreter.tick` is a chain of micro-steps from `tickStart`. -/
theorem tick_within (p : Prog) (s : St) (i : TickIn) : Within p (tickStart s i) (tick p s i).1 := by
  have h0 := within_runGid p microFuel (tickStart s i) 0
  have h1 := within_foldInterrupts p ((runGid p microFuel (tickStart s i) 0).1.imap.map (·.2))
    (runGid p microFuel (tickStart s i) 0)
  refine Within.tail _ _ _ (h0.trans h1) ?_
  exact Micro.admin _ _ rfl rfl rfl rfl rfl

theorem micro_clk {p : Prog} {s s' : St} (h : Micro p s s') : clk s' = clk s := by
  cases h with
  | step stack => exact stepGen_clk p s stack
  | admin _ _ hc _ _ _ => exact hc

/-- The clocks a threshold / a Wait is compared with are the tick's inputs at every micro-step of the tick. -/
theorem within_clk {p : Prog} {s s' : St} (h : Within p s s') : clk s' = clk s := by
  induction h with
  | refl => rfl
  | tail sa sb _ hm ih => rw [micro_clk hm, ih]

theorem awaiting_congr (p : Prog) (s s' : St) (n : Nat) (hrt : s'.rt = s.rt) (hc : clk s' = clk s)
    (hb : s'.blockTag = s.blockTag) (hf : s'.baseFactor = s.baseFactor) :
    awaitingThreshold p s' n = awaitingThreshold p s n := by
  have h1 : s'.scopeClock = s.scopeClock := by
    have := congrArg (fun x => x.2.1) hc; exact this
  have h2 : s'.blockClock = s.blockClock := by
    have := congrArg (fun x => x.2.2) hc; exact this
  unfold awaitingThreshold
  simp only [getRt_eq, hrt, hb, hf, h1, h2]
  rfl

/-- Events only accumulate inside a tick. -/
theorem within_events_mono {p : Prog} {s s' : St} (h : Within p s s') : ∀ e ∈ s.events, e ∈ s'.events := by
  induction h with
  | refl => exact fun e he => he
  | tail sa sb _ hm ih =>
    intro e he
    have h1 := ih e he
    cases hm with
    | step stack =>
      rcases stepGen_events p sa stack with ⟨l, el, _⟩
      rw [el]; exact List.mem_append_right _ h1
    | admin _ _ _ _ _ hev => rw [hev]; exact h1

/-- **Guard (tick level, flag).** If a node's `started` flag is false at `s` and true at a later point `s'`
    of the same tick, there is a micro-step in between — taken in a state `s1` of this tick — at the
    node's own threshold point with `_is_awaiting_threshold = False` (or a Blank body). -/
theorem within_started (p : Prog) {s s' : St} (h : Within p s s') (k : Nat)
    (h0 : (s.rt k).started = false) (h1 : (s'.rt k).started = true) :
    ∃ s1, Within p s s1 ∧ (awaitingThreshold p s1 k = false ∨ (node p k).kind = .blank false) := by
  induction h with
  | refl => rw [h0] at h1; cases h1
  | tail sa sb hw hm ih =>
    by_cases hs : (sa.rt k).started = true
    · exact ih hs
    · have hs0 : (sa.rt k).started = false := by simpa using hs
      cases hm with
      | step stack =>
        rcases stepGen_started p sa stack k hs0 h1 with ⟨_, ha⟩ | ⟨pc, _, hk⟩
        · exact ⟨sa, hw, Or.inl ha⟩
        · exact ⟨sa, hw, Or.inr hk⟩
      | admin _ hrt _ _ _ _ => rw [hrt] at h1; exact absurd h1 hs

/-- **Guard (tick level, event).** A `start n` event present at a point of the tick was already there
    at `s`, or was added by the wrapper of `n` in a state `s1` of this tick in which `n` was already
    started or `_is_awaiting_threshold(n)` was false. -/
theorem within_start_event (p : Prog) {s s' : St} (h : Within p s s') (n : Nat)
    (h1 : Event.start n ∈ s'.events) :
    Event.start n ∈ s.events ∨
      ∃ s1, Within p s s1 ∧ ((s1.rt n).started = true ∨ awaitingThreshold p s1 n = false) := by
  induction h with
  | refl => exact Or.inl h1
  | tail sa sb hw hm ih =>
    cases hm with
    | step stack =>
      rcases stepGen_events p sa stack with ⟨l, el, pl⟩
      rw [el] at h1
      rcases List.mem_append.mp h1 with hl | hr
      · rcases pl _ hl rfl with ⟨m, em, _, hg⟩
        cases em
        exact Or.inr ⟨sa, hw, hg⟩
      · exact ih hr
    | admin _ _ _ _ _ hev => rw [hev] at h1; exact ih h1

/-! ## flag updates that thresholds and ended-block checks do not see -/

theorem blockEnded_setRt (s : St) (n a : Nat) (f : NodeRt → NodeRt) (hf : ∀ r, (f r).blockEnded = r.blockEnded) :
    ((setRt s n f).rt a).blockEnded = (s.rt a).blockEnded := by
  simp only [rt_setRt]
  split
  · rename_i h; subst h; exact hf _
  · rfl

theorem endedBlockAbove_setRt (p : Prog) (s : St) (n c : Nat) (f : NodeRt → NodeRt)
    (hf : ∀ r, (f r).blockEnded = r.blockEnded) :
    endedBlockAbove p (setRt s n f) c = endedBlockAbove p s c := by
  unfold endedBlockAbove
  simp only [getRt_eq, blockEnded_setRt s n _ f hf]

theorem inEndedBlock_setRt (p : Prog) (s : St) (n c : Nat) (below : List Frame) (f : NodeRt → NodeRt)
    (hf : ∀ r, (f r).blockEnded = r.blockEnded) :
    inEndedBlock p (setRt s n f) below c = inEndedBlock p s below c := by
  unfold inEndedBlock
  simp only [getRt_eq, blockEnded_setRt s n _ f hf, endedBlockAbove_setRt p s n _ f hf]

theorem awaiting_setRt (p : Prog) (s : St) (n c : Nat) (f : NodeRt → NodeRt)
    (hf : ∀ r, (f r).completed = r.completed ∧ (f r).forced = r.forced) :
    awaitingThreshold p (setRt s n f) c = awaitingThreshold p s c := by
  unfold awaitingThreshold
  have h1 : ((setRt s n f).rt c).completed = (s.rt c).completed := by
    simp only [rt_setRt]; split
    · rename_i h; subst h; exact (hf _).1
    · rfl
  have h2 : ((setRt s n f).rt c).forced = (s.rt c).forced := by
    simp only [rt_setRt]; split
    · rename_i h; subst h; exact (hf _).2
    · rfl
  simp only [getRt_eq, h1, h2]
  rfl

end OPM.Interp
