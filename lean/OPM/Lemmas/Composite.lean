import OPM.Model.Composite
/-! Helper lemmas for C25: grouping by layer, dict folds. -/
namespace OPM.Composite

/-- registers of layer `l` in a grouping (`[]` when the layer has no group) -/
def find : List (Layer × List RegId) → Layer → List RegId
  | [], _ => []
  | (l', rs) :: rest, l => if l' = l then rs else find rest l

def layers (gs : List (Layer × List RegId)) : List Layer := gs.map (·.1)

theorem find_groupAdd_same (gs : List (Layer × List RegId)) (l : Layer) (r : RegId) :
    find (groupAdd gs l r) l = find gs l ++ [r] := by
  induction gs with
  | nil => simp [groupAdd, find]
  | cons g gs ih =>
    obtain ⟨l', rs⟩ := g
    by_cases h : l' = l <;> simp [groupAdd, find, h, ih]

theorem find_groupAdd_other (gs : List (Layer × List RegId)) (l l' : Layer) (r : RegId) (h : l' ≠ l) :
    find (groupAdd gs l r) l' = find gs l' := by
  induction gs with
  | nil => simp [groupAdd, find, h.symm]
  | cons g gs ih =>
    obtain ⟨l'', rs⟩ := g
    by_cases h2 : l'' = l
    · subst h2; simp [groupAdd, find, h.symm]
    · by_cases h3 : l'' = l'
      · subst h3; simp [groupAdd, find, h2]
      · simp [groupAdd, find, h2, h3, ih]

theorem layers_groupAdd (gs : List (Layer × List RegId)) (l : Layer) (r : RegId) :
    layers (groupAdd gs l r) = if l ∈ layers gs then layers gs else layers gs ++ [l] := by
  induction gs with
  | nil => simp [groupAdd, layers]
  | cons g gs ih =>
    obtain ⟨l', rs⟩ := g
    by_cases h : l' = l
    · subst h; simp [groupAdd, layers]
    · have ih' := ih
      simp only [layers] at ih' ⊢
      simp only [groupAdd, h, if_false, List.map_cons, ih', List.mem_cons, Ne.symm h, false_or]
      split <;> simp_all

/-- well-formed grouping: distinct layers, no empty group -/
def WFG (gs : List (Layer × List RegId)) : Prop := (layers gs).Nodup ∧ ∀ g ∈ gs, g.2 ≠ []

theorem groupAdd_nonempty (gs : List (Layer × List RegId)) (l : Layer) (r : RegId)
    (h : ∀ g ∈ gs, g.2 ≠ []) : ∀ g ∈ groupAdd gs l r, g.2 ≠ [] := by
  induction gs with
  | nil => simp [groupAdd]
  | cons g gs ih =>
    obtain ⟨l', rs⟩ := g
    by_cases h2 : l' = l
    · simp only [groupAdd, h2, if_true, List.mem_cons]
      rintro g (rfl | hg)
      · simp
      · exact h g (by simp [hg])
    · simp only [groupAdd, h2, if_false, List.mem_cons]
      rintro g (rfl | hg)
      · exact h _ (by simp)
      · exact ih (fun g hg => h g (by simp [hg])) g hg

theorem wfg_groupAdd (gs : List (Layer × List RegId)) (l : Layer) (r : RegId) (h : WFG gs) :
    WFG (groupAdd gs l r) := by
  refine ⟨?_, groupAdd_nonempty gs l r h.2⟩
  rw [layers_groupAdd]
  split
  · exact h.1
  · rename_i hn
    exact List.nodup_append.mpr ⟨h.1, by simp, by
      intro a ha b hb; simp only [List.mem_singleton] at hb; subst hb; exact fun e => hn (e ▸ ha)⟩

theorem mem_find (gs : List (Layer × List RegId)) (h : (layers gs).Nodup) :
    ∀ g ∈ gs, find gs g.1 = g.2 := by
  induction gs with
  | nil => intro g hg; cases hg
  | cons a gs ih =>
    obtain ⟨l', rs⟩ := a
    simp only [layers, List.map_cons, List.nodup_cons] at h
    intro g hg
    rcases List.mem_cons.mp hg with rfl | hg
    · simp [find]
    · have hne : l' ≠ g.1 := fun e => h.1 (e ▸ List.mem_map_of_mem (f := fun g => g.1) hg)
      simp only [find, hne, if_false]
      exact ih h.2 g hg

theorem find_mem (gs : List (Layer × List RegId)) (l : Layer) (h : find gs l ≠ []) : (l, find gs l) ∈ gs := by
  induction gs with
  | nil => simp [find] at h
  | cons a gs ih =>
    obtain ⟨l', rs⟩ := a
    by_cases h2 : l' = l
    · subst h2; simp [find]
    · simp only [find, h2, if_false] at h ⊢
      exact List.mem_cons_of_mem _ (ih h)

/-- the grouping loop with a total layer assignment `lay` -/
theorem groupsFrom_spec (cfg : Cfg) (lay : RegId → Layer) (regs : List RegId)
    (hl : ∀ r ∈ regs, cfg.layerOf r = some (lay r)) :
    ∀ acc, WFG acc → ∃ gs, groupsFrom cfg acc regs = some gs ∧ WFG gs ∧
      ∀ l, find gs l = find acc l ++ regs.filter (fun r => lay r = l) := by
  induction regs with
  | nil => intro acc h; exact ⟨acc, rfl, h, by simp⟩
  | cons r regs ih =>
    intro acc h
    have hr := hl r (by simp)
    obtain ⟨gs, h1, h2, h3⟩ := ih (fun r' hr' => hl r' (by simp [hr'])) (groupAdd acc (lay r) r)
      (wfg_groupAdd acc (lay r) r h)
    refine ⟨gs, by simp [groupsFrom, hr, h1], h2, ?_⟩
    intro l
    rw [h3 l]
    by_cases e : lay r = l
    · subst e; simp [find_groupAdd_same]
    · rw [find_groupAdd_other _ _ _ _ (Ne.symm e)]; simp [e]

theorem groupsFrom_none (cfg : Cfg) (regs : List RegId) (h : ∃ r ∈ regs, cfg.layerOf r = none) :
    ∀ acc, groupsFrom cfg acc regs = none := by
  induction regs with
  | nil => obtain ⟨r, hr, _⟩ := h; cases hr
  | cons r regs ih =>
    intro acc
    simp only [groupsFrom]
    cases hr : cfg.layerOf r with
    | none => rfl
    | some l =>
      simp only
      apply ih
      obtain ⟨r', hr', hn⟩ := h
      rcases List.mem_cons.mp hr' with rfl | hr'
      · rw [hr] at hn; cases hn
      · exact ⟨r', hr', hn⟩

/-! dict folds -/

theorem dfold_read {V : Type} (m : Mem V) (l : Layer) (rs : List RegId) (d : RegId → Option V) (k : RegId) :
    (rs.foldl (fun d r => dset d r (m l r)) d) k = if k ∈ rs then some (m l k) else d k := by
  induction rs generalizing d with
  | nil => simp
  | cons r rs ih =>
    simp only [List.foldl_cons, ih, List.mem_cons]
    by_cases h : k ∈ rs
    · simp [h]
    · by_cases h2 : k = r
      · subst h2; simp [h, dset]
      · simp [h, h2, dset]

theorem sequence_map_some {V : Type} (regs : List RegId) (d : RegId → Option V) (f : RegId → V)
    (h : ∀ r ∈ regs, d r = some (f r)) : sequence (regs.map d) = some (regs.map f) := by
  induction regs with
  | nil => rfl
  | cons r regs ih =>
    simp only [List.map_cons, h r (by simp), sequence, ih (fun r' hr' => h r' (by simp [hr']))]
    rfl

def callOfRead {V : Type} (g : Layer × List RegId) : Call V := ⟨g.1, g.2, []⟩

/-- the read loop when no involved layer fails -/
theorem readGo_spec {V : Type} (cfg : Cfg) (m : Mem V) (lay : RegId → Layer) (gs : List (Layer × List RegId))
    (hf : ∀ g ∈ gs, cfg.failing g.1 = false) (hw : ∀ g ∈ gs, ∀ r ∈ g.2, lay r = g.1) :
    ∀ (d : RegId → Option V) (cs : List (Call V)),
      ∃ d', readGo cfg m gs d cs = (some d', cs ++ gs.map callOfRead) ∧
        ∀ k, d' k = if ∃ g ∈ gs, k ∈ g.2 then some (m (lay k) k) else d k := by
  induction gs with
  | nil => intro d cs; exact ⟨d, by simp [readGo], by simp⟩
  | cons g gs ih =>
    intro d cs
    obtain ⟨l, rs⟩ := g
    have hfl : cfg.failing l = false := hf (l, rs) (by simp)
    obtain ⟨d', h1, h2⟩ := ih (fun g hg => hf g (by simp [hg])) (fun g hg => hw g (by simp [hg]))
      (rs.foldl (fun d r => dset d r (m l r)) d) (cs ++ [⟨l, rs, []⟩])
    refine ⟨d', by simp [readGo, hfl, h1, callOfRead], ?_⟩
    intro k
    rw [h2 k, dfold_read]
    by_cases hk : ∃ g ∈ gs, k ∈ g.2
    · obtain ⟨g, hg, hkg⟩ := hk
      have : ∃ g' ∈ (l, rs) :: gs, k ∈ g'.2 := ⟨g, by simp [hg], hkg⟩
      rw [if_pos this, if_pos ⟨g, hg, hkg⟩]
    · rw [if_neg hk]
      by_cases hk2 : k ∈ rs
      · have hl : lay k = l := hw (l, rs) (by simp) k hk2
        have : ∃ g' ∈ (l, rs) :: gs, k ∈ g'.2 := ⟨(l, rs), by simp, hk2⟩
        rw [if_pos hk2, if_pos this, hl]
      · have : ¬ ∃ g' ∈ (l, rs) :: gs, k ∈ g'.2 := by
          rintro ⟨g', hg', hk'⟩
          rcases List.mem_cons.mp hg' with rfl | hg'
          · exact hk2 hk'
          · exact hk ⟨g', hg', hk'⟩
        rw [if_neg hk2, if_neg this]

/-- the read loop stops at the first failing layer -/
theorem readGo_fail {V : Type} (cfg : Cfg) (m : Mem V) (gs : List (Layer × List RegId))
    (hf : ∃ g ∈ gs, cfg.failing g.1 = true) :
    ∀ (d : RegId → Option V) (cs : List (Call V)), (readGo cfg m gs d cs).1 = none := by
  induction gs with
  | nil => obtain ⟨g, hg, _⟩ := hf; cases hg
  | cons g gs ih =>
    intro d cs
    obtain ⟨l, rs⟩ := g
    simp only [readGo]
    split
    · rfl
    · rename_i hl
      apply ih
      obtain ⟨g', hg', hfg⟩ := hf
      rcases List.mem_cons.mp hg' with rfl | hg'
      · exact absurd hfg hl
      · exact ⟨g', hg', hfg⟩

/-! writes -/

/-- the value of the last pair for register `r` -/
def lastV {V : Type} : List (RegId × V) → RegId → Option V
  | [], _ => none
  | a :: rest, r => match lastV rest r with
    | some v => some v
    | none => if a.1 = r then some a.2 else none

theorem wv_fold {V : Type} (ps : List (RegId × V)) (d : RegId → Option V) (k : RegId) :
    (ps.foldl (fun d e => dset d e.1 e.2) d) k = match lastV ps k with | some v => some v | none => d k := by
  induction ps generalizing d with
  | nil => simp [lastV]
  | cons a ps ih =>
    simp only [List.foldl_cons, ih, lastV]
    cases lastV ps k with
    | some v => rfl
    | none =>
      by_cases h : a.1 = k
      · simp [dset, h]
      · have h' : ¬ k = a.1 := fun e => h e.symm
        simp [dset, h, h']

theorem lastV_isSome {V : Type} (ps : List (RegId × V)) (k : RegId) :
    (lastV ps k).isSome = true ↔ k ∈ ps.map (·.1) := by
  induction ps with
  | nil => simp [lastV]
  | cons a ps ih =>
    simp only [lastV, List.map_cons, List.mem_cons]
    cases h : lastV ps k with
    | some v => simp [h] at ih; simp [ih]
    | none =>
      simp [h] at ih
      by_cases h2 : a.1 = k
      · simp [h2]
      · have h' : ¬ k = a.1 := fun e => h2 e.symm
        simp [h2, h', ih]

/-- sequential single writes, each on the register's own layer -/
def seqWrite {V : Type} (lay : RegId → Layer) (m : Mem V) (ps : List (RegId × V)) : Mem V :=
  ps.foldl (fun m e => setMem m (lay e.1) e.1 e.2) m

theorem seqWrite_spec {V : Type} (lay : RegId → Layer) (ps : List (RegId × V)) (m : Mem V) (l : Layer) (r : RegId) :
    seqWrite lay m ps l r = match lastV ps r with
      | some v => if lay r = l then v else m l r
      | none => m l r := by
  induction ps generalizing m with
  | nil => simp [seqWrite, lastV]
  | cons a ps ih =>
    have ih' := ih (setMem m (lay a.1) a.1 a.2)
    simp only [seqWrite, List.foldl_cons] at ih' ⊢
    rw [ih']
    simp only [lastV]
    cases lastV ps r with
    | some v => by_cases h : lay r = l <;> simp [h, setMem]; intro h1 h2; exact absurd (h2 ▸ h1.symm) h
    | none =>
      by_cases h2 : a.1 = r
      · subst h2
        by_cases h : lay a.1 = l
        · simp [h, setMem]
        · have h' : ¬ l = lay a.1 := fun e => h e.symm
          simp [h, h', setMem]
      · simp [h2, setMem]; intro _ h3; exact absurd h3.symm h2

theorem layerWrite_spec {V : Type} (l : Layer) (f : RegId → V) (rs : List RegId) (m : Mem V) (l' : Layer) (r : RegId) :
    layerWrite m l (rs.zip (rs.map f)) l' r = if l' = l ∧ r ∈ rs then f r else m l' r := by
  induction rs generalizing m with
  | nil => simp [layerWrite]
  | cons a rs ih =>
    have ih' := ih (setMem m l a (f a))
    simp only [layerWrite, List.map_cons, List.zip_cons_cons, List.foldl_cons] at ih' ⊢
    rw [ih']
    by_cases h1 : l' = l
    · by_cases h2 : r ∈ rs
      · simp [h1, h2]
      · by_cases h3 : r = a
        · subst h3; simp [h1, h2, setMem]
        · simp [h1, h2, h3, setMem]
    · simp [h1, setMem]

theorem filterMap_eq_map {V : Type} (wv : RegId → Option V) (f : RegId → V) (rs : List RegId)
    (h : ∀ r ∈ rs, wv r = some (f r)) : rs.filterMap wv = rs.map f := by
  induction rs with
  | nil => rfl
  | cons r rs ih =>
    simp [h r (by simp), ih (fun r' hr' => h r' (by simp [hr']))]

def callOfWrite {V : Type} (f : RegId → V) (g : Layer × List RegId) : Call V := ⟨g.1, g.2, g.2.map f⟩

/-- the write loop when no involved layer fails; `f r` is the value to write for `r` -/
theorem writeGo_spec {V : Type} (cfg : Cfg) (wv : RegId → Option V) (f : RegId → V)
    (gs : List (Layer × List RegId)) (hf : ∀ g ∈ gs, cfg.failing g.1 = false)
    (hv : ∀ g ∈ gs, ∀ r ∈ g.2, wv r = some (f r)) :
    ∀ (m : Mem V) (cs : List (Call V)),
      ∃ m', writeGo cfg wv gs m cs = (false, m', cs ++ gs.map (callOfWrite f)) ∧
        ∀ l r, m' l r = if ∃ g ∈ gs, g.1 = l ∧ r ∈ g.2 then f r else m l r := by
  induction gs with
  | nil => intro m cs; exact ⟨m, by simp [writeGo], by simp⟩
  | cons g gs ih =>
    intro m cs
    obtain ⟨l0, rs⟩ := g
    have hfl : cfg.failing l0 = false := hf (l0, rs) (by simp)
    have hvs : rs.filterMap wv = rs.map f := filterMap_eq_map wv f rs (hv (l0, rs) (by simp))
    obtain ⟨m', h1, h2⟩ := ih (fun g hg => hf g (by simp [hg])) (fun g hg => hv g (by simp [hg]))
      (layerWrite m l0 (rs.zip (rs.map f))) (cs ++ [⟨l0, rs, rs.map f⟩])
    refine ⟨m', by simp [writeGo, hfl, hvs, h1, callOfWrite], ?_⟩
    intro l r
    rw [h2 l r, layerWrite_spec]
    by_cases hk : ∃ g ∈ gs, g.1 = l ∧ r ∈ g.2
    · obtain ⟨g, hg, hkg⟩ := hk
      have : ∃ g' ∈ (l0, rs) :: gs, g'.1 = l ∧ r ∈ g'.2 := ⟨g, by simp [hg], hkg⟩
      rw [if_pos this, if_pos ⟨g, hg, hkg⟩]
    · rw [if_neg hk]
      by_cases hk2 : l = l0 ∧ r ∈ rs
      · have : ∃ g' ∈ (l0, rs) :: gs, g'.1 = l ∧ r ∈ g'.2 := ⟨(l0, rs), by simp, hk2.1.symm, hk2.2⟩
        rw [if_pos hk2, if_pos this]
      · have : ¬ ∃ g' ∈ (l0, rs) :: gs, g'.1 = l ∧ r ∈ g'.2 := by
          rintro ⟨g', hg', hk'⟩
          rcases List.mem_cons.mp hg' with rfl | hg'
          · exact hk2 ⟨hk'.1.symm, hk'.2⟩
          · exact hk ⟨g', hg', hk'⟩
        rw [if_neg hk2, if_neg this]

theorem writeGo_fail {V : Type} (cfg : Cfg) (wv : RegId → Option V) (gs : List (Layer × List RegId))
    (hf : ∃ g ∈ gs, cfg.failing g.1 = true) :
    ∀ (m : Mem V) (cs : List (Call V)), (writeGo cfg wv gs m cs).1 = true := by
  induction gs with
  | nil => obtain ⟨g, hg, _⟩ := hf; cases hg
  | cons g gs ih =>
    intro m cs
    obtain ⟨l, rs⟩ := g
    simp only [writeGo]
    split
    · rfl
    · rename_i hl
      apply ih
      obtain ⟨g', hg', hfg⟩ := hf
      rcases List.mem_cons.mp hg' with rfl | hg'
      · exact absurd hfg hl
      · exact ⟨g', hg', hfg⟩

end OPM.Composite
