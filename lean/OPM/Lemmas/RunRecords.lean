import OPM.Model.RunRecords
/-! Invariant of the run life-cycle model (repaired code, `guarded = true`) and its preservation. -/
namespace OPM.RunRecords

/-- What holds in every reachable state of the repaired code. -/
structure Good (s : State) : Prop where
  plNodup : s.plotLogs.Nodup
  rrNodup : s.recentRuns.Nodup
  /-- no map entry ⇒ no run data -/
  unreg : s.registered = false → s.run = none
  /-- the active run has its plot log -/
  active : ∀ r, s.run = some r → r ∈ s.plotLogs
  /-- a run parked in the RecentEngines row during a disconnect has its plot log -/
  parked : s.registered = false → ∀ r, s.recentEngineRun = some (some r) → r ∈ s.plotLogs
  /-- every plot log belongs to a run that is stored as recent run, or is active, or is parked -/
  accounted : ∀ r ∈ s.plotLogs,
    r ∈ s.recentRuns ∨ s.run = some r ∨ (s.registered = false ∧ s.recentEngineRun = some (some r))
  /-- every recent run has a plot log -/
  rrHasPl : ∀ r ∈ s.recentRuns, r ∈ s.plotLogs

theorem good_init : Good init := by
  constructor <;> simp [init]

/-- `xs` with `r` added unless present (what a guarded insert does to a run-id column). -/
def addOnce (xs : List Nat) (r : Nat) : List Nat := if r ∈ xs then xs else xs ++ [r]

theorem mem_addOnce (xs : List Nat) (r q : Nat) : q ∈ addOnce xs r ↔ q ∈ xs ∨ q = r := by
  unfold addOnce; split <;> simp <;> grind

theorem nodup_addOnce (xs : List Nat) (r : Nat) (h : xs.Nodup) : (addOnce xs r).Nodup := by
  unfold addOnce; split
  · exact h
  · rw [List.nodup_append]; refine ⟨h, by simp, ?_⟩; intro a ha b hb; simp at hb; subst hb; grind

theorem createPlotLog_eq (s : State) (r : Nat) :
    createPlotLog true s r = { s with plotLogs := addOnce s.plotLogs r } := by
  unfold createPlotLog addOnce; by_cases h : r ∈ s.plotLogs <;> simp [h]

theorem storeRecentRun_eq (s : State) (r : Nat) :
    storeRecentRun true s r = { s with recentRuns := addOnce s.recentRuns r } := by
  unfold storeRecentRun addOnce; by_cases h : r ∈ s.recentRuns <;> simp [h]

/-- The state after each message, written out (repaired code). -/
theorem step_start_eq (s : State) (r : Nat) (hreg : s.registered = true) :
    (step true s (.start r)).1 =
      { s with run := some r, plotLogs := addOnce s.plotLogs r,
               recentRuns := match s.run with
                 | some q => if q = r then s.recentRuns else addOnce s.recentRuns q
                 | none => s.recentRuns } := by
  unfold step
  simp only [hreg, Bool.not_true, Bool.false_eq_true, if_false]
  cases hrun : s.run with
  | none => simp [createPlotLog_eq]
  | some q =>
    by_cases hq : q = r
    · subst hq; simp [createPlotLog_eq, hreg, hrun]
    · simp [hq, createPlotLog_eq, storeRecentRun_eq, hreg]

theorem step_stop_eq (s : State) (r : Nat) (hreg : s.registered = true) :
    (step true s (.stop r)).1 =
      match s.run with
      | none => s
      | some q => { s with run := none, recentRuns := addOnce s.recentRuns q } := by
  unfold step
  simp only [hreg, Bool.not_true, Bool.false_eq_true, if_false]
  cases hrun : s.run with
  | none => simp
  | some q => simp [storeRecentRun_eq, hreg]

theorem step_register_eq (s : State) :
    (step true s .register).1 =
      if s.registered then s
      else { s with registered := true, run := match s.recentEngineRun with
                                                | some (some r) => some r
                                                | _ => none } := by
  simp only [step]; split <;> rfl

theorem step_disconnect_eq (s : State) :
    (step true s .disconnect).1 =
      if s.registered then { s with registered := false, run := none, recentEngineRun := some s.run } else s := by
  simp only [step]; split <;> rfl

/-- The invariant is preserved by every message, in every state. -/
theorem good_step (s : State) (op : Op) (h : Good s) : Good (step true s op).1 := by
  obtain ⟨h1, h2, h3, h4, h5, h6, h7⟩ := h
  cases op with
  | register =>
    rw [step_register_eq]
    split
    · exact ⟨h1, h2, h3, h4, h5, h6, h7⟩
    · rename_i hreg
      have hreg' : s.registered = false := by simpa using hreg
      have hrun := h3 hreg'
      constructor <;> simp only
      · exact h1
      · exact h2
      · intro hh; cases hh
      · intro r hr
        split at hr
        · rename_i q hq; cases hr; exact h5 hreg' _ hq
        · cases hr
      · intro hh; cases hh
      · intro r hr
        rcases h6 r hr with hh | hh | hh
        · exact Or.inl hh
        · rw [hrun] at hh; cases hh
        · right; left; rw [hh.2]
      · exact h7
  | disconnect =>
    rw [step_disconnect_eq]
    split
    · rename_i hreg
      constructor <;> simp only
      · exact h1
      · exact h2
      · intro _; trivial
      · intro r hr; cases hr
      · intro _ r hr
        apply h4
        simpa using hr
      · intro r hr
        rcases h6 r hr with hh | hh | hh
        · exact Or.inl hh
        · right; right; exact ⟨trivial, by rw [hh]⟩
        · rw [hreg] at hh; cases hh.1
      · exact h7
    · exact ⟨h1, h2, h3, h4, h5, h6, h7⟩
  | start r =>
    by_cases hreg : s.registered = true
    · rw [step_start_eq s r hreg]
      constructor <;> simp only
      · exact nodup_addOnce _ _ h1
      · cases hrun : s.run with
        | none => exact h2
        | some q => simp only; split
                    · exact h2
                    · exact nodup_addOnce _ _ h2
      · intro hh; rw [hreg] at hh; cases hh
      · intro q hq; cases hq; rw [mem_addOnce]; exact Or.inr rfl
      · intro hh; rw [hreg] at hh; cases hh
      · intro q hq
        rw [mem_addOnce] at hq
        rcases hq with hq | hq
        · rcases h6 q hq with hh | hh | hh
          · left
            cases hrun : s.run with
            | none => exact hh
            | some p => simp only; split
                        · exact hh
                        · rw [mem_addOnce]; exact Or.inl hh
          · by_cases hqr : q = r
            · right; left; rw [hqr]
            · left; rw [hh]; simp only [hqr, if_false]; rw [mem_addOnce]; exact Or.inr rfl
          · rw [hreg] at hh; cases hh.1
        · right; left; rw [hq]
      · intro q hq
        rw [mem_addOnce]
        cases hrun : s.run with
        | none => rw [hrun] at hq; exact Or.inl (h7 q hq)
        | some p =>
          rw [hrun] at hq; simp only at hq
          split at hq
          · exact Or.inl (h7 q hq)
          · rw [mem_addOnce] at hq
            rcases hq with hq | hq
            · exact Or.inl (h7 q hq)
            · exact Or.inl (h4 q (by rw [hrun, hq]))
    · have : (step true s (.start r)).1 = s := by
        unfold step; simp [hreg]
      rw [this]; exact ⟨h1, h2, h3, h4, h5, h6, h7⟩
  | stop r =>
    by_cases hreg : s.registered = true
    · rw [step_stop_eq s r hreg]
      cases hrun : s.run with
      | none => exact ⟨h1, h2, h3, h4, h5, h6, h7⟩
      | some p =>
        constructor <;> simp only
        · exact h1
        · exact nodup_addOnce _ _ h2
        · intro _; trivial
        · intro q hq; cases hq
        · intro hh; rw [hreg] at hh; cases hh
        · intro q hq
          left; rw [mem_addOnce]
          rcases h6 q hq with hh | hh | hh
          · exact Or.inl hh
          · rw [hrun] at hh; cases hh; exact Or.inr rfl
          · rw [hreg] at hh; cases hh.1
        · intro q hq
          rw [mem_addOnce] at hq
          rcases hq with hq | hq
          · exact h7 q hq
          · exact h4 q (by rw [hrun, hq])
    · have : (step true s (.stop r)).1 = s := by
        unfold step; simp [hreg]
      rw [this]; exact ⟨h1, h2, h3, h4, h5, h6, h7⟩

theorem good_run (s : State) (ops : List Op) (h : Good s) : Good (run true s ops) := by
  induction ops generalizing s with
  | nil => exact h
  | cons op ops ih => exact ih _ (good_step s op h)

/-- Rows are never removed: the tables only grow. -/
theorem step_mono (g : Bool) (s : State) (op : Op) :
    (∀ r ∈ s.plotLogs, r ∈ (step g s op).1.plotLogs) ∧ (∀ r ∈ s.recentRuns, r ∈ (step g s op).1.recentRuns) := by
  cases op <;> simp only [step, createPlotLog, storeRecentRun] <;> (repeat' split) <;> simp_all

theorem run_mono (g : Bool) (s : State) (ops : List Op) :
    (∀ r ∈ s.plotLogs, r ∈ (run g s ops).plotLogs) ∧ (∀ r ∈ s.recentRuns, r ∈ (run g s ops).recentRuns) := by
  induction ops generalizing s with
  | nil => exact ⟨fun _ h => h, fun _ h => h⟩
  | cons op ops ih =>
    have h1 := step_mono g s op
    have h2 := ih (step g s op).1
    exact ⟨fun r hr => h2.1 r (h1.1 r hr), fun r hr => h2.2 r (h1.2 r hr)⟩

theorem run_append (g : Bool) (s : State) (a b : List Op) : run g s (a ++ b) = run g (run g s a) b := by
  simp [run, List.foldl_append]

end OPM.RunRecords
