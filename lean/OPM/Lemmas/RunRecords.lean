import OPM.Model.RunRecords
/-! Invariant of the run life-cycle model (repaired code, `guarded = true`) and its preservation. -/
namespace OPM.RunRecords

/-- run `r` is open at an engine: it is the active run, or it is parked in the RecentEngines row while the
    engine is not registered (disconnected) -/
def openAt (E : Engine) (r : Nat) : Prop :=
  E.run = some r ∨ (E.registered = false ∧ E.recentEngineRun = some (some r))

/-- What holds in every reachable state of the repaired code. -/
structure Good (s : State) : Prop where
  plNodup : (runIds s.plotLogs).Nodup
  rrNodup : (runIds s.recentRuns).Nodup
  /-- no map entry ⇒ no run data -/
  unreg : ∀ e, (s.eng e).registered = false → (s.eng e).run = none
  /-- an active run has its plot log -/
  active : ∀ e r, (s.eng e).run = some r → r ∈ runIds s.plotLogs
  /-- a run remembered in a RecentEngines row has its plot log -/
  parked : ∀ e r, (s.eng e).recentEngineRun = some (some r) → r ∈ runIds s.plotLogs
  /-- every plot log belongs to a run that is stored as recent run, or is open at some engine -/
  accounted : ∀ r ∈ runIds s.plotLogs, r ∈ runIds s.recentRuns ∨ ∃ e, openAt (s.eng e) r
  /-- every recent run has a plot log -/
  rrHasPl : ∀ r ∈ runIds s.recentRuns, r ∈ runIds s.plotLogs
  /-- while an engine is registered its RecentEngines row names exactly its active run (written by
      `store_recent_engine` at registration-restore, run start and run stop) -/
  synced : ∀ e r, (s.eng e).registered = true → ((s.eng e).run = some r ↔ (s.eng e).recentEngineRun = some (some r))

theorem good_init : Good init := by
  constructor <;> simp [init, runIds]

/-- rows with `(e, r)` added unless a row with run id `r` is present (what a guarded insert does) -/
def addOnce (rows : List Row) (e r : Nat) : List Row := if r ∈ runIds rows then rows else rows ++ [(e, r)]

theorem mem_addOnce (rows : List Row) (e r q : Nat) : q ∈ runIds (addOnce rows e r) ↔ q ∈ runIds rows ∨ q = r := by
  unfold addOnce
  split
  · rename_i h
    constructor
    · exact Or.inl
    · rintro (h' | h')
      · exact h'
      · rw [h']; exact h
  · simp only [runIds, List.map_append, List.map_cons, List.map_nil, List.mem_append, List.mem_singleton]

theorem nodup_addOnce (rows : List Row) (e r : Nat) (h : (runIds rows).Nodup) : (runIds (addOnce rows e r)).Nodup := by
  unfold addOnce; split
  · exact h
  · rename_i hn
    simp only [runIds, List.map_append, List.map_cons, List.map_nil] at hn ⊢
    rw [List.nodup_append]; refine ⟨h, by simp, ?_⟩; intro a ha b hb; simp at hb; subst hb; grind

theorem createPlotLog_eq (s : State) (e r : Nat) :
    createPlotLog true s e r = { s with plotLogs := addOnce s.plotLogs e r } := by
  unfold createPlotLog addOnce; by_cases h : r ∈ runIds s.plotLogs <;> simp [h]

theorem storeRecentRun_eq (s : State) (e r : Nat) :
    storeRecentRun true s e r = { s with recentRuns := addOnce s.recentRuns e r } := by
  unfold storeRecentRun addOnce; by_cases h : r ∈ runIds s.recentRuns <;> simp [h]

/-- The state after each message, written out (repaired code). -/
theorem step_start_eq (s : State) (e r : Nat) (hreg : (s.eng e).registered = true) :
    (∀ x, (step true s (.start e r)).1.eng x =
      if x = e then { s.eng e with run := some r, recentEngineRun := some (some r) } else s.eng x) ∧
    (step true s (.start e r)).1.plotLogs = addOnce s.plotLogs e r ∧
    (step true s (.start e r)).1.recentRuns =
      (match (s.eng e).run with
       | some q => if q = r then s.recentRuns else addOnce s.recentRuns e q
       | none => s.recentRuns) := by
  unfold step
  simp only [hreg, Bool.not_true, Bool.false_eq_true, if_false]
  cases hrun : (s.eng e).run with
  | none => simp [createPlotLog_eq, setEng]
  | some q =>
    by_cases hq : q = r
    · simp [hq, createPlotLog_eq, setEng]
    · simp [hq, createPlotLog_eq, storeRecentRun_eq, setEng]

theorem step_stop_eq (s : State) (e r : Nat) (hreg : (s.eng e).registered = true) :
    (∀ x, (step true s (.stop e r)).1.eng x =
      if x = e then
        (match (s.eng e).run with
         | some _ => { s.eng e with run := none, recentEngineRun := some none }
         | none => s.eng e)
      else s.eng x) ∧
    (step true s (.stop e r)).1.plotLogs = s.plotLogs ∧
    (step true s (.stop e r)).1.recentRuns =
      (match (s.eng e).run with
       | some q => addOnce s.recentRuns e q
       | none => s.recentRuns) := by
  unfold step
  simp only [hreg, Bool.not_true, Bool.false_eq_true, if_false]
  cases hrun : (s.eng e).run with
  | none =>
    refine ⟨?_, rfl, rfl⟩
    intro x
    by_cases hx : x = e
    · subst hx; simp
    · simp [hx]
  | some q => simp [storeRecentRun_eq, setEng]

theorem step_unregistered (g : Bool) (s : State) (e r : Nat) (hreg : (s.eng e).registered = false) :
    step g s (.start e r) = (s, .notRegistered) ∧ step g s (.stop e r) = (s, .notRegistered) ∧
    step g s (.disconnect e) = (s, .ok) := by
  simp [step, hreg]

theorem step_register_eq (g : Bool) (s : State) (e : Nat) :
    (∀ x, (step g s (.register e)).1.eng x =
      if x = e ∧ (s.eng e).registered = false then
        { s.eng e with registered := true, run := restoredRun (s.eng e) }
      else s.eng x) ∧
    (step g s (.register e)).1.plotLogs = s.plotLogs ∧ (step g s (.register e)).1.recentRuns = s.recentRuns := by
  cases hreg : (s.eng e).registered with
  | true => simp [step, hreg]
  | false => simp [step, hreg, setEng]

theorem step_disconnect_eq (g : Bool) (s : State) (e : Nat) :
    (∀ x, (step g s (.disconnect e)).1.eng x =
      if x = e ∧ (s.eng e).registered = true then
        { s.eng e with registered := false, run := none, recentEngineRun := some (s.eng e).run }
      else s.eng x) ∧
    (step g s (.disconnect e)).1.plotLogs = s.plotLogs ∧ (step g s (.disconnect e)).1.recentRuns = s.recentRuns := by
  cases hreg : (s.eng e).registered with
  | false => simp [step, hreg]
  | true => simp [step, hreg, setEng]


theorem step_restart_eq (g : Bool) (s : State) :
    (∀ x, (step g s .restart).1.eng x =
      if (s.eng x).registered then
        { s.eng x with registered := false, run := none, recentEngineRun := some (s.eng x).run }
      else s.eng x) ∧
    (step g s .restart).1.plotLogs = s.plotLogs ∧ (step g s .restart).1.recentRuns = s.recentRuns := by
  simp [step]

theorem step_crash_eq (g : Bool) (s : State) :
    (∀ x, (step g s .crash).1.eng x = { s.eng x with registered := false, run := none }) ∧
    (step g s .crash).1.plotLogs = s.plotLogs ∧ (step g s .crash).1.recentRuns = s.recentRuns := by
  simp [step]

theorem good_register (s : State) (e : Nat) (h : Good s) : Good (step true s (.register e)).1 := by
  obtain ⟨h1, h2, h3, h4, h5, h6, h7, h8⟩ := h
  obtain ⟨he, hp, hr⟩ := step_register_eq true s e
  constructor
  · rw [hp]; exact h1
  · rw [hr]; exact h2
  · intro x hx; rw [he x] at hx ⊢; grind
  · intro x r hx; rw [he x] at hx; rw [hp]
    split at hx
    · rename_i hc
      simp only [restoredRun] at hx
      split at hx
      · rename_i q hq; cases hx; exact h5 e _ hq
      · cases hx
    · exact h4 x r hx
  · intro x r hr'; rw [he x] at hr'; rw [hp]
    split at hr'
    · rename_i hc; exact h5 e r (by simpa using hr')
    · exact h5 x r hr'
  · intro r hr'; rw [hp] at hr'; rw [hr]
    rcases h6 r hr' with hh | ⟨x, hh⟩
    · exact Or.inl hh
    · right
      refine ⟨x, ?_⟩
      rw [he x]
      unfold openAt at hh ⊢
      by_cases hc : x = e ∧ (s.eng e).registered = false
      · obtain ⟨rfl, hreg⟩ := hc
        simp only [hreg, and_self, if_true]
        rcases hh with hh | hh
        · rw [h3 x hreg] at hh; cases hh
        · left; simp [restoredRun, hh.2]
      · simp only [hc, if_false]; exact hh
  · rw [hp, hr]; exact h7
  · intro x r hx; rw [he x] at hx ⊢
    by_cases hc : x = e ∧ (s.eng e).registered = false
    · obtain ⟨rfl, hreg⟩ := hc
      simp only [hreg, and_self, if_true, restoredRun]
      cases (s.eng x).recentEngineRun with
      | none => simp
      | some o => cases o <;> simp
    · simp only [hc, if_false] at hx ⊢; exact h8 x r hx

theorem good_disconnect (s : State) (e : Nat) (h : Good s) : Good (step true s (.disconnect e)).1 := by
  obtain ⟨h1, h2, h3, h4, h5, h6, h7, h8⟩ := h
  obtain ⟨he, hp, hr⟩ := step_disconnect_eq true s e
  constructor
  · rw [hp]; exact h1
  · rw [hr]; exact h2
  · intro x hx; rw [he x] at hx ⊢; grind
  · intro x r hx; rw [he x] at hx; rw [hp]; grind
  · intro x r hr'; rw [he x] at hr'; rw [hp]
    by_cases hc : x = e ∧ (s.eng e).registered = true
    · simp only [hc, and_self, if_true] at hr'
      obtain ⟨rfl, _⟩ := hc
      apply h4 x r
      simpa using hr'
    · simp only [hc, if_false] at hr'; exact h5 x r hr'
  · intro r hr'; rw [hp] at hr'; rw [hr]
    rcases h6 r hr' with hh | ⟨x, hh⟩
    · exact Or.inl hh
    · right
      refine ⟨x, ?_⟩
      rw [he x]
      unfold openAt at hh ⊢
      by_cases hc : x = e ∧ (s.eng e).registered = true
      · obtain ⟨rfl, hreg⟩ := hc
        simp only [hreg, and_self, if_true]
        rcases hh with hh | hh
        · right; exact ⟨trivial, by rw [hh]⟩
        · rw [hreg] at hh; cases hh.1
      · simp only [hc, if_false]; exact hh
  · rw [hp, hr]; exact h7
  · intro x r hx; rw [he x] at hx ⊢
    by_cases hc : x = e ∧ (s.eng e).registered = true
    · simp only [hc, and_self, if_true] at hx; cases hx
    · simp only [hc, if_false] at hx ⊢; exact h8 x r hx

theorem good_start (s : State) (e r : Nat) (h : Good s) : Good (step true s (.start e r)).1 := by
  by_cases hreg : (s.eng e).registered = true
  · obtain ⟨h1, h2, h3, h4, h5, h6, h7, h8⟩ := h
    obtain ⟨he, hp, hr⟩ := step_start_eq s e r hreg
    have hrr : ∀ q, q ∈ runIds (step true s (.start e r)).1.recentRuns ↔
        q ∈ runIds s.recentRuns ∨ (∃ p, (s.eng e).run = some p ∧ p ≠ r ∧ q = p) := by
      intro q; rw [hr]
      cases hrun : (s.eng e).run with
      | none => simp
      | some p =>
        by_cases hpr : p = r
        · simp [hpr]
        · simp [hpr, mem_addOnce]
    constructor
    · rw [hp]; exact nodup_addOnce _ _ _ h1
    · rw [hr]
      cases hrun : (s.eng e).run with
      | none => exact h2
      | some q => simp only; split
                  · exact h2
                  · exact nodup_addOnce _ _ _ h2
    · intro x hx; rw [he x] at hx ⊢; grind
    · intro x q hx; rw [he x] at hx; rw [hp, mem_addOnce]; grind
    · intro x q hq; rw [he x] at hq; rw [hp, mem_addOnce]
      by_cases hx : x = e
      · simp only [hx, if_true] at hq; right; simpa using hq.symm
      · simp only [hx, if_false] at hq; exact Or.inl (h5 x q hq)
    · intro q hq
      rw [hp, mem_addOnce] at hq
      rw [hrr]
      by_cases hqr : q = r
      · right; exact ⟨e, by rw [he e]; left; simp [hqr]⟩
      · have hq' : q ∈ runIds s.plotLogs := by grind
        rcases h6 q hq' with hh | ⟨x, hh⟩
        · exact Or.inl (Or.inl hh)
        · by_cases hx : x = e
          · subst hx
            unfold openAt at hh
            rcases hh with hh | hh
            · left; right; exact ⟨q, hh, hqr, rfl⟩
            · rw [hreg] at hh; cases hh.1
          · right; refine ⟨x, ?_⟩; rw [he x]; simp only [hx, if_false]; exact hh
    · intro q hq
      rw [hrr] at hq
      rw [hp, mem_addOnce]
      rcases hq with hq | ⟨p, hp', _, rfl⟩
      · exact Or.inl (h7 q hq)
      · exact Or.inl (h4 e q hp')
    · intro x q hx; rw [he x] at hx ⊢
      by_cases hxe : x = e
      · simp [hxe]
      · simp only [hxe, if_false] at hx ⊢; exact h8 x q hx
  · have : (step true s (.start e r)).1 = s := by
      rw [(step_unregistered true s e r (by simpa using hreg)).1]
    rw [this]; exact h

theorem good_stop (s : State) (e r : Nat) (h : Good s) : Good (step true s (.stop e r)).1 := by
  by_cases hreg : (s.eng e).registered = true
  · cases hrun : (s.eng e).run with
    | none =>
      have : (step true s (.stop e r)).1 = s := by simp [step, hreg, hrun]
      rw [this]; exact h
    | some p =>
      obtain ⟨h1, h2, h3, h4, h5, h6, h7, h8⟩ := h
      obtain ⟨he, hp, hr⟩ := step_stop_eq s e r hreg
      simp only [hrun] at he hr
      have hrr : ∀ q, q ∈ runIds (step true s (.stop e r)).1.recentRuns ↔ q ∈ runIds s.recentRuns ∨ q = p := by
        intro q; rw [hr, mem_addOnce]
      constructor
      · rw [hp]; exact h1
      · rw [hr]; exact nodup_addOnce _ _ _ h2
      · intro x hx; rw [he x] at hx ⊢; grind
      · intro x q hx; rw [he x] at hx; rw [hp]; grind
      · intro x q hq; rw [he x] at hq; rw [hp]
        by_cases hx : x = e
        · simp [hx] at hq
        · simp only [hx, if_false] at hq; exact h5 x q hq
      · intro q hq
        rw [hp] at hq
        rw [hrr]
        rcases h6 q hq with hh | ⟨x, hh⟩
        · exact Or.inl (Or.inl hh)
        · by_cases hx : x = e
          · subst hx
            unfold openAt at hh
            rcases hh with hh | hh
            · rw [hrun] at hh; cases hh; exact Or.inl (Or.inr rfl)
            · rw [hreg] at hh; cases hh.1
          · right; refine ⟨x, ?_⟩; rw [he x]; simp only [hx, if_false]; exact hh
      · intro q hq
        rw [hrr] at hq
        rw [hp]
        rcases hq with hq | hq
        · exact h7 q hq
        · exact h4 e q (by rw [hrun, hq])
      · intro x q hx; rw [he x] at hx ⊢
        by_cases hxe : x = e
        · simp [hxe]
        · simp only [hxe, if_false] at hx ⊢; exact h8 x q hx
  · have : (step true s (.stop e r)).1 = s := by
      rw [(step_unregistered true s e r (by simpa using hreg)).2.1]
    rw [this]; exact h

theorem good_restart (s : State) (h : Good s) : Good (step true s .restart).1 := by
  obtain ⟨h1, h2, h3, h4, h5, h6, h7, h8⟩ := h
  obtain ⟨he, hp, hr⟩ := step_restart_eq true s
  constructor
  · rw [hp]; exact h1
  · rw [hr]; exact h2
  · intro x hx; rw [he x] at hx ⊢; grind
  · intro x r hx; rw [he x] at hx; rw [hp]; grind
  · intro x r hr'; rw [he x] at hr'; rw [hp]
    split at hr'
    · exact h4 x r (by simpa using hr')
    · exact h5 x r hr'
  · intro r hr'; rw [hp] at hr'; rw [hr]
    rcases h6 r hr' with hh | ⟨x, hh⟩
    · exact Or.inl hh
    · right
      refine ⟨x, ?_⟩
      rw [he x]
      unfold openAt at hh ⊢
      by_cases hc : (s.eng x).registered = true
      · simp only [hc, if_true]
        rcases hh with hh | hh
        · right; exact ⟨trivial, by rw [hh]⟩
        · rw [hc] at hh; cases hh.1
      · simp only [hc, if_false]; exact hh
  · rw [hp, hr]; exact h7
  · intro x r hx; rw [he x] at hx
    split at hx
    · cases hx
    · rename_i hc; exact absurd hx hc

theorem good_crash (s : State) (h : Good s) : Good (step true s .crash).1 := by
  obtain ⟨h1, h2, h3, h4, h5, h6, h7, h8⟩ := h
  obtain ⟨he, hp, hr⟩ := step_crash_eq true s
  constructor
  · rw [hp]; exact h1
  · rw [hr]; exact h2
  · intro x _; rw [he x]
  · intro x r hx; rw [he x] at hx; cases hx
  · intro x r hr'; rw [he x] at hr'; rw [hp]; exact h5 x r hr'
  · intro r hr'; rw [hp] at hr'; rw [hr]
    rcases h6 r hr' with hh | ⟨x, hh⟩
    · exact Or.inl hh
    · right
      refine ⟨x, ?_⟩
      rw [he x]
      unfold openAt at hh ⊢
      right
      refine ⟨rfl, ?_⟩
      show (s.eng x).recentEngineRun = some (some r)
      rcases hh with hh | hh
      · cases hreg : (s.eng x).registered with
        | true => exact (h8 x r hreg).mp hh
        | false => rw [h3 x hreg] at hh; cases hh
      · exact hh.2
  · rw [hp, hr]; exact h7
  · intro x r hx; rw [he x] at hx; cases hx

/-- The invariant is preserved by every message, in every state. -/
theorem good_step (s : State) (op : Op) (h : Good s) : Good (step true s op).1 := by
  cases op with
  | register e => exact good_register s e h
  | disconnect e => exact good_disconnect s e h
  | start e r => exact good_start s e r h
  | stop e r => exact good_stop s e r h
  | restart => exact good_restart s h
  | crash => exact good_crash s h

theorem good_run (s : State) (ops : List Op) (h : Good s) : Good (run true s ops) := by
  induction ops generalizing s with
  | nil => exact h
  | cons op ops ih => exact ih _ (good_step s op h)

/-- Rows are never removed: the tables only grow. -/
theorem step_mono (g : Bool) (s : State) (op : Op) :
    (∀ r ∈ s.plotLogs, r ∈ (step g s op).1.plotLogs) ∧ (∀ r ∈ s.recentRuns, r ∈ (step g s op).1.recentRuns) := by
  have hc : ∀ (s : State) (e r : Nat), (∀ x ∈ s.plotLogs, x ∈ (createPlotLog g s e r).plotLogs) ∧
      (createPlotLog g s e r).recentRuns = s.recentRuns := by
    intro s e r; unfold createPlotLog; split <;> simp_all
  have hs : ∀ (s : State) (e r : Nat), (∀ x ∈ s.recentRuns, x ∈ (storeRecentRun g s e r).recentRuns) ∧
      (storeRecentRun g s e r).plotLogs = s.plotLogs := by
    intro s e r; unfold storeRecentRun; split <;> simp_all
  cases op with
  | register e => simp only [step]; split <;> simp [setEng]
  | disconnect e => simp only [step]; split <;> simp [setEng]
  | restart => simp [step]
  | crash => simp [step]
  | start e r =>
    simp only [step]
    split
    · simp
    · simp only [setEng]
      split
      · have := hc s e r
        exact ⟨this.1, by rw [this.2]; simp⟩
      · split
        · have := hc s e r
          exact ⟨this.1, by rw [this.2]; simp⟩
        · rename_i q _ _
          have h1 := hc (storeRecentRun g s e q) e r
          have h2 := hs s e q
          refine ⟨fun x hx => h1.1 x (by rw [h2.2]; exact hx), ?_⟩
          rw [h1.2]; exact h2.1
  | stop e r =>
    simp only [step]
    split
    · simp
    · split
      · simp
      · rename_i q _
        have h2 := hs s e q
        simp only [setEng]
        exact ⟨by rw [h2.2]; simp, h2.1⟩

theorem run_mono (g : Bool) (s : State) (ops : List Op) :
    (∀ r ∈ s.plotLogs, r ∈ (run g s ops).plotLogs) ∧ (∀ r ∈ s.recentRuns, r ∈ (run g s ops).recentRuns) := by
  induction ops generalizing s with
  | nil => exact ⟨fun _ h => h, fun _ h => h⟩
  | cons op ops ih =>
    have h1 := step_mono g s op
    have h2 := ih (step g s op).1
    exact ⟨fun r hr => h2.1 r (h1.1 r hr), fun r hr => h2.2 r (h1.2 r hr)⟩

theorem runIds_mono (a b : List Row) (h : ∀ r ∈ a, r ∈ b) : ∀ q ∈ runIds a, q ∈ runIds b := by
  intro q hq
  simp only [runIds, List.mem_map] at hq ⊢
  obtain ⟨p, hp, rfl⟩ := hq
  exact ⟨p, h p hp, rfl⟩

theorem run_append (g : Bool) (s : State) (a b : List Op) : run g s (a ++ b) = run g (run g s a) b := by
  simp [run, List.foldl_append]

theorem run_cons (g : Bool) (s : State) (op : Op) (ops : List Op) : run g s (op :: ops) = run g (step g s op).1 ops := rfl

end OPM.RunRecords
