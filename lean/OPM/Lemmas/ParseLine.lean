import OPM.Model.ParseLine
/-!
Helper lemmas for C18: facts about the regenerated character tables (checked by kernel evaluation),
`takeWhile`/`dropWhile`/`strip` on concatenations, the operator search, the number scanner.
-/
namespace OPM.ParseLine
set_option linter.unusedSimpArgs false
open OPM.Gen.ParseTables

/-! ### character tables -/

/-- the ASCII part of the regenerated tables is what the proofs assume -/
theorem ascii_table : ∀ n, n < 128 →
    (isSpace (Char.ofNat n) = (n == 32 || (9 ≤ n && n ≤ 13) || (28 ≤ n && n ≤ 31))) ∧
    (isDecimal (Char.ofNat n) = (48 ≤ n && n ≤ 57)) := by decide +kernel

/-- no code point is both `\s` and `\d` -/
theorem space_decimal_disjoint :
    pySpace.all (fun n => !(pyDecimalRuns.any (fun r => r.1 ≤ n && n ≤ r.2))) = true := by decide +kernel

theorem char_ofNat_toNat (c : Char) : Char.ofNat c.toNat = c := Char.ofNat_toNat c

theorem ascii_space (c : Char) (h : c.toNat < 128) :
    isSpace c = (c.toNat == 32 || (9 ≤ c.toNat && c.toNat ≤ 13) || (28 ≤ c.toNat && c.toNat ≤ 31)) := by
  have := (ascii_table c.toNat h).1
  rwa [char_ofNat_toNat] at this

theorem ascii_decimal (c : Char) (h : c.toNat < 128) : isDecimal c = (48 ≤ c.toNat && c.toNat ≤ 57) := by
  have := (ascii_table c.toNat h).2
  rwa [char_ofNat_toNat] at this

theorem decimal_not_space (c : Char) (h : isDecimal c = true) : isSpace c = false := by
  cases hs : isSpace c with
  | false => rfl
  | true =>
    have hm : c.toNat ∈ pySpace := by simpa [isSpace] using hs
    have := List.all_eq_true.mp space_decimal_disjoint _ hm
    simp only [isDecimal] at h
    simp [h] at this

theorem letter_toNat (c : Char) (h : isAsciiLetter c = true) :
    (97 ≤ c.toNat ∧ c.toNat ≤ 122) ∨ (65 ≤ c.toNat ∧ c.toNat ≤ 90) := by
  simp only [isAsciiLetter, Bool.or_eq_true, Bool.and_eq_true, decide_eq_true_eq] at h
  simp only [Char.le_def, UInt32.le_iff_toNat_le] at h
  exact h

theorem letter_not_space (c : Char) (h : isAsciiLetter c = true) : isSpace c = false := by
  have := letter_toNat c h
  rw [ascii_space c (by omega)]
  simp only [Bool.or_eq_false_iff, beq_eq_false_iff_ne, Bool.and_eq_false_iff, decide_eq_false_iff_not]
  omega

theorem letter_not_decimal (c : Char) (h : isAsciiLetter c = true) : isDecimal c = false := by
  have := letter_toNat c h
  rw [ascii_decimal c (by omega)]
  simp only [Bool.and_eq_false_iff, decide_eq_false_iff_not]
  omega

/-- first character of a well-formed instruction name -/
def isNameHead (c : Char) : Prop := isAsciiLetter c = true ∨ c = '_'

theorem nameHead_not_space {c : Char} (h : isNameHead c) : isSpace c = false := by
  rcases h with h | rfl
  · exact letter_not_space c h
  · decide

theorem nameHead_not_decimal {c : Char} (h : isNameHead c) : isDecimal c = false := by
  rcases h with h | rfl
  · exact letter_not_decimal c h
  · decide

theorem nameHead_start {c : Char} (h : isNameHead c) : isNameStart c = true := by
  rcases h with h | rfl
  · simp [isNameStart, h]
  · decide

theorem nameHead_ne_hash {c : Char} (h : isNameHead c) : c ≠ '#' := by
  rintro rfl
  rcases h with h | h
  · exact absurd h (by decide)
  · exact absurd h (by decide)

theorem space_nameChar {c : Char} (h : isSpace c = true) : isNameChar c = true := by
  simp only [isNameChar, Bool.and_eq_true, bne_iff_ne]
  constructor
  · rintro rfl; exact absurd h (by decide)
  · rintro rfl; exact absurd h (by decide)

theorem space_notHash {c : Char} (h : isSpace c = true) : notHash c = true := by
  simp only [notHash, bne_iff_ne]
  rintro rfl; exact absurd h (by decide)

theorem space_ne_colon {c : Char} (h : isSpace c = true) : c ≠ ':' := by
  rintro rfl; exact absurd h (by decide)

theorem decimal_ne_colon {c : Char} (h : isDecimal c = true) : c ≠ ':' := by
  rintro rfl; exact absurd h (by decide)

theorem decimal_notHash {c : Char} (h : isDecimal c = true) : notHash c = true := by
  simp only [notHash, bne_iff_ne]
  rintro rfl; exact absurd h (by decide)

theorem nameChar_notHash {c : Char} (h : isNameChar c = true) : notHash c = true := by
  simp only [isNameChar, Bool.and_eq_true, bne_iff_ne] at h
  simpa [notHash] using h.2

theorem nameChar_ne_colon {c : Char} (h : isNameChar c = true) : c ≠ ':' := by
  simp only [isNameChar, Bool.and_eq_true, bne_iff_ne] at h
  exact h.1

/-! ### takeWhile / dropWhile / strip on concatenations -/

theorem takeWhile_stop {p : Char → Bool} {a b : List Char} (ha : ∀ x ∈ a, p x = true) (hb : Stops p b) :
    (a ++ b).takeWhile p = a := by
  rw [List.takeWhile_append_of_pos ha]
  cases b with
  | nil => simp
  | cons y t => simp [Stops] at hb; simp [List.takeWhile_cons, hb]

theorem dropWhile_stop {p : Char → Bool} {a b : List Char} (ha : ∀ x ∈ a, p x = true) (hb : Stops p b) :
    (a ++ b).dropWhile p = b := by
  rw [List.dropWhile_append_of_pos ha]
  cases b with
  | nil => simp
  | cons y t => simp [Stops] at hb; simp [List.dropWhile_cons, hb]

theorem stops_cons {p : Char → Bool} {y : Char} {t : List Char} (h : p y = false) : Stops p (y :: t) := h

theorem stops_append {p : Char → Bool} {a b : List Char} (ha : a ≠ []) (h : Stops p a) : Stops p (a ++ b) := by
  cases a with
  | nil => exact absurd rfl ha
  | cons y t => exact h

theorem dropWhile_snoc_neg {p : Char → Bool} (a : List Char) {x : Char} (hx : p x = false) :
    (a ++ [x]).dropWhile p = a.dropWhile p ++ [x] := by
  induction a with
  | nil => simp [List.dropWhile_cons, hx]
  | cons y t ih =>
    by_cases hy : p y = true
    · simp [List.dropWhile_cons, hy, ih]
    · simp [List.dropWhile_cons, hy]

theorem stripR_keep {b : List Char} (hb : Stops isSpace b.reverse) : stripR b = b := by
  unfold stripR
  cases h : b.reverse with
  | nil => simp [List.reverse_eq_nil_iff.mp h]
  | cons y t =>
    rw [h] at hb
    have hy : isSpace y = false := hb
    simp [List.dropWhile_cons, hy]
    have := congrArg List.reverse h
    simpa using this.symm

theorem stripR_append {b a : List Char} (_hne : b ≠ []) (hb : Stops isSpace b.reverse)
    (ha : ∀ x ∈ a, isSpace x = true) : stripR (b ++ a) = b := by
  unfold stripR
  rw [List.reverse_append]
  have har : ∀ x ∈ a.reverse, isSpace x = true := fun x hx => ha x (List.mem_reverse.mp hx)
  rw [dropWhile_stop har hb]
  simp

theorem strip_mid {a body b : List Char} (ha : ∀ x ∈ a, isSpace x = true) (hbody : Trimmed body)
    (hb : ∀ x ∈ b, isSpace x = true) : strip (a ++ (body ++ b)) = body := by
  unfold strip stripL
  rw [dropWhile_stop ha (stops_append hbody.1 hbody.2.1)]
  exact stripR_append hbody.1 hbody.2.2 hb

/-- stripping keeps a first character that is not white space -/
theorem strip_head {x : Char} (xs : List Char) (a : List Char) (ha : ∀ y ∈ a, isSpace y = true)
    (hx : isSpace x = false) : ∃ t, strip (a ++ x :: xs) = x :: t := by
  unfold strip stripL
  rw [dropWhile_stop ha (stops_cons hx)]
  unfold stripR
  rw [List.reverse_cons, dropWhile_snoc_neg _ hx]
  exact ⟨(List.dropWhile isSpace xs.reverse).reverse, by simp⟩

/-! ### the line scanner on a rendered well-formed line -/

theorem scanThreshold_none {h : Char} (r : List Char) (hh : isNameHead h) : scanThreshold (h :: r) = none := by
  have : (h :: r).takeWhile isDecimal = [] := by
    simp [List.takeWhile_cons, nameHead_not_decimal hh]
  simp [scanThreshold, this]

theorem scanThreshold_some (t : Threshold) (ht : t.WF) {h : Char} (r : List Char) (hh : isNameHead h) :
    scanThreshold ((t.text ++ [' ']) ++ (h :: r)) = some (t.text, h :: r) := by
  obtain ⟨hne, hint, hfrac⟩ := ht
  have hsp : isSpace ' ' = true := by decide
  have hns := nameHead_start hh
  cases hf : t.frac with
  | none =>
    have e : (t.text ++ [' ']) ++ (h :: r) = t.int ++ (' ' :: h :: r) := by simp [Threshold.text, hf]
    have hstop : Stops isDecimal (' ' :: h :: r) := by show isDecimal ' ' = false; decide
    rw [e]
    unfold scanThreshold
    simp only [takeWhile_stop hint hstop, dropWhile_stop hint hstop]
    have : t.int.isEmpty = false := by simpa using hne
    simp [this, thrTail, hsp, hns, Threshold.text, hf]
  | some f =>
    obtain ⟨hfne, hfd⟩ := hfrac f hf
    have e : (t.text ++ [' ']) ++ (h :: r) = t.int ++ ('.' :: (f ++ (' ' :: h :: r))) := by
      simp [Threshold.text, hf]
    have hstop : Stops isDecimal ('.' :: (f ++ (' ' :: h :: r))) := by show isDecimal '.' = false; decide
    have hstop2 : Stops isDecimal (' ' :: h :: r) := by show isDecimal ' ' = false; decide
    rw [e]
    unfold scanThreshold
    simp only [takeWhile_stop hint hstop, dropWhile_stop hint hstop]
    have h1 : t.int.isEmpty = false := by simpa using hne
    have h2 : f.isEmpty = false := by simpa using hfne
    simp [h1, h2, takeWhile_stop hfd hstop2, dropWhile_stop hfd hstop2, thrTail, hsp, hns, Threshold.text, hf]

/-- the rendered comment part: empty or starting with '#' -/
def cmText (cm : Option (List Char × List Char)) : List Char :=
  match cm with
  | some (w, t) => '#' :: (w ++ t)
  | none => []

def cmBody (cm : Option (List Char × List Char)) : List Char :=
  match cm with
  | some (_, t) => t
  | none => []

theorem scanComment_render (cm : Option (List Char × List Char))
    (hc : ∀ w t, cm = some (w, t) → (∀ c ∈ w, isSpace c = true) ∧ Stops isSpace t) :
    scanComment (cmText cm) = (cm.isSome, cmBody cm) := by
  cases cm with
  | none => simp [scanComment, cmText, cmBody]
  | some wt =>
    obtain ⟨w, t⟩ := wt
    obtain ⟨hw, ht⟩ := hc w t rfl
    have hh : isSpace '#' = false := by decide
    simp [scanComment, cmText, cmBody, List.dropWhile_cons, hh, dropWhile_stop hw ht]

theorem scanArgument_hash (r : List Char) (h : r = [] ∨ ∃ t, r = '#' :: t) : scanArgument r = ([], r) := by
  rcases h with rfl | ⟨t, rfl⟩
  · rfl
  · rfl

theorem cmText_shape (cm : Option (List Char × List Char)) : cmText cm = [] ∨ ∃ t, cmText cm = '#' :: t := by
  cases cm with
  | none => exact Or.inl rfl
  | some wt => exact Or.inr ⟨_, rfl⟩

theorem cmText_stops_nameChar (cm : Option (List Char × List Char)) : Stops isNameChar (cmText cm) := by
  rcases cmText_shape cm with h | ⟨t, h⟩ <;> rw [h]
  · trivial
  · show isNameChar '#' = false; decide

theorem cmText_stops_notHash (cm : Option (List Char × List Char)) : Stops notHash (cmText cm) := by
  rcases cmText_shape cm with h | ⟨t, h⟩ <;> rw [h]
  · trivial
  · show notHash '#' = false; decide

/-- what `full_line_re` captures on a rendered line -/
def LineParts.scan (p : LineParts) : Scan :=
  { indent := p.indent,
    thr := match p.thr with
      | some t => t.text
      | none => [],
    namePart := match p.arg with
      | some _ => p.name
      | none => p.name ++ p.pad,
    argPart := match p.arg with
      | some a => a ++ p.pad
      | none => [],
    hasComment := p.comment.isSome,
    comment := match p.comment with
      | some (_, t) => t
      | none => [] }

theorem render_eq (p : LineParts) : p.render = List.replicate p.indent ' ' ++
    ((match p.thr with
      | some t => t.text ++ [' ']
      | none => []) ++
     (p.name ++
      ((match p.arg with
        | some a => ':' :: ' ' :: a
        | none => []) ++ (p.pad ++ cmText p.comment)))) := rfl

/-- name, argument, comment: the part of the scanner after the threshold -/
theorem scan_tail (p : LineParts) (h : p.WF) :
    let rest := p.name ++ ((match p.arg with
        | some a => ':' :: ' ' :: a
        | none => []) ++ (p.pad ++ cmText p.comment))
    rest.takeWhile isNameChar = p.scan.namePart ∧
    scanArgument (rest.dropWhile isNameChar) = (p.scan.argPart, cmText p.comment) := by
  obtain ⟨_, _, hnc, _, harg, hpad, _⟩ := h
  intro rest
  cases ha : p.arg with
  | none =>
    have e : rest = (p.name ++ p.pad) ++ cmText p.comment := by simp [rest, ha]
    have hall : ∀ x ∈ p.name ++ p.pad, isNameChar x = true := by
      intro x hx
      rcases List.mem_append.mp hx with hx | hx
      · exact hnc x hx
      · exact space_nameChar (hpad x hx)
    rw [e, takeWhile_stop hall (cmText_stops_nameChar _), dropWhile_stop hall (cmText_stops_nameChar _)]
    exact ⟨by simp [LineParts.scan, ha], by simp [LineParts.scan, ha, scanArgument_hash _ (cmText_shape _)]⟩
  | some a =>
    obtain ⟨⟨hane, _, _⟩, hnh⟩ := harg a ha
    have e : rest = p.name ++ (':' :: ' ' :: (a ++ (p.pad ++ cmText p.comment))) := by simp [rest, ha]
    have hst : Stops isNameChar (':' :: ' ' :: (a ++ (p.pad ++ cmText p.comment))) := by
      show isNameChar ':' = false; decide
    rw [e, takeWhile_stop hnc hst, dropWhile_stop hnc hst]
    refine ⟨by simp [LineParts.scan, ha], ?_⟩
    cases a with
    | nil => exact absurd rfl hane
    | cons a0 at' =>
      have ha0 : notHash a0 = true := hnh a0 List.mem_cons_self
      have ha0' : (a0 != '#') = true := ha0
      have hall : ∀ x ∈ (a0 :: at') ++ p.pad, notHash x = true := by
        intro x hx
        rcases List.mem_append.mp hx with hx | hx
        · exact hnh x hx
        · exact space_notHash (hpad x hx)
      have e2 : a0 :: (at' ++ (p.pad ++ cmText p.comment)) = ((a0 :: at') ++ p.pad) ++ cmText p.comment := by simp
      simp only [scanArgument, List.cons_append, ha0', ↓reduceIte]
      rw [e2, takeWhile_stop hall (cmText_stops_notHash _), dropWhile_stop hall (cmText_stops_notHash _)]
      simp [LineParts.scan, ha]

theorem scan_render (p : LineParts) (h : p.WF) : scanLine p.render = some p.scan := by
  have hwf := h
  obtain ⟨hthr, ⟨hd, tl, hname, hhead⟩, hnc, hnl, harg, hpad, hcm⟩ := h
  have hsp : ∀ x ∈ List.replicate p.indent ' ', isSpace x = true := by
    intro x hx
    rw [List.eq_of_mem_replicate hx]; decide
  obtain ⟨ht1, ht2⟩ := scan_tail p hwf
  have hcmt : scanComment (cmText p.comment) = (p.scan.hasComment, p.scan.comment) :=
    scanComment_render p.comment hcm
  rw [render_eq]
  generalize hrest : ((match p.arg with
        | some a => ':' :: ' ' :: a
        | none => []) ++ (p.pad ++ cmText p.comment)) = rest at ht1 ht2
  rw [hname] at ht1 ht2 ⊢
  cases hthr' : p.thr with
  | none =>
    have hstop : Stops isSpace (([] : List Char) ++ (hd :: tl ++ rest)) := by
      show isSpace hd = false; exact nameHead_not_space hhead
    unfold scanLine
    simp only [takeWhile_stop hsp hstop, dropWhile_stop hsp hstop]
    simp only [List.nil_append, List.cons_append, scanThreshold_none _ hhead, nameHead_start hhead]
    simp only [List.cons_append] at ht1 ht2
    simp [ht1, ht2, hcmt, LineParts.scan, hthr']
  | some t =>
    have htw := hthr t hthr'
    have hstop : Stops isSpace ((t.text ++ [' ']) ++ (hd :: tl ++ rest)) := by
      obtain ⟨hne, hint, _⟩ := htw
      cases hi : t.int with
      | nil => exact absurd hi hne
      | cons d0 ds =>
        have hd0 : isDecimal d0 = true := hint d0 (by rw [hi]; exact List.mem_cons_self)
        have : ∃ r, (t.text ++ [' ']) ++ (hd :: tl ++ rest) = d0 :: r := by
          unfold Threshold.text
          cases t.frac <;> simp [hi]
        obtain ⟨r, hr⟩ := this
        rw [hr]
        exact decimal_not_space d0 hd0
    unfold scanLine
    simp only [takeWhile_stop hsp hstop, dropWhile_stop hsp hstop]
    have hts := scanThreshold_some t htw (tl ++ rest) hhead
    simp only [List.cons_append] at hts ht1 ht2 ⊢
    simp only [hts, nameHead_start hhead]
    simp [ht1, ht2, hcmt, LineParts.scan, hthr']

theorem strip_trimmed_pad {b pad : List Char} (hb : Trimmed b) (hp : ∀ x ∈ pad, isSpace x = true) :
    strip (b ++ pad) = b := by
  have := strip_mid (a := []) (by simp) hb hp
  simpa using this

theorem strip_nil : strip [] = [] := by simp [strip, stripL, stripR]

theorem threshold_text_props (t : Threshold) (ht : t.WF) :
    (∃ d0 r, t.text = d0 :: r ∧ isDecimal d0 = true) ∧ (∀ c ∈ t.text, notHash c = true ∧ c ≠ ':') := by
  obtain ⟨hne, hint, hfrac⟩ := ht
  constructor
  · cases hi : t.int with
    | nil => exact absurd hi hne
    | cons d0 ds =>
      refine ⟨d0, ?_⟩
      have hd0 : isDecimal d0 = true := hint d0 (by rw [hi]; exact List.mem_cons_self)
      unfold Threshold.text
      cases t.frac <;> simp [hi, hd0]
  · intro c hc
    have hdot : notHash '.' = true ∧ '.' ≠ ':' := by decide
    unfold Threshold.text at hc
    cases hf : t.frac with
    | none =>
      rw [hf] at hc
      exact ⟨decimal_notHash (hint c hc), decimal_ne_colon (hint c hc)⟩
    | some f =>
      rw [hf] at hc
      simp only [List.mem_append, List.mem_cons] at hc
      rcases hc with hc | rfl | hc
      · exact ⟨decimal_notHash (hint c hc), decimal_ne_colon (hint c hc)⟩
      · exact hdot
      · have := (hfrac f hf).2 c hc
        exact ⟨decimal_notHash this, decimal_ne_colon this⟩

/-- `float(threshold)` on the text of a well-formed threshold is the number its digits denote -/
theorem thrValue_text (t : Threshold) (ht : t.WF) : thrValue t.text = t.value ∧ t.text.isEmpty = false := by
  obtain ⟨hne, hint, hfrac⟩ := ht
  have hemp : t.text.isEmpty = false := by
    unfold Threshold.text
    cases t.frac <;> simp [hne]
  refine ⟨?_, hemp⟩
  unfold thrValue Threshold.value Threshold.text
  cases hf : t.frac with
  | none =>
    have hstop : Stops isDecimal ([] : List Char) := trivial
    have h1 := takeWhile_stop hint hstop
    have h2 := dropWhile_stop hint hstop
    simp only [List.append_nil] at h1 h2
    simp [h1, h2]
  | some f =>
    have hstop : Stops isDecimal ('.' :: f) := by show isDecimal '.' = false; decide
    simp [takeWhile_stop hint hstop, dropWhile_stop hint hstop]

/-- the fields of the node `_parse_line` builds for a rendered well-formed line -/
def LineParts.node (fx : Bool) (uod : List String) (p : LineParts) : Node :=
  let k := createNode uod (String.ofList p.name)
  { cls := k.cls, opener := k.opener, ws := false, char := p.indent, indentError := p.indent % 4 != 0,
    thr := p.scan.thr, thrVal := p.thr.map Threshold.value,
    namePart := p.scan.namePart, name := p.name, argPart := p.scan.argPart,
    args := p.arg.getD [], hasArg := p.arg.isSome, hasComment := p.comment.isSome, comment := cmBody p.comment,
    cond := if k.ops.isEmpty then none else some (parseCond fx (k.ops.map String.toList) p.scan.argPart) }

theorem parseLine_render (fx : Bool) (uod : List String) (p : LineParts) (h : p.WF) :
    parseLine fx uod p.render = p.node fx uod := by
  have hscan := scan_render p h
  obtain ⟨hthr, ⟨hd, tl, hname, hhead⟩, hnc, hnl, harg, hpad, hcm⟩ := h
  have hsp : ∀ x ∈ List.replicate p.indent ' ', isSpace x = true := by
    intro x hx
    rw [List.eq_of_mem_replicate hx]; decide
  have hcolon : ∀ x ∈ List.replicate p.indent ' ', notHash x = true ∧ x ≠ ':' := by
    intro x hx
    rw [List.eq_of_mem_replicate hx]; decide
  have hnameTrim : Trimmed p.name := by
    refine ⟨by rw [hname]; simp, ?_, hnl⟩
    rw [hname]; exact nameHead_not_space hhead
  -- the stripped line starts with a character that is not '#'
  have hstrip : ∃ c t, strip p.render = c :: t ∧ c ≠ '#' := by
    rw [render_eq]
    cases hthr' : p.thr with
    | none =>
      simp only [List.nil_append, hname, List.cons_append]
      obtain ⟨t, ht⟩ := strip_head (tl ++ ((match p.arg with
        | some a => ':' :: ' ' :: a
        | none => []) ++ (p.pad ++ cmText p.comment))) _ hsp (nameHead_not_space hhead)
      exact ⟨hd, t, ht, nameHead_ne_hash hhead⟩
    | some t =>
      obtain ⟨⟨d0, r, hr, hd0⟩, _⟩ := threshold_text_props t (hthr t hthr')
      simp only [hr, List.cons_append]
      obtain ⟨t', ht'⟩ := strip_head (r ++ ' ' :: (p.name ++ ((match p.arg with
        | some a => ':' :: ' ' :: a
        | none => []) ++ (p.pad ++ cmText p.comment)))) _ hsp (decimal_not_space d0 hd0)
      refine ⟨d0, t', by simpa using ht', ?_⟩
      rintro rfl; exact absurd hd0 (by decide)
  obtain ⟨c, t, hst, hc⟩ := hstrip
  -- has_argument
  have hhas : (p.render.takeWhile notHash).contains ':' = p.arg.isSome := by
    have e : p.render = (List.replicate p.indent ' ' ++ ((match p.thr with
        | some t => t.text ++ [' ']
        | none => []) ++ (p.name ++ ((match p.arg with
          | some a => ':' :: ' ' :: a
          | none => []) ++ p.pad)))) ++ cmText p.comment := by
      rw [render_eq]; simp [List.append_assoc]
    have hthrP : ∀ x ∈ (match p.thr with
        | some t => t.text ++ [' ']
        | none => []), notHash x = true ∧ x ≠ ':' := by
      intro x hx
      cases hthr' : p.thr with
      | none => rw [hthr'] at hx; cases hx
      | some t =>
        rw [hthr'] at hx
        simp only [List.mem_append, List.mem_singleton] at hx
        rcases hx with hx | rfl
        · exact (threshold_text_props t (hthr t hthr')).2 x hx
        · decide
    have hall : ∀ x ∈ (List.replicate p.indent ' ' ++ ((match p.thr with
        | some t => t.text ++ [' ']
        | none => []) ++ (p.name ++ ((match p.arg with
          | some a => ':' :: ' ' :: a
          | none => []) ++ p.pad)))), notHash x = true := by
      intro x hx
      simp only [List.mem_append] at hx
      rcases hx with hx | hx | hx | hx | hx
      · exact (hcolon x hx).1
      · exact (hthrP x hx).1
      · exact nameChar_notHash (hnc x hx)
      · cases ha : p.arg with
        | none => rw [ha] at hx; cases hx
        | some a =>
          rw [ha] at hx
          simp only [List.mem_cons] at hx
          rcases hx with rfl | rfl | hx
          · decide
          · decide
          · exact (harg a ha).2 x hx
      · exact space_notHash (hpad x hx)
    rw [e, takeWhile_stop hall (cmText_stops_notHash _)]
    cases ha : p.arg with
    | some a => simp
    | none =>
      simp only [List.nil_append, Option.isSome_none, List.contains_eq_mem, List.mem_append,
        decide_eq_false_iff_not, not_or]
      refine ⟨fun hx => (hcolon _ hx).2 rfl, fun hx => (hthrP _ hx).2 rfl,
        fun hx => nameChar_ne_colon (hnc _ hx) rfl, fun hx => space_ne_colon (hpad _ hx) rfl⟩
  have hnm : strip p.scan.namePart = p.name := by
    unfold LineParts.scan
    cases p.arg with
    | none => exact strip_trimmed_pad hnameTrim hpad
    | some a => simpa using strip_trimmed_pad hnameTrim (pad := []) (by simp)
  have hargs : strip p.scan.argPart = p.arg.getD [] := by
    unfold LineParts.scan
    cases ha : p.arg with
    | none => simpa using strip_nil
    | some a => simpa using strip_trimmed_pad (harg a ha).1 hpad
  have hcbool : (c == '#') = false := by simpa using hc
  have hthrv : (if p.scan.thr.isEmpty then none else some (thrValue p.scan.thr)) = p.thr.map Threshold.value := by
    unfold LineParts.scan
    cases hthr' : p.thr with
    | none => simp
    | some t =>
      obtain ⟨h1, h2⟩ := thrValue_text t (hthr t hthr')
      simp [h1, h2]
  unfold parseLine parseLineE
  simp only [hst, hcbool, hscan, hhas, hnm, hargs, hthrv]
  simp [LineParts.node, LineParts.scan, cmBody]

end OPM.ParseLine
