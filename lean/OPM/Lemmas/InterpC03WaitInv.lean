import OPM.Lemmas.InterpC03Wait
set_option linter.unusedSimpArgs false
set_option linter.unusedVariables false
/-!
For methods without Alarm and without Call macro (the two instructions that reset runtime flags):
the persisted start time of a Wait never changes once set, and every `waitLoop n endT` frame of every
generator satisfies `endT = wait_start_time(n) + d − 0.1`.
-/
namespace OPM.Interp

/-- No Alarm and no Call macro node in the method (so `reset_runtime_state` is never called). -/
def noReset (p : Prog) : Bool :=
  p.all (fun nd => match nd.kind with | .alarm _ | .call _ => false | _ => true)

theorem noReset_node (p : Prog) (h : noReset p = true) (n : Nat) :
    (∀ c, (node p n).kind ≠ .alarm c) ∧ (∀ nm, (node p n).kind ≠ .call nm) := by
  unfold noReset at h
  rw [Array.all_eq_true] at h
  unfold node
  by_cases hn : n < p.size
  · have := h n hn
    have e : p.getD n default = p[n] := by simp [Array.getD, hn]
    rw [e]
    constructor
    · intro c hc; rw [hc] at this; cases this
    · intro nm hc; rw [hc] at this; cases this
  · have e : p.getD n default = default := by simp [Array.getD, hn]
    rw [e]
    constructor
    · intro c hc; cases hc
    · intro nm hc; cases hc

/-! ## the persisted start time is stable -/

theorem ws_abort (p : Prog) (s : St) (b k : Nat) :
    ((abortBlockInterrupts p s b).rt k).waitStart = (s.rt k).waitStart :=
  proj_abortBlockInterrupts (·.waitStart) (fun _ _ => rfl) (fun _ _ => rfl) p s b k

theorem ws_endOneBlock (p : Prog) (s : St) (old : Nat) (nm : String) (k : Nat) :
    ((endOneBlock p s old nm).rt k).waitStart = (s.rt k).waitStart := by
  unfold endOneBlock
  simp only [rt_emit, ws_abort, rt_setRt]
  split
  · rename_i h; subst h; rfl
  · rfl

theorem ws_endBlockStep (p : Prog) (s : St) (k : Nat) :
    ((endBlockStep p s).rt k).waitStart = (s.rt k).waitStart := by
  unfold endBlockStep
  split
  · rfl
  · simp only [ws_endOneBlock]

theorem ws_endBlocksStep (p : Prog) (s : St) (k : Nat) :
    ((endBlocksStep p s).rt k).waitStart = (s.rt k).waitStart := by
  unfold endBlocksStep
  simp only []
  exact proj_foldl_keep (·.waitStart) _ (fun s a k => ws_endOneBlock p s _ _ k) _ s k

theorem ws_callFinish (s : St) (n m k : Nat) :
    ((callFinish s n m).rt k).waitStart = (s.rt k).waitStart := by
  unfold callFinish
  simp only [rt_setRt, rt_finishNode, getRt_eq]
  repeat' split
  all_goals (try subst_vars)
  all_goals rfl

theorem ws_unwind (s : St) (stack : List Frame) (k : Nat) :
    (((unwind s stack).1).rt k).waitStart = (s.rt k).waitStart := by
  induction stack with
  | nil => rfl
  | cons f rest ih =>
    cases f <;> simp only [unwind, ih]
    simp only [rt_setRt]
    split
    · rename_i h; subst h; rfl
    · rfl

theorem stepBody_ws (p : Prog) (hnr : noReset p = true) (s : St) (n pc : Nat) (below : List Frame) (k : Nat)
    (ws : Rat) (h : (s.rt k).waitStart = some ws) :
    ((outState (stepBody p s n pc below)).rt k).waitStart = some ws := by
  have hna := (noReset_node p hnr n).1
  have hnc := (noReset_node p hnr n).2
  unfold stepBody
  simp only []
  split
  all_goals (repeat' split)
  all_goals (try simp only [outState, rt_setRt, rt_emit, rt_finishNode, rt_markFailed, rt_markCompleted,
    rt_registerInterrupt, rt_unregisterInterrupt, rt_tryActivate, getRt_eq, ws_endBlockStep, ws_endBlocksStep])
  all_goals (try (repeat' split))
  all_goals (try subst_vars)
  all_goals (first | exact h | (rw [ws_endBlockStep]; exact h) | (rw [ws_endBlocksStep]; exact h) | (simp_all; done))

theorem stepFrame_ws (p : Prog) (hnr : noReset p = true) (s : St) (f : Frame) (below : List Frame) (k : Nat)
    (ws : Rat) (h : (s.rt k).waitStart = some ws) :
    ((outState (stepFrame p s f below)).rt k).waitStart = some ws := by
  cases f with
  | body n pc => exact stepBody_ws p hnr s n pc below k ws h
  | _ =>
    unfold stepFrame
    simp only []
    repeat' split
    all_goals (try simp only [outState, rt_setRt, rt_emit, rt_finishNode, rt_markFailed, rt_markCompleted,
      getRt_eq, ws_callFinish])
    all_goals (try (repeat' split))
    all_goals (try subst_vars)
    all_goals (first | exact h | (simp_all; done))

/-- Without Alarm / Call macro a Wait's persisted start time never changes once it is set. -/
theorem stepGen_ws (p : Prog) (hnr : noReset p = true) (s : St) (stack : List Frame) (k : Nat)
    (ws : Rat) (h : (s.rt k).waitStart = some ws) :
    (((stepGen p s stack).1).rt k).waitStart = some ws := by
  unfold stepGen
  cases stack with
  | nil => exact h
  | cons f below =>
    simp only []
    have := stepFrame_ws p hnr s f below k ws h
    cases hs : stepFrame p s f below with
    | next s' top sig => rw [hs] at this; exact this
    | raise s' =>
      rw [hs] at this
      simp only [outState] at this ⊢
      rw [ws_unwind]; exact this

/-! ## generators are only added, with a fresh `[wrapEnter n]` stack -/

structure GensExt (s s' : St) : Prop where
  mem : ∀ g ∈ s'.gens, g ∈ s.gens ∨ ∃ n, g.stack = [.wrapEnter n]

theorem GensExt.of_eq {s s' : St} (h : s'.gens = s.gens) : GensExt s s' := by
  constructor; intro g hg; rw [h] at hg; exact Or.inl hg

theorem GensExt.refl (s : St) : GensExt s s := GensExt.of_eq rfl

theorem GensExt.trans {s1 s2 s3 : St} (h12 : GensExt s1 s2) (h23 : GensExt s2 s3) : GensExt s1 s3 := by
  constructor
  intro g hg
  rcases h23.mem g hg with h | h
  · exact h12.mem g h
  · exact Or.inr h

theorem GensExt.setRt {s s' : St} (h : GensExt s s') (n : Nat) (f : NodeRt → NodeRt) : GensExt s (setRt s' n f) := ⟨h.mem⟩
theorem GensExt.emit {s s' : St} (h : GensExt s s') (e : Event) : GensExt s (emit s' e) := ⟨h.mem⟩

theorem GensExt.foldl {α : Type} (g : St → α → St) (hg : ∀ s a, GensExt s (g s a))
    (l : List α) (s : St) : GensExt s (l.foldl g s) := by
  induction l generalizing s with
  | nil => exact GensExt.refl s
  | cons a l ih => exact (hg s a).trans (ih (g s a))

theorem gx_markCompleted (s : St) (n : Nat) : GensExt s (markCompleted s n) := by
  unfold markCompleted; split <;> exact GensExt.of_eq rfl

theorem gx_finishNode (s : St) (n : Nat) : GensExt s (finishNode s n) := by
  unfold finishNode; exact (gx_markCompleted s n).setRt _ _

theorem gx_markFailed (s : St) (n : Nat) : GensExt s (markFailed s n) := GensExt.of_eq rfl

theorem gx_tryActivate (s : St) (n : Nat) (c : Cond) : GensExt s (tryActivate s n c) := by
  unfold tryActivate; simp only []; split
  · exact GensExt.refl s
  · split <;> exact GensExt.of_eq rfl

theorem gx_registerInterrupt (p : Prog) (s : St) (n : Nat) : GensExt s (registerInterrupt p s n) := by
  have key : ∀ s' : St, s'.gens = s.gens ++ [⟨s.nextGid, n, [.wrapEnter n]⟩] → GensExt s s' := by
    intro s' h
    constructor
    intro g hg
    rw [h] at hg
    rcases List.mem_append.mp hg with h1 | h1
    · exact Or.inl h1
    · simp at h1; subst h1; exact Or.inr ⟨n, rfl⟩
  unfold registerInterrupt
  simp only []
  split <;> exact key _ rfl

theorem gx_unregisterInterrupt (s : St) (n : Nat) : GensExt s (unregisterInterrupt s n) := GensExt.of_eq rfl

theorem gx_abort (p : Prog) (s : St) (b : Nat) : GensExt s (abortBlockInterrupts p s b) := by
  unfold abortBlockInterrupts
  apply GensExt.foldl
  intro s a; split <;> exact GensExt.of_eq rfl

theorem gx_endOneBlock (p : Prog) (s : St) (old : Nat) (nm : String) : GensExt s (endOneBlock p s old nm) := by
  unfold endOneBlock
  exact ((((GensExt.refl s).emit _).setRt _ _).trans (gx_abort p _ old)).emit _

theorem gx_endBlockStep (p : Prog) (s : St) : GensExt s (endBlockStep p s) := by
  unfold endBlockStep; split
  · exact GensExt.refl s
  · rename_i y ys _
    exact GensExt.trans (s2 := { s with blockTag := ys.head?.map (blockName p) }) (GensExt.of_eq rfl)
      (gx_endOneBlock p _ _ _)

theorem gx_endBlocksStep (p : Prog) (s : St) : GensExt s (endBlocksStep p s) := by
  unfold endBlocksStep
  exact GensExt.trans (GensExt.foldl _ (fun s a => gx_endOneBlock p s _ _) _ s) (GensExt.of_eq rfl)

theorem gx_resetSubtree (p : Prog) (s : St) (n : Nat) : GensExt s (resetSubtree p s n) := by
  unfold resetSubtree
  exact GensExt.foldl (fun s k => Interp.setRt s k resetOne) (fun s a => GensExt.of_eq rfl) _ s

theorem gx_alarmRearm (p : Prog) (s : St) (n : Nat) : GensExt s (alarmRearm p s n) := by
  unfold alarmRearm
  exact (((((gx_markCompleted s n).emit _).setRt _ _).trans (gx_unregisterInterrupt _ _)).trans
    (gx_resetSubtree p _ _)).trans (gx_registerInterrupt p _ _)

theorem gx_callPrepare (p : Prog) (s : St) (m : Nat) : GensExt s (callPrepare p s m) := by
  unfold callPrepare; simp only []; split
  · exact (gx_resetSubtree p s m).setRt _ _
  · exact GensExt.refl s

theorem gx_callFinish (s : St) (n m : Nat) : GensExt s (callFinish s n m) := by
  unfold callFinish
  exact (((((GensExt.refl s).setRt _ _).trans (gx_finishNode _ _)).setRt _ _).setRt _ _)

theorem gens_unwind (s : St) (stack : List Frame) : (unwind s stack).1.gens = s.gens := by
  induction stack with
  | nil => rfl
  | cons f rest ih => cases f <;> simp only [unwind, ih] <;> rfl

macro "gx_peel" : tactic => `(tactic| first
  | with_reducible exact GensExt.refl _
  | with_reducible apply GensExt.emit
  | with_reducible apply GensExt.setRt
  | with_reducible refine GensExt.trans ?_ (gx_finishNode _ _)
  | with_reducible refine GensExt.trans ?_ (gx_markFailed _ _)
  | with_reducible refine GensExt.trans ?_ (gx_markCompleted _ _)
  | with_reducible refine GensExt.trans ?_ (gx_alarmRearm _ _ _)
  | with_reducible refine GensExt.trans ?_ (gx_registerInterrupt _ _ _)
  | with_reducible refine GensExt.trans ?_ (gx_unregisterInterrupt _ _)
  | with_reducible refine GensExt.trans ?_ (gx_resetSubtree _ _ _)
  | with_reducible refine GensExt.trans ?_ (gx_tryActivate _ _ _)
  | with_reducible refine GensExt.trans ?_ (gx_callPrepare _ _ _)
  | with_reducible refine GensExt.trans ?_ (gx_callFinish _ _ _)
  | with_reducible refine GensExt.trans ?_ (gx_endBlockStep _ _)
  | with_reducible refine GensExt.trans ?_ (gx_endBlocksStep _ _)
  | exact GensExt.of_eq rfl)

theorem stepBody_gx (p : Prog) (s : St) (n pc : Nat) (below : List Frame) :
    GensExt s (outState (stepBody p s n pc below)) := by
  unfold stepBody
  simp only []
  split
  all_goals (repeat' split)
  all_goals (simp only [outState])
  all_goals (repeat gx_peel)

theorem stepFrame_gx (p : Prog) (s : St) (f : Frame) (below : List Frame) :
    GensExt s (outState (stepFrame p s f below)) := by
  cases f with
  | body n pc => exact stepBody_gx p s n pc below
  | _ =>
    unfold stepFrame
    simp only []
    repeat' split
    all_goals (simp only [outState])
    all_goals (repeat gx_peel)

theorem stepGen_gx (p : Prog) (s : St) (stack : List Frame) : GensExt s (stepGen p s stack).1 := by
  unfold stepGen
  cases stack with
  | nil => exact GensExt.refl s
  | cons f below =>
    simp only []
    have := stepFrame_gx p s f below
    cases hs : stepFrame p s f below with
    | next s' top sig => rw [hs] at this; exact this
    | raise s' =>
      rw [hs] at this
      simp only [outState] at this ⊢
      exact this.trans (GensExt.of_eq (gens_unwind s' below))

/-! ## the loop frames carry `wait_start_time + d − 0.1` -/

/-- Every `waitLoop n endT` frame of `stack` belongs to a `Wait: d` node whose persisted start time `ws`
    is set, with `endT = ws + d − 1/10`. -/
def WaitInv (p : Prog) (s : St) (stack : List Frame) : Prop :=
  ∀ n endT, Frame.waitLoop n endT ∈ stack →
    ∃ d ws, (node p n).kind = .wait d ∧ (s.rt n).waitStart = some ws ∧ endT = ws + d - 1/10

theorem waitInv_mono (p : Prog) (s s' : St) (stack : List Frame)
    (hws : ∀ k ws, (s.rt k).waitStart = some ws → (s'.rt k).waitStart = some ws)
    (h : WaitInv p s stack) : WaitInv p s' stack := by
  intro n endT hm
  rcases h n endT hm with ⟨d, ws, hk, hw, he⟩
  exact ⟨d, ws, hk, hws n ws hw, he⟩

theorem waitInv_sub (p : Prog) (s : St) (a b : List Frame) (hsub : ∀ f ∈ a, f ∈ b) (h : WaitInv p s b) :
    WaitInv p s a := fun n endT hm => h n endT (hsub _ hm)

theorem waitInv_append (p : Prog) (s : St) (a b : List Frame) (ha : WaitInv p s a) (hb : WaitInv p s b) :
    WaitInv p s (a ++ b) := by
  intro n endT hm
  rcases List.mem_append.mp hm with h | h
  · exact ha n endT h
  · exact hb n endT h

theorem waitInv_wrapEnter (p : Prog) (s : St) (n : Nat) : WaitInv p s [.wrapEnter n] := by
  intro k endT hm; simp at hm

theorem unwind_sub (s : St) (stack : List Frame) : ∀ f ∈ (unwind s stack).2, f ∈ stack := by
  induction stack with
  | nil => intro f hf; exact hf
  | cons g rest ih =>
    intro f hf
    cases g <;> simp only [unwind] at hf <;>
      first | exact List.mem_cons_of_mem _ (ih f hf) | exact List.mem_cons_of_mem _ hf

/-- The frames pushed by a body satisfy the invariant in the new state (only `Wait`'s body pushes a loop frame). -/
theorem stepBody_newFrames (p : Prog) (s : St) (n pc : Nat) (below : List Frame)
    (s' : St) (top : List Frame) (sig : Signal) (he : stepBody p s n pc below = .next s' top sig) :
    WaitInv p s' top := by
  unfold stepBody at he
  simp only [] at he
  split at he
  all_goals (repeat' split at he)
  all_goals (first | (cases he; done) | skip)
  all_goals (injection he with hs htop _; subst htop; subst hs)
  all_goals (intro k endT hf; simp only [List.mem_cons, List.mem_nil_iff, or_false, List.not_mem_nil,
    reduceCtorEq, false_or, or_self, Frame.waitLoop.injEq] at hf)
  -- the loop frame of `Wait`
  all_goals (rcases hf with ⟨rfl, rfl⟩)
  all_goals (exact ⟨_, _, by assumption, by simp, rfl⟩)

theorem stepFrame_newFrames (p : Prog) (s : St) (f : Frame) (below : List Frame)
    (hf : WaitInv p s [f])
    (s' : St) (top : List Frame) (sig : Signal) (he : stepFrame p s f below = .next s' top sig) :
    WaitInv p s' top := by
  cases f with
  | body n pc => exact stepBody_newFrames p s n pc below s' top sig he
  | waitLoop n endT =>
    unfold stepFrame at he
    simp only [] at he
    repeat' split at he
    all_goals (first | (cases he; done) | skip)
    all_goals (injection he with hs htop _; subst htop; subst hs)
    · exact hf
    · exact hf
    · intro k e hm; simp at hm
  | _ =>
    unfold stepFrame at he
    simp only [] at he
    repeat' split at he
    all_goals (first | (cases he; done) | skip)
    all_goals (injection he with hs htop _; subst htop)
    all_goals (intro k endT hm; simp at hm)

/-- Invariant on states (`Gw`) and on the running stack (`Rw`). -/
def Gw (p : Prog) (s : St) : Prop := GensOk p s ∧ ∀ g ∈ s.gens, WaitInv p s g.stack
def Rw (p : Prog) (s : St) (stack : List Frame) : Prop := StackOk p stack ∧ WaitInv p s stack

theorem stepGen_wait_inv (p : Prog) (hnr : noReset p = true) (s : St) (stack : List Frame)
    (hG : Gw p s) (hR : Rw p s stack) :
    Gw p (stepGen p s stack).1 ∧ Rw p (stepGen p s stack).1 (stepGen p s stack).2.1 := by
  have hok := stepGen_ok p s stack hG.1 hR.1
  have hws : ∀ k ws, (s.rt k).waitStart = some ws → (((stepGen p s stack).1).rt k).waitStart = some ws :=
    fun k ws h => stepGen_ws p hnr s stack k ws h
  have hgx := stepGen_gx p s stack
  refine ⟨⟨hok.1, ?_⟩, hok.2, ?_⟩
  · intro g hg
    rcases hgx.mem g hg with h | ⟨n, h⟩
    · exact waitInv_mono p s _ _ hws (hG.2 g h)
    · rw [h]; exact waitInv_wrapEnter p _ n
  · -- the running stack
    cases stack with
    | nil => simp only [stepGen]; exact hR.2
    | cons f below =>
      have hbelow : WaitInv p s below := waitInv_sub p s _ _ (fun x hx => List.mem_cons_of_mem _ hx) hR.2
      have hf : WaitInv p s [f] := waitInv_sub p s _ _ (fun x hx => by
        simp at hx; subst hx; exact List.mem_cons_self ..) hR.2
      have hnew := stepFrame_newFrames p s f below hf
      simp only [stepGen] at hws ⊢
      cases hsf : stepFrame p s f below with
      | next s' top sig =>
        rw [hsf] at hws
        simp only [] at hws ⊢
        exact waitInv_append p s' top below (hnew s' top sig hsf) (waitInv_mono p s s' below hws hbelow)
      | raise s' =>
        rw [hsf] at hws
        simp only [] at hws ⊢
        exact waitInv_sub p _ _ below (unwind_sub s' below) (waitInv_mono p s _ below hws hbelow)

theorem tickInv_wait (p : Prog) (hnr : noReset p = true) : TickInv p (Gw p) (Rw p) where
  step := fun s stack hG hR => stepGen_wait_inv p hnr s stack hG hR
  load := fun s g hG hg => ⟨hG.1.2 g hg, hG.2 g hg⟩
  store := fun s gid stack hG hR => by
    refine ⟨ok_setGenStack gid stack hG.1 hR.1, ?_⟩
    intro g hg
    unfold setGenStack at hg
    simp only [List.mem_map] at hg
    rcases hg with ⟨g0, hg0, e⟩
    split at e
    · subst e; exact hR.2
    · subst e; exact hG.2 g0 hg0
  flag := fun s b hG => hG
  prune := fun s f hG => ⟨⟨hG.1.1, fun g hg => hG.1.2 g (List.mem_filter.mp hg).1⟩,
    fun g hg => hG.2 g (List.mem_filter.mp hg).1⟩
  start := fun s i hG => hG

end OPM.Interp
