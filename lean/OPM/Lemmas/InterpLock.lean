import OPM.Lemmas.Interp
set_option linter.unusedSimpArgs false
/-! Where `lockAcquired` can change: the frame lemma behind C05's chain invariant. -/
namespace OPM.Interp

def outState : Out → St
  | .next s _ _ => s
  | .raise s => s

def AcqOk (p : Prog) (s : St) (k : Nat) : Prop :=
  isBlock p k = true ∧ (lockedBlocks p s).all (fun b => (ancestors p k).contains b) = true

theorem lock_abort (p : Prog) (s : St) (b k : Nat) :
    ((abortBlockInterrupts p s b).rt k).lockAcquired = (s.rt k).lockAcquired :=
  proj_abortBlockInterrupts (·.lockAcquired) (fun _ _ => rfl) (fun _ _ => rfl) p s b k

theorem lock_endOneBlock (p : Prog) (s : St) (old : Nat) (nm : String) (k : Nat) :
    ((endOneBlock p s old nm).rt k).lockAcquired = (s.rt k).lockAcquired := by
  unfold endOneBlock
  simp only [rt_emit, lock_abort, rt_setRt]
  split
  · rename_i h; subst h; rfl
  · rfl

theorem lock_endBlockStep (p : Prog) (s : St) (k : Nat) :
    ((endBlockStep p s).rt k).lockAcquired = (s.rt k).lockAcquired := by
  unfold endBlockStep
  split
  · rfl
  · simp only [lock_endOneBlock]

theorem lock_endBlocksStep (p : Prog) (s : St) (k : Nat) :
    ((endBlocksStep p s).rt k).lockAcquired = (s.rt k).lockAcquired := by
  unfold endBlocksStep
  simp only []
  exact proj_foldl_keep (·.lockAcquired) _ (fun s a k => lock_endOneBlock p s _ _ k) _ s k

theorem lock_resetSubtree_le (p : Prog) (s : St) (n k : Nat)
    (h : ((resetSubtree p s n).rt k).lockAcquired = true) : (s.rt k).lockAcquired = true := by
  rcases rt_resetSubtree p s n k with e | e
  · rwa [e] at h
  · rw [e] at h; simp [resetOne] at h

theorem lock_alarmRearm_le (p : Prog) (s : St) (n k : Nat)
    (h : ((alarmRearm p s n).rt k).lockAcquired = true) : (s.rt k).lockAcquired = true := by
  unfold alarmRearm at h
  simp only [rt_registerInterrupt] at h
  have key : ∀ j, ((resetSubtree p (unregisterInterrupt (setRt (emit (markCompleted s n) (Event.scopeEnd n)) n
      fun r => { r with runCount := r.runCount + 1 }) n) n).rt j).lockAcquired = true → (s.rt j).lockAcquired = true := by
    intro j hj
    have := lock_resetSubtree_le _ _ _ _ hj
    simp only [rt_unregisterInterrupt, rt_setRt, rt_emit, rt_markCompleted] at this
    repeat' split at this
    all_goals simp_all
  split at h
  · rename_i hk; subst hk; exact key _ h
  · exact key _ h

theorem lock_callPrepare_le (p : Prog) (s : St) (m k : Nat)
    (h : ((callPrepare p s m).rt k).lockAcquired = true) : (s.rt k).lockAcquired = true := by
  unfold callPrepare at h
  simp only [] at h
  split at h
  · simp only [rt_setRt] at h
    split at h
    · rename_i hk; subst hk; exact lock_resetSubtree_le _ _ _ _ h
    · exact lock_resetSubtree_le _ _ _ _ h
  · exact h

theorem lock_callFinish (s : St) (n m k : Nat) :
    ((callFinish s n m).rt k).lockAcquired = (s.rt k).lockAcquired := by
  unfold callFinish
  simp only [rt_setRt, rt_finishNode, getRt_eq]
  repeat' split
  all_goals (try subst_vars)
  all_goals rfl

theorem stepBody_lock (p : Prog) (s : St) (n pc : Nat) (below : List Frame) (k : Nat)
    (h : ((outState (stepBody p s n pc below)).rt k).lockAcquired = true) :
    (s.rt k).lockAcquired = true ∨ (k = n ∧ AcqOk p s k) := by
  unfold stepBody at h
  simp only [] at h
  split at h
  all_goals (repeat' split at h)
  all_goals (try simp only [outState, rt_setRt, rt_emit, rt_finishNode, rt_markFailed, rt_markCompleted,
    rt_registerInterrupt, rt_unregisterInterrupt, rt_tryActivate, getRt_eq, lock_abort,
    lock_endBlockStep, lock_endBlocksStep] at h)
  all_goals (try (repeat' split at h))
  all_goals (try (first | exact Or.inl h | exact Or.inl (lock_alarmRearm_le _ _ _ _ h)
                        | exact Or.inl (lock_callPrepare_le _ _ _ _ h)
                        | exact Or.inl ((lock_endBlockStep _ _ _).symm.trans h)
                        | exact Or.inl ((lock_endBlocksStep _ _ _).symm.trans h)
                        | (simp_all; done)))
  -- the acquire branch
  rename_i hk
  subst hk
  refine Or.inr ⟨rfl, ?_, by assumption⟩
  simp only [isBlock]
  split <;> simp_all


theorem stepFrame_lock (p : Prog) (s : St) (f : Frame) (below : List Frame) (k : Nat)
    (h : ((outState (stepFrame p s f below)).rt k).lockAcquired = true) :
    (s.rt k).lockAcquired = true ∨ (k = frameNode f ∧ AcqOk p s k) := by
  cases f with
  | body n pc => exact stepBody_lock p s n pc below k h
  | _ =>
    left
    unfold stepFrame at h
    simp only [] at h
    repeat' split at h
    all_goals (try simp only [outState, rt_setRt, rt_emit, rt_finishNode, rt_markFailed, rt_markCompleted,
      getRt_eq, lock_callFinish] at h)
    all_goals (try (repeat' split at h))
    all_goals (try exact h)
    all_goals (try (rename_i hk; subst hk; exact h))

theorem unwind_lock (s : St) (stack : List Frame) (k : Nat) :
    (((unwind s stack).1).rt k).lockAcquired = (s.rt k).lockAcquired := by
  induction stack with
  | nil => rfl
  | cons f rest ih =>
    cases f <;> simp only [unwind, ih]
    simp only [rt_setRt]
    split
    · rename_i h; subst h; rfl
    · rfl

/-- Locks appear only through `try_acquire_lock`, for the stepped frame's own node. -/
theorem stepGen_lock (p : Prog) (s : St) (stack : List Frame) (k : Nat)
    (h : (((stepGen p s stack).1).rt k).lockAcquired = true) :
    (s.rt k).lockAcquired = true ∨ (∃ f, stack.head? = some f ∧ k = frameNode f ∧ AcqOk p s k) := by
  unfold stepGen at h
  cases stack with
  | nil => exact Or.inl h
  | cons f below =>
    simp only [] at h
    have := stepFrame_lock p s f below k
    cases hs : stepFrame p s f below with
    | next s' top sig =>
      rw [hs] at h this
      rcases this h with h1 | h1
      · exact Or.inl h1
      · exact Or.inr ⟨f, rfl, h1⟩
    | raise s' =>
      rw [hs] at h this
      simp only [] at h
      rw [unwind_lock] at h
      rcases this h with h1 | h1
      · exact Or.inl h1
      · exact Or.inr ⟨f, rfl, h1⟩

end OPM.Interp
