import OPM.Lemmas.InterpC02b
import OPM.Model.InterpRun
set_option linter.unusedSimpArgs false
set_option linter.unusedVariables false
/-!
C02 lemmas, part 4: a trailing Blank/Comment is never completed — in any reachable state of any method.

`completed` of a node is set only by that node's own frames, or (for a macro node) by the return frame
of a call of it; the body of a trailing Blank/Comment does not set it.  Needs two small well-formedness
invariants: the macro table holds macro nodes only, and `callRet n m` / `waitLoop n _` frames belong to
Call-macro / Wait instructions.
-/
namespace OPM.InterpC02
open OPM.Interp OPM.InterpRun

def isMacroNode (p : Prog) (m : Nat) : Bool :=
  match (node p m).kind with | .macro _ => true | _ => false

def isTrailingBlank (p : Prog) (k : Nat) : Bool :=
  match (node p k).kind with | .blank true => true | _ => false

/-- frames that complete a node other than through its body dispatch carry the right instruction kind -/
def frameOK (p : Prog) : Frame → Bool
  | .callRet n m => isMacroNode p m && !isTrailingBlank p n
  | .waitLoop n _ => !isTrailingBlank p n
  | _ => true

def MacrosOK (p : Prog) (s : St) : Prop := ∀ e ∈ s.macros, isMacroNode p e.2 = true

def BlankOK (p : Prog) (s : St) : Prop := ∀ k, isTrailingBlank p k = true → (s.rt k).completed = false

def BlankInv (p : Prog) (s : St) : Prop := MacrosOK p s ∧ BlankOK p s

def FramesOK (p : Prog) (stack : List Frame) : Prop := ∀ f ∈ stack, frameOK p f = true

theorem mem_dictSet {α β : Type} [DecidableEq α] (d : List (α × β)) (k : α) (v : β) (e : α × β)
    (h : e ∈ dictSet d k v) : e ∈ d ∨ e = (k, v) := by
  unfold dictSet at h
  split at h
  · simp only [List.mem_map] at h
    obtain ⟨e0, he0, h⟩ := h
    split at h
    · exact Or.inr h.symm
    · exact Or.inl (h ▸ he0)
  · rcases List.mem_append.mp h with h | h
    · exact Or.inl h
    · exact Or.inr (by simpa using h)

theorem lookup_mem_snd (d : List (String × Nat)) (k : String) (m : Nat) (h : d.lookup k = some m) :
    ∃ e ∈ d, e.2 = m := by
  induction d with
  | nil => simp [List.lookup] at h
  | cons e l ih =>
    obtain ⟨a, b⟩ := e
    simp only [List.lookup] at h
    split at h
    · simp only [Option.some.injEq] at h; exact ⟨(a, b), by simp, h⟩
    · obtain ⟨e', he', h'⟩ := ih h; exact ⟨e', List.mem_cons_of_mem _ he', h'⟩

/-! ### the macro table -/

theorem stepBody_macros (p : Prog) (s : St) (n pc : Nat) (below : List Frame) (h : MacrosOK p s) :
    MacrosOK p (outState (stepBody p s n pc below)) := by
  intro e
  unfold stepBody
  simp only []
  split
  all_goals (repeat' split)
  all_goals (simp only [outState, (keep_setRt _ _ _).macros, (keep_emit _ _).macros, (keep_finishNode _ _).macros,
    (keep_markFailed _ _).macros, (keep_tryActivate _ _ _).macros, (keep_endBlockStep _ _).macros,
    (keep_endBlocksStep _ _).macros, (keep_callPrepare _ _ _).macros, macros_register, macros_alarmRearm])
  all_goals (try (intro he; exact h e he))
  -- the definition step
  all_goals (
    intro he
    rcases mem_dictSet _ _ _ _ he with h1 | h1
    · exact h e h1
    · subst h1
      simp only [isMacroNode]
      split <;> simp_all)

theorem stepFrame_macros (p : Prog) (s : St) (f : Frame) (below : List Frame) (h : MacrosOK p s) :
    MacrosOK p (outState (stepFrame p s f below)) := by
  cases f with
  | body n pc => exact stepBody_macros p s n pc below h
  | _ =>
    intro e
    unfold stepFrame
    simp only []
    repeat' split
    all_goals (simp only [outState, (keep_setRt _ _ _).macros, (keep_emit _ _).macros, (keep_finishNode _ _).macros,
      (keep_callFinish _ _ _).macros])
    all_goals (intro he; exact h e he)

theorem macros_unwind (s : St) (stack : List Frame) : (unwind s stack).1.macros = s.macros := by
  induction stack with
  | nil => rfl
  | cons f rest ih => cases f <;> simp only [unwind, ih] <;> rfl

/-! ### frames -/

theorem stepBody_frames (p : Prog) (s : St) (n pc : Nat) (below : List Frame) (h : MacrosOK p s) :
    ∀ f ∈ outTop (stepBody p s n pc below), frameOK p f = true := by
  unfold stepBody
  simp only []
  split
  all_goals (repeat' split)
  all_goals (simp only [outTop, List.mem_cons, List.mem_nil_iff, or_false, forall_eq_or_imp, forall_eq, frameOK,
    List.not_mem_nil, false_implies, implies_true, and_self, and_true, true_and])
  all_goals (try trivial)
  -- the call pushes `callRet n m` with `m` from the table; Wait pushes its own loop
  all_goals (try (
    rename_i hkind _ _ m hl _ _ _ _
    obtain ⟨e, he, hm⟩ := lookup_mem_snd _ _ _ hl
    have := h e he
    rw [hm] at this
    simp [this, isTrailingBlank, hkind]))
  all_goals (try (simp_all [isTrailingBlank]))

theorem stepFrame_frames (p : Prog) (s : St) (f : Frame) (below : List Frame) (h : MacrosOK p s)
    (hf : frameOK p f = true) : ∀ g ∈ outTop (stepFrame p s f below), frameOK p g = true := by
  cases f with
  | body n pc => exact stepBody_frames p s n pc below h
  | _ =>
    unfold stepFrame
    simp only []
    repeat' split
    all_goals (simp only [outTop, List.mem_cons, List.mem_nil_iff, or_false, forall_eq_or_imp, forall_eq, frameOK,
      List.not_mem_nil, false_implies, implies_true, and_self, and_true, true_and])
    all_goals (try trivial)
    all_goals (try (simp_all [frameOK]))

theorem framesOK_unwind (p : Prog) (s : St) (stack : List Frame) (h : FramesOK p stack) :
    FramesOK p (unwind s stack).2 := by
  obtain ⟨pre, hp⟩ := unwind_suffix s stack
  intro f hf
  apply h
  rw [hp]
  exact List.mem_append_right _ hf

/-! ### `completed` of a trailing blank -/

theorem completed_resetSubtree_le (p : Prog) (s : St) (n k : Nat)
    (h : ((resetSubtree p s n).rt k).completed = true) : (s.rt k).completed = true := by
  rcases rt_resetSubtree p s n k with e | e
  · rwa [e] at h
  · rw [e] at h; simp [resetOne] at h

theorem completed_alarmRearm_le (p : Prog) (s : St) (n k : Nat) (hk : k ≠ n)
    (h : ((alarmRearm p s n).rt k).completed = true) : (s.rt k).completed = true := by
  unfold alarmRearm at h
  simp only [rt_registerInterrupt, hk, if_false] at h
  have := completed_resetSubtree_le _ _ _ _ h
  simp only [rt_unregisterInterrupt, rt_setRt, rt_emit, rt_markCompleted, hk, if_false, false_and] at this
  exact this

theorem completed_callPrepare_le (p : Prog) (s : St) (m k : Nat)
    (h : ((callPrepare p s m).rt k).completed = true) : (s.rt k).completed = true := by
  unfold callPrepare at h
  simp only [] at h
  split at h
  · simp only [rt_setRt] at h
    split at h
    · rename_i e; subst e; exact completed_resetSubtree_le _ _ _ _ h
    · exact completed_resetSubtree_le _ _ _ _ h
  · exact h

/-- a body step of `n` completes no other node -/
theorem stepBody_completed_other (p : Prog) (s : St) (n pc : Nat) (below : List Frame) (k : Nat) (hk : k ≠ n)
    (h : ((outState (stepBody p s n pc below)).rt k).completed = true) : (s.rt k).completed = true := by
  unfold stepBody at h
  simp only [] at h
  split at h
  all_goals (repeat' split at h)
  all_goals (try simp only [outState, rt_setRt, rt_emit, rt_finishNode, rt_markFailed, rt_markCompleted,
    rt_registerInterrupt, rt_tryActivate, getRt_eq, completed_endBlockStep, completed_endBlocksStep, hk, if_false,
    false_and] at h)
  all_goals (try exact h)
  all_goals (try exact completed_alarmRearm_le _ _ _ _ hk h)
  all_goals (try exact completed_callPrepare_le _ _ _ _ h)
  all_goals (try (split at h <;> simp_all))

/-- the body of a trailing blank does not complete it -/
theorem stepBody_blank_own (p : Prog) (s : St) (k pc : Nat) (below : List Frame)
    (hb : isTrailingBlank p k = true) (h : (s.rt k).completed = false) :
    ((outState (stepBody p s k pc below)).rt k).completed = false := by
  have hk : (node p k).kind = .blank true := by
    unfold isTrailingBlank at hb
    split at hb
    · assumption
    · cases hb
  unfold stepBody
  simp only [hk, if_true, outState, rt_setRt]
  exact h

theorem stepFrame_blank (p : Prog) (s : St) (f : Frame) (below : List Frame) (k : Nat)
    (hb : isTrailingBlank p k = true) (hf : frameOK p f = true) (h : (s.rt k).completed = false) :
    ((outState (stepFrame p s f below)).rt k).completed = false := by
  cases f with
  | body n pc =>
    by_cases hkn : k = n
    · subst hkn; exact stepBody_blank_own p s k pc below hb h
    · cases hc : ((outState (stepFrame p s (.body n pc) below)).rt k).completed with
      | false => rfl
      | true =>
        have := stepBody_completed_other p s n pc below k hkn hc
        rw [h] at this; cases this
  | callRet n m =>
    simp only [frameOK, Bool.and_eq_true, Bool.not_eq_true'] at hf
    have hkm : k ≠ m := by
      intro e; subst e
      unfold isMacroNode at hf; unfold isTrailingBlank at hb
      split at hb <;> simp_all
    have hkn : k ≠ n := by
      intro e; subst e; rw [hb] at hf; cases hf.2
    simp only [stepFrame, outState]
    unfold callFinish
    simp only [rt_setRt, rt_finishNode, getRt_eq, hkm, hkn, if_false]
    exact h
  | waitLoop n e =>
    simp only [frameOK, Bool.not_eq_true'] at hf
    have hkn : k ≠ n := by
      intro e; subst e; rw [hb] at hf; cases hf
    unfold stepFrame
    simp only []
    repeat' split
    all_goals (simp only [outState, rt_finishNode, hkn, if_false])
    all_goals exact h
  | _ =>
    unfold stepFrame
    simp only []
    repeat' split
    all_goals (simp only [outState, rt_setRt, rt_emit, getRt_eq])
    all_goals (try (repeat' split))
    all_goals (try subst_vars)
    all_goals (try simp_all)

/-- One micro-step keeps "no trailing blank is completed" (with the two well-formedness invariants). -/
theorem blankInv_stepGen (p : Prog) (s : St) (stack : List Frame) (h : BlankInv p s) (hs : FramesOK p stack) :
    BlankInv p (stepGen p s stack).1 ∧ FramesOK p (stepGen p s stack).2.1 := by
  cases stack with
  | nil => exact ⟨h, hs⟩
  | cons f below =>
    have hf : frameOK p f = true := hs f (by simp)
    have hbelow : FramesOK p below := fun g hg => hs g (List.mem_cons_of_mem _ hg)
    have hm := stepFrame_macros p s f below h.1
    have hfr := stepFrame_frames p s f below h.1 hf
    have hbl : ∀ k, isTrailingBlank p k = true → ((outState (stepFrame p s f below)).rt k).completed = false :=
      fun k hb => stepFrame_blank p s f below k hb hf (h.2 k hb)
    unfold stepGen
    simp only []
    cases hst : stepFrame p s f below with
    | next s' top sig =>
      rw [hst] at hm hfr hbl
      simp only [outState, outTop] at hm hfr hbl
      refine ⟨⟨hm, hbl⟩, ?_⟩
      intro g hg
      rcases List.mem_append.mp hg with h1 | h1
      · exact hfr g h1
      · exact hbelow g h1
    | raise s' =>
      rw [hst] at hm hbl
      simp only [outState] at hm hbl
      simp only []
      refine ⟨⟨?_, ?_⟩, framesOK_unwind p s' below hbelow⟩
      · intro e he; rw [macros_unwind] at he; exact hm e he
      · intro k hb; rw [unwind_completed]; exact hbl k hb

theorem blankInv_lifts (p : Prog) : Lifts p (BlankInv p) (FramesOK p) where
  fresh := fun n f hf => by simp only [List.mem_singleton] at hf; subst hf; rfl
  step := fun s stack h hs => blankInv_stepGen p s stack h hs
  congr := fun s s' hc h => by
    refine ⟨?_, ?_⟩
    · intro e he; rw [hc.macros] at he; exact h.1 e he
    · intro k hb; rw [hc.rt]; exact h.2 k hb

end OPM.InterpC02
