import OPM.Model.CmdMgr
import OPM.Model.CmdMgrSpec
/-!
Frame lemmas of the M2 model: which fields every primitive of `OPM.Model.CmdMgr` leaves alone.
-/
namespace OPM.CmdMgr

/-! ### markDone / commit -/

macro "md_frame" : tactic => `(tactic| (unfold markDone; split <;> (try split) <;> rfl))

@[simp] theorem markDone_objs (s : State) (r : Req) : (markDone s r).objs = s.objs := by
  md_frame
@[simp] theorem markDone_events (s : State) (r : Req) : (markDone s r).events = s.events := by
  md_frame
@[simp] theorem markDone_executing (s : State) (r : Req) : (markDone s r).executing = s.executing := by
  md_frame
@[simp] theorem markDone_queue (s : State) (r : Req) : (markDone s r).queue = s.queue := by
  md_frame
@[simp] theorem markDone_track (s : State) (r : Req) : (markDone s r).track = s.track := by
  md_frame
@[simp] theorem markDone_tracking (s : State) (r : Req) : (markDone s r).tracking = s.tracking := by
  md_frame
@[simp] theorem markDone_cfg (s : State) (r : Req) : (markDone s r).cfg = s.cfg := by
  md_frame
@[simp] theorem markDone_nextId (s : State) (r : Req) : (markDone s r).nextId = s.nextId := by
  md_frame
@[simp] theorem markDone_resident (s : State) (r : Req) : (markDone s r).resident = s.resident := by
  md_frame
@[simp] theorem markDone_restartPending (s : State) (r : Req) :
    (markDone s r).restartPending = s.restartPending := by
  md_frame
@[simp] theorem markDone_resetTo (s : State) (r : Req) : (markDone s r).resetTo = s.resetTo := by
  md_frame
@[simp] theorem markDone_started (s : State) (r : Req) : (markDone s r).started = s.started := by
  md_frame
@[simp] theorem markDone_stopping (s : State) (r : Req) : (markDone s r).stopping = s.stopping := by
  md_frame
@[simp] theorem markDone_paused (s : State) (r : Req) : (markDone s r).paused = s.paused := by
  md_frame
@[simp] theorem markDone_sys (s : State) (r : Req) : (markDone s r).sys = s.sys := by
  md_frame
@[simp] theorem markDone_runId (s : State) (r : Req) : (markDone s r).runId = s.runId := by
  md_frame
@[simp] theorem markDone_nextRun (s : State) (r : Req) : (markDone s r).nextRun = s.nextRun := by
  md_frame
@[simp] theorem markDone_simulated (s : State) (r : Req) : (markDone s r).simulated = s.simulated := by
  md_frame
@[simp] theorem markDone_stopLog (s : State) (r : Req) : (markDone s r).stopLog = s.stopLog := by
  md_frame
@[simp] theorem markDone_resets (s : State) (r : Req) : (markDone s r).resets = s.resets := by
  md_frame

/-- `done` only grows, and by at most the request. -/
theorem markDone_done_mem (s : State) (r : Req) (i : Nat) :
    i ∈ (markDone s r).done ↔ i ∈ s.done ∨ (i = r.id ∧ ∃ x ∈ s.executing, x.id = r.id) := by
  unfold markDone
  split
  · rename_i h
    have hx : ∃ x ∈ s.executing, x.id = r.id := by
      simpa using h
    split
    · rename_i hc
      have : r.id ∈ s.done := by simpa using hc
      constructor
      · intro hi; exact Or.inl hi
      · rintro (hi | ⟨rfl, _⟩) <;> assumption
    · simp only [List.mem_cons]
      constructor
      · rintro (rfl | hi)
        · exact Or.inr ⟨rfl, hx⟩
        · exact Or.inl hi
      · rintro (hi | ⟨rfl, _⟩)
        · exact Or.inr hi
        · exact Or.inl rfl
  · rename_i h
    have hx : ¬ ∃ x ∈ s.executing, x.id = r.id := by
      simpa using h
    constructor
    · intro hi; exact Or.inl hi
    · rintro (hi | ⟨_, hh⟩)
      · exact hi
      · exact absurd hh hx

theorem isDone_iff (s : State) (r : Req) : isDone s r = true ↔ r.id ∈ s.done := by
  simp [isDone]

theorem isDone_markDone_self (s : State) (r : Req) (h : r ∈ s.executing) : isDone (markDone s r) r = true := by
  rw [isDone_iff, markDone_done_mem]
  exact Or.inr ⟨rfl, r, h, rfl⟩

theorem isDone_markDone_mono (s : State) (r c : Req) (h : isDone s c = true) : isDone (markDone s r) c = true := by
  rw [isDone_iff] at *
  rw [markDone_done_mem]
  exact Or.inl h

/-! ### the part of the state that neither tracking marks nor object updates touch -/

structure View where
  paused : Bool
  queue : List Req
  executing : List Req
  tracking : Bool
  resident : Option Life
  restartPending : Option Req
  resetTo : Option (List Req)
  started : Bool
  stopping : Bool
  sys : Sys
  runId : Option Nat
  nextRun : Nat
  simulated : List Nat
  stopLog : List (List Track)
  resets : Nat
  nextId : Nat
  cfg : Cfg
  trackIds : List Nat

def view (s : State) : View :=
  ⟨s.paused, s.queue, s.executing, s.tracking, s.resident, s.restartPending, s.resetTo, s.started, s.stopping, s.sys,
   s.runId, s.nextRun, s.simulated, s.stopLog, s.resets, s.nextId, s.cfg, s.track.map (·.id)⟩

theorem view_eq {s s' : State} (h : view s' = view s) :
    s'.queue = s.queue ∧ s'.executing = s.executing ∧ s'.tracking = s.tracking ∧ s'.resident = s.resident ∧
    s'.restartPending = s.restartPending ∧ s'.resetTo = s.resetTo ∧ s'.started = s.started ∧
    s'.stopping = s.stopping ∧ s'.sys = s.sys ∧ s'.runId = s.runId ∧ s'.nextRun = s.nextRun ∧
    s'.simulated = s.simulated ∧ s'.stopLog = s.stopLog ∧ s'.resets = s.resets ∧ s'.nextId = s.nextId ∧
    s'.cfg = s.cfg ∧ s'.track.map (·.id) = s.track.map (·.id) := by
  simp only [view, View.mk.injEq] at h
  exact h.2

theorem view_paused {s s' : State} (h : view s' = view s) : s'.paused = s.paused := by
  simp only [view, View.mk.injEq] at h
  exact h.1

@[simp] theorem view_markDone (s : State) (r : Req) : view (markDone s r) = view s := by
  simp [view]

theorem modTrack_ids (tr : List Track) (i : Nat) (f : Track → Track) (hf : ∀ t, (f t).id = t.id) :
    (modTrack tr i f).map (·.id) = tr.map (·.id) := by
  simp only [modTrack, List.map_map]
  apply List.map_congr_left
  intro t _
  simp only [Function.comp]
  split
  · exact hf t
  · rfl

@[simp] theorem addMark_id (t : Track) (m : Mark) : (t.addMark m).id = t.id := by
  unfold Track.addMark; split <;> rfl

/-! ### tracking marks: only `track` changes, and not its ids -/

section marks
variable (s s' : State) (i : Nat)

theorem markCancelled_frame (b : Bool) (h : markCancelled s i b = some s') :
    view s' = view s ∧ s'.objs = s.objs ∧ s'.events = s.events ∧ s'.done = s.done := by
  unfold markCancelled at h
  split at h
  · cases h; simp
  · split at h
    · cases h
    · split at h
      · cases h
      · cases h
        refine ⟨?_, rfl, rfl, rfl⟩
        simp only [view, View.mk.injEq, true_and]
        apply modTrack_ids
        intro t; split <;> simp

theorem markForced_frame (h : markForced s i = some s') :
    view s' = view s ∧ s'.objs = s.objs ∧ s'.events = s.events ∧ s'.done = s.done := by
  unfold markForced at h
  split at h
  · cases h; simp
  · split at h
    · cases h
    · split at h
      · cases h
      · cases h
        refine ⟨?_, rfl, rfl, rfl⟩
        simp only [view, View.mk.injEq, true_and]
        apply modTrack_ids
        intro t; simp

theorem markCompleted_frame (h : markCompleted s i = some s') :
    view s' = view s ∧ s'.objs = s.objs ∧ s'.events = s.events ∧ s'.done = s.done := by
  unfold markCompleted at h
  split at h
  · cases h; simp
  · split at h
    · cases h
    · cases h
      refine ⟨?_, rfl, rfl, rfl⟩
      simp only [view, View.mk.injEq, true_and]
      apply modTrack_ids
      intro t; split <;> simp

theorem markFailed_frame (h : markFailed s i = some s') :
    view s' = view s ∧ s'.objs = s.objs ∧ s'.events = s.events ∧ s'.done = s.done := by
  unfold markFailed at h
  split at h
  · cases h; simp
  · split at h
    · cases h
    · cases h
      refine ⟨?_, rfl, rfl, rfl⟩
      simp only [view, View.mk.injEq, true_and]
      apply modTrack_ids
      intro t; simp

theorem markUodStarted_frame (ser : Nat) (h : markUodStarted s i ser = some s') :
    view s' = view s ∧ s'.objs = s.objs ∧ s'.events = s.events ∧ s'.done = s.done := by
  unfold markUodStarted at h
  split at h
  · cases h; simp
  · split at h
    · cases h
    · cases h
      refine ⟨?_, rfl, rfl, rfl⟩
      simp only [view, View.mk.injEq, true_and]
      apply modTrack_ids
      intro t; split <;> simp

theorem markReqCancelled_frame (h : markReqCancelled s i = some s') :
    view s' = view s ∧ s'.objs = s.objs ∧ s'.events = s.events ∧ s'.done = s.done := by
  unfold markReqCancelled at h
  split at h
  · cases h; rename_i h1; exact markCancelled_frame _ _ _ _ h1
  · split at h
    · exact markCancelled_frame _ _ _ _ h
    · cases h

theorem getTrack_isSome (tr : List Track) : (getTrack tr i).isSome = true ↔ i ∈ tr.map (·.id) := by
  unfold getTrack
  simp [List.find?_isSome]

/-- With the repair, the tracking call of `_cancel_command` fails only if the record is missing. -/
theorem markReqCancelled_isSome (hfix : s.cfg.fixCancel = true)
    (ht : s.tracking = true → i ∈ s.track.map (·.id)) : (markReqCancelled s i).isSome = true := by
  unfold markReqCancelled
  split
  · rfl
  · rw [if_pos hfix]
    unfold markCancelled
    split
    · rfl
    · rename_i htr
      have htr : s.tracking = true := by simpa using htr
      have := (getTrack_isSome i s.track).mpr (ht htr)
      split
      · rename_i hn; rw [hn] at this; cases this
      · simp

end marks

end OPM.CmdMgr
