import OPM.Model.CmdMgr
import OPM.Model.CmdMgrSpec
/-!
Frame lemmas of the M2 model: which fields every primitive of `OPM.Model.CmdMgr` leaves alone.
-/
namespace OPM.CmdMgr

/-! ### markDone / commit -/

macro "md_frame" : tactic => `(tactic| (unfold markDone; split <;> (try split) <;> rfl))

@[simp] theorem markDone_objs (s : State) (r : Req) : (markDone s r).objs = s.objs := by
  md_frame
@[simp] theorem markDone_events (s : State) (r : Req) : (markDone s r).events = s.events := by
  md_frame
@[simp] theorem markDone_executing (s : State) (r : Req) : (markDone s r).executing = s.executing := by
  md_frame
@[simp] theorem markDone_queue (s : State) (r : Req) : (markDone s r).queue = s.queue := by
  md_frame
@[simp] theorem markDone_track (s : State) (r : Req) : (markDone s r).track = s.track := by
  md_frame
@[simp] theorem markDone_tracking (s : State) (r : Req) : (markDone s r).tracking = s.tracking := by
  md_frame
@[simp] theorem markDone_cfg (s : State) (r : Req) : (markDone s r).cfg = s.cfg := by
  md_frame
@[simp] theorem markDone_nextId (s : State) (r : Req) : (markDone s r).nextId = s.nextId := by
  md_frame
@[simp] theorem markDone_resident (s : State) (r : Req) : (markDone s r).resident = s.resident := by
  md_frame
@[simp] theorem markDone_restartPending (s : State) (r : Req) :
    (markDone s r).restartPending = s.restartPending := by
  md_frame
@[simp] theorem markDone_resetTo (s : State) (r : Req) : (markDone s r).resetTo = s.resetTo := by
  md_frame
@[simp] theorem markDone_started (s : State) (r : Req) : (markDone s r).started = s.started := by
  md_frame
@[simp] theorem markDone_stopping (s : State) (r : Req) : (markDone s r).stopping = s.stopping := by
  md_frame
@[simp] theorem markDone_sys (s : State) (r : Req) : (markDone s r).sys = s.sys := by
  md_frame
@[simp] theorem markDone_runId (s : State) (r : Req) : (markDone s r).runId = s.runId := by
  md_frame
@[simp] theorem markDone_nextRun (s : State) (r : Req) : (markDone s r).nextRun = s.nextRun := by
  md_frame
@[simp] theorem markDone_simulated (s : State) (r : Req) : (markDone s r).simulated = s.simulated := by
  md_frame
@[simp] theorem markDone_stopLog (s : State) (r : Req) : (markDone s r).stopLog = s.stopLog := by
  md_frame
@[simp] theorem markDone_resets (s : State) (r : Req) : (markDone s r).resets = s.resets := by
  md_frame

/-- `done` only grows, and by at most the request. -/
theorem markDone_done_mem (s : State) (r : Req) (i : Nat) :
    i ∈ (markDone s r).done ↔ i ∈ s.done ∨ (i = r.id ∧ ∃ x ∈ s.executing, x.id = r.id) := by
  unfold markDone
  split
  · rename_i h
    have hx : ∃ x ∈ s.executing, x.id = r.id := by
      simpa using h
    split
    · rename_i hc
      have : r.id ∈ s.done := by simpa using hc
      constructor
      · intro hi; exact Or.inl hi
      · rintro (hi | ⟨rfl, _⟩) <;> assumption
    · simp only [List.mem_cons]
      constructor
      · rintro (rfl | hi)
        · exact Or.inr ⟨rfl, hx⟩
        · exact Or.inl hi
      · rintro (hi | ⟨rfl, _⟩)
        · exact Or.inr hi
        · exact Or.inl rfl
  · rename_i h
    have hx : ¬ ∃ x ∈ s.executing, x.id = r.id := by
      simpa using h
    constructor
    · intro hi; exact Or.inl hi
    · rintro (hi | ⟨_, hh⟩)
      · exact hi
      · exact absurd hh hx

theorem isDone_iff (s : State) (r : Req) : isDone s r = true ↔ r.id ∈ s.done := by
  simp [isDone]

theorem isDone_markDone_self (s : State) (r : Req) (h : r ∈ s.executing) : isDone (markDone s r) r = true := by
  rw [isDone_iff, markDone_done_mem]
  exact Or.inr ⟨rfl, r, h, rfl⟩

theorem isDone_markDone_mono (s : State) (r c : Req) (h : isDone s c = true) : isDone (markDone s r) c = true := by
  rw [isDone_iff] at *
  rw [markDone_done_mem]
  exact Or.inl h

/-! ### tracking marks: only `track` changes -/

section marks
variable (s s' : State) (i : Nat)

theorem markCancelled_frame (b : Bool) (h : markCancelled s i b = some s') :
    s'.objs = s.objs ∧ s'.events = s.events ∧ s'.executing = s.executing ∧ s'.done = s.done ∧
    s'.queue = s.queue ∧ s'.tracking = s.tracking ∧ s'.cfg = s.cfg ∧ s'.nextId = s.nextId ∧
    s'.resident = s.resident ∧ s'.restartPending = s.restartPending ∧ s'.resetTo = s.resetTo ∧
    s'.started = s.started ∧ s'.stopping = s.stopping ∧ s'.sys = s.sys ∧ s'.runId = s.runId ∧
    s'.nextRun = s.nextRun ∧ s'.simulated = s.simulated ∧ s'.stopLog = s.stopLog ∧ s'.resets = s.resets ∧
    s'.track.map (·.id) = s.track.map (·.id) := by
  unfold markCancelled at h
  split at h
  · cases h; simp
  · split at h
    · cases h
    · split at h
      · cases h
      · cases h
        simp only [modTrack, List.map_map, true_and]
        apply List.map_congr_left
        intro t _
        simp only [Function.comp]
        split
        · unfold Track.addMark
          split <;> split <;> rfl
        · rfl

theorem markForced_frame (h : markForced s i = some s') :
    s'.objs = s.objs ∧ s'.events = s.events ∧ s'.executing = s.executing ∧ s'.done = s.done ∧
    s'.queue = s.queue ∧ s'.tracking = s.tracking ∧ s'.cfg = s.cfg ∧ s'.nextId = s.nextId ∧
    s'.resident = s.resident ∧ s'.restartPending = s.restartPending ∧ s'.resetTo = s.resetTo ∧
    s'.started = s.started ∧ s'.stopping = s.stopping ∧ s'.sys = s.sys ∧ s'.runId = s.runId ∧
    s'.nextRun = s.nextRun ∧ s'.simulated = s.simulated ∧ s'.stopLog = s.stopLog ∧ s'.resets = s.resets ∧
    s'.track.map (·.id) = s.track.map (·.id) := by
  unfold markForced at h
  split at h
  · cases h; simp
  · split at h
    · cases h
    · split at h
      · cases h
      · cases h
        simp only [modTrack, List.map_map, true_and]
        apply List.map_congr_left
        intro t _
        simp only [Function.comp]
        split
        · unfold Track.addMark
          split <;> rfl
        · rfl

theorem markCompleted_frame (h : markCompleted s i = some s') :
    s'.objs = s.objs ∧ s'.events = s.events ∧ s'.executing = s.executing ∧ s'.done = s.done ∧
    s'.queue = s.queue ∧ s'.tracking = s.tracking ∧ s'.cfg = s.cfg ∧ s'.nextId = s.nextId ∧
    s'.resident = s.resident ∧ s'.restartPending = s.restartPending ∧ s'.resetTo = s.resetTo ∧
    s'.started = s.started ∧ s'.stopping = s.stopping ∧ s'.sys = s.sys ∧ s'.runId = s.runId ∧
    s'.nextRun = s.nextRun ∧ s'.simulated = s.simulated ∧ s'.stopLog = s.stopLog ∧ s'.resets = s.resets ∧
    s'.track.map (·.id) = s.track.map (·.id) := by
  unfold markCompleted at h
  split at h
  · cases h; simp
  · split at h
    · cases h
    · cases h
      simp only [modTrack, List.map_map, true_and]
      apply List.map_congr_left
      intro t _
      simp only [Function.comp]
      split
      · unfold Track.addMark
        split <;> split <;> rfl
      · rfl

theorem markFailed_frame (h : markFailed s i = some s') :
    s'.objs = s.objs ∧ s'.events = s.events ∧ s'.executing = s.executing ∧ s'.done = s.done ∧
    s'.queue = s.queue ∧ s'.tracking = s.tracking ∧ s'.cfg = s.cfg ∧ s'.nextId = s.nextId ∧
    s'.resident = s.resident ∧ s'.restartPending = s.restartPending ∧ s'.resetTo = s.resetTo ∧
    s'.started = s.started ∧ s'.stopping = s.stopping ∧ s'.sys = s.sys ∧ s'.runId = s.runId ∧
    s'.nextRun = s.nextRun ∧ s'.simulated = s.simulated ∧ s'.stopLog = s.stopLog ∧ s'.resets = s.resets ∧
    s'.track.map (·.id) = s.track.map (·.id) := by
  unfold markFailed at h
  split at h
  · cases h; simp
  · split at h
    · cases h
    · cases h
      simp only [modTrack, List.map_map, true_and]
      apply List.map_congr_left
      intro t _
      simp only [Function.comp]
      split
      · unfold Track.addMark
        split <;> rfl
      · rfl

theorem markUodStarted_frame (ser : Nat) (h : markUodStarted s i ser = some s') :
    s'.objs = s.objs ∧ s'.events = s.events ∧ s'.executing = s.executing ∧ s'.done = s.done ∧
    s'.queue = s.queue ∧ s'.tracking = s.tracking ∧ s'.cfg = s.cfg ∧ s'.nextId = s.nextId ∧
    s'.resident = s.resident ∧ s'.restartPending = s.restartPending ∧ s'.resetTo = s.resetTo ∧
    s'.started = s.started ∧ s'.stopping = s.stopping ∧ s'.sys = s.sys ∧ s'.runId = s.runId ∧
    s'.nextRun = s.nextRun ∧ s'.simulated = s.simulated ∧ s'.stopLog = s.stopLog ∧ s'.resets = s.resets ∧
    s'.track.map (·.id) = s.track.map (·.id) := by
  unfold markUodStarted at h
  split at h
  · cases h; simp
  · split at h
    · cases h
    · cases h
      simp only [modTrack, List.map_map, true_and]
      apply List.map_congr_left
      intro t _
      simp only [Function.comp]
      split
      · split
        · unfold Track.addMark; split <;> rfl
        · unfold Track.addMark; split <;> split <;> rfl
      · rfl

end marks

end OPM.CmdMgr
