import OPM.Model.TickLock
/-!
Helper lemmas for C40: commuting state transformers, the invariant of the two-thread lock machine.
-/
namespace OPM.TickLock.Abs

variable {σ : Type}

def Comm (f g : σ → σ) : Prop := ∀ x, f (g x) = g (f x)

@[simp] theorem ap_nil (s : σ) : ap ([] : List (σ → σ)) s = s := rfl

theorem ap_snoc (l : List (σ → σ)) (f : σ → σ) (s : σ) : ap (l ++ [f]) s = f (ap l s) := by
  simp [ap, List.foldl_append]

/-- a transformer that commutes with every element of a list moves through the whole list -/
theorem ap_comm_one (f : σ → σ) (l : List (σ → σ)) (h : ∀ g ∈ l, Comm f g) (s : σ) :
    f (ap l s) = ap l (f s) := by
  induction l generalizing s with
  | nil => rfl
  | cons g l ih =>
    simp only [ap, List.foldl_cons]
    have := ih (fun g' hg' => h g' (by simp [hg'])) (g s)
    simp only [ap] at this
    rw [this, h g (by simp)]

/-- Invariant of the machine when the request body is a critical section of the tick's lock: the accumulated state
is always a *serial* composition of what has run so far. -/
structure Inv (S : Sys σ) (s₀ : σ) (st : St σ) : Prop where
  pre : st.preDone ++ st.preRem = S.pre
  crit : st.critDone ++ st.critRem = S.crit
  body : st.bodyDone ++ st.bodyRem = S.body
  order : st.critDone ≠ [] → st.preRem = []
  shape :
    (st.critDone = [] ∧ st.s = ap st.preDone (ap st.bodyDone s₀)) ∨
    (st.critDone ≠ [] ∧ st.bodyDone = [] ∧ st.s = ap st.critDone (ap S.pre s₀)) ∨
    (st.critDone ≠ [] ∧ st.bodyRem = [] ∧ st.s = ap st.critDone (ap S.pre (ap S.body s₀))) ∨
    (st.bodyDone ≠ [] ∧ st.critRem = [] ∧ st.preRem = [] ∧ st.s = ap st.bodyDone (ap S.crit (ap S.pre s₀)))

theorem inv_start (S : Sys σ) (s₀ : σ) : Inv S s₀ (start S s₀) :=
  { pre := by simp [start], crit := by simp [start], body := by simp [start],
    order := by intro h; simp [start] at h,
    shape := Or.inl ⟨rfl, by simp [start]⟩ }

theorem append_singleton_ne_nil (l : List (σ → σ)) (f : σ → σ) : l ++ [f] ≠ [] := by simp

theorem inv_step (S : Sys σ) (s₀ : σ) (hl : S.locked = true)
    (hc : ∀ f ∈ S.pre, ∀ g ∈ S.body, Comm g f) {a b : St σ} (inv : Inv S s₀ a) (h : Step S a b) :
    Inv S s₀ b := by
  cases h with
  | tickPre f rest hp =>
    have hcd : a.critDone = [] := by
      by_cases e : a.critDone = []
      · exact e
      · have := inv.order e; rw [hp] at this; cases this
    refine { pre := ?_, crit := inv.crit, body := inv.body, order := ?_, shape := ?_ }
    · simp only [List.append_assoc, List.singleton_append]; rw [← hp]; exact inv.pre
    · intro e; exact absurd hcd e
    · rcases inv.shape with ⟨_, hs⟩ | ⟨e, _⟩ | ⟨e, _⟩ | ⟨_, _, e, _⟩
      · exact Or.inl ⟨hcd, by simp only; rw [ap_snoc, hs]⟩
      · exact absurd hcd e
      · exact absurd hcd e
      · rw [hp] at e; cases e
  | tickCrit f rest hp hcr hen =>
    have hpre : a.preDone = S.pre := by have := inv.pre; rw [hp] at this; simpa using this
    refine { pre := inv.pre, crit := ?_, body := inv.body, order := fun _ => hp, shape := ?_ }
    · simp only [List.append_assoc, List.singleton_append]; rw [← hcr]; exact inv.crit
    · rcases inv.shape with ⟨hcd, hs⟩ | ⟨e, hb, hs⟩ | ⟨e, hb, hs⟩ | ⟨_, e, _, _⟩
      · -- the tick takes the lock: the request is not inside
        have hni : ¬ insideR a := by
          rcases hen with h1 | h2 | h3
          · exact absurd hcd h1
          · rw [hl] at h2; cases h2
          · exact h3
        by_cases hbd : a.bodyDone = []
        · refine Or.inr (Or.inl ⟨append_singleton_ne_nil _ _, hbd, ?_⟩)
          simp only; rw [ap_snoc, hs, hcd, hbd, hpre]; rfl
        · have hbr : a.bodyRem = [] := by
            by_cases e : a.bodyRem = []
            · exact e
            · exact absurd ⟨hbd, e⟩ hni
          have hbody : a.bodyDone = S.body := by have := inv.body; rw [hbr] at this; simpa using this
          refine Or.inr (Or.inr (Or.inl ⟨append_singleton_ne_nil _ _, hbr, ?_⟩))
          simp only; rw [ap_snoc, hs, hcd, hbody, hpre]; rfl
      · exact Or.inr (Or.inl ⟨append_singleton_ne_nil _ _, hb, by simp only; rw [ap_snoc, hs]⟩)
      · exact Or.inr (Or.inr (Or.inl ⟨append_singleton_ne_nil _ _, hb, by simp only; rw [ap_snoc, hs]⟩))
      · rw [hcr] at e; cases e
  | req f rest hb hen =>
    have hfmem : f ∈ S.body := by rw [← inv.body, hb]; simp
    refine { pre := inv.pre, crit := inv.crit, body := ?_, order := inv.order, shape := ?_ }
    · simp only [List.append_assoc, List.singleton_append]; rw [← hb]; exact inv.body
    · rcases inv.shape with ⟨hcd, hs⟩ | ⟨e, hbd, hs⟩ | ⟨_, e, _⟩ | ⟨e, hcr, hpr, hs⟩
      · refine Or.inl ⟨hcd, ?_⟩
        simp only
        rw [ap_snoc, hs]
        apply ap_comm_one
        intro g hg
        have : g ∈ S.pre := by rw [← inv.pre]; simp [hg]
        exact hc g this f hfmem
      · -- the request takes the lock: the tick is not inside, so its critical section is over
        have hni : ¬ insideT a := by
          rcases hen with h1 | h2 | h3
          · exact absurd hbd h1
          · rw [hl] at h2; cases h2
          · exact h3
        have hcr : a.critRem = [] := by
          by_cases e' : a.critRem = []
          · exact e'
          · exact absurd ⟨e, e'⟩ hni
        have hcrit : a.critDone = S.crit := by have := inv.crit; rw [hcr] at this; simpa using this
        refine Or.inr (Or.inr (Or.inr ⟨append_singleton_ne_nil _ _, hcr, inv.order e, ?_⟩))
        simp only; rw [ap_snoc, hs, hbd, hcrit]; rfl
      · rw [hb] at e; cases e
      · exact Or.inr (Or.inr (Or.inr ⟨append_singleton_ne_nil _ _, hcr, hpr, by simp only; rw [ap_snoc, hs]⟩))

theorem inv_reach (S : Sys σ) (s₀ : σ) (hl : S.locked = true)
    (hc : ∀ f ∈ S.pre, ∀ g ∈ S.body, Comm g f) {st : St σ} (h : Reach S s₀ st) : Inv S s₀ st := by
  induction h with
  | init => exact inv_start S s₀
  | step _ hs ih => exact inv_step S s₀ hl hc ih hs

end OPM.TickLock.Abs
