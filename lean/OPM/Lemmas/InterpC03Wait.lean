import OPM.Lemmas.InterpC03
set_option linter.unusedSimpArgs false
set_option linter.unusedVariables false
/-!
Where the `completed` flag of a `Wait` node can become true, and the well-formedness of generator
stacks that is needed to say so for every reachable state (a `callRet n m` frame always has a
`Call macro` node `n` and a `Macro` node `m`, so `visit_CallMacroNode`'s completion never hits a Wait).
-/
namespace OPM.Interp

def isWait (p : Prog) (n : Nat) : Bool :=
  match (node p n).kind with | .wait _ => true | _ => false

def isCall (p : Prog) (n : Nat) : Bool :=
  match (node p n).kind with | .call _ => true | _ => false

def isMacro (p : Prog) (n : Nat) : Bool :=
  match (node p n).kind with | .macro _ => true | _ => false

def isCmd (p : Prog) (n : Nat) : Bool :=
  match (node p n).kind with | .cmd _ _ => true | _ => false

/-! ## `completed` -/

theorem completed_abort (p : Prog) (s : St) (b k : Nat) :
    ((abortBlockInterrupts p s b).rt k).completed = (s.rt k).completed :=
  proj_abortBlockInterrupts (·.completed) (fun _ _ => rfl) (fun _ _ => rfl) p s b k

theorem completed_endOneBlock (p : Prog) (s : St) (old : Nat) (nm : String) (k : Nat) :
    ((endOneBlock p s old nm).rt k).completed = (s.rt k).completed := by
  unfold endOneBlock
  simp only [rt_emit, completed_abort, rt_setRt]
  split
  · rename_i h; subst h; rfl
  · rfl

theorem completed_endBlockStep (p : Prog) (s : St) (k : Nat) :
    ((endBlockStep p s).rt k).completed = (s.rt k).completed := by
  unfold endBlockStep
  split
  · rfl
  · simp only [completed_endOneBlock]

theorem completed_endBlocksStep (p : Prog) (s : St) (k : Nat) :
    ((endBlocksStep p s).rt k).completed = (s.rt k).completed := by
  unfold endBlocksStep
  simp only []
  exact proj_foldl_keep (·.completed) _ (fun s a k => completed_endOneBlock p s _ _ k) _ s k

theorem completed_resetSubtree_le (p : Prog) (s : St) (n k : Nat)
    (h : ((resetSubtree p s n).rt k).completed = true) : (s.rt k).completed = true := by
  rcases rt_resetSubtree p s n k with e | e
  · rwa [e] at h
  · rw [e] at h; simp [resetOne] at h

theorem completed_alarmRearm_le (p : Prog) (s : St) (n k : Nat)
    (h : ((alarmRearm p s n).rt k).completed = true) : (s.rt k).completed = true ∨ k = n := by
  by_cases hk : k = n
  · exact Or.inr hk
  · left
    unfold alarmRearm at h
    simp only [rt_registerInterrupt, hk, if_false] at h
    have := completed_resetSubtree_le _ _ _ _ h
    simp only [rt_unregisterInterrupt, rt_setRt, rt_emit, rt_markCompleted, hk, if_false, false_and] at this
    exact this

theorem completed_callPrepare_le (p : Prog) (s : St) (m k : Nat)
    (h : ((callPrepare p s m).rt k).completed = true) : (s.rt k).completed = true := by
  unfold callPrepare at h
  simp only [] at h
  split at h
  · simp only [rt_setRt] at h
    split at h
    · rename_i hk; subst hk; exact completed_resetSubtree_le _ _ _ _ h
    · exact completed_resetSubtree_le _ _ _ _ h
  · exact h

/-- An instruction body completes only its own node, and the `Wait` body never does (its loop frame does). -/
theorem stepBody_completed (p : Prog) (s : St) (n pc : Nat) (below : List Frame) (k : Nat)
    (h : ((outState (stepBody p s n pc below)).rt k).completed = true) :
    (s.rt k).completed = true ∨ (k = n ∧ isWait p n = false) := by
  by_cases hw : isWait p n = true
  · left
    unfold isWait at hw
    split at hw
    · rename_i d hkind
      unfold stepBody at h
      simp only [hkind] at h
      repeat' split at h
      all_goals (simp only [outState, rt_setRt] at h)
      all_goals (try (split at h))
      all_goals (try subst_vars)
      all_goals (first | exact h | (simp_all; done))
    · cases hw
  · have hw : isWait p n = false := by simpa using hw
    unfold stepBody at h
    simp only [] at h
    split at h
    all_goals (repeat' split at h)
    all_goals (try simp only [outState, rt_setRt, rt_emit, rt_finishNode, rt_markFailed, rt_markCompleted,
      rt_registerInterrupt, rt_unregisterInterrupt, rt_tryActivate, getRt_eq, completed_abort,
      completed_endBlockStep, completed_endBlocksStep] at h)
    all_goals (try (repeat' split at h))
    all_goals (try (first | exact Or.inl h
                          | exact (completed_alarmRearm_le _ _ _ _ h).imp id (fun h' => ⟨h', hw⟩)
                          | exact Or.inl (completed_callPrepare_le _ _ _ _ h)
                          | exact Or.inl ((completed_endBlockStep _ _ _).symm.trans h)
                          | exact Or.inl ((completed_endBlocksStep _ _ _).symm.trans h)
                          | (rename_i hk; exact Or.inr ⟨hk, hw⟩)
                          | (simp_all; done)))

theorem completed_callFinish (s : St) (n m k : Nat) (hn : k ≠ n) (hm : k ≠ m) :
    ((callFinish s n m).rt k).completed = (s.rt k).completed := by
  unfold callFinish
  simp only [rt_setRt, rt_finishNode, getRt_eq, hn, hm, if_false]

theorem unwind_completed (s : St) (stack : List Frame) (k : Nat) :
    (((unwind s stack).1).rt k).completed = (s.rt k).completed := by
  induction stack with
  | nil => rfl
  | cons f rest ih =>
    cases f <;> simp only [unwind, ih]
    simp only [rt_setRt]
    split
    · rename_i h; subst h; rfl
    · rfl

/-- The `completed` flag of a `Wait` node flips only in its loop frame, in a step that found the
    deadline reached (`¬ tick_time < duration_end_time`) or the node forced — or in the completion step
    of a `Call macro` whose frame names that node (excluded for reachable states by `StackOk`). -/
theorem stepFrame_completed_wait (p : Prog) (s : St) (f : Frame) (below : List Frame) (k : Nat)
    (hw : isWait p k = true) (h0 : (s.rt k).completed = false)
    (h : ((outState (stepFrame p s f below)).rt k).completed = true) :
    (∃ endT, f = .waitLoop k endT ∧ (endT ≤ s.tickTime ∨ (s.rt k).forced = true)) ∨
    (∃ n m, f = .callRet n m ∧ (k = n ∨ k = m)) := by
  cases f with
  | body n pc =>
    rcases stepBody_completed p s n pc below k h with h1 | ⟨e, hk⟩
    · rw [h0] at h1; cases h1
    · subst e; rw [hw] at hk; cases hk
  | waitLoop n endT =>
    left
    unfold stepFrame at h
    simp only [] at h
    by_cases hc : (decide (s.tickTime < endT) && !(getRt s n).forced) = true
    · rw [if_pos hc] at h
      exfalso
      repeat' split at h
      all_goals (simp only [outState] at h; rw [h0] at h; cases h)
    · rw [if_neg hc] at h
      simp only [outState, rt_finishNode] at h
      by_cases e : k = n
      · subst e
        refine ⟨endT, rfl, ?_⟩
        simp only [getRt_eq, Bool.and_eq_true, decide_eq_true_eq, Bool.not_eq_true', not_and,
          Bool.not_eq_false] at hc
        by_cases hlt : s.tickTime < endT
        · exact Or.inr (hc hlt)
        · exact Or.inl (Rat.not_lt.mp hlt)
      · rw [if_neg e, h0] at h; cases h
  | callRet n m =>
    right
    refine ⟨n, m, rfl, ?_⟩
    by_cases hn : k = n
    · exact Or.inl hn
    · by_cases hm : k = m
      · exact Or.inr hm
      · exfalso
        unfold stepFrame at h
        simp only [outState] at h
        rw [completed_callFinish s n m k hn hm, h0] at h; cases h
  | _ =>
    exfalso
    unfold stepFrame at h
    simp only [] at h
    repeat' split at h
    all_goals (try simp only [outState, rt_setRt, rt_emit, rt_finishNode, rt_markFailed, rt_markCompleted,
      getRt_eq] at h)
    all_goals (try (repeat' split at h))
    all_goals (try subst_vars)
    all_goals (first | (rw [h0] at h; cases h) | (simp_all; done))

theorem stepGen_completed_wait (p : Prog) (s : St) (stack : List Frame) (k : Nat)
    (hw : isWait p k = true) (h0 : (s.rt k).completed = false)
    (h : (((stepGen p s stack).1).rt k).completed = true) :
    (∃ endT, stack.head? = some (.waitLoop k endT) ∧ (endT ≤ s.tickTime ∨ (s.rt k).forced = true)) ∨
    (∃ n m, stack.head? = some (.callRet n m) ∧ (k = n ∨ k = m)) := by
  unfold stepGen at h
  cases stack with
  | nil => simp only [] at h; rw [h0] at h; cases h
  | cons f below =>
    simp only [] at h
    have := stepFrame_completed_wait p s f below k hw h0
    cases hs : stepFrame p s f below with
    | next s' top sig =>
      rw [hs] at h this
      rcases this h with ⟨endT, e, hg⟩ | ⟨n, m, e, hg⟩
      · exact Or.inl ⟨endT, by rw [e]; rfl, hg⟩
      · exact Or.inr ⟨n, m, by rw [e]; rfl, hg⟩
    | raise s' =>
      rw [hs] at h this
      simp only [] at h
      rw [unwind_completed] at h
      rcases this h with ⟨endT, e, hg⟩ | ⟨n, m, e, hg⟩
      · exact Or.inl ⟨endT, by rw [e]; rfl, hg⟩
      · exact Or.inr ⟨n, m, by rw [e]; rfl, hg⟩

/-! ## well-formed generator stacks -/

def FrameOk (p : Prog) : Frame → Prop
  | .callRet n m => isCall p n = true ∧ isMacro p m = true
  | _ => True

def StackOk (p : Prog) (st : List Frame) : Prop := ∀ f ∈ st, FrameOk p f

/-- Every registered macro is a `Macro` node and every stored generator stack is well formed. -/
def GensOk (p : Prog) (s : St) : Prop :=
  (∀ e ∈ s.macros, isMacro p e.2 = true) ∧ ∀ g ∈ s.gens, StackOk p g.stack

theorem ok_of_eq {p : Prog} {s s' : St} (hm : s'.macros = s.macros) (hg : s'.gens = s.gens)
    (h : GensOk p s) : GensOk p s' := by
  unfold GensOk; rw [hm, hg]; exact h

theorem ok_setRt {p : Prog} {s : St} (n : Nat) (f : NodeRt → NodeRt) (h : GensOk p s) : GensOk p (setRt s n f) := h
theorem ok_emit {p : Prog} {s : St} (e : Event) (h : GensOk p s) : GensOk p (emit s e) := h

theorem ok_markCompleted {p : Prog} {s : St} (n : Nat) (h : GensOk p s) : GensOk p (markCompleted s n) := by
  unfold markCompleted; split <;> exact h

theorem ok_finishNode {p : Prog} {s : St} (n : Nat) (h : GensOk p s) : GensOk p (finishNode s n) := by
  unfold finishNode; exact ok_setRt _ _ (ok_markCompleted n h)

theorem ok_markFailed {p : Prog} {s : St} (n : Nat) (h : GensOk p s) : GensOk p (markFailed s n) := h

theorem ok_tryActivate {p : Prog} {s : St} (n : Nat) (c : Cond) (h : GensOk p s) : GensOk p (tryActivate s n c) := by
  unfold tryActivate; simp only []; split
  · exact h
  · split <;> exact h

theorem stackOk_wrapEnter (p : Prog) (n : Nat) : StackOk p [.wrapEnter n] := by
  intro f hf; simp at hf; subst hf; trivial

theorem ok_addGen {p : Prog} {s : St} (h : GensOk p s) (g : Gen) (hg : StackOk p g.stack) (s' : St)
    (hm : s'.macros = s.macros) (hgens : s'.gens = s.gens ++ [g]) : GensOk p s' := by
  unfold GensOk
  rw [hm, hgens]
  refine ⟨h.1, ?_⟩
  intro g' hg'
  rcases List.mem_append.mp hg' with h1 | h1
  · exact h.2 g' h1
  · simp at h1; subst h1; exact hg

theorem ok_registerInterrupt {p : Prog} {s : St} (n : Nat) (h : GensOk p s) : GensOk p (registerInterrupt p s n) := by
  unfold registerInterrupt
  simp only []
  split <;> exact ok_addGen h ⟨s.nextGid, n, [.wrapEnter n]⟩ (stackOk_wrapEnter p n) _ rfl rfl

theorem ok_unregisterInterrupt {p : Prog} {s : St} (n : Nat) (h : GensOk p s) : GensOk p (unregisterInterrupt s n) := h

theorem ok_foldl {α : Type} {p : Prog} (g : St → α → St) (hg : ∀ s a, GensOk p s → GensOk p (g s a))
    (l : List α) (s : St) (h : GensOk p s) : GensOk p (l.foldl g s) := by
  induction l generalizing s with
  | nil => exact h
  | cons a l ih => exact ih _ (hg s a h)

theorem ok_abort {p : Prog} {s : St} (b : Nat) (h : GensOk p s) : GensOk p (abortBlockInterrupts p s b) := by
  unfold abortBlockInterrupts
  apply ok_foldl _ _ _ _ h
  intro s a hs; split <;> exact hs

theorem ok_endOneBlock {p : Prog} {s : St} (old : Nat) (nm : String) (h : GensOk p s) :
    GensOk p (endOneBlock p s old nm) := by
  unfold endOneBlock; exact ok_abort (s := setRt (emit s _) old _) old h

theorem ok_endBlockStep {p : Prog} {s : St} (h : GensOk p s) : GensOk p (endBlockStep p s) := by
  unfold endBlockStep; split
  · exact h
  · exact ok_endOneBlock _ _ h

theorem ok_endBlocksStep {p : Prog} {s : St} (h : GensOk p s) : GensOk p (endBlocksStep p s) := by
  unfold endBlocksStep
  simp only []
  exact ok_foldl (p := p) _ (fun s a hs => ok_endOneBlock _ _ hs) _ s h

theorem ok_resetSubtree {p : Prog} {s : St} (n : Nat) (h : GensOk p s) : GensOk p (resetSubtree p s n) := by
  unfold resetSubtree
  exact ok_foldl (p := p) (fun s k => setRt s k resetOne) (fun s a hs => hs) _ s h

theorem ok_alarmRearm {p : Prog} {s : St} (n : Nat) (h : GensOk p s) : GensOk p (alarmRearm p s n) := by
  unfold alarmRearm
  exact ok_registerInterrupt n (ok_resetSubtree n (ok_unregisterInterrupt n (ok_setRt n _ (ok_emit _ (ok_markCompleted n h)))))

theorem ok_callPrepare {p : Prog} {s : St} (m : Nat) (h : GensOk p s) : GensOk p (callPrepare p s m) := by
  unfold callPrepare; simp only []; split
  · exact ok_setRt _ _ (ok_resetSubtree m h)
  · exact h

theorem ok_callFinish {p : Prog} {s : St} (n m : Nat) (h : GensOk p s) : GensOk p (callFinish s n m) := by
  unfold callFinish
  exact ok_setRt _ _ (ok_setRt _ _ (ok_finishNode n (ok_setRt _ _ h)))

theorem ok_unwind {p : Prog} (s : St) (stack : List Frame) (h : GensOk p s) : GensOk p (unwind s stack).1 := by
  induction stack with
  | nil => exact h
  | cons f rest ih => cases f <;> simp only [unwind] <;> first | exact ih | exact h

theorem mem_dictSet {α β : Type} [DecidableEq α] (d : List (α × β)) (k : α) (v : β) (e : α × β)
    (he : e ∈ dictSet d k v) : e ∈ d ∨ e = (k, v) := by
  unfold dictSet at he
  split at he
  · rcases List.mem_map.mp he with ⟨x, hx, hxe⟩
    split at hxe
    · exact Or.inr hxe.symm
    · subst hxe; exact Or.inl hx
  · rcases List.mem_append.mp he with h | h
    · exact Or.inl h
    · simp at h; exact Or.inr h

theorem ok_macroReg {p : Prog} {s : St} (name : String) (n : Nat) (hn : isMacro p n = true) (h : GensOk p s) :
    GensOk p { s with macros := dictSet s.macros name n } := by
  refine ⟨?_, h.2⟩
  intro e he
  rcases mem_dictSet _ _ _ _ he with h1 | h1
  · exact h.1 e h1
  · subst h1; exact hn

theorem mem_of_lookup {α β : Type} [BEq α] [LawfulBEq α] (d : List (α × β)) (k : α) (v : β)
    (h : d.lookup k = some v) : (k, v) ∈ d := by
  induction d with
  | nil => simp [List.lookup] at h
  | cons x xs ih =>
    rcases x with ⟨a, b⟩
    simp only [List.lookup] at h
    split at h
    · rename_i hk
      have : k = a := by simpa using hk
      cases h; subst this; simp
    · exact List.mem_cons_of_mem _ (ih h)

macro "ok_peel" : tactic => `(tactic| first
  | with_reducible assumption
  | with_reducible apply ok_emit
  | with_reducible apply ok_setRt
  | with_reducible apply ok_finishNode
  | with_reducible apply ok_markFailed
  | with_reducible apply ok_markCompleted
  | with_reducible apply ok_alarmRearm
  | with_reducible apply ok_registerInterrupt
  | with_reducible apply ok_unregisterInterrupt
  | with_reducible apply ok_resetSubtree
  | with_reducible apply ok_tryActivate
  | with_reducible apply ok_callPrepare
  | with_reducible apply ok_callFinish
  | with_reducible apply ok_endBlockStep
  | with_reducible apply ok_endBlocksStep
  | (apply ok_macroReg _ _ (by simp [isMacro, *]))
  | assumption)

theorem stepBody_ok (p : Prog) (s : St) (n pc : Nat) (below : List Frame) (h : GensOk p s) :
    GensOk p (outState (stepBody p s n pc below)) := by
  unfold stepBody
  simp only []
  split
  all_goals (repeat' split)
  all_goals (simp only [outState])
  all_goals (repeat ok_peel)

/-- The frames a body pushes are well formed (`callRet n m` only for a Call node and a registered macro). -/
theorem stepBody_top (p : Prog) (s : St) (n pc : Nat) (below : List Frame) (h : GensOk p s)
    (s' : St) (top : List Frame) (sig : Signal) (he : stepBody p s n pc below = .next s' top sig) :
    StackOk p top := by
  unfold stepBody at he
  simp only [] at he
  split at he
  all_goals (repeat' split at he)
  all_goals (first | (cases he; done) | skip)
  all_goals (injection he with _ htop _; subst htop)
  all_goals (intro f hf; simp only [List.mem_cons, List.mem_nil_iff, or_false, List.not_mem_nil] at hf)
  all_goals (first | (cases hf; done) | (rcases hf with rfl | rfl <;> first | trivial | skip) | (subst hf; first | trivial | skip) | skip)
  all_goals (try trivial)
  -- the `callRet` frame of `visit_CallMacroNode`
  all_goals (refine ⟨by simp [isCall, *], ?_⟩)
  all_goals (rename_i hl _ _ _ _ _ _; exact h.1 _ (mem_of_lookup _ _ _ hl))

theorem stackOk_append {p : Prog} {a b : List Frame} (ha : StackOk p a) (hb : StackOk p b) : StackOk p (a ++ b) := by
  intro f hf
  rcases List.mem_append.mp hf with h | h
  · exact ha f h
  · exact hb f h

theorem stackOk_tail {p : Prog} {f : Frame} {b : List Frame} (h : StackOk p (f :: b)) : StackOk p b :=
  fun g hg => h g (List.mem_cons_of_mem _ hg)

theorem stackOk_unwind {p : Prog} (s : St) (stack : List Frame) (h : StackOk p stack) :
    StackOk p (unwind s stack).2 := by
  induction stack with
  | nil => exact h
  | cons f rest ih =>
    cases f <;> simp only [unwind] <;> first | exact ih (stackOk_tail h) | exact stackOk_tail h

theorem stepFrame_ok (p : Prog) (s : St) (f : Frame) (below : List Frame) (h : GensOk p s) :
    GensOk p (outState (stepFrame p s f below)) := by
  cases f with
  | body n pc => exact stepBody_ok p s n pc below h
  | _ =>
    unfold stepFrame
    simp only []
    repeat' split
    all_goals (simp only [outState])
    all_goals (repeat ok_peel)

theorem stepFrame_top (p : Prog) (s : St) (f : Frame) (below : List Frame) (h : GensOk p s)
    (s' : St) (top : List Frame) (sig : Signal) (he : stepFrame p s f below = .next s' top sig) :
    StackOk p top := by
  cases f with
  | body n pc => exact stepBody_top p s n pc below h s' top sig he
  | _ =>
    unfold stepFrame at he
    simp only [] at he
    repeat' split at he
    all_goals (first | (cases he; done) | skip)
    all_goals (injection he with _ htop _; subst htop)
    all_goals (intro f hf; simp only [List.mem_cons, List.mem_nil_iff, or_false, List.not_mem_nil] at hf)
    all_goals (first | (cases hf; done) | (rcases hf with rfl | rfl <;> trivial) | (subst hf; trivial))

/-- A micro-step keeps macros, stored generator stacks and the running stack well formed. -/
theorem stepGen_ok (p : Prog) (s : St) (stack : List Frame) (h : GensOk p s) (hs : StackOk p stack) :
    GensOk p (stepGen p s stack).1 ∧ StackOk p (stepGen p s stack).2.1 := by
  unfold stepGen
  cases stack with
  | nil => exact ⟨h, hs⟩
  | cons f below =>
    simp only []
    have h1 := stepFrame_ok p s f below h
    have h2 := stepFrame_top p s f below h
    cases hsf : stepFrame p s f below with
    | next s' top sig =>
      rw [hsf] at h1
      exact ⟨h1, stackOk_append (h2 s' top sig hsf) (stackOk_tail hs)⟩
    | raise s' =>
      rw [hsf] at h1
      simp only [outState] at h1
      exact ⟨ok_unwind s' below h1, stackOk_unwind s' below (stackOk_tail hs)⟩

/-! ## a tick as a chain of micro-steps that maintain an invariant -/

/-- As `Within`, but every micro-step is taken in a state / on a stack satisfying `I`. -/
inductive WithinI (p : Prog) (I : St → List Frame → Prop) : St → St → Prop
  | refl (s : St) : WithinI p I s s
  | step (s s1 : St) (stack : List Frame) : WithinI p I s s1 → I s1 stack →
      WithinI p I s (stepGen p s1 stack).1
  | admin (s s1 s2 : St) : WithinI p I s s1 → s2.rt = s1.rt → clk s2 = clk s1 → s2.blockTag = s1.blockTag →
      s2.baseFactor = s1.baseFactor → s2.events = s1.events → WithinI p I s s2

theorem WithinI.toWithin {p : Prog} {I : St → List Frame → Prop} {s s' : St} (h : WithinI p I s s') :
    Within p s s' := by
  induction h with
  | refl => exact Within.refl _
  | step s1 stack _ _ ih => exact Within.tail _ _ _ ih (Micro.step s1 stack)
  | admin s1 s2 _ h1 h2 h3 h4 h5 ih => exact Within.tail _ _ _ ih (Micro.admin _ _ h1 h2 h3 h4 h5)

theorem WithinI.trans {p : Prog} {I : St → List Frame → Prop} {s1 s2 s3 : St}
    (h12 : WithinI p I s1 s2) (h23 : WithinI p I s2 s3) : WithinI p I s1 s3 := by
  induction h23 with
  | refl => exact h12
  | step sa stack _ hi ih => exact WithinI.step _ _ _ ih hi
  | admin sa sb _ h1 h2 h3 h4 h5 ih => exact WithinI.admin _ _ _ ih h1 h2 h3 h4 h5

/-- What an invariant (`G` on states with their stored generator stacks, `R` on the running stack) must
    satisfy to be carried through `PInterpreter.tick`. -/
structure TickInv (p : Prog) (G : St → Prop) (R : St → List Frame → Prop) : Prop where
  step : ∀ s stack, G s → R s stack → G (stepGen p s stack).1 ∧ R (stepGen p s stack).1 (stepGen p s stack).2.1
  load : ∀ s g, G s → g ∈ s.gens → R s g.stack
  store : ∀ s gid stack, G s → R s stack → G (setGenStack s gid stack)
  flag : ∀ s b, G s → G { s with inInterrupt := b }
  prune : ∀ s (f : Gen → Bool), G s → G { s with gens := s.gens.filter f }
  start : ∀ s i, G s → G (tickStart s i)

section chain
variable {p : Prog} {G : St → Prop} {R : St → List Frame → Prop}

theorem withinI_runGen (T : TickInv p G R) (fuel : Nat) (s : St) (stack : List Frame)
    (hG : G s) (hR : R s stack) :
    WithinI p (fun s st => G s ∧ R s st) s (runGen p fuel s stack).1 ∧ G (runGen p fuel s stack).1 ∧
      R (runGen p fuel s stack).1 (runGen p fuel s stack).2.1 := by
  induction fuel generalizing s stack with
  | zero => exact ⟨WithinI.refl s, hG, hR⟩
  | succ fuel ih =>
    unfold runGen
    have h1 : WithinI p (fun s st => G s ∧ R s st) s (stepGen p s stack).1 :=
      WithinI.step _ _ _ (WithinI.refl s) ⟨hG, hR⟩
    have h2 := T.step s stack hG hR
    rcases hs : stepGen p s stack with ⟨s1, stack1, sig⟩
    rw [hs] at h1 h2
    cases sig
    · have := ih s1 stack1 h2.1 h2.2
      exact ⟨h1.trans this.1, this.2⟩
    · exact ⟨h1, h2⟩
    · exact ⟨h1, h2⟩

theorem getGen_mem (s : St) (gid : Nat) (g : Gen) (h : getGen s gid = some g) : g ∈ s.gens := by
  unfold getGen at h
  exact List.mem_of_find?_eq_some h

theorem withinI_runGid (T : TickInv p G R) (fuel : Nat) (s : St) (gid : Nat) (hG : G s) :
    WithinI p (fun s st => G s ∧ R s st) s (runGid p fuel s gid).1 ∧ G (runGid p fuel s gid).1 := by
  unfold runGid
  split
  · exact ⟨WithinI.refl s, hG⟩
  · rename_i g hg
    have h1 := withinI_runGen T fuel s g.stack hG (T.load s g hG (getGen_mem s gid g hg))
    rcases hr : runGen p fuel s g.stack with ⟨s1, stack1, ok⟩
    rw [hr] at h1
    exact ⟨WithinI.admin _ _ _ h1.1 rfl rfl rfl rfl rfl, T.store s1 gid stack1 h1.2.1 h1.2.2⟩

theorem withinI_foldInterrupts (T : TickInv p G R) (l : List Nat) (acc : St × Bool) (hG : G acc.1) :
    WithinI p (fun s st => G s ∧ R s st) acc.1 (l.foldl (fun (acc : St × Bool) gid =>
      let r := runGid p microFuel { acc.1 with inInterrupt := true } gid
      ({ r.1 with inInterrupt := false }, acc.2 && r.2)) acc).1 ∧
    G (l.foldl (fun (acc : St × Bool) gid =>
      let r := runGid p microFuel { acc.1 with inInterrupt := true } gid
      ({ r.1 with inInterrupt := false }, acc.2 && r.2)) acc).1 := by
  induction l generalizing acc with
  | nil => exact ⟨WithinI.refl _, hG⟩
  | cons g l ih =>
    simp only [List.foldl]
    have a1 : WithinI p (fun s st => G s ∧ R s st) acc.1 { acc.1 with inInterrupt := true } :=
      WithinI.admin _ _ _ (WithinI.refl _) rfl rfl rfl rfl rfl
    have hG1 : G { acc.1 with inInterrupt := true } := T.flag _ true hG
    have a2 := withinI_runGid T microFuel { acc.1 with inInterrupt := true } g hG1
    have a3 : WithinI p (fun s st => G s ∧ R s st) acc.1
        { (runGid p microFuel { acc.1 with inInterrupt := true } g).1 with inInterrupt := false } :=
      WithinI.admin _ _ _ (a1.trans a2.1) rfl rfl rfl rfl rfl
    have hG3 : G { (runGid p microFuel { acc.1 with inInterrupt := true } g).1 with inInterrupt := false } :=
      T.flag _ false a2.2
    have := ih ({ (runGid p microFuel { acc.1 with inInterrupt := true } g).1 with inInterrupt := false },
      acc.2 && (runGid p microFuel { acc.1 with inInterrupt := true } g).2) hG3
    exact ⟨a3.trans this.1, this.2⟩

/-- A tick is a chain of micro-steps each taken under the invariant, and re-establishes it. -/
theorem tick_withinI (T : TickInv p G R) (s : St) (i : TickIn) (hG : G s) :
    WithinI p (fun s st => G s ∧ R s st) (tickStart s i) (tick p s i).1 ∧ G (tick p s i).1 := by
  have hG0 : G (tickStart s i) := T.start s i hG
  have h0 := withinI_runGid T microFuel (tickStart s i) 0 hG0
  have h1 := withinI_foldInterrupts T ((runGid p microFuel (tickStart s i) 0).1.imap.map (·.2))
    (runGid p microFuel (tickStart s i) 0) h0.2
  exact ⟨WithinI.admin _ _ _ (h0.1.trans h1.1) rfl rfl rfl rfl rfl, T.prune _ _ h1.2⟩

end chain

/-! ### instance: well-formed stacks -/

theorem ok_setGenStack {p : Prog} {s : St} (gid : Nat) (stack : List Frame) (h : GensOk p s) (hst : StackOk p stack) :
    GensOk p (setGenStack s gid stack) := by
  refine ⟨h.1, ?_⟩
  intro g hg
  unfold setGenStack at hg
  simp only [List.mem_map] at hg
  rcases hg with ⟨g0, hg0, e⟩
  split at e
  · subst e; exact hst
  · subst e; exact h.2 g0 hg0

theorem tickInv_ok (p : Prog) : TickInv p (GensOk p) (fun _ st => StackOk p st) where
  step := fun s stack hG hR => stepGen_ok p s stack hG hR
  load := fun s g hG hg => hG.2 g hg
  store := fun s gid stack hG hR => ok_setGenStack gid stack hG hR
  flag := fun s b hG => hG
  prune := fun s f hG => ⟨hG.1, fun g hg => hG.2 g (List.mem_filter.mp hg).1⟩
  start := fun s i hG => hG

/-- **Guard for Wait (inside a tick).** If a `Wait` node's `completed` flag is false at `s` and true at a
    later point of the tick, then in between a micro-step ran the node's loop frame `waitLoop k endT`
    in a state `s1` with `endT ≤ tick_time` or `forced`; `I` held for that state and stack. -/
theorem withinI_wait (p : Prog) {I : St → List Frame → Prop}
    (hI : ∀ s st, I s st → StackOk p st) {s s' : St} (h : WithinI p I s s') (k : Nat)
    (hw : isWait p k = true) (h0 : (s.rt k).completed = false) (h1 : (s'.rt k).completed = true) :
    ∃ s1 endT below, WithinI p I s s1 ∧ I s1 (.waitLoop k endT :: below) ∧
      (endT ≤ s1.tickTime ∨ (s1.rt k).forced = true) := by
  induction h with
  | refl => rw [h0] at h1; cases h1
  | step sa stack hwi hi ih =>
    by_cases hs : (sa.rt k).completed = true
    · exact ih hs
    · have hs0 : (sa.rt k).completed = false := by simpa using hs
      have hst := hI _ _ hi
      rcases stepGen_completed_wait p sa stack k hw hs0 h1 with ⟨endT, hh, hg⟩ | ⟨n, m, hh, hkm⟩
      · cases stack with
        | nil => cases hh
        | cons f below =>
          simp only [List.head?, Option.some.injEq] at hh
          subst hh
          exact ⟨sa, endT, below, hwi, hi, hg⟩
      · exfalso
        cases stack with
        | nil => cases hh
        | cons f below =>
          simp only [List.head?, Option.some.injEq] at hh
          subst hh
          have hf : FrameOk p (.callRet n m) := hst _ (List.mem_cons_self ..)
          rcases hkm with e | e
          · subst e
            have := hf.1
            unfold isWait at hw; unfold isCall at this
            split at hw <;> simp_all
          · subst e
            have := hf.2
            unfold isWait at hw; unfold isMacro at this
            split at hw <;> simp_all
  | admin sa sb hwi hrt _ _ _ _ ih =>
    rw [hrt] at h1; exact ih h1

end OPM.Interp
