import OPM.Lemmas.InterpC04Runs
set_option linter.unusedSimpArgs false
set_option linter.unusedVariables false
/-!
C04 lemmas: registrations.  `rgCount s w` counts the `register w` events of the tick's event log (one per
`_register_interrupt(w)`, i.e. per generator created for `w`).  For a Watch that no reset and no block end can
unregister (`stable`, `noBlockAbove`), `interrupt_registered` never goes back to false, and a registration
needs it false: the potential `rgCount + [not registered]` never grows, so over a whole run the Watch is
registered at most once.
-/
namespace OPM.Interp

/-- number of `register w` events in the tick's event log -/
def rgCount (s : St) (w : Nat) : Nat := s.events.count (Event.register w)

@[simp] theorem rg_setRt (s : St) (n : Nat) (f : NodeRt → NodeRt) (w : Nat) :
    rgCount (setRt s n f) w = rgCount s w := rfl

theorem rg_emit (s : St) (e : Event) (w : Nat) :
    rgCount (emit s e) w = rgCount s w + (if e = Event.register w then 1 else 0) := by
  simp only [rgCount, events_emit, List.count_cons]
  by_cases h : e = Event.register w <;> simp [h]

@[simp] theorem rg_emit_ne (s : St) (e : Event) (w : Nat) (h : ∀ k, e ≠ Event.register k) :
    rgCount (emit s e) w = rgCount s w := by
  rw [rg_emit]; simp [h w]

@[simp] theorem rg_markCompleted (s : St) (n w : Nat) : rgCount (markCompleted s n) w = rgCount s w := by
  unfold markCompleted
  simp only []
  split <;> simp [rg_emit]

@[simp] theorem rg_finishNode (s : St) (n w : Nat) : rgCount (finishNode s n) w = rgCount s w := by
  unfold finishNode; simp

@[simp] theorem rg_markFailed (s : St) (n w : Nat) : rgCount (markFailed s n) w = rgCount s w := by
  unfold markFailed; simp [rg_emit]

@[simp] theorem rg_tryActivate (s : St) (n : Nat) (c : Cond) (w : Nat) :
    rgCount (tryActivate s n c) w = rgCount s w := by
  unfold tryActivate
  simp only []
  repeat' split
  all_goals rfl

@[simp] theorem rg_unregisterInterrupt (s : St) (n w : Nat) :
    rgCount (unregisterInterrupt s n) w = rgCount s w := by
  unfold unregisterInterrupt
  simp [rg_emit, rgCount, emit, setRt]

theorem rg_foldl_keep {α : Type} (g : St → α → St) (w : Nat)
    (hg : ∀ s a, rgCount (g s a) w = rgCount s w) (l : List α) (s : St) :
    rgCount (l.foldl g s) w = rgCount s w := by
  induction l generalizing s with
  | nil => rfl
  | cons a l ih => simp [List.foldl, ih, hg]

@[simp] theorem rg_abort (p : Prog) (s : St) (b w : Nat) :
    rgCount (abortBlockInterrupts p s b) w = rgCount s w := by
  unfold abortBlockInterrupts
  apply rg_foldl_keep
  intro s a
  split <;> simp

@[simp] theorem rg_resetSubtree (p : Prog) (s : St) (n w : Nat) :
    rgCount (resetSubtree p s n) w = rgCount s w := by
  unfold resetSubtree
  apply rg_foldl_keep
  intro s a; rfl

@[simp] theorem rg_endOneBlock (p : Prog) (s : St) (old : Nat) (nm : String) (w : Nat) :
    rgCount (endOneBlock p s old nm) w = rgCount s w := by
  unfold endOneBlock
  simp [rg_emit]

@[simp] theorem rg_endBlockStep (p : Prog) (s : St) (w : Nat) :
    rgCount (endBlockStep p s) w = rgCount s w := by
  unfold endBlockStep
  split
  · rfl
  · simp only [rg_endOneBlock]; rfl

@[simp] theorem rg_endBlocksStep (p : Prog) (s : St) (w : Nat) :
    rgCount (endBlocksStep p s) w = rgCount s w := by
  unfold endBlocksStep
  simp only []
  show rgCount (List.foldl _ s _) w = _
  apply rg_foldl_keep
  intro s a; simp

@[simp] theorem rg_callPrepare (p : Prog) (s : St) (m w : Nat) :
    rgCount (callPrepare p s m) w = rgCount s w := by
  unfold callPrepare
  simp only []
  split <;> simp

@[simp] theorem rg_callFinish (s : St) (n m w : Nat) :
    rgCount (callFinish s n m) w = rgCount s w := by
  unfold callFinish
  simp



theorem rg_registerInterrupt (p : Prog) (s : St) (n w : Nat) :
    rgCount (registerInterrupt p s n) w = rgCount s w + (if n = w then 1 else 0) := by
  unfold registerInterrupt
  simp only []
  split <;> by_cases h : n = w <;> simp [rg_emit, rgCount, emit, setRt, h]

theorem rg_alarmRearm (p : Prog) (s : St) (n w : Nat) :
    rgCount (alarmRearm p s n) w = rgCount s w + (if n = w then 1 else 0) := by
  unfold alarmRearm
  rw [rg_registerInterrupt]
  simp [rg_emit]

/-! ### where a Watch is registered, and that it stays registered -/

def isWatch (p : Prog) (n : Nat) : Bool :=
  match (node p n).kind with | .watch _ => true | _ => false

/-- no Block has `w` below it -/
def noBlockAbove (p : Prog) (w : Nat) : Bool :=
  (List.range p.size).all (fun b => !isBlock p b || !(descendants p b).contains w)

theorem noBlockAbove_spec (p : Prog) (w : Nat) (h : noBlockAbove p w = true) (b : Nat) (hb : isBlock p b = true) :
    (descendants p b).contains w = false := by
  by_cases hlt : b < p.size
  · have := List.all_eq_true.mp h b (List.mem_range.mpr hlt)
    simpa [hb] using this
  · unfold isBlock at hb
    rw [node_default p b hlt] at hb
    cases hb

theorem c04_mem_insertDesc (p : Prog) (x y : Nat) (l : List Nat) : y ∈ insertDesc p x l → y = x ∨ y ∈ l := by
  induction l with
  | nil => simp [insertDesc]
  | cons z zs ih =>
    simp only [insertDesc]
    split
    · simp
    · simp only [List.mem_cons]
      rintro (h | h)
      · exact Or.inr (Or.inl h)
      · rcases ih h with h | h
        · exact Or.inl h
        · exact Or.inr (Or.inr h)

theorem locked_isBlock (p : Prog) (s : St) (b : Nat) (h : b ∈ lockedBlocks p s) : isBlock p b = true := by
  unfold lockedBlocks at h
  simp only [] at h
  have key : ∀ (bs acc : List Nat), b ∈ bs.foldl (fun acc x => insertDesc p x acc) acc → b ∈ bs ∨ b ∈ acc := by
    intro bs
    induction bs with
    | nil => intro acc h; exact Or.inr h
    | cons x bs ih =>
      intro acc h
      simp only [List.foldl] at h
      rcases ih _ h with h | h
      · exact Or.inl (List.mem_cons_of_mem _ h)
      · rcases c04_mem_insertDesc p x b acc h with h | h
        · exact Or.inl (by rw [h]; exact List.mem_cons_self ..)
        · exact Or.inr h
  rcases key _ _ h with h | h
  · simp only [List.mem_filter, Bool.and_eq_true] at h
    exact h.2.1.2
  · cases h

theorem rt_abort_notDesc (p : Prog) (s : St) (b k : Nat) (hd : (descendants p b).contains k = false) :
    (abortBlockInterrupts p s b).rt k = s.rt k := by
  unfold abortBlockInterrupts
  have key : ∀ (l : List (Nat × Nat)) (s : St),
      (l.foldl (fun s e =>
        if (descendants p b).contains e.1 then
          unregisterInterrupt (setRt s e.1 (fun r => { r with childrenComplete := true })) e.1
        else s) s).rt k = s.rt k := by
    intro l
    induction l with
    | nil => intro s; rfl
    | cons x l ih =>
      intro s
      simp only [List.foldl]
      rw [ih]
      split
      · rename_i hx
        simp only [rt_unregisterInterrupt, rt_setRt]
        have : ¬ k = x.1 := by intro e; rw [← e, hd] at hx; cases hx
        simp [this]
      · rfl
  exact key s.imap s

theorem ir_endOneBlock_keep (p : Prog) (s : St) (old : Nat) (nm : String) (k : Nat)
    (hd : (descendants p old).contains k = false) (h : (s.rt k).interruptRegistered = true) :
    ((endOneBlock p s old nm).rt k).interruptRegistered = true := by
  unfold endOneBlock
  simp only [rt_emit]
  rw [rt_abort_notDesc p _ old k hd]
  simp only [rt_setRt, rt_emit]
  split
  · rename_i e; subst e; exact h
  · exact h

theorem ir_endBlockStep_keep (p : Prog) (s : St) (k : Nat) (hnb : noBlockAbove p k = true)
    (h : (s.rt k).interruptRegistered = true) : ((endBlockStep p s).rt k).interruptRegistered = true := by
  unfold endBlockStep
  split
  · exact h
  · rename_i old rest hl
    apply ir_endOneBlock_keep
    · exact noBlockAbove_spec p k hnb old (locked_isBlock p s old (by rw [hl]; exact List.mem_cons_self ..))
    · exact h

theorem ir_endBlocksStep_keep (p : Prog) (s : St) (k : Nat) (hnb : noBlockAbove p k = true)
    (h : (s.rt k).interruptRegistered = true) : ((endBlocksStep p s).rt k).interruptRegistered = true := by
  unfold endBlocksStep
  simp only []
  have key : ∀ (l : List (Nat × Nat)) (g : Nat × Nat → String) (s' : St),
      (∀ x ∈ l, isBlock p x.1 = true) → (s'.rt k).interruptRegistered = true →
      ((l.foldl (fun s x => endOneBlock p s x.1 (g x)) s').rt k).interruptRegistered = true := by
    intro l g
    induction l with
    | nil => intro s' _ h; exact h
    | cons x l ih =>
      intro s' hl h
      simp only [List.foldl]
      apply ih _ (fun y hy => hl y (List.mem_cons_of_mem _ hy))
      exact ir_endOneBlock_keep p s' x.1 (g x) k
        (noBlockAbove_spec p k hnb x.1 (hl x (List.mem_cons_self ..))) h
  apply key _ (fun x => if x.2 + 1 < (lockedBlocks p s).length - 1 then
      ((lockedBlocks p s)[x.2 + 1]?.map (blockName p)).getD "" else "") s _ h
  intro x hx
  apply locked_isBlock p s
  have : x.1 ∈ (lockedBlocks p s).zipIdx.map (·.1) := List.mem_map.mpr ⟨x, hx, rfl⟩
  rwa [List.zipIdx_map_fst] at this

theorem ir_alarmRearm_notMem (p : Prog) (s : St) (n k : Nat) (h : k ∉ n :: descendants p n) :
    ((alarmRearm p s n).rt k).interruptRegistered = (s.rt k).interruptRegistered := by
  have hne : k ≠ n := by intro e; subst e; exact h (List.mem_cons_self ..)
  unfold alarmRearm
  simp only [rt_registerInterrupt, hne, if_false, rt_resetSubtree_notMem _ _ _ _ h, rt_unregisterInterrupt, rt_setRt,
    rt_emit, rt_markCompleted, false_and]

theorem ir_callFinish (s : St) (n m k : Nat) :
    ((callFinish s n m).rt k).interruptRegistered = (s.rt k).interruptRegistered := by
  unfold callFinish
  simp only [rt_setRt, rt_finishNode, getRt_eq]
  repeat' split
  all_goals (try subst_vars)
  all_goals rfl

theorem unwind_ir (s : St) (stack : List Frame) (k : Nat) :
    (((unwind s stack).1).rt k).interruptRegistered = (s.rt k).interruptRegistered := by
  induction stack with
  | nil => rfl
  | cons f rest ih =>
    cases f <;> simp only [unwind, ih]
    simp only [rt_setRt]
    split
    · rename_i h; subst h; rfl
    · rfl

/-- A registered Watch that no reset and no block end can reach stays registered. -/
theorem stepBody_ir_keep (p : Prog) (s : St) (n pc : Nat) (below : List Frame) (w : Nat)
    (hs : stable p w = true) (hnb : noBlockAbove p w = true)
    (h0 : (s.rt w).interruptRegistered = true) :
    ((outState (stepBody p s n pc below)).rt w).interruptRegistered = true := by
  obtain ⟨hnc, hna⟩ := stable_spec p w hs
  have hnc' := hnc n
  have hna' := hna n
  unfold isCall at hnc'
  unfold isAlarm at hna'
  unfold stepBody
  simp only []
  split
  all_goals (repeat' split)
  all_goals (try simp only [outState, rt_setRt, rt_emit, rt_finishNode, rt_markFailed, rt_markCompleted,
    rt_registerInterrupt, rt_unregisterInterrupt, rt_tryActivate, getRt_eq, ir_callFinish])
  all_goals (try (repeat' split))
  all_goals (try (first | exact h0 | rfl | exact ir_endBlockStep_keep p s w hnb h0 | exact ir_endBlocksStep_keep p s w hnb h0
                        | (subst_vars; exact ir_endBlockStep_keep p s _ hnb h0)
                        | (subst_vars; exact ir_endBlocksStep_keep p s _ hnb h0)
                        | (simp_all; done)))
  all_goals (rw [ir_alarmRearm_notMem]; exact h0; simp_all)

theorem stepFrame_ir_keep (p : Prog) (s : St) (f : Frame) (below : List Frame) (w : Nat)
    (hs : stable p w = true) (hnb : noBlockAbove p w = true)
    (h0 : (s.rt w).interruptRegistered = true) :
    ((outState (stepFrame p s f below)).rt w).interruptRegistered = true := by
  cases f with
  | body n pc => exact stepBody_ir_keep p s n pc below w hs hnb h0
  | _ =>
    unfold stepFrame
    simp only []
    repeat' split
    all_goals (try simp only [outState, rt_setRt, rt_emit, rt_finishNode, rt_markFailed, rt_markCompleted,
      getRt_eq, ir_callFinish])
    all_goals (try (repeat' split))
    all_goals (try exact h0)
    all_goals (try (subst_vars; exact h0))

/-- Registration of a Watch: the `register w` count of a micro-step either stays, or grows by one in a
    step that found `interrupt_registered` false and leaves it true. -/
theorem stepBody_rg (p : Prog) (s : St) (n pc : Nat) (below : List Frame) (w : Nat) (hw : isWatch p w = true) :
    rgCount (outState (stepBody p s n pc below)) w = rgCount s w ∨
    (rgCount (outState (stepBody p s n pc below)) w = rgCount s w + 1 ∧ (s.rt w).interruptRegistered = false ∧
      ((outState (stepBody p s n pc below)).rt w).interruptRegistered = true) := by
  unfold isWatch at hw
  by_cases hc : w = n ∧ pc = 0 ∧ (s.rt w).interruptRegistered = false
  · right
    obtain ⟨h1, h2, h3⟩ := hc
    subst h1; subst h2
    split at hw
    · rename_i c hk
      rw [stepBody_watch_pc0 p s w below c hk]
      simp only [h3, Bool.not_false, if_true, outState, rg_registerInterrupt, rt_registerInterrupt]
      simp
    · cases hw
  · left
    unfold stepBody
    simp only []
    split
    all_goals (repeat' split)
    all_goals (try simp only [outState, rg_setRt, rg_finishNode, rg_markFailed, rg_markCompleted,
      rg_unregisterInterrupt, rg_tryActivate, rg_abort, rg_endBlockStep, rg_endBlocksStep,
      rg_callPrepare, rg_callFinish, rg_emit, rg_registerInterrupt, rg_alarmRearm])
    all_goals (try (simp [rgCount]; done))
    all_goals (try (simp_all [rgCount]; done))
    all_goals (
      have hne : ¬ (n = w) := by
        intro e; subst e; simp_all
      simp [rgCount, hne, emit, setRt])

theorem stepFrame_rg (p : Prog) (s : St) (f : Frame) (below : List Frame) (w : Nat) (hw : isWatch p w = true) :
    rgCount (outState (stepFrame p s f below)) w = rgCount s w ∨
    (rgCount (outState (stepFrame p s f below)) w = rgCount s w + 1 ∧ (s.rt w).interruptRegistered = false ∧
      ((outState (stepFrame p s f below)).rt w).interruptRegistered = true) := by
  cases f with
  | body n pc => exact stepBody_rg p s n pc below w hw
  | _ =>
    left
    unfold stepFrame
    simp only []
    repeat' split
    all_goals (try simp only [outState, rg_setRt, rg_finishNode, rg_callFinish, rg_emit])
    all_goals (try (simp [rgCount]; done))

theorem rg_unwind (s : St) (stack : List Frame) (w : Nat) : rgCount (unwind s stack).1 w = rgCount s w := by
  induction stack with
  | nil => rfl
  | cons f rest ih =>
    cases f <;> simp only [unwind, ih]
    rfl

/-- what a Watch still "owes": one registration if it is not registered -/
def regDebt (s : St) (w : Nat) : Nat := if (s.rt w).interruptRegistered = true then 0 else 1

/-- registrations seen in this tick's log + the one still possible -/
def regPot (s : St) (w : Nat) : Nat := rgCount s w + regDebt s w

/-- **The registration potential never grows.** For a Watch outside every Alarm and every Block in a method
    without Call macro, no micro-step of any generator increases `rgCount + [not registered]`. -/
theorem stepGen_regPot (p : Prog) (s : St) (stack : List Frame) (w : Nat) (hw : isWatch p w = true)
    (hs : stable p w = true) (hnb : noBlockAbove p w = true) :
    regPot (stepGen p s stack).1 w ≤ regPot s w := by
  cases stack with
  | nil => exact Nat.le_refl _
  | cons f below =>
    rw [stepGen_cons]
    have h1 := stepFrame_rg p s f below w hw
    have h2 := stepFrame_ir_keep p s f below w hs hnb
    have key : regPot (outState (stepFrame p s f below)) w ≤ regPot s w := by
      unfold regPot regDebt
      rcases h1 with h1 | ⟨h1, h3, h4⟩
      · rw [h1]
        by_cases hir : (s.rt w).interruptRegistered = true
        · simp [hir, h2 hir]
        · simp only [hir]
          split
          · simp
          · exact Nat.le_refl _
      · rw [h1]; simp [h3, h4]
    cases hs' : stepFrame p s f below with
    | next s' top sig => rw [hs'] at key; exact key
    | raise s' =>
      rw [hs'] at key
      simp only [outState] at key
      simp only [finishStep]
      unfold regPot regDebt at key ⊢
      rw [rg_unwind, unwind_ir]
      exact key

/-- **A Watch is registered at most once (one tick).** With the hypotheses of `stepGen_regPot`: the number
    of `register w` events of a tick plus the registration still owed afterwards is at most what was owed
    before the tick. -/
theorem tick_regPot (p : Prog) (s : St) (i : TickIn) (w : Nat) (hw : isWatch p w = true)
    (hs : stable p w = true) (hnb : noBlockAbove p w = true) :
    rgCount (tick p s i).1 w + regDebt (tick p s i).1 w ≤ regDebt s w := by
  have := tick_micro p (fun x => regPot x w ≤ regDebt s w) ⟨fun _ _ h => h, fun _ _ h => h⟩
    (fun x stack hx => Nat.le_trans (stepGen_regPot p x stack w hw hs hnb) hx) s i
    (by simp only [regPot, rgCount, prelude, regDebt, List.count_nil, Nat.zero_add]; exact Nat.le_refl _)
  exact this

/-- registrations of `w` over a whole run (a list of tick inputs) -/
def registrations (p : Prog) (w : Nat) : St → List TickIn → Nat
  | _, [] => 0
  | s, i :: is => rgCount (tick p s i).1 w + registrations p w (tick p s i).1 is

theorem registrations_le_debt (p : Prog) (w : Nat) (hw : isWatch p w = true)
    (hs : stable p w = true) (hnb : noBlockAbove p w = true) (inputs : List TickIn) (s : St) :
    registrations p w s inputs ≤ regDebt s w := by
  induction inputs generalizing s with
  | nil => exact Nat.zero_le _
  | cons i is ih =>
    simp only [registrations]
    have h1 := tick_regPot p s i w hw hs hnb
    have h2 := ih (tick p s i).1
    omega

end OPM.Interp
