import OPM.Lemmas.CmdMgrExcl
import OPM.Lemmas.CmdMgrRecB
/-!
The record invariant `Rec` through the requests that arrive between ticks and through a whole tick of the
command manager (parallel to `good_step`): `rec_run`.
-/
namespace OPM.CmdMgr

theorem rec_init (cfg : Cfg) (h1 : cfg.fixStop = true) (h2 : cfg.fixInstr = true) : Rec { cfg := cfg } :=
  ⟨⟨h1, h2⟩, rfl, fun _ => rfl, by simp, by simp, by simp, by simp, by simp, by simp⟩

/-- `Rec` reads these fields only. -/
theorem Rec.congr {s s' : State} (h : Rec s) (hcfg : s'.cfg = s.cfg) (hstale : s'.stale = s.stale)
    (htk : s'.tracking = s.tracking) (htr : s'.track = s.track) (hobjs : s'.objs = s.objs)
    (hq : s'.queue = s.queue) (hex : s'.executing = s.executing) (hdone : s'.done = s.done)
    (hn : s'.nextId = s.nextId) : Rec s' :=
  ⟨by rw [hcfg]; exact h.fixS, by rw [hstale]; exact h.stale, by rw [htk, htr]; exact h.off,
   by rw [htr]; exact h.tok, by rw [htr, hobjs]; exact h.cmdObj, by rw [htr, hex, hdone]; exact h.held,
   by rw [hobjs, hq, hex]; exact h.ownName, by rw [hobjs, hn]; exact h.ownLt,
   by rw [hobjs, hex, hdone]; exact h.ownHeld⟩

/-- The record of a new request: its Created state, the node untouched. -/
theorem tok_new (n : Nat) : TOK (({ id := n } : Track).addMark .created) := by
  have e : ({ id := n } : Track).addMark .created = { id := n, marks := [(.created, true)] } := by
    simp [Track.addMark, Track.hasMark, Track.concluded, Track.free]
  rw [e]
  refine ⟨?_, ?_, rfl, ?_, rfl⟩
  · intro pre m he p hp
    have : pre = [] := by
      cases pre with
      | nil => rfl
      | cons a t => cases t <;> simp at he
    rw [this] at hp; cases hp
  · intro _ p hp
    simp at hp
    rw [← hp]; rfl
  · intro hx; simp [Track.hasMark] at hx

/-- A request with a fresh id joins the queue; a UOD request brings its (new) record. -/
theorem Rec.enqueue {s s' : State} (h : Rec s) (r : Req) (t : Option Track) (hr : r.id = s.nextId)
    (hcfg : s'.cfg = s.cfg) (hstale : s'.stale = s.stale) (htk : s'.tracking = s.tracking)
    (htr : s'.track = s.track ++ t.toList) (hobjs : s'.objs = s.objs) (hq : s'.queue = s.queue ++ [r])
    (hex : s'.executing = s.executing) (hdone : s'.done = s.done) (hn : s'.nextId = s.nextId + 1)
    (htrk : t.isSome = true → s.tracking = true)
    (ht : ∀ x, t = some x → TOK x ∧ x.cmd = none ∧ x.hasMark .started = false) : Rec s' := by
  have hmem : ∀ x ∈ s'.track, x ∈ s.track ∨ t = some x := by
    intro x hx
    rw [htr] at hx
    rcases List.mem_append.mp hx with hx | hx
    · exact Or.inl hx
    · right; cases t <;> simp_all
  refine ⟨by rw [hcfg]; exact h.fixS, by rw [hstale]; exact h.stale, ?_, ?_, ?_, ?_, ?_, ?_, ?_⟩
  · intro hoff
    rw [htk] at hoff
    rw [htr, h.off hoff]
    cases ht' : t with
    | none => rfl
    | some x => have := htrk (by rw [ht']; rfl); rw [hoff] at this; cases this
  · intro x hx
    rcases hmem x hx with hx | hx
    · exact h.tok x hx
    · exact (ht x hx).1
  · intro x hx ser hser
    rw [hobjs]
    rcases hmem x hx with hx | hx
    · exact h.cmdObj x hx ser hser
    · rw [(ht x hx).2.1] at hser; cases hser
  · intro x hx h1 h2
    rw [hex, hdone]
    rcases hmem x hx with hx | hx
    · exact h.held x hx h1 h2
    · rw [(ht x hx).2.2] at h1; cases h1
  · intro o ho q hq' e
    rw [hobjs] at ho
    rw [hq, hex] at hq'
    have : q = r ∨ q ∈ s.queue ++ s.executing := by
      simp only [List.mem_append, List.mem_cons, List.not_mem_nil, or_false] at hq' ⊢
      rcases hq' with (a | a) | a
      · exact Or.inr (Or.inl a)
      · exact Or.inl a
      · exact Or.inr (Or.inr a)
    rcases this with rfl | hq''
    · have := h.ownLt o ho
      rw [← e, hr] at this
      exact absurd this (Nat.lt_irrefl _)
    · exact h.ownName o ho q hq'' e
  · intro o ho
    rw [hobjs] at ho
    rw [hn]
    exact Nat.lt_succ_of_lt (h.ownLt o ho)
  · rw [hobjs, hex, hdone]; exact h.ownHeld

theorem rec_request {s : State} (g : Good s) (h : Rec s) (k : Nat) (bad : Bool) : Rec (request s k bad).1 := by
  unfold request
  split
  · exact h
  · rename_i hc
    simp only [Bool.not_and, Bool.not_not, Bool.or_eq_true, Bool.not_eq_true', decide_eq_true_eq, not_or,
      Bool.not_eq_false, Nat.not_le] at hc
    obtain ⟨⟨hst, _⟩, _⟩ := hc
    have htk : s.tracking = true := g.life.trk hst
    simp only [htk, ↓reduceIte]
    refine h.enqueue ⟨s.nextId, .uod k, bad⟩ (some (({ id := s.nextId } : Track).addMark .created)) rfl rfl rfl
      (by simp [htk]) (by simp) rfl rfl rfl rfl rfl (fun _ => htk) ?_
    intro x hx
    injection hx with hx
    subst hx
    refine ⟨tok_new _, by simp, ?_⟩
    cases hh : (({ id := s.nextId } : Track).addMark .created).hasMark .started with
    | false => rfl
    | true =>
      rcases addMark_hasMark _ _ _ hh with h1 | h1
      · simp [Track.hasMark] at h1
      · cases h1

theorem rec_user {s : State} (h : Rec s) (n : Name) : Rec (user s n).1 := by
  unfold user
  cases n with
  | uod k => exact h
  | start =>
    simp only
    split
    · exact h
    · split
      · exact h
      · exact h.enqueue ⟨s.nextId, .start, false⟩ none rfl rfl rfl rfl (by simp) rfl rfl rfl rfl rfl
          (by intro e; cases e) (by intro x e; cases e)
  | stop =>
    simp only
    split
    · exact h
    · split
      · exact h
      · exact h.enqueue ⟨s.nextId, .stop, false⟩ none rfl rfl rfl rfl (by simp) rfl rfl rfl rfl rfl
          (by intro e; cases e) (by intro x e; cases e)
  | restart =>
    simp only
    split
    · exact h
    · split
      · exact h
      · exact h.enqueue ⟨s.nextId, .restart, false⟩ none rfl rfl rfl rfl (by simp) rfl rfl rfl rfl rfl
          (by intro e; cases e) (by intro x e; cases e)

/-- `_commit_commands_done`. -/
theorem Rec.afterCommit {s : State} (h : Rec s) : Rec (commit s) := by
  refine ⟨h.fixS, h.stale, h.off, h.tok, h.cmdObj, ?_, ?_, h.ownLt, ?_⟩
  · intro t ht h1 h2
    obtain ⟨r, hr, e1, eu, e2⟩ := h.held t ht h1 h2
    exact ⟨r, (mem_commit_executing s r).mpr ⟨hr, e2⟩, e1, eu, by show r.id ∉ ([] : List Nat); simp⟩
  · intro o ho r hr e
    apply h.ownName o ho r _ e
    have : r ∈ s.queue ++ (commit s).executing := hr
    rcases List.mem_append.mp this with a | a
    · exact List.mem_append_left _ a
    · exact List.mem_append_right _ ((mem_commit_executing s r).mp a).1
  · intro o ho hm
    obtain ⟨a, a', r, hr, e1, e2⟩ := h.ownHeld o ho hm
    exact ⟨a, a', r, (mem_commit_executing s r).mpr ⟨hr, e2⟩, e1, by show r.id ∉ ([] : List Nat); simp⟩

theorem getTrack_some {tr : List Track} {i : Nat} {t : Track} (h : getTrack tr i = some t) :
    t ∈ tr ∧ t.id = i := by
  unfold getTrack at h
  exact ⟨List.mem_of_find?_eq_some h, by simpa using List.find?_some h⟩

theorem track_id_inj {tr : List Track} (h : (tr.map (·.id)).Nodup) {a b : Track} (ha : a ∈ tr) (hb : b ∈ tr)
    (e : a.id = b.id) : a = b := by
  induction tr with
  | nil => cases ha
  | cons x xs ih =>
    simp only [List.map_cons, List.nodup_cons, List.mem_map, not_exists, not_and] at h
    rcases List.mem_cons.mp ha with rfl | ha' <;> rcases List.mem_cons.mp hb with rfl | hb'
    · rfl
    · exact absurd e.symm (h.1 b hb')
    · exact absurd e (h.1 a ha')
    · exact ih h.2 ha' hb'

theorem rec_force_core {s : State} (h : Rec s) (tgt : Nat) (b : Bool) :
    Rec (if b = true then (s, Reply.err) else
      match markForced s tgt with
      | none => (s, Reply.err)
      | some s' => (commit s', Reply.ok)).1 := by
  split
  · exact h
  · cases hmk : markForced s tgt with
    | none => exact h
    | some s' => exact (h.forced (markForced_shape hmk)).afterCommit

theorem rec_force {s : State} (g : Good s) (h : Rec s) (i : Nat) : Rec (force s i).1 := by
  unfold force
  cases getTrack s.track i with
  | none => simp only; rw [commit_of_done_nil g.done]; exact h
  | some t =>
    simp only
    exact rec_force_core h _ _

theorem rec_cancel {s : State} (g : Good s) (h : Rec s) (i : Nat) : Rec (cancel s i).1 := by
  unfold cancel
  cases hgt : getTrack s.track i with
  | none => exact h
  | some t =>
    obtain ⟨htm, hti⟩ := getTrack_some hgt
    simp only
    cases ho : trackObj s t with
    | some o =>
      simp only
      -- the record holds a command: it was started
      have hser : ∃ ser, t.cmd = some ser ∧ getObj s.objs ser = some o := by
        unfold trackObj at ho
        split at ho
        · rename_i ser hs; exact ⟨ser, hs, ho⟩
        · cases ho
      obtain ⟨ser, hs, hget⟩ := hser
      obtain ⟨o', h1, h2, _⟩ := h.cmdObj t htm ser hs
      rw [hget] at h1
      injection h1 with h1
      subst h1
      have hom := (getObj_some hget).1
      unfold cancelStarted
      by_cases hf : o.finalized = true
      · simp only [h.fixS.2, hf, Bool.and_self, if_true]; exact h
      · have hf' : o.finalized = false := by simpa using hf
        simp only [h.fixS.2, hf', Bool.and_false, Bool.false_eq_true, if_false, if_true]
        have hm : o.inMap = true := by
          cases hx : o.inMap with
          | true => rfl
          | false => rw [g.core.dead o hom hx] at hf'; cases hf'
        obtain ⟨_, _, q, hq, e1, _⟩ := h.ownHeld o hom hm
        have hqi : q.id = i := by rw [e1, h2, hti]
        cases hfind : s.executing.find? (fun r => r.id == i) with
        | none =>
          have := List.find?_eq_none.mp hfind q hq
          simp [hqi] at this
        | some r =>
          simp only
          have hr : r ∈ s.executing := List.mem_of_find?_eq_some hfind
          have hri : r.id = i := by simpa using List.find?_some hfind
          have hrq : r = q := req_id_inj g.core.ids hr hq (by rw [hri, hqi])
          subst hrq
          have hk := (h.ownName o hom r (List.mem_append_right _ hr) e1).1
          have hu : r.isUod = true := by simp [Req.isUod, hk]
          exact (cancelCommand_rec h g.core g.fix hr hk (fun ht => g.trackEx ht r hr hu)).afterCommit
    | none =>
      simp only
      cases hc : t.cmd with
      | some _ => exact h
      | none =>
        simp only
        cases hmk : markCancelled s i true with
        | none => exact h
        | some s' =>
          simp only
          apply Rec.afterCommit
          apply h.conclude (markCancelled_shape hmk) (fCancelled_facts true) (fun t ht => fCancelled_tok true ht)
          intro t' ht' e ser o hser _
          have : t' = t := track_id_inj g.ids.tnodup ht' htm (by rw [e, hti])
          rw [this, hc] at hser
          cases hser

theorem rec_merged {s : State} (h : Rec s) : Rec (merged s) := by
  refine ⟨h.fixS, h.stale, h.off, h.tok, h.cmdObj, ?_, ?_, h.ownLt, ?_⟩
  · intro t ht h1 h2
    obtain ⟨r, hr, e1, eu, _⟩ := h.held t ht h1 h2
    exact ⟨r, (mem_merged s r).mpr (List.mem_append_right _ hr), e1, eu, by simp [merged]⟩
  · intro o ho r hr e
    apply h.ownName o ho r _ e
    have : r ∈ ([] : List Req) ++ (merged s).executing := hr
    rw [List.nil_append] at this
    exact (mem_merged s r).mp this
  · intro o ho hm
    obtain ⟨a, a', r, hr, e1, _⟩ := h.ownHeld o ho hm
    exact ⟨a, a', r, (mem_merged s r).mpr (List.mem_append_right _ hr), e1, by simp [merged]⟩

theorem Rec.sys {s : State} (h : Rec s) (b : Bool) :
    Rec (if b = true then { s with sys := .running, paused := true } else s) := by
  split
  · exact h.congr rfl rfl rfl rfl rfl rfl rfl rfl rfl
  · exact h

/-- The tick ends without a new command manager. -/
theorem Rec.finishCommit {s : State} (h : Rec s) (hr : s.resetTo = none) (b : Bool) : Rec (finish s b) := by
  rw [finish_commit s hr]
  exact h.afterCommit.sys b

/-- A lifecycle request becomes done. -/
theorem Rec.doneLife {s s' : State} (h : Rec s) (hcore : Core s) {l : Req} (hl : l ∈ s.executing)
    (hlu : l.isUod = false) (hobjs : s'.objs = s.objs) (hcfg : s'.cfg = s.cfg) (hstale : s'.stale = s.stale)
    (htk : s'.tracking = s.tracking) (htr : s'.track = s.track) (hq : s'.queue = s.queue)
    (hex : s'.executing = s.executing) (hdone : ∀ i, i ∈ s'.done → i ∈ s.done ∨ i = l.id)
    (hn : s'.nextId = s.nextId) : Rec s' := by
  apply h.doneReq l hobjs hcfg hstale htk htr hq hex hdone hn
  · intro t ht e h1
    cases hc : t.concluded with
    | true => rfl
    | false =>
      obtain ⟨r, hr, e1, eu, _⟩ := h.held t ht h1 hc
      have : r = l := req_id_inj hcore.ids hr hl (by rw [e1, e])
      rw [this, hlu] at eu; cases eu
  · intro o ho hm e
    obtain ⟨_, _, r, hr, e1, _⟩ := h.ownHeld o ho hm
    have : r = l := req_id_inj hcore.ids hr hl (by rw [e1, e])
    subst this
    have := (h.ownName o ho r (List.mem_append_right _ hr) e1).1
    simp [Req.isUod, this] at hlu


/-! ### the lifecycle step -/

theorem Rec.begin {s : State} (h : Rec s) : Rec (beginRun s) :=
  ⟨h.fixS, h.stale, fun hoff => by simp [beginRun] at hoff, h.tok, h.cmdObj, h.held, h.ownName, h.ownLt, h.ownHeld⟩

theorem Rec.ended {s : State} (h : Rec s) (c : List Req) : Rec (endRun s c) :=
  ⟨h.fixS, h.stale, fun _ => rfl, (by intro t ht; cases ht), (by intro t ht; cases ht), (by intro t ht; cases ht),
   h.ownName, h.ownLt, h.ownHeld⟩

/-- The new command manager (nothing is live, the run's records are gone). -/
theorem Rec.reset {s : State} (h : Rec s) (c : List Req) (htrack : s.track = [])
    (hdead : ∀ o ∈ s.objs, o.inMap = false) (hsub : ∀ r ∈ c, r ∈ s.executing) : Rec (resetState s c) := by
  refine ⟨h.fixS, h.stale, fun _ => htrack, ?_, ?_, ?_, ?_, h.ownLt, ?_⟩
  · intro t ht
    have : t ∈ s.track := ht
    rw [htrack] at this; cases this
  · intro t ht
    have : t ∈ s.track := ht
    rw [htrack] at this; cases this
  · intro t ht
    have : t ∈ s.track := ht
    rw [htrack] at this; cases this
  · intro o ho r hr e
    have hr' : r ∈ ([] : List Req) ++ c := hr
    rw [List.nil_append] at hr'
    exact h.ownName o ho r (List.mem_append_right _ (hsub r hr')) e
  · intro o ho hm
    have : o ∈ s.objs := ho
    rw [hdead o this] at hm; cases hm

section life
variable {s0 s1 : State} {pre post : List Req} {l : Req}

/-- (a) the lifecycle command ends at once: the request is done, the loop goes on over the rest. -/
theorem rec_life_noop (p : PreLife s0 s1 pre post l) (h1 : Rec s1) (sN : State) (hobjs : sN.objs = s1.objs)
    (hev : sN.events = s1.events) (hex : sN.executing = s1.executing) (hdone : sN.done = s1.done)
    (hcfg : sN.cfg = s1.cfg) (htr : sN.track = s1.track) (htk : sN.tracking = s1.tracking)
    (hq : sN.queue = s1.queue) (hn : sN.nextId = s1.nextId) (hst : sN.stale = s1.stale)
    (hrt : sN.resetTo = s1.resetTo) (b : Bool) :
    Rec (finish (loop post (markDone sN l)).1 b) := by
  obtain ⟨v1, v2, v3, v4, v5, v6, v7, v8, v9, v10, v11, v12, v13, v14, v15, v16, v17⟩ := view_eq p.view
  have hcoreN : Core (markDone sN l) := by
    apply p.core.congr (by simp [hobjs]) (by simp [hev]) (by simp [hex]) (by simp [hcfg])
    intro r hr hu hd
    rw [markDone_done_mem, hdone] at hd
    rcases hd with hd | ⟨e, _⟩
    · exact hd
    · have : r = l := req_id_inj p.core.ids hr (by rw [p.ex1]; exact p.lmem) e
      subst this
      rw [p.lu] at hu; cases hu
  have htrN : TrackEx (markDone sN l) := by
    intro ht r hr hu
    simp only [markDone_tracking, markDone_executing, markDone_track] at ht hr ⊢
    rw [htr]; exact p.trackEx1 (by rw [← htk]; exact ht) r (by rw [← hex]; exact hr) hu
  have hrecN : Rec (markDone sN l) := by
    apply h1.doneLife p.core (by rw [p.ex1]; exact p.lmem) p.lu (by simp [hobjs]) (by simp [hcfg]) (by simp [hst])
      (by simp [htk]) (by simp [htr]) (by simp [hq]) (by simp [hex]) ?_ (by simp [hn])
    intro i hi
    rw [markDone_done_mem, hdone] at hi
    rcases hi with hi | ⟨e, _⟩
    · exact Or.inl hi
    · exact Or.inr e
  have hmem : ∀ r ∈ post, r ∈ (markDone sN l).executing ∧ r.isUod = true :=
    fun r hr => ⟨by simp [hex, p.ex1, p.postmem r hr], p.upost r hr⟩
  have q := loop_uod_spec post [] hcoreN (by simp [hcfg, p.fix1]) htrN hmem p.postNodup (by simp)
  have hr := loop_rec post hrecN hcoreN (by simp [hcfg, p.fix1]) htrN hmem (by simp [hq, v1, p.q0])
    (fun r hr => by
      simp only [markDone_nextId, hn, v15]
      exact p.g0.ids.lt r (List.mem_append_right _ (p.postmem r hr)))
  apply hr.finishCommit
  rw [(view_eq q.view).2.2.2.2.2.1]
  simp only [markDone_resetTo, hrt, v6]
  exact p.g0.reset

/-- (b) first phase of Stop / Restart. -/
theorem rec_life_cancelAll (p : PreLife s0 s1 pre post l) (h1 : Rec s1) (n : Name) (sA : State)
    (hobjs : sA.objs = s1.objs) (hev : sA.events = s1.events) (hex : sA.executing = s1.executing)
    (hdone : sA.done = s1.done) (hcfg : sA.cfg = s1.cfg) (htr : sA.track = s1.track)
    (htk : sA.tracking = s1.tracking) (hq : sA.queue = s1.queue) (hnid : sA.nextId = s1.nextId)
    (hst : sA.stale = s1.stale) (hrt : sA.resetTo = s1.resetTo) (b : Bool) :
    Rec (finish (loop post { cancelAll n sA.executing sA with resident := some ⟨n, 1⟩ }).1 b) := by
  obtain ⟨v1, v2, v3, v4, v5, v6, v7, v8, v9, v10, v11, v12, v13, v14, v15, v16, v17⟩ := view_eq p.view
  have hcoreA : Core sA := p.core.congr hobjs hev hex hcfg (fun _ _ _ hd => by rw [hdone] at hd; exact hd)
  have htrA : TrackEx sA := by
    intro ht r hr hu
    rw [htr]; exact p.trackEx1 (by rw [← htk]; exact ht) r (by rw [← hex]; exact hr) hu
  have hrecA : Rec sA := h1.congr hcfg hst htk htr hobjs hq hex hdone hnid
  have pp := cancelWhere_spec (fun c => !(c.name == n)) false sA.executing hcoreA (by rw [hcfg]; exact p.fix1) htrA
    (fun c hc => hc)
  have rr := cancelWhere_rec (fun c => !(c.name == n)) false sA.executing hrecA hcoreA (by rw [hcfg]; exact p.fix1)
    htrA (fun c hc => hc)
  rw [← cancelAll_eq] at pp rr
  generalize cancelAll n sA.executing sA = sC at *
  obtain ⟨w1, w2, w3, w4, w5, w6, w7, w8, w9, w10, w11, w12, w13, w14, w15, w16, w17⟩ := view_eq pp.view
  have hcoreL : Core { sC with resident := some ⟨n, 1⟩ } := pp.core.congr rfl rfl rfl rfl (fun _ _ _ hd => hd)
  have hrecL : Rec { sC with resident := some ⟨n, 1⟩ } := rr.congr rfl rfl rfl rfl rfl rfl rfl rfl rfl
  have htrL : TrackEx { sC with resident := some ⟨n, 1⟩ } := by
    intro ht r hr hu
    exact (htrA.of_view pp.view) ht r hr hu
  have hmem : ∀ r ∈ post, r ∈ ({ sC with resident := some ⟨n, 1⟩ } : State).executing ∧ r.isUod = true :=
    fun r hr => ⟨by show r ∈ sC.executing; rw [w2, hex, v2]; exact p.postmem r hr, p.upost r hr⟩
  have q := loop_uod_spec post [] hcoreL (by show sC.cfg.fixCancel = true; rw [w16, hcfg]; exact p.fix1) htrL hmem
    p.postNodup (by simp)
  have hr := loop_rec post hrecL hcoreL (by show sC.cfg.fixCancel = true; rw [w16, hcfg]; exact p.fix1) htrL hmem
    (by show sC.queue = []; rw [w1, hq, v1]; exact p.q0)
    (fun r hr => by
      show r.id < sC.nextId
      rw [w15, hnid, v15]
      exact p.g0.ids.lt r (List.mem_append_right _ (p.postmem r hr)))
  apply hr.finishCommit
  rw [(view_eq q.view).2.2.2.2.2.1]
  show sC.resetTo = none
  rw [w6, hrt, v6]
  exact p.g0.reset

end life

/-- The lifecycle step of a tick, and the rest of the tick. -/
theorem rec_life {s0 s1 : State} {pre post : List Req} {l : Req} (p : PreLife s0 s1 pre post l)
    (hs1 : pre = [] → s1 = s0) (h1 : Rec s1) (b : Bool) :
    Rec (finish (loop post (executeLife s1 l)).1 b) := by
  obtain ⟨v1, v2, v3, v4, v5, v6, v7, v8, v9, v10, v11, v12, v13, v14, v15, v16, v17⟩ := view_eq p.view
  cases hres : s0.resident with
  | none =>
    have hres1 : s1.resident = none := by rw [v4]; exact hres
    cases hn : l.name with
    | uod k => have := p.lu; simp [Req.isUod, hn] at this
    | start =>
      cases hst : s1.started with
      | true =>
        rw [executeLife_start_started hres1 hn hst]
        exact rec_life_noop p h1 s1 rfl rfl rfl rfl rfl rfl rfl rfl rfl rfl rfl b
      | false =>
        rw [executeLife_start_fresh hres1 hn hst]
        obtain ⟨hp1, hp2⟩ := p.alone (fun r hr => p.g0.life.idle (by rw [← v7]; exact hst) r
          (List.mem_append_right _ hr))
        subst hp2
        have := hs1 hp1; subst this
        have hex : s1.executing = [l] := by rw [p.ex, hp1]; rfl
        simp only [loop]
        have hB : Rec (beginRun { s1 with resident := some ⟨.start, 0⟩ }) :=
          (h1.congr (s' := { s1 with resident := some ⟨.start, 0⟩ }) rfl rfl rfl rfl rfl rfl rfl rfl rfl).begin
        have hcB : Core (beginRun { s1 with resident := some ⟨.start, 0⟩ }) :=
          p.g0.core.congr rfl rfl rfl rfl (fun _ _ _ hd => hd)
        apply Rec.finishCommit _ (by simp [lifeDone, beginRun, p.g0.reset])
        apply hB.doneLife hcB (l := l) (by simp [beginRun, hex]) p.lu (by simp [lifeDone]) (by simp [lifeDone])
          (by simp [lifeDone]) (by simp [lifeDone]) (by simp [lifeDone]) (by simp [lifeDone]) (by simp [lifeDone]) ?_
          (by simp [lifeDone])
        intro i hi
        simp only [lifeDone] at hi
        rw [markDone_done_mem] at hi
        rcases hi with hi | ⟨e, _⟩
        · exact Or.inl hi
        · exact Or.inr e
    | stop =>
      by_cases hsys : s1.sys = .running
      · rw [executeLife_stop_run hres1 hn hsys]
        exact rec_life_cancelAll p h1 .stop { s1 with resident := some ⟨.stop, 0⟩, stopping := true }
          rfl rfl rfl rfl rfl rfl rfl rfl rfl rfl rfl b
      · rw [executeLife_stop_idle hres1 hn hsys]
        exact rec_life_noop p h1 s1 rfl rfl rfl rfl rfl rfl rfl rfl rfl rfl rfl b
    | restart =>
      by_cases hsys : s1.sys = .running
      · rw [executeLife_restart_run hres1 hn hsys]
        exact rec_life_cancelAll p h1 .restart
          { s1 with restartPending := some l, resident := some ⟨.restart, 0⟩, stopping := true, sys := .restarting }
          rfl rfl rfl rfl rfl rfl rfl rfl rfl rfl rfl b
      · rw [executeLife_restart_idle hres1 hn hsys]
        exact rec_life_noop p h1 { s1 with restartPending := some l } rfl rfl rfl rfl rfl rfl rfl rfl rfl rfl rfl b
  | some ρ =>
    have hr := p.g0.life.res
    rw [hres] at hr
    obtain ⟨hcases, _, ⟨r, hrm, hrn⟩, hh1, hh2⟩ := hr
    have hru : r.isUod = false := by rcases hcases with rfl | rfl | rfl <;> simp_all [Req.isUod]
    have hrl : r = l := p.life_unique r hrm hru
    subst hrl
    have hno : noUod s0.executing := by
      rcases hcases with rfl | rfl | rfl
      · exact (hh1 rfl).2.1
      · exact (hh1 rfl).2.1
      · exact fun x hx => p.g0.life.idle (hh2 rfl).2 x (List.mem_append_right _ hx)
    obtain ⟨hp1, hp2⟩ := p.alone hno
    subst hp2
    have := hs1 hp1; subst this
    have hex : s1.executing = [r] := by rw [p.ex, hp1]; rfl
    have hdead := no_live_alone p.g0 hex p.lu
    have hdn : ∀ (X : State), X.executing = [r] → ∀ i, i ∈ (lifeDone X r).done → i ∈ X.done ∨ i = r.id := by
      intro X _ i hi
      simp only [lifeDone] at hi
      rw [markDone_done_mem] at hi
      rcases hi with hi | ⟨e, _⟩
      · exact Or.inl hi
      · exact Or.inr e
    rcases hcases with rfl | rfl | rfl
    · rw [executeLife_stop_end hres hrn hex]
      simp only [loop]
      have hE : Rec (endRun s1 []) := h1.ended []
      have hcE : Core (endRun s1 []) := p.g0.core.congr rfl rfl rfl rfl (fun _ _ _ hd => hd)
      have hD : Rec (lifeDone (endRun s1 []) r) := by
        apply hE.doneLife hcE (l := r) (by simp [endRun, hex]) p.lu (by simp [lifeDone]) (by simp [lifeDone])
          (by simp [lifeDone]) (by simp [lifeDone]) (by simp [lifeDone]) (by simp [lifeDone]) (by simp [lifeDone])
          (hdn _ (by simp [endRun, hex])) (by simp [lifeDone])
      rw [finish_reset _ [] (by simp [lifeDone, endRun])]
      apply Rec.sys
      exact hD.reset [] (by simp [lifeDone, endRun]) (by simpa [lifeDone, endRun] using hdead) (by simp)
    · rw [executeLife_restart_end hres hrn hex]
      obtain ⟨q, hq1, hq2, _⟩ := (hh1 rfl).2.2 rfl
      have : q = r := by rw [hex] at hq2; simpa using hq2
      subst this
      simp only [hq1, loop]
      have hE : Rec { endRun s1 [q] with resident := some ⟨.restart, 2⟩ } :=
        (h1.ended [q]).congr rfl rfl rfl rfl rfl rfl rfl rfl rfl
      rw [finish_reset _ [q] (by simp [endRun])]
      apply Rec.sys
      exact hE.reset [q] (by simp [endRun]) (by simpa [endRun] using hdead) (by simp [endRun, hex])
    · rw [executeLife_restart_begin hres hrn]
      simp only [loop]
      have hB : Rec (beginRun s1) := h1.begin
      have hcB : Core (beginRun s1) := p.g0.core.congr rfl rfl rfl rfl (fun _ _ _ hd => hd)
      apply Rec.finishCommit _ (by simp [lifeDone, beginRun, p.g0.reset])
      apply hB.doneLife hcB (l := r) (by simp [beginRun, hex]) p.lu (by simp [lifeDone]) (by simp [lifeDone])
        (by simp [lifeDone]) (by simp [lifeDone]) (by simp [lifeDone]) (by simp [lifeDone]) (by simp [lifeDone])
        (hdn _ (by simp [beginRun, hex])) (by simp [lifeDone])

/-- One tick of the command manager keeps the record invariant. -/
theorem rec_tick {s : State} (g : Good s) (h : Rec s) : Rec (tick s).1 := by
  have g0 := good_merged g
  have h0 := rec_merged h
  unfold tick
  simp only
  generalize hs0 : merged s = s0 at *
  have hq0 : s0.queue = [] := by rw [← hs0]; rfl
  have hd0 : s0.done = [] := by rw [← hs0]; rfl
  have hlt0 : ∀ r ∈ s0.executing, r.id < s0.nextId := fun r hr => g0.ids.lt r (List.mem_append_right _ hr)
  rcases split_life g0 with hall | ⟨pre, l, post, he, hlu, hpre, hpost⟩
  · have q := loop_uod_spec s0.executing [] g0.core g0.fix g0.trackEx (fun r hr => ⟨hr, hall r hr⟩) g0.core.ids
      (by simp)
    have hq := loop_rec s0.executing h0 g0.core g0.fix g0.trackEx (fun r hr => ⟨hr, hall r hr⟩) hq0 hlt0
    exact hq.finishCommit (by rw [(view_eq q.view).2.2.2.2.2.1]; exact g0.reset) _
  · rw [he, loop_append]
    have hnd := g0.core.ids
    rw [he] at hnd
    simp only [List.map_append, List.map_cons] at hnd
    rw [List.nodup_append] at hnd
    have hpm : ∀ r ∈ pre, r ∈ s0.executing ∧ r.isUod = true :=
      fun r hr => ⟨by rw [he]; exact List.mem_append_left _ hr, hpre r hr⟩
    have q1 := loop_uod_spec pre [] g0.core g0.fix g0.trackEx hpm hnd.1 (by simp)
    have hq1 := loop_rec pre h0 g0.core g0.fix g0.trackEx hpm hq0 (fun r hr => hlt0 r (hpm r hr).1)
    have hdo : ∀ i, i ∈ (loop pre s0).1.done → ∃ c ∈ s0.executing, c.isUod = true ∧ c.id = i := by
      intro i hi
      rcases q1.doneOnly i hi with h0' | h1'
      · rw [hd0] at h0'; cases h0'
      · exact h1'
    have p : PreLife s0 (loop pre s0).1 pre post l :=
      ⟨g0, hq0, hd0, he, hlu, hpre, hpost, q1.core, q1.view, hdo⟩
    have hs1 : pre = [] → (loop pre s0).1 = s0 := by intro hh; rw [hh]; rfl
    cases hl1 : loop pre s0 with
    | mk s1 r1 =>
      rw [hl1] at p hs1 hq1
      simp only at p hs1 hq1
      cases r1 with
      | true =>
        simp only
        exact hq1.finishCommit (by rw [(view_eq p.view).2.2.2.2.2.1]; exact g0.reset) _
      | false =>
        simp only [loop]
        rw [if_neg (by rw [isDone_iff]; exact p.lnotdone)]
        have hx : executeReq s1 l = (executeLife s1 l, false) := by
          unfold executeReq
          cases hn : l.name with
          | uod k => have := hlu; simp [Req.isUod, hn] at this
          | start => rfl
          | stop => rfl
          | restart => rfl
        rw [hx]
        simp only
        exact rec_life p hs1 hq1 _

theorem rec_step {s : State} (g : Good s) (h : Rec s) (op : Op) : Rec (step s op).1 := by
  cases op with
  | req k bad => exact rec_request g h k bad
  | user n => exact rec_user h n
  | tick => exact rec_tick g h
  | cancel i => exact rec_cancel g h i
  | force i => exact rec_force g h i
  | sim j =>
    show Rec (simulate s j)
    unfold simulate
    split
    · exact h
    · exact h.congr rfl rfl rfl rfl rfl rfl rfl rfl rfl
  | pause b => exact h.congr rfl rfl rfl rfl rfl rfl rfl rfl rfl

theorem rec_run {s : State} (g : Good s) (h : Rec s) (ops : List Op) : Rec (run s ops) := by
  induction ops generalizing s with
  | nil => exact h
  | cons op rest ih => exact ih (good_step g op) (rec_step g h op)

end OPM.CmdMgr
