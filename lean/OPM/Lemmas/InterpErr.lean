import OPM.Model.Interp
/-! `lastError` is written only by the wrapper's exception handler (`unwind`). -/
namespace OPM.Interp

@[simp] theorem le_setRt (s : St) (n : Nat) (f : NodeRt → NodeRt) : (setRt s n f).lastError = s.lastError := rfl
@[simp] theorem le_emit (s : St) (e : Event) : (emit s e).lastError = s.lastError := rfl

@[simp] theorem le_markCompleted (s : St) (n : Nat) : (markCompleted s n).lastError = s.lastError := by
  unfold markCompleted; split <;> rfl
@[simp] theorem le_finishNode (s : St) (n : Nat) : (finishNode s n).lastError = s.lastError := by
  unfold finishNode; simp
@[simp] theorem le_markFailed (s : St) (n : Nat) : (markFailed s n).lastError = s.lastError := rfl
@[simp] theorem le_tryActivate (s : St) (n : Nat) (c : Cond) : (tryActivate s n c).lastError = s.lastError := by
  unfold tryActivate; simp only []; split
  · rfl
  · split <;> rfl
@[simp] theorem le_registerInterrupt (p : Prog) (s : St) (n : Nat) :
    (registerInterrupt p s n).lastError = s.lastError := by
  unfold registerInterrupt; simp only []; split <;> rfl
@[simp] theorem le_unregisterInterrupt (s : St) (n : Nat) : (unregisterInterrupt s n).lastError = s.lastError := rfl

theorem le_foldl {α : Type} (g : St → α → St) (hg : ∀ s a, (g s a).lastError = s.lastError)
    (l : List α) (s : St) : (l.foldl g s).lastError = s.lastError := by
  induction l generalizing s with
  | nil => rfl
  | cons a l ih => simp only [List.foldl]; rw [ih, hg]

@[simp] theorem le_abort (p : Prog) (s : St) (b : Nat) : (abortBlockInterrupts p s b).lastError = s.lastError := by
  unfold abortBlockInterrupts
  apply le_foldl
  intro s a; split <;> simp
@[simp] theorem le_resetSubtree (p : Prog) (s : St) (n : Nat) : (resetSubtree p s n).lastError = s.lastError := by
  unfold resetSubtree
  apply le_foldl
  intro s a; rfl
@[simp] theorem le_endOneBlock (p : Prog) (s : St) (o : Nat) (nm : String) :
    (endOneBlock p s o nm).lastError = s.lastError := by
  unfold endOneBlock; simp
@[simp] theorem le_endBlockStep (p : Prog) (s : St) : (endBlockStep p s).lastError = s.lastError := by
  unfold endBlockStep; split
  · rfl
  · simp
@[simp] theorem le_endBlocksStep (p : Prog) (s : St) : (endBlocksStep p s).lastError = s.lastError := by
  unfold endBlocksStep
  simp only []
  show (List.foldl _ s _).lastError = s.lastError
  apply le_foldl
  intro s a; simp
@[simp] theorem le_alarmRearm (p : Prog) (s : St) (n : Nat) : (alarmRearm p s n).lastError = s.lastError := by
  unfold alarmRearm; simp
@[simp] theorem le_callPrepare (p : Prog) (s : St) (m : Nat) : (callPrepare p s m).lastError = s.lastError := by
  unfold callPrepare; simp only []; split <;> simp
@[simp] theorem le_callFinish (s : St) (n m : Nat) : (callFinish s n m).lastError = s.lastError := by
  unfold callFinish; simp

end OPM.Interp
