import OPM.Lemmas.InterpC02b
import OPM.Model.InterpRun
set_option linter.unusedSimpArgs false
set_option linter.unusedVariables false
/-!
C02 lemmas, part 3: counting the effect events of a Mark over a whole run (methods without Alarm /
Call macro, any number of Watches, Blocks, generators).
-/
namespace OPM.InterpC02
open OPM.Interp OPM.InterpRun

def isEffOf (n : Nat) : Event → Bool
  | .effect k _ => k == n
  | _ => false

/-- number of effect events of node `n` in an event list -/
def cntEff (n : Nat) (l : List Event) : Nat := (l.filter (isEffOf n)).length

theorem isEffOf_core (n : Nat) (e : Event) (h : isEffOf n e = true) : isCore e = true := by
  cases e <;> simp_all [isEffOf, isCore]

theorem cntEff_filter_core (n : Nat) (l : List Event) : cntEff n (l.filter isCore) = cntEff n l := by
  unfold cntEff
  rw [List.filter_filter]
  congr 1
  apply List.filter_congr
  intro e _
  cases h : isEffOf n e
  · simp
  · simp [isEffOf_core n e h]

theorem cntEff_core (n : Nat) (s : St) : cntEff n (coreEvs s) = cntEff n s.events :=
  cntEff_filter_core n s.events

theorem cntEff_append (n : Nat) (a b : List Event) : cntEff n (a ++ b) = cntEff n a + cntEff n b := by
  unfold cntEff; simp [List.filter_append]

theorem cntEff_reverse (n : Nat) (a : List Event) : cntEff n a.reverse = cntEff n a := by
  unfold cntEff; simp [List.filter_reverse]

theorem cntEff_cons (n : Nat) (e : Event) (l : List Event) :
    cntEff n (e :: l) = (if isEffOf n e then 1 else 0) + cntEff n l := by
  unfold cntEff
  simp only [List.filter_cons]
  split <;> simp <;> omega

/-- `c0` effects of Mark `n` before this tick, plus those of this tick so far: at most one in total,
    and none while the Mark is not completed. -/
def MarkInv (n c0 : Nat) (s : St) : Prop :=
  c0 + cntEff n s.events ≤ 1 ∧ ((s.rt n).completed = false → c0 + cntEff n s.events = 0)

theorem markInv_stepGen (p : Prog) (hnr : noReset p = true) (n : Nat) (nm : String)
    (hk : (node p n).kind = .mark nm) (c0 : Nat) (s : St) (stack : List Frame) (h : MarkInv n c0 s) :
    MarkInv n c0 (stepGen p s stack).1 := by
  have hmono : ((stepGen p s stack).1.rt n).completed = false → (s.rt n).completed = false := by
    intro hf
    cases hc : (s.rt n).completed with
    | false => rfl
    | true => rw [stepGen_completed_mono p hnr s stack n hc] at hf; cases hf
  rcases stepGen_core p s stack with hc | ⟨e, f, below, hst, hc, hsite⟩
  · have : cntEff n (stepGen p s stack).1.events = cntEff n s.events := by
      rw [← cntEff_core, ← cntEff_core, hc]
    unfold MarkInv
    rw [this]
    exact ⟨h.1, fun hf => h.2 (hmono hf)⟩
  · have hcnt : cntEff n (stepGen p s stack).1.events = (if isEffOf n e then 1 else 0) + cntEff n s.events := by
      rw [← cntEff_core, hc, cntEff_cons, cntEff_core]
    by_cases he : isEffOf n e = true
    · -- the effect of Mark `n` itself: its body step at pc 0, which found it not completed and completes it
      cases e with
      | effect k w =>
        have hkn : k = n := by simpa [isEffOf] using he
        subst hkn
        cases f with
        | body n' pc =>
          simp only [SiteF, SiteB] at hsite
          obtain ⟨hn, _, _, htop, _, hcomp, hpre⟩ := hsite
          subst hn
          have hpre' := hpre nm hk
          have h0 := h.2 hpre'
          have hpost : ((stepGen p s stack).1.rt k).completed = true := by
            rw [hst]
            unfold stepGen
            simp only []
            cases hs : stepFrame p s (.body k pc) below with
            | next s' top sig =>
              rw [hs] at hcomp
              simp only [outState] at hcomp
              exact hcomp (by rw [hk]; rfl)
            | raise s' => rw [hs] at htop; simp [outTop] at htop
          unfold MarkInv
          rw [hcnt, he]
          refine ⟨by simp only [if_true]; omega, fun hf => ?_⟩
          rw [hpost] at hf; cases hf
        | wrapThr n' => simp only [SiteF] at hsite; cases hsite.1
        | _ => simp only [SiteF] at hsite
      | _ => simp [isEffOf] at he
    · have he' : isEffOf n e = false := by simpa using he
      unfold MarkInv
      rw [hcnt, he']
      simp only [Bool.false_eq_true, if_false, Nat.zero_add]
      exact ⟨h.1, fun hf => h.2 (hmono hf)⟩

theorem markInv_lifts (p : Prog) (hnr : noReset p = true) (n : Nat) (nm : String)
    (hk : (node p n).kind = .mark nm) (c0 : Nat) : Lifts p (MarkInv n c0) (fun _ => True) where
  fresh := fun _ => trivial
  step := fun s stack h _ => ⟨markInv_stepGen p hnr n nm hk c0 s stack h, trivial⟩
  congr := fun s s' hc h => by
    unfold MarkInv at *
    rw [hc.rt, hc.events]; exact h

/-- between ticks: at most one effect so far, none while the Mark is not completed -/
def MarkQ (n c0 : Nat) (s : St) : Prop := c0 ≤ 1 ∧ ((s.rt n).completed = false → c0 = 0)

theorem markQ_tick (p : Prog) (hnr : noReset p = true) (n : Nat) (nm : String)
    (hk : (node p n).kind = .mark nm) (c0 : Nat) (s : St) (i : TickIn) (h : MarkQ n c0 s) :
    MarkQ n (c0 + cntEff n (tick p s i).1.events.reverse) (tick p s i).1 := by
  have h0 : Good (MarkInv n c0) (fun _ => True) (tickStart s i) := by
    refine ⟨?_, fun _ _ => trivial⟩
    unfold MarkInv tickStart
    simp only [cntEff, List.filter_nil, List.length_nil, Nat.add_zero]
    exact h
  have := (good_tick (markInv_lifts p hnr n nm hk c0) s i h0).1
  rw [cntEff_reverse]
  exact this

theorem completed_cancel (p : Prog) (s s' : St) (k n : Nat) (h : cancel p s k = some s') :
    (s'.rt n).completed = (s.rt n).completed := by
  unfold cancel at h
  split at h
  · cases h; simp only [rt_setRt]; split
    · rename_i e; subst e; rfl
    · rfl
  · cases h

theorem completed_force (p : Prog) (s s' : St) (k n : Nat) (h : force p s k = some s') :
    (s'.rt n).completed = (s.rt n).completed := by
  unfold force at h
  split at h
  · cases h; simp only [rt_setRt]; split
    · rename_i e; subst e; rfl
    · rfl
  · cases h

theorem completed_completeCmd_mono (s : St) (k n : Nat) (h : (s.rt n).completed = true) :
    ((completeCmd s k).rt n).completed = true := by
  unfold completeCmd
  split
  · exact h
  · simp only [rt_setRt]; split
    · rfl
    · exact h

theorem completed_applyReq_mono (p : Prog) (s : St) (r : Req) (n : Nat)
    (hr : ∀ i, r ≠ .tick i) (h : (s.rt n).completed = true) : ((applyReq p s r).rt n).completed = true := by
  cases r with
  | tick i => exact absurd rfl (hr i)
  | cancel k =>
    simp only [applyReq]
    cases hc : cancel p s k with
    | none => exact h
    | some s' => simp only [Option.getD]; rw [completed_cancel p s s' k n hc]; exact h
  | force k =>
    simp only [applyReq]
    cases hc : force p s k with
    | none => exact h
    | some s' => simp only [Option.getD]; rw [completed_force p s s' k n hc]; exact h
  | complete k =>
    simp only [applyReq]
    split
    · exact completed_completeCmd_mono s k n h
    · exact h

theorem markQ_execStep (p : Prog) (hnr : noReset p = true) (n : Nat) (nm : String)
    (hk : (node p n).kind = .mark nm) (acc : St × List Event) (r : Req) (h : MarkQ n (cntEff n acc.2) acc.1) :
    MarkQ n (cntEff n (execStep p acc r).2) (execStep p acc r).1 := by
  cases r with
  | tick i =>
    simp only [execStep, applyReq, reqEvents, cntEff_append]
    exact markQ_tick p hnr n nm hk _ acc.1 i h
  | _ =>
    simp only [execStep, reqEvents, List.append_nil]
    refine ⟨h.1, fun hf => h.2 ?_⟩
    cases hc : (acc.1.rt n).completed with
    | false => rfl
    | true =>
      rw [completed_applyReq_mono p acc.1 _ n (by intro i; simp) hc] at hf
      cases hf

theorem markQ_run (p : Prog) (hnr : noReset p = true) (n : Nat) (nm : String)
    (hk : (node p n).kind = .mark nm) (reqs : List Req) (acc : St × List Event)
    (h : MarkQ n (cntEff n acc.2) acc.1) :
    MarkQ n (cntEff n (reqs.foldl (execStep p) acc).2) (reqs.foldl (execStep p) acc).1 := by
  induction reqs generalizing acc with
  | nil => exact h
  | cons r rs ih => exact ih _ (markQ_execStep p hnr n nm hk acc r h)

end OPM.InterpC02
