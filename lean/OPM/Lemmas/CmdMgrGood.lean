import OPM.Lemmas.CmdMgrLoop
/-!
The invariant `Good` of the M2 model between ops, and its preservation by the requests that arrive between
ticks (UOD request, lifecycle request, cancel, force, simulate).
-/
namespace OPM.CmdMgr

def noUod (l : List Req) : Prop := ∀ r ∈ l, r.isUod = false

/-- Lifecycle discipline of the engine as far as the command manager depends on it. -/
structure LifeOK (s : State) : Prop where
  one : ∀ a ∈ s.queue ++ s.executing, ∀ b ∈ s.queue ++ s.executing, a.isUod = false → b.isUod = false → a = b
  idle : s.started = false → noUod (s.queue ++ s.executing)
  trk : s.started = true → s.tracking = true
  res : match s.resident with
    | none => s.stopping = false
    | some l => (l = ⟨.stop, 1⟩ ∨ l = ⟨.restart, 1⟩ ∨ l = ⟨.restart, 2⟩) ∧ s.queue = [] ∧
        (∃ r ∈ s.executing, r.name = l.name) ∧
        (l.phase = 1 → s.stopping = true ∧ noUod s.executing ∧
          (l.name = .restart → ∃ p, s.restartPending = some p ∧ p ∈ s.executing ∧ p.name = .restart)) ∧
        (l.phase = 2 → s.stopping = false ∧ s.started = false)

structure IdsOK (s : State) : Prop where
  nodup : ((s.queue ++ s.executing).map (·.id)).Nodup
  lt : ∀ r ∈ s.queue ++ s.executing, r.id < s.nextId
  tnodup : (s.track.map (·.id)).Nodup
  tlt : ∀ i ∈ s.track.map (·.id), i < s.nextId

/-- The invariant between ops (repaired code). -/
structure Good (s : State) : Prop where
  fix : s.cfg.fixCancel = true
  core : Core s
  ids : IdsOK s
  life : LifeOK s
  trq : s.tracking = true → ∀ r ∈ s.queue ++ s.executing, r.isUod = true → r.id ∈ s.track.map (·.id)
  done : s.done = []
  reset : s.resetTo = none

theorem Good.trackEx {s : State} (g : Good s) : TrackEx s :=
  fun ht r hr hu => g.trq ht r (List.mem_append_right _ hr) hu

theorem good_init (cfg : Cfg) (h : cfg.fixCancel = true) : Good { cfg := cfg } := by
  refine ⟨h, ⟨rfl, by simp, by simp, by simp, by simp, by simp, by simp⟩, ⟨by simp, by simp, by simp, by simp⟩,
    ⟨by simp, by simp [noUod], by simp, by simp⟩, by simp, rfl, rfl⟩

/-! ### requests between ticks -/

theorem nodup_insert_mid (a b : List Nat) (x : Nat) (h : (a ++ b).Nodup) (hx : x ∉ a ++ b) :
    (a ++ x :: b).Nodup := by
  rw [List.nodup_append] at h ⊢
  obtain ⟨h1, h2, h3⟩ := h
  simp only [List.mem_append, not_or] at hx
  refine ⟨h1, List.nodup_cons.mpr ⟨hx.2, h2⟩, ?_⟩
  intro p hp q hq
  rcases List.mem_cons.mp hq with rfl | hq
  · intro e; exact hx.1 (e ▸ hp)
  · exact h3 p hp q hq

/-- A request with a fresh id joins the queue (and, for a UOD request, its record joins the tracking). -/
theorem Good.enqueue {s s' : State} (g : Good s) (r : Req) (hr : r.id = s.nextId)
    (hq : s'.queue = s.queue ++ [r]) (hn : s'.nextId = s.nextId + 1)
    (htr : s'.track.map (·.id) = s.track.map (·.id) ++ (if r.isUod then [r.id] else []))
    (hex : s'.executing = s.executing) (hdone : s'.done = s.done) (hobjs : s'.objs = s.objs)
    (hev : s'.events = s.events) (hcfg : s'.cfg = s.cfg) (htk : s'.tracking = s.tracking)
    (hrs : s'.resident = s.resident) (_hrp : s'.restartPending = s.restartPending) (hrt : s'.resetTo = s.resetTo)
    (hst : s'.started = s.started) (hsp : s'.stopping = s.stopping)
    (hres : s.resident = none)
    (hlife : r.isUod = false → ∀ x ∈ s.queue ++ s.executing, x.isUod = true)
    (hidle : r.isUod = true → s.started = true) : Good s' := by
  have hnew : ∀ x ∈ s.queue ++ s.executing, x.id ≠ r.id := fun x hx => by rw [hr]; exact Nat.ne_of_lt (g.ids.lt x hx)
  have hmem : ∀ x, x ∈ s'.queue ++ s'.executing ↔ x = r ∨ x ∈ s.queue ++ s.executing := by
    intro x; rw [hq, hex]; simp only [List.mem_append, List.mem_cons, List.not_mem_nil, or_false]
    constructor
    · rintro ((h | h) | h)
      · exact Or.inr (Or.inl h)
      · exact Or.inl h
      · exact Or.inr (Or.inr h)
    · rintro (h | h | h)
      · exact Or.inl (Or.inr h)
      · exact Or.inl (Or.inl h)
      · exact Or.inr h
  refine ⟨by rw [hcfg]; exact g.fix, g.core.congr hobjs hev hex hcfg (fun _ _ _ hd => by rw [hdone, g.done] at hd; cases hd), ?_, ?_, ?_,
    by rw [hdone]; exact g.done, by rw [hrt]; exact g.reset⟩
  · refine ⟨?_, ?_, ?_, ?_⟩
    · rw [hq, hex]
      simp only [List.map_append, List.map_cons, List.map_nil, List.append_assoc, List.singleton_append]
      apply nodup_insert_mid _ _ _ (by simpa using g.ids.nodup)
      intro hm
      rw [← List.map_append] at hm
      obtain ⟨x, hx, e⟩ := List.mem_map.mp hm
      exact hnew x hx e
    · intro x hx
      rw [hn]
      rcases (hmem x).mp hx with rfl | hx
      · omega
      · have := g.ids.lt x hx; omega
    · rw [htr, List.nodup_append]
      refine ⟨g.ids.tnodup, by split <;> simp, ?_⟩
      intro a ha b hb
      have : b = s.nextId := by
        split at hb
        · simp at hb; rw [hb, hr]
        · cases hb
      rw [this]; exact Nat.ne_of_lt (g.ids.tlt a ha)
    · intro i hi
      rw [htr] at hi
      rw [hn]
      rcases List.mem_append.mp hi with hi | hi
      · have := g.ids.tlt i hi; omega
      · split at hi
        · simp at hi; omega
        · cases hi
  · refine ⟨?_, ?_, ?_, ?_⟩
    · intro a ha b hb hau hbu
      rcases (hmem a).mp ha with rfl | ha <;> rcases (hmem b).mp hb with rfl | hb
      · rfl
      · have := hlife hau b hb; rw [hbu] at this; cases this
      · have := hlife hbu a ha; rw [hau] at this; cases this
      · exact g.life.one a ha b hb hau hbu
    · intro hs x hx
      rw [hst] at hs
      rcases (hmem x).mp hx with rfl | hx
      · cases hu : x.isUod with
        | false => rfl
        | true => rw [hidle hu] at hs; cases hs
      · exact g.life.idle hs x hx
    · rw [hst, htk]; exact g.life.trk
    · rw [hrs, hres]
      have := g.life.res
      rw [hres] at this
      simpa [hsp] using this
  · intro ht x hx hu
    rw [htk] at ht
    rw [htr]
    rcases (hmem x).mp hx with rfl | hx
    · simp [hu]
    · exact List.mem_append_left _ (g.trq ht x hx hu)

theorem resident_none_of_accepting {s : State} (g : Good s) (hst : s.started = true) (hsp : s.stopping = false) :
    s.resident = none := by
  have := g.life.res
  cases hl : s.resident with
  | none => rfl
  | some l =>
    rw [hl] at this
    obtain ⟨hcases, _, _, h1, h2⟩ := this
    rcases hcases with rfl | rfl | rfl
    · have := (h1 rfl).1; rw [hsp] at this; cases this
    · have := (h1 rfl).1; rw [hsp] at this; cases this
    · have := (h2 rfl).2; rw [hst] at this; cases this

theorem good_request {s : State} (g : Good s) (k : Nat) (bad : Bool) : Good (request s k bad).1 := by
  unfold request
  split
  · exact g
  · rename_i hc
    simp only [Bool.not_and, Bool.not_not, Bool.or_eq_true, Bool.not_eq_true', decide_eq_true_eq, not_or,
      Bool.not_eq_false, Nat.not_le] at hc
    obtain ⟨⟨hst, hsp⟩, _⟩ := hc
    have hsp : s.stopping = false := by simpa using hsp
    refine g.enqueue ⟨s.nextId, .uod k, bad⟩ rfl ?_ ?_ ?_ ?_ ?_ ?_ ?_ ?_ ?_ ?_ ?_ ?_ ?_ ?_
      (resident_none_of_accepting g hst hsp) (by simp [Req.isUod]) (fun _ => hst)
    all_goals try rfl
    simp only [List.map_append, List.map_cons, List.map_nil, Req.isUod, if_true]
    congr 2
    split <;> simp

/-- `Good` reads these fields only. -/
theorem Good.congr {s s' : State} (g : Good s) (hcfg : s'.cfg = s.cfg) (hn : s'.nextId = s.nextId)
    (hq : s'.queue = s.queue) (hex : s'.executing = s.executing) (hdone : s'.done = s.done)
    (hobjs : s'.objs = s.objs) (hev : s'.events = s.events) (htr : s'.track.map (·.id) = s.track.map (·.id))
    (htk : s'.tracking = s.tracking) (hrs : s'.resident = s.resident)
    (hrp : s'.restartPending = s.restartPending) (hrt : s'.resetTo = s.resetTo)
    (hst : s'.started = s.started) (hsp : s'.stopping = s.stopping) : Good s' := by
  refine ⟨by rw [hcfg]; exact g.fix, g.core.congr hobjs hev hex hcfg (fun _ _ _ hd => by rw [hdone, g.done] at hd; cases hd),
    ⟨by rw [hq, hex]; exact g.ids.nodup, by rw [hq, hex, hn]; exact g.ids.lt, by rw [htr]; exact g.ids.tnodup,
     by rw [htr, hn]; exact g.ids.tlt⟩,
    ⟨by rw [hq, hex]; exact g.life.one, by rw [hq, hex, hst]; exact g.life.idle, by rw [hst, htk]; exact g.life.trk, ?_⟩,
    by rw [htk, hq, hex, htr]; exact g.trq, by rw [hdone]; exact g.done, by rw [hrt]; exact g.reset⟩
  have := g.life.res
  rw [hrs]
  cases hl : s.resident with
  | none => rw [hl] at this; simpa [hsp] using this
  | some l =>
    rw [hl] at this
    simp only [hq, hex, hsp, hrp, hst]
    exact this

theorem good_simulate {s : State} (g : Good s) (j : Nat) : Good (simulate s j) := by
  unfold simulate
  split
  · exact g
  · exact g.congr rfl rfl rfl rfl rfl rfl rfl rfl rfl rfl rfl rfl rfl rfl

theorem commit_of_done_nil {s : State} (h : s.done = []) : commit s = s := by
  cases s
  simp_all [commit]

theorem good_of_mark {s s' : State} (g : Good s) (hv : view s' = view s) (hobjs : s'.objs = s.objs)
    (hev : s'.events = s.events) (hdone : s'.done = s.done) : Good s' := by
  obtain ⟨a1, a2, a3, a4, a5, a6, a7, a8, a9, a10, a11, a12, a13, a14, a15, a16, a17⟩ := view_eq hv
  exact g.congr a16 a15 a1 a2 hdone hobjs hev a17 a3 a4 a5 a6 a7 a8

theorem good_force_core {s : State} (g : Good s) (tgt : Nat) (b : Bool) :
    Good (if b = true then (s, Reply.err) else
      match markForced s tgt with
      | none => (s, Reply.err)
      | some s' => (commit s', Reply.ok)).1 := by
  split
  · exact g
  · cases hmk : markForced s tgt with
    | none => exact g
    | some s' =>
      obtain ⟨hv, hobjs, hev, hdone⟩ := markForced_frame _ s' _ hmk
      have g' := good_of_mark g hv hobjs hev hdone
      simp only
      rw [commit_of_done_nil g'.done]; exact g'

theorem good_force {s : State} (g : Good s) (i : Nat) : Good (force s i).1 := by
  unfold force
  cases getTrack s.track i with
  | none => simp only; rw [commit_of_done_nil g.done]; exact g
  | some t =>
    simp only
    exact good_force_core g _ _

theorem good_enqueue_life {s : State} (g : Good s) (n : Name) (hn : (⟨s.nextId, n, false⟩ : Req).isUod = false)
    (hfl : lifeInFlight s = false) :
    Good { s with nextId := s.nextId + 1, queue := s.queue ++ [⟨s.nextId, n, false⟩] } := by
  have hall : ∀ x ∈ s.queue ++ s.executing, x.isUod = true := by
    intro x hx
    simp only [lifeInFlight, List.any_eq_false] at hfl
    have := hfl x hx
    cases hx : x.name <;> simp_all [Req.isUod]
  have hres : s.resident = none := by
    have := g.life.res
    cases hl : s.resident with
    | none => rfl
    | some l =>
      rw [hl] at this
      obtain ⟨hc, _, ⟨r, hr, hrn⟩, _⟩ := this
      have := hall r (List.mem_append_right _ hr)
      rcases hc with rfl | rfl | rfl <;> simp_all [Req.isUod]
  refine g.enqueue ⟨s.nextId, n, false⟩ rfl ?_ ?_ ?_ ?_ ?_ ?_ ?_ ?_ ?_ ?_ ?_ ?_ ?_ ?_ hres (fun _ => hall)
    (by intro h; rw [hn] at h; cases h)
  all_goals try rfl
  simp [hn]

theorem good_user {s : State} (g : Good s) (n : Name) : Good (user s n).1 := by
  unfold user
  cases n with
  | uod k => exact g
  | start =>
    simp only
    split
    · exact g
    · split
      · exact g
      · exact good_enqueue_life g .start rfl (by simpa using ‹¬lifeInFlight s = true›)
  | stop =>
    simp only
    split
    · exact g
    · split
      · exact g
      · exact good_enqueue_life g .stop rfl (by simpa using ‹¬lifeInFlight s = true›)
  | restart =>
    simp only
    split
    · exact g
    · split
      · exact g
      · exact good_enqueue_life g .restart rfl (by simpa using ‹¬lifeInFlight s = true›)

/-! ### commit -/

theorem mem_commit_executing (s : State) (r : Req) :
    r ∈ (commit s).executing ↔ r ∈ s.executing ∧ r.id ∉ s.done := by
  simp [commit]

theorem Core.commit {s : State} (h : Core s) : Core (commit s) := by
  refine ⟨h.serials, ?_, ?_, h.dead, h.excl, h.trace, h.evBound⟩
  · exact List.Nodup.sublist (List.Sublist.map _ List.filter_sublist) h.ids
  · intro o ho hm
    obtain ⟨a, b, r, hr, h1, h2, h3⟩ := h.live o ho hm
    exact ⟨a, b, r, (mem_commit_executing s r).mpr ⟨hr, h3⟩, h1, h2, by show r.id ∉ ([] : List Nat); simp⟩

/-- Committing after some UOD requests were marked done. -/
theorem good_commit {s s1 : State} (g : Good s) (h1 : Core s1) (hv : view s1 = view s)
    (hd : ∀ i ∈ s1.done, ∃ c ∈ s.executing, c.id = i ∧ (c.isUod = true ∨ s.resident = none)) :
    Good (commit s1) := by
  obtain ⟨a1, a2, a3, a4, a5, a6, a7, a8, a9, a10, a11, a12, a13, a14, a15, a16, a17⟩ := view_eq hv
  have hsub : ∀ x, x ∈ (commit s1).executing → x ∈ s.executing := fun x hx => by
    rw [← a2]; exact ((mem_commit_executing s1 x).mp hx).1
  have hlife : s.resident ≠ none → ∀ x ∈ s.executing, x.isUod = false → x ∈ (commit s1).executing := by
    intro hres x hx hu
    rw [mem_commit_executing, a2]
    refine ⟨hx, fun hi => ?_⟩
    obtain ⟨c, hc, e, hcu⟩ := hd _ hi
    have : c = x := req_id_inj g.core.ids hc hx e
    rcases hcu with hcu | hcu
    · rw [this, hu] at hcu; cases hcu
    · exact hres hcu
  have hq : (commit s1).queue = s.queue := a1
  have hsubl : ((commit s1).queue ++ (commit s1).executing).Sublist (s.queue ++ s.executing) := by
    rw [hq]
    apply List.Sublist.append_left
    show (s1.executing.filter _).Sublist s.executing
    rw [← a2]; exact List.filter_sublist
  have hmem : ∀ x ∈ (commit s1).queue ++ (commit s1).executing, x ∈ s.queue ++ s.executing :=
    fun x hx => hsubl.subset hx
  refine ⟨by show s1.cfg.fixCancel = true; rw [a16]; exact g.fix, h1.commit, ?_, ?_, ?_, rfl,
    by show s1.resetTo = none; rw [a6]; exact g.reset⟩
  · refine ⟨List.Nodup.sublist (List.Sublist.map _ hsubl) g.ids.nodup, ?_, ?_, ?_⟩
    · intro x hx; show x.id < s1.nextId; rw [a15]; exact g.ids.lt x (hmem x hx)
    · show (s1.track.map (·.id)).Nodup; rw [a17]; exact g.ids.tnodup
    · show ∀ i ∈ s1.track.map (·.id), i < s1.nextId; rw [a17, a15]; exact g.ids.tlt
  · refine ⟨?_, ?_, ?_, ?_⟩
    · intro a ha b hb; exact g.life.one a (hmem a ha) b (hmem b hb)
    · intro hs x hx
      exact g.life.idle (by rw [← a7]; exact hs) x (hmem x hx)
    · show s1.started = true → s1.tracking = true; rw [a7, a3]; exact g.life.trk
    · show match s1.resident with | none => _ | some l => _
      rw [a4]
      have := g.life.res
      cases hl : s.resident with
      | none => rw [hl] at this; simpa [commit, a8] using this
      | some l =>
        rw [hl] at this
        obtain ⟨c1, c2, ⟨r, hr, hrn⟩, c4, c5⟩ := this
        have hru : r.isUod = false := by
          rcases c1 with rfl | rfl | rfl <;> simp_all [Req.isUod]
        have hlife := hlife (by rw [hl]; simp)
        refine ⟨c1, by rw [hq]; exact c2, ⟨r, hlife r hr hru, hrn⟩, ?_, ?_⟩
        · intro hp
          obtain ⟨d1, d2, d3⟩ := c4 hp
          refine ⟨by show s1.stopping = true; rw [a8]; exact d1, fun x hx => d2 x (hsub x hx), ?_⟩
          intro hn
          obtain ⟨p, e1, e2, e3⟩ := d3 hn
          exact ⟨p, by show s1.restartPending = some p; rw [a5]; exact e1,
            hlife p e2 (by simp [Req.isUod, e3]), e3⟩
        · intro hp
          obtain ⟨d1, d2⟩ := c5 hp
          exact ⟨by show s1.stopping = false; rw [a8]; exact d1, by show s1.started = false; rw [a7]; exact d2⟩
  · intro ht x hx hu
    show x.id ∈ s1.track.map (·.id)
    rw [a17]
    exact g.trq (by rw [← a3]; exact ht) x (hmem x hx) hu

/-! ### cancel_instruction -/

/-- Objects and events changed (invariant re-established), nothing else that `Good` reads. -/
theorem Good.of_core {s s' : State} (g : Good s) (hc : Core s') (hv : view s' = view s)
    (hdone : s'.done = s.done) : Good s' := by
  have := good_commit g hc hv (by rw [hdone, g.done]; simp)
  rwa [commit_of_done_nil (by rw [hdone]; exact g.done)] at this

theorem Core.flagCancelled {s : State} (h : Core s) (ser : Nat) :
    Core { s with objs := modObj s.objs ser (fun o => { o with cancelled := true }) } := by
  apply h.update (fun o => if o.serial == ser then { o with cancelled := true } else o) []
  · rfl
  · simp
  · rfl
  · rfl
  · intro o; split <;> simp
  · intro o _; split <;> simp
  · intro o ho hm
    have hm' : o.inMap = true := by split at hm <;> simpa using hm
    obtain ⟨a, b, r, hr, h1, h2, h3⟩ := h.live o ho hm'
    split <;> exact ⟨a, b, r, hr, h1, h2, h3⟩
  · intro o ho hm
    have hm' : o.inMap = false := by split at hm <;> simpa using hm
    have := h.dead o ho hm'
    split <;> simpa using this
  · intro o ho
    rw [List.append_nil, h.trace o ho]
    split
    · exact (expected_congr rfl rfl rfl rfl rfl).symm
    · rfl
  · simp

theorem good_cancelStarted {s : State} (g : Good s) (i : Nat) {o : Cmd} (ho : o ∈ s.objs) :
    Good (cancelStarted s i o).1 := by
  unfold cancelStarted
  split
  · exact g
  · simp only
    split
    · -- the request is there: `_cancel_command`, then commit
      rename_i r hreq
      have hr : r ∈ s.executing := by
        split at hreq <;> exact List.mem_of_find?_eq_some hreq
      simp only
      cases hu : r.isUod with
      | false =>
        rw [cancelCommand_life s r hu, commit_of_done_nil g.done]; exact g
      | true =>
        obtain ⟨k, hk⟩ : ∃ k, r.name = .uod k := by
          cases hn : r.name <;> simp_all [Req.isUod]
        have q := cancelCommand_spec g.core g.fix hr hk (fun ht => g.trackEx ht r hr hu)
        apply good_commit g q.core q.view
        intro j hj
        rcases (q.done j).mp hj with h0 | rfl
        · rw [g.done] at h0; cases h0
        · exact ⟨r, hr, rfl, Or.inl hu⟩
    · -- best effort clean-up
      have h1 := g.core.flagCancelled o.serial
      have g1 : Good { s with objs := modObj s.objs o.serial (fun o => { o with cancelled := true }) } :=
        g.of_core h1 rfl rfl
      split
      · exact g1
      · rename_i s2 hmk
        obtain ⟨hv, hobjs, hev, hdone⟩ := markCancelled_frame _ s2 _ _ hmk
        have g2 : Good s2 := good_of_mark g1 hv hobjs hev hdone
        simp only
        by_cases hf : o.finalized = true
        · simp only [hf, Bool.not_true, Bool.false_eq_true, ↓reduceIte]
          rw [commit_of_done_nil g2.done]; exact g2
        · have hf : o.finalized = false := by simpa using hf
          simp only [hf, Bool.not_false, ↓reduceIte]
          have hm : o.inMap = true := by
            cases hx : o.inMap with
            | true => rfl
            | false => rw [g.core.dead o ho hx] at hf; cases hf
          obtain ⟨_, hex, _, _, _, _, _, _, _, _, _, _, _, _, _, hcfg, _⟩ := view_eq hv
          have hk := (g.core.killObj true ho hm (s2 := s2) (by rw [hobjs]; simp [modObj]) hev hex hdone hcfg).1
          have : Good (finalizeObj s2 o) := g.of_core hk (by rw [view_finalizeObj, hv]; rfl) (by simp [hdone])
          show Good (commit (finalizeObj s2 o))
          rw [commit_of_done_nil this.done]
          exact this

theorem trackObj_mem {s : State} {t : Track} {o : Cmd} (h : trackObj s t = some o) : o ∈ s.objs := by
  unfold trackObj at h
  split at h
  · exact (getObj_some h).1
  · cases h

theorem good_cancel {s : State} (g : Good s) (i : Nat) : Good (cancel s i).1 := by
  unfold cancel
  cases getTrack s.track i with
  | none => exact g
  | some t =>
    simp only
    cases ho : trackObj s t with
    | some o => exact good_cancelStarted g i (trackObj_mem ho)
    | none =>
      simp only
      split
      · exact g
      · split
        · exact g
        · rename_i s' hmk
          obtain ⟨hv, hobjs, hev, hdone⟩ := markCancelled_frame _ s' _ _ hmk
          have g' := good_of_mark g hv hobjs hev hdone
          simp only
          rw [commit_of_done_nil g'.done]; exact g'

end OPM.CmdMgr
