import OPM.Model.ArgRegex
/-! Helper lemmas for C22, introspection: the scanners of uod.py invert the builders of regex.py. -/
namespace OPM.ArgRegex

/-! ### `str.index` -/

theorem findSub_self (pat rest : Str) (h : pat ≠ []) : findSub pat (pat ++ rest) = some 0 := by
  cases pat with
  | nil => exact absurd rfl h
  | cons a p =>
    have : (a :: p).isPrefixOf (a :: p ++ rest) = true :=
      List.isPrefixOf_iff_prefix.mpr (List.prefix_append _ _)
    simp only [List.cons_append] at this
    simp [findSub, this]

theorem findSub_cons_of_not_prefix (pat : Str) (c : Char) (x : Str) (h : pat.isPrefixOf (c :: x) = false) :
    findSub pat (c :: x) = (findSub pat x).map (· + 1) := by
  simp [findSub, h]

/-- No occurrence of the two characters `a b` next to each other inside `t`. -/
def pairFree (a b : Char) : Str → Bool
  | [] => true
  | [_] => true
  | x :: y :: rest => !(x == a && y == b) && pairFree a b (y :: rest)

/-- Skipping a segment that cannot contain the start of the pattern `a b …`. -/
theorem findSub_skip (a b : Char) (p : Str) : ∀ (t rest : Str), pairFree a b t = true →
    (t.getLast? = some a → rest.head? ≠ some b) →
    findSub (a :: b :: p) (t ++ rest) = (findSub (a :: b :: p) rest).map (· + t.length) := by
  intro t
  induction t with
  | nil => intro rest _ _; simp
  | cons x t ih =>
    intro rest hpf hlast
    cases t with
    | nil =>
      have hnp : (a :: b :: p).isPrefixOf (x :: rest) = false := by
        cases rest with
        | nil => simp [List.isPrefixOf]
        | cons y r =>
          by_cases hx : x = a
          · subst hx
            have : y ≠ b := by
              intro e; subst e; exact hlast rfl rfl
            simp [List.isPrefixOf, Ne.symm this]
          · simp [List.isPrefixOf, Ne.symm hx]
      simp [findSub, hnp]
    | cons y t' =>
      simp only [pairFree, Bool.and_eq_true, Bool.not_eq_true', Bool.and_eq_false_imp, beq_iff_eq] at hpf
      have hnp : (a :: b :: p).isPrefixOf (x :: y :: t' ++ rest) = false := by
        by_cases hx : x = a
        · have : y ≠ b := by
            intro e
            have := hpf.1 hx
            simp [e] at this
          simp [List.isPrefixOf, Ne.symm this]
        · simp [List.isPrefixOf, Ne.symm hx]
      have hl : (y :: t').getLast? = some a → rest.head? ≠ some b := by
        intro h; apply hlast; simpa [List.getLast?_cons_cons] using h
      have := ih rest hpf.2 hl
      simp only [List.cons_append] at this hnp ⊢
      rw [findSub_cons_of_not_prefix _ _ _ hnp, this]
      cases findSub (a :: b :: p) rest with
      | none => rfl
      | some k => simp only [Option.map_some, List.length_cons, Option.some.injEq]; omega

theorem isPrefixOf_of_length_le (pat y b : Str) (h : pat.length ≤ y.length) :
    pat.isPrefixOf (y ++ b) = pat.isPrefixOf y := by
  induction pat generalizing y with
  | nil => simp
  | cons a p ih =>
    cases y with
    | nil => simp at h
    | cons c y' =>
      simp only [List.cons_append, List.isPrefixOf]
      rw [ih y' (by simp at h; omega)]

theorem findSub_le_length (pat : Str) : ∀ (x : Str) (k : Nat), findSub pat x = some k → k + pat.length ≤ x.length := by
  intro x
  induction x with
  | nil =>
    intro k h
    simp only [findSub] at h
    split at h
    · rename_i he; cases h; simp [List.isEmpty_iff.mp he]
    · cases h
  | cons c x ih =>
    intro k h
    simp only [findSub] at h
    split at h
    · rename_i hp
      cases h
      have := (List.isPrefixOf_iff_prefix.mp hp).length_le
      simpa using this
    · cases hf : findSub pat x with
      | none => simp [hf] at h
      | some k' =>
        simp only [hf, Option.map_some, Option.some.injEq] at h
        have := ih k' hf
        simp; omega

/-- An occurrence found in `x` is still the first one after appending text. -/
theorem findSub_append_of_some (pat : Str) : ∀ (x b : Str) (k : Nat), findSub pat x = some k →
    findSub pat (x ++ b) = some k := by
  intro x
  induction x with
  | nil =>
    intro b k h
    simp only [findSub] at h
    split at h
    · rename_i he
      cases h
      have : pat = [] := List.isEmpty_iff.mp he
      subst this
      cases b <;> simp [findSub]
    · cases h
  | cons c x ih =>
    intro b k h
    simp only [findSub] at h
    simp only [List.cons_append, findSub]
    split at h
    · rename_i hp
      cases h
      have hp' : pat.isPrefixOf (c :: x ++ b) = true := by
        have := List.isPrefixOf_iff_prefix.mp hp
        exact List.isPrefixOf_iff_prefix.mpr (this.trans (List.prefix_append _ _))
      simp only [List.cons_append] at hp'
      simp [hp']
    · rename_i hp
      cases hf : findSub pat x with
      | none => simp [hf] at h
      | some k' =>
        simp only [hf, Option.map_some, Option.some.injEq] at h
        have hlen := findSub_le_length pat x k' hf
        have hnp : pat.isPrefixOf (c :: (x ++ b)) = false := by
          have := isPrefixOf_of_length_le pat (c :: x) b (by simp; omega)
          simp only [List.cons_append] at this
          rw [this]; exact Bool.eq_false_iff.mpr hp
        simp [hnp, ih b k' hf, h]

/-! ### escaped text -/

/-- Escaping with a set `sp` of characters that get a backslash. -/
def escWith (sp : Char → Bool) (s : Str) : Str := s.flatMap (fun c => if sp c then ['\\', c] else [c])

/-- `sp` escapes at least the characters the scanners look at. -/
structure Covers (sp : Char → Bool) : Prop where
  bs : sp '\\' = true
  bar : sp '|' = true
  op : sp '(' = true
  cl : sp ')' = true

theorem escape_eq : escape = escWith isSpecial := by
  funext s; rfl

def isSpecialUnit (c : Char) : Bool := c == '/' || isSpecial c

theorem escapeUnit_eq : escapeUnit = escWith isSpecialUnit := by
  funext s
  simp only [escapeUnit, escWith, escChar, isSpecialUnit]
  congr 1
  funext c
  by_cases h : c = '/'
  · subst h; simp
  · simp [h]

theorem covers_special : Covers isSpecial := ⟨by decide, by decide, by decide, by decide⟩
theorem covers_specialUnit : Covers isSpecialUnit := ⟨by decide, by decide, by decide, by decide⟩

theorem escWith_cons (sp : Char → Bool) (c : Char) (x : Str) :
    escWith sp (c :: x) = (if sp c then ['\\', c] else [c]) ++ escWith sp x := by
  simp [escWith]

/-- Text made of plain characters (none of `\ | ( )`), backslash pairs and separators `|`. -/
inductive EscText : Str → Prop
  | nil : EscText []
  | plain (c : Char) (t : Str) : c ≠ '\\' → c ≠ '|' → c ≠ '(' → c ≠ ')' → EscText t → EscText (c :: t)
  | pair (c : Char) (t : Str) : EscText t → EscText ('\\' :: c :: t)
  | bar (t : Str) : EscText t → EscText ('|' :: t)

theorem escText_escWith_append (sp : Char → Bool) (hc : Covers sp) (x t : Str) (ht : EscText t) :
    EscText (escWith sp x ++ t) := by
  induction x with
  | nil => simpa [escWith] using ht
  | cons c x ih =>
    rw [escWith_cons]
    cases h : sp c
    · simp only [Bool.false_eq_true, if_false, List.cons_append, List.nil_append]
      have ne : ∀ d, sp d = true → c ≠ d := fun d hd e => by rw [e, hd] at h; cases h
      exact EscText.plain c _ (ne _ hc.bs) (ne _ hc.bar) (ne _ hc.op) (ne _ hc.cl) ih
    · simp only [if_true, List.cons_append, List.nil_append]
      exact EscText.pair c _ ih

theorem escText_joinAlts (sp : Char → Bool) (hc : Covers sp) (xs : List Str) :
    EscText (joinAlts (xs.map (escWith sp))) := by
  induction xs with
  | nil => exact EscText.nil
  | cons x xs ih =>
    cases xs with
    | nil =>
      have := escText_escWith_append sp hc x [] EscText.nil
      simpa [joinAlts] using this
    | cons y ys =>
      have := escText_escWith_append sp hc x _ (EscText.bar _ ih)
      simpa [joinAlts] using this

theorem escText_head_ne_open (y : Char) (r : Str) (h : EscText (y :: r)) : y ≠ '(' := by
  cases h with
  | plain _ _ _ _ h3 _ _ => exact h3
  | pair _ _ _ => decide
  | bar _ _ => decide

theorem pairFree_escText (a : Char) (ha : a ≠ '\\') (t : Str) (h : EscText t) : pairFree a '(' t = true := by
  induction h with
  | nil => rfl
  | plain c t _ _ _ _ ht ih =>
    cases t with
    | nil => rfl
    | cons y r =>
      have := escText_head_ne_open y r ht
      simp [pairFree, this, ih]
  | pair c t ht ih =>
    cases t with
    | nil => simp [pairFree, Ne.symm ha]
    | cons y r =>
      have := escText_head_ne_open y r ht
      simp [pairFree, Ne.symm ha, this, ih]
  | bar t ht ih =>
    cases t with
    | nil => rfl
    | cons y r =>
      have := escText_head_ne_open y r ht
      simp [pairFree, this, ih]

/-- `get_units`: the unit alternatives end at the first unescaped `)`. -/
theorem takeUnitPart_escText (t rest : Str) (h : EscText t) : takeUnitPart (t ++ ')' :: rest) = t := by
  induction h with
  | nil => cases rest <;> simp [takeUnitPart]
  | plain c t h1 _ _ h4 _ ih =>
    cases hh : t ++ ')' :: rest with
    | nil => simp at hh
    | cons d r =>
      rw [hh] at ih
      rw [List.cons_append, hh]
      simp [takeUnitPart, h1, h4, ih]
  | pair c t _ ih => simp [takeUnitPart, ih]
  | bar t _ ih =>
    cases hh : t ++ ')' :: rest with
    | nil => simp at hh
    | cons d r =>
      rw [hh] at ih
      rw [List.cons_append, hh]
      simp [takeUnitPart, ih]

/-! ### `split_alternatives` -/

theorem scanAlts_plain (c : Char) (more cur : Str) (h1 : c ≠ '\\') (h2 : c ≠ '|') :
    scanAlts (c :: more) cur = scanAlts more (cur ++ [c]) := by
  cases more with
  | nil => simp [scanAlts, h2]
  | cons d r => simp [scanAlts, h1, h2]

theorem scanAlts_pair (c : Char) (more cur : Str) :
    scanAlts ('\\' :: c :: more) cur = scanAlts more (cur ++ ['\\', c]) := by
  simp [scanAlts]

theorem scanAlts_bar (more cur : Str) :
    scanAlts ('|' :: more) cur = (if cur.isEmpty then [] else [cur]) ++ scanAlts more [] := by
  cases more with
  | nil => simp [scanAlts]
  | cons d r => simp [scanAlts]

theorem scanAlts_escWith (sp : Char → Bool) (hc : Covers sp) (x more cur : Str) :
    scanAlts (escWith sp x ++ more) cur = scanAlts more (cur ++ escWith sp x) := by
  induction x generalizing cur with
  | nil => simp [escWith]
  | cons c x ih =>
    rw [escWith_cons]
    cases h : sp c
    · simp only [Bool.false_eq_true, if_false, List.cons_append, List.nil_append]
      have ne : ∀ d, sp d = true → c ≠ d := fun d hd e => by rw [e, hd] at h; cases h
      rw [scanAlts_plain c _ _ (ne _ hc.bs) (ne _ hc.bar), ih]; simp
    · simp only [if_true, List.cons_append, List.nil_append]
      rw [scanAlts_pair, ih]; simp

theorem escWith_ne_nil (sp : Char → Bool) (x : Str) (h : x ≠ []) : escWith sp x ≠ [] := by
  cases x with
  | nil => exact absurd rfl h
  | cons c x => rw [escWith_cons]; split <;> simp

theorem scanAlts_joinAlts (sp : Char → Bool) (hc : Covers sp) (xs : List Str) (hne : ∀ x ∈ xs, x ≠ []) :
    scanAlts (joinAlts (xs.map (escWith sp))) [] = xs.map (escWith sp) := by
  induction xs with
  | nil => simp [joinAlts, scanAlts]
  | cons x xs ih =>
    have hx : escWith sp x ≠ [] := escWith_ne_nil sp x (hne x (by simp))
    have hxe : (escWith sp x).isEmpty = false := by
      cases h : escWith sp x with
      | nil => exact absurd h hx
      | cons _ _ => rfl
    cases xs with
    | nil =>
      have := scanAlts_escWith sp hc x [] []
      simp only [List.append_nil, List.nil_append] at this
      simp [joinAlts, this, scanAlts, hxe]
    | cons y ys =>
      have h2 := ih (fun z hz => hne z (by simp [hz]))
      simp only [List.map_cons, joinAlts] at h2 ⊢
      rw [scanAlts_escWith sp hc x _ [], scanAlts_bar, h2]
      simp [hxe]

theorem unescape_escWith (sp : Char → Bool) (hc : Covers sp) (x : Str) : unescape (escWith sp x) = x := by
  induction x with
  | nil => simp [escWith, unescape]
  | cons c x ih =>
    rw [escWith_cons]
    cases h : sp c
    · simp only [Bool.false_eq_true, if_false, List.cons_append, List.nil_append]
      have ne : c ≠ '\\' := fun e => by rw [e, hc.bs] at h; cases h
      cases hh : escWith sp x with
      | nil => rw [hh] at ih; simp [unescape, ← ih]
      | cons d r => rw [hh] at ih; simp [unescape, ne, ih]
    · simp only [if_true, List.cons_append, List.nil_append]
      simp [unescape, ih]

theorem escWith_ne_never (sp : Char → Bool) (hc : Covers sp) (x : Str) : escWith sp x ≠ never := by
  cases x with
  | nil => simp [escWith, never]
  | cons c x =>
    rw [escWith_cons]
    cases h : sp c
    · have ne : c ≠ '(' := fun e => by rw [e, hc.op] at h; cases h
      simp [never, ne]
    · simp [never]

/-- `split_alternatives` inverts `"|".join(escape(x) for x in xs)`. -/
theorem splitAlts_joinAlts (sp : Char → Bool) (hc : Covers sp) (xs : List Str) (hne : ∀ x ∈ xs, x ≠ []) :
    splitAlts (joinAlts (xs.map (escWith sp))) = xs := by
  unfold splitAlts
  rw [scanAlts_joinAlts sp hc xs hne]
  have hf : (xs.map (escWith sp)).filter (fun x => decide (x ≠ never)) = xs.map (escWith sp) := by
    apply List.filter_eq_self.mpr
    intro y hy
    obtain ⟨x, _, rfl⟩ := List.mem_map.mp hy
    simpa using escWith_ne_never sp hc x
  rw [hf, List.map_map]
  conv => rhs; rw [← List.map_id xs]
  apply List.map_congr_left
  intro x _
  exact unescape_escWith sp hc x

theorem splitAlts_never : splitAlts never = [] := by decide

/-! ### the categorical pattern -/

theorem altsOrNever_cases (xs : List Str) :
    (xs = [] ∧ altsOrNever xs = never) ∨ (xs ≠ [] ∧ altsOrNever xs = joinAlts (xs.map (escWith isSpecial))) := by
  cases xs with
  | nil => exact Or.inl ⟨rfl, rfl⟩
  | cons x xs => exact Or.inr ⟨by simp, by simp [altsOrNever, escape_eq]⟩

theorem pairFree_alts (a : Char) (ha : a ≠ '\\') (xs : List Str) : pairFree a '(' (altsOrNever xs) = true := by
  rcases altsOrNever_cases xs with ⟨_, h⟩ | ⟨_, h⟩
  · rw [h]; simp [pairFree, never]
  · rw [h]; exact pairFree_escText a ha _ (escText_joinAlts isSpecial covers_special xs)

theorem splitAlts_alts (xs : List Str) (hne : ∀ x ∈ xs, x ≠ []) : splitAlts (altsOrNever xs) = xs := by
  rcases altsOrNever_cases xs with ⟨h0, h⟩ | ⟨_, h⟩
  · rw [h, h0]; exact splitAlts_never
  · rw [h]; exact splitAlts_joinAlts isSpecial covers_special xs hne

theorem mem_namedGroups_suffix (x : Str) (pre t : Str) (h : x ∈ namedGroups t) : x ∈ namedGroups (pre ++ t) := by
  induction pre with
  | nil => exact h
  | cons c pre ih => simp only [List.cons_append, namedGroups]; exact List.mem_append_right _ ih

theorem namedGroups_option (r : Str) : (namedGroups (catPre ++ r)).contains nameOption = true := by
  rw [List.contains_iff_mem]
  have e : catPre ++ r = ['^', '(', '?', 'P'] ++ ('<' :: ("option".toList ++ '>' :: '(' :: r)) := by rfl
  rw [e]
  apply mem_namedGroups_suffix
  simp [namedGroups, nameOption, isWord]

theorem findSub_tagOption (r : Str) : findSub tagOption (catPre ++ r) = some 4 :=
  findSub_append_of_some tagOption catPre r 4 (by decide)

theorem findSub_catMid1 (ex : List Str) (r : Str) :
    findSub catMid1 (catPre ++ (altsOrNever ex ++ (catMid1 ++ r))) = some (13 + (altsOrNever ex).length) := by
  have h1 := findSub_skip '|' '(' [] catPre (altsOrNever ex ++ (catMid1 ++ r)) (by decide) (by simp [catPre])
  have h2 := findSub_skip '|' '(' [] (altsOrNever ex) (catMid1 ++ r) (pairFree_alts '|' (by decide) ex)
    (by intro _; simp [catMid1])
  have h3 := findSub_self catMid1 r (by simp [catMid1])
  show findSub ['|', '('] _ = _
  rw [h1, h2]
  show Option.map _ (Option.map _ (findSub catMid1 (catMid1 ++ r))) = _
  rw [h3]
  simp [catPre]; omega

theorem findSub_catMid2 (ex ad : List Str) (r : Str) :
    findSub catMid2 (catPre ++ (altsOrNever ex ++ (catMid1 ++ (altsOrNever ad ++ (catMid2 ++ r))))) =
      some (13 + (altsOrNever ex).length + 2 + (altsOrNever ad).length) := by
  have h1 := findSub_skip ')' '(' ['\\', '+', '('] catPre
    (altsOrNever ex ++ (catMid1 ++ (altsOrNever ad ++ (catMid2 ++ r)))) (by decide) (by simp [catPre])
  have h2 := findSub_skip ')' '(' ['\\', '+', '('] (altsOrNever ex) (catMid1 ++ (altsOrNever ad ++ (catMid2 ++ r)))
    (pairFree_alts ')' (by decide) ex) (by intro _; simp [catMid1])
  have h3 := findSub_skip ')' '(' ['\\', '+', '('] catMid1 (altsOrNever ad ++ (catMid2 ++ r)) (by decide)
    (by simp [catMid1])
  have h4 := findSub_skip ')' '(' ['\\', '+', '('] (altsOrNever ad) (catMid2 ++ r)
    (pairFree_alts ')' (by decide) ad) (by intro _; simp [catMid2])
  have h5 := findSub_self catMid2 r (by simp [catMid2])
  show findSub [')', '(', '\\', '+', '('] _ = _
  rw [h1, h2, h3, h4]
  show Option.map _ (Option.map _ (Option.map _ (Option.map _ (findSub catMid2 (catMid2 ++ r))))) = _
  rw [h5]
  simp [catPre, catMid1]; omega

theorem slice_mid (p m r : Str) : slice (p ++ (m ++ r)) p.length (p.length + m.length) = m := by
  unfold slice
  rw [← List.append_assoc, show p.length + m.length = (p ++ m).length by simp, List.take_left, List.drop_left]

/-! ### the numeric pattern -/

def unitPre0 : Str := [' ', '?', '(', '?', 'P']

theorem unitPre_eq : unitPre = unitPre0 ++ tagUnit := rfl

/-- Everything before `<number_unit>` in `RegexNumber(...)`. -/
def numHead (nn io : Bool) : Str := numPre ++ numCore nn io ++ numMid ++ unitPre0

theorem buildNumber_units (units : List Str) (nn io : Bool) (h : units ≠ []) :
    buildNumber units nn io =
      numHead nn io ++ (tagUnit ++ (joinAlts (units.map (escWith isSpecialUnit)) ++ ')' :: numPost)) := by
  have : units.isEmpty = false := by cases units <;> simp_all
  simp [buildNumber, unitPart, this, numHead, unitPre_eq, escapeUnit_eq]

theorem namedGroups_unit (pre r : Str) : (namedGroups (pre ++ (tagUnit ++ r))).contains nameUnit = true := by
  rw [List.contains_iff_mem]
  apply mem_namedGroups_suffix
  have e : tagUnit ++ r = '<' :: ("number_unit".toList ++ '>' :: r) := by rfl
  rw [e]
  simp [namedGroups, nameUnit, isWord]

theorem findSub_tagUnit (nn io : Bool) (r : Str) :
    findSub tagUnit (numHead nn io ++ (tagUnit ++ r)) = some (numHead nn io).length := by
  rw [← List.append_assoc]
  apply findSub_append_of_some
  cases nn <;> cases io <;> decide +kernel

theorem findSub_tagUnit_opt (nn io : Bool) (r : Str) :
    findSub tagUnit ('(' :: numHead nn io ++ (tagUnit ++ r)) = some ((numHead nn io).length + 1) := by
  rw [← List.append_assoc]
  apply findSub_append_of_some
  cases nn <;> cases io <;> decide +kernel

theorem unitPart_scan (units : List Str) (hne : ∀ u ∈ units, u ≠ []) (r : Str) :
    splitAlts (takeUnitPart (joinAlts (units.map (escWith isSpecialUnit)) ++ ')' :: r)) = units := by
  rw [takeUnitPart_escText _ _ (escText_joinAlts isSpecialUnit covers_specialUnit units)]
  exact splitAlts_joinAlts isSpecialUnit covers_specialUnit units hne

end OPM.ArgRegex
