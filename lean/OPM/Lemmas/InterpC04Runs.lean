import OPM.Lemmas.InterpC04Blocks
set_option linter.unusedSimpArgs false
set_option linter.unusedVariables false
/-!
C04 / C12 lemmas: whole ticks and whole runs.

 * `tick_micro`: a predicate on states that ignores the generator list and `inInterrupt` and is kept
   by every micro-step is kept by a tick (no assumption on the stacks, no fuel assumption);
 * `Run`: the schedules continuing from a state; `RunP P`: those whose every state satisfies `P`;
 * a cancelled, not activated Watch/Alarm does not start its body for as long as the flag stays
   (all methods); an ended block stays closed (blocks outside every Alarm, no Call macro).
-/
namespace OPM.Interp

/-! ### micro-step invariants over a tick -/

theorem runGid_micro (p : Prog) (M : St → Prop) (hb : Blind M)
    (hstep : ∀ s stack, M s → M (stepGen p s stack).1)
    (fuel : Nat) (s : St) (gid : Nat) (h : M s) : M (runGid p fuel s gid).1 := by
  unfold runGid
  split
  · exact h
  · rename_i g _
    have h1 := runGen_invariant p M hstep fuel s g.stack h
    rcases hr : runGen p fuel s g.stack with ⟨s1, st1, ok⟩
    rw [hr] at h1
    exact hb.gens s1 _ h1

theorem fold_micro (p : Prog) (M : St → Prop) (hb : Blind M)
    (hstep : ∀ s stack, M s → M (stepGen p s stack).1)
    (l : List Nat) (acc : St × Bool) (h : M acc.1) :
    M (l.foldl (fun (acc : St × Bool) gid =>
      let r := runGid p microFuel { acc.1 with inInterrupt := true } gid
      ({ r.1 with inInterrupt := false }, acc.2 && r.2)) acc).1 := by
  induction l generalizing acc with
  | nil => exact h
  | cons g l ih =>
    simp only [List.foldl]
    apply ih
    exact hb.flag _ _ (runGid_micro p M hb hstep microFuel _ g (hb.flag _ _ h))

/-- A blind predicate kept by every micro-step is kept by a tick. -/
theorem tick_micro (p : Prog) (M : St → Prop) (hb : Blind M)
    (hstep : ∀ s stack, M s → M (stepGen p s stack).1)
    (s : St) (i : TickIn) (h : M (prelude s i)) : M (tick p s i).1 := by
  unfold tick
  simp only []
  apply hb.gens
  apply fold_micro p M hb hstep
  exact runGid_micro p M hb hstep microFuel (prelude s i) 0 h

/-! ### runs -/

/-- Schedules continuing from a state: ticks that ran to their `EndTick`s (any clocks, any tag values) and
    cancel / force / completion / inject requests. -/
inductive Run (p : Prog) : St → St → Prop
  | refl (s : St) : Run p s s
  | tick (s s' : St) (i : TickIn) : Run p s s' → (tick p s' i).2 = true → Run p s (tick p s' i).1
  | cancel (s s' s'' : St) (n : Nat) : Run p s s' → cancel p s' n = some s'' → Run p s s''
  | force (s s' s'' : St) (n : Nat) : Run p s s' → force p s' n = some s'' → Run p s s''
  | complete (s s' : St) (n : Nat) : Run p s s' → Run p s (completeCmd s' n)
  | inject (s s' : St) (n : Nat) : Run p s s' → Run p s (inject p s' n)

/-- the runs all of whose states (after the first) satisfy `P` -/
inductive RunP (p : Prog) (P : St → Prop) : St → St → Prop
  | refl (s : St) : RunP p P s s
  | tick (s s' : St) (i : TickIn) : RunP p P s s' → (tick p s' i).2 = true → P (tick p s' i).1 →
      RunP p P s (tick p s' i).1
  | cancel (s s' s'' : St) (n : Nat) : RunP p P s s' → cancel p s' n = some s'' → P s'' → RunP p P s s''
  | force (s s' s'' : St) (n : Nat) : RunP p P s s' → force p s' n = some s'' → P s'' → RunP p P s s''
  | complete (s s' : St) (n : Nat) : RunP p P s s' → P (completeCmd s' n) → RunP p P s (completeCmd s' n)
  | inject (s s' : St) (n : Nat) : RunP p P s s' → P (inject p s' n) → RunP p P s (inject p s' n)

/-- A field projection that the four requests do not write. -/
structure ReqBlind {β : Type} (π : NodeRt → β) : Prop where
  canc : ∀ r : NodeRt, π { r with cancelled := true } = π r
  forc : ∀ r : NodeRt, π { r with forced := true } = π r
  comp : ∀ r : NodeRt, π { r with completed := true } = π r
  rec_ : ∀ r : NodeRt, π { r with hasRecord := true } = π r
  reg : ∀ r : NodeRt, π { r with interruptRegistered := true } = π r

theorem req_cancel {β : Type} (π : NodeRt → β) (hπ : ReqBlind π) (p : Prog) (s s' : St) (n k : Nat)
    (h : cancel p s n = some s') : π (s'.rt k) = π (s.rt k) := by
  unfold cancel at h
  split at h
  · cases h; simp only [rt_setRt]; split
    · rename_i e; subst e; exact hπ.canc _
    · rfl
  · cases h

theorem req_force {β : Type} (π : NodeRt → β) (hπ : ReqBlind π) (p : Prog) (s s' : St) (n k : Nat)
    (h : force p s n = some s') : π (s'.rt k) = π (s.rt k) := by
  unfold force at h
  split at h
  · cases h; simp only [rt_setRt]; split
    · rename_i e; subst e; exact hπ.forc _
    · rfl
  · cases h

theorem req_complete {β : Type} (π : NodeRt → β) (hπ : ReqBlind π) (s : St) (n k : Nat) :
    π ((completeCmd s n).rt k) = π (s.rt k) := by
  unfold completeCmd
  split
  · rfl
  · simp only [rt_setRt]; split
    · rename_i e; subst e; exact hπ.comp _
    · rfl

theorem req_inject {β : Type} (π : NodeRt → β) (hπ : ReqBlind π) (p : Prog) (s : St) (n k : Nat) :
    π ((inject p s n).rt k) = π (s.rt k) := by
  unfold inject
  have key : ∀ (l : List Nat) (s : St),
      π ((l.foldl (fun s k => setRt s k (fun r => { r with hasRecord := true })) s).rt k) = π (s.rt k) := by
    intro l
    induction l with
    | nil => intro s; rfl
    | cons a l ih =>
      intro s
      simp only [List.foldl]
      rw [ih]
      simp only [rt_setRt]
      split
      · rename_i e; subst e; exact hπ.rec_ _
      · rfl
  simp only [rt_registerInterrupt]
  split
  · rename_i e; subst e; rw [hπ.reg]; exact key _ s
  · exact key _ s

theorem reqBlind_blockEnded : ReqBlind (·.blockEnded) := ⟨fun _ => rfl, fun _ => rfl, fun _ => rfl, fun _ => rfl, fun _ => rfl⟩
theorem reqBlind_activated : ReqBlind (·.activated) := ⟨fun _ => rfl, fun _ => rfl, fun _ => rfl, fun _ => rfl, fun _ => rfl⟩

/-! ### an ended block stays closed -/

/-- **An ended block stays ended** over every continuation, for a block that no reset can reach (the method
    has no `Call macro`, the block is not inside an Alarm). -/
theorem block_stays_ended (p : Prog) (b : Nat) (hs : stable p b = true) (s s' : St)
    (he : (s.rt b).blockEnded = true) (hrun : Run p s s') : (s'.rt b).blockEnded = true := by
  obtain ⟨hnc, hna⟩ := stable_spec p b hs
  induction hrun with
  | refl => exact he
  | tick s' i _ _ ih =>
    refine tick_micro p (fun x => (x.rt b).blockEnded = true) ⟨fun _ _ h => h, fun _ _ h => h⟩ ?_ s' i ih
    intro x stack hx
    rcases stepGen_be_keep p x stack b hx with h | ⟨n, _, hal, hm⟩ | ⟨n, _, hcl⟩
    · exact h
    · exact absurd hm (hna n hal)
    · rw [hnc n] at hcl; cases hcl
  | cancel s' s'' n _ hc ih => rw [req_cancel _ reqBlind_blockEnded p s' s'' n b hc]; exact ih
  | force s' s'' n _ hc ih => rw [req_force _ reqBlind_blockEnded p s' s'' n b hc]; exact ih
  | complete s' n _ ih => rw [req_complete _ reqBlind_blockEnded]; exact ih
  | inject s' n _ ih => rw [req_inject _ reqBlind_blockEnded]; exact ih

/-- In a state in which block `b` has ended, no node below `b` (by the parent links) is entered. -/
theorem ended_block_closed (p : Prog) (s : St) (b : Nat) (hb : isBlock p b = true)
    (he : (s.rt b).blockEnded = true) (f : Frame) (below : List Frame) (c : Nat)
    (h : Frame.wrapEnter c ∈ outTop (stepFrame p s f below)) : b ∉ ancestors p c := by
  obtain ⟨n, inx, _, _, _, _, hend⟩ := enter_guard p s f below c h
  intro hmem
  unfold endedBlockAbove at hend
  have : (ancestors p c).any (fun a => isBlock p a && (getRt s a).blockEnded) = true := by
    rw [List.any_eq_true]
    exact ⟨b, hmem, by simp [hb, he]⟩
  rw [this] at hend
  cases hend

/-! ### cancelled: no body start for as long as the flag stays -/

/-- One tick, any method: if `w` is cancelled and not activated before the tick and still cancelled after it,
    then the tick did not start `w`'s body and `w` is still not activated. -/
theorem tick_cancelled_until_reset (p : Prog) (s : St) (i : TickIn) (w : Nat)
    (hw : isCond p w = true) (hq : AllQuiet p s) (hok : (tick p s i).2 = true)
    (ha : (s.rt w).activated = false) (hc' : ((tick p s i).1.rt w).cancelled = true) :
    bsCount (tick p s i).1 w = 0 ∧ ((tick p s i).1.rt w).activated = false ∧ AllQuiet p (tick p s i).1 := by
  let I : St → Prop := fun x => (x.rt w).cancelled = true → ((x.rt w).activated = false ∧ bsCount x w = 0)
  have hb : Blind I := ⟨fun _ _ h => h, fun _ _ h => h⟩
  have hN : ∀ x stack, (x.rt w).cancelled = false → ((stepGen p x stack).1.rt w).cancelled = false := by
    intro x stack hx
    by_cases h : ((stepGen p x stack).1.rt w).cancelled = true
    · have := stepGen_canc_le p x stack w h; rw [hx] at this; cases this
    · simpa using h
  have hM2 : ∀ x stack, ((x.rt w).cancelled = true → (x.rt w).activated = false) →
      (((stepGen p x stack).1.rt w).cancelled = true → ((stepGen p x stack).1.rt w).activated = false) := by
    intro x stack hx h
    have hcx := stepGen_canc_le p x stack w h
    by_cases ha2 : ((stepGen p x stack).1.rt w).activated = true
    · rcases stepGen_act p x stack w ha2 with h1 | ⟨_, c, _, hcc, _⟩
      · rw [hx hcx] at h1; cases h1
      · rw [hcx] at hcc; cases hcc
    · simpa using ha2
  have hrun : ∀ fuel x stack, I x → Quiet p stack → (runGen p fuel x stack).2.2 = true →
      I (runGen p fuel x stack).1 := by
    intro fuel x stack hi hqs hok' hcr
    have hcx : (x.rt w).cancelled = true := by
      by_cases h : (x.rt w).cancelled = true
      · exact h
      · have := runGen_invariant p (fun y => (y.rt w).cancelled = false) hN fuel x stack (by simpa using h)
        rw [hcr] at this; cases this
    obtain ⟨h1, h2⟩ := hi hcx
    refine ⟨?_, ?_⟩
    · exact runGen_invariant p (fun y => (y.rt w).cancelled = true → (y.rt w).activated = false) hM2 fuel x stack
        (fun _ => h1) hcr
    · have hquiet := (runGen_guard p fuel x stack (Or.inl hqs) hok').2 w hw
      by_cases hch : bsCount (runGen p fuel x stack).1 w = bsCount x w
      · rw [hch]; exact h2
      · have := hquiet hch; rw [h1] at this; cases this
  have h0 : I (prelude s i) := fun _ => ⟨ha, rfl⟩
  obtain ⟨g1, g2⟩ := tick_invariant p I hb hrun s i hq h0 hok
  obtain ⟨g3, g4⟩ := g2 hc'
  exact ⟨g4, g3, g1⟩

/-- **No body start after an accepted cancel, until the node is reset (whole runs, every method).**
    Let `w` be cancelled and not activated (what an accepted cancel leaves, see
    `cancel_accepted_only_before_activation`).  Along every continuation in which the `cancelled` flag is
    still set — it is cleared only by a reset that covers the node, `cancelled_sticks` — `w` stays not
    activated, and no tick starts its body. -/
theorem cancelled_never_runs_until_reset (p : Prog) (s s' : St) (w : Nat)
    (hw : isCond p w = true) (hq : AllQuiet p s) (ha : (s.rt w).activated = false)
    (hrun : RunP p (fun x => (x.rt w).cancelled = true) s s') :
    (s'.rt w).activated = false ∧ AllQuiet p s' ∧
    ∀ i, (tick p s' i).2 = true → ((tick p s' i).1.rt w).cancelled = true → bsCount (tick p s' i).1 w = 0 := by
  have main : (s'.rt w).activated = false ∧ AllQuiet p s' := by
    induction hrun with
    | refl => exact ⟨ha, hq⟩
    | tick s' i _ hok hP ih =>
      obtain ⟨_, g2, g3⟩ := tick_cancelled_until_reset p s' i w hw ih.2 hok ih.1 hP
      exact ⟨g2, g3⟩
    | cancel s' s'' n _ hc _ ih =>
      exact ⟨by rw [req_cancel _ reqBlind_activated p s' s'' n w hc]; exact ih.1, allQuiet_cancel p s' s'' n hc ih.2⟩
    | force s' s'' n _ hc _ ih =>
      exact ⟨by rw [req_force _ reqBlind_activated p s' s'' n w hc]; exact ih.1, allQuiet_force p s' s'' n hc ih.2⟩
    | complete s' n _ _ ih =>
      exact ⟨by rw [req_complete _ reqBlind_activated]; exact ih.1, allQuiet_complete p s' n ih.2⟩
    | inject s' n _ _ ih =>
      exact ⟨by rw [req_inject _ reqBlind_activated]; exact ih.1, allQuiet_inject p s' n ih.2⟩
  exact ⟨main.1, main.2, fun i hok hc => (tick_cancelled_until_reset p s' i w hw main.2 hok main.1 hc).1⟩

end OPM.Interp
