import OPM.Model.RunLog
import OPM.Lemmas.RunLog
/-! Helper lemmas for C15, part 2: the invariant of the tracking API. -/
namespace OPM.RunLog

/-- States after which the same invocation takes no more states (record level, all invocations at once). -/
def NoStateAfterConcl (sts : List St) : Prop :=
  sts.Pairwise (fun a b => a.inst = b.inst → a.name.conclusive = false)

/-- The invariant of `RuntimeInfo` + `Tracking`. -/
structure Good (s : TS) : Prop where
  /-- every state carries a time/tick that is not later than the tracker's clock -/
  clock : ∀ (i : Nat) (r : Rec), s.records[i]? = some r → ∀ st ∈ r.states, st.tick ≤ s.tick ∧ st.time ≤ s.time
  /-- the states of a record are in time/tick order -/
  ordered : ∀ (i : Nat) (r : Rec), s.records[i]? = some r → Ordered r.states
  /-- with the repair: no invocation has a state after a conclusive one -/
  concl : s.guard = true → ∀ (i : Nat) (r : Rec), s.records[i]? = some r → NoStateAfterConcl r.states
  /-- `_node_record_map` points at a record of that node -/
  nodeIdx : ∀ (n i : Nat), s.nodeMap n = some i → ∃ r : Rec, s.records[i]? = some r ∧ r.nodeId = n
  /-- every record's node is in `_node_record_map` -/
  nodeHas : ∀ (i : Nat) (r : Rec), s.records[i]? = some r → (s.nodeMap r.nodeId).isSome = true
  /-- `_instance_record_map` maps every instance id that occurs in a record to that record -/
  instIdx : ∀ (i : Nat) (r : Rec), s.records[i]? = some r → ∀ st ∈ r.states, s.instMap st.inst = some i
  /-- … and only points at records that have states -/
  instNonempty : ∀ (k i : Nat), s.instMap k = some i → ∃ r : Rec, s.records[i]? = some r ∧ r.states ≠ []
  /-- ids not yet handed out by `uuid4()` are unknown -/
  fresh : ∀ (k : Nat), (s.instMap k).isSome = true → k < s.nextInst

theorem good_init (e g : Bool) : Good (TS.init e g) := by
  constructor <;> simp [TS.init]

theorem getElem?_modify_some {l : List Rec} {f : Rec → Rec} {idx j : Nat} {r' : Rec}
    (h : (l.modify idx f)[j]? = some r') : ∃ r, l[j]? = some r ∧ r' = if idx = j then f r else r := by
  rw [List.getElem?_modify] at h
  cases hl : l[j]? with
  | none => simp [hl] at h
  | some r => simp [hl] at h; exact ⟨r, rfl, h.symm⟩

theorem modify_some {l : List Rec} {f : Rec → Rec} {idx j : Nat} {r : Rec} (h : l[j]? = some r) :
    (l.modify idx f)[j]? = some (if idx = j then f r else r) := by
  rw [List.getElem?_modify, h]; rfl

theorem lastInst_none {r : Rec} (h : lastInst r = none) : r.states = [] := by
  unfold lastInst at h
  cases hs : r.states.getLast? with
  | none => exact List.getLast?_eq_none_iff.mp hs
  | some a => simp [hs] at h

theorem lastInst_mem {r : Rec} {i : Nat} (h : lastInst r = some i) : ∃ st ∈ r.states, st.inst = i := by
  unfold lastInst at h
  cases hs : r.states.getLast? with
  | none => simp [hs] at h
  | some a =>
    simp [hs] at h
    exact ⟨a, List.mem_of_getLast? hs, h⟩

theorem not_blocked {g : Bool} {sts : List St} {inst : Nat} {nm : StName} (h : blocked g sts inst nm = false)
    (hg : g = true) : ∀ a ∈ sts, a.inst = inst → a.name.conclusive = false := by
  intro a ha hi
  unfold blocked at h
  rw [List.any_eq_false] at h
  have := h a ha
  simp [hi, hg] at this
  exact this.2

theorem blocked_nonempty {g : Bool} {sts : List St} {inst : Nat} {nm : StName} (h : blocked g sts inst nm = true) :
    sts ≠ [] := by
  intro hs; subst hs; simp [blocked] at h

/-- The precondition under which `_add_record_state` keeps the instance map consistent: the instance id is
already registered for this record, or it is unregistered and this record is the latest one of its node. -/
def AddPre (s : TS) (idx inst : Nat) : Prop :=
  ∀ r, s.records[idx]? = some r →
    s.instMap inst = some idx ∨ (s.instMap inst = none ∧ s.nodeMap r.nodeId = some idx)

/-- Frame facts of `addState`. -/
structure AddFrame (s s' : TS) : Prop where
  time : s'.time = s.time
  tick : s'.tick = s.tick
  next : s'.nextInst = s.nextInst
  enabled : s'.enabled = s.enabled
  guard : s'.guard = s.guard
  nodeMap : s'.nodeMap = s.nodeMap
  len : s'.records.length = s.records.length
  nodeId : ∀ (j : Nat) (r' : Rec), s'.records[j]? = some r' → ∃ r : Rec, s.records[j]? = some r ∧ r'.nodeId = r.nodeId ∧
            (r.states ≠ [] → r'.states ≠ [])
  keep : ∀ (k v : Nat), s.instMap k = some v → s'.instMap k = some v

theorem AddFrame.refl (s : TS) : AddFrame s s :=
  ⟨rfl, rfl, rfl, rfl, rfl, rfl, rfl, fun _ r' h => ⟨r', h, rfl, id⟩, fun _ _ h => h⟩

theorem addState_spec {s s' : TS} {idx inst : Nat} {nm : StName} {env : NodeEnv} {cmd : CmdKind}
    (hg : Good s) (h : addState s idx inst nm env cmd = .ok s')
    (hpre : s.skip env.skipName = false → AddPre s idx inst) (hfresh : inst < s.nextInst) :
    Good s' ∧ AddFrame s s' ∧ (s.skip env.skipName = false → s'.instMap inst = some idx) := by
  unfold addState at h
  cases hr : s.records[idx]? with
  | none => simp [hr] at h
  | some r =>
    simp only [hr] at h
    split at h
    · cases h
    · split at h
      · rename_i hsk
        cases h
        exact ⟨hg, AddFrame.refl s, fun h' => by simp [hsk] at h'⟩
      · rename_i hsk
        have hsk' : s.skip env.skipName = false := by simpa using hsk
        cases hn : s.nodeMap r.nodeId with
        | none => simp [hn] at h
        | some latest =>
          simp only [hn] at h
          cases h
          have hp := hpre hsk' r hr
          -- the index the instance map gets for `inst`
          have hlatest : (s.instMap inst).isSome = false → latest = idx := by
            intro hnone
            rcases hp with hp | hp
            · simp [hp] at hnone
            · rw [hn] at hp; exact Option.some.inj hp.2
          have himap : (if (s.instMap inst).isSome = true then s.instMap
              else fun k => if k = inst then some latest else s.instMap k) inst = some idx := by
            split
            · rename_i hs
              rcases hp with hp | hp
              · exact hp
              · simp [hp.1] at hs
            · rename_i hs
              simp [hlatest (by simpa using hs)]
          have hkeep : ∀ k v, s.instMap k = some v →
              (if (s.instMap inst).isSome = true then s.instMap
                else fun k => if k = inst then some latest else s.instMap k) k = some v := by
            intro k v hk
            split
            · exact hk
            · rename_i hs
              by_cases hki : k = inst
              · subst hki; simp [hk] at hs
              · simp [hki, hk]
          -- the records after the call
          have hrecs : ∀ j r', (if blocked s.guard r.states inst nm = true then s.records
                else s.records.modify idx (fun r => appendState r (mkState s inst nm env cmd)))[j]? = some r' →
              ∃ r0, s.records[j]? = some r0 ∧
                (r' = r0 ∨ (j = idx ∧ r0 = r ∧ blocked s.guard r.states inst nm = false ∧
                  r' = appendState r (mkState s inst nm env cmd))) := by
            intro j r' hj
            split at hj
            · exact ⟨r', hj, Or.inl rfl⟩
            · rename_i hb
              obtain ⟨r0, h0, h1⟩ := getElem?_modify_some hj
              refine ⟨r0, h0, ?_⟩
              by_cases hij : idx = j
              · subst hij
                rw [hr] at h0; cases h0
                simp at h1
                exact Or.inr ⟨rfl, rfl, by simpa using hb, h1⟩
              · simp [hij] at h1; exact Or.inl h1
          refine ⟨⟨?_, ?_, ?_, ?_, ?_, ?_, ?_, ?_⟩, ⟨rfl, rfl, rfl, rfl, rfl, rfl, ?_, ?_, hkeep⟩, fun _ => himap⟩
          · -- clock
            intro j r' hj st hst
            obtain ⟨r0, h0, h1⟩ := hrecs j r' hj
            rcases h1 with rfl | ⟨_, rfl, _, rfl⟩
            · exact hg.clock j _ h0 st hst
            · simp only [appendState, List.mem_append, List.mem_singleton] at hst
              rcases hst with hst | rfl
              · exact hg.clock j _ h0 st hst
              · exact ⟨Int.le_refl _, Int.le_refl _⟩
          · -- ordered
            intro j r' hj
            obtain ⟨r0, h0, h1⟩ := hrecs j r' hj
            rcases h1 with rfl | ⟨_, rfl, _, rfl⟩
            · exact hg.ordered j _ h0
            · simp only [appendState, Ordered]
              rw [List.pairwise_append]
              refine ⟨hg.ordered j _ h0, by simp, ?_⟩
              intro a ha b hb
              simp only [List.mem_singleton] at hb
              subst hb
              exact hg.clock j _ h0 a ha
          · -- concl
            intro hgd j r' hj
            obtain ⟨r0, h0, h1⟩ := hrecs j r' hj
            rcases h1 with rfl | ⟨_, rfl, hb, rfl⟩
            · exact hg.concl hgd j _ h0
            · simp only [appendState, NoStateAfterConcl]
              rw [List.pairwise_append]
              refine ⟨hg.concl hgd j _ h0, by simp, ?_⟩
              intro a ha b hb'
              simp only [List.mem_singleton] at hb'
              subst hb'
              intro hi
              exact not_blocked hb hgd a ha hi
          · -- nodeIdx
            intro n i hni
            obtain ⟨r0, h0, h1⟩ := hg.nodeIdx n i hni
            by_cases hb : blocked s.guard r.states inst nm = true
            · exact ⟨r0, by simp [hb, h0], h1⟩
            · simp only [hb]
              refine ⟨_, modify_some h0, ?_⟩
              split <;> simp [appendState, h1]
          · -- nodeHas
            intro j r' hj
            obtain ⟨r0, h0, h1⟩ := hrecs j r' hj
            rcases h1 with rfl | ⟨_, rfl, _, rfl⟩
            · exact hg.nodeHas j _ h0
            · exact hg.nodeHas j r0 h0
          · -- instIdx
            intro j r' hj st hst
            obtain ⟨r0, h0, h1⟩ := hrecs j r' hj
            rcases h1 with rfl | ⟨hji, rfl, _, rfl⟩
            · exact hkeep _ _ (hg.instIdx j _ h0 st hst)
            · simp only [appendState, List.mem_append, List.mem_singleton] at hst
              rcases hst with hst | rfl
              · exact hkeep _ _ (hg.instIdx j _ h0 st hst)
              · simp only [mkState]; rw [hji]; exact himap
          · -- instNonempty
            intro k i hk
            dsimp only at hk ⊢
            by_cases hold : ∃ v, s.instMap k = some v
            · obtain ⟨v, hv⟩ := hold
              have := hkeep k v hv
              rw [this] at hk
              have hvi : v = i := Option.some.inj hk
              subst hvi
              obtain ⟨r0, h0, h1⟩ := hg.instNonempty k v hv
              by_cases hb : blocked s.guard r.states inst nm = true
              · exact ⟨r0, by simp [hb, h0], h1⟩
              · simp only [hb]
                refine ⟨_, modify_some h0, ?_⟩
                split
                · simp [appendState]
                · exact h1
            · have hnone : s.instMap k = none := by
                cases hk' : s.instMap k with
                | none => rfl
                | some v => exact absurd ⟨v, hk'⟩ hold
              have hki : k = inst := by
                by_cases hki : k = inst
                · exact hki
                · split at hk
                  · rw [hnone] at hk; cases hk
                  · simp [hki, hnone] at hk
              subst hki
              rw [himap] at hk; cases hk
              by_cases hb : blocked s.guard r.states k nm = true
              · exact ⟨r, by simp [hb, hr], blocked_nonempty hb⟩
              · simp only [hb]
                refine ⟨_, modify_some hr, ?_⟩
                simp [appendState]
          · -- fresh
            intro k hk
            dsimp only at hk ⊢
            by_cases hki : k = inst
            · subst hki; exact hfresh
            · apply hg.fresh k
              split at hk
              · exact hk
              · simpa [hki] using hk
          · -- length
            split
            · rfl
            · exact List.length_modify _ _ _
          · -- nodeId / nonempty
            intro j r' hj
            obtain ⟨r0, h0, h1⟩ := hrecs j r' hj
            rcases h1 with rfl | ⟨_, rfl, _, rfl⟩
            · exact ⟨_, h0, rfl, id⟩
            · exact ⟨_, h0, rfl, fun _ => by simp [appendState]⟩

/-- `Good` survives a later `uuid4()`. -/
theorem good_bump {s : TS} (hg : Good s) : Good { s with nextInst := s.nextInst + 1 } :=
  ⟨hg.clock, hg.ordered, hg.concl, hg.nodeIdx, hg.nodeHas, hg.instIdx, hg.instNonempty,
    fun k hk => Nat.lt_succ_of_lt (hg.fresh k hk)⟩

theorem createNodeInst_spec {s s' : TS} {node id : Nat} {env : NodeEnv} (hg : Good s)
    (h : createNodeInst s node env = .ok (s', id)) :
    Good s' ∧ AddFrame { s with nextInst := s.nextInst + 1 } s' ∧ id = s.nextInst ∧
      (∀ idx, s.nodeMap node = some idx → s.skip env.skipName = false → s'.instMap id = some idx) := by
  unfold createNodeInst at h
  simp only at h
  cases hn : s.nodeMap node with
  | none =>
    simp [hn] at h
    obtain ⟨rfl, rfl⟩ := h
    exact ⟨good_bump hg, AddFrame.refl _, rfl, by simp⟩
  | some idx =>
    simp only [hn] at h
    cases ha : addState { s with nextInst := s.nextInst + 1 } idx s.nextInst .created env .none with
    | error e => simp [ha] at h
    | ok s2 =>
      simp [ha] at h
      obtain ⟨rfl, rfl⟩ := h
      have hpre : TS.skip { s with nextInst := s.nextInst + 1 } env.skipName = false →
          AddPre { s with nextInst := s.nextInst + 1 } idx s.nextInst := by
        intro _ r hr
        right
        obtain ⟨r0, h0, h1⟩ := hg.nodeIdx node idx hn
        have : r = r0 := by
          have hr' : s.records[idx]? = some r := hr
          rw [h0] at hr'; exact (Option.some.inj hr').symm
        subst this
        refine ⟨?_, ?_⟩
        · cases hi : s.instMap s.nextInst with
          | none => rfl
          | some v =>
            have := hg.fresh s.nextInst (by simp [hi])
            exact absurd this (Nat.lt_irrefl _)
        · show s.nodeMap r.nodeId = some idx
          rw [h1]; exact hn
      obtain ⟨g2, f2, i2⟩ := addState_spec (good_bump hg) ha hpre (Nat.lt_succ_self _)
      refine ⟨g2, f2, rfl, ?_⟩
      intro idx' hidx' hsk
      cases hidx'
      exact i2 hsk

/-! ### the operations -/

theorem good_tick {s : TS} (hg : Good s) {t n : Int} (hc : s.time ≤ t ∧ s.tick ≤ n) :
    Good { s with time := t, tick := n } :=
  ⟨fun i r hr st hst => by
      have := hg.clock i r hr st hst
      exact ⟨Int.le_trans this.1 hc.2, Int.le_trans this.2 hc.1⟩,
    hg.ordered, hg.concl, hg.nodeIdx, hg.nodeHas, hg.instIdx, hg.instNonempty, hg.fresh⟩

theorem good_addRecord {s : TS} (hg : Good s) (node : Nat) (cls : String) (name : Option String) :
    Good (addRecord s node cls name) := by
  have old : ∀ (i : Nat) (r : Rec), s.records[i]? = some r →
      (s.records ++ [({ nodeId := node, cls := cls, name := name } : Rec)])[i]? = some r := by
    intro i r hr
    have hlt : i < s.records.length := by
      rcases Nat.lt_or_ge i s.records.length with h | h
      · exact h
      · rw [List.getElem?_eq_none h] at hr; cases hr
    rw [List.getElem?_append_left hlt]; exact hr
  have split : ∀ (i : Nat) (r : Rec), (s.records ++ [({ nodeId := node, cls := cls, name := name } : Rec)])[i]? = some r →
      s.records[i]? = some r ∨ (i = s.records.length ∧ r = { nodeId := node, cls := cls, name := name }) := by
    intro i r hr
    rcases Nat.lt_or_ge i s.records.length with h | h
    · rw [List.getElem?_append_left h] at hr; exact Or.inl hr
    · rw [List.getElem?_append_right h] at hr
      cases hk : i - s.records.length with
      | zero =>
        simp [hk] at hr
        exact Or.inr ⟨by omega, hr.symm⟩
      | succ k => simp [hk] at hr
  unfold addRecord
  refine ⟨?_, ?_, ?_, ?_, ?_, ?_, ?_, hg.fresh⟩
  · intro i r hr st hst
    rcases split i r hr with h | ⟨_, rfl⟩
    · exact hg.clock i r h st hst
    · simp at hst
  · intro i r hr
    rcases split i r hr with h | ⟨_, rfl⟩
    · exact hg.ordered i r h
    · simp [Ordered]
  · intro hgd i r hr
    rcases split i r hr with h | ⟨_, rfl⟩
    · exact hg.concl hgd i r h
    · simp [NoStateAfterConcl]
  · intro n i hni
    simp only at hni
    split at hni
    · rename_i hn
      cases hni
      exact ⟨{ nodeId := node, cls := cls, name := name }, by simp, hn.symm⟩
    · obtain ⟨r, h0, h1⟩ := hg.nodeIdx n i hni
      exact ⟨r, old i r h0, h1⟩
  · intro i r hr
    simp only
    rcases split i r hr with h | ⟨_, rfl⟩
    · split
      · rfl
      · exact hg.nodeHas i r h
    · simp
  · intro i r hr st hst
    rcases split i r hr with h | ⟨_, rfl⟩
    · exact hg.instIdx i r h st hst
    · simp at hst
  · intro k i hk
    obtain ⟨r, h0, h1⟩ := hg.instNonempty k i hk
    exact ⟨r, old i r h0, h1⟩

theorem lookup_some {s : TS} (hg : Good s) {tgt : Target} {idx : Nat} (h : lookup s tgt = some idx) :
    ∃ r, s.records[idx]? = some r ∧
      match tgt with
      | .node n => s.nodeMap n = some idx ∧ r.nodeId = n
      | .cmd i _ => s.instMap i = some idx ∧ r.states ≠ [] := by
  cases tgt with
  | node n =>
    simp only [lookup] at h
    obtain ⟨r, h0, h1⟩ := hg.nodeIdx n idx h
    exact ⟨r, h0, h, h1⟩
  | cmd i b =>
    simp only [lookup] at h
    cases hi : s.instMap i with
    | none => simp [hi] at h
    | some v =>
      simp only [hi] at h
      split at h
      · have hv : v = idx := Option.some.inj h
        subst hv
        obtain ⟨r, h0, h1⟩ := hg.instNonempty i v hi
        exact ⟨r, h0, hi, h1⟩
      · cases h

theorem good_mark {s s' : TS} (hg : Good s) {k : MarkKind} {tgt : Target} {env : NodeEnv} {u : Bool}
    (h : mark s k tgt env u = .ok s') : Good s' ∧ s'.guard = s.guard := by
  unfold mark at h
  split at h
  · cases h; exact ⟨hg, rfl⟩
  · rename_i hsk0
    cases hl : lookup s tgt with
    | none => simp [hl] at h
    | some idx =>
      simp only [hl] at h
      obtain ⟨r, hr, htgt⟩ := lookup_some hg hl
      simp only [hr] at h
      split at h
      · cases h
      · split at h
        · cases h
        · cases hli : lastInst r with
          | some i =>
            simp only [hli] at h
            obtain ⟨st, hst, hsi⟩ := lastInst_mem hli
            have hi : s.instMap i = some idx := hsi ▸ hg.instIdx idx r hr st hst
            have sp := addState_spec hg h (fun _ r' _ => Or.inl hi) (hg.fresh i (by simp [hi]))
            exact ⟨sp.1, sp.2.1.guard⟩
          | none =>
            simp only [hli] at h
            have hemp := lastInst_none hli
            cases hc : createNodeInst s r.nodeId env with
            | error e => simp [hc] at h
            | ok p =>
              obtain ⟨s1, id⟩ := p
              simp only [hc] at h
              obtain ⟨g1, f1, hid, hreg⟩ := createNodeInst_spec hg hc
              -- the record the Created state went to is this record
              have hnode : s.nodeMap r.nodeId = some idx := by
                cases tgt with
                | node n => simp only at htgt; rw [htgt.2]; exact htgt.1
                | cmd i b => simp only at htgt; exact absurd hemp htgt.2
              have hpre : s1.skip env.skipName = false → AddPre s1 idx id := by
                intro hsk r' _
                left
                apply hreg idx hnode
                have : s1.skip env.skipName = s.skip env.skipName := by
                  simp [TS.skip, f1.enabled]
                rw [← this]; exact hsk
              have hfr : id < s1.nextInst := by rw [f1.next, hid]; exact Nat.lt_succ_self _
              have sp := addState_spec g1 h hpre hfr
              exact ⟨sp.1, sp.2.1.guard.trans f1.guard⟩

theorem good_markFailed {s s' : TS} (hg : Good s) {tgt : Target} {env : NodeEnv}
    (h : markFailed s tgt env = .ok s') : Good s' ∧ s'.guard = s.guard := by
  unfold markFailed at h
  split at h
  · cases h; exact ⟨hg, rfl⟩
  · cases tgt with
    | cmd i b =>
      simp only at h
      cases hl : lookup s (.cmd i b) with
      | none => simp [hl] at h
      | some idx =>
        simp only [hl] at h
        obtain ⟨r, hr, htgt⟩ := lookup_some hg hl
        simp only at htgt
        split at h
        · cases h
        · have sp := addState_spec hg h (fun _ r' _ => Or.inl htgt.1) (hg.fresh i (by simp [htgt.1]))
          exact ⟨sp.1, sp.2.1.guard⟩
    | node n =>
      simp only at h
      cases hl : lookup s (.node n) with
      | none => simp [hl] at h
      | some idx =>
        simp only [hl] at h
        obtain ⟨r, hr, htgt⟩ := lookup_some hg hl
        simp only [hr] at h
        cases hli : lastInst r with
        | none => simp [hli] at h
        | some i =>
          simp only [hli] at h
          obtain ⟨st, hst, hsi⟩ := lastInst_mem hli
          have hi : s.instMap i = some idx := hsi ▸ hg.instIdx idx r hr st hst
          split at h
          · cases h
          · have sp := addState_spec hg h (fun _ r' _ => Or.inl hi) (hg.fresh i (by simp [hi]))
            exact ⟨sp.1, sp.2.1.guard⟩

theorem good_cmdStarted {s s' : TS} (hg : Good s) {uod : Bool} {inst : Nat} {sk : Bool} {env : NodeEnv}
    (h : cmdStarted s uod inst sk env = .ok s') : Good s' ∧ s'.guard = s.guard := by
  unfold cmdStarted at h
  split at h
  · cases h; exact ⟨hg, rfl⟩
  · cases hl : lookup s (.cmd inst sk) with
    | none => simp [hl] at h
    | some idx =>
      simp only [hl] at h
      obtain ⟨r, hr, htgt⟩ := lookup_some hg hl
      simp only at htgt
      cases ha : addState s idx inst .started env .none with
      | error e => simp [ha] at h
      | ok s1 =>
        simp only [ha] at h
        obtain ⟨g1, f1, _⟩ := addState_spec hg ha (fun _ r' _ => Or.inl htgt.1) (hg.fresh inst (by simp [htgt.1]))
        have hi1 : s1.instMap inst = some idx := f1.keep _ _ htgt.1
        split at h
        · have sp := addState_spec g1 h (fun _ r' _ => Or.inl hi1) (g1.fresh inst (by simp [hi1]))
          exact ⟨sp.1, sp.2.1.guard.trans f1.guard⟩
        · have sp := addState_spec g1 h (fun _ r' _ => Or.inl hi1) (g1.fresh inst (by simp [hi1]))
          exact ⟨sp.1, sp.2.1.guard.trans f1.guard⟩

theorem good_step {s s' : TS} (hg : Good s) {op : Op} (hc : op.clockOk s) (h : step s op = .ok s') :
    Good s' ∧ s'.guard = s.guard := by
  cases op with
  | tick t n => simp only [step] at h; cases h; exact ⟨good_tick hg hc, rfl⟩
  | setEnabled b =>
    simp only [step] at h; cases h
    exact ⟨⟨hg.clock, hg.ordered, hg.concl, hg.nodeIdx, hg.nodeHas, hg.instIdx, hg.instNonempty, hg.fresh⟩, rfl⟩
  | addRecord node cls name => simp only [step] at h; cases h; exact ⟨good_addRecord hg node cls name, rfl⟩
  | createNodeInst node env =>
    simp only [step] at h
    cases hc' : createNodeInst s node env with
    | error e => simp [hc', Except.map] at h
    | ok p =>
      obtain ⟨s1, id⟩ := p
      simp [hc', Except.map] at h
      subst h
      have sp := createNodeInst_spec hg hc'
      exact ⟨sp.1, sp.2.1.guard⟩
  | mark k tgt env u => exact good_mark hg h
  | markFailed tgt env => exact good_markFailed hg h
  | cmdStarted uod inst sk env => exact good_cmdStarted hg h

/-! ### from the invariant to the well-formedness predicate of part 1 -/

theorem group_conclLast {sts : List St} (h : NoStateAfterConcl sts) (i : Nat) : ConclLast (group sts i) := by
  have hsub : (group sts i).Pairwise (fun a b => a.inst = b.inst → a.name.conclusive = false) :=
    h.sublist (group_sublist sts i)
  unfold ConclLast
  refine hsub.imp_of_mem ?_
  intro a b ha hb hab
  exact hab (by rw [(mem_group.mp ha).2, (mem_group.mp hb).2])

/-- Record-level sufficient condition for `WF` (used for concrete examples). -/
theorem wf_of_records {rs : List Rec} (h : ∀ r ∈ rs, Ordered r.states ∧ NoStateAfterConcl r.states) : WF rs := by
  intro r hr _ i
  exact ⟨(h r hr).1.sublist (group_sublist _ i), group_conclLast (h r hr).2 i⟩

theorem good_wf {s : TS} (hg : Good s) (hgd : s.guard = true) : WF s.records := by
  intro r hr _ i
  obtain ⟨j, hj⟩ := List.mem_iff_getElem?.mp hr
  exact ⟨(hg.ordered j r hj).sublist (group_sublist _ i), group_conclLast (hg.concl hgd j r hj) i⟩

theorem good_instDisjoint {s : TS} (hg : Good s) : InstDisjoint s.records := by
  unfold InstDisjoint
  rw [List.pairwise_iff_getElem]
  intro i j hi hj hij k hk1 hk2
  simp only [Rec.insts, List.mem_map] at hk1 hk2
  obtain ⟨a, ha, rfl⟩ := hk1
  obtain ⟨b, hb, hab⟩ := hk2
  have h1 := hg.instIdx i _ (List.getElem?_eq_getElem hi) a ha
  have h2 := hg.instIdx j _ (List.getElem?_eq_getElem hj) b hb
  rw [hab, h1] at h2
  have : i = j := Option.some.inj h2
  omega

end OPM.RunLog
