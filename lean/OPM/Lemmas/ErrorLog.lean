import OPM.Model.ErrorLog
/-!
Specification vocabulary and helper lemmas for C35.

`groups es`  : the maximal runs of consecutive entries with equal (message, severity), each run as
               (first entry, remaining entries) — non-empty by construction.
`records m ts` / `runMax m ts` : number of entries strictly later than everything before them / the latest
               time, for a run whose first entry has time `m` and whose further times are `ts`.
`summarize`  : the aggregated entry the property prescribes for one run.
-/
namespace OPM.ErrorLog

abbrev Key := String × Int
def Entry.key (e : Entry) : Key := (e.message, e.severity)
def Agg.key (a : Agg) : Key := (a.message, a.severity)

/-! ### maximal runs of equal keys -/

abbrev Group := Entry × List Entry

def Group.toList (g : Group) : List Entry := g.1 :: g.2

def consGroup (e : Entry) : List Group → List Group
  | (f, g) :: gs => if e.key = f.key then (e, f :: g) :: gs else (e, []) :: (f, g) :: gs
  | [] => [(e, [])]

def groups (es : List Entry) : List Group := es.foldr consGroup []

@[simp] theorem groups_nil : groups [] = [] := rfl
@[simp] theorem groups_cons (e : Entry) (es : List Entry) : groups (e :: es) = consGroup e (groups es) := rfl

theorem consGroup_nil (e : Entry) : consGroup e [] = [(e, [])] := rfl

theorem consGroup_same (e f : Entry) (g : List Entry) (gs : List Group) (h : e.key = f.key) :
    consGroup e ((f, g) :: gs) = (e, f :: g) :: gs := by
  simp [consGroup, h]

theorem consGroup_diff (e f : Entry) (g : List Entry) (gs : List Group) (h : ¬ e.key = f.key) :
    consGroup e ((f, g) :: gs) = (e, []) :: (f, g) :: gs := by
  simp [consGroup, h]

theorem consGroup_flatten (e : Entry) (G : List Group) :
    (consGroup e G).flatMap Group.toList = e :: G.flatMap Group.toList := by
  match G with
  | [] => simp [consGroup_nil, Group.toList]
  | (f, g) :: gs =>
    by_cases hk : e.key = f.key
    · rw [consGroup_same _ _ _ _ hk]; simp [Group.toList]
    · rw [consGroup_diff _ _ _ _ hk]; simp [Group.toList]

/-- Adjacent groups have different keys. -/
def Maximal : List Group → Prop
  | p :: q :: r => p.1.key ≠ q.1.key ∧ Maximal (q :: r)
  | _ => True

theorem maximal_cons_cons (p q : Group) (r : List Group) :
    Maximal (p :: q :: r) ↔ (p.1.key ≠ q.1.key ∧ Maximal (q :: r)) := by
  simp [Maximal]

/-- All entries of a group carry the key of its first entry. -/
def Uniform (g : Group) : Prop := ∀ x ∈ g.2, x.key = g.1.key

theorem consGroup_uniform (e : Entry) (G : List Group) (h : ∀ g ∈ G, Uniform g) :
    ∀ g ∈ consGroup e G, Uniform g := by
  match G with
  | [] =>
    intro g hg
    rw [consGroup_nil] at hg
    simp only [List.mem_singleton] at hg
    subst hg
    intro x hx
    simp at hx
  | (f, g) :: gs =>
    by_cases hk : e.key = f.key
    · rw [consGroup_same _ _ _ _ hk]
      intro q hq
      simp only [List.mem_cons] at hq
      rcases hq with rfl | hq
      · intro x hx
        simp only [List.mem_cons] at hx
        rcases hx with rfl | hx
        · exact hk.symm
        · have := h (f, g) (by simp) x hx
          simpa [hk] using this
      · exact h q (by simp [hq])
    · rw [consGroup_diff _ _ _ _ hk]
      intro q hq
      simp only [List.mem_cons] at hq
      rcases hq with rfl | rfl | hq
      · intro x hx; simp at hx
      · exact h _ (by simp)
      · exact h q (by simp [hq])

theorem consGroup_maximal (e : Entry) (G : List Group) (h : Maximal G) : Maximal (consGroup e G) := by
  match G with
  | [] => simp [consGroup_nil, Maximal]
  | (f, g) :: gs =>
    by_cases hk : e.key = f.key
    · rw [consGroup_same _ _ _ _ hk]
      match gs, h with
      | [], _ => simp [Maximal]
      | q :: r, h =>
        rw [maximal_cons_cons] at h ⊢
        exact ⟨by simpa [hk] using h.1, h.2⟩
    · rw [consGroup_diff _ _ _ _ hk, maximal_cons_cons]
      exact ⟨hk, h⟩

/-! ### what one run aggregates to -/

def records (m : Rat) : List Rat → Nat
  | [] => 0
  | t :: ts => if m < t then records t ts + 1 else records m ts

def runMax (m : Rat) : List Rat → Rat
  | [] => m
  | t :: ts => if m < t then runMax t ts else runMax m ts

def summarize (g : Group) : Agg :=
  ⟨g.1.message, g.1.severity, runMax g.1.time (g.2.map Entry.time), records g.1.time (g.2.map Entry.time) + 1⟩

theorem absorb_key (a : Agg) (e : Entry) : (absorb a e).key = a.key := by
  unfold absorb; split <;> rfl

theorem foldl_absorb (a : Agg) (g : List Entry) :
    g.foldl absorb a =
      ⟨a.message, a.severity, runMax a.time (g.map Entry.time), records a.time (g.map Entry.time) + a.occurrences⟩ := by
  induction g generalizing a with
  | nil => simp [runMax, records]
  | cons e g ih =>
    simp only [List.foldl_cons, List.map_cons, runMax, records]
    rw [ih]
    unfold absorb
    split <;> simp <;> omega

theorem summarize_eq_fold (g : Group) : summarize g = g.2.foldl absorb (Agg.ofEntry g.1) := by
  rw [foldl_absorb]; rfl

/-! ### the loop computes the per-run summaries -/

theorem push_same (a : Agg) (rest : List Agg) (e : Entry) (h : e.key = a.key) :
    push (a :: rest) e = absorb a e :: rest := by
  have : e.message = a.message ∧ e.severity = a.severity := by
    simpa [Entry.key, Agg.key] using h
  simp [push, this]

theorem push_other (a : Agg) (rest : List Agg) (e : Entry) (h : e.key ≠ a.key) :
    push (a :: rest) e = Agg.ofEntry e :: a :: rest := by
  have : ¬ (e.message = a.message ∧ e.severity = a.severity) := by
    simpa [Entry.key, Agg.key] using h
  simp [push, this]

theorem ofEntry_key (e : Entry) : (Agg.ofEntry e).key = e.key := rfl

/-- Result of the loop started with `latest = a`, in terms of the runs of the input. -/
def afterGroups (a : Agg) (rest : List Agg) : List Group → List Agg
  | [] => a :: rest
  | g :: gs =>
    if g.1.key = a.key then (gs.map summarize).reverse ++ g.toList.foldl absorb a :: rest
    else (gs.map summarize).reverse ++ summarize g :: a :: rest

theorem afterGroups_nil (a : Agg) (rest : List Agg) : afterGroups a rest [] = a :: rest := rfl

theorem afterGroups_same (a : Agg) (rest : List Agg) (g : Group) (gs : List Group) (h : g.1.key = a.key) :
    afterGroups a rest (g :: gs) = (gs.map summarize).reverse ++ g.toList.foldl absorb a :: rest := by
  simp [afterGroups, h]

theorem afterGroups_diff (a : Agg) (rest : List Agg) (g : Group) (gs : List Group) (h : ¬ g.1.key = a.key) :
    afterGroups a rest (g :: gs) = (gs.map summarize).reverse ++ summarize g :: a :: rest := by
  simp [afterGroups, h]

theorem aggregate_cons_state (es : List Entry) :
    ∀ (a : Agg) (rest : List Agg), aggregateWith (a :: rest) es = afterGroups a rest (groups es) := by
  induction es with
  | nil => intro a rest; rfl
  | cons e es ih =>
    intro a rest
    have step : aggregateWith (a :: rest) (e :: es) = aggregateWith (push (a :: rest) e) es := rfl
    rw [step, groups_cons]
    by_cases hk : e.key = a.key
    · rw [push_same a rest e hk, ih]
      have hk' : (absorb a e).key = e.key := by rw [absorb_key, hk]
      match groups es with
      | [] =>
        rw [consGroup_nil, afterGroups_nil, afterGroups_same _ _ _ _ hk]
        simp [Group.toList]
      | (f, g) :: gs =>
        by_cases hf : e.key = f.key
        · rw [consGroup_same _ _ _ _ hf, afterGroups_same _ _ _ _ (by rw [hk', hf]),
            afterGroups_same _ _ _ _ hk]
          simp [Group.toList]
        · rw [consGroup_diff _ _ _ _ hf, afterGroups_diff _ _ _ _ (by rw [hk']; exact fun h => hf h.symm),
            afterGroups_same _ _ _ _ hk]
          simp [Group.toList]
    · rw [push_other a rest e hk, ih]
      match groups es with
      | [] =>
        rw [consGroup_nil, afterGroups_nil, afterGroups_diff _ _ _ _ hk]
        simp [summarize_eq_fold]
      | (f, g) :: gs =>
        by_cases hf : e.key = f.key
        · rw [consGroup_same _ _ _ _ hf, afterGroups_same _ _ _ _ (by rw [ofEntry_key, hf]),
            afterGroups_diff _ _ _ _ hk]
          simp [Group.toList, summarize_eq_fold]
        · rw [consGroup_diff _ _ _ _ hf,
            afterGroups_diff _ _ _ _ (by rw [ofEntry_key]; exact fun h => hf h.symm),
            afterGroups_diff _ _ _ _ hk]
          simp [summarize_eq_fold]

/-! ### facts about `records` / `runMax` -/

def StrictInc : List Rat → Prop
  | a :: b :: r => a < b ∧ StrictInc (b :: r)
  | _ => True

def NonDec : List Rat → Prop
  | a :: b :: r => a ≤ b ∧ NonDec (b :: r)
  | _ => True

/-- number of adjacent pairs with a strict increase -/
def ascents : List Rat → Nat
  | a :: b :: r => (if a < b then 1 else 0) + ascents (b :: r)
  | _ => 0

theorem records_strictInc (m : Rat) (ts : List Rat) (h : StrictInc (m :: ts)) :
    records m ts = ts.length ∧ runMax m ts = (m :: ts).getLast (by simp) := by
  induction ts generalizing m with
  | nil => simp [records, runMax]
  | cons t ts ih =>
    obtain ⟨h1, h2⟩ := h
    have := ih t h2
    simp [records, runMax, h1, this.1, this.2]

theorem records_nonDec (m : Rat) (ts : List Rat) (h : NonDec (m :: ts)) :
    records m ts = ascents (m :: ts) ∧ runMax m ts = (m :: ts).getLast (by simp) := by
  induction ts generalizing m with
  | nil => simp [records, runMax, ascents]
  | cons t ts ih =>
    obtain ⟨h1, h2⟩ := h
    by_cases hlt : m < t
    · have := ih t h2
      simp [records, runMax, ascents, hlt, this.1, this.2]; omega
    · have hmt : m = t := by grind
      subst hmt
      have := ih m h2
      simp [records, runMax, ascents, hlt, this.1]
      simpa using this.2

theorem runMax_ge_start (m : Rat) (ts : List Rat) : m ≤ runMax m ts := by
  induction ts generalizing m with
  | nil => simp [runMax]
  | cons t ts ih =>
    simp only [runMax]
    split
    · have := ih t; grind
    · exact ih m

theorem runMax_ge (m : Rat) (ts : List Rat) : ∀ t ∈ m :: ts, t ≤ runMax m ts := by
  induction ts generalizing m with
  | nil => intro t ht; simp at ht; subst ht; simp [runMax]
  | cons u ts ih =>
    intro t ht
    simp only [runMax]
    simp only [List.mem_cons] at ht
    split
    · rename_i hlt
      rcases ht with rfl | rfl | ht
      · have := runMax_ge_start u ts; grind
      · exact runMax_ge_start t ts
      · exact ih u t (by simp [ht])
    · rename_i hlt
      rcases ht with rfl | rfl | ht
      · exact runMax_ge_start t ts
      · have := runMax_ge_start m ts; grind
      · exact ih m t (by simp [ht])

theorem runMax_mem (m : Rat) (ts : List Rat) : runMax m ts ∈ m :: ts := by
  induction ts generalizing m with
  | nil => simp [runMax]
  | cons u ts ih =>
    simp only [runMax]
    split
    · have := ih u; simp only [List.mem_cons] at this ⊢; grind
    · have := ih m; simp only [List.mem_cons] at this ⊢; grind

theorem records_le (m : Rat) (ts : List Rat) : records m ts ≤ ts.length := by
  induction ts generalizing m with
  | nil => simp [records]
  | cons u ts ih =>
    simp only [records, List.length_cons]
    split
    · have := ih u; omega
    · have := ih m; omega

/-- entries of a run that are *not* counted: their time is not later than the latest time seen before
    them in the run (identical time = redelivered duplicate, or earlier time) -/
def repeats (m : Rat) : List Rat → Nat
  | [] => 0
  | t :: ts => if m < t then repeats t ts else repeats m ts + 1

theorem records_add_repeats (m : Rat) (ts : List Rat) : records m ts + repeats m ts = ts.length := by
  induction ts generalizing m with
  | nil => simp [records, repeats]
  | cons u ts ih =>
    simp only [records, repeats, List.length_cons]
    split
    · have := ih u; omega
    · have := ih m; omega

theorem repeats_strictInc (m : Rat) (ts : List Rat) (h : StrictInc (m :: ts)) : repeats m ts = 0 := by
  induction ts generalizing m with
  | nil => simp [repeats]
  | cons t ts ih =>
    obtain ⟨h1, h2⟩ := h
    simp [repeats, h1, ih t h2]

/-! ### redelivery -/

theorem push_push_same (r : List Agg) (e : Entry) : push (push r e) e = push r e := by
  match r with
  | [] =>
    have h1 : push [] e = [Agg.ofEntry e] := rfl
    rw [h1, push_same _ _ _ (ofEntry_key e).symm]
    simp [absorb, Agg.ofEntry]
  | a :: rest =>
    by_cases hk : e.key = a.key
    · rw [push_same _ _ _ hk, push_same _ _ _ (by rw [absorb_key, hk])]
      congr 1
      unfold absorb
      split <;> simp_all
    · rw [push_other _ _ _ hk, push_same _ _ _ (ofEntry_key e).symm]
      simp [absorb, Agg.ofEntry]

/-- A batch all of whose entries have the key of `latest` and are not later than it changes nothing. -/
theorem aggregate_covered (a : Agg) (rest : List Agg) (b : List Entry)
    (h : ∀ e ∈ b, e.key = a.key ∧ e.time ≤ a.time) : aggregateWith (a :: rest) b = a :: rest := by
  induction b with
  | nil => rfl
  | cons e b ih =>
    have he := h e (by simp)
    have step : aggregateWith (a :: rest) (e :: b) = aggregateWith (push (a :: rest) e) b := rfl
    rw [step, push_same _ _ _ he.1]
    have : absorb a e = a := by
      unfold absorb
      split
      · have := he.2; grind
      · rfl
    rw [this]
    exact ih (fun x hx => h x (by simp [hx]))

/-- After a non-empty single-key batch, `latest` has that key and is at least as late as every entry of it. -/
theorem aggregate_uniform_head (k : Key) (b : List Entry) (hb : ∀ e ∈ b, e.key = k) :
    ∀ (a : Agg) (rest : List Agg), a.key = k →
      ∃ a' , aggregateWith (a :: rest) b = a' :: rest ∧ a'.key = k ∧ a.time ≤ a'.time ∧
        ∀ e ∈ b, e.time ≤ a'.time := by
  induction b with
  | nil => intro a rest ha; exact ⟨a, rfl, ha, Rat.le_refl, by simp⟩
  | cons e b ih =>
    intro a rest ha
    have he : e.key = a.key := by rw [ha]; exact hb e (by simp)
    have step : aggregateWith (a :: rest) (e :: b) = aggregateWith (push (a :: rest) e) b := rfl
    rw [step, push_same _ _ _ he]
    obtain ⟨a', h1, h2, h3, h4⟩ := ih (fun x hx => hb x (by simp [hx])) (absorb a e) rest
      (by rw [absorb_key, ha])
    refine ⟨a', h1, h2, ?_, ?_⟩
    · unfold absorb at h3
      split at h3
      · simp at h3; grind
      · exact h3
    · intro x hx
      simp only [List.mem_cons] at hx
      rcases hx with rfl | hx
      · unfold absorb at h3
        split at h3
        · simpa using h3
        · grind
      · exact h4 x hx

end OPM.ErrorLog
