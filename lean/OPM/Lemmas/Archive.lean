import OPM.Model.Archive
/-! Helper lemmas for C39: the reader state machine inverts the writer, field by field and row by row. -/
namespace OPM.Archive

abbrev Row := List (List Char)

/-- Modes in which the reader is at the start of / inside an unquoted field. -/
def FieldMode (m : Mode) : Prop := m = .startField ∨ m = .inField ∨ m = .afterEscapedCRNL

def consRow (r : Row) : Except Err (List Row) → Except Err (List Row)
  | .ok rows => .ok (r :: rows)
  | .error e => .error e

/-- The text that follows is non-empty and does not start with a line feed (so a preceding `\r` is a line end
    of its own). -/
def Good (k : List Char) : Prop := ∃ d rest, k = d :: rest ∧ d ≠ '\n'

/-! ### unfolding `readSyms` -/

theorem readSyms_ch (s s' : RState) (c : Char) (xs : List Sym) (h : step s (.ch c) = .ok s') :
    readSyms s (.ch c :: xs) = readSyms s' xs := by
  simp [readSyms, h]

theorem readSyms_eol_keep (s s' : RState) (xs : List Sym) (h : step s .eol = .ok s')
    (hm : s'.mode ≠ .startRecord) : readSyms s (.eol :: xs) = readSyms s' xs := by
  simp [readSyms, h, hm]

theorem readSyms_eol_emit (s s' : RState) (xs : List Sym) (h : step s .eol = .ok s')
    (hm : s'.mode = .startRecord) : readSyms s (.eol :: xs) = consRow s'.fields (readSyms {} xs) := by
  simp only [readSyms, h, hm, and_self, if_true]
  cases readSyms {} xs <;> rfl

/-! ### unfolding `symbols` -/

theorem symbols_plain (c : Char) (k : List Char) (h1 : c ≠ '\n') (h2 : c ≠ '\r') (hk : k ≠ []) :
    symbols (c :: k) = .ch c :: symbols k := by
  cases k with
  | nil => exact absurd rfl hk
  | cons d rest => simp [symbols, h1, h2]

theorem symbols_nl (c : Char) (k : List Char) (hc : c = '\n' ∨ c = '\r') (hk : Good k) :
    symbols (c :: k) = .ch c :: .eol :: symbols k := by
  obtain ⟨d, rest, rfl, hd⟩ := hk
  rcases hc with rfl | rfl <;> simp [symbols, hd]

theorem symbols_crlf (rest : List Char) :
    symbols ('\r' :: '\n' :: rest) = .ch '\r' :: .ch '\n' :: .eol :: symbols rest := by
  simp [symbols]

theorem good_escChar (c : Char) (k : List Char) : Good (escChar c ++ k) := by
  unfold escChar
  split
  · exact ⟨'\\', c :: k, rfl, by decide⟩
  · rename_i h
    refine ⟨c, k, rfl, ?_⟩
    intro hc
    subst hc
    exact h (by decide)

theorem good_escField (f k : List Char) (hk : Good k) : Good (escField f ++ k) := by
  cases f with
  | nil => simpa [escField] using hk
  | cons c f =>
    have : escField (c :: f) ++ k = escChar c ++ (escField f ++ k) := by simp [escField]
    rw [this]
    exact good_escChar _ _

/-! ### one escaped character -/

theorem step_backslash (s : RState) (hm : FieldMode s.mode) :
    step s (.ch '\\') = .ok { s with mode := .escapedChar } := by
  rcases hm with h | h | h <;> simp [step, h, startFieldStep, inFieldStep, isNL]

theorem read_escChar (s : RState) (hm : FieldMode s.mode) (c : Char) (k : List Char) (hk : Good k) :
    ∃ s', FieldMode s'.mode ∧ s'.field = s.field ++ [c] ∧ s'.fields = s.fields ∧
      readSyms s (symbols (escChar c ++ k)) = readSyms s' (symbols k) := by
  have hk0 : k ≠ [] := by obtain ⟨d, r, rfl, _⟩ := hk; simp
  by_cases hn : c = '\n' ∨ c = '\r'
  · -- escaped line break: `\`, the character, then the end of the physical line
    have he : escChar c = ['\\', c] := by rcases hn with rfl | rfl <;> rfl
    have hnl : isNL c = true := by rcases hn with rfl | rfl <;> rfl
    refine ⟨{ s with mode := .afterEscapedCRNL, field := s.field ++ [c] }, Or.inr (Or.inr rfl), rfl, rfl, ?_⟩
    rw [he]
    show readSyms s (symbols ('\\' :: c :: k)) = _
    rw [symbols_plain '\\' (c :: k) (by decide) (by decide) (by simp), symbols_nl c k hn hk,
      readSyms_ch _ _ _ _ (step_backslash s hm),
      readSyms_ch _ { s with mode := .afterEscapedCRNL, field := s.field ++ [c] } _ _
        (by simp [step, hnl, addChar]),
      readSyms_eol_keep _ { s with mode := .afterEscapedCRNL, field := s.field ++ [c] } _
        (by simp [step]) (by simp)]
  · have hc1 : c ≠ '\n' := fun h => hn (Or.inl h)
    have hc2 : c ≠ '\r' := fun h => hn (Or.inr h)
    have hnl : isNL c = false := by simp [isNL, hc1, hc2]
    by_cases hs : c = ',' ∨ c = '\\' ∨ c = '"'
    · -- escaped delimiter / escapechar / quotechar
      have he : escChar c = ['\\', c] := by rcases hs with rfl | rfl | rfl <;> rfl
      refine ⟨{ s with mode := .inField, field := s.field ++ [c] }, Or.inr (Or.inl rfl), rfl, rfl, ?_⟩
      rw [he]
      show readSyms s (symbols ('\\' :: c :: k)) = _
      rw [symbols_plain '\\' (c :: k) (by decide) (by decide) (by simp), symbols_plain c k hc1 hc2 hk0,
        readSyms_ch _ _ _ _ (step_backslash s hm),
        readSyms_ch _ { s with mode := .inField, field := s.field ++ [c] } _ _
          (by simp [step, hnl, addChar])]
    · -- ordinary character
      have h3 : c ≠ ',' := fun h => hs (Or.inl h)
      have h4 : c ≠ '\\' := fun h => hs (Or.inr (Or.inl h))
      have h5 : c ≠ '"' := fun h => hs (Or.inr (Or.inr h))
      have he : escChar c = [c] := by simp [escChar, needsEscape, hc1, hc2, h3, h4, h5]
      rw [he]
      show ∃ s', _ ∧ _ ∧ _ ∧ readSyms s (symbols (c :: k)) = _
      rw [symbols_plain c k hc1 hc2 hk0]
      rcases hm with h | h | h
      · exact ⟨{ s with mode := .inField, field := s.field ++ [c] }, Or.inr (Or.inl rfl), rfl, rfl,
          readSyms_ch _ _ _ _ (by simp [step, h, startFieldStep, hnl, h3, h4, addChar])⟩
      · exact ⟨{ s with field := s.field ++ [c] }, Or.inr (Or.inl h), rfl, rfl,
          readSyms_ch _ _ _ _ (by simp [step, h, inFieldStep, hnl, h3, h4, addChar])⟩
      · exact ⟨{ s with field := s.field ++ [c] }, Or.inr (Or.inr h), rfl, rfl,
          readSyms_ch _ _ _ _ (by simp [step, h, inFieldStep, hnl, h3, h4, addChar])⟩

/-! ### one field -/

theorem read_escField (f : List Char) : ∀ (s : RState), FieldMode s.mode → ∀ k, Good k →
    ∃ s', FieldMode s'.mode ∧ s'.field = s.field ++ f ∧ s'.fields = s.fields ∧
      readSyms s (symbols (escField f ++ k)) = readSyms s' (symbols k) := by
  induction f with
  | nil => intro s hm k _; exact ⟨s, hm, by simp, rfl, by simp [escField]⟩
  | cons c f ih =>
    intro s hm k hk
    have e : escField (c :: f) ++ k = escChar c ++ (escField f ++ k) := by simp [escField]
    obtain ⟨s1, hm1, hf1, hfs1, h1⟩ := read_escChar s hm c (escField f ++ k) (good_escField f k hk)
    obtain ⟨s2, hm2, hf2, hfs2, h2⟩ := ih s1 hm1 k hk
    exact ⟨s2, hm2, by rw [hf2, hf1]; simp, by rw [hfs2, hfs1], by rw [e, h1, h2]⟩

/-- The delimiter ends the field. -/
theorem read_delim (s : RState) (hm : FieldMode s.mode) (k : List Char) (hk : k ≠ []) :
    readSyms s (symbols (',' :: k)) =
      readSyms { mode := .startField, field := [], fields := s.fields ++ [s.field] } (symbols k) := by
  rw [symbols_plain ',' k (by decide) (by decide) hk]
  apply readSyms_ch
  rcases hm with h | h | h <;> simp [step, h, startFieldStep, inFieldStep, isNL, saveField]

/-- The line terminator ends the record. -/
theorem read_crlf (s : RState) (hm : FieldMode s.mode) (rest : List Char) :
    readSyms s (symbols ('\r' :: '\n' :: rest)) =
      consRow (s.fields ++ [s.field]) (readSyms {} (symbols rest)) := by
  rw [symbols_crlf,
    readSyms_ch s { mode := .eatCRNL, field := [], fields := s.fields ++ [s.field] } '\r' _
      (by rcases hm with h | h | h <;> simp [step, h, startFieldStep, inFieldStep, isNL, saveField]),
    readSyms_ch _ { mode := .eatCRNL, field := [], fields := s.fields ++ [s.field] } '\n' _
      (by simp [step, isNL]),
    readSyms_eol_emit _ { mode := .startRecord, field := [], fields := s.fields ++ [s.field] } _
      (by simp [step]) rfl]

/-! ### one record -/

theorem joinFields_cons_cons (f g : List Char) (gs : Row) :
    joinFields (f :: g :: gs) = escField f ++ ',' :: joinFields (g :: gs) := by
  simp [joinFields]

theorem read_fields (fs : Row) : ∀ (f : List Char) (s : RState), FieldMode s.mode → ∀ rest,
    readSyms s (symbols (joinFields (f :: fs) ++ '\r' :: '\n' :: rest)) =
      consRow (s.fields ++ (s.field ++ f) :: fs) (readSyms {} (symbols rest)) := by
  induction fs with
  | nil =>
    intro f s hm rest
    obtain ⟨s1, hm1, hf1, hfs1, h1⟩ :=
      read_escField f s hm ('\r' :: '\n' :: rest) ⟨'\r', _, rfl, by decide⟩
    have : joinFields [f] = escField f := by simp [joinFields]
    rw [this, h1, read_crlf s1 hm1, hf1, hfs1]
  | cons g gs ih =>
    intro f s hm rest
    have hgood : Good (',' :: (joinFields (g :: gs) ++ '\r' :: '\n' :: rest)) := ⟨',', _, rfl, by decide⟩
    obtain ⟨s1, hm1, hf1, hfs1, h1⟩ := read_escField f s hm _ hgood
    rw [joinFields_cons_cons, List.append_assoc, List.cons_append, h1,
      read_delim s1 hm1 _ (by simp), ih g _ (Or.inl rfl) rest, hf1, hfs1]
    simp

/-- From `START_RECORD` a character that is not a line break is handled as in `START_FIELD`. -/
theorem read_startRecord (k : List Char) (hk : Good k) (hk2 : ∀ d r, k = d :: r → d ≠ '\r') :
    readSyms {} (symbols k) = readSyms { mode := .startField } (symbols k) := by
  obtain ⟨d, r, rfl, hd⟩ := hk
  have hd2 := hk2 d r rfl
  have hnl : isNL d = false := by simp [isNL, hd, hd2]
  cases r with
  | nil =>
    simp [symbols, readSyms, step, hnl]
  | cons e r =>
    rw [symbols_plain d (e :: r) hd hd2 (by simp)]
    simp [readSyms, step, hnl]

theorem joinFields_head (f : List Char) (fs : Row) (h : f :: fs ≠ [[]]) (rest : List Char) :
    ∃ d r, joinFields (f :: fs) ++ '\r' :: '\n' :: rest = d :: r ∧ d ≠ '\n' ∧ d ≠ '\r' := by
  cases f with
  | nil =>
    cases fs with
    | nil => exact absurd rfl h
    | cons g gs =>
      exact ⟨',', joinFields (g :: gs) ++ '\r' :: '\n' :: rest, by simp [joinFields, escField], by decide, by decide⟩
  | cons c f =>
    have e : ∀ t, escField (c :: f) ++ t = escChar c ++ (escField f ++ t) := by simp [escField]
    have hc : ∃ d r, escChar c = d :: r ∧ d ≠ '\n' ∧ d ≠ '\r' := by
      unfold escChar
      split
      · exact ⟨'\\', [c], rfl, by decide, by decide⟩
      · rename_i hne
        refine ⟨c, [], rfl, ?_, ?_⟩ <;> (intro hc; subst hc; exact hne (by decide))
    obtain ⟨d, r, hdr, h1, h2⟩ := hc
    cases fs with
    | nil =>
      refine ⟨d, r ++ (escField f ++ '\r' :: '\n' :: rest), ?_, h1, h2⟩
      have : joinFields [c :: f] = escField (c :: f) := by simp [joinFields]
      rw [this, e, hdr]; rfl
    | cons g gs =>
      refine ⟨d, r ++ (escField f ++ (',' :: joinFields (g :: gs) ++ '\r' :: '\n' :: rest)), ?_, h1, h2⟩
      rw [joinFields_cons_cons, List.append_assoc, e, hdr]; rfl

/-- Reading one written record (any record except the unwritable `[""]`), followed by anything. -/
theorem read_row (row : Row) (h : row ≠ [[]]) (rest : List Char) :
    readSyms {} (symbols (joinFields row ++ '\r' :: '\n' :: rest)) =
      consRow row (readSyms {} (symbols rest)) := by
  cases row with
  | nil =>
    show readSyms {} (symbols ('\r' :: '\n' :: rest)) = _
    rw [symbols_crlf]
    rw [readSyms_ch {} { mode := .eatCRNL } '\r' _ (by simp [step, isNL]),
      readSyms_ch _ { mode := .eatCRNL } '\n' _ (by simp [step, isNL]),
      readSyms_eol_emit _ { mode := .startRecord } _ (by simp [step]) rfl]
  | cons f fs =>
    obtain ⟨d, r, hdr, h1, h2⟩ := joinFields_head f fs h rest
    rw [read_startRecord _ ⟨d, r, hdr, h1⟩ (by intro d' r' h'; rw [hdr] at h'; cases h'; exact h2),
      read_fields fs f { mode := .startField } (Or.inl rfl) rest]
    simp

/-- Text of a whole file: the rows written one after the other. -/
def encodeRows : List Row → List Char
  | [] => []
  | r :: rs => joinFields r ++ '\r' :: '\n' :: encodeRows rs

theorem read_encodeRows (rows : List Row) (h : ∀ r ∈ rows, r ≠ [[]]) :
    readFile (encodeRows rows) = .ok rows := by
  unfold readFile
  induction rows with
  | nil => simp [encodeRows, symbols, readSyms]
  | cons r rs ih =>
    have h1 : r ≠ [[]] := h r (by simp)
    have h2 : ∀ r' ∈ rs, r' ≠ [[]] := fun r' hr => h r' (by simp [hr])
    show readSyms {} (symbols (joinFields r ++ '\r' :: '\n' :: encodeRows rs)) = _
    rw [read_row r h1, ih h2]
    rfl

theorem encodeRows_append (a b : List Row) : encodeRows (a ++ b) = encodeRows a ++ encodeRows b := by
  induction a with
  | nil => rfl
  | cons r rs ih => simp [encodeRows, ih]

theorem writeRow_ok (row : Row) (h : row ≠ [[]]) : writeRow row = .ok (joinFields row ++ ['\r', '\n']) := by
  simp [writeRow, h]

/-! ### the archiver: column count -/

/-- `archive()` of this tag class returns a string (the tag has a column). -/
def hasColumn (t : Tag) : Bool :=
  match t.kind with
  | .skipped => false
  | _ => true

/-- Number of tags that get a column. -/
def columns (tags : List Tag) : Nat := (tags.filter hasColumn).length

theorem archive_kind (t : Tag) : (archive t).1.kind = t.kind := by
  unfold archive; split <;> simp_all

theorem archive_isSome (t : Tag) : (archive t).2.isSome = hasColumn t := by
  unfold archive hasColumn; split <;> simp_all

theorem archiveAll_kinds (tags : List Tag) :
    (archiveAll tags).1.map (·.kind) = tags.map (·.kind) := by
  induction tags with
  | nil => rfl
  | cons t ts ih => simp [archiveAll, archive_kind, ih]

theorem hasColumn_of_kind (a b : Tag) (h : a.kind = b.kind) : hasColumn a = hasColumn b := by
  simp [hasColumn, h]

theorem columns_of_kinds (a b : List Tag) (h : a.map (·.kind) = b.map (·.kind)) : columns a = columns b := by
  induction a generalizing b with
  | nil => cases b <;> simp_all [columns]
  | cons x xs ih =>
    cases b with
    | nil => simp at h
    | cons y ys =>
      simp only [List.map_cons, List.cons.injEq] at h
      have h1 := ih ys h.2
      have h2 := hasColumn_of_kind x y h.1
      simp only [columns, List.filter_cons, h2] at *
      split <;> simp_all

theorem dataRow_length (now : List Char) (tags : List Tag) :
    (dataRow now (archiveAll tags).2).length = 1 + columns tags := by
  have key : ∀ tags : List Tag, ((archiveAll tags).2.filterMap id).length = columns tags := by
    intro tags
    induction tags with
    | nil => simp [archiveAll, columns]
    | cons t ts ih =>
      have hs := archive_isSome t
      simp only [archiveAll, columns, List.filter_cons] at *
      cases h : (archive t).2 with
      | none => rw [h] at hs; simp [← hs, ih]
      | some v => rw [h] at hs; simp [← hs, ih]
  simp [dataRow, key]; omega

theorem headerRow_length (tags : List Tag) :
    (headerRow tags (archiveAll tags).2).length = 1 + columns tags := by
  have key : ∀ tags : List Tag,
      ((tags.zip (archiveAll tags).2).filter (fun p => p.2.isSome)).length = columns tags := by
    intro tags
    induction tags with
    | nil => simp [archiveAll, columns]
    | cons t ts ih =>
      have hs := archive_isSome t
      simp only [archiveAll, List.zip_cons_cons, List.filter_cons, columns] at *
      cases h : (archive t).2 with
      | none => rw [h] at hs; simp [← hs, ih]
      | some v => rw [h] at hs; simp [← hs, ih]
  simp [headerRow, key]; omega

theorem updTag_kinds (tags : List Tag) (i : Nat) (f : Tag → Tag) (hf : ∀ t, (f t).kind = t.kind) :
    (updTag tags i f).map (·.kind) = tags.map (·.kind) := by
  unfold updTag
  apply List.ext_getElem
  · simp
  · intro j h1 h2
    simp only [List.getElem_map, List.getElem_mapIdx]
    split <;> simp [hf]

theorem dataRow_ne (now : List Char) (vals : List (Option (List Char))) (h : now ≠ []) :
    dataRow now vals ≠ [[]] := by
  simp [dataRow, h]

theorem headerRow_ne (tags : List Tag) (vals : List (Option (List Char))) : headerRow tags vals ≠ [[]] := by
  simp [headerRow, timeHeader]

end OPM.Archive
