import OPM.Model.ArgRegex
/-! Helper lemmas for C22 (categorical and numeric acceptors). -/
namespace OPM.ArgRegex

/-! ### prefixes -/

theorem prefix_split {p s : Str} (h : p.isPrefixOf s = true) : s = p ++ s.drop p.length := by
  have := List.prefix_iff_eq_append.mp (List.isPrefixOf_iff_prefix.mp h)
  exact this.symm

theorem isPrefixOf_append (p t : Str) : p.isPrefixOf (p ++ t) = true :=
  List.isPrefixOf_iff_prefix.mpr (List.prefix_append p t)

theorem allSpace_append (a b : Str) : allSpace (a ++ b) = (allSpace a && allSpace b) := by
  simp [allSpace, List.all_append]

theorem allSpace_nil : allSpace [] = true := rfl

/-! ### the documented categorical language -/

/-- `+a₁+a₂…` -/
def plusTail : List Str → Str
  | [] => []
  | a :: as => '+' :: a ++ plusTail as

/-- `a₀+a₁+…` -/
def plusJoin : List Str → Str
  | [] => []
  | a :: as => a ++ plusTail as

theorem length_le_plusTail (as : List Str) : as.length ≤ (plusTail as).length := by
  induction as with
  | nil => simp [plusTail]
  | cons a as ih => simp [plusTail]; omega

theorem addLoop_sound (ad : List Str) : ∀ (fuel : Nat) (acc rest o : Str),
    addLoop ad fuel acc rest = some o →
    ∃ items w, (∀ a ∈ items, a ∈ ad) ∧ o = acc ++ plusTail items ∧ rest = plusTail items ++ w ∧
      allSpace w = true := by
  intro fuel
  induction fuel with
  | zero => intro acc rest o h; simp [addLoop] at h
  | succ fuel ih =>
    intro acc rest o h
    simp only [addLoop] at h
    split at h
    · -- one more item
      rename_i o' hmore
      cases h
      split at hmore
      · rename_i r
        obtain ⟨a, ha, hf⟩ := List.exists_of_findSome?_eq_some hmore
        split at hf
        · rename_i hp
          obtain ⟨items, w, h1, h2, h3, h4⟩ := ih _ _ _ hf
          refine ⟨a :: items, w, ?_, ?_, ?_, h4⟩
          · intro x hx
            rcases List.mem_cons.mp hx with e | e
            · exact e ▸ ha
            · exact h1 x e
          · rw [h2]; simp [plusTail]
          · have := prefix_split hp
            rw [h3] at this
            simp [plusTail]
            rw [this]
        · cases hf
      · cases hmore
    · split at h
      · rename_i hs
        cases h
        exact ⟨[], rest, by simp, by simp [plusTail], by simp [plusTail], hs⟩
      · cases h

theorem addLoop_complete (ad : List Str) (w : Str) (hw : allSpace w = true) :
    ∀ (items : List Str), (∀ a ∈ items, a ∈ ad) → ∀ (fuel : Nat) (acc : Str), items.length < fuel →
      (addLoop ad fuel acc (plusTail items ++ w)).isSome = true := by
  intro items
  induction items with
  | nil =>
    intro _ fuel acc hf
    cases fuel with
    | zero => omega
    | succ fuel =>
      simp only [addLoop, plusTail, List.nil_append]
      split
      · rfl
      · simp [hw]
  | cons a as ih =>
    intro hmem fuel acc hf
    cases fuel with
    | zero => omega
    | succ fuel =>
      have hrec := ih (fun x hx => hmem x (by simp [hx])) fuel (acc ++ '+' :: a) (by simp at hf; omega)
      have hsome : (List.findSome? (fun a' => if a'.isPrefixOf (a ++ plusTail as ++ w) = true then
          addLoop ad fuel (acc ++ '+' :: a') ((a ++ plusTail as ++ w).drop a'.length) else none) ad).isSome = true := by
        rw [List.findSome?_isSome_iff]
        refine ⟨a, hmem a (by simp), ?_⟩
        have hp : a.isPrefixOf (a ++ plusTail as ++ w) = true := by
          rw [List.append_assoc]; exact isPrefixOf_append _ _
        simp only [hp, if_true]
        have : (a ++ plusTail as ++ w).drop a.length = plusTail as ++ w := by
          rw [List.append_assoc]; exact List.drop_left
        rw [this]; exact hrec
      simp only [addLoop, plusTail, List.cons_append]
      split
      · rfl
      · rename_i hnone
        rw [hnone] at hsome
        cases hsome

/-! ### the documented numeric language -/

def AllDigits (d : Str) : Prop := ∀ c ∈ d, isDigit c = true

/-- Unsigned decimal number: `D+`, and unless integers only `D+.D*` or `.D+`. -/
inductive NumBody (intOnly : Bool) : Str → Prop
  | int (d : Str) : d ≠ [] → AllDigits d → NumBody intOnly d
  | frac (d f : Str) : intOnly = false → d ≠ [] → AllDigits d → AllDigits f → NumBody intOnly (d ++ '.' :: f)
  | lead (f : Str) : intOnly = false → f ≠ [] → AllDigits f → NumBody intOnly ('.' :: f)

/-- Decimal number, with a leading `-` allowed unless non-negative. -/
def IsNumber (nonNeg intOnly : Bool) (n : Str) : Prop :=
  NumBody intOnly n ∨ (nonNeg = false ∧ ∃ b, n = '-' :: b ∧ NumBody intOnly b)

theorem allDigits_takeWhile (l : Str) : AllDigits (l.takeWhile isDigit) := by
  induction l with
  | nil => intro c hc; simp at hc
  | cons x xs ih =>
    intro c hc
    rw [List.takeWhile_cons] at hc
    split at hc
    · rename_i hx
      rcases List.mem_cons.mp hc with e | e
      · exact e ▸ hx
      · exact ih c e
    · simp at hc

theorem allDigits_take {d : Str} (h : AllDigits d) (k : Nat) : AllDigits (d.take k) :=
  fun c hc => h c (List.mem_of_mem_take hc)

theorem take_takeWhile (l : Str) (j : Nat) (hj : j ≤ (l.takeWhile isDigit).length) :
    (l.takeWhile isDigit).take j = l.take j := by
  have h := @List.takeWhile_append_dropWhile _ isDigit l
  conv => rhs; rw [← h]
  rw [List.take_append_of_le_length hj]

theorem takeWhile_digits_append (d t : Str) (hd : AllDigits d) :
    (d ++ t).takeWhile isDigit = d ++ t.takeWhile isDigit :=
  List.takeWhile_append_of_pos hd

theorem dropWhile_digits_append (d t : Str) (hd : AllDigits d) :
    (d ++ t).dropWhile isDigit = t.dropWhile isDigit :=
  List.dropWhile_append_of_pos hd

theorem intCand_sound (d r : Str) (hd : AllDigits d) (k : Nat) (hk : k < d.length) (io : Bool) :
    NumBody io (d.take (k + 1)) ∧ d ++ r = d.take (k + 1) ++ (d.drop (k + 1) ++ r) := by
  refine ⟨NumBody.int _ ?_ (allDigits_take hd _), by simp [← List.append_assoc]⟩
  intro h
  have : (d.take (k + 1)).length = 0 := by rw [h]; rfl
  rw [List.length_take] at this
  omega

theorem bodyCands_sound (io : Bool) (body n rest : Str) (h : (n, rest) ∈ bodyCands io body) :
    NumBody io n ∧ body = n ++ rest := by
  have hsplit : body = body.takeWhile isDigit ++ body.dropWhile isDigit :=
    List.takeWhile_append_dropWhile.symm
  have hd := allDigits_takeWhile body
  unfold bodyCands at h
  simp only at h
  generalize hdd : body.takeWhile isDigit = d at h hsplit hd
  generalize hrr : body.dropWhile isDigit = r at h hsplit
  split at h
  · -- integers only
    simp only [intCandsLazy, List.mem_map, List.mem_range] at h
    obtain ⟨k, hk, he⟩ := h
    cases he
    rw [hsplit]
    exact intCand_sound d r hd k hk io
  · rename_i hio
    have hio' : io = false := by simpa using hio
    rcases List.mem_append.mp h with h1 | h2
    · split at h1
      · rename_i hdot
        obtain ⟨r', hr'⟩ : ∃ r', r = '.' :: r' := by
          cases r with
          | nil => simp at hdot
          | cons c r' => simp at hdot; exact ⟨r', by rw [hdot]⟩
        subst hr'
        simp only [List.tail_cons] at h1
        split at h1
        · -- dot, fraction digits
          rename_i hde
          have hd0 : d = [] := by simpa using hde
          subst hd0
          simp only [leadCands, List.mem_map, List.mem_reverse, List.mem_range] at h1
          obtain ⟨j, hj, he⟩ := h1
          cases he
          refine ⟨NumBody.lead _ hio' ?_ (allDigits_take (allDigits_takeWhile r') _), ?_⟩
          · intro h0
            have : ((r'.takeWhile isDigit).take (j + 1)).length = 0 := by rw [h0]; rfl
            rw [List.length_take] at this
            omega
          · rw [hsplit, take_takeWhile r' (j + 1) (by omega)]
            simp
        · -- digits, dot, fraction digits
          rename_i hde
          have hd0 : d ≠ [] := by simpa using hde
          simp only [fracCands, List.mem_map, List.mem_range] at h1
          obtain ⟨j, hj, he⟩ := h1
          cases he
          refine ⟨NumBody.frac _ _ hio' hd0 hd (allDigits_take (allDigits_takeWhile r') j), ?_⟩
          rw [hsplit, take_takeWhile r' j (by omega)]
          simp
      · cases h1
    · simp only [intCands, List.mem_map, List.mem_reverse, List.mem_range] at h2
      obtain ⟨k, hk, he⟩ := h2
      cases he
      rw [hsplit]
      exact intCand_sound d r hd k hk io

theorem numCands_sound (nn io : Bool) (s n rest : Str) (h : (n, rest) ∈ numCands nn io s) :
    IsNumber nn io n ∧ s = n ++ rest := by
  unfold numCands at h
  split at h
  · rename_i r
    split at h
    · obtain ⟨h1, h2⟩ := bodyCands_sound io _ n rest h
      exact ⟨Or.inl h1, h2⟩
    · rename_i hnn
      simp only [List.mem_map] at h
      obtain ⟨c, hc, he⟩ := h
      cases he
      obtain ⟨h1, h2⟩ := bodyCands_sound io r c.1 c.2 hc
      exact ⟨Or.inr ⟨by simpa using hnn, c.1, rfl, h1⟩, by rw [h2]; rfl⟩
  · obtain ⟨h1, h2⟩ := bodyCands_sound io _ n rest h
    exact ⟨Or.inl h1, h2⟩

theorem intCand_mem (d tail : Str) (hne : d ≠ []) (hd : AllDigits d) :
    ∃ k, k < ((d ++ tail).takeWhile isDigit).length ∧
      (((d ++ tail).takeWhile isDigit).take (k + 1),
        ((d ++ tail).takeWhile isDigit).drop (k + 1) ++ (d ++ tail).dropWhile isDigit) = (d, tail) := by
  have hlen : 0 < d.length := List.length_pos_iff.mpr hne
  refine ⟨d.length - 1, ?_, ?_⟩
  · rw [takeWhile_digits_append d tail hd]; simp; omega
  · have e : d.length - 1 + 1 = d.length := by omega
    rw [e, takeWhile_digits_append d tail hd, dropWhile_digits_append d tail hd, List.take_left, List.drop_left,
      List.takeWhile_append_dropWhile]

theorem bodyCands_complete (io : Bool) (n tail : Str) (h : NumBody io n) :
    (n, tail) ∈ bodyCands io (n ++ tail) := by
  unfold bodyCands
  simp only
  cases h with
  | int _ hne hd =>
    obtain ⟨k, hk, he⟩ := intCand_mem n tail hne hd
    split
    · simp only [intCandsLazy, List.mem_map, List.mem_range]
      exact ⟨k, hk, he⟩
    · apply List.mem_append_right
      simp only [intCands, List.mem_map, List.mem_reverse, List.mem_range]
      exact ⟨k, hk, he⟩
  | frac d f hio hne hd hf =>
    subst hio
    have e : d ++ '.' :: f ++ tail = d ++ ('.' :: (f ++ tail)) := by simp
    have htw : (d ++ ('.' :: (f ++ tail))).takeWhile isDigit = d := by
      rw [takeWhile_digits_append d _ hd]
      simp [show isDigit '.' = false by decide]
    have hdw : (d ++ ('.' :: (f ++ tail))).dropWhile isDigit = '.' :: (f ++ tail) := by
      rw [dropWhile_digits_append d _ hd]
      simp [show isDigit '.' = false by decide]
    rw [e, htw, hdw]
    apply List.mem_append_left
    have hde : d.isEmpty = false := by cases d <;> simp_all
    simp only [List.head?_cons, if_true, hde, List.tail_cons, Bool.false_eq_true, if_false, fracCands,
      List.mem_map, List.mem_range]
    refine ⟨f.length, ?_, ?_⟩
    · rw [takeWhile_digits_append f tail hf]; simp; omega
    · rw [takeWhile_digits_append f tail hf, List.take_left, List.drop_left]
  | lead f hio hne hf =>
    subst hio
    have hlen : 0 < f.length := List.length_pos_iff.mpr hne
    have e : '.' :: f ++ tail = '.' :: (f ++ tail) := by simp
    have htw : ('.' :: (f ++ tail)).takeWhile isDigit = [] := by
      simp [show isDigit '.' = false by decide]
    have hdw : ('.' :: (f ++ tail)).dropWhile isDigit = '.' :: (f ++ tail) := by
      simp [show isDigit '.' = false by decide]
    rw [e, htw, hdw]
    apply List.mem_append_left
    simp only [List.head?_cons, if_true, List.isEmpty_nil, List.tail_cons, leadCands, List.mem_map,
      List.mem_reverse, List.mem_range]
    refine ⟨f.length - 1, ?_, ?_⟩
    · rw [takeWhile_digits_append f tail hf]; simp; omega
    · have e2 : f.length - 1 + 1 = f.length := by omega
      rw [e2, takeWhile_digits_append f tail hf, List.take_left, List.drop_left]

theorem numBody_head (io : Bool) (n : Str) (h : NumBody io n) :
    ∃ c rest, n = c :: rest ∧ (isDigit c = true ∨ c = '.') := by
  cases h with
  | int _ hne hd =>
    cases n with
    | nil => exact absurd rfl hne
    | cons c cs => exact ⟨c, cs, rfl, Or.inl (hd c (by simp))⟩
  | frac d f _ hne hd _ =>
    cases d with
    | nil => exact absurd rfl hne
    | cons c cs => exact ⟨c, cs ++ '.' :: f, rfl, Or.inl (hd c (by simp))⟩
  | lead f _ _ _ => exact ⟨'.', f, rfl, Or.inr rfl⟩

theorem numCands_complete (nn io : Bool) (n tail : Str) (h : IsNumber nn io n) :
    (n, tail) ∈ numCands nn io (n ++ tail) := by
  rcases h with h | ⟨hnn, b, rfl, hb⟩
  · obtain ⟨c, rest, rfl, hc⟩ := numBody_head io n h
    have hne : c ≠ '-' := by
      rcases hc with hc | hc
      · intro e; subst e; revert hc; decide
      · subst hc; decide
    unfold numCands
    split
    · rename_i r heq
      simp only [List.cons_append, List.cons.injEq] at heq
      exact absurd heq.1 hne
    · exact bodyCands_complete io _ tail h
  · subst hnn
    show ('-' :: b, tail) ∈ numCands false io ('-' :: (b ++ tail))
    simp only [numCands, Bool.false_eq_true, if_false, List.mem_map]
    exact ⟨(b, tail), bodyCands_complete io b tail hb, rfl⟩

/-- The first character of a number is not white space. -/
theorem isNumber_head_not_space (nn io : Bool) (n : Str) (h : IsNumber nn io n) :
    ∃ c rest, n = c :: rest ∧ isSpace c = false := by
  rcases h with h | ⟨_, b, rfl, _⟩
  · obtain ⟨c, rest, rfl, hc⟩ := numBody_head io n h
    refine ⟨c, rest, rfl, ?_⟩
    rcases hc with hc | hc
    · simp only [isDigit, Bool.and_eq_true, decide_eq_true_eq] at hc
      simp only [isSpace]
      have h1 := hc.1
      have h2 := hc.2
      simp
      omega
    · subst hc; decide
  · exact ⟨'-', b, rfl, by decide⟩

/-! ### white space and the unit continuation -/

theorem allSpace_takeWhile (l : Str) : allSpace (l.takeWhile isSpace) = true := by
  induction l with
  | nil => rfl
  | cons x xs ih =>
    rw [List.takeWhile_cons]
    split
    · rename_i hx; simp [allSpace, hx]
    · rfl

theorem allSpace_take {l : Str} (h : allSpace l = true) (k : Nat) : allSpace (l.take k) = true := by
  simp only [allSpace, List.all_eq_true] at *
  exact fun c hc => h c (List.mem_of_mem_take hc)

theorem take_takeWhile_space (l : Str) (j : Nat) (hj : j ≤ (l.takeWhile isSpace).length) :
    (l.takeWhile isSpace).take j = l.take j := by
  have h := @List.takeWhile_append_dropWhile _ isSpace l
  conv => rhs; rw [← h]
  rw [List.take_append_of_le_length hj]

theorem takeWhile_space_append (w t : Str) (hw : allSpace w = true) :
    (w ++ t).takeWhile isSpace = w ++ t.takeWhile isSpace :=
  List.takeWhile_append_of_pos (List.all_eq_true.mp hw)

theorem dropWhile_space_append (w t : Str) (hw : allSpace w = true) :
    (w ++ t).dropWhile isSpace = t.dropWhile isSpace :=
  List.dropWhile_append_of_pos (List.all_eq_true.mp hw)

theorem unitAt_sound (units : List Str) (t x : Str) (h : unitAt units t = some x) :
    x ∈ units ∧ ∃ w, t = x ++ w ∧ allSpace w = true := by
  have hp := List.find?_some h
  simp only [Bool.and_eq_true] at hp
  exact ⟨List.mem_of_find?_eq_some h, _, prefix_split hp.1, hp.2⟩

theorem unitAt_complete (units : List Str) (x w : Str) (hx : x ∈ units) (hw : allSpace w = true) :
    (unitAt units (x ++ w)).isSome = true := by
  unfold unitAt
  rw [List.find?_isSome]
  exact ⟨x, hx, by simp [isPrefixOf_append, hw]⟩

theorem contUnits_sound (units : List Str) (rest x : Str) (h : contUnits units rest = some x) :
    x ∈ units ∧ ∃ w2 w3, rest = w2 ++ x ++ w3 ∧ allSpace w2 = true ∧ allSpace w3 = true := by
  unfold contUnits at h
  obtain ⟨k, hk, hu⟩ := List.exists_of_findSome?_eq_some h
  simp only [List.mem_reverse, List.mem_range] at hk
  obtain ⟨hx, w3, ht, hw3⟩ := unitAt_sound units _ x hu
  refine ⟨hx, rest.take k, w3, ?_, ?_, hw3⟩
  · rw [List.append_assoc, ← ht, List.take_append_drop]
  · rw [← take_takeWhile_space rest k (by omega)]
    exact allSpace_take (allSpace_takeWhile rest) k

theorem contUnits_complete (units : List Str) (w2 x w3 : Str) (hx : x ∈ units) (h2 : allSpace w2 = true)
    (h3 : allSpace w3 = true) : (contUnits units (w2 ++ x ++ w3)).isSome = true := by
  unfold contUnits
  rw [List.findSome?_isSome_iff]
  refine ⟨w2.length, ?_, ?_⟩
  · simp only [List.mem_reverse, List.mem_range]
    rw [List.append_assoc, takeWhile_space_append w2 _ h2]
    simp; omega
  · rw [List.append_assoc, List.drop_left]
    exact unitAt_complete units x w3 hx h3

/-! ### uniqueness of the documented reading -/

def EndsNonSpace (o : Str) : Prop := ∀ ys c, o = ys ++ [c] → isSpace c = false
def StartsNonSpace (o : Str) : Prop := ∀ c r, o = c :: r → isSpace c = false

theorem exists_concat_of_ne_nil : ∀ (l : Str), l ≠ [] → ∃ ys c, l = ys ++ [c]
  | [], h => absurd rfl h
  | [x], _ => ⟨[], x, rfl⟩
  | x :: y :: r, _ =>
    let ⟨ys, c, h⟩ := exists_concat_of_ne_nil (y :: r) (by simp)
    ⟨x :: ys, c, by rw [h]; rfl⟩

/-- A value that does not end in white space is determined by the text `value ++ white space`. -/
theorem strip_unique (o o' w w' : Str) (h : o ++ w = o' ++ w') (hw : allSpace w = true)
    (hw' : allSpace w' = true) (ho : EndsNonSpace o) (ho' : EndsNonSpace o') : o = o' := by
  have key : ∀ (p q v v' : Str), q = p ++ v' → allSpace v = true → (∃ t, v = v' ++ t) → EndsNonSpace q → q = p := by
    intro p q v v' hq hv ⟨t, ht⟩ hqe
    by_cases hv' : v' = []
    · rw [hq, hv']; simp
    · obtain ⟨ys, c, hc⟩ := exists_concat_of_ne_nil v' hv'
      have h1 := hqe (p ++ ys) c (by rw [hq, hc]; simp)
      have h2 : isSpace c = true := by
        simp only [allSpace, List.all_eq_true] at hv
        exact hv c (by rw [ht, hc]; simp)
      rw [h1] at h2; cases h2
  rcases List.append_eq_append_iff.mp h with ⟨as, h1, h2⟩ | ⟨bs, h1, h2⟩
  · exact (key o o' w as h1 hw ⟨w', h2⟩ ho').symm
  · exact key o' o w' bs h1 hw' ⟨w, h2⟩ ho

theorem dropWhile_space_of_start (w t : Str) (hw : allSpace w = true) (ht : StartsNonSpace t) :
    (w ++ t).dropWhile isSpace = t := by
  rw [dropWhile_space_append w t hw]
  cases t with
  | nil => rfl
  | cons c r => simp [ht c r rfl]

theorem digit_or_dot_not_space (c : Char) (h : isDigit c = true ∨ c = '.') : isSpace c = false := by
  rcases h with h | h
  · simp only [isDigit, Bool.and_eq_true, decide_eq_true_eq] at h
    have h1 := h.1
    have h2 := h.2
    simp [isSpace]
    omega
  · subst h; decide

theorem numBody_chars (io : Bool) (n : Str) (h : NumBody io n) : ∀ c ∈ n, isDigit c = true ∨ c = '.' := by
  cases h with
  | int _ _ hd => exact fun c hc => Or.inl (hd c hc)
  | frac d f _ _ hd hf =>
    intro c hc
    simp only [List.mem_append, List.mem_cons] at hc
    rcases hc with hc | hc | hc
    · exact Or.inl (hd c hc)
    · exact Or.inr hc
    · exact Or.inl (hf c hc)
  | lead f _ _ hf =>
    intro c hc
    rcases List.mem_cons.mp hc with hc | hc
    · exact Or.inr hc
    · exact Or.inl (hf c hc)

/-- Behind its first character a number consists of digits and dots only. -/
theorem isNumber_tail_chars (nn io : Bool) (n : Str) (h : IsNumber nn io n) :
    ∃ c r, n = c :: r ∧ ∀ x ∈ r, isDigit x = true ∨ x = '.' := by
  rcases h with h | ⟨_, b, rfl, hb⟩
  · obtain ⟨c, r, rfl, _⟩ := numBody_head io n h
    exact ⟨c, r, rfl, fun x hx => numBody_chars io _ h x (by simp [hx])⟩
  · exact ⟨'-', b, rfl, numBody_chars io b hb⟩

/-- Two numbers at the start of the same text, each followed by something that does not continue a number,
    are equal. -/
theorem number_prefix_unique (nn io : Bool) (n n' t t' : Str) (hn : IsNumber nn io n) (hn' : IsNumber nn io n')
    (h : n ++ t = n' ++ t')
    (ht : ∀ c r, t = c :: r → ¬(isDigit c = true ∨ c = '.'))
    (ht' : ∀ c r, t' = c :: r → ¬(isDigit c = true ∨ c = '.')) : n = n' := by
  have key2 : ∀ (p q as v t₁ : Str), IsNumber nn io p → IsNumber nn io q → q = p ++ as → v = as ++ t₁ →
      (∀ c r, v = c :: r → ¬(isDigit c = true ∨ c = '.')) → q = p := by
    intro p q as v t₁ hp hq hqe hv hvh
    cases as with
    | nil => rw [hqe]; simp
    | cons a as' =>
      exfalso
      obtain ⟨c, r, hc, hr⟩ := isNumber_tail_chars nn io q hq
      obtain ⟨c0, r0, hc0⟩ : ∃ c0 r0, p = c0 :: r0 := by
        obtain ⟨c0, r0, h0, _⟩ := isNumber_tail_chars nn io p hp
        exact ⟨c0, r0, h0⟩
      have : a ∈ r := by
        rw [hc0] at hqe
        rw [hqe] at hc
        simp only [List.cons_append, List.cons.injEq] at hc
        rw [← hc.2]; simp
      exact hvh a (as' ++ t₁) (by rw [hv]; rfl) (hr a this)
  rcases List.append_eq_append_iff.mp h with ⟨as, h1, h2⟩ | ⟨bs, h1, h2⟩
  · exact (key2 n n' as t t' hn hn' h1 h2 ht).symm
  · exact key2 n' n bs t' t hn' hn h1 h2 ht'

end OPM.ArgRegex
