import OPM.Model.EngineId
/-! Helper lemmas for C38: percent-encoding is a prefix code, hence injective. -/
namespace OPM.EngineId

def unhex (c : Char) : Nat :=
  if c.toNat < 58 then c.toNat - 48 else c.toNat - 55

/-- Decoder used only in proofs (left inverse of `quoteWith safe` when `%` is unsafe). -/
def unq : List Char → List UInt8
  | [] => []
  | [c] => [c.toNat.toUInt8]
  | [c, d] => [c.toNat.toUInt8, d.toNat.toUInt8]
  | c :: h :: l :: rest =>
      if c = '%' then (unhex h * 16 + unhex l).toUInt8 :: unq rest
      else c.toNat.toUInt8 :: unq (h :: l :: rest)

theorem unq_cons_ne (c : Char) (rest : List Char) (h : c ≠ '%') :
    unq (c :: rest) = c.toNat.toUInt8 :: unq rest := by
  match rest with
  | [] => simp [unq]
  | [d] => simp [unq]
  | d :: e :: r => simp [unq, h]

theorem unq_pct (h l : Char) (rest : List Char) :
    unq ('%' :: h :: l :: rest) = (unhex h * 16 + unhex l).toUInt8 :: unq rest := by
  simp [unq]

theorem byte_unsafe_roundtrip :
    ∀ n, n < 256 → (unhex (hexDigit (n / 16)) * 16 + unhex (hexDigit (n % 16))) = n := by
  decide +kernel

theorem byte_safe_roundtrip :
    ∀ n, n < 256 → (Char.ofNat n).toNat = n ∧ (n ≠ 37 → Char.ofNat n ≠ '%') := by
  decide +kernel

theorem unq_quoteByte (safe : Nat → Bool) (hs : safe 37 = false) (b : UInt8) (rest : List Char) :
    unq (quoteByte safe b ++ rest) = b :: unq rest := by
  have hb : b.toNat < 256 := b.toNat_lt
  unfold quoteByte
  split
  · rename_i hsafe
    have hne : b.toNat ≠ 37 := by
      intro h; rw [h, hs] at hsafe; exact absurd hsafe (by simp)
    have := byte_safe_roundtrip b.toNat hb
    simp only [List.cons_append, List.nil_append]
    rw [unq_cons_ne _ _ (this.2 hne), this.1]
    simp
  · simp only [List.cons_append, List.nil_append]
    rw [unq_pct, byte_unsafe_roundtrip b.toNat hb]
    simp

theorem unq_quoteWith (safe : Nat → Bool) (hs : safe 37 = false) (bs : List UInt8) :
    unq (quoteWith safe bs) = bs := by
  induction bs with
  | nil => simp [quoteWith, unq]
  | cons b bs ih =>
    have : quoteWith safe (b :: bs) = quoteByte safe b ++ quoteWith safe bs := by
      simp [quoteWith]
    rw [this, unq_quoteByte safe hs, ih]

theorem quoteWith_injective (safe : Nat → Bool) (hs : safe 37 = false) {a b : List UInt8}
    (h : quoteWith safe a = quoteWith safe b) : a = b := by
  have := congrArg unq h
  rwa [unq_quoteWith safe hs, unq_quoteWith safe hs] at this

/-- Escaping `_` after `quote` is the same as quoting with `_` removed from the safe set. -/
theorem escSep_quoteByte :
    ∀ n, n < 256 → escSep (quoteByte safeQuote n.toUInt8) = quoteByte safeNoSep n.toUInt8 := by
  decide +kernel

theorem escSep_append (a b : List Char) : escSep (a ++ b) = escSep a ++ escSep b := by
  simp [escSep]

theorem escSep_quote (bs : List UInt8) : escSep (quote bs) = quoteWith safeNoSep bs := by
  induction bs with
  | nil => simp [quote, quoteWith, escSep]
  | cons b bs ih =>
    have h1 : quote (b :: bs) = quoteByte safeQuote b ++ quote bs := by simp [quote, quoteWith]
    have h2 : quoteWith safeNoSep (b :: bs) = quoteByte safeNoSep b ++ quoteWith safeNoSep bs := by
      simp [quoteWith]
    have hb := escSep_quoteByte b.toNat b.toNat_lt
    simp only [UInt8.ofNat_toNat, Nat.toUInt8_eq] at hb
    rw [h1, h2, escSep_append, ih, hb]

theorem noSep_quoteByte :
    ∀ n, n < 256 → '_' ∉ quoteByte safeNoSep n.toUInt8 := by
  decide +kernel

theorem noSep_quoteWith (bs : List UInt8) : '_' ∉ quoteWith safeNoSep bs := by
  induction bs with
  | nil => simp [quoteWith]
  | cons b bs ih =>
    have hb := noSep_quoteByte b.toNat b.toNat_lt
    simp only [UInt8.ofNat_toNat, Nat.toUInt8_eq] at hb
    simp only [quoteWith, List.flatMap_cons, List.mem_append, not_or] at *
    exact ⟨hb, ih⟩

/-- Splitting at the first separator is unambiguous. -/
theorem split_at_first {α : Type} [DecidableEq α] (s : α) :
    ∀ (l₁ l₂ r₁ r₂ : List α), s ∉ l₁ → s ∉ l₂ → l₁ ++ s :: r₁ = l₂ ++ s :: r₂ →
      l₁ = l₂ ∧ r₁ = r₂ := by
  intro l₁
  induction l₁ with
  | nil =>
    intro l₂ r₁ r₂ _ h₂ h
    cases l₂ with
    | nil => simpa using h
    | cons x xs =>
      simp only [List.nil_append, List.cons_append, List.cons.injEq] at h
      exact absurd (h.1 ▸ List.mem_cons_self) h₂
  | cons y ys ih =>
    intro l₂ r₁ r₂ h₁ h₂ h
    cases l₂ with
    | nil =>
      simp only [List.nil_append, List.cons_append, List.cons.injEq] at h
      exact absurd (h.1 ▸ List.mem_cons_self) h₁
    | cons x xs =>
      simp only [List.cons_append, List.cons.injEq] at h
      have h₁' : s ∉ ys := fun m => h₁ (List.mem_cons_of_mem _ m)
      have h₂' : s ∉ xs := fun m => h₂ (List.mem_cons_of_mem _ m)
      obtain ⟨e1, e2⟩ := ih xs r₁ r₂ h₁' h₂' h.2
      exact ⟨by rw [h.1, e1], e2⟩

end OPM.EngineId
