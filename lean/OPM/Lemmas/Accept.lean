import OPM.Model.Accept
import OPM.Lemmas.Analyzer
/-!
Helper lemmas for C20 (model `OPM.Accept`).  Core Lean only.
-/
namespace OPM.Accept
open OPM.Units OPM.Analyzer

theorem collect_nil {f : Node → Except AErr (List Item)} {ns : List Node}
    (h : collect f ns = .ok []) : ∀ n ∈ ns, f n = .ok [] := by
  induction ns with
  | nil => intro n hn; cases hn
  | cons m ms ih =>
    simp only [collect] at h
    split at h
    · cases h
    · rename_i is his
      split at h
      · cases h
      · rename_i ks hks
        have hnil : is ++ ks = [] := Except.ok.inj h
        obtain ⟨h1, h2⟩ := List.append_eq_nil_iff.mp hnil
        subst h1; subst h2
        intro n hn
        rcases List.mem_cons.mp hn with rfl | hn'
        · exact his
        · exact ih hks n hn'

theorem analyze_nil {E : Env} {r : Bool} {ns : List Node} (h : analyze E r ns = .ok []) :
    ∀ n ∈ ns, condItems E r n = .ok [] ∧ simItems E r n = .ok [] ∧ cmdItems E n = .ok [] := by
  unfold analyze at h
  split at h
  · cases h
  · rename_i c hc
    split at h
    · cases h
    · rename_i s hs
      split at h
      · cases h
      · rename_i m hm
        have hnil : c ++ s ++ m = [] := Except.ok.inj h
        obtain ⟨h12, h3⟩ := List.append_eq_nil_iff.mp hnil
        obtain ⟨h1, h2⟩ := List.append_eq_nil_iff.mp h12
        subst h1; subst h2; subst h3
        intro n hn
        exact ⟨collect_nil hc n hn, collect_nil hs n hn, collect_nil hm n hn⟩

/-- what `afterTag` returning no item tells about the units -/
theorem afterTag_nil {E : Env} {an : An} {sim : Bool} {line : Nat} {c : Cond} {name : String}
    (h : afterTag E true an sim line c name = .ok []) :
    ∃ tag, tagsGet E name = .ok tag ∧
      ((tag.unit = none ∧ c.tagUnit = none) ∨
       (∃ tu u, tag.unit = some tu ∧ c.tagUnit = some u ∧ areComparable E.units (some tu) (some u) = .ok true)) := by
  unfold afterTag at h
  by_cases h1 : (if sim = true then c.op != "=" else c.op == "") = true
  · simp only [h1, if_true] at h; cases h
  · simp only [h1, Bool.false_eq_true, if_false] at h
    by_cases h2 : (c.rhs == "" || c.tagValue == some "") = true
    · simp only [h2, if_true] at h; cases h
    · simp only [h2, Bool.false_eq_true, if_false] at h
      cases hg : tagsGet E name with
      | error e => rw [hg] at h; cases h
      | ok tag =>
        rw [hg] at h
        simp only at h
        refine ⟨tag, rfl, ?_⟩
        cases htu : tag.unit with
        | none =>
          cases hcu : c.tagUnit with
          | none => exact Or.inl ⟨rfl, rfl⟩
          | some u => simp [htu, hcu] at h
        | some tu =>
          cases hcu : c.tagUnit with
          | none =>
            simp only [htu, hcu, Option.isNone_some, Option.isSome_none, Bool.and_false, Bool.false_eq_true, if_false,
              Option.isSome_some, Option.isNone_none, Bool.and_true, Bool.true_and] at h
            cases hs : suggestedUnits E true (some tu) with
            | error e => rw [hs] at h; cases h
            | ok valid =>
              rw [hs] at h
              simp only at h
              split at h
              · cases h
              · simp at h
          | some u =>
            right
            refine ⟨tu, u, rfl, rfl, ?_⟩
            simp only [htu, hcu, Option.isNone_some, Option.isSome_some, Bool.false_and, Bool.false_eq_true, if_false,
              Option.isNone_some, Bool.and_false, Bool.true_and, if_true] at h
            cases hs : suggestedUnits E true (some tu) with
            | error e => rw [hs] at h; cases h
            | ok valid =>
              rw [hs] at h
              simp only at h
              cases hcmp : areComparable E.units (some tu) (some u) with
              | error e => rw [hcmp] at h; cases e <;> simp at h
              | ok b =>
                cases b with
                | true => rfl
                | false => rw [hcmp] at h; simp at h

theorem tagsGet_find {E : Env} {name : String} {tag : TagDef} (h : tagsGet E name = .ok tag) :
    E.tags.find? (fun t => t.name == name) = some tag ∧ isBlank name = false := by
  unfold tagsGet at h
  split at h
  · cases h
  · rename_i hb
    split at h
    · rename_i t ht
      cases h
      exact ⟨ht, by simpa using hb⟩
    · cases h

/-- a Watch / Alarm / Simulate the analyzer has nothing to say about: the tag is defined and the units fit -/
theorem analyzeTov_nil {E : Env} {an : An} {sim : Bool} {n : Node} (h : analyzeTov E true an sim n = .ok []) :
    ∃ c name tag, n.cond = some c ∧ c.tagName = some name ∧ isBlank name = false ∧
      E.tags.find? (fun t => t.name == name) = some tag ∧
      ((tag.unit = none ∧ c.tagUnit = none) ∨
       (∃ tu u, tag.unit = some tu ∧ c.tagUnit = some u ∧ areComparable E.units (some tu) (some u) = .ok true)) := by
  unfold analyzeTov at h
  cases hc : n.cond with
  | none => rw [hc] at h; cases h
  | some c =>
    rw [hc] at h
    simp only at h
    cases hn : c.tagName with
    | none => rw [hn] at h; cases h
    | some name =>
      rw [hn] at h
      simp only at h
      by_cases hb : isBlank name = true
      · simp only [hb, if_true] at h; cases h
      · have hb' : isBlank name = false := by simpa using hb
        simp only [hb', Bool.false_eq_true, if_false, tagsHas_ok hb'] at h
        cases hh : E.tags.any (fun t => t.name == name) with
        | true =>
          rw [hh] at h
          simp only at h
          obtain ⟨tag, hg, hu⟩ := afterTag_nil h
          exact ⟨c, name, tag, rfl, hn, hb', (tagsGet_find hg).1, hu⟩
        | false =>
          rw [hh] at h
          simp only at h
          obtain ⟨i, hi, _⟩ := undefinedTag_repaired E an n.line name
          rw [hi] at h
          cases h

theorem analyzeSimulateOff_nil {E : Env} {n : Node} (h : analyzeSimulateOff E true n = .ok []) :
    ∃ tag, E.tags.find? (fun t => t.name == n.arguments) = some tag := by
  unfold analyzeSimulateOff at h
  split at h
  · cases h
  · cases hh : tagsHas E n.arguments with
    | error e => rw [hh] at h; cases h
    | ok b =>
      rw [hh] at h
      cases b with
      | true =>
        unfold tagsHas at hh
        split at hh
        · cases hh
        · have hany : E.tags.any (fun t => t.name == n.arguments) = true := Except.ok.inj hh
          cases hf : E.tags.find? (fun t => t.name == n.arguments) with
          | some t => exact ⟨t, rfl⟩
          | none =>
            rw [List.find?_eq_none] at hf
            rw [List.any_eq_true] at hany
            obtain ⟨x, hx, hp⟩ := hany
            exact absurd hp (hf x hx)
      | false =>
        simp only at h
        obtain ⟨i, hi, _⟩ := undefinedTag_repaired E .simulate n.line n.arguments
        rw [hi] at h
        cases h

/-- a command line the analyzer has nothing to say about: the command is defined and its validator accepts -/
theorem checkCommand_nil {E : Env} {n : Node} (h : checkCommand E n = .ok []) :
    ∃ cmd, E.cmds.find? (fun c => c.name == cmdName n) = some cmd ∧ n.argsValid = true := by
  unfold checkCommand at h
  simp only at h
  cases hh : cmdsHas E (cmdName n) with
  | error e => rw [hh] at h; cases h
  | ok b =>
    rw [hh] at h
    cases b with
    | false =>
      simp only at h
      split at h <;> cases h
    | true =>
      simp only at h
      cases hg : cmdsGet E (cmdName n) with
      | error e => rw [hg] at h; cases h
      | ok cmd =>
        rw [hg] at h
        simp only at h
        have hfind : E.cmds.find? (fun c => c.name == cmdName n) = some cmd := by
          unfold cmdsGet at hg
          split at hg
          · cases hg
          · split at hg
            · rename_i c hc; cases hg; exact hc
            · cases hg
        refine ⟨cmd, hfind, ?_⟩
        split at h
        · cases h
        · split at h
          · cases h
          · rename_i hv
            simpa using hv

/-! ### looking a command up in the published definition -/

theorem find?_of_unique {α : Type} {l : List α} {p : α → Bool} {x : α} (hx : x ∈ l) (hp : p x = true)
    (hu : ∀ y ∈ l, p y = true → y = x) : l.find? p = some x := by
  cases hf : l.find? p with
  | none =>
    rw [List.find?_eq_none] at hf
    exact absurd hp (by simpa using hf x hx)
  | some y =>
    have := hu y (List.mem_of_find?_eq_some hf) (List.find?_some hf)
    rw [this]

theorem mem_all_cases {G : Engine} {r : Bool} {y : PubCmd} (h : y ∈ (publish G r).all) :
    (∃ c ∈ G.uodCmds, ∃ rx, c.parser = .regex rx ∧ y = ⟨c.name, some rx⟩) ∨
    (∃ c ∈ G.uodCmds, (∀ rx, c.parser ≠ .regex rx) ∧ y = ⟨c.name, none⟩) ∨
    (∃ n ∈ G.examples, y = (if r && n == "Base" then ⟨n, some (baseRegex G.baseUnits)⟩ else ⟨n, G.specs.lookup n⟩)) := by
  simp only [Published.all, publish, List.mem_append, List.mem_filterMap, List.mem_map] at h
  rcases h with (⟨c, hc, hy⟩ | ⟨c, hc, hy⟩) | ⟨n, hn, hy⟩
  · left
    cases hp : c.parser with
    | regex rx => rw [hp] at hy; exact ⟨c, hc, rx, hp, (Option.some.inj hy).symm⟩
    | default => rw [hp] at hy; cases hy
    | custom => rw [hp] at hy; cases hy
  · right; left
    cases hp : c.parser with
    | regex rx => rw [hp] at hy; cases hy
    | default => rw [hp] at hy; exact ⟨c, hc, (fun rx h => by rw [hp] at h; cases h), (Option.some.inj hy).symm⟩
    | custom => rw [hp] at hy; exact ⟨c, hc, (fun rx h => by rw [hp] at h; cases h), (Option.some.inj hy).symm⟩
  · right; right
    exact ⟨n, hn, hy.symm⟩

theorem sysName {r : Bool} {G : Engine} (n : String) :
    (if r && n == "Base" then (⟨n, some (baseRegex G.baseUnits)⟩ : PubCmd) else ⟨n, G.specs.lookup n⟩).name = n := by
  split <;> rfl

/-- the published entry of a uod command with a regex parser carries exactly that regex -/
theorem find_uod_regex {G : Engine} (hN : NamesOk G) (r : Bool) {c : UodCmd} (hc : c ∈ G.uodCmds) {rx : String}
    (hp : c.parser = .regex rx) :
    (publish G r).all.find? (fun y => y.name == c.name) = some ⟨c.name, some rx⟩ := by
  apply find?_of_unique
  · simp only [Published.all, publish, List.mem_append, List.mem_filterMap]
    left; left
    exact ⟨c, hc, by rw [hp]⟩
  · simp
  · intro y hy hname
    have hname' : y.name = c.name := by simpa using hname
    rcases mem_all_cases hy with ⟨c', hc', rx', hp', rfl⟩ | ⟨c', hc', hp', rfl⟩ | ⟨n, hn, rfl⟩
    · have := hN.unique c hc c' hc' hname'
      subst this
      rw [hp] at hp'; cases hp'; rfl
    · have := hN.unique c hc c' hc' hname'
      subst this
      exact absurd hp (hp' rx)
    · rw [sysName] at hname'
      have h1 := hN.examplesKeyword n hn
      have h2 := hN.notKeyword c hc
      rw [hname'] at h1; rw [h1] at h2; cases h2

/-- the published entry of a name that is not a uod command: the system entry of that name, if any -/
theorem find_system {G : Engine} (r : Bool) {name : String} (hno : ∀ c ∈ G.uodCmds, c.name ≠ name) {y : PubCmd}
    (h : (publish G r).all.find? (fun y => y.name == name) = some y) :
    name ∈ G.examples ∧
      y = (if r && name == "Base" then ⟨name, some (baseRegex G.baseUnits)⟩ else ⟨name, G.specs.lookup name⟩) := by
  have hy := List.mem_of_find?_eq_some h
  have hname : y.name = name := by simpa using List.find?_some h
  rcases mem_all_cases hy with ⟨c', hc', rx', _, rfl⟩ | ⟨c', hc', _, rfl⟩ | ⟨n, hn, rfl⟩
  · exact absurd hname (hno c' hc')
  · exact absurd hname (hno c' hc')
  · rw [sysName] at hname
    subst hname
    exact ⟨hn, rfl⟩

/-- `analyzerEnv` looks a command up exactly where `pubValid` does -/
theorem env_find {G : Engine} {P : Published} {name : String} {cmd : CmdDef}
    (h : (analyzerEnv G P).cmds.find? (fun c => c.name == name) = some cmd) :
    ∃ y, P.all.find? (fun y => y.name == name) = some y := by
  simp only [analyzerEnv, List.find?_map] at h
  cases hf : P.all.find? (fun y => y.name == name) with
  | some y => exact ⟨y, rfl⟩
  | none =>
    have : List.find? ((fun c : CmdDef => c.name == name) ∘ fun c : PubCmd => (⟨c.name, c.validator == some "^$"⟩ : CmdDef)) P.all
        = List.find? (fun y => y.name == name) P.all := rfl
    rw [this, hf] at h
    cases h

/-! ### per-construct agreement between the analyzer's validators and the engine's acceptance -/

theorem cmdName_toANode (G : Engine) (P : Published) (n : ENode) : cmdName (toANode G P n) = cmdName n.a := rfl

/-- uod command: the published validator is the parser's own regex, so a clean line parses -/
theorem uod_ok {G : Engine} (hN : NamesOk G) (hcust : ∀ c ∈ G.uodCmds, c.parser ≠ .custom) {n : ENode}
    (hk : n.ekind = .uodCommand) (hp : parseAgree G n = true)
    (hcl : cmdItems (analyzerEnv G (publish G true)) (toANode G (publish G true) n) = .ok []) :
    engineFails G true n = none := by
  simp only [parseAgree, hk, Bool.and_eq_true, beq_iff_eq, bne_iff_ne, ne_eq] at hp
  obtain ⟨⟨hkind, hne⟩, hsome⟩ := hp
  have hcn : cmdName n.a = n.a.instrName := by
    simp only [cmdName, hkind]
    have : (n.a.instrName == "") = false := by simpa using hne
    simp [this]
  cases hu : uodCmd G n.a.instrName with
  | none => rw [hu] at hsome; cases hsome
  | some c =>
    have hcmem : c ∈ G.uodCmds := List.mem_of_find?_eq_some hu
    have hcname : c.name = n.a.instrName := by simpa using List.find?_some hu
    simp only [engineFails, hk, hu]
    cases hpar : c.parser with
    | default => simp [uodArgOk, hpar]
    | custom => exact absurd hpar (hcust c hcmem)
    | regex rx =>
      have hitems : checkCommand (analyzerEnv G (publish G true)) (toANode G (publish G true) n) = .ok [] := by
        simpa only [cmdItems, toANode, hkind] using hcl
      obtain ⟨cmd, _, hvalid⟩ := checkCommand_nil hitems
      have hfind := find_uod_regex hN true hcmem hpar
      simp only [toANode, pubValid, hcn, ← hcname, hfind] at hvalid
      simp [uodArgOk, hpar, hvalid]



/-- a line the engine would reject as an invalid instruction is never clean: the analyzer knows only uod command
    names and keywords -/
theorem error_not_clean {G : Engine} (hN : NamesOk G) {n : ENode} (hk : n.ekind = .errorInstr)
    (hp : parseAgree G n = true)
    (hcl : cmdItems (analyzerEnv G (publish G true)) (toANode G (publish G true) n) = .ok []) : False := by
  simp only [parseAgree, hk, Bool.and_eq_true, beq_iff_eq, Bool.not_eq_true', Option.isNone_iff_eq_none] at hp
  obtain ⟨⟨hkind, hnone⟩, hkw⟩ := hp
  have hitems : checkCommand (analyzerEnv G (publish G true)) (toANode G (publish G true) n) = .ok [] := by
    simpa only [cmdItems, toANode, hkind] using hcl
  obtain ⟨cmd, hfind, _⟩ := checkCommand_nil hitems
  rw [cmdName_toANode] at hfind
  obtain ⟨y, hy⟩ := env_find hfind
  have hno : ∀ c ∈ G.uodCmds, c.name ≠ cmdName n.a := by
    intro c hc he
    have : uodCmd G (cmdName n.a) ≠ none := by
      unfold uodCmd
      intro hf
      rw [List.find?_eq_none] at hf
      exact absurd (by simp [he]) (hf c hc)
    exact this hnone
  obtain ⟨hex, _⟩ := find_system true hno hy
  have := hN.examplesKeyword _ hex
  rw [this] at hkw
  cases hkw

/-- an engine or interpreter command the analyzer accepts: its name is published as a system command, and the
    published validator accepted the argument -/
theorem system_clean {G : Engine} (hN : NamesOk G) {n : ENode} (hkind : n.a.kind = .command false)
    (hkw : G.keywords.contains n.a.instrName = true)
    (hcl : cmdItems (analyzerEnv G (publish G true)) (toANode G (publish G true) n) = .ok []) :
    n.a.instrName ∈ G.examples ∧
      (∀ r, (if n.a.instrName == "Base" then some (baseRegex G.baseUnits) else G.specs.lookup n.a.instrName) = some r →
        G.search r n.a.arguments = true) := by
  have hcn : cmdName n.a = n.a.instrName := by simp only [cmdName, hkind]
  have hitems : checkCommand (analyzerEnv G (publish G true)) (toANode G (publish G true) n) = .ok [] := by
    simpa only [cmdItems, toANode, hkind] using hcl
  obtain ⟨cmd, hfind, hvalid⟩ := checkCommand_nil hitems
  rw [cmdName_toANode, hcn] at hfind
  obtain ⟨y, hy⟩ := env_find hfind
  have hno : ∀ c ∈ G.uodCmds, c.name ≠ n.a.instrName := by
    intro c hc he
    have := hN.notKeyword c hc
    rw [he, hkw] at this
    cases this
  obtain ⟨hex, hyeq⟩ := find_system true hno hy
  refine ⟨hex, ?_⟩
  intro r hr
  simp only [toANode, pubValid, hcn, hy] at hvalid
  by_cases hb : (n.a.instrName == "Base") = true
  · simp only [hb, if_true] at hr
    simp only [Bool.true_and, hb, if_true] at hyeq
    cases hr
    rw [hyeq] at hvalid
    exact hvalid
  · have hb' : (n.a.instrName == "Base") = false := by simpa using hb
    simp only [hb', Bool.false_eq_true, if_false] at hr
    simp only [Bool.true_and, hb', Bool.false_eq_true, if_false] at hyeq
    rw [hyeq, hr] at hvalid
    exact hvalid

theorem engine_ok {G : Engine} (hN : NamesOk G) (hO : OraclesOk G) {n : ENode} (hk : n.ekind = .engineCommand)
    (hp : parseAgree G n = true)
    (hcl : cmdItems (analyzerEnv G (publish G true)) (toANode G (publish G true) n) = .ok []) :
    engineFails G true n = none := by
  simp only [parseAgree, hk, Bool.and_eq_true, beq_iff_eq, bne_iff_ne, ne_eq] at hp
  obtain ⟨⟨⟨hkind, hkw⟩, hnb⟩, hspec⟩ := hp
  obtain ⟨_, hsearch⟩ := system_clean hN hkind hkw hcl
  have hnb' : (n.a.instrName == "Base") = false := by simpa using hnb
  simp only [hnb', Bool.false_eq_true, if_false] at hsearch
  cases hl : G.specs.lookup n.a.instrName with
  | none => rw [hl] at hspec; cases hspec
  | some r =>
    simp only [engineFails, hk, hl]
    by_cases hr : (r == "") = true
    · simp [hr]
    · have := hO.anchored _ r _ hl (hsearch r hl)
      simp [this]

theorem interp_ok {G : Engine} (hN : NamesOk G) (hO : OraclesOk G) {n : ENode} (hk : n.ekind = .interpCommand)
    (hp : parseAgree G n = true)
    (hcl : cmdItems (analyzerEnv G (publish G true)) (toANode G (publish G true) n) = .ok []) :
    engineFails G true n = none := by
  simp only [parseAgree, hk, Bool.and_eq_true, beq_iff_eq] at hp
  obtain ⟨⟨⟨⟨hkind, hkw⟩, hnames⟩, hspec⟩, hstrip⟩ := hp
  obtain ⟨_, hsearch⟩ := system_clean hN hkind hkw hcl
  simp only [interpNames, List.contains_cons, List.contains_nil, Bool.or_false, Bool.or_eq_true, beq_iff_eq] at hnames
  simp only [engineFails, hk]
  rcases hnames with h | h | h | h
  · -- Base: the published pattern is `baseRegex units`; `re.search` on it is `acceptBase`; the argument is stripped
    have hs := hsearch (baseRegex G.baseUnits) (by simp [h])
    rw [hO.baseExact] at hs
    have hne : G.baseUnits.isEmpty = false := by
      cases hb : G.baseUnits with
      | nil => exact absurd hb hO.baseUnitsNonempty
      | cons _ _ => rfl
    simp only [acceptBase, hne, Bool.false_eq_true, if_false, hstrip] at hs
    have hm : n.a.arguments ∈ G.baseUnits := by simpa using hs
    simp [h, hm]
  · simp [h]
  · -- Run counter
    cases hl : G.specs.lookup n.a.instrName with
    | none => rw [hl] at hspec; cases hspec
    | some r =>
      have hs := hsearch r (by simp [h]; rw [← h]; exact hl)
      have := hO.intSound r _ (by rw [← h]; exact hl) hs
      simp [h, this]
  · -- Wait
    cases hl : G.specs.lookup n.a.instrName with
    | none => rw [hl] at hspec; cases hspec
    | some r =>
      have hs := hsearch r (by simp [h]; rw [← h]; exact hl)
      have hm := hO.anchored _ r _ hl hs
      rw [h] at hl
      simp [h, hl, hm]



/-- with convertible units, comparable units convert (the direction Simulate needs: given unit → tag unit) -/
theorem convertValueOk_ok {T : UnitSys} (hC : T.Convertible = true) {tu u : String}
    (hc : areComparable T (some tu) (some u) = .ok true) : convertValueOk T u tu = .ok () := by
  unfold convertValueOk
  by_cases he : u = tu
  · simp [he]
  · have hne : tu ≠ u := fun e => he e.symm
    obtain ⟨rt, ru, hrt, hru, hq⟩ := areComparable_true_rows hne hc
    have hna : ru.name ≠ rt.name := by rw [findRow_name hrt, findRow_name hru]; exact he
    obtain ⟨_, pu, pt, hpu, hpt, hcv⟩ := Convertible_pair hC (findRow_mem hru) (findRow_mem hrt) hq.symm hna
    simp only [he, if_false, pintUnit, hru, hrt, hpu, hpt]
    by_cases hcan : pu.canon = pt.canon
    · simp [hcan]
    · simp only [hcan, if_false]
      have hdim : pu.dim = pt.dim := by
        unfold convOk at hcv
        have : (pu.canon == pt.canon) = false := by simpa using hcan
        simp only [this, Bool.false_or, Bool.and_eq_true, beq_iff_eq] at hcv
        exact hcv.1
      simp [hdim, hcv]

/-- Watch / Alarm: a clean condition never fails on an unknown tag or on units -/
theorem cond_ok {G : Engine} (hC : G.units.Convertible = true) {n : ENode} (hkind : n.a.kind = .watch ∨ n.a.kind = .alarm)
    (hcl : condItems (analyzerEnv G (publish G true)) true (toANode G (publish G true) n) = .ok [])
    {f : Fail} (hf : (match n.a.cond with | none => some Fail.other | some c => condFails G c n.tagValue) = some f) :
    f.isC20 = false := by
  have hitems : analyzeTov (analyzerEnv G (publish G true)) true .condition false (toANode G (publish G true) n) = .ok [] := by
    rcases hkind with h | h <;> simpa only [condItems, toANode, h] using hcl
  obtain ⟨c, name, tag, hc, hn, hb, hfind, hu⟩ := analyzeTov_nil hitems
  have hc' : n.a.cond = some c := hc
  rw [hc'] at hf
  simp only at hf
  unfold condFails at hf
  simp only [hn] at hf
  split at hf
  · cases hf; rfl
  · split at hf
    · cases hf; rfl
    · split at hf
      · cases hf; rfl
      · have htag : engineTag G name = some tag := hfind
        simp only [htag] at hf
        have hcmp : areComparable G.units tag.unit c.tagUnit = .ok true := by
          rcases hu with ⟨h1, h2⟩ | ⟨tu, u, h1, h2, h3⟩
          · rw [h1, h2]; simp [areComparable]
          · rw [h1, h2]; exact h3
        split at hf
        · cases hf
        · rename_i e he
          have := compareValues_comparable_error hC hcmp he
          simp only [this, if_true] at hf
          cases hf; rfl

theorem simulate_ok {G : Engine} (hC : G.units.Convertible = true) {n : ENode} (hkind : n.a.kind = .simulate)
    (hcl : simItems (analyzerEnv G (publish G true)) true (toANode G (publish G true) n) = .ok [])
    {f : Fail} (hf : (match n.a.cond with | none => some Fail.other | some c => simulateFails G true c n.numTruthy) = some f) :
    f.isC20 = false := by
  have hitems : analyzeTov (analyzerEnv G (publish G true)) true .simulate true (toANode G (publish G true) n) = .ok [] := by
    simpa only [simItems, toANode, hkind] using hcl
  obtain ⟨c, name, tag, hc, hn, hb, hfind, hu⟩ := analyzeTov_nil hitems
  have hc' : n.a.cond = some c := hc
  have htag : engineTag G name = some tag := hfind
  rw [hc'] at hf
  simp only at hf
  unfold simulateFails at hf
  simp only [hn, htag] at hf
  split at hf
  · cases hf; rfl
  · rcases hu with ⟨h1, h2⟩ | ⟨tu, u, h1, h2, h3⟩
    · simp only [h2] at hf
      split at hf <;> cases hf
    · simp only [h2, h1, if_true, convertValueOk_ok hC h3] at hf
      split at hf
      · cases hf
      · split at hf <;> cases hf

theorem simulateOff_ok {G : Engine} {n : ENode} (hkind : n.a.kind = .simulateOff)
    (hcl : simItems (analyzerEnv G (publish G true)) true (toANode G (publish G true) n) = .ok []) :
    engineTag G n.a.arguments ≠ none := by
  have hitems : analyzeSimulateOff (analyzerEnv G (publish G true)) true (toANode G (publish G true) n) = .ok [] := by
    simpa only [simItems, toANode, hkind] using hcl
  obtain ⟨tag, ht⟩ := analyzeSimulateOff_nil hitems
  intro h
  have : engineTag G n.a.arguments = some tag := ht
  rw [this] at h
  cases h

end OPM.Accept
