import OPM.Model.ActiveUsers
/-! Helper lemmas for C37: induction over histories from the right, effect of one step on the two sets. -/
namespace OPM.ActiveUsers

theorem snoc_induction {α : Type} {P : List α → Prop} (nil : P [])
    (snoc : ∀ l a, P l → P (l ++ [a])) : ∀ l, P l := by
  have h : ∀ l : List α, P l.reverse := by
    intro l
    induction l with
    | nil => exact nil
    | cons a l ih => rw [List.reverse_cons]; exact snoc _ _ ih
  intro l
  have := h l.reverse
  rwa [List.reverse_reverse] at this

/-- How a history extended by one event can be split around an event `y`. -/
theorem snoc_eq_split {α : Type} (h : List α) (op : α) (h₁ : List α) (y : α) (h₂ : List α) :
    h ++ [op] = h₁ ++ y :: h₂ ↔
      (h₂ = [] ∧ h = h₁ ∧ op = y) ∨ (∃ h₂', h₂ = h₂' ++ [op] ∧ h = h₁ ++ y :: h₂') := by
  constructor
  · intro e
    rcases List.eq_nil_or_concat h₂ with rfl | ⟨h₂', x, rfl⟩
    · left
      have : h ++ [op] = h₁ ++ [y] := e
      have := List.append_inj' this rfl
      exact ⟨rfl, this.1, by simpa using this.2⟩
    · right
      have e' : h ++ [op] = (h₁ ++ y :: h₂') ++ [x] := by simpa using e
      have := List.append_inj' e' rfl
      have hx : op = x := by simpa using this.2
      exact ⟨h₂', by rw [hx]; simp, this.1⟩
  · rintro (⟨rfl, rfl, rfl⟩ | ⟨h₂', rfl, rfl⟩) <;> simp

theorem run_snoc (n : Nat) (h : List Op) (op : Op) : run n (h ++ [op]) = (step n (run n h) op).1 := by
  simp [run, List.foldl_append]

theorem mem_addPair (p q : Nat × Nat) (l : List (Nat × Nat)) : q ∈ addPair p l ↔ q = p ∨ q ∈ l := by
  unfold addPair
  split
  · rename_i h
    constructor
    · exact Or.inr
    · rintro (rfl | h') <;> assumption
  · simp

theorem mem_foldl_addPair (c : Nat) (us : List Nat) (d : List (Nat × Nat)) (q : Nat × Nat) :
    q ∈ us.foldl (fun d u => addPair (c, u) d) d ↔ q ∈ d ∨ (q.1 = c ∧ q.2 ∈ us) := by
  induction us generalizing d with
  | nil => simp
  | cons u us ih =>
    simp only [List.foldl_cons, ih, mem_addPair, List.mem_cons]
    constructor
    · rintro ((rfl | h) | ⟨h1, h2⟩)
      · exact Or.inr ⟨rfl, Or.inl rfl⟩
      · exact Or.inl h
      · exact Or.inr ⟨h1, Or.inr h2⟩
    · rintro (h | ⟨h1, rfl | h2⟩)
      · exact Or.inl (Or.inr h)
      · exact Or.inl (Or.inl (by cases q; simp_all))
      · exact Or.inr ⟨h1, h2⟩

/-- Effect of one event on the connection set. -/
theorem dms_step (n : Nat) (s : State) (op : Op) (c u : Nat) :
    (c, u) ∈ (step n s op).1.dms ↔
      ((c, u) ∈ s.dms ∧ op ≠ .disconnect c) ∨ (∃ ts, op = .subscribe c ts ∧ u ∈ subscribedUsers ts) := by
  cases op with
  | subscribe c' ts =>
    simp only [step, mem_foldl_addPair, ne_eq, reduceCtorEq, not_false_eq_true, and_true, Op.subscribe.injEq]
    constructor
    · rintro (h | ⟨rfl, h⟩)
      · exact Or.inl h
      · exact Or.inr ⟨ts, ⟨rfl, rfl⟩, h⟩
    · rintro (h | ⟨ts', ⟨rfl, rfl⟩, h⟩)
      · exact Or.inl h
      · exact Or.inr ⟨rfl, h⟩
  | disconnect c' =>
    simp only [step, List.mem_filter, bne_iff_ne, ne_eq, Op.disconnect.injEq, reduceCtorEq, false_and,
      exists_false, or_false]
    constructor
    · rintro ⟨h, hc⟩; exact ⟨h, fun e => hc e.symm⟩
    · rintro ⟨h, hc⟩; exact ⟨h, fun e => hc e.symm⟩
  | register e' u' =>
    simp only [step]
    split <;> simp
  | unregister e' u' =>
    simp only [step]
    split <;> simp
  | engineDown e' =>
    simp only [step]
    split <;> simp
  | engineUp e' =>
    simp only [step]
    split <;> simp

theorem mem_dropUsers (dms : List (Nat × Nat)) (us : List Nat) (active : List (Nat × Nat)) (p : Nat × Nat) :
    p ∈ dropUsers dms us active ↔ p ∈ active ∧ (p.2 ∈ us → ∃ c, (c, p.2) ∈ dms) := by
  unfold dropUsers
  simp only [List.mem_filter, Bool.not_eq_eq_eq_not, Bool.not_true, Bool.and_eq_false_imp,
    List.contains_eq_mem, decide_eq_true_eq, Bool.not_eq_eq_eq_not, Bool.not_false, List.any_eq_true,
    beq_iff_eq]
  constructor
  · rintro ⟨h, hu⟩
    refine ⟨h, fun hm => ?_⟩
    obtain ⟨q, hq, e⟩ := hu hm
    exact ⟨q.1, by rw [← e]; exact hq⟩
  · rintro ⟨h, hu⟩
    refine ⟨h, fun hm => ?_⟩
    obtain ⟨c, hc⟩ := hu hm
    exact ⟨(c, p.2), hc, rfl⟩

/-- The users carried by connection `c`. -/
theorem mem_connUsers (dms : List (Nat × Nat)) (c u : Nat) :
    u ∈ (dms.filter (fun q => q.1 == c)).map (·.2) ↔ (c, u) ∈ dms := by
  simp only [List.mem_map, List.mem_filter, beq_iff_eq]
  constructor
  · rintro ⟨q, ⟨hq, rfl⟩, rfl⟩; exact hq
  · intro h; exact ⟨(c, u), ⟨h, rfl⟩, rfl⟩

/-- Effect of one event on the listing. -/
theorem active_step (n : Nat) (s : State) (op : Op) (e u : Nat) :
    (e, u) ∈ (step n s op).1.active ↔
      match op with
      | .subscribe _ _ => (e, u) ∈ s.active
      | .disconnect c => (e, u) ∈ s.active ∧ ((c, u) ∈ s.dms → ∃ c', c' ≠ c ∧ (c', u) ∈ s.dms)
      | .register e' u' => (e, u) ∈ s.active ∨ ((e' < n ∧ e' ∉ s.down) ∧ e = e' ∧ u = u')
      | .unregister e' u' => (e, u) ∈ s.active ∧ ¬ ((e' < n ∧ e' ∉ s.down) ∧ e = e' ∧ u = u')
      | .engineDown e' => (e, u) ∈ s.active ∧ ¬ ((e' < n ∧ e' ∉ s.down) ∧ e = e')
      | .engineUp e' => (e, u) ∈ s.active ∧ ¬ (e' < n ∧ e = e') := by
  cases op with
  | subscribe c ts => simp [step]
  | disconnect c =>
    simp only [step, mem_dropUsers, mem_connUsers, List.mem_filter, bne_iff_ne, ne_eq]
    constructor
    · rintro ⟨h, hu⟩
      refine ⟨h, fun hc => ?_⟩
      obtain ⟨c', hc', hne⟩ := hu hc
      exact ⟨c', hne, hc'⟩
    · rintro ⟨h, hu⟩
      refine ⟨h, fun hc => ?_⟩
      obtain ⟨c', hne, hc'⟩ := hu hc
      exact ⟨c', hc', hne⟩
  | register e' u' =>
    simp only [step]
    split
    · rename_i hlt
      simp only [mem_addPair, Prod.mk.injEq]
      constructor
      · rintro (⟨rfl, rfl⟩ | h)
        · exact Or.inr ⟨hlt, rfl, rfl⟩
        · exact Or.inl h
      · rintro (h | ⟨_, rfl, rfl⟩)
        · exact Or.inr h
        · exact Or.inl ⟨rfl, rfl⟩
    · rename_i hlt
      simp [hlt]
  | unregister e' u' =>
    simp only [step]
    split
    · rename_i hc
      simp only [List.mem_filter, bne_iff_ne, ne_eq, Prod.mk.injEq, hc.1, true_and, not_false_eq_true, and_self]
    · rename_i hc
      constructor
      · intro h
        refine ⟨h, fun ⟨hk, he, hu⟩ => ?_⟩
        subst he hu
        exact hc ⟨hk, h⟩
      · exact fun h => h.1
  | engineDown e' =>
    simp only [step]
    split
    · rename_i hc
      simp only [List.mem_filter, bne_iff_ne, ne_eq, hc, true_and, not_false_eq_true, and_self]
    · rename_i hc
      simp [hc]
  | engineUp e' =>
    simp only [step]
    split
    · rename_i hc
      simp only [List.mem_filter, bne_iff_ne, ne_eq, hc, true_and]
    · rename_i hc
      simp [hc]

/-- Effect of one event on the set of units that are away. -/
theorem down_step (n : Nat) (s : State) (op : Op) (e : Nat) :
    e ∈ (step n s op).1.down ↔
      match op with
      | .engineDown e' => e ∈ s.down ∨ (e = e' ∧ e' < n)
      | .engineUp e' => e ∈ s.down ∧ ¬ (e' < n ∧ e = e')
      | _ => e ∈ s.down := by
  cases op with
  | subscribe c ts => simp [step]
  | disconnect c => simp [step]
  | register e' u' => simp only [step]; split <;> simp
  | unregister e' u' => simp only [step]; split <;> simp
  | engineDown e' =>
    simp only [step]
    split
    · rename_i hc
      simp only [List.mem_cons]
      constructor
      · rintro (rfl | h)
        · exact Or.inr ⟨rfl, hc.1⟩
        · exact Or.inl h
      · rintro (h | ⟨rfl, _⟩)
        · exact Or.inr h
        · exact Or.inl rfl
    · rename_i hc
      constructor
      · exact Or.inl
      · rintro (h | ⟨rfl, hlt⟩)
        · exact h
        · exact Classical.byContradiction fun hd => hc ⟨hlt, hd⟩
  | engineUp e' =>
    simp only [step]
    split
    · rename_i hc
      simp only [List.mem_filter, bne_iff_ne, ne_eq, hc, true_and]
    · rename_i hc
      simp [hc]

/-- Invariant: only units that exist and are in the map have a list. -/
theorem active_up (n : Nat) (h : List Op) (e u : Nat) (hl : (e, u) ∈ (run n h).active) :
    e < n ∧ e ∉ (run n h).down := by
  induction h using snoc_induction generalizing e u with
  | nil => simp [run, init] at hl
  | snoc h op ih =>
    rw [run_snoc] at hl ⊢
    rw [active_step] at hl
    rw [down_step]
    cases op with
    | subscribe c ts => exact ih e u hl
    | disconnect c => exact ih e u hl.1
    | register e' u' =>
      rcases hl with hl | ⟨hk, rfl, rfl⟩
      · exact ih e u hl
      · exact hk
    | unregister e' u' => exact ih e u hl.1
    | engineDown e' =>
      simp only at hl ⊢
      have := ih e u hl.1
      refine ⟨this.1, ?_⟩
      rintro (hd | ⟨rfl, hlt⟩)
      · exact this.2 hd
      · exact hl.2 ⟨⟨hlt, this.2⟩, rfl⟩
    | engineUp e' =>
      simp only at hl ⊢
      have := ih e u hl.1
      exact ⟨this.1, fun hd => this.2 hd.1⟩

end OPM.ActiveUsers
