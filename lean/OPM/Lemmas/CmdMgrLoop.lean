import OPM.Lemmas.CmdMgrUod
/-!
The loop of `execute_commands` over UOD requests: invariant, and exclusivity of the exec callbacks of one tick.
-/
namespace OPM.CmdMgr

/-- No two different instances with the same or overlapping names execute (statement over events). -/
def ExclP (cfg : Cfg) (evs : List Ev) : Prop :=
  ∀ a ∈ execsOf evs, ∀ b ∈ execsOf evs, a.1 = b.1 ∨ conflict cfg a.2 b.2 = false

structure LoopPost (ns : List Nat) (todo : List Req) (s s' : State) : Prop where
  core : Core s'
  view : view s' = view s
  doneGrow : ∀ i, i ∈ s.done → i ∈ s'.done
  doneOnly : ∀ i, i ∈ s'.done → i ∈ s.done ∨ ∃ c ∈ s.executing, c.isUod = true ∧ c.id = i
  evs : ∃ evs, s'.events = s.events ++ evs ∧ ExclP s.cfg evs ∧
    (∀ p ∈ execsOf evs, ∀ n ∈ ns, conflict s.cfg p.2 n = false) ∧
    (∀ p ∈ execsOf evs, ∀ c ∈ s.executing, c ∉ todo → c.id ∉ s'.done → ∀ j, c.name = .uod j →
      conflict s.cfg j p.2 = false)

theorem loop_uod_spec : ∀ (todo : List Req) (ns : List Nat) {s : State}, Core s → s.cfg.fixCancel = true →
    TrackEx s → (∀ r ∈ todo, r ∈ s.executing ∧ r.isUod = true) → (todo.map (·.id)).Nodup →
    (∀ n ∈ ns, ∀ c ∈ todo, c.id ∉ s.done → ∀ j, c.name = .uod j → conflict s.cfg j n = false) →
    LoopPost ns todo s (loop todo s).1 := by
  intro todo
  induction todo with
  | nil =>
    intro ns s h _ _ _ _ _
    exact ⟨h, rfl, fun _ hi => hi, fun _ hi => Or.inl hi, [], by simp [loop],
      by intro a ha; simp [execsOf] at ha, by intro p hp; simp [execsOf] at hp, by intro p hp; simp [execsOf] at hp⟩
  | cons r rest ih =>
    intro ns s h hfix htr hmem hnd hguard
    have hr := (hmem r (List.mem_cons_self ..)).1
    have hru := (hmem r (List.mem_cons_self ..)).2
    have hrest : ∀ x ∈ rest, x ∈ s.executing ∧ x.isUod = true := fun x hx => hmem x (List.mem_cons_of_mem _ hx)
    have hnd' : (rest.map (·.id)).Nodup := by
      simp only [List.map_cons, List.nodup_cons] at hnd; exact hnd.2
    have hrnot : ∀ x ∈ rest, x.id ≠ r.id := by
      intro x hx e
      simp only [List.map_cons, List.nodup_cons, List.mem_map, not_exists, not_and] at hnd
      exact hnd.1 x hx e
    simp only [loop]
    by_cases hd : isDone s r = true
    · rw [if_pos hd]
      have p := ih ns h hfix htr hrest hnd' (fun n hn c hc => hguard n hn c (List.mem_cons_of_mem _ hc))
      obtain ⟨evs, e1, e2, e3, e4⟩ := p.evs
      exact ⟨p.core, p.view, p.doneGrow, p.doneOnly, evs, e1, e2, e3,
        fun q hq c hc hnt => e4 q hq c hc (fun hx => hnt (List.mem_cons_of_mem _ hx))⟩
    · rw [if_neg hd]
      have hrd : r.id ∉ s.done := by rw [← isDone_iff]; exact hd
      obtain ⟨k, hk⟩ : ∃ k, r.name = .uod k := by
        cases hn : r.name <;> simp_all [Req.isUod]
      have hx : executeReq s r = executeUod s r k := by simp [executeReq, hk]
      rw [hx]
      cases hp : s.paused with
      | true =>
        -- paused: the request is skipped
        rw [executeUod_paused r k hp]
        simp only
        have p := ih ns h hfix htr hrest hnd' (fun n hn c hc => hguard n hn c (List.mem_cons_of_mem _ hc))
        obtain ⟨evs, e1, e2, e3, e4⟩ := p.evs
        exact ⟨p.core, p.view, p.doneGrow, p.doneOnly, evs, e1, e2, e3,
          fun q hq c hc hnt => e4 q hq c hc (fun hx => hnt (List.mem_cons_of_mem _ hx))⟩
      | false =>
      have q := executeUod_spec h hfix htr hr hk hrd hp
      obtain ⟨_, hex1, _, _, _, _, _, _, _, _, _, _, _, _, _, hcfg1, _⟩ := view_eq q.view
      obtain ⟨e1, he1, hshape⟩ := q.evs
      -- facts about the events of this step
      have hname : ∀ p ∈ execsOf e1, p.2 = k := by
        intro p hp
        rcases hshape with h0 | ⟨ser, h1⟩
        · rw [h0] at hp; cases hp
        · rw [h1] at hp; simp at hp; rw [hp]
      have hsingle : ∀ a ∈ execsOf e1, ∀ b ∈ execsOf e1, a = b := by
        intro a ha b hb
        rcases hshape with h0 | ⟨ser, h1⟩
        · rw [h0] at ha; cases ha
        · rw [h1] at ha hb; simp at ha hb; rw [ha, hb]
      have hkns : ∀ n ∈ ns, conflict s.cfg k n = false :=
        fun n hn => hguard n hn r (List.mem_cons_self ..) hrd k hk
      have hout : ∀ p ∈ execsOf e1, ∀ c ∈ s.executing, c ∉ r :: rest → ∀ s' : State,
          (∀ i, i ∈ (executeUod s r k).1.done → i ∈ s'.done) → c.id ∉ s'.done → ∀ j, c.name = .uod j →
          conflict s.cfg j p.2 = false := by
        intro p hp c hc hnt s' hmono hcd j hj
        rw [hname p hp]
        cases hcf : conflict s.cfg j k with
        | false => rfl
        | true =>
          have hne : c.id ≠ r.id := by
            intro e
            have : c = r := req_id_inj h.ids hc hr e
            exact hnt (this ▸ List.mem_cons_self ..)
          exact absurd (hmono _ (q.conflDone c hc hne j hj hcf)) hcd
      cases hres : (executeUod s r k) with
      | mk s1 raised =>
        have hs1 : s1 = (executeUod s r k).1 := by rw [hres]
        cases raised with
        | true =>
          simp only
          rw [hs1]
          refine ⟨q.core, q.view, q.doneGrow, q.doneOnly, e1, he1, ?_, ?_, ?_⟩
          · intro a ha b hb; left; rw [hsingle a ha b hb]
          · intro p hp n hn; rw [hname p hp]; exact hkns n hn
          · intro p hp c hc hnt hcd j hj
            exact hout p hp c hc hnt _ (fun i hi => hi) hcd j hj
        | false =>
          simp only
          rw [hs1]
          have hguard' : ∀ n ∈ k :: ns, ∀ c ∈ rest, c.id ∉ (executeUod s r k).1.done → ∀ j, c.name = .uod j →
              conflict (executeUod s r k).1.cfg j n = false := by
            intro n hn c hc hcd j hj
            rw [hcfg1]
            rcases List.mem_cons.mp hn with rfl | hn'
            · cases hcf : conflict s.cfg j n with
              | false => rfl
              | true => exact absurd (q.conflDone c (hrest c hc).1 (hrnot c hc) j hj hcf) hcd
            · exact hguard n hn' c (List.mem_cons_of_mem _ hc) (fun hh => hcd (q.doneGrow _ hh)) j hj
          have p := ih (k :: ns) q.core (by rw [hcfg1]; exact hfix) (htr.of_view q.view)
            (fun x hx => by rw [hex1]; exact hrest x hx) hnd' hguard'
          obtain ⟨e2, he2, f2, f3, f4⟩ := p.evs
          rw [hcfg1] at f2 f3 f4
          rw [hex1] at f4
          refine ⟨p.core, by rw [p.view, q.view], fun i hi => p.doneGrow i (q.doneGrow i hi), ?_,
            e1 ++ e2, by rw [he2, he1, List.append_assoc], ?_, ?_, ?_⟩
          · intro i hi
            rcases p.doneOnly i hi with h1 | ⟨c, hc, hcu, e⟩
            · exact q.doneOnly i h1
            · exact Or.inr ⟨c, by rw [← hex1]; exact hc, hcu, e⟩
          · intro a ha b hb
            rw [execsOf_append] at ha hb
            rcases List.mem_append.mp ha with ha | ha <;> rcases List.mem_append.mp hb with hb | hb
            · left; rw [hsingle a ha b hb]
            · right; rw [hname a ha, conflict_symm]; exact f3 b hb k (List.mem_cons_self ..)
            · right; rw [hname b hb]; exact f3 a ha k (List.mem_cons_self ..)
            · exact f2 a ha b hb
          · intro p' hp n hn
            rw [execsOf_append] at hp
            rcases List.mem_append.mp hp with hp | hp
            · rw [hname p' hp]; exact hkns n hn
            · exact f3 p' hp n (List.mem_cons_of_mem _ hn)
          · intro p' hp c hc hnt hcd j hj
            rw [execsOf_append] at hp
            rcases List.mem_append.mp hp with hp | hp
            · exact hout p' hp c hc hnt _ p.doneGrow hcd j hj
            · exact f4 p' hp c hc (fun hx => hnt (List.mem_cons_of_mem _ hx)) hcd j hj

end OPM.CmdMgr
