import OPM.Lemmas.InterpC04Stack
set_option linter.unusedSimpArgs false
set_option linter.unusedVariables false
/-!
C04 lemmas, Part D: a generator's sub-tick starts a Watch/Alarm body only if the node was already
activated when the sub-tick began.

`Quiet`: no frame of the stack sits at a Watch/Alarm invocation point (`body w 2`) — true of every
generator at every tick boundary.  Within a sub-tick (`runGen`) the invocation point is reached only
from the entry/await point by a `cont` step that found `activated` set and changed nothing (`Armed`),
and is left by the very next micro-step.
-/
namespace OPM.Interp

/-- frames that are, or immediately lead to, a Watch/Alarm invocation point -/
def badFrame (p : Prog) : Frame → Bool
  | .body n 2 => isCond p n
  | .callRet n _ => isCond p n
  | .waitLoop n _ => isCond p n
  | _ => false

def Quiet (p : Prog) (stack : List Frame) : Prop := ∀ f ∈ stack, badFrame p f = false

/-- mid-sub-tick invariant: quiet, or about to invoke an activated Watch/Alarm -/
def Armed (p : Prog) (s : St) (stack : List Frame) : Prop :=
  Quiet p stack ∨
  ∃ w rest, stack = .body w 2 :: rest ∧ isCond p w = true ∧ Quiet p rest ∧ (s.rt w).activated = true

/-- What a non-invocation frame can put on the stack. -/
theorem stepBody_quiet (p : Prog) (s : St) (n pc : Nat) (below : List Frame)
    (h : badFrame p (.body n pc) = false) :
    (∀ g ∈ outTop (stepBody p s n pc below), badFrame p g = false) ∨
    (stepBody p s n pc below = .next s [.body n 2] .cont ∧ isCond p n = true ∧ (s.rt n).activated = true) := by
  unfold stepBody
  simp only []
  split
  all_goals (repeat' split)
  all_goals (first
    | (left; simp [outTop, badFrame]; done)
    | (left; simp_all [outTop, badFrame, isCond]; done)
    | (right; simp_all [isCond]; done)
    | skip)
  done

theorem stepFrame_quiet (p : Prog) (s : St) (f : Frame) (below : List Frame)
    (h : badFrame p f = false) :
    (∀ g ∈ outTop (stepFrame p s f below), badFrame p g = false) ∨
    (∃ w, stepFrame p s f below = .next s [.body w 2] .cont ∧ isCond p w = true ∧ (s.rt w).activated = true) := by
  cases f with
  | body n pc =>
    rcases stepBody_quiet p s n pc below h with h1 | h1
    · exact Or.inl h1
    · exact Or.inr ⟨n, h1⟩
  | _ =>
    left
    unfold stepFrame
    simp only []
    repeat' split
    all_goals (first
      | (simp [outTop, badFrame]; done)
      | (simp_all [outTop, badFrame]; done))

theorem quiet_sub {p : Prog} {l l' : List Frame} (h : Quiet p l) (hs : ∀ g ∈ l', g ∈ l) : Quiet p l' :=
  fun g hg => h g (hs g hg)

/-- One micro-step from a quiet stack: the stack stays quiet, or the step was the hand-over to the
    invocation point of an activated Watch/Alarm (state unchanged, tick continues). -/
theorem quiet_stepGen (p : Prog) (s : St) (stack : List Frame) (h : Quiet p stack) :
    Quiet p (stepGen p s stack).2.1 ∨
    ((stepGen p s stack).2.2 = .cont ∧ (stepGen p s stack).1 = s ∧
      ∃ w rest, (stepGen p s stack).2.1 = .body w 2 :: rest ∧ isCond p w = true ∧ Quiet p rest ∧
        (s.rt w).activated = true) := by
  cases stack with
  | nil => left; simpa [stepGen] using h
  | cons f below =>
    have hb : Quiet p below := quiet_sub h (fun g hg => List.mem_cons_of_mem _ hg)
    rcases stepFrame_quiet p s f below (h f (List.mem_cons_self ..)) with h1 | ⟨w, h1, h2, h3⟩
    · left
      intro g hg
      rcases stepGen_stack p s f below g hg with h4 | h4
      · exact h1 g h4
      · exact hb g h4
    · right
      rw [stepGen_cons, h1]
      exact ⟨rfl, rfl, w, below, rfl, h2, hb, h3⟩

/-- The await point hands the tick back (`EndTick`) in the step that activates. -/
theorem stepGen_activating_sig (p : Prog) (s : St) (w : Nat) (below : List Frame)
    (hna : (s.rt w).activated = false) (hok : ActOk p s w) :
    (stepGen p s (.body w 1 :: below)).2.2 = .endTick := by
  obtain ⟨c, hk, hc, _⟩ := hok
  rw [stepGen_cons]
  rcases hk with hk | hk
  · simp [stepFrame, stepBody_watch_pc1 p s w below c hk, hna, hc]
  · simp [stepFrame, stepBody_alarm_pc1 p s w below c hk, hna]

/-- **Body-start guard (when).** Run a generator with a quiet stack to its next `EndTick`: its stack
    is quiet again, and for every Watch/Alarm `w` whose body it started in this sub-tick, `activated w`
    already held when the sub-tick began (the condition was evaluated true, or the node was forced, in
    an earlier sub-tick — the activating step always ends the sub-tick). -/
theorem runGen_guard (p : Prog) (fuel : Nat) (s : St) (stack : List Frame)
    (h : Armed p s stack) (hok : (runGen p fuel s stack).2.2 = true) :
    Quiet p (runGen p fuel s stack).2.1 ∧
    ∀ w, isCond p w = true → bsCount (runGen p fuel s stack).1 w ≠ bsCount s w → (s.rt w).activated = true := by
  induction fuel generalizing s stack with
  | zero => simp [runGen] at hok
  | succ fuel ih =>
    unfold runGen at hok ⊢
    rcases h with hq | ⟨w0, rest, e, hw0, hrest, hact⟩
    · -- quiet stack
      have hbs : ∀ w, isCond p w = true → bsCount (stepGen p s stack).1 w = bsCount s w := by
        intro w hw
        rcases stepGen_bs p s stack w hw with h1 | h1
        · exact h1
        · cases stack with
          | nil => cases h1
          | cons f below =>
            simp only [List.head?, Option.some.injEq] at h1
            have := hq f (List.mem_cons_self ..)
            rw [h1] at this
            simp [badFrame, hw] at this
      have hstep := quiet_stepGen p s stack hq
      have hact := stepGen_act p s stack
      rcases hs : stepGen p s stack with ⟨s1, st1, sig⟩
      rw [hs] at hok hbs hstep hact
      simp only [] at hok hbs hstep hact ⊢
      cases sig with
      | cont =>
        simp only [] at hok ⊢
        have harmed : Armed p s1 st1 := by
          rcases hstep with h1 | ⟨_, e1, w, rest, e2, h2, h3, h4⟩
          · exact Or.inl h1
          · exact Or.inr ⟨w, rest, e2, h2, h3, by rw [e1]; exact h4⟩
        obtain ⟨q, g⟩ := ih s1 st1 harmed hok
        refine ⟨q, ?_⟩
        intro w hw hne
        rw [← hbs w hw] at hne
        have h1 := g w hw hne
        rcases hact w h1 with h2 | ⟨h2, h3⟩
        · exact h2
        · -- the activating step would have ended the sub-tick
          by_cases hna : (s.rt w).activated = true
          · exact hna
          · exfalso
            cases stack with
            | nil => cases h2
            | cons f below =>
              simp only [List.head?, Option.some.injEq] at h2
              subst h2
              have := stepGen_activating_sig p s w below (by simpa using hna) h3
              rw [hs] at this
              cases this
      | endTick =>
        simp only [] at hok ⊢
        refine ⟨?_, ?_⟩
        · rcases hstep with h1 | ⟨h1, _⟩
          · exact h1
          · cases h1
        · intro w hw hne
          exact absurd (hbs w hw) hne
      | done =>
        simp only [] at hok ⊢
        refine ⟨?_, ?_⟩
        · rcases hstep with h1 | ⟨h1, _⟩
          · exact h1
          · cases h1
        · intro w hw hne
          exact absurd (hbs w hw) hne
    · -- at the invocation point of the activated node `w0`
      subst e
      rw [stepGen_pc2 p s w0 rest hw0] at hok ⊢
      simp only [] at hok ⊢
      have hq2 : Quiet p (.children w0 0 false :: .body w0 3 :: rest) := by
        intro g hg
        simp only [List.mem_cons] at hg
        rcases hg with hg | hg | hg
        · subst hg; rfl
        · subst hg; rfl
        · exact hrest g hg
      obtain ⟨q, g⟩ := ih _ _ (Or.inl hq2) hok
      refine ⟨q, ?_⟩
      intro w hw hne
      by_cases hww : w0 = w
      · subst hww; exact hact
      · have := g w hw (by rw [bs_pc2]; simpa [hww] using hne)
        simpa using this

end OPM.Interp
