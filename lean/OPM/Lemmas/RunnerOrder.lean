import OPM.Lemmas.Runner
/-!
The order invariant of M12 (`OrdWF`) is preserved by every step that `calmStep` admits.
`line s` = delivery log ++ in-flight ++ batch ++ buffer: a successful answer moves the head of the queue to
the end of the log and leaves the line unchanged.
-/
namespace OPM.Runner
open List

theorem owedFor_isStop (s : State) (id : Nat) (p : Nat × Nat) (hp : p ∈ owedFor s id) : isStop s id = true := by
  unfold owedFor at hp
  split at hp
  · rename_i r hk; simp [isStop, hk]
  · cases hp

theorem canPost_cases (st : RState) (h : canPost st = true) :
    st = .connected ∨ st = .reconnected ∨ st = .catchingUp := by
  cases st <;> simp [canPost] at h ⊢

abbrev O2 (s : State) (fresh : List Nat) (ever : List Nat) (n : Nat) (l : List Nat) (p : Nat × Nat) : Prop :=
  p.1 ∈ ever ∧ p.1 ≠ p.2 ∧ p.2 ∉ fresh ∧ p.2 ≤ n ∧ before p.1 p.2 l = true ∧ isStop s p.2 = true

theorem isStop_produce (s : State) (k : Kind) (i : Nat) (h : i ≤ s.kinds.length) (t : State)
    (ht : t.kinds = s.kinds ++ [k]) : isStop t i = isStop s i := by
  unfold isStop kindOf
  rw [ht]
  by_cases h0 : i = 0
  · simp [h0]
  · simp only [h0, if_false]
    rw [List.getElem?_append_left (by omega)]

/-- a non-stop message entering the buffer keeps "no posted stop in the buffer" -/
theorem o5_add (s : State) (i : Nat) (hns : isStop s i = false)
    (o2 : ∀ p ∈ s.owed, O2 s s.fresh s.everBuf s.kinds.length (line s) p)
    (o4 : s.batch ≠ [] → ∀ p ∈ s.owed, p.2 ∉ s.buffer) :
    s.batch ≠ [] → ∀ p ∈ s.owed ++ owedFor s i, p.2 ∉ s.buffer ++ [i] := by
  intro hb p hp
  rcases List.mem_append.mp hp with hp | hp
  · simp only [List.mem_append, List.mem_singleton, not_or]
    refine ⟨o4 hb p hp, ?_⟩
    intro e
    have := (o2 p hp).2.2.2.2.2
    rw [e, hns] at this; cases this
  · have := owedFor_isStop s i p hp
    rw [hns] at this; cases this


/-- adding a freshly posted message `i` at the end of the line -/
theorem ord_enqueue_fresh (s : State) (i : Nat) (hc : Conserved s) (hf : i ∈ s.fresh)
    (o1 : ∀ d ∈ s.everBuf, d ∈ line s)
    (o2 : ∀ p ∈ s.owed, O2 s s.fresh s.everBuf s.kinds.length (line s) p) :
    ∀ p ∈ s.owed ++ owedFor s i, O2 s (s.fresh.erase i) (s.everBuf ++ [i]) s.kinds.length (line s ++ [i]) p := by
  have hfr := conserved_fresh s hc i hf
  have hiq : i ∉ line s := by
    simp only [line, queue, List.mem_append, not_or]
    exact ⟨hfr.2.2.2.2.1, ⟨hfr.2.1, hfr.2.2.1⟩, hfr.2.2.2.1⟩
  intro p hp
  rcases List.mem_append.mp hp with hp | hp
  · obtain ⟨a, b, c, d, e'⟩ := o2 p hp
    exact ⟨List.mem_append_left _ a, b, fun hm => c (List.mem_of_mem_erase hm), d,
      before_append_right _ _ _ _ e'.1, e'.2⟩
  · obtain ⟨h2, h1, hnd, hne⟩ := owedFor_mem s i p hp
    have hst := owedFor_isStop s i p hp
    refine ⟨List.mem_append_left _ h1, by rw [h2]; exact hne, ?_, by rw [h2]; exact hfr.2.2.2.2.2.2, ?_, by rw [h2]; exact hst⟩
    · rw [h2]; exact not_mem_erase_of_count_one _ _ hfr.1
    · rw [h2]; exact before_of_mem _ _ _ _ (o1 p.1 h1) hiq

theorem ordWF_step (s s' : State) (e : Ev) (h : next s e = some s') (hcalm : calmOrder s e = true)
    (hc : Conserved s) (hi : Idle s) (ho : OrdWF s) : OrdWF s' := by
  obtain ⟨o1, o2, o3, o4⟩ := ho
  cases e with
  | produce i k =>
    simp only [next] at h; split at h
    · rename_i hid
      cases h
      refine ⟨o1, ?_, o3, o4⟩
      intro p hp
      obtain ⟨a, b, c, d, e', f⟩ := o2 p hp
      have d' : p.2 ≤ s.kinds.length := d
      refine ⟨a, b, ?_, ?_, e', ?_⟩
      · simp only [List.mem_append, List.mem_singleton, not_or]
        refine ⟨c, ?_⟩
        intro e2
        rw [e2, hid] at d'
        exact Nat.not_succ_le_self _ d'
      · simp only [List.length_append, List.length_singleton]
        exact Nat.le_succ_of_le d'
      · rw [isStop_produce s k p.2 d' _ rfl]; exact f
    · cases h
  | send i q =>
    simp only [next] at h; split at h <;> cases h
    rename_i hg
    have hfr := conserved_fresh s hc i hg.1
    have hq : s.delivered ++ ((s.inflight ++ [i]) ++ s.batch ++ s.buffer)
        = (s.delivered ++ s.inflight) ++ i :: (s.batch ++ s.buffer) := by simp
    have hl : line s = (s.delivered ++ s.inflight) ++ (s.batch ++ s.buffer) := by simp [line, queue]
    refine ⟨?_, ?_, o3, ?_⟩
    · intro d hd
      have h1 := o1 d hd
      show d ∈ s.delivered ++ ((s.inflight ++ [i]) ++ s.batch ++ s.buffer)
      rw [hq]; rw [hl] at h1
      simp only [List.mem_append, List.mem_cons] at h1 ⊢
      rcases h1 with h1 | h1
      · exact Or.inl h1
      · exact Or.inr (Or.inr h1)
    · intro p hp
      show O2 s (s.fresh.erase i) s.everBuf s.kinds.length
        (s.delivered ++ ((s.inflight ++ [i]) ++ s.batch ++ s.buffer)) p
      rw [hq]
      rcases List.mem_append.mp hp with hp | hp
      · obtain ⟨a, b, c, d, e', f⟩ := o2 p hp
        refine ⟨a, b, fun hm => c (List.mem_of_mem_erase hm), d, ?_, f⟩
        apply before_insert
        · rw [← hl]; exact e'
        · intro e2; apply c; rw [← e2]; exact hg.1
      · obtain ⟨h2, h1, hnd, hne⟩ := owedFor_mem s i p hp
        have hstop := owedFor_isStop s i p hp
        have hst : s.st ≠ .catchingUp := by
          intro e2
          simp [calmOrder, e2, hstop] at hcalm
        have hidle : s.buffer = [] ∧ s.batch = [] := by
          rcases canPost_cases s.st hg.2.1 with e2 | e2 | e2
          · exact hi (Or.inr (Or.inl e2))
          · exact hi (Or.inl e2)
          · exact absurd e2 hst
        refine ⟨h1, by rw [h2]; exact hne, ?_, by rw [h2]; exact hfr.2.2.2.2.2.2, ?_, by rw [h2]; exact hstop⟩
        · rw [h2]; exact not_mem_erase_of_count_one _ _ hfr.1
        · rw [h2]
          have hin := o1 p.1 h1
          rw [hl, hidle.1, hidle.2] at hin
          simp only [List.append_nil] at hin
          have : i ∉ s.delivered ++ s.inflight := by
            simp only [List.mem_append, not_or]; exact ⟨hfr.2.2.2.2.1, hfr.2.1⟩
          exact before_of_mem p.1 i (s.delivered ++ s.inflight) (i :: (s.batch ++ s.buffer)) hin this
    · intro hb p hp
      rcases List.mem_append.mp hp with hp | hp
      · exact o4 hb p hp
      · rw [(owedFor_mem s i p hp).1]; exact hfr.2.2.2.1
  | buf i q =>
    have hns : s.batch ≠ [] → isStop s i = false := by
      intro hb
      cases hst : isStop s i with
      | false => rfl
      | true =>
        have : s.batch.isEmpty = false := by
          cases hbb : s.batch with
          | nil => exact absurd hbb hb
          | cons _ _ => rfl
        simp [calmOrder, hst, this] at hcalm
    simp only [next] at h
    split at h
    · cases h
      rename_i hg
      have key := ord_enqueue_fresh s i hc hg.1 o1 o2
      have hl : s.delivered ++ (s.inflight ++ s.batch ++ (s.buffer ++ [i])) = line s ++ [i] := by
        simp [line, queue]
      refine ⟨?_, ?_, o3, fun hb => o5_add s i (hns hb) o2 o4 hb⟩
      · intro d hd
        show d ∈ s.delivered ++ (s.inflight ++ s.batch ++ (s.buffer ++ [i]))
        rw [hl]
        rcases List.mem_append.mp hd with hd | hd
        · exact List.mem_append_left _ (o1 d hd)
        · exact List.mem_append_right _ hd
      · intro p hp
        show O2 s (s.fresh.erase i) (s.everBuf ++ [i]) s.kinds.length
          (s.delivered ++ (s.inflight ++ s.batch ++ (s.buffer ++ [i]))) p
        rw [hl]; exact key p hp
    · have tail : ∀ (s2 : State), s2.delivered = s.delivered → s2.inflight = s.inflight → s2.batch = s.batch →
          s2.buffer = s.buffer ++ [i] → s2.everBuf = s.everBuf ++ [i] → s2.owed = s.owed → s2.fresh = s.fresh →
          s2.kinds = s.kinds → s2.orderViol = s.orderViol → OrdWF s2 := by
        intro s2 e1 e2 e3 e4 e5 e6 e7 e8 e9
        have hl : line s2 = line s ++ [i] := by simp [line, queue, e1, e2, e3, e4]
        have hst : ∀ j, isStop s2 j = isStop s j := by intro j; unfold isStop kindOf; rw [e8]
        refine ⟨?_, ?_, by rw [e9]; exact o3, ?_⟩
        · intro d hd
          rw [hl]; rw [e5] at hd
          rcases List.mem_append.mp hd with hd | hd
          · exact List.mem_append_left _ (o1 d hd)
          · exact List.mem_append_right _ hd
        · intro p hp
          rw [e6] at hp
          obtain ⟨a, b, c, d, e', f⟩ := o2 p hp
          rw [hl, e5, e7, e8, hst]
          exact ⟨List.mem_append_left _ a, b, c, d, before_append_right _ _ _ _ e', f⟩
        · rw [e3, e6, e4]
          intro hb p hp
          have := o5_add s i (hns hb) o2 o4 hb p (List.mem_append_left _ hp)
          exact this
      split at h
      · cases h; exact tail _ rfl rfl rfl rfl rfl rfl rfl rfl rfl
      · split at h
        · cases h; exact tail _ rfl rfl rfl rfl rfl rfl rfl rfl rfl
        · cases h
  | bufTask i q =>
    have hns : s.batch ≠ [] → isStop s i = false := by
      intro hb
      cases hst : isStop s i with
      | false => rfl
      | true =>
        have : s.batch.isEmpty = false := by
          cases hbb : s.batch with
          | nil => exact absurd hbb hb
          | cons _ _ => rfl
        simp [calmOrder, hst, this] at hcalm
    simp only [next] at h
    split at h <;> cases h
    rename_i hg
    have key := ord_enqueue_fresh s i hc hg.1 o1 o2
    have hl : s.delivered ++ (s.inflight ++ s.batch ++ (s.buffer ++ [i])) = line s ++ [i] := by
      simp [line, queue]
    refine ⟨?_, ?_, o3, fun hb => o5_add s i (hns hb) o2 o4 hb⟩
    · intro d hd
      show d ∈ s.delivered ++ (s.inflight ++ s.batch ++ (s.buffer ++ [i]))
      rw [hl]
      rcases List.mem_append.mp hd with hd | hd
      · exact List.mem_append_left _ (o1 d hd)
      · exact List.mem_append_right _ hd
    · intro p hp
      show O2 s (s.fresh.erase i) (s.everBuf ++ [i]) s.kinds.length
        (s.delivered ++ (s.inflight ++ s.batch ++ (s.buffer ++ [i]))) p
      rw [hl]; exact key p hp
  | reject i =>
    simp only [next] at h; split at h <;> cases h
    refine ⟨o1, ?_, o3, o4⟩
    intro p hp
    obtain ⟨a, b, c, d, e'⟩ := o2 p hp
    exact ⟨a, b, fun hm => c (List.mem_of_mem_erase hm), d, e'⟩
  | ok i =>
    simp only [next] at h
    split at h
    · rename_i hd rest heq
      split at h <;> cases h
      rename_i hh; subst hh
      have hl : (s.delivered ++ [hd]) ++ (rest ++ s.batch ++ s.buffer) = line s := by
        simp [line, queue, heq]
      refine ⟨?_, ?_, ?_, o4⟩
      · intro d hdm
        show d ∈ (s.delivered ++ [hd]) ++ (rest ++ s.batch ++ s.buffer)
        rw [hl]; exact o1 d hdm
      · intro p hp
        show O2 s s.fresh s.everBuf s.kinds.length ((s.delivered ++ [hd]) ++ (rest ++ s.batch ++ s.buffer)) p
        rw [hl]; exact o2 p hp
      · show (s.orderViol || violates s hd) = false
        rw [o3]
        simp only [Bool.false_or]
        unfold violates
        rw [List.any_eq_false]
        intro p hp hv
        obtain ⟨a, b, c, d, e', _⟩ := o2 p hp
        simp only [Bool.and_eq_true, beq_iff_eq, Bool.not_eq_true'] at hv
        have hnd : p.1 ∉ s.delivered := by
          intro hm
          have : s.delivered.contains p.1 = true := by simpa using hm
          rw [this] at hv; exact absurd hv.2 (by simp)
        have hl2 : line s = s.delivered ++ hd :: (rest ++ s.batch ++ s.buffer) := by simp [line, queue, heq]
        rw [hl2, ← hv.1] at e'
        exact b (before_not_in_prefix _ _ _ _ hnd e').symm
    · cases h
  | fail i =>
    simp only [next] at h
    split at h
    · rename_i hd rest heq
      split at h <;> cases h
      rename_i hh; subst hh
      have hl2 : line s = s.delivered ++ hd :: (rest ++ s.batch ++ s.buffer) := by simp [line, queue, heq]
      have hne : hd ∉ s.everBuf := by
        intro hm
        simp [calmOrder] at hcalm
        exact hcalm hm
      refine ⟨?_, ?_, o3, o4⟩
      · intro d hdm
        have h1 := o1 d hdm
        rw [hl2] at h1
        show d ∈ s.delivered ++ (rest ++ s.batch ++ s.buffer)
        simp only [List.mem_append, List.mem_cons] at h1 ⊢
        rcases h1 with h1 | h1 | h1
        · exact Or.inl h1
        · subst h1; exact absurd hdm hne
        · exact Or.inr h1
      · intro p hp
        obtain ⟨a, b, c, d, e', f⟩ := o2 p hp
        refine ⟨a, b, c, d, ?_, f⟩
        show before p.1 p.2 (s.delivered ++ (rest ++ s.batch ++ s.buffer)) = true
        rw [hl2] at e'
        exact before_remove_mid _ _ _ _ _ e' (fun e2 => hne (e2 ▸ a))
    · cases h
  | cancel i =>
    simp only [next] at h
    split at h
    · cases h
    · rename_i hg
      have hne : i ∉ s.everBuf := fun hm => hg (Or.inl hm)
      split at h
      · cases h
        rename_i hin
        have hnd : i ∉ s.delivered := by
          have hp := List.count_pos_iff.mpr hin
          have := (conserved_le_one s hc i).1
          unfold total at this
          apply count_zero_not_mem; omega
        have hq : s.delivered ++ (s.inflight.erase i ++ s.batch ++ s.buffer) = (line s).erase i := by
          simp only [line, queue, List.append_assoc]
          rw [List.erase_append_right _ hnd, List.erase_append_left _ hin]
        refine ⟨?_, ?_, o3, o4⟩
        · intro d hdm
          show d ∈ s.delivered ++ (s.inflight.erase i ++ s.batch ++ s.buffer)
          rw [hq]
          exact (List.mem_erase_of_ne (fun (e2 : d = i) => hne (e2 ▸ hdm))).mpr (o1 d hdm)
        · intro p hp
          obtain ⟨a, b, c, d, e', f⟩ := o2 p hp
          refine ⟨a, b, c, d, ?_, f⟩
          show before p.1 p.2 (s.delivered ++ (s.inflight.erase i ++ s.batch ++ s.buffer)) = true
          rw [hq]
          exact before_erase _ _ _ _ e' (fun e2 => hne (e2 ▸ a))
      · split at h
        · cases h; exact ⟨o1, o2, o3, o4⟩
        · cases h
  | setState t =>
    cases t <;> simp only [next] at h <;> (try (cases h)) <;>
      (repeat' split at h) <;> (try (cases h)) <;> exact ⟨o1, o2, o3, o4⟩
  | take n =>
    simp only [next] at h; split at h <;> cases h
    rename_i hg
    have hq : s.delivered ++ (s.inflight ++ s.buffer ++ []) = line s := by simp [line, queue, hg.2.2]
    refine ⟨?_, ?_, o3, fun _ p _ => List.not_mem_nil⟩
    · intro d hdm
      show d ∈ s.delivered ++ (s.inflight ++ s.buffer ++ []); rw [hq]; exact o1 d hdm
    · intro p hp
      show O2 s s.fresh s.everBuf s.kinds.length (s.delivered ++ (s.inflight ++ s.buffer ++ [])) p
      rw [hq]; exact o2 p hp
  | postBatch sent qs =>
    cases sent
    · simp only [next] at h; split at h <;> cases h
      rename_i hg
      -- the batch goes back behind whatever was buffered meanwhile; no posted stop is among that
      have hl : line s = (s.delivered ++ s.inflight) ++ (s.batch ++ s.buffer) := by simp [line, queue]
      have hq : s.delivered ++ (s.inflight ++ [] ++ (s.buffer ++ s.batch))
          = (s.delivered ++ s.inflight) ++ (s.buffer ++ s.batch) := by simp
      refine ⟨?_, ?_, o3, fun hb => absurd rfl hb⟩
      · intro d hdm
        have h1 := o1 d hdm
        show d ∈ s.delivered ++ (s.inflight ++ [] ++ (s.buffer ++ s.batch))
        rw [hq]; rw [hl] at h1
        simp only [List.mem_append] at h1 ⊢
        rcases h1 with h1 | h1 | h1
        · exact Or.inl h1
        · exact Or.inr (Or.inr h1)
        · exact Or.inr (Or.inl h1)
      · intro p hp
        obtain ⟨a, b, c, d, e', f⟩ := o2 p hp
        refine ⟨a, b, c, d, ?_, f⟩
        show before p.1 p.2 (s.delivered ++ (s.inflight ++ [] ++ (s.buffer ++ s.batch))) = true
        rw [hq]
        rw [hl] at e'
        exact before_swap _ _ _ _ _ e' (o4 hg.1 p hp)
    · simp only [next] at h; split at h <;> cases h
      have hq : s.delivered ++ ((s.inflight ++ s.batch) ++ [] ++ s.buffer) = line s := by simp [line, queue]
      refine ⟨?_, ?_, o3, fun hb => absurd rfl hb⟩
      · intro d hdm
        show d ∈ s.delivered ++ ((s.inflight ++ s.batch) ++ [] ++ s.buffer); rw [hq]; exact o1 d hdm
      · intro p hp
        show O2 s s.fresh s.everBuf s.kinds.length (s.delivered ++ ((s.inflight ++ s.batch) ++ [] ++ s.buffer)) p
        rw [hq]; exact o2 p hp
  | connect b => simp only [next] at h; split at h <;> cases h; exact ⟨o1, o2, o3, o4⟩
  | disconnect => simp only [next] at h; cases h; exact ⟨o1, o2, o3, o4⟩
  | wait i self =>
    cases self <;> simp only [next] at h <;> split at h <;> (try (cases h)) <;> exact ⟨o1, o2, o3, o4⟩
  | waitOther => simp only [next] at h; split at h <;> cases h; exact ⟨o1, o2, o3, o4⟩
  | taskSet k => simp only [next] at h; cases h; exact ⟨o1, o2, o3, o4⟩
  | taskClear self =>
    cases self
    · simp only [next] at h; split at h <;> cases h <;> exact ⟨o1, o2, o3, o4⟩
    · simp only [next] at h; split at h <;> cases h
      refine ⟨o1, o2, o3, o4⟩

end OPM.Runner
