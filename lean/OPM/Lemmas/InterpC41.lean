import OPM.Lemmas.Interp
/-! Helper lemmas for C41: the macro table (`dictSet` = Python dict assignment) and the subtree reset
done before a fresh macro invocation. -/
namespace OPM.InterpC41
open OPM.Interp

theorem lookup_map_set (d : List (String × Nat)) (k : String) (v : Nat)
    (h : d.any (fun e => e.1 = k) = true) :
    (d.map (fun e => if e.1 = k then (k, v) else e)).lookup k = some v := by
  induction d with
  | nil => simp at h
  | cons e l ih =>
    obtain ⟨a, b⟩ := e
    by_cases hak : a = k
    · subst hak; simp [List.lookup]
    · have hl : l.any (fun e => e.1 = k) = true := by
        simpa [List.any_cons, hak] using h
      have hka : (k == a) = false := by
        simp only [beq_eq_false_iff_ne, ne_eq]; exact fun e => hak e.symm
      simp only [List.map_cons, hak, if_false, List.lookup, hka]
      exact ih hl

theorem lookup_append_new (d : List (String × Nat)) (k : String) (v : Nat)
    (h : d.any (fun e => e.1 = k) = false) : (d ++ [(k, v)]).lookup k = some v := by
  induction d with
  | nil => simp [List.lookup]
  | cons e l ih =>
    obtain ⟨a, b⟩ := e
    have hak : ¬ a = k := by
      intro e; subst e; simp at h
    have hl : l.any (fun e => e.1 = k) = false := by
      simpa [List.any_cons, hak] using h
    have hka : (k == a) = false := by
      simp only [beq_eq_false_iff_ne, ne_eq]; exact fun e => hak e.symm
    simp only [List.cons_append, List.lookup, hka]
    exact ih hl

/-- `d[k] = v; d[k]` gives `v`: the most recent definition is the one a call finds. -/
theorem lookup_dictSet_self (d : List (String × Nat)) (k : String) (v : Nat) :
    (dictSet d k v).lookup k = some v := by
  unfold dictSet
  split
  · rename_i h; exact lookup_map_set d k v h
  · rename_i h; exact lookup_append_new d k v (Bool.eq_false_iff.mpr h)

theorem lookup_map_other (d : List (String × Nat)) (k k' : String) (v : Nat) (hne : k' ≠ k) :
    (d.map (fun e => if e.1 = k then (k, v) else e)).lookup k' = d.lookup k' := by
  have hk : (k' == k) = false := by simpa using hne
  induction d with
  | nil => rfl
  | cons e l ih =>
    obtain ⟨a, b⟩ := e
    by_cases hak : a = k
    · subst hak
      simp only [List.map_cons, if_true, List.lookup, hk]
      exact ih
    · simp only [List.map_cons, hak, if_false, List.lookup]
      split
      · rfl
      · exact ih

theorem lookup_append_other (d : List (String × Nat)) (k k' : String) (v : Nat) (hne : k' ≠ k) :
    (d ++ [(k, v)]).lookup k' = d.lookup k' := by
  have hk : (k' == k) = false := by simpa using hne
  induction d with
  | nil => simp [List.lookup, hk]
  | cons e l ih =>
    obtain ⟨a, b⟩ := e
    simp only [List.cons_append, List.lookup]
    split
    · rfl
    · exact ih

/-- …and no other name is affected. -/
theorem lookup_dictSet_other (d : List (String × Nat)) (k k' : String) (v : Nat) (hne : k' ≠ k) :
    (dictSet d k v).lookup k' = d.lookup k' := by
  unfold dictSet
  split
  · exact lookup_map_other d k k' v hne
  · exact lookup_append_other d k k' v hne

theorem resetOne_idem (r : NodeRt) : resetOne (resetOne r) = resetOne r := rfl

theorem foldl_reset_rt (l : List Nat) (s : St) (k : Nat) :
    (l.foldl (fun s k => setRt s k resetOne) s).rt k =
      if k ∈ l then resetOne (s.rt k) else s.rt k := by
  induction l generalizing s with
  | nil => simp
  | cons a l ih =>
    simp only [List.foldl, ih, rt_setRt, List.mem_cons]
    by_cases hka : k = a
    · subst hka; simp [resetOne_idem]
    · simp [hka]

/-- `reset_runtime_state(recursive=True)`: exactly the node and its descendants are reset. -/
theorem rt_resetSubtree_eq (p : Prog) (s : St) (n k : Nat) :
    (resetSubtree p s n).rt k =
      if k ∈ n :: descendants p n then resetOne (s.rt k) else s.rt k := by
  unfold resetSubtree
  exact foldl_reset_rt _ s k

end OPM.InterpC41
