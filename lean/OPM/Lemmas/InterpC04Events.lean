import OPM.Lemmas.InterpC04
set_option linter.unusedSimpArgs false
set_option linter.unusedVariables false
/-!
C04 lemmas, Part B: which micro-step appends a `bodyStart` event for a Watch/Alarm node — only the
invocation point of `visit_WatchNode` / `visit_AlarmNode` (`pc = 2`) of that very node.
-/
namespace OPM.Interp

/-! ### the Watch / Alarm body, equation by equation -/

theorem stepBody_cond_pc2 (p : Prog) (s : St) (n : Nat) (below : List Frame) (h : isCond p n = true) :
    stepBody p s n 2 below =
      .next (emit (emit s (.scopeActivate n)) (.bodyStart n)) [.children n 0 false, .body n 3] .cont := by
  unfold isCond at h
  unfold stepBody
  split at h <;> simp_all

theorem stepBody_watch_pc1 (p : Prog) (s : St) (n : Nat) (below : List Frame) (c : Cond)
    (hk : (node p n).kind = .watch c) :
    stepBody p s n 1 below =
      if (s.rt n).activated then .next s [.body n 2] .cont
      else if (s.rt n).cancelled then .next s [] .cont
      else .next (tryActivate s n c) [.body n 1] .endTick := by
  unfold stepBody
  simp only [hk, getRt_eq]
  rfl

theorem stepBody_alarm_pc1 (p : Prog) (s : St) (n : Nat) (below : List Frame) (c : Cond)
    (hk : (node p n).kind = .alarm c) :
    stepBody p s n 1 below =
      if (s.rt n).activated then .next s [.body n 2] .cont
      else .next (tryActivate s n c) [.body n 1] .endTick := by
  unfold stepBody
  simp only [hk, getRt_eq]
  rfl

theorem stepBody_watch_pc0 (p : Prog) (s : St) (n : Nat) (below : List Frame) (c : Cond)
    (hk : (node p n).kind = .watch c) :
    stepBody p s n 0 below =
      if !(s.rt n).interruptRegistered then .next (registerInterrupt p s n) [.body n 9] .endTick
      else if !s.inInterrupt then .next s [.body n 9] .endTick
      else if (s.rt n).cancelled then .next s [] .cont
      else if !(s.rt n).activated then .next s [.body n 1] .cont
      else .next s [.body n 2] .cont := by
  unfold stepBody
  simp only [hk, getRt_eq]
  rfl

theorem stepBody_alarm_pc0 (p : Prog) (s : St) (n : Nat) (below : List Frame) (c : Cond)
    (hk : (node p n).kind = .alarm c) :
    stepBody p s n 0 below =
      if !(s.rt n).interruptRegistered then .next (registerInterrupt p s n) [.body n 9] .endTick
      else if !s.inInterrupt then .next s [.body n 9] .endTick
      else if !(s.rt n).activated then .next s [.body n 1] .cont
      else .next s [.body n 2] .cont := by
  unfold stepBody
  simp only [hk, getRt_eq]
  rfl

theorem stepBody_watch_pc3 (p : Prog) (s : St) (n : Nat) (below : List Frame) (c : Cond)
    (hk : (node p n).kind = .watch c) :
    stepBody p s n 3 below = .next (emit (finishNode s n) (.scopeEnd n)) [] .cont := by
  unfold stepBody
  simp only [hk]

theorem stepBody_alarm_pc3 (p : Prog) (s : St) (n : Nat) (below : List Frame) (c : Cond)
    (hk : (node p n).kind = .alarm c) :
    stepBody p s n 3 below = .next (alarmRearm p s n) [.body n 4] .endTick := by
  unfold stepBody
  simp only [hk]

/-! ### `bodyStart` events -/

@[simp] theorem events_setRt (s : St) (n : Nat) (f : NodeRt → NodeRt) : (setRt s n f).events = s.events := rfl
@[simp] theorem events_emit (s : St) (e : Event) : (emit s e).events = e :: s.events := rfl

@[simp] theorem bs_setRt (s : St) (n : Nat) (f : NodeRt → NodeRt) (w : Nat) :
    bsCount (setRt s n f) w = bsCount s w := rfl

theorem bs_emit (s : St) (e : Event) (w : Nat) :
    bsCount (emit s e) w = bsCount s w + (if e = Event.bodyStart w then 1 else 0) := by
  simp only [bsCount, events_emit, List.count_cons]
  by_cases h : e = Event.bodyStart w <;> simp [h]

@[simp] theorem bs_emit_ne (s : St) (e : Event) (w : Nat) (h : ∀ k, e ≠ Event.bodyStart k) :
    bsCount (emit s e) w = bsCount s w := by
  rw [bs_emit]; simp [h w]

@[simp] theorem bs_markCompleted (s : St) (n w : Nat) : bsCount (markCompleted s n) w = bsCount s w := by
  unfold markCompleted
  simp only []
  split <;> simp [bs_emit]

@[simp] theorem bs_finishNode (s : St) (n w : Nat) : bsCount (finishNode s n) w = bsCount s w := by
  unfold finishNode; simp

@[simp] theorem bs_markFailed (s : St) (n w : Nat) : bsCount (markFailed s n) w = bsCount s w := by
  unfold markFailed; simp [bs_emit]

@[simp] theorem bs_tryActivate (s : St) (n : Nat) (c : Cond) (w : Nat) :
    bsCount (tryActivate s n c) w = bsCount s w := by
  unfold tryActivate
  simp only []
  repeat' split
  all_goals rfl

@[simp] theorem bs_registerInterrupt (p : Prog) (s : St) (n w : Nat) :
    bsCount (registerInterrupt p s n) w = bsCount s w := by
  unfold registerInterrupt
  simp only []
  split <;> simp [bs_emit, bsCount, emit, setRt]

@[simp] theorem bs_unregisterInterrupt (s : St) (n w : Nat) :
    bsCount (unregisterInterrupt s n) w = bsCount s w := by
  unfold unregisterInterrupt
  simp [bs_emit, bsCount, emit, setRt]

theorem bs_foldl_keep {α : Type} (g : St → α → St) (w : Nat)
    (hg : ∀ s a, bsCount (g s a) w = bsCount s w) (l : List α) (s : St) :
    bsCount (l.foldl g s) w = bsCount s w := by
  induction l generalizing s with
  | nil => rfl
  | cons a l ih => simp [List.foldl, ih, hg]

@[simp] theorem bs_abort (p : Prog) (s : St) (b w : Nat) :
    bsCount (abortBlockInterrupts p s b) w = bsCount s w := by
  unfold abortBlockInterrupts
  apply bs_foldl_keep
  intro s a
  split <;> simp

@[simp] theorem bs_resetSubtree (p : Prog) (s : St) (n w : Nat) :
    bsCount (resetSubtree p s n) w = bsCount s w := by
  unfold resetSubtree
  apply bs_foldl_keep
  intro s a; rfl

@[simp] theorem bs_endOneBlock (p : Prog) (s : St) (old : Nat) (nm : String) (w : Nat) :
    bsCount (endOneBlock p s old nm) w = bsCount s w := by
  unfold endOneBlock
  simp [bs_emit]

@[simp] theorem bs_endBlockStep (p : Prog) (s : St) (w : Nat) :
    bsCount (endBlockStep p s) w = bsCount s w := by
  unfold endBlockStep
  split
  · rfl
  · simp only [bs_endOneBlock]; rfl

@[simp] theorem bs_endBlocksStep (p : Prog) (s : St) (w : Nat) :
    bsCount (endBlocksStep p s) w = bsCount s w := by
  unfold endBlocksStep
  simp only []
  show bsCount (List.foldl _ s _) w = _
  apply bs_foldl_keep
  intro s a; simp

@[simp] theorem bs_alarmRearm (p : Prog) (s : St) (n w : Nat) :
    bsCount (alarmRearm p s n) w = bsCount s w := by
  unfold alarmRearm
  simp [bs_emit]

@[simp] theorem bs_callPrepare (p : Prog) (s : St) (m w : Nat) :
    bsCount (callPrepare p s m) w = bsCount s w := by
  unfold callPrepare
  simp only []
  split <;> simp

@[simp] theorem bs_callFinish (s : St) (n m w : Nat) :
    bsCount (callFinish s n m) w = bsCount s w := by
  unfold callFinish
  simp


/-- Only the invocation point (`pc = 2`) of a Watch/Alarm appends a `bodyStart` event for it. -/
theorem stepBody_bs (p : Prog) (s : St) (n pc : Nat) (below : List Frame) (w : Nat) (hw : isCond p w = true) :
    bsCount (outState (stepBody p s n pc below)) w = bsCount s w ∨ (w = n ∧ pc = 2) := by
  by_cases hc : w = n ∧ pc = 2
  · exact Or.inr hc
  · left
    unfold isCond at hw
    unfold stepBody
    simp only []
    split
    all_goals (repeat' split)
    all_goals (try simp only [outState, bs_setRt, bs_finishNode, bs_markFailed, bs_markCompleted,
      bs_registerInterrupt, bs_unregisterInterrupt, bs_tryActivate, bs_abort, bs_endBlockStep, bs_endBlocksStep,
      bs_alarmRearm, bs_callPrepare, bs_callFinish, bs_emit])
    all_goals (try (simp [bsCount]; done))
    all_goals (try (simp_all [bsCount]; done))
    all_goals (
      have hne : ¬ (Event.bodyStart n = Event.bodyStart w) := by
        intro e; injection e with e; subst e; simp_all
      simp [bsCount, hne, emit, setRt])

theorem bs_unwind (s : St) (stack : List Frame) (w : Nat) :
    bsCount (unwind s stack).1 w = bsCount s w := by
  induction stack with
  | nil => rfl
  | cons f rest ih =>
    cases f <;> simp only [unwind, ih]
    rfl

theorem stepFrame_bs (p : Prog) (s : St) (f : Frame) (below : List Frame) (w : Nat) (hw : isCond p w = true) :
    bsCount (outState (stepFrame p s f below)) w = bsCount s w ∨ f = .body w 2 := by
  cases f with
  | body n pc =>
    rcases stepBody_bs p s n pc below w hw with h | ⟨e1, e2⟩
    · exact Or.inl h
    · subst e1; subst e2; exact Or.inr rfl
  | _ =>
    left
    unfold stepFrame
    simp only []
    repeat' split
    all_goals (try simp only [outState, bs_setRt, bs_finishNode, bs_callFinish, bs_emit])
    all_goals (try (simp [bsCount]; done))

/-- **Body-start guard (where).** A micro-step of a generator appends a `bodyStart w` event for a
    Watch/Alarm `w` only if the stepped frame is `w`'s invocation point. -/
theorem stepGen_bs (p : Prog) (s : St) (stack : List Frame) (w : Nat) (hw : isCond p w = true) :
    bsCount (stepGen p s stack).1 w = bsCount s w ∨ stack.head? = some (.body w 2) := by
  unfold stepGen
  cases stack with
  | nil => exact Or.inl rfl
  | cons f below =>
    simp only []
    have := stepFrame_bs p s f below w hw
    cases hs : stepFrame p s f below with
    | next s' top sig =>
      rw [hs] at this
      rcases this with h | h
      · exact Or.inl h
      · exact Or.inr (by rw [h]; rfl)
    | raise s' =>
      rw [hs] at this
      simp only []
      rw [bs_unwind]
      rcases this with h | h
      · exact Or.inl h
      · exact Or.inr (by rw [h]; rfl)

/-- The invocation step itself: exactly one `bodyStart w`, the body's children loop is pushed, the
    tick continues. -/
theorem stepGen_pc2 (p : Prog) (s : St) (w : Nat) (rest : List Frame) (hw : isCond p w = true) :
    stepGen p s (.body w 2 :: rest) =
      (emit (emit s (.scopeActivate w)) (.bodyStart w), .children w 0 false :: .body w 3 :: rest, .cont) := by
  unfold stepGen
  simp only [stepFrame, stepBody_cond_pc2 p s w rest hw]
  rfl

theorem bs_pc2 (s : St) (w k : Nat) :
    bsCount (emit (emit s (.scopeActivate w)) (.bodyStart w)) k = bsCount s k + (if w = k then 1 else 0) := by
  rw [bs_emit, bs_emit]
  by_cases h : w = k <;> simp [h]

end OPM.Interp
