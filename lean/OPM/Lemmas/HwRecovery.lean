import OPM.Model.HwRecovery
/-!
Shared vocabulary and helper lemmas for C23 / C24 (hardware error recovery).

## Specification vocabulary (used in the statements of C23 and C24)

The statements speak about *histories*: `runG` runs an op list and carries two ghost maps that are
computed from the ops and their observable outputs only (never from the decorator's private fields):
* `cmd r`  — the value most recently commanded for register `r`: the value of the last `write` /
  `write_batch` call naming `r` that returned without raising;
* `good r` — the value most recently read successfully from the hardware for `r` (the concrete
  hardware was contacted and answered).
-/
namespace OPM.HwRecovery

structure G where
  s : State
  cmd : Map
  good : Map

def cmdUpd (cmd : Map) (op : Op) (o : Out) : Map :=
  if o.res.raised then cmd else
  match op with
  | .write r w _ _ => upd cmd r.id w.v
  | .writeBatch rs ws _ _ => (zipRW rs ws).foldl (fun m e => upd m e.1.id e.2.v) cmd
  | _ => cmd

def goodUpd (good : Map) (op : Op) (o : Out) : Map :=
  if o.contact = some true then
    match op with
    | .read r (some v) => upd good r.id v
    | .readBatch rs (some vs) => (vs.zip rs).foldl (fun m e => upd m e.2.id e.1) good
    | _ => good
  else good

def stepG (cfg : Cfg) (g : G) (op : Op) : G :=
  let so := step cfg g.s op
  ⟨so.1, cmdUpd g.cmd op so.2, goodUpd g.good op so.2⟩

def runG (cfg : Cfg) (g : G) (ops : List Op) : G := ops.foldl (stepG cfg) g

def initG (connected : Bool) : G := ⟨init connected, emptyMap, emptyMap⟩

/-- op is a read or write call of the engine -/
def Op.isRW : Op → Bool
  | .read .. | .readBatch .. | .write .. | .writeBatch .. => true
  | _ => false

/-- op is a `write` / `write_batch` call -/
def Op.isWrite : Op → Bool
  | .write .. | .writeBatch .. => true
  | _ => false

/-- every register is used in a direction it supports (otherwise the call is a `KeyError`) -/
def Op.dirsOK : Op → Bool
  | .read r _ => r.canRead
  | .readBatch rs _ => rs.all (·.canRead)
  | .write r _ _ _ => r.canWrite
  | .writeBatch rs _ _ _ => rs.all (·.canWrite)
  | _ => true

/-- a batch names each register at most once (engine write cycles: `hwl.registers.values()`) -/
def Op.nodup : Op → Prop
  | .writeBatch rs _ _ _ => (rs.map (·.id)).Nodup
  | _ => True

/-- every hardware call the op makes succeeds (main call and every pending-flush write) -/
def Op.allHwOk : Op → Bool
  | .write _ _ ok fl => ok && fl.all id
  | .writeBatch _ _ failAt fl => failAt.isNone && fl.all id
  | _ => true

/-! ## generic induction principle for histories -/

theorem runG_induct (cfg : Cfg) (P : G → Prop) (hstep : ∀ g op, P g → P (stepG cfg g op)) :
    ∀ (ops : List Op) (g : G), P g → P (runG cfg g ops) := by
  intro ops
  induction ops with
  | nil => intro g h; exact h
  | cons op ops ih => intro g h; exact ih _ (hstep g op h)

theorem runG_append (cfg : Cfg) (g : G) (a b : List Op) :
    runG cfg g (a ++ b) = runG cfg (runG cfg g a) b := by
  simp [runG, List.foldl_append]

theorem runG_snoc (cfg : Cfg) (g : G) (a : List Op) (op : Op) :
    runG cfg g (a ++ [op]) = stepG cfg (runG cfg g a) op := by
  simp [runG, List.foldl_append]

/-! ## maps -/

@[simp] theorem upd_same (m : Map) (k : RegId) (v : Val) : upd m k v k = some v := by simp [upd]
theorem upd_other (m : Map) (k j : RegId) (v : Val) (h : j ≠ k) : upd m k v j = m j := by simp [upd, h]

/-- folding `upd` over key/value pairs: the result at `k` is the last pair with key `k`, else the old value -/
theorem foldl_upd_not_mem {α : Type} (key : α → RegId) (val : α → Val) (l : List α) (m : Map) (k : RegId)
    (h : ∀ e ∈ l, key e ≠ k) : (l.foldl (fun m e => upd m (key e) (val e)) m) k = m k := by
  induction l generalizing m with
  | nil => rfl
  | cons e l ih =>
    simp only [List.foldl_cons]
    rw [ih]
    · exact upd_other _ _ _ _ (fun hk => h e (by simp) hk.symm)
    · intro e' he'; exact h e' (by simp [he'])

theorem foldl_upd_mem_nodup {α : Type} (key : α → RegId) (val : α → Val) (l : List α) (m : Map)
    (hnd : (l.map key).Nodup) (e : α) (he : e ∈ l) :
    (l.foldl (fun m e => upd m (key e) (val e)) m) (key e) = some (val e) := by
  induction l generalizing m with
  | nil => cases he
  | cons a l ih =>
    simp only [List.foldl_cons]
    simp only [List.map_cons, List.nodup_cons] at hnd
    rcases List.mem_cons.mp he with rfl | hmem
    · rw [foldl_upd_not_mem]
      · simp
      · intro e' he' hk
        exact hnd.1 (by rw [← hk]; exact List.mem_map_of_mem he')
    · exact ih _ hnd.2 hmem

/-- the result of folding `upd` at any key is the old value or one of the folded values for that key -/
theorem foldl_upd_cases {α : Type} (key : α → RegId) (val : α → Val) (l : List α) (m : Map) (k : RegId) :
    (l.foldl (fun m e => upd m (key e) (val e)) m) k = m k ∨
    ∃ e ∈ l, key e = k ∧ (l.foldl (fun m e => upd m (key e) (val e)) m) k = some (val e) := by
  induction l generalizing m with
  | nil => left; rfl
  | cons a l ih =>
    simp only [List.foldl_cons]
    rcases ih (upd m (key a) (val a)) with h | ⟨e, he, hk, hv⟩
    · by_cases hak : k = key a
      · right; exact ⟨a, by simp, hak.symm, by rw [h, hak]; simp⟩
      · left; rw [h]; exact upd_other _ _ _ _ hak
    · right; exact ⟨e, by simp [he], hk, hv⟩

/-! ## write buffering (C24) -/

/-- the repaired code -/
def Fixed (cfg : Cfg) : Prop := cfg.asIsPending = false ∧ cfg.asIsFloat = false

def keys (kv : List (Reg × WVal)) : List RegId := kv.map (fun e => e.1.id)

/-- `cmd` after an accepted write of the pairs `z` -/
def cmdWrite (c : Map) (z : List (Reg × WVal)) : Map := z.foldl (fun m e => upd m e.1.id e.2.v) c

theorem mem_pset (p : List (RegId × Val)) (k : RegId) (v : Val) (k' : RegId) (v' : Val) :
    (k', v') ∈ pset p k v ↔ (k' = k ∧ v' = v) ∨ (k' ≠ k ∧ (k', v') ∈ p) := by
  unfold pset
  split
  · rename_i h
    simp only [List.any_eq_true, decide_eq_true_eq] at h
    obtain ⟨e, he, hk⟩ := h
    simp only [List.mem_map]
    constructor
    · rintro ⟨a, ha, hf⟩
      split at hf
      · left; cases hf; exact ⟨rfl, rfl⟩
      · right; rename_i hne; subst hf; exact ⟨hne, ha⟩
    · rintro (⟨rfl, rfl⟩ | ⟨hne, hm⟩)
      · exact ⟨e, he, by simp [hk]⟩
      · exact ⟨(k', v'), hm, by simp [hne]⟩
  · rename_i h
    simp only [List.any_eq_true, decide_eq_true_eq, not_exists, not_and] at h
    simp only [List.mem_append, List.mem_singleton, Prod.mk.injEq]
    constructor
    · rintro (hm | ⟨rfl, rfl⟩)
      · right; exact ⟨fun hk => h _ hm hk, hm⟩
      · left; exact ⟨rfl, rfl⟩
    · rintro (⟨rfl, rfl⟩ | ⟨_, hm⟩)
      · right; exact ⟨rfl, rfl⟩
      · left; exact hm

theorem mem_psetMany (kv : List (Reg × WVal)) (hnd : (keys kv).Nodup) (p : List (RegId × Val))
    (k' : RegId) (v' : Val) :
    (k', v') ∈ psetMany p kv ↔
      (∃ e ∈ kv, e.1.id = k' ∧ e.2.v = v') ∨ ((∀ e ∈ kv, e.1.id ≠ k') ∧ (k', v') ∈ p) := by
  induction kv generalizing p with
  | nil => simp [psetMany]
  | cons a kv ih =>
    simp only [keys, List.map_cons, List.nodup_cons] at hnd
    have ih' := ih hnd.2 (pset p a.1.id a.2.v)
    simp only [psetMany, List.foldl_cons] at ih' ⊢
    rw [ih', mem_pset]
    have hna : ∀ e ∈ kv, e.1.id ≠ a.1.id := by
      intro e he hk; exact hnd.1 (by rw [← hk]; exact List.mem_map_of_mem (f := fun e => e.1.id) he)
    constructor
    · rintro (⟨e, he, hk, hv⟩ | ⟨hall, (⟨rfl, rfl⟩ | ⟨hne, hm⟩)⟩)
      · left; exact ⟨e, by simp [he], hk, hv⟩
      · left; exact ⟨a, by simp, rfl, rfl⟩
      · right
        refine ⟨?_, hm⟩
        intro e he
        rcases List.mem_cons.mp he with rfl | he
        · exact fun h => hne h.symm
        · exact hall e he
    · rintro (⟨e, he, hk, hv⟩ | ⟨hall, hm⟩)
      · rcases List.mem_cons.mp he with rfl | he
        · right
          refine ⟨?_, Or.inl ⟨hk.symm, hv.symm⟩⟩
          intro e' he' hk'; exact hna e' he' (hk'.trans hk.symm)
        · left; exact ⟨e, he, hk, hv⟩
      · right
        refine ⟨fun e he => hall e (by simp [he]), Or.inr ⟨?_, hm⟩⟩
        exact fun h => hall a (by simp) h.symm

/-- characterisation of a map after writing the nodup pairs `z` -/
theorem cmdWrite_char (z : List (Reg × WVal)) (hnd : (keys z).Nodup) (c : Map) (k : RegId) :
    (∃ e ∈ z, e.1.id = k ∧ cmdWrite c z k = some e.2.v) ∨ ((∀ e ∈ z, e.1.id ≠ k) ∧ cmdWrite c z k = c k) := by
  by_cases h : ∃ e ∈ z, e.1.id = k
  · obtain ⟨e, he, hk⟩ := h
    left
    refine ⟨e, he, hk, ?_⟩
    have := foldl_upd_mem_nodup (fun e : Reg × WVal => e.1.id) (fun e => e.2.v) z c hnd e he
    rw [← hk]; exact this
  · right
    simp only [not_exists, not_and] at h
    exact ⟨h, foldl_upd_not_mem (fun e : Reg × WVal => e.1.id) (fun e => e.2.v) z c k h⟩

theorem cmdWrite_mem (z : List (Reg × WVal)) (hnd : (keys z).Nodup) (c : Map) :
    ∀ e ∈ z, cmdWrite c z e.1.id = some e.2.v :=
  fun e he => foldl_upd_mem_nodup (fun e : Reg × WVal => e.1.id) (fun e => e.2.v) z c hnd e he

theorem cmdWrite_not_mem (z : List (Reg × WVal)) (c : Map) :
    ∀ k, (∀ e ∈ z, e.1.id ≠ k) → cmdWrite c z k = c k :=
  fun k h => foldl_upd_not_mem (fun e : Reg × WVal => e.1.id) (fun e => e.2.v) z c k h

theorem key_em (z : List (Reg × WVal)) (k : RegId) : (∃ e ∈ z, e.1.id = k) ∨ (∀ e ∈ z, e.1.id ≠ k) := by
  by_cases h : ∃ e ∈ z, e.1.id = k
  · exact Or.inl h
  · right; simpa using h

theorem key_unique (z : List (Reg × WVal)) (hnd : (keys z).Nodup) :
    ∀ e ∈ z, ∀ e' ∈ z, e.1.id = e'.1.id → e = e' := by
  induction z with
  | nil => intro e he; cases he
  | cons a z ih =>
    simp only [keys, List.map_cons, List.nodup_cons] at hnd
    intro e he e' he' hk
    rcases List.mem_cons.mp he with h1 | h1 <;> rcases List.mem_cons.mp he' with h2 | h2
    · rw [h1, h2]
    · refine absurd ?_ hnd.1
      rw [← h1, hk]; exact List.mem_map_of_mem (f := fun e : Reg × WVal => e.1.id) h2
    · refine absurd ?_ hnd.1
      rw [← h2, ← hk]; exact List.mem_map_of_mem (f := fun e : Reg × WVal => e.1.id) h1
    · exact ih hnd.2 e h1 e' h2 hk

theorem keys_sublist {a b : List (Reg × WVal)} (h : a.Sublist b) (hnd : (keys b).Nodup) : (keys a).Nodup :=
  (h.map _).nodup hnd

theorem zip_keys_sublist (rs : List Reg) (ws : List WVal) : ((rs.zip ws).map (fun e => e.1.id)).Sublist (rs.map (·.id)) := by
  induction rs generalizing ws with
  | nil => simp
  | cons r rs ih =>
    cases ws with
    | nil => simp
    | cons w ws => simp only [List.zip_cons_cons, List.map_cons]; exact (ih ws).cons_cons _

theorem zip_keys_nodup (rs : List Reg) (ws : List WVal) (h : (rs.map (·.id)).Nodup) : (keys (zipRW rs ws)).Nodup :=
  (zip_keys_sublist rs ws).nodup h

/-! ### the flush loop -/

theorem flushGo_sub (cfg : Cfg) (hf : Fixed cfg) (exc : List RegId) (items : List (RegId × Val)) :
    ∀ (fl : List Bool) (hw : Map),
      (∀ e ∈ (flushGo cfg exc items fl hw).kept, e ∈ items ∧ e.1 ∉ exc) ∧
      (∀ e ∈ (flushGo cfg exc items fl hw).writes, e ∈ items ∧ e.1 ∉ exc) ∧
      (∀ e ∈ items, e.1 ∉ exc → e ∈ (flushGo cfg exc items fl hw).kept ∨ e ∈ (flushGo cfg exc items fl hw).writes) ∧
      (∀ k, ((∀ v, (k, v) ∉ (flushGo cfg exc items fl hw).writes) ∧ (flushGo cfg exc items fl hw).hw k = hw k) ∨
            ∃ v, (k, v) ∈ (flushGo cfg exc items fl hw).writes ∧ (flushGo cfg exc items fl hw).hw k = some v) := by
  induction items with
  | nil => intro fl hw; simp [flushGo]
  | cons it rest ih =>
    intro fl hw
    obtain ⟨k0, v0⟩ := it
    simp only [flushGo]
    split
    · rename_i hex
      simp only [hf.1, Bool.false_eq_true, if_false]
      have := ih fl hw
      have hex' : k0 ∈ exc := by simpa using hex
      grind
    · rename_i hex
      have hex' : k0 ∉ exc := by simpa using hex
      split
      · rename_i fl'
        have := ih fl' hw
        grind
      · have := ih fl.tail (upd hw k0 v0)
        grind [upd]

theorem flushGo_all_ok (cfg : Cfg) (hf : Fixed cfg) (exc : List RegId) (items : List (RegId × Val)) :
    ∀ (fl : List Bool) (hw : Map), fl.all id = true → (flushGo cfg exc items fl hw).kept = [] := by
  induction items with
  | nil => intro fl hw _; simp [flushGo]
  | cons it rest ih =>
    intro fl hw hfl
    obtain ⟨k0, v0⟩ := it
    simp only [flushGo]
    split
    · simp only [hf.1, Bool.false_eq_true, if_false]; exact ih fl hw hfl
    · split
      · simp at hfl
      · apply ih
        cases fl with
        | nil => simp
        | cons b fl' => simp only [List.all_cons, Bool.and_eq_true] at hfl; simpa using hfl.2

/-! ### the invariant -/

/-- Invariant of the write buffer w.r.t. the commanded values `c`:
    a buffered value is the commanded one; a remembered last-written value is the commanded one and
    nothing is buffered for that register; every commanded value is in the hardware or buffered. -/
structure Good' (p : List (RegId × Val)) (l h c : Map) : Prop where
  pend : ∀ r v, (r, v) ∈ p → c r = some v
  lsw : ∀ r v, l r = some v → c r = some v ∧ ∀ v', (r, v') ∉ p
  held : ∀ r v, c r = some v → h r = some v ∨ (r, v) ∈ p

theorem needsWrite_false_iff (cfg : Cfg) (hf : Fixed cfg) (l : Map) (e : Reg × WVal) :
    needsWrite cfg l e = false ↔ l e.1.id = some e.2.v := by
  unfold needsWrite modified
  rw [hf.2]
  cases h : l e.1.id with
  | none => simp
  | some o =>
    simp only [Bool.false_and, Bool.false_eq_true, if_false, bne_eq_false_iff_eq, Option.some.injEq]
    exact eq_comm

theorem mem_filter_needsWrite (cfg : Cfg) (hf : Fixed cfg) (l : Map) (z : List (Reg × WVal)) (e : Reg × WVal) :
    e ∈ z.filter (needsWrite cfg l) ↔ e ∈ z ∧ l e.1.id ≠ some e.2.v := by
  rw [List.mem_filter]
  have := needsWrite_false_iff cfg hf l e
  constructor
  · rintro ⟨h1, h2⟩; exact ⟨h1, fun h => by rw [this.mpr h] at h2; cases h2⟩
  · rintro ⟨h1, h2⟩
    refine ⟨h1, ?_⟩
    cases hn : needsWrite cfg l e
    · exact absurd (this.mp hn) h2
    · rfl

/-- a write accepted while reconnecting: everything is buffered -/
theorem goodR (p : List (RegId × Val)) (l h c : Map) (z : List (Reg × WVal)) (hnd : (keys z).Nodup)
    (hg : Good' p l h c) : Good' (psetMany p z) emptyMap h (cmdWrite c z) := by
  have hp := mem_psetMany z hnd p
  have hc1 := cmdWrite_mem z hnd c
  have hc2 := cmdWrite_not_mem z c
  obtain ⟨h1, h2, h3⟩ := hg
  refine ⟨?_, ?_, ?_⟩
  · intro r v hm
    have := key_em z r
    grind
  · intro r v hm; simp [emptyMap] at hm
  · intro r v hm
    have := key_em z r
    grind

theorem hwWrite_eq : hwWrite = cmdWrite := rfl
theorem lswWrite_eq : lswWrite = cmdWrite := rfl

theorem mem_keys (z : List (Reg × WVal)) (k : RegId) : k ∈ keys z ↔ ∃ e ∈ z, e.1.id = k := by
  simp [keys]

/-- a write whose hardware call fails after `k` physical writes: the values to write are buffered -/
theorem goodF (cfg : Cfg) (hf : Fixed cfg) (p : List (RegId × Val)) (l h c : Map) (z : List (Reg × WVal))
    (hnd : (keys z).Nodup) (k : Nat) (hg : Good' p l h c) :
    Good' (psetMany p (z.filter (needsWrite cfg l))) emptyMap
      (hwWrite h ((z.filter (needsWrite cfg l)).take k)) (cmdWrite c z) := by
  have hndkv : (keys (z.filter (needsWrite cfg l))).Nodup := keys_sublist List.filter_sublist hnd
  have hp := mem_psetMany _ hndkv p
  have hc1 := cmdWrite_mem z hnd c
  have hc2 := cmdWrite_not_mem z c
  have hfl := mem_filter_needsWrite cfg hf l z
  have hu := key_unique z hnd
  have htake : ∀ e ∈ (z.filter (needsWrite cfg l)).take k, e ∈ z.filter (needsWrite cfg l) :=
    fun e he => List.mem_of_mem_take he
  obtain ⟨h1, h2, h3⟩ := hg
  refine ⟨?_, ?_, ?_⟩
  · intro r v hm
    have := key_em z r
    grind
  · intro r v hm; simp [emptyMap] at hm
  · intro r v hm
    have := key_em z r
    have := key_em (z.filter (needsWrite cfg l)) r
    have hh := foldl_upd_cases (fun e : Reg × WVal => e.1.id) (fun e => e.2.v)
      ((z.filter (needsWrite cfg l)).take k) h r
    rw [hwWrite_eq]; unfold cmdWrite
    grind

/-- a write whose hardware call succeeds, followed by the flush of the buffered values -/
theorem goodS (cfg : Cfg) (hf : Fixed cfg) (p : List (RegId × Val)) (l h c : Map) (z : List (Reg × WVal))
    (hnd : (keys z).Nodup) (fl : List Bool) (hg : Good' p l h c) :
    let kv := z.filter (needsWrite cfg l)
    let a := flushGo cfg (keys kv) p fl (hwWrite h kv)
    Good' a.kept (lswWrite l kv) a.hw (cmdWrite c z) := by
  intro kv a
  have hndkv : (keys kv).Nodup := keys_sublist List.filter_sublist hnd
  have hc1 := cmdWrite_mem z hnd c
  have hc2 := cmdWrite_not_mem z c
  have hw1 := cmdWrite_mem kv hndkv h
  have hw2 := cmdWrite_not_mem kv h
  have hl1 := cmdWrite_mem kv hndkv l
  have hl2 := cmdWrite_not_mem kv l
  have hfl : ∀ e, e ∈ kv ↔ e ∈ z ∧ l e.1.id ≠ some e.2.v := mem_filter_needsWrite cfg hf l z
  have hu := key_unique z hnd
  have hk := mem_keys kv
  obtain ⟨f1, f2, f3, f4⟩ := flushGo_sub cfg hf (keys kv) p fl (hwWrite h kv)
  rw [hwWrite_eq] at f1 f2 f3 f4
  obtain ⟨h1, h2, h3⟩ := hg
  have ha : a = flushGo cfg (keys kv) p fl (cmdWrite h kv) := rfl
  rw [lswWrite_eq]
  rw [← ha] at f1 f2 f3 f4
  refine ⟨?_, ?_, ?_⟩
  · intro r v hm
    have := key_em z r
    grind
  · intro r v hm
    have := key_em z r
    have := key_em kv r
    grind
  · intro r v hm
    have := key_em z r
    have := key_em kv r
    have := f4 r
    grind

/-! ### the invariant along steps -/

def Good (g : G) : Prop := Good' g.s.pending g.s.lsw g.s.hw g.cmd

theorem good_clear {p : List (RegId × Val)} {l h c : Map} (hg : Good' p l h c) : Good' p emptyMap h c :=
  ⟨hg.pend, fun r v hm => by simp [emptyMap] at hm, hg.held⟩

@[simp] theorem errorRW_pending (cfg : Cfg) (s : State) : (errorRW cfg s).pending = s.pending := by
  simp only [errorRW]; (repeat' split) <;> rfl
@[simp] theorem errorRW_hw (cfg : Cfg) (s : State) : (errorRW cfg s).hw = s.hw := by
  simp only [errorRW]; (repeat' split) <;> rfl
@[simp] theorem errorRW_lsw (cfg : Cfg) (s : State) : (errorRW cfg s).lsw = emptyMap := by
  simp only [errorRW]; (repeat' split) <;> rfl
@[simp] theorem success_pending (s : State) : (success s).pending = s.pending := by
  simp only [success]; split <;> rfl
@[simp] theorem success_hw (s : State) : (success s).hw = s.hw := by
  simp only [success]; split <;> rfl
@[simp] theorem success_lsw (s : State) : (success s).lsw = s.lsw := by
  simp only [success]; split <;> rfl
theorem success_st (s : State) (h : s.st = .ok ∨ s.st = .issue) : (success s).st = .ok := by
  unfold success; rcases h with h | h <;> simp [h]

theorem good_init (connected : Bool) : Good (initG connected) := by
  refine ⟨?_, ?_, ?_⟩ <;> simp [initG, init, emptyMap]

theorem flush_ok (cfg : Cfg) (s : State) (exc : List RegId) (fl : List Bool) (h : s.st = .ok) :
    flush cfg s exc fl =
      ({ s with pending := (flushGo cfg exc s.pending fl s.hw).kept, hw := (flushGo cfg exc s.pending fl s.hw).hw },
       (flushGo cfg exc s.pending fl s.hw).writes) := by
  simp [flush, h]

set_option linter.unusedSimpArgs false in
theorem step_good_writeBatch (cfg : Cfg) (hf : Fixed cfg) (g : G) (rs : List Reg) (ws : List WVal)
    (failAt : Option Nat) (fl : List Bool) (hnd : (rs.map (·.id)).Nodup) (hg : Good g) :
    Good (stepG cfg g (.writeBatch rs ws failAt fl)) := by
  have hz := zip_keys_nodup rs ws hnd
  unfold Good at *
  simp only [stepG, step, cmdUpd]
  split
  · simpa [Res.raised] using hg
  · cases hst : g.s.st
    case disconnected => simpa [Res.raised] using hg
    case error => simpa [Res.raised] using hg
    case reconnect =>
      simp only [Res.raised, Bool.false_eq_true, if_false, errorRW_pending, errorRW_hw, errorRW_lsw]
      exact goodR _ _ _ _ _ hz hg
    all_goals
      cases failAt with
      | none =>
        have hs : (success { g.s with hw := hwWrite g.s.hw ((zipRW rs ws).filter (needsWrite cfg g.s.lsw)),
                                      lsw := lswWrite g.s.lsw ((zipRW rs ws).filter (needsWrite cfg g.s.lsw)) }).st = .ok :=
          success_st _ (by simp [hst])
        simp only [flush_ok _ _ _ _ hs, Res.raised, Bool.false_eq_true, if_false, success_pending, success_hw,
          success_lsw]
        exact goodS cfg hf _ _ _ _ _ hz fl hg
      | some k =>
        simp only [Res.raised, Bool.false_eq_true, if_false, errorRW_pending, errorRW_hw, errorRW_lsw]
        exact goodF cfg hf _ _ _ _ _ hz k hg

set_option linter.unusedSimpArgs false in
theorem step_good_write (cfg : Cfg) (hf : Fixed cfg) (g : G) (r : Reg) (w : WVal) (ok : Bool) (fl : List Bool)
    (hg : Good g) : Good (stepG cfg g (.write r w ok fl)) := by
  have hz : (keys [(r, w)]).Nodup := by simp [keys]
  unfold Good at *
  simp only [stepG, step, cmdUpd]
  split
  · simpa [Res.raised] using hg
  · cases hst : g.s.st
    case disconnected => simpa [Res.raised] using hg
    case error => simpa [Res.raised] using hg
    case reconnect =>
      simp only [Res.raised, Bool.false_eq_true, if_false, errorRW_pending, errorRW_hw, errorRW_lsw]
      exact goodR _ _ _ _ [(r, w)] hz hg
    all_goals
      cases hn : needsWrite cfg g.s.lsw (r, w)
      · simp only [Bool.not_false, if_true, Res.raised, Bool.false_eq_true, if_false]
        have hl := (needsWrite_false_iff cfg hf g.s.lsw (r, w)).mp hn
        have hc : upd g.cmd r.id w.v = g.cmd := by
          funext j
          by_cases hj : j = r.id
          · subst hj; simp [(hg.lsw _ _ hl).1]
          · simp [upd, hj]
        rw [hc]; exact hg
      · simp only [Bool.not_true, Bool.false_eq_true, if_false]
        cases ok with
        | true =>
          have hs : (success { g.s with hw := upd g.s.hw r.id w.v, lsw := upd g.s.lsw r.id w.v }).st = .ok :=
            success_st _ (by simp [hst])
          simp only [flush_ok _ _ _ _ hs, Res.raised, Bool.false_eq_true, if_false, success_pending, success_hw,
            success_lsw, if_true]
          have := goodS cfg hf _ _ _ _ [(r, w)] hz fl hg
          simp only [hn, hwWrite, lswWrite, cmdWrite, keys, List.filter_cons_of_pos, List.filter_nil,
            List.foldl_cons, List.foldl_nil, List.map_cons, List.map_nil] at this
          exact this
        | false =>
          simp only [Res.raised, Bool.false_eq_true, if_false, errorRW_pending, errorRW_hw, errorRW_lsw]
          have := goodF cfg hf _ _ _ _ [(r, w)] hz 0 hg
          simpa [hn, hwWrite, psetMany, cmdWrite] using this

/-- ops other than writes leave buffer, hardware memory and commanded values alone -/
theorem step_good_other (cfg : Cfg) (g : G) (op : Op) (hop : match op with | .write .. | .writeBatch .. => False | _ => True)
    (hg : Good g) : Good (stepG cfg g op) := by
  unfold Good at *
  cases op <;> simp only [stepG, step, cmdUpd] at * <;> (repeat' split) <;>
    first
    | exact hg
    | (simp only [errorRW_pending, errorRW_hw, errorRW_lsw, success_pending, success_hw, success_lsw]
       first | exact hg | exact good_clear hg)

/-- The invariant is preserved by every step of the repaired code. -/
theorem step_good (cfg : Cfg) (hf : Fixed cfg) (g : G) (op : Op) (hnd : op.nodup) (hg : Good g) :
    Good (stepG cfg g op) := by
  cases op with
  | write r w ok fl => exact step_good_write cfg hf g r w ok fl hg
  | writeBatch rs ws failAt fl => exact step_good_writeBatch cfg hf g rs ws failAt fl hnd hg
  | _ => exact step_good_other cfg g _ trivial hg

theorem runG_induct' (cfg : Cfg) (P : G → Prop) (Q : Op → Prop)
    (hstep : ∀ g op, Q op → P g → P (stepG cfg g op)) :
    ∀ (ops : List Op) (g : G), (∀ o ∈ ops, Q o) → P g → P (runG cfg g ops) := by
  intro ops
  induction ops with
  | nil => intro g _ h; exact h
  | cons op ops ih =>
    intro g hq h
    exact ih _ (fun o ho => hq o (by simp [ho])) (hstep g op (hq op (by simp)) h)

theorem good_reachable (cfg : Cfg) (hf : Fixed cfg) (connected : Bool) (ops : List Op)
    (hnd : ∀ o ∈ ops, o.nodup) : Good (runG cfg (initG connected) ops) :=
  runG_induct' cfg Good Op.nodup (fun g op hq hg => step_good cfg hf g op hq hg) ops _ hnd (good_init connected)

/-! ### the physical writes of one op carry the newest commanded values -/

theorem writesF_fresh (cfg : Cfg) (hf : Fixed cfg) (l c : Map) (z : List (Reg × WVal)) (hnd : (keys z).Nodup)
    (k : Nat) : ∀ e ∈ ((z.filter (needsWrite cfg l)).take k).map (fun e => (e.1.id, e.2.v)),
      cmdWrite c z e.1 = some e.2 := by
  intro e he
  obtain ⟨a, ha, rfl⟩ := List.mem_map.mp he
  have := (mem_filter_needsWrite cfg hf l z a).mp (List.mem_of_mem_take ha)
  exact cmdWrite_mem z hnd c a this.1

theorem writesS_fresh (cfg : Cfg) (hf : Fixed cfg) (p : List (RegId × Val)) (l h c : Map) (z : List (Reg × WVal))
    (hnd : (keys z).Nodup) (fl : List Bool) (hg : Good' p l h c) :
    let kv := z.filter (needsWrite cfg l)
    ∀ e ∈ kv.map (fun e => (e.1.id, e.2.v)) ++ (flushGo cfg (keys kv) p fl (hwWrite h kv)).writes,
      cmdWrite c z e.1 = some e.2 := by
  intro kv e he
  have hc1 := cmdWrite_mem z hnd c
  have hc2 := cmdWrite_not_mem z c
  have hfl : ∀ e, e ∈ kv ↔ e ∈ z ∧ l e.1.id ≠ some e.2.v := mem_filter_needsWrite cfg hf l z
  have hk := mem_keys kv
  obtain ⟨_, f2, _, _⟩ := flushGo_sub cfg hf (keys kv) p fl (hwWrite h kv)
  obtain ⟨h1, h2, h3⟩ := hg
  rcases List.mem_append.mp he with he | he
  · obtain ⟨a, ha, rfl⟩ := List.mem_map.mp he
    exact hc1 a ((hfl a).mp ha).1
  · obtain ⟨r, v⟩ := e
    have := f2 _ he
    have := key_em z r
    grind

set_option linter.unusedSimpArgs false in
theorem step_writes_fresh_writeBatch (cfg : Cfg) (hf : Fixed cfg) (g : G) (rs : List Reg) (ws : List WVal)
    (failAt : Option Nat) (fl : List Bool) (hnd : (rs.map (·.id)).Nodup) (hg : Good g) :
    ∀ e ∈ (step cfg g.s (.writeBatch rs ws failAt fl)).2.writes,
      (stepG cfg g (.writeBatch rs ws failAt fl)).cmd e.1 = some e.2 := by
  have hz := zip_keys_nodup rs ws hnd
  unfold Good at hg
  simp only [stepG, step, cmdUpd]
  split
  · simp
  · cases hst : g.s.st
    case disconnected => simp
    case error => simp
    case reconnect => simp
    all_goals
      cases failAt with
      | none =>
        have hs : (success { g.s with hw := hwWrite g.s.hw ((zipRW rs ws).filter (needsWrite cfg g.s.lsw)),
                                      lsw := lswWrite g.s.lsw ((zipRW rs ws).filter (needsWrite cfg g.s.lsw)) }).st = .ok :=
          success_st _ (by simp [hst])
        simp only [Res.raised, Bool.false_eq_true, if_false]
        exact writesS_fresh cfg hf _ _ _ _ _ hz fl hg
      | some k =>
        simp only [Res.raised, Bool.false_eq_true, if_false]
        exact writesF_fresh cfg hf _ _ _ hz k

set_option linter.unusedSimpArgs false in
theorem step_writes_fresh_write (cfg : Cfg) (hf : Fixed cfg) (g : G) (r : Reg) (w : WVal) (ok : Bool)
    (fl : List Bool) (hg : Good g) :
    ∀ e ∈ (step cfg g.s (.write r w ok fl)).2.writes, (stepG cfg g (.write r w ok fl)).cmd e.1 = some e.2 := by
  have hz : (keys [(r, w)]).Nodup := by simp [keys]
  unfold Good at hg
  simp only [stepG, step, cmdUpd]
  split
  · simp
  · cases hst : g.s.st
    case disconnected => simp
    case error => simp
    case reconnect => simp
    all_goals
      cases hn : needsWrite cfg g.s.lsw (r, w)
      · simp
      · simp only [Bool.not_true, Bool.false_eq_true, if_false]
        cases ok with
        | true =>
          simp only [Res.raised, Bool.false_eq_true, if_false, if_true]
          have := writesS_fresh cfg hf _ _ _ _ [(r, w)] hz fl hg
          simp only [hn, hwWrite, lswWrite, cmdWrite, keys, List.filter_cons_of_pos, List.filter_nil,
            List.foldl_cons, List.foldl_nil, List.map_cons, List.map_nil, List.cons_append, List.nil_append] at this
          exact this
        | false => simp

theorem step_writes_fresh (cfg : Cfg) (hf : Fixed cfg) (g : G) (op : Op) (hnd : op.nodup) (hg : Good g) :
    ∀ e ∈ (step cfg g.s op).2.writes, (stepG cfg g op).cmd e.1 = some e.2 := by
  cases op with
  | write r w ok fl => exact step_writes_fresh_write cfg hf g r w ok fl hg
  | writeBatch rs ws failAt fl => exact step_writes_fresh_writeBatch cfg hf g rs ws failAt fl hnd hg
  | advance d => simp [step]
  | connect ok => simp only [step]; (repeat' split) <;> simp
  | tick ok => simp only [step]; (repeat' split) <;> simp
  | read r hwv => simp only [step]; (repeat' split) <;> simp
  | readBatch rs hwv => simp only [step]; (repeat' split) <;> simp

/-- a batch write whose hardware calls all succeed empties the buffer -/
theorem writeBatch_ok_pending (cfg : Cfg) (hf : Fixed cfg) (s : State) (rs : List Reg) (ws : List WVal)
    (fl : List Bool) (hst : s.st = .ok ∨ s.st = .issue) (hdir : rs.all (·.canWrite) = true)
    (hfl : fl.all id = true) :
    (step cfg s (.writeBatch rs ws Option.none fl)).1.pending = [] ∧
    (step cfg s (.writeBatch rs ws Option.none fl)).1.st = .ok ∧
    (step cfg s (.writeBatch rs ws Option.none fl)).2.res = .unit ∧
    (step cfg s (.writeBatch rs ws Option.none fl)).2.contact = some true := by
  have hd : (rs.any fun r => !r.canWrite) = false := by
    simp only [List.any_eq_false, Bool.not_eq_true', Bool.not_eq_false]
    intro x hx; simpa using (List.all_eq_true.mp hdir) x hx
  simp only [step, hd, Bool.false_eq_true, if_false]
  rcases hst with hst | hst <;> simp only [hst] <;>
    simp [flush, success, flushGo_all_ok cfg hf _ _ _ _ hfl]

/-- when no attempted flush write failed, nothing stays buffered (repaired code) -/
theorem flushGo_no_fail (cfg : Cfg) (hf : Fixed cfg) (exc : List RegId) (items : List (RegId × Val)) :
    ∀ (fl : List Bool) (hw : Map), (flushGo cfg exc items fl hw).failed = false →
      (flushGo cfg exc items fl hw).kept = [] := by
  induction items with
  | nil => intro fl hw _; simp [flushGo]
  | cons it rest ih =>
    intro fl hw
    obtain ⟨k0, v0⟩ := it
    simp only [flushGo]
    split
    · simp only [hf.1, Bool.false_eq_true, if_false]; exact ih fl hw
    · split
      · simp
      · exact ih _ _

/-- a `write` / `write_batch` that reached the hardware and whose calls (main call and every flush write
    that was attempted) all succeeded leaves nothing buffered -/
theorem step_ok_pending (cfg : Cfg) (hf : Fixed cfg) (s : State) (op : Op)
    (hc : (step cfg s op).2.contact = some true) (hff : (step cfg s op).2.flushFail = false)
    (hw : op.isWrite = true) :
    (step cfg s op).1.pending = [] := by
  cases op with
  | write r w ok fl =>
    by_cases hd : r.canWrite = true
    · cases hst : s.st <;> simp only [step, hd, hst, Bool.not_true, Bool.false_eq_true, if_false] at hc hff ⊢ <;>
        try (simp at hc)
      all_goals
        cases hn : needsWrite cfg s.lsw (r, w) <;> simp only [hn, Bool.not_false, Bool.not_true, if_true,
          Bool.false_eq_true, if_false] at hc hff ⊢ <;> try (simp at hc)
        cases ok <;> simp only [Bool.false_eq_true, if_false, if_true] at hc hff ⊢ <;> try (simp at hc)
        simp only [flushFailed, flush, success] at hff ⊢
        simp at hff ⊢
        exact flushGo_no_fail cfg hf _ _ _ _ hff
    · simp [step, hd] at hc
  | writeBatch rs ws failAt fl =>
    by_cases hd : (rs.any fun r => !r.canWrite) = true
    · simp [step, hd] at hc
    · cases hst : s.st <;> simp only [step, hd, hst, Bool.false_eq_true, if_false] at hc hff ⊢ <;>
        try (simp at hc)
      all_goals
        cases failAt with
        | some k => simp at hc
        | none =>
          simp only [flushFailed, flush, success] at hff ⊢
          simp at hff ⊢
          exact flushGo_no_fail cfg hf _ _ _ _ hff
  | _ => simp [Op.isWrite] at hw

end OPM.HwRecovery
