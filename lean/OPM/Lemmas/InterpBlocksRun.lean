import OPM.Lemmas.InterpBlocksTag
set_option linter.unusedSimpArgs false
set_option linter.unusedVariables false
/-!
# Blocks: the Block-tag invariant over whole ticks  (C05)

`calmGen` / `calmGid` / `calmTick` run along `runGen` / `runGid` / `tick` and report whether any micro-step
on the way was exotic (`exoticStep`).  `tagOk_tick`: a calm tick keeps the chain and the Block tag right.
-/
namespace OPM.Interp

/-- chain and tag together -/
def BlkGood (p : Prog) (s : St) : Prop := Chain p s ∧ TagOk p s

theorem blkGood_congr (p : Prog) (s s' : St) (hrt : s'.rt = s.rt) (ht : s'.blockTag = s.blockTag)
    (h : BlkGood p s) : BlkGood p s' :=
  ⟨chain_congr p s s' hrt h.1, tagOk_congr p s s' ht (fun k => by rw [hrt]) (fun k _ => by rw [hrt]) h.2⟩

theorem blkGood_runGen (p : Prog) (hwf : ProgWF p = true) (fuel : Nat) (s : St) (stack : List Frame)
    (h : BlkGood p s) (hc : calmGen p fuel s stack = true) : BlkGood p (runGen p fuel s stack).1 := by
  induction fuel generalizing s stack with
  | zero => exact h
  | succ fuel ih =>
    unfold runGen
    unfold calmGen at hc
    simp only [Bool.and_eq_true, Bool.not_eq_true'] at hc
    have h1 : BlkGood p (stepGen p s stack).1 :=
      ⟨chain_stepGen p s stack h.1, tagOk_stepGen p s stack hwf h.1 hc.1 h.2⟩
    have hc2 := hc.2
    rcases hs : stepGen p s stack with ⟨s1, stack1, sig⟩
    rw [hs] at h1 hc2
    cases sig
    · exact ih s1 stack1 h1 hc2
    · exact h1
    · exact h1

theorem blkGood_runGid (p : Prog) (hwf : ProgWF p = true) (fuel : Nat) (s : St) (gid : Nat)
    (h : BlkGood p s) (hc : calmGid p fuel s gid = true) : BlkGood p (runGid p fuel s gid).1 := by
  unfold runGid
  unfold calmGid at hc
  split
  · exact h
  · rename_i g hg
    rw [hg] at hc
    have h1 := blkGood_runGen p hwf fuel s g.stack h hc
    rcases hr : runGen p fuel s g.stack with ⟨s1, stack1, ok⟩
    rw [hr] at h1
    exact blkGood_congr p s1 _ rfl rfl h1

theorem calmFold_false (p : Prog) (l : List Nat) (s : St) : (calmFold p l (s, false)).2 = false := by
  unfold calmFold
  induction l generalizing s with
  | nil => rfl
  | cons g l ih => simp only [List.foldl, Bool.false_and]; exact ih _

theorem blkGood_foldInterrupts (p : Prog) (hwf : ProgWF p = true) (l : List Nat) (s : St) (ok : Bool)
    (h : BlkGood p s) (hc : (calmFold p l (s, true)).2 = true) :
    BlkGood p (l.foldl (fun (acc : St × Bool) gid =>
      let r := runGid p microFuel { acc.1 with inInterrupt := true } gid
      ({ r.1 with inInterrupt := false }, acc.2 && r.2)) (s, ok)).1 := by
  induction l generalizing s ok with
  | nil => exact h
  | cons g l ih =>
    simp only [List.foldl]
    unfold calmFold at hc
    simp only [List.foldl, Bool.true_and] at hc
    cases hg : calmGid p microFuel { s with inInterrupt := true } g with
    | false =>
      rw [hg] at hc
      have := calmFold_false p l { (runGid p microFuel { s with inInterrupt := true } g).1 with inInterrupt := false }
      unfold calmFold at this
      rw [this] at hc; cases hc
    | true =>
      rw [hg] at hc
      apply ih
      · apply blkGood_congr p _ _ rfl rfl
        exact blkGood_runGid p hwf microFuel _ g (blkGood_congr p s _ rfl rfl h) hg
      · exact hc

/-- **A calm tick keeps the locked blocks a chain and the Block tag on the innermost active block.** -/
theorem blkGood_tick (p : Prog) (hwf : ProgWF p = true) (s : St) (i : TickIn) (h : BlkGood p s)
    (hc : calmTick p s i = true) : BlkGood p (tick p s i).1 := by
  unfold tick
  unfold calmTick at hc
  simp only [Bool.and_eq_true] at hc
  simp only []
  apply blkGood_congr p _ _ rfl rfl
  apply blkGood_foldInterrupts p hwf
  · exact blkGood_runGid p hwf microFuel _ 0 (blkGood_congr p s _ rfl rfl h) hc.1
  · exact hc.2

theorem tagOk_init (p : Prog) : TagOk p (init p) := by
  have : lockedBlocks p (init p) = [] := by
    cases hl : lockedBlocks p (init p) with
    | nil => rfl
    | cons b r =>
      have : b ∈ lockedBlocks p (init p) := by rw [hl]; exact List.mem_cons_self ..
      rw [mem_lockedBlocks] at this
      simp [init] at this
  unfold TagOk innermostName activeBlocks
  rw [this]
  rfl

theorem blkGood_setRt_keep (p : Prog) (s : St) (n : Nat) (f : NodeRt → NodeRt)
    (hf : ∀ r, (f r).lockAcquired = r.lockAcquired ∧ (f r).blockEnded = r.blockEnded) (h : BlkGood p s) :
    BlkGood p (setRt s n f) := by
  have hs : BlkSame s (setRt s n f) := by
    refine ⟨rfl, fun k => ?_⟩
    simp only [rt_setRt]
    split
    · rename_i e; subst e; exact hf _
    · exact ⟨rfl, rfl⟩
  exact ⟨chain_same p hs h.1, tagOk_same p hs h.2⟩

end OPM.Interp
