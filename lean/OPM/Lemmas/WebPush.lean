import OPM.Model.WebPush
/-! Helper lemmas for C33: boolean tests of the model as propositions, database well-formedness. -/
namespace OPM.WebPush

/-- `has_access` as a proposition. -/
def HasAccess (required roles : List Nat) : Prop := required = [] ∨ ∃ r ∈ required, r ∈ roles

theorem hasAccess_iff (required roles : List Nat) : hasAccess required roles = true ↔ HasAccess required roles := by
  unfold hasAccess HasAccess
  simp only [Bool.or_eq_true, List.isEmpty_iff, List.any_eq_true, List.contains_eq_mem, decide_eq_true_eq]

theorem filter_length_pos_iff (l : List Nat) (x : Nat) : (l.filter (fun c => c == x)).length > 0 ↔ x ∈ l := by
  rw [gt_iff_lt, List.length_pos_iff_exists_mem]
  constructor
  · rintro ⟨a, ha⟩
    rw [List.mem_filter, beq_iff_eq] at ha
    exact ha.2 ▸ ha.1
  · intro h
    exact ⟨x, List.mem_filter.2 ⟨h, by simp⟩⟩

theorem nodup_of_nodup_map {α β : Type} (f : α → β) (l : List α) (h : (l.map f).Nodup) : l.Nodup := by
  induction l with
  | nil => simp
  | cons a l ih =>
    simp only [List.map_cons, List.nodup_cons, List.mem_map, not_exists, not_and] at h ⊢
    exact ⟨fun hm => h.1 a hm rfl, ih h.2⟩

/-! ### well-formed databases -/

/-- Subscription rows have distinct ids; there is at most one preference row per user. -/
def WF (db : DB) : Prop := (db.subs.map (·.id)).Nodup ∧ (db.prefs.map (·.user)).Nodup

theorem le_foldl_max (subs : List Sub) (m : Nat) :
    m ≤ subs.foldl (fun m s => max m s.id) m ∧ ∀ s ∈ subs, s.id ≤ subs.foldl (fun m s => max m s.id) m := by
  induction subs generalizing m with
  | nil => simp
  | cons a l ih =>
    simp only [List.foldl_cons, List.mem_cons]
    have h := ih (max m a.id)
    refine ⟨by omega, ?_⟩
    rintro s (rfl | hs)
    · omega
    · exact h.2 s hs

theorem id_le_maxId (subs : List Sub) (s : Sub) (h : s ∈ subs) : s.id ≤ maxId subs :=
  (le_foldl_max subs 0).2 s h

theorem storePrefs_users (db : DB) (p : Pref) (h : db.prefs.any (fun q => q.user == p.user) = true) :
    (storePrefs db p).prefs.map (·.user) = db.prefs.map (·.user) := by
  unfold storePrefs
  rw [if_pos h]
  simp only [List.map_map]
  apply List.map_congr_left
  intro q _
  simp only [Function.comp]
  split
  · rename_i hq; exact (beq_iff_eq.1 hq).symm
  · rfl

theorem wf_apply (db : DB) (op : Op) (h : WF db) : WF (apply db op) := by
  obtain ⟨hs, hp⟩ := h
  cases op with
  | pref p =>
    refine ⟨by show ((storePrefs db p).subs.map (·.id)).Nodup; unfold storePrefs; split <;> exact hs, ?_⟩
    by_cases hany : db.prefs.any (fun q => q.user == p.user) = true
    · show ((storePrefs db p).prefs.map (·.user)).Nodup
      rw [storePrefs_users db p hany]; exact hp
    · show ((storePrefs db p).prefs.map (·.user)).Nodup
      unfold storePrefs
      rw [if_neg hany]
      simp only [List.map_append, List.map_cons, List.map_nil]
      rw [List.nodup_append]
      refine ⟨hp, by simp, ?_⟩
      intro a ha b hb
      simp only [List.mem_singleton] at hb
      subst hb
      intro heq
      apply hany
      obtain ⟨q, hq, rfl⟩ := List.mem_map.1 ha
      exact List.any_eq_true.2 ⟨q, hq, by simp [heq]⟩
  | sub u =>
    refine ⟨?_, hp⟩
    show ((storeSub db u).subs.map (·.id)).Nodup
    unfold storeSub
    simp only [List.map_append, List.map_cons, List.map_nil]
    rw [List.nodup_append]
    refine ⟨hs, by simp, ?_⟩
    intro a ha b hb
    simp only [List.mem_singleton] at hb
    subst hb
    obtain ⟨s, hs', rfl⟩ := List.mem_map.1 ha
    have := id_le_maxId db.subs s hs'
    omega
  | del i =>
    refine ⟨?_, hp⟩
    show ((deleteSub db i).subs.map (·.id)).Nodup
    unfold deleteSub
    exact hs.sublist (List.Sublist.map _ List.filter_sublist)

theorem wf_foldl (h : List Op) (db : DB) (hw : WF db) : WF (h.foldl apply db) := by
  induction h generalizing db with
  | nil => exact hw
  | cons op h ih => exact ih _ (wf_apply db op hw)

end OPM.WebPush
