import OPM.Model.Units
/-!
Helper lemmas for C21 (model `OPM.Units`).  Core Lean only.
-/
namespace OPM.Units

/-! ### rows, quantities, compatible names -/

theorem findRow_mem {T : UnitSys} {u : String} {r : UnitRow} (h : findRow T u = some r) : r ∈ T.rows :=
  List.mem_of_find?_eq_some h

theorem quantityOf_error {T : UnitSys} {u : String} {e : Err} (h : quantityOf T u = .error e) :
    e = .invalidUnit := by
  unfold quantityOf at h
  split at h
  · cases h
  · cases h; rfl

theorem quantityOf_ok {T : UnitSys} {u q : String} (h : quantityOf T u = .ok q) :
    ∃ r, findRow T u = some r ∧ r.quantity = q := by
  unfold quantityOf at h
  split at h
  · rename_i r hr
    cases h
    exact ⟨r, hr, rfl⟩
  · cases h

theorem WF_row {T : UnitSys} (hT : T.WF = true) {r : UnitRow} (hr : r ∈ T.rows) :
    bracketed r.quantity = false ∧ T.pintKeys.contains (pySlice r.quantity) = false ∧ 0 < r.scale := by
  unfold UnitSys.WF at hT
  have := (List.all_eq_true.mp hT) r hr
  simp only [Bool.and_eq_true, Bool.not_eq_true', decide_eq_true_eq] at this
  exact ⟨this.1.1, this.1.2, this.2⟩

/-- Under `WF`, `get_compatible_unit_names` answers for every unit that has a quantity. -/
theorem compatibleNames_ok {T : UnitSys} (hT : T.WF = true) {u q : String} (h : quantityOf T u = .ok q) :
    ∃ l, compatibleNames T (some u) = .ok l := by
  obtain ⟨r, hr, hq⟩ := quantityOf_ok h
  have ⟨hb, hp, _⟩ := WF_row hT (findRow_mem hr)
  simp only [compatibleNames]
  split
  · exact ⟨_, rfl⟩
  · rw [h]
    simp only
    rw [← hq, hb, hp]
    exact ⟨_, rfl⟩

/-! ### numeric operands of `compare_values` -/

/-- What `operands` comes to when both strings are decimals; independent of the operator. -/
def numOperands (T : UnitSys) (x y : Rat) (ua ub : Option String) : Except Err (Rat × Rat) :=
  match areComparable T ua ub with
  | .error e => .error e
  | .ok false => .error .incompatible
  | .ok true =>
    match isPint T ua ub with
    | .error e => .error e
    | .ok false => .ok (x, y)
    | .ok true =>
      match ua, ub with
      | some a, some b =>
        match pintUnit T a with
        | .error e => .error e
        | .ok pa =>
          match pintUnit T b with
          | .error e => .error e
          | .ok pb =>
            match convertP T y pb pa with
            | .error e => .error e
            | .ok y' => .ok (x, y')
      | _, _ => .error .unmodelled

theorem bothNumeric_num {va vb : String} {x y : Rat} (hx : parseDec va = .num x) (hy : parseDec vb = .num y) :
    bothNumeric va vb = .ok (x, y) := by
  simp only [bothNumeric, hx, hy]

theorem plainOperands_num {va vb : String} {x y : Rat} (hx : parseDec va = .num x) (hy : parseDec vb = .num y)
    (o : Bool) : plainOperands o va vb = .ok (.num x, .num y) := by
  cases o <;> simp only [plainOperands, bothNumeric_num hx hy, hx, hy] <;> rfl

theorem operands_num {T : UnitSys} {va vb : String} {x y : Rat} (ua ub : Option String)
    (hx : parseDec va = .num x) (hy : parseDec vb = .num y) (o : Bool) :
    operands T o va ua vb ub =
      match numOperands T x y ua ub with
      | .error e => .error e
      | .ok (a, b) => .ok (.num a, .num b) := by
  simp only [operands, numOperands, plainOperands_num hx hy, bothNumeric_num hx hy]
  repeat' split
  all_goals first | rfl | simp_all

/-! ### order facts on `Rat` -/

theorem affine_lt {s o x y : Rat} (hs : 0 < s) : x * s + o < y * s + o ↔ x < y := by
  rw [Rat.add_lt_add_right]
  exact Rat.mul_lt_mul_right hs

theorem affine_le {s o x y : Rat} (hs : 0 < s) : x * s + o ≤ y * s + o ↔ x ≤ y := by
  rw [← Rat.not_lt, ← Rat.not_lt, affine_lt hs]

theorem affine_eq {s o x y : Rat} (hs : 0 < s) : x * s + o = y * s + o ↔ x = y := by
  constructor
  · intro h
    apply Rat.le_antisymm
    · exact (affine_le hs).mp (by rw [h]; exact Rat.le_refl)
    · exact (affine_le hs).mp (by rw [h]; exact Rat.le_refl)
  · intro h; rw [h]

theorem cmpNum_affine (op : String) {s o : Rat} (x y : Rat) (hs : 0 < s) :
    cmpNum op (x * s + o) (y * s + o) = cmpNum op x y := by
  simp only [cmpNum, affine_lt hs, affine_le hs, affine_eq hs]

theorem div_mul_cancel' {a s : Rat} (hs : 0 < s) : a / s * s = a := by
  have : s ≠ 0 := fun h => by rw [h] at hs; exact Rat.lt_irrefl hs
  rw [Rat.div_def, Rat.mul_assoc, Rat.inv_mul_cancel _ this, Rat.mul_one]

example (a b : Rat) : a - b + b = a := by grind

end OPM.Units
