import OPM.Model.Units
/-!
Helper lemmas for C21 (model `OPM.Units`).  Core Lean only.
-/
namespace OPM.Units

/-! ### rows, quantities, compatible names -/

theorem findRow_mem {T : UnitSys} {u : String} {r : UnitRow} (h : findRow T u = some r) : r ∈ T.rows :=
  List.mem_of_find?_eq_some h

theorem quantityOf_error {T : UnitSys} {u : String} {e : Err} (h : quantityOf T u = .error e) :
    e = .invalidUnit := by
  unfold quantityOf at h
  split at h
  · cases h
  · cases h; rfl

theorem quantityOf_ok {T : UnitSys} {u q : String} (h : quantityOf T u = .ok q) :
    ∃ r, findRow T u = some r ∧ r.quantity = q := by
  unfold quantityOf at h
  split at h
  · rename_i r hr
    cases h
    exact ⟨r, hr, rfl⟩
  · cases h

theorem WF_row {T : UnitSys} (hT : T.WF = true) {r : UnitRow} (hr : r ∈ T.rows) :
    bracketed r.quantity = false ∧ T.pintKeys.contains (pySlice r.quantity) = false ∧ 0 < r.scale := by
  unfold UnitSys.WF at hT
  have := (List.all_eq_true.mp hT) r hr
  simp only [Bool.and_eq_true, Bool.not_eq_true', decide_eq_true_eq] at this
  exact ⟨this.1.1, this.1.2, this.2⟩

/-- Under `WF`, `get_compatible_unit_names` answers for every unit that has a quantity. -/
theorem compatibleNames_ok {T : UnitSys} (hT : T.WF = true) {u q : String} (h : quantityOf T u = .ok q) :
    ∃ l, compatibleNames T (some u) = .ok l := by
  obtain ⟨r, hr, hq⟩ := quantityOf_ok h
  have ⟨hb, hp, _⟩ := WF_row hT (findRow_mem hr)
  simp only [compatibleNames]
  split
  · exact ⟨_, rfl⟩
  · rw [h]
    simp only
    rw [← hq, hb, hp]
    exact ⟨_, rfl⟩

/-! ### numeric operands of `compare_values` -/

/-- What `operands` comes to when both strings are decimals; independent of the operator. -/
def numOperands (T : UnitSys) (x y : Rat) (ua ub : Option String) : Except Err (Rat × Rat) :=
  match areComparable T ua ub with
  | .error e => .error e
  | .ok false => .error .incompatible
  | .ok true =>
    match isPint T ua ub with
    | .error e => .error e
    | .ok false => .ok (x, y)
    | .ok true =>
      match ua, ub with
      | some a, some b =>
        match pintUnit T a with
        | .error e => .error e
        | .ok pa =>
          match pintUnit T b with
          | .error e => .error e
          | .ok pb =>
            match convertP T y pb pa with
            | .error e => .error e
            | .ok y' => .ok (x, y')
      | _, _ => .error .unmodelled

theorem bothNumeric_num {va vb : String} {x y : Rat} (hx : parseDec va = .num x) (hy : parseDec vb = .num y) :
    bothNumeric va vb = .ok (x, y) := by
  simp only [bothNumeric, hx, hy]

theorem plainOperands_num {va vb : String} {x y : Rat} (hx : parseDec va = .num x) (hy : parseDec vb = .num y)
    (o : Bool) : plainOperands o va vb = .ok (.num x, .num y) := by
  cases o <;> simp only [plainOperands, bothNumeric_num hx hy, hx, hy] <;> rfl

theorem operands_num {T : UnitSys} {va vb : String} {x y : Rat} (ua ub : Option String)
    (hx : parseDec va = .num x) (hy : parseDec vb = .num y) (o : Bool) :
    operands T o va ua vb ub =
      match numOperands T x y ua ub with
      | .error e => .error e
      | .ok (a, b) => .ok (.num a, .num b) := by
  simp only [operands, numOperands, plainOperands_num hx hy, bothNumeric_num hx hy]
  repeat' split
  all_goals first | rfl | simp_all

/-! ### order facts on `Rat` -/

theorem affine_lt {s o x y : Rat} (hs : 0 < s) : x * s + o < y * s + o ↔ x < y := by
  rw [Rat.add_lt_add_right]
  exact Rat.mul_lt_mul_right hs

theorem affine_le {s o x y : Rat} (hs : 0 < s) : x * s + o ≤ y * s + o ↔ x ≤ y := by
  rw [← Rat.not_lt, ← Rat.not_lt, affine_lt hs]

theorem affine_eq {s o x y : Rat} (hs : 0 < s) : x * s + o = y * s + o ↔ x = y := by
  constructor
  · intro h
    apply Rat.le_antisymm
    · exact (affine_le hs).mp (by rw [h]; exact Rat.le_refl)
    · exact (affine_le hs).mp (by rw [h]; exact Rat.le_refl)
  · intro h; rw [h]

theorem cmpNum_affine (op : String) {s o : Rat} (x y : Rat) (hs : 0 < s) :
    cmpNum op (x * s + o) (y * s + o) = cmpNum op x y := by
  simp only [cmpNum, affine_lt hs, affine_le hs, affine_eq hs]

theorem div_mul_cancel' {a s : Rat} (hs : 0 < s) : a / s * s = a := by
  have : s ≠ 0 := fun h => by rw [h] at hs; exact Rat.lt_irrefl hs
  rw [Rat.div_def, Rat.mul_assoc, Rat.inv_mul_cancel _ this, Rat.mul_one]

example (a b : Rat) : a - b + b = a := by grind

/-! ### convertibility -/

theorem convertP_ok_of_convOk {T : UnitSys} {s d : PintUnit} (v : Rat) (h : convOk T s d = true) :
    ∃ r, convertP T v s d = .ok r := by
  unfold convOk at h
  unfold convertP
  by_cases hc : s.canon = d.canon
  · simp [hc]
  · have hc' : (s.canon == d.canon) = false := by simpa using hc
    simp only [hc', Bool.false_or, Bool.and_eq_true, beq_iff_eq] at h
    obtain ⟨hd, hf⟩ := h
    simp only [hc, if_false, hd, ne_eq, not_true_eq_false]
    split at hf
    · rename_i ho
      simp only [ho]
      cases hl : lookupFactor T s.canon d.canon with
      | none => rw [hl] at hf; cases hf
      | some f => exact ⟨_, rfl⟩
    · rename_i ho
      have ho' : (s.offs.isNone && d.offs.isNone) = false := by
        cases hx : (s.offs.isNone && d.offs.isNone) with
        | false => rfl
        | true => exact absurd (by simpa using hx) ho
      simp only [ho', Bool.false_eq_true, if_false]
      cases hl : lookupFactor T s.ref d.ref with
      | none => rw [hl] at hf; cases hf
      | some f => exact ⟨_, rfl⟩

theorem findRow_name {T : UnitSys} {u : String} {r : UnitRow} (h : findRow T u = some r) : r.name = u := by
  have := List.find?_some h
  simpa using this

theorem Convertible_pair {T : UnitSys} (hC : T.Convertible = true) {ra rb : UnitRow}
    (ha : ra ∈ T.rows) (hb : rb ∈ T.rows) (hq : ra.quantity = rb.quantity) (hn : ra.name ≠ rb.name) :
    T.pintKeys.contains ra.quantity = true ∧ ∃ pa pb, ra.pint = some pa ∧ rb.pint = some pb ∧ convOk T pa pb = true := by
  unfold UnitSys.Convertible at hC
  have h1 := (List.all_eq_true.mp ((List.all_eq_true.mp hC) ra ha)) rb hb
  have hq' : (ra.quantity == rb.quantity) = true := by simp [hq]
  have hn' : (ra.name == rb.name) = false := by simpa using hn
  simp only [hq', Bool.not_true, Bool.false_or, hn', Bool.and_eq_true] at h1
  obtain ⟨hk, hm⟩ := h1
  refine ⟨hk, ?_⟩
  cases hpa : ra.pint with
  | none => rw [hpa] at hm; cases hm
  | some pa =>
    cases hpb : rb.pint with
    | none => rw [hpa, hpb] at hm; cases hm
    | some pb => rw [hpa, hpb] at hm; exact ⟨pa, pb, rfl, rfl, hm⟩

/-- two different comparable unit names are rows of one quantity -/
theorem areComparable_true_rows {T : UnitSys} {a b : String} (hab : a ≠ b)
    (h : areComparable T (some a) (some b) = .ok true) :
    ∃ ra rb, findRow T a = some ra ∧ findRow T b = some rb ∧ ra.quantity = rb.quantity := by
  unfold areComparable at h
  have hab' : ¬ (some a = some b) := fun e => hab (Option.some.inj e)
  simp only [hab', if_false] at h
  cases hqa : quantityOf T a with
  | error e => rw [hqa] at h; cases h
  | ok qa =>
    cases hqb : quantityOf T b with
    | error e => rw [hqa, hqb] at h; cases h
    | ok qb =>
      rw [hqa, hqb] at h
      simp only at h
      obtain ⟨ra, hra, hqa'⟩ := quantityOf_ok hqa
      obtain ⟨rb, hrb, hqb'⟩ := quantityOf_ok hqb
      refine ⟨ra, rb, hra, hrb, ?_⟩
      by_cases hq : qa = qb
      · rw [hqa', hqb', hq]
      · have : (qa != qb) = true := by simpa using hq
        simp [this] at h

theorem cmpNum_error {op : String} {x y : Rat} {e : Err} (h : cmpNum op x y = .error e) : e = .invalidOperator := by
  unfold cmpNum at h
  repeat' split at h
  all_goals first | (cases h; rfl) | cases h

theorem applyOp_error {op : String} {a b : Val} {e : Err} (h : applyOp op a b = .error e) : e.isValueError = true := by
  cases a <;> cases b <;> simp only [applyOp] at h
  · rw [cmpNum_error h]; rfl
  · cases h; rfl
  · cases h; rfl
  · unfold cmpStr at h
    repeat' split at h
    all_goals first | (cases h; rfl) | cases h

theorem bothNumeric_error {va vb : String} {e : Err} (h : bothNumeric va vb = .error e) : e.isValueError = true := by
  unfold bothNumeric at h
  repeat' split at h
  all_goals first | (cases h; rfl) | cases h

theorem plainOperands_error {o : Bool} {va vb : String} {e : Err} (h : plainOperands o va vb = .error e) :
    e.isValueError = true := by
  unfold plainOperands at h
  split at h
  · split at h
    · rename_i e' he
      cases h
      exact bothNumeric_error he
    · cases h
  · repeat' split at h
    all_goals first | (cases h; rfl) | cases h

/-- Units that may be compared never make `compare_values` fail for a reason that has to do with units,
    provided all units of one quantity are convertible (`T.Convertible`). -/
theorem compareValues_comparable_error {T : UnitSys} (hC : T.Convertible = true) {op va vb : String}
    {ua ub : Option String} {e : Err} (hc : areComparable T ua ub = .ok true)
    (h : compareValues T op va ua vb ub = .error e) : e.isValueError = true := by
  unfold compareValues at h
  cases ho : operands T (isOrderOp op) va ua vb ub with
  | ok p =>
    rw [ho] at h
    obtain ⟨a, b⟩ := p
    exact applyOp_error h
  | error e' =>
    rw [ho] at h
    cases h
    unfold operands at ho
    simp only [hc] at ho
    -- is_pint
    cases ua with
    | none =>
      simp only [isPint] at ho
      exact plainOperands_error ho
    | some a =>
      by_cases hab : some a = ub
      · simp only [isPint, hab, if_true] at ho
        exact plainOperands_error ho
      · cases ub with
        | none => simp [areComparable] at hc
        | some b =>
          have hab' : a ≠ b := fun e => hab (by rw [e])
          obtain ⟨ra, rb, hra, hrb, hq⟩ := areComparable_true_rows hab' hc
          have hna : ra.name ≠ rb.name := by rw [findRow_name hra, findRow_name hrb]; exact hab'
          obtain ⟨hk, pa, pb, hpa, hpb, _⟩ := Convertible_pair hC (findRow_mem hra) (findRow_mem hrb) hq hna
          obtain ⟨_, pb', pa', hpb', hpa', hcv⟩ :=
            Convertible_pair hC (findRow_mem hrb) (findRow_mem hra) hq.symm (fun e => hna e.symm)
          rw [hpa] at hpa'; cases hpa'
          rw [hpb] at hpb'; cases hpb'
          simp only [isPint, hab, if_false, quantityOf, hra, hk, if_true] at ho
          cases hb : bothNumeric va vb with
          | error e2 => rw [hb] at ho; cases ho; exact bothNumeric_error hb
          | ok xy =>
            obtain ⟨x, y⟩ := xy
            obtain ⟨y', hy'⟩ := convertP_ok_of_convOk y hcv
            simp only [hb, pintUnit, hra, hrb, hpa, hpb, hy'] at ho
            cases ho

/-- With convertible units, numeric operands of comparable units always reach the comparison. -/
theorem numOperands_ok {T : UnitSys} (hC : T.Convertible = true) (x y : Rat) {ua ub : Option String}
    (hc : areComparable T ua ub = .ok true) : ∃ p, numOperands T x y ua ub = .ok p := by
  unfold numOperands
  simp only [hc]
  cases ua with
  | none => simp only [isPint]; exact ⟨_, rfl⟩
  | some a =>
    by_cases hab : some a = ub
    · simp only [isPint, hab, if_true]; exact ⟨_, rfl⟩
    · cases ub with
      | none => simp [areComparable] at hc
      | some b =>
        have hab' : a ≠ b := fun e => hab (by rw [e])
        obtain ⟨ra, rb, hra, hrb, hq⟩ := areComparable_true_rows hab' hc
        have hna : ra.name ≠ rb.name := by rw [findRow_name hra, findRow_name hrb]; exact hab'
        obtain ⟨hk, pa, pb, hpa, hpb, _⟩ := Convertible_pair hC (findRow_mem hra) (findRow_mem hrb) hq hna
        obtain ⟨_, pb', pa', hpb', hpa', hcv⟩ :=
          Convertible_pair hC (findRow_mem hrb) (findRow_mem hra) hq.symm (fun e => hna e.symm)
        rw [hpa] at hpa'; cases hpa'
        rw [hpb] at hpb'; cases hpb'
        obtain ⟨y', hy'⟩ := convertP_ok_of_convOk y hcv
        simp only [isPint, hab, if_false, quantityOf, hra, hk, if_true, pintUnit, hrb, hpa, hpb, hy']
        exact ⟨_, rfl⟩

end OPM.Units
