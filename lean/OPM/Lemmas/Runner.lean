import OPM.Model.Runner
import OPM.Model.RunnerCalm
/-!
Invariants of the runner transition system (M12), each proved for one step (`next s e = some s'`) and lifted
to traces in `OPM.Properties.C27`.
-/
namespace OPM.Runner
open List

/-! ### counting helpers -/

theorem count_erase_add (l : List Nat) (a x : Nat) (h : a ∈ l) :
    count x (l.erase a) + (if a = x then 1 else 0) = count x l := by
  by_cases hx : a = x
  · subst hx
    have := List.count_pos_iff.mpr h
    simp [List.count_erase_self]; omega
  · simp [List.count_erase_of_ne (Ne.symm hx), hx]

theorem count_single (a x : Nat) : count x [a] = if a = x then 1 else 0 := by
  simp [List.count_singleton]

/-- In how many of the ten places message `id` is. -/
def total (s : State) (id : Nat) : Nat :=
  s.fresh.count id + s.inflight.count id + s.pending.count id + s.waiting.count id + s.stuck.count id +
  s.batch.count id + s.buffer.count id + s.delivered.count id + s.cancelled.count id + s.rejected.count id

/-- Conservation: every produced message (ids 1 … n) is in exactly one place, nothing else is anywhere. -/
def Conserved (s : State) : Prop :=
  ∀ id, total s id = if 1 ≤ id ∧ id ≤ s.kinds.length then 1 else 0

theorem conserved_init : Conserved init := by
  intro id
  simp [total, init]
  intro h; omega

/-- id created by the step. -/
def newId : Ev → Option Nat
  | .produce i _ => some i
  | _ => none

theorem total_step (s s' : State) (e : Ev) (h : next s e = some s') (id : Nat) :
    total s' id = total s id + (if newId e = some id then 1 else 0) ∧
    s'.kinds.length = s.kinds.length + (if newId e = none then 0 else 1) ∧
    (∀ i, newId e = some i → i = s.kinds.length + 1) := by
  cases e with
  | produce i k =>
    simp only [next] at h
    split at h
    · rename_i hi; cases h; subst hi
      by_cases hid : s.kinds.length + 1 = id
      · subst hid; simp [total, newId, newId, count_append, count_single]; omega
      · simp [total, newId, newId, count_append, count_single, hid]
    · cases h
  | send i q =>
    simp only [next] at h
    split at h
    · rename_i hg; cases h
      have := count_erase_add s.fresh i id hg.1
      simp [total, newId, count_append, count_single]; omega
    · cases h
  | buf i q =>
    simp only [next] at h
    split at h
    · rename_i hg; cases h
      have := count_erase_add s.fresh i id hg.1
      simp [total, newId, count_append, count_single]; omega
    · split at h
      · rename_i hg; cases h
        have := count_erase_add s.pending i id hg.1
        simp [total, newId, count_append, count_single]; omega
      · split at h
        · rename_i hg; cases h
          have := count_erase_add s.waiting i id hg.1
          simp [total, newId, count_append, count_single]; omega
        · cases h
  | bufTask i q =>
    simp only [next] at h
    split at h
    · rename_i hg; cases h
      have := count_erase_add s.fresh i id hg.1
      simp [total, newId, count_append, count_single]; omega
    · cases h
  | reject i =>
    simp only [next] at h
    split at h
    · rename_i hg; cases h
      have := count_erase_add s.fresh i id hg.1
      simp [total, newId, count_append, count_single]; omega
    · cases h
  | ok i =>
    simp only [next] at h
    split at h
    · rename_i hd rest heq
      split at h
      · rename_i hh; cases h; subst hh
        simp [total, newId, heq, count_append, count_single, List.count_cons]; omega
      · cases h
    · cases h
  | fail i =>
    simp only [next] at h
    split at h
    · rename_i hd rest heq
      split at h
      · rename_i hh; cases h; subst hh
        simp [total, newId, heq, count_append, count_single, List.count_cons]; omega
      · cases h
    · cases h
  | cancel i =>
    simp only [next] at h
    split at h
    · cases h
    · split at h
      · rename_i hg; cases h
        have := count_erase_add s.inflight i id hg
        simp [total, newId, count_append, count_single]; omega
      · split at h
        · rename_i hg; cases h
          have := count_erase_add s.pending i id hg
          simp [total, newId, count_append, count_single]; omega
        · cases h
  | setState t =>
    cases t <;> simp only [next] at h <;> (try (cases h)) <;>
      (repeat' split at h) <;> (try (cases h)) <;> simp [total, newId]
  | take n =>
    simp only [next] at h
    split at h
    · rename_i hg; cases h
      simp [total, newId, hg.2.2] <;> omega
    · cases h
  | postBatch sent qs =>
    cases sent <;> simp only [next] at h <;> split at h <;> (try (cases h)) <;>
      simp [total, newId, count_append] <;> omega
  | connect b =>
    simp only [next] at h
    split at h <;> (try (cases h)) <;> simp [total, newId]
  | disconnect => simp only [next] at h; cases h; simp [total, newId]
  | wait i self =>
    cases self <;> simp only [next] at h <;> split at h <;> (try (cases h)) <;> (try simp [total, newId])
    rename_i hg
    have := count_erase_add s.pending i id hg.1
    simp [total, newId, count_append, count_single]; omega
  | waitOther => simp only [next] at h; split at h <;> (try (cases h)) <;> simp [total, newId]
  | taskSet k => simp only [next] at h; cases h; simp [total, newId]
  | taskClear self =>
    cases self <;> simp only [next] at h
    · split at h <;> cases h <;> simp [total, newId]
    · split at h <;> (try (cases h))
      simp [total, newId, count_append]; omega

theorem conserved_step (s s' : State) (e : Ev) (h : next s e = some s') (hc : Conserved s) : Conserved s' := by
  intro id
  obtain ⟨h1, h2, h3⟩ := total_step s s' e h id
  have hc' := hc id
  rw [h1, h2, hc']
  cases hn : newId e with
  | none => simp
  | some i =>
    have := h3 i hn
    by_cases hid : i = id
    · have h4 : ¬ (1 ≤ id ∧ id ≤ s.kinds.length) := by omega
      have h5 : 1 ≤ id ∧ id ≤ s.kinds.length + 1 := by omega
      subst hid; simp [h5]; omega
    · by_cases hr : 1 ≤ id ∧ id ≤ s.kinds.length
      · have h5 : 1 ≤ id ∧ id ≤ s.kinds.length + 1 := by omega
        simp [hid, hr, h5]
      · have h5 : ¬ (1 ≤ id ∧ id ≤ s.kinds.length + 1) := by omega
        simp [hid, hr, h5]

/-! ### a re-send only after a failed attempt -/

/-- Attempts of a message never exceed its failed attempts by more than the one that is in flight / answered /
    cancelled. -/
def ResendOK (s : State) : Prop :=
  ∀ id, s.sends.count id ≤ s.fails.count id + (s.inflight.count id + s.delivered.count id + s.cancelled.count id)

theorem resend_init : ResendOK init := by intro id; simp [init]

theorem resend_step (s s' : State) (e : Ev) (h : next s e = some s') (hr : ResendOK s) : ResendOK s' := by
  intro id
  have hr' := hr id
  cases e with
  | produce i k => simp only [next] at h; split at h <;> cases h; simpa using hr'
  | send i q =>
    simp only [next] at h; split at h <;> cases h
    simp [count_append, count_single]; omega
  | buf i q =>
    simp only [next] at h
    (repeat' split at h) <;> (try (cases h)) <;> simpa using hr'
  | bufTask i q => simp only [next] at h; split at h <;> cases h; simpa using hr'
  | reject i => simp only [next] at h; split at h <;> cases h; simpa using hr'
  | ok i =>
    simp only [next] at h
    split at h
    · rename_i hd rest heq
      split at h <;> cases h
      rename_i hh; subst hh
      simp [heq, count_append, count_single, List.count_cons] at hr' ⊢; omega
    · cases h
  | fail i =>
    simp only [next] at h
    split at h
    · rename_i hd rest heq
      split at h <;> cases h
      rename_i hh; subst hh
      simp [heq, count_append, count_single, List.count_cons] at hr' ⊢; omega
    · cases h
  | cancel i =>
    simp only [next] at h
    split at h
    · cases h
    · split at h
      · rename_i hg; cases h
        have := count_erase_add s.inflight i id hg
        simp [count_append, count_single]; omega
      · split at h
        · cases h; simp [count_append, count_single]; omega
        · cases h
  | setState t =>
    cases t <;> simp only [next] at h <;> (try (cases h)) <;>
      (repeat' split at h) <;> (try (cases h)) <;> simpa using hr'
  | take n => simp only [next] at h; split at h <;> cases h; simpa using hr'
  | postBatch sent qs =>
    cases sent <;> simp only [next] at h <;> split at h <;> (try (cases h))
    · simpa using hr'
    · simp [count_append]; omega
  | connect b => simp only [next] at h; split at h <;> cases h; simpa using hr'
  | disconnect => simp only [next] at h; cases h; simpa using hr'
  | wait i self =>
    cases self <;> simp only [next] at h <;> split at h <;> (try (cases h)) <;> simpa using hr'
  | waitOther => simp only [next] at h; split at h <;> cases h; simpa using hr'
  | taskSet k => simp only [next] at h; cases h; simpa using hr'
  | taskClear self =>
    cases self <;> simp only [next] at h
    · split at h <;> cases h <;> simpa using hr'
    · split at h <;> cases h; simpa using hr'

/-! ### nothing is buffered while the runner reports a steady state -/

def Idle (s : State) : Prop :=
  (s.st = .reconnected ∨ s.st = .connected ∨ s.st = .started) → s.buffer = [] ∧ s.batch = []

theorem idle_init : Idle init := by intro _; simp [init]

theorem idle_step (s s' : State) (e : Ev) (h : next s e = some s') (hi : Idle s) (hz : s'.orphans = 0) :
    Idle s' := by
  unfold Idle at *
  cases e with
  | produce i k => simp only [next] at h; split at h <;> cases h; simpa using hi
  | send i q => simp only [next] at h; split at h <;> cases h; simpa using hi
  | buf i q =>
    simp only [next] at h
    (repeat' split at h) <;> (try (cases h)) <;> rename_i hg <;> intro hs <;> simp at hs <;>
      (try simp [mustBuffer] at hg) <;> rcases hs with hs | hs | hs <;> simp [hs] at hg
  | bufTask i q =>
    simp only [next] at h; split at h <;> cases h
    rename_i hg; intro hs; simp at hs
    simp at hz
    simp [mustBuffer, hz] at hg; rcases hs with hs | hs | hs <;> simp [hs] at hg
  | reject i => simp only [next] at h; split at h <;> cases h; simpa using hi
  | ok i =>
    simp only [next] at h
    split at h
    · split at h <;> cases h; simpa using hi
    · cases h
  | fail i =>
    simp only [next] at h
    split at h
    · split at h <;> cases h; simpa using hi
    · cases h
  | cancel i =>
    simp only [next] at h
    (repeat' split at h) <;> (try (cases h)) <;> simpa using hi
  | setState t =>
    cases t <;> simp only [next] at h <;> (try (cases h)) <;>
      (repeat' split at h) <;> (try (cases h)) <;> (try (rename_i hg)) <;> simp_all
  | take n =>
    simp only [next] at h; split at h <;> cases h
    rename_i hg; intro hs
    have := hi hs
    obtain ⟨h1, h2, _⟩ := hg
    simp [this.1] at h1
    omega
  | postBatch sent qs =>
    cases sent <;> simp only [next] at h <;> split at h <;> (try (cases h))
    · rename_i hg; intro hs; simp at hs
      have hb := hg.2.2
      simp [mustBuffer] at hb; rcases hs with hs | hs | hs <;> simp [hs] at hb
    · intro hs; simp at hs
      have := hi hs
      simp [this.1]
  | connect b => simp only [next] at h; split at h <;> cases h; simpa using hi
  | disconnect => simp only [next] at h; cases h; simpa using hi
  | wait i self =>
    cases self <;> simp only [next] at h <;> split at h <;> (try (cases h)) <;> simpa using hi
  | waitOther => simp only [next] at h; split at h <;> cases h; simpa using hi
  | taskSet k => simp only [next] at h; cases h; simpa using hi
  | taskClear self =>
    cases self <;> simp only [next] at h
    · split at h <;> cases h <;> simpa using hi
    · split at h <;> cases h; simpa using hi

/-! ### sequence numbers -/

def SeqWF (s : State) : Prop :=
  (∀ p ∈ s.seqs, p.2 ≤ s.ctr) ∧ (s.seqs.map Prod.snd).Nodup

theorem seqWF_init : SeqWF init := by simp [SeqWF, init]

theorem seqs_step (s s' : State) (e : Ev) (h : next s e = some s') :
    (s'.seqs = s.seqs ∧ s'.ctr = s.ctr) ∨ ∃ id, s'.seqs = seqsAfter s id ∧ s'.ctr = ctrAfter s id := by
  cases e with
  | produce i k => simp only [next] at h; split at h <;> cases h; simp
  | send i q => simp only [next] at h; split at h <;> cases h; exact Or.inr ⟨i, rfl, rfl⟩
  | buf i q =>
    simp only [next] at h
    (repeat' split at h) <;> (try (cases h)) <;> exact Or.inr ⟨i, rfl, rfl⟩
  | bufTask i q => simp only [next] at h; split at h <;> cases h; exact Or.inr ⟨i, rfl, rfl⟩
  | reject i => simp only [next] at h; split at h <;> cases h; simp
  | ok i =>
    simp only [next] at h
    split at h
    · split at h <;> cases h; simp
    · cases h
  | fail i =>
    simp only [next] at h
    split at h
    · split at h <;> cases h; simp
    · cases h
  | cancel i => simp only [next] at h; (repeat' split at h) <;> (try (cases h)) <;> simp
  | setState t =>
    cases t <;> simp only [next] at h <;> (try (cases h)) <;>
      (repeat' split at h) <;> (try (cases h)) <;> simp
  | take n => simp only [next] at h; split at h <;> cases h; simp
  | postBatch sent qs =>
    cases sent <;> simp only [next] at h <;> split at h <;> (try (cases h)) <;> simp
  | connect b => simp only [next] at h; split at h <;> cases h; simp
  | disconnect => simp only [next] at h; cases h; simp
  | wait i self =>
    cases self <;> simp only [next] at h <;> split at h <;> (try (cases h)) <;> simp
  | waitOther => simp only [next] at h; split at h <;> cases h; simp
  | taskSet k => simp only [next] at h; cases h; simp
  | taskClear self =>
    cases self <;> simp only [next] at h
    · split at h <;> cases h <;> simp
    · split at h <;> cases h; simp

theorem seqWF_after (s : State) (hw : SeqWF s) (id : Nat) :
    (∀ p ∈ seqsAfter s id, p.2 ≤ ctrAfter s id) ∧ ((seqsAfter s id).map Prod.snd).Nodup := by
  unfold seqsAfter ctrAfter
  cases hq : seqOf s id with
  | some q => exact hw
  | none =>
    simp only
    refine ⟨?_, ?_⟩
    · intro p hp
      simp at hp
      rcases hp with hp | hp
      · subst hp; simp
      · have := hw.1 p hp; omega
    · simp only [List.map_cons, List.nodup_cons]
      refine ⟨?_, hw.2⟩
      intro hm
      simp at hm
      obtain ⟨a, ha⟩ := hm
      have := hw.1 (a, s.ctr + 1) ha
      simp at this
      omega

theorem seqWF_step (s s' : State) (e : Ev) (h : next s e = some s') (hw : SeqWF s) : SeqWF s' := by
  rcases seqs_step s s' e h with ⟨h1, h2⟩ | ⟨id, h1, h2⟩
  · unfold SeqWF; rw [h1, h2]; exact hw
  · unfold SeqWF; rw [h1, h2]; exact seqWF_after s hw id

/-- A number, once assigned, is kept (also across re-sends). -/
theorem seqsAfter_stable (s : State) (id x q : Nat) (h : seqOf s x = some q) :
    (seqsAfter s id).lookup x = some q := by
  unfold seqsAfter
  cases hq : seqOf s id with
  | some _ => exact h
  | none =>
    simp only [List.lookup_cons]
    by_cases hx : x = id
    · subst hx; rw [hq] at h; cases h
    · have : (x == id) = false := by simpa using hx
      rw [this]; exact h

theorem seqOf_stable (s s' : State) (e : Ev) (h : next s e = some s') (x q : Nat)
    (hx : seqOf s x = some q) : seqOf s' x = some q := by
  rcases seqs_step s s' e h with ⟨h1, _⟩ | ⟨id, h1, _⟩
  · unfold seqOf at *; rw [h1]; exact hx
  · unfold seqOf at *; rw [h1]; exact seqsAfter_stable s id x q hx

/-- After `assign_sequence_number` the message carries `seqFor`. -/
theorem seqsAfter_self (s : State) (id : Nat) : (seqsAfter s id).lookup id = some (seqFor s id) := by
  unfold seqsAfter seqFor
  cases hq : seqOf s id with
  | some q => exact hq
  | none => simp [List.lookup_cons]

theorem lookup_mem (l : List (Nat × Nat)) (a q : Nat) (h : l.lookup a = some q) : (a, q) ∈ l := by
  obtain ⟨l1, l2, hl, _⟩ := List.lookup_eq_some_iff.mp h
  rw [hl]; simp

theorem snd_nodup_inj (l : List (Nat × Nat)) (hn : (l.map Prod.snd).Nodup) (a b q : Nat)
    (ha : (a, q) ∈ l) (hb : (b, q) ∈ l) : a = b := by
  induction l with
  | nil => cases ha
  | cons p t ih =>
    simp only [List.map_cons, List.nodup_cons] at hn
    simp only [List.mem_cons] at ha hb
    rcases ha with ha | ha <;> rcases hb with hb | hb
    · rw [← ha] at hb; exact (Prod.mk.inj hb).1.symm ▸ rfl
    · exfalso; apply hn.1; rw [← ha]; exact List.mem_map.mpr ⟨(b, q), hb, rfl⟩
    · exfalso; apply hn.1; rw [← hb]; exact List.mem_map.mpr ⟨(a, q), ha, rfl⟩
    · exact ih hn.2 ha hb

/-- Two messages never carry the same sequence number. -/
theorem seq_unique (s : State) (hw : SeqWF s) (a b q : Nat)
    (ha : seqOf s a = some q) (hb : seqOf s b = some q) : a = b :=
  snd_nodup_inj s.seqs hw.2 a b q (lookup_mem _ _ _ ha) (lookup_mem _ _ _ hb)

/-- The number an accepted `send` / `buf` / `bufTask` step carries is the message's number afterwards. -/
theorem step_carries_seq (s s' : State) (e : Ev) (h : next s e = some s') (id q : Nat)
    (he : e = .send id q ∨ e = .buf id q ∨ e = .bufTask id q) : seqOf s' id = some q := by
  rcases he with he | he | he <;> subst he <;> simp only [next] at h
  · split at h <;> cases h
    rename_i hg; unfold seqOf; simp only; rw [hg.2.2]; exact seqsAfter_self s id
  · (repeat' split at h) <;> (try (cases h)) <;> rename_i hg <;> unfold seqOf <;> simp only <;>
      rw [hg.2.2] <;> exact seqsAfter_self s id
  · split at h <;> cases h
    rename_i hg; unfold seqOf; simp only; rw [hg.2.2]; exact seqsAfter_self s id

/-! ### order of buffered run data and the stop notification -/

/-- `d` occurs in `l` and `t` does not occur before the first `d`. -/
def before (d t : Nat) : List Nat → Bool
  | [] => false
  | h :: l => if h = d then true else if h = t then false else before d t l

theorem before_append_right (d t : Nat) (l r : List Nat) (h : before d t l = true) :
    before d t (l ++ r) = true := by
  induction l with
  | nil => simp [before] at h
  | cons x l ih =>
    simp only [List.cons_append, before] at h ⊢
    split
    · rfl
    · split
      · simp_all
      · simp_all

theorem before_insert (d t x : Nat) (l1 l2 : List Nat) (h : before d t (l1 ++ l2) = true) (hx : x ≠ t) :
    before d t (l1 ++ x :: l2) = true := by
  induction l1 with
  | nil =>
    simp only [List.nil_append, before] at h ⊢
    split
    · rfl
    · simp [hx, h]
  | cons y l1 ih =>
    simp only [List.cons_append, before] at h ⊢
    split
    · rfl
    · split
      · simp_all
      · simp_all

theorem before_tail (d t x : Nat) (l : List Nat) (h : before d t (x :: l) = true) (hx : x ≠ d) :
    before d t l = true := by
  simp only [before, hx, if_false] at h
  split at h
  · cases h
  · exact h

theorem before_erase (d t x : Nat) (l : List Nat) (h : before d t l = true) (hx : x ≠ d) :
    before d t (l.erase x) = true := by
  induction l with
  | nil => simp [before] at h
  | cons y l ih =>
    by_cases hy : y = x
    · subst hy
      simp only [List.erase_cons_head]
      exact before_tail d t y l h hx
    · have : (y == x) = false := by simpa using hy
      rw [List.erase_cons_tail (by simpa using hy)]
      simp only [before] at h ⊢
      split
      · rfl
      · split
        · simp_all
        · simp_all

theorem before_of_mem (d t : Nat) (l r : List Nat) (hd : d ∈ l) (ht : t ∉ l) : before d t (l ++ r) = true := by
  induction l with
  | nil => cases hd
  | cons y l ih =>
    simp only [List.cons_append, before]
    split
    · rfl
    · rename_i hyd
      simp only [List.mem_cons, not_or] at ht
      have hyt : ¬ y = t := fun e => ht.1 e.symm
      simp only [hyt, if_false]
      apply ih
      · rcases List.mem_cons.mp hd with e | e
        · exact absurd e.symm hyd
        · exact e
      · exact ht.2

theorem before_head_self (d t : Nat) (l : List Nat) (h : before d t (t :: l) = true) : t = d := by
  simp only [before] at h
  split at h
  · assumption
  · simp at h

theorem before_mem (d t : Nat) (l : List Nat) (h : before d t l = true) : d ∈ l := by
  induction l with
  | nil => simp [before] at h
  | cons y l ih =>
    simp only [before] at h
    split at h
    · rename_i e; simp [e]
    · split at h
      · cases h
      · simp [ih h]

theorem before_remove_mid (d t x : Nat) (a r : List Nat) (h : before d t (a ++ x :: r) = true) (hx : x ≠ d) :
    before d t (a ++ r) = true := by
  induction a with
  | nil => exact before_tail d t x r h hx
  | cons y a ih =>
    simp only [List.cons_append, before] at h ⊢
    split
    · rfl
    · split
      · simp_all
      · simp_all

/-- If `d` is not in the prefix, `t` is reached first. -/
theorem before_not_in_prefix (d t : Nat) (a r : List Nat) (hd : d ∉ a) (h : before d t (a ++ t :: r) = true) :
    t = d := by
  induction a with
  | nil => exact before_head_self d t r h
  | cons y a ih =>
    simp only [List.mem_cons, not_or] at hd
    simp only [List.cons_append, before] at h
    have hyd : ¬ y = d := fun e => hd.1 e.symm
    simp only [hyd, if_false] at h
    split at h
    · cases h
    · exact ih hd.2 h

/-- The order in the whole line is the order in the delivery log once `t` is in the log. -/
theorem before_prefix (d t : Nat) (a r : List Nat) (h : before d t (a ++ r) = true) (ht : t ∈ a) :
    before d t a = true := by
  induction a with
  | nil => cases ht
  | cons y a ih =>
    simp only [List.cons_append, before] at h ⊢
    split
    · rfl
    · rename_i hyd
      split
      · rename_i hyt; subst hyt; simp [hyd] at h
      · rename_i hyt
        simp only [hyd, hyt, if_false] at h
        apply ih h
        rcases List.mem_cons.mp ht with e | e
        · exact absurd e.symm hyt
        · exact e

theorem before_skip (d t : Nat) (c l : List Nat) (hd : d ∉ c) (ht : t ∉ c) :
    before d t (c ++ l) = before d t l := by
  induction c with
  | nil => rfl
  | cons y c ih =>
    simp only [List.mem_cons, not_or] at hd ht
    have h1 : ¬ y = d := fun e => hd.1 e.symm
    have h2 : ¬ y = t := fun e => ht.1 e.symm
    simp only [List.cons_append, before, h1, h2, if_false]
    exact ih hd.2 ht.2

theorem before_mem_left (d t : Nat) (c l : List Nat) (hd : d ∈ c) (ht : t ∉ c) :
    before d t (c ++ l) = true := before_of_mem d t c l hd ht

/-- moving a block `b` behind a block `c` that does not contain `t` keeps "d before t" -/
theorem before_swap (d t : Nat) (x b c : List Nat) (h : before d t (x ++ (b ++ c)) = true) (ht : t ∉ c) :
    before d t (x ++ (c ++ b)) = true := by
  induction x with
  | nil =>
    simp only [List.nil_append] at h ⊢
    by_cases hdc : d ∈ c
    · exact before_mem_left d t c b hdc ht
    · rw [before_skip d t c b hdc ht]
      -- d ∉ c: the first d of b ++ c is in b (or nowhere)
      have hm := before_mem d t _ h
      have hdb : d ∈ b := by
        rcases List.mem_append.mp hm with e | e
        · exact e
        · exact absurd e hdc
      clear hm
      induction b with
      | nil => cases hdb
      | cons y b ih =>
        simp only [List.cons_append, before] at h ⊢
        split
        · rfl
        · rename_i hyd
          split
          · rename_i hyt; subst hyt; simp [hyd] at h
          · rename_i hyt
            simp only [hyd, hyt, if_false] at h
            apply ih h
            rcases List.mem_cons.mp hdb with e | e
            · exact absurd e.symm hyd
            · exact e
  | cons y x ih =>
    simp only [List.cons_append, before] at h ⊢
    split
    · rfl
    · split
      · simp_all
      · simp_all
/-- What is queued towards the aggregator, in the order it will be sent / answered. -/
def queue (s : State) : List Nat := s.inflight ++ s.batch ++ s.buffer

/-- Everything that was or will be answered, in order: the delivery log followed by the queue. -/
def line (s : State) : List Nat := s.delivered ++ queue s

def OrdWF (s : State) : Prop :=
  (∀ d ∈ s.everBuf, d ∈ line s) ∧
  (∀ p ∈ s.owed, p.1 ∈ s.everBuf ∧ p.1 ≠ p.2 ∧ p.2 ∉ s.fresh ∧ p.2 ≤ s.kinds.length ∧
      before p.1 p.2 (line s) = true ∧ isStop s p.2 = true) ∧
  s.orderViol = false ∧
  (s.batch ≠ [] → ∀ p ∈ s.owed, p.2 ∉ s.buffer)

theorem ordWF_init : OrdWF init := by simp [OrdWF, init]

theorem count_zero_not_mem (l : List Nat) (a : Nat) (h : count a l = 0) : a ∉ l := by
  intro hm
  have := List.count_pos_iff.mpr hm
  omega

theorem conserved_fresh (s : State) (hc : Conserved s) (id : Nat) (h : id ∈ s.fresh) :
    count id s.fresh = 1 ∧ id ∉ s.inflight ∧ id ∉ s.batch ∧ id ∉ s.buffer ∧ id ∉ s.delivered ∧
      1 ≤ id ∧ id ≤ s.kinds.length := by
  have hp := List.count_pos_iff.mpr h
  have ht := hc id
  unfold total at ht
  by_cases hr : 1 ≤ id ∧ id ≤ s.kinds.length
  · simp only [hr, and_self, if_true] at ht
    refine ⟨by omega, ?_, ?_, ?_, ?_, hr.1, hr.2⟩ <;> apply count_zero_not_mem <;> omega
  · simp only [hr, if_false] at ht
    omega

theorem not_mem_erase_of_count_one (l : List Nat) (a : Nat) (h : count a l = 1) : a ∉ l.erase a := by
  apply count_zero_not_mem
  rw [List.count_erase_self]; omega

theorem owedFor_mem (s : State) (id : Nat) (p : Nat × Nat) (hp : p ∈ owedFor s id) :
    p.2 = id ∧ p.1 ∈ s.everBuf ∧ p.1 ∉ s.delivered ∧ p.1 ≠ id := by
  unfold owedFor at hp
  split at hp
  · rename_i r hk
    simp only [List.mem_map, List.mem_filter] at hp
    obtain ⟨d, ⟨hd, hf⟩, rfl⟩ := hp
    simp only [Bool.and_eq_true, Bool.not_eq_true', isData, decide_eq_true_eq] at hf
    refine ⟨rfl, hd, ?_, ?_⟩
    · intro hm
      have : s.delivered.contains d = true := by simpa using hm
      rw [this] at hf; exact absurd hf.2 (by simp)
    · intro e
      simp only at e
      rw [e] at hf
      rw [hk] at hf
      exact absurd hf.1 (by simp)
  · cases hp

/-! ### a message that has been buffered is never dropped; a stuck message stays stuck -/

theorem conserved_le_one (s : State) (hc : Conserved s) (id : Nat) :
    total s id ≤ 1 ∧ (0 < total s id → 1 ≤ id ∧ id ≤ s.kinds.length) := by
  have ht := hc id
  by_cases hr : 1 ≤ id ∧ id ≤ s.kinds.length
  · simp only [hr, and_self, if_true] at ht; exact ⟨by omega, fun _ => hr⟩
  · simp only [hr, if_false] at ht; exact ⟨by omega, fun h => by omega⟩

def EverOK (s : State) : Prop :=
  ∀ id ∈ s.everBuf, id ∉ s.fresh ∧ id ∉ s.cancelled ∧ id ∉ s.rejected ∧ id ≤ s.kinds.length

theorem everOK_init : EverOK init := by simp [EverOK, init]

/-- membership facts for a message that sits in `fresh`, `pending` or `waiting` -/
theorem conserved_src (s : State) (hc : Conserved s) (i : Nat)
    (h : i ∈ s.fresh ∨ i ∈ s.pending ∨ i ∈ s.waiting) :
    i ∉ s.cancelled ∧ i ∉ s.rejected ∧ i ≤ s.kinds.length ∧ (i ∈ s.fresh → count i s.fresh = 1) ∧
      (i ∉ s.fresh → count i s.fresh = 0) := by
  obtain ⟨h1, h2⟩ := conserved_le_one s hc i
  unfold total at h1 h2
  have hpos : 0 < count i s.fresh + count i s.pending + count i s.waiting := by
    rcases h with h | h | h <;> have := List.count_pos_iff.mpr h <;> omega
  refine ⟨?_, ?_, (h2 (by omega)).2, ?_, ?_⟩
  · apply count_zero_not_mem; omega
  · apply count_zero_not_mem; omega
  · intro hf; have := List.count_pos_iff.mpr hf; omega
  · intro hf
    cases hcz : count i s.fresh with
    | zero => rfl
    | succ n => exact absurd (List.count_pos_iff.mp (by omega)) hf

theorem everOK_add (s : State) (hc : Conserved s) (he : EverOK s) (i : Nat)
    (h : i ∈ s.fresh ∨ i ∈ s.pending ∨ i ∈ s.waiting) :
    ∀ id ∈ s.everBuf ++ [i], id ∉ s.fresh.erase i ∧ id ∉ s.cancelled ∧ id ∉ s.rejected ∧ id ≤ s.kinds.length := by
  obtain ⟨c1, c2, c3, c4, c5⟩ := conserved_src s hc i h
  intro id hid
  rcases List.mem_append.mp hid with hid | hid
  · obtain ⟨a, b, c, d⟩ := he id hid
    exact ⟨fun hm => a (List.mem_of_mem_erase hm), b, c, d⟩
  · simp only [List.mem_singleton] at hid; subst hid
    refine ⟨?_, c1, c2, c3⟩
    by_cases hf : id ∈ s.fresh
    · exact not_mem_erase_of_count_one _ _ (c4 hf)
    · exact fun hm => hf (List.mem_of_mem_erase hm)

theorem everOK_step (s s' : State) (e : Ev) (h : next s e = some s') (hc : Conserved s) (he : EverOK s) :
    EverOK s' := by
  cases e with
  | produce i k =>
    simp only [next] at h; split at h
    · rename_i hid; cases h
      intro id hm
      obtain ⟨a, b, c, d⟩ := he id hm
      refine ⟨?_, b, c, ?_⟩
      · simp only [List.mem_append, List.mem_singleton, not_or]
        refine ⟨a, ?_⟩
        intro e2; rw [e2, hid] at d; exact Nat.not_succ_le_self _ d
      · simp only [List.length_append, List.length_singleton]; exact Nat.le_succ_of_le d
    · cases h
  | send i q =>
    simp only [next] at h; split at h <;> cases h
    intro id hm
    obtain ⟨a, b, c, d⟩ := he id hm
    exact ⟨fun hx => a (List.mem_of_mem_erase hx), b, c, d⟩
  | buf i q =>
    simp only [next] at h
    split at h
    · rename_i hg; cases h; exact everOK_add s hc he i (Or.inl hg.1)
    · split at h
      · rename_i hg; cases h
        intro id hm
        obtain ⟨a, b, c, d⟩ := everOK_add s hc he i (Or.inr (Or.inl hg.1)) id hm
        refine ⟨?_, b, c, d⟩
        intro hf
        have hf' : id ∈ s.fresh := hf
        rcases List.mem_append.mp hm with hm | hm
        · exact (he id hm).1 hf'
        · simp only [List.mem_singleton] at hm; subst hm
          have hp := List.count_pos_iff.mpr hg.1
          have hp2 := List.count_pos_iff.mpr hf'
          have := (conserved_le_one s hc id).1
          unfold total at this; omega
      · split at h
        · rename_i hg; cases h
          intro id hm
          obtain ⟨a, b, c, d⟩ := everOK_add s hc he i (Or.inr (Or.inr hg.1)) id hm
          refine ⟨?_, b, c, d⟩
          intro hf
          have hf' : id ∈ s.fresh := hf
          rcases List.mem_append.mp hm with hm | hm
          · exact (he id hm).1 hf'
          · simp only [List.mem_singleton] at hm; subst hm
            have hp := List.count_pos_iff.mpr hg.1
            have hp2 := List.count_pos_iff.mpr hf'
            have := (conserved_le_one s hc id).1
            unfold total at this; omega
        · cases h
  | bufTask i q =>
    simp only [next] at h
    split at h <;> cases h
    rename_i hg; exact everOK_add s hc he i (Or.inl hg.1)
  | reject i =>
    simp only [next] at h; split at h <;> cases h
    rename_i hg
    intro id hm
    obtain ⟨a, b, c, d⟩ := he id hm
    refine ⟨fun hx => a (List.mem_of_mem_erase hx), b, ?_, d⟩
    simp only [List.mem_append, List.mem_singleton, not_or]
    exact ⟨c, fun e2 => a (e2 ▸ hg.1)⟩
  | ok i =>
    simp only [next] at h
    split at h
    · split at h <;> cases h; exact he
    · cases h
  | fail i =>
    simp only [next] at h
    split at h
    · split at h <;> cases h; exact he
    · cases h
  | cancel i =>
    simp only [next] at h
    split at h
    · cases h
    · rename_i hg
      have hne : i ∉ s.everBuf := fun hm => hg (Or.inl hm)
      split at h
      · cases h
        intro id hm
        obtain ⟨a, b, c, d⟩ := he id hm
        refine ⟨a, ?_, c, d⟩
        simp only [List.mem_append, List.mem_singleton, not_or]
        exact ⟨b, fun e2 => hne (e2 ▸ hm)⟩
      · split at h
        · cases h
          intro id hm
          obtain ⟨a, b, c, d⟩ := he id hm
          refine ⟨a, ?_, c, d⟩
          simp only [List.mem_append, List.mem_singleton, not_or]
          exact ⟨b, fun e2 => hne (e2 ▸ hm)⟩
        · cases h
  | setState t =>
    cases t <;> simp only [next] at h <;> (try (cases h)) <;>
      (repeat' split at h) <;> (try (cases h)) <;> exact he
  | take n => simp only [next] at h; split at h <;> cases h; exact he
  | postBatch sent qs =>
    cases sent <;> simp only [next] at h <;> split at h <;> (try (cases h)) <;> exact he
  | connect b => simp only [next] at h; split at h <;> cases h; exact he
  | disconnect => simp only [next] at h; cases h; exact he
  | wait i self =>
    cases self <;> simp only [next] at h <;> split at h <;> (try (cases h)) <;> exact he
  | waitOther => simp only [next] at h; split at h <;> cases h; exact he
  | taskSet k => simp only [next] at h; cases h; exact he
  | taskClear self =>
    cases self <;> simp only [next] at h
    · split at h <;> cases h <;> exact he
    · split at h <;> cases h; exact he

/-- `stuck` only grows. -/
theorem stuck_mono (s s' : State) (e : Ev) (h : next s e = some s') (m : Nat) (hm : m ∈ s.stuck) :
    m ∈ s'.stuck := by
  cases e with
  | produce i k => simp only [next] at h; split at h <;> cases h; exact hm
  | send i q => simp only [next] at h; split at h <;> cases h; exact hm
  | buf i q => simp only [next] at h; (repeat' split at h) <;> (try (cases h)) <;> exact hm
  | bufTask i q => simp only [next] at h; split at h <;> cases h; exact hm
  | reject i => simp only [next] at h; split at h <;> cases h; exact hm
  | ok i =>
    simp only [next] at h
    split at h
    · split at h <;> cases h; exact hm
    · cases h
  | fail i =>
    simp only [next] at h
    split at h
    · split at h <;> cases h; exact hm
    · cases h
  | cancel i => simp only [next] at h; (repeat' split at h) <;> (try (cases h)) <;> exact hm
  | setState t =>
    cases t <;> simp only [next] at h <;> (try (cases h)) <;>
      (repeat' split at h) <;> (try (cases h)) <;> exact hm
  | take n => simp only [next] at h; split at h <;> cases h; exact hm
  | postBatch sent qs =>
    cases sent <;> simp only [next] at h <;> split at h <;> (try (cases h)) <;> exact hm
  | connect b => simp only [next] at h; split at h <;> cases h; exact hm
  | disconnect => simp only [next] at h; cases h; exact hm
  | wait i self =>
    cases self <;> simp only [next] at h <;> split at h <;> (try (cases h)) <;> exact hm
  | waitOther => simp only [next] at h; split at h <;> cases h; exact hm
  | taskSet k => simp only [next] at h; cases h; exact hm
  | taskClear self =>
    cases self <;> simp only [next] at h
    · split at h <;> cases h <;> exact hm
    · split at h <;> cases h; exact List.mem_append_left _ hm

/-- A stuck message is nowhere else: not delivered, not queued. -/
theorem stuck_elsewhere (s : State) (hc : Conserved s) (m : Nat) (hm : m ∈ s.stuck) :
    m ∉ s.delivered ∧ m ∉ s.buffer ∧ m ∉ s.batch ∧ m ∉ s.inflight := by
  have hp := List.count_pos_iff.mpr hm
  have := (conserved_le_one s hc m).1
  unfold total at this
  refine ⟨?_, ?_, ?_, ?_⟩ <;> apply count_zero_not_mem <;> omega

/-! ### delivery: a message with evidence of a disconnect is never dropped -/

/-- Evidence that the message was produced while disconnected: it was created while the runner was Failed /
    Disconnected / Reconnecting, or one of its send attempts failed with the network error, or it was buffered. -/
def Evidence (s : State) (id : Nat) : Prop := id ∈ s.everBuf ∨ id ∈ s.fails ∨ id ∈ s.discProd

def EvOK (s : State) : Prop :=
  (∀ id, Evidence s id → id ∉ s.cancelled ∧ id ∉ s.rejected ∧ 1 ≤ id ∧ id ≤ s.kinds.length) ∧
  (∀ id ∈ s.fails, id ∉ s.fresh) ∧
  (s.st = .started → s.discProd = [])

theorem evOK_init : EvOK init := by simp [EvOK, Evidence, init]

theorem conserved_at (s : State) (hc : Conserved s) (i : Nat) (l : List Nat) (hl : i ∈ l)
    (hsub : count i l ≤ count i s.fresh + count i s.inflight + count i s.pending + count i s.waiting +
      count i s.batch + count i s.buffer) :
    i ∉ s.cancelled ∧ i ∉ s.rejected ∧ 1 ≤ i ∧ i ≤ s.kinds.length := by
  have hp := List.count_pos_iff.mpr hl
  obtain ⟨h1, h2⟩ := conserved_le_one s hc i
  unfold total at h1 h2
  have hr := h2 (by omega)
  refine ⟨?_, ?_, hr.1, hr.2⟩ <;> apply count_zero_not_mem <;> omega

theorem mem_range_of_total (s : State) (hc : Conserved s) (i : Nat) (l : List Nat) (hl : i ∈ l)
    (hsub : count i l ≤ total s i) : 1 ≤ i ∧ i ≤ s.kinds.length := by
  have hp := List.count_pos_iff.mpr hl
  exact (conserved_le_one s hc i).2 (by omega)

theorem evOK_step (s s' : State) (e : Ev) (h : next s e = some s') (hcalm : calmLoss s e = true)
    (hc : Conserved s) (hev : EverOK s) (ho : EvOK s) : EvOK s' := by
  obtain ⟨e1, e2, e3⟩ := ho
  -- a message taken out of a live place and added to the evidence
  have add : ∀ i, (i ∈ s.fresh ∨ i ∈ s.pending ∨ i ∈ s.waiting ∨ i ∈ s.inflight) →
      i ∉ s.cancelled ∧ i ∉ s.rejected ∧ 1 ≤ i ∧ i ≤ s.kinds.length := by
    intro i hi
    obtain ⟨h1, h2⟩ := conserved_le_one s hc i
    unfold total at h1 h2
    have hpos : 0 < count i s.fresh + count i s.pending + count i s.waiting + count i s.inflight := by
      rcases hi with hi | hi | hi | hi <;> have := List.count_pos_iff.mpr hi <;> omega
    have hr := h2 (by omega)
    refine ⟨?_, ?_, hr.1, hr.2⟩ <;> apply count_zero_not_mem <;> omega
  cases e with
  | produce i k =>
    simp only [next] at h; split at h
    · rename_i hid; subst hid; cases h
      have hnew : (s.kinds.length + 1) ∉ s.cancelled ∧ (s.kinds.length + 1) ∉ s.rejected := by
        constructor <;> intro hm
        · have := mem_range_of_total s hc _ s.cancelled hm (by unfold total; omega); omega
        · have := mem_range_of_total s hc _ s.rejected hm (by unfold total; omega); omega
      refine ⟨?_, ?_, ?_⟩
      · intro id hE
        simp only [List.length_append, List.length_singleton]
        rcases hE with hE | hE | hE
        · obtain ⟨a, b, c, d⟩ := e1 id (Or.inl hE); exact ⟨a, b, c, by omega⟩
        · obtain ⟨a, b, c, d⟩ := e1 id (Or.inr (Or.inl hE)); exact ⟨a, b, c, by omega⟩
        · simp only at hE
          split at hE
          · rcases List.mem_append.mp hE with hE | hE
            · obtain ⟨a, b, c, d⟩ := e1 id (Or.inr (Or.inr hE)); exact ⟨a, b, c, by omega⟩
            · simp only [List.mem_singleton] at hE; subst hE
              exact ⟨hnew.1, hnew.2, by omega, by omega⟩
          · obtain ⟨a, b, c, d⟩ := e1 id (Or.inr (Or.inr hE)); exact ⟨a, b, c, by omega⟩
      · intro id hf
        simp only [List.mem_append, List.mem_singleton, not_or]
        refine ⟨e2 id hf, ?_⟩
        have := (e1 id (Or.inr (Or.inl hf))).2.2.2
        intro e4; rw [e4] at this; exact Nat.not_succ_le_self _ this
      · intro hst
        have hst' : s.st = .started := hst
        simp only
        have : mustBuffer s.st = false := by rw [hst']; rfl
        simp only [this]
        exact e3 hst'
    · cases h
  | send i q =>
    simp only [next] at h; split at h <;> cases h
    exact ⟨e1, fun id hf hm => e2 id hf (List.mem_of_mem_erase hm), e3⟩
  | buf i q =>
    simp only [next] at h
    split at h
    · rename_i hg; cases h
      refine ⟨?_, fun id hf hm => e2 id hf (List.mem_of_mem_erase hm), e3⟩
      intro id hE
      rcases hE with hE | hE | hE
      · rcases List.mem_append.mp hE with hE | hE
        · exact e1 id (Or.inl hE)
        · simp only [List.mem_singleton] at hE; subst hE; exact add id (Or.inl hg.1)
      · exact e1 id (Or.inr (Or.inl hE))
      · exact e1 id (Or.inr (Or.inr hE))
    · split at h
      · rename_i hg; cases h
        refine ⟨?_, e2, e3⟩
        intro id hE
        rcases hE with hE | hE | hE
        · rcases List.mem_append.mp hE with hE | hE
          · exact e1 id (Or.inl hE)
          · simp only [List.mem_singleton] at hE; subst hE; exact add id (Or.inr (Or.inl hg.1))
        · exact e1 id (Or.inr (Or.inl hE))
        · exact e1 id (Or.inr (Or.inr hE))
      · split at h
        · rename_i hg; cases h
          refine ⟨?_, e2, e3⟩
          intro id hE
          rcases hE with hE | hE | hE
          · rcases List.mem_append.mp hE with hE | hE
            · exact e1 id (Or.inl hE)
            · simp only [List.mem_singleton] at hE; subst hE; exact add id (Or.inr (Or.inr (Or.inl hg.1)))
          · exact e1 id (Or.inr (Or.inl hE))
          · exact e1 id (Or.inr (Or.inr hE))
        · cases h
  | bufTask i q =>
    simp only [next] at h
    split at h <;> cases h
    rename_i hg
    refine ⟨?_, fun id hf hm => e2 id hf (List.mem_of_mem_erase hm), e3⟩
    intro id hE
    rcases hE with hE | hE | hE
    · rcases List.mem_append.mp hE with hE | hE
      · exact e1 id (Or.inl hE)
      · simp only [List.mem_singleton] at hE; subst hE; exact add id (Or.inl hg.1)
    · exact e1 id (Or.inr (Or.inl hE))
    · exact e1 id (Or.inr (Or.inr hE))
  | reject i =>
    simp only [next] at h; split at h <;> cases h
    rename_i hg
    refine ⟨?_, fun id hf hm => e2 id hf (List.mem_of_mem_erase hm), e3⟩
    intro id hE
    obtain ⟨a, b, c, d⟩ := e1 id hE
    refine ⟨a, ?_, c, d⟩
    simp only [List.mem_append, List.mem_singleton, not_or]
    refine ⟨b, ?_⟩
    intro e4; subst e4
    rcases hE with hE | hE | hE
    · exact (hev id hE).1 hg.1
    · exact e2 id hE hg.1
    · rw [e3 hg.2] at hE; cases hE
  | ok i =>
    simp only [next] at h
    split at h
    · split at h <;> cases h; exact ⟨e1, e2, e3⟩
    · cases h
  | fail i =>
    simp only [next] at h
    split at h
    · rename_i hd rest heq
      split at h <;> cases h
      rename_i hh; subst hh
      have hin : hd ∈ s.inflight := by rw [heq]; simp
      refine ⟨?_, ?_, e3⟩
      · intro id hE
        rcases hE with hE | hE | hE
        · exact e1 id (Or.inl hE)
        · rcases List.mem_append.mp hE with hE | hE
          · exact e1 id (Or.inr (Or.inl hE))
          · simp only [List.mem_singleton] at hE; subst hE
            exact add id (Or.inr (Or.inr (Or.inr hin)))
        · exact e1 id (Or.inr (Or.inr hE))
      · intro id hf
        rcases List.mem_append.mp hf with hf | hf
        · exact e2 id hf
        · simp only [List.mem_singleton] at hf; subst hf
          have hp := List.count_pos_iff.mpr hin
          have := (conserved_le_one s hc id).1
          unfold total at this
          show id ∉ s.fresh
          apply count_zero_not_mem; omega
    · cases h
  | cancel i =>
    simp only [next] at h
    split at h
    · cases h
    · rename_i hg
      have hne : i ∉ s.everBuf := fun hm => hg (Or.inl hm)
      simp only [calmLoss, Bool.not_eq_true', Bool.or_eq_false_iff] at hcalm
      have hnf : i ∉ s.fails := by
        intro hm; have : s.fails.contains i = true := by simpa using hm
        rw [this] at hcalm; exact absurd hcalm.1 (by simp)
      have hnd : i ∉ s.discProd := by
        intro hm; have : s.discProd.contains i = true := by simpa using hm
        rw [this] at hcalm; exact absurd hcalm.2 (by simp)
      have key : ∀ id, Evidence s id → id ∉ s.cancelled ++ [i] ∧ id ∉ s.rejected ∧ 1 ≤ id ∧ id ≤ s.kinds.length := by
        intro id hE
        obtain ⟨a, b, c, d⟩ := e1 id hE
        refine ⟨?_, b, c, d⟩
        simp only [List.mem_append, List.mem_singleton, not_or]
        refine ⟨a, ?_⟩
        intro e4; subst e4
        rcases hE with hE | hE | hE
        · exact hne hE
        · exact hnf hE
        · exact hnd hE
      split at h
      · cases h; exact ⟨key, e2, e3⟩
      · split at h
        · cases h; exact ⟨key, e2, e3⟩
        · cases h
  | setState t =>
    cases t <;> simp only [next] at h <;> (try (cases h)) <;>
      (repeat' split at h) <;> (try (cases h)) <;>
      exact ⟨e1, e2, fun hst => by cases hst⟩
  | take n => simp only [next] at h; split at h <;> cases h; exact ⟨e1, e2, e3⟩
  | postBatch sent qs =>
    cases sent <;> simp only [next] at h <;> split at h <;> (try (cases h)) <;> exact ⟨e1, e2, e3⟩
  | connect b => simp only [next] at h; split at h <;> cases h; exact ⟨e1, e2, e3⟩
  | disconnect => simp only [next] at h; cases h; exact ⟨e1, e2, e3⟩
  | wait i self =>
    cases self <;> simp only [next] at h <;> split at h <;> (try (cases h)) <;> exact ⟨e1, e2, e3⟩
  | waitOther => simp only [next] at h; split at h <;> cases h; exact ⟨e1, e2, e3⟩
  | taskSet k => simp only [next] at h; cases h; exact ⟨e1, e2, e3⟩
  | taskClear self =>
    cases self <;> simp only [next] at h
    · split at h <;> cases h <;> exact ⟨e1, e2, e3⟩
    · split at h <;> cases h; exact ⟨e1, e2, e3⟩

/-- "The runner reports it has caught up": steady state, nothing queued, in flight or being handled. -/
def CaughtUp (s : State) : Prop :=
  (s.st = .reconnected ∨ s.st = .connected) ∧ s.fresh = [] ∧ s.inflight = [] ∧ s.pending = [] ∧ s.waiting = [] ∧
  s.batch = [] ∧ s.buffer = []

/-- … then every message that is not cancelled, rejected or stuck has been delivered. -/
theorem delivered_of_caughtUp (s : State) (hc : Conserved s) (hq : CaughtUp s) (id : Nat)
    (hr : 1 ≤ id ∧ id ≤ s.kinds.length) (h1 : id ∉ s.cancelled) (h2 : id ∉ s.rejected) (h3 : id ∉ s.stuck) :
    id ∈ s.delivered := by
  have ht := hc id
  obtain ⟨_, q1, q2, q3, q4, q5, q6⟩ := hq
  unfold total at ht
  simp only [hr, and_self, if_true, q1, q2, q3, q4, q5, q6, List.count_nil] at ht
  have z1 : count id s.cancelled = 0 := List.count_eq_zero.mpr h1
  have z2 : count id s.rejected = 0 := List.count_eq_zero.mpr h2
  have z3 : count id s.stuck = 0 := List.count_eq_zero.mpr h3
  apply List.count_pos_iff.mp; omega

/-! ### attempts on the wire -/

/-- Every attempt went over the wire with the number the message carries (now and ever since). -/
def WireOK (s : State) : Prop := ∀ p ∈ s.wire, seqOf s p.1 = some p.2

theorem wireOK_init : WireOK init := by simp [WireOK, init]

theorem zip_seq (s : State) (l : List Nat) (qs : List Nat) (h : l.map (seqOf s) = qs.map some)
    (p : Nat × Nat) (hp : p ∈ l.zip qs) : seqOf s p.1 = some p.2 := by
  induction l generalizing qs with
  | nil => simp at hp
  | cons a l ih =>
    cases qs with
    | nil => simp at hp
    | cons q qs =>
      simp only [List.map_cons, List.cons.injEq] at h
      simp only [List.zip_cons_cons, List.mem_cons] at hp
      rcases hp with hp | hp
      · subst hp; exact h.1
      · exact ih qs h.2 hp

/-- what a step adds to the wire log carries the message's number -/
theorem wire_step (s s' : State) (e : Ev) (h : next s e = some s') :
    ∀ p ∈ s'.wire, p ∈ s.wire ∨ seqOf s' p.1 = some p.2 := by
  cases e with
  | send i q =>
    simp only [next] at h; split at h <;> cases h
    rename_i hg
    intro p hp
    rcases List.mem_append.mp hp with hp | hp
    · exact Or.inl hp
    · right
      simp only [List.mem_singleton] at hp; subst hp
      unfold seqOf; simp only; rw [hg.2.2]; exact seqsAfter_self s i
  | postBatch sent qs =>
    cases sent <;> simp only [next] at h <;> split at h <;> (try (cases h))
    · intro p hp; exact Or.inl hp
    · rename_i hg
      intro p hp
      rcases List.mem_append.mp hp with hp | hp
      · exact Or.inl hp
      · exact Or.inr (zip_seq s s.batch qs hg.2.1 p hp)
  | produce i k => simp only [next] at h; split at h <;> cases h; exact fun p hp => Or.inl hp
  | buf i q =>
    simp only [next] at h; (repeat' split at h) <;> (try (cases h)) <;> exact fun p hp => Or.inl hp
  | bufTask i q => simp only [next] at h; split at h <;> cases h; exact fun p hp => Or.inl hp
  | reject i => simp only [next] at h; split at h <;> cases h; exact fun p hp => Or.inl hp
  | ok i =>
    simp only [next] at h
    split at h
    · split at h <;> cases h; exact fun p hp => Or.inl hp
    · cases h
  | fail i =>
    simp only [next] at h
    split at h
    · split at h <;> cases h; exact fun p hp => Or.inl hp
    · cases h
  | cancel i =>
    simp only [next] at h; (repeat' split at h) <;> (try (cases h)) <;> exact fun p hp => Or.inl hp
  | setState t =>
    cases t <;> simp only [next] at h <;> (try (cases h)) <;>
      (repeat' split at h) <;> (try (cases h)) <;> exact fun p hp => Or.inl hp
  | take n => simp only [next] at h; split at h <;> cases h; exact fun p hp => Or.inl hp
  | connect b => simp only [next] at h; split at h <;> cases h; exact fun p hp => Or.inl hp
  | disconnect => simp only [next] at h; cases h; exact fun p hp => Or.inl hp
  | wait i self =>
    cases self <;> simp only [next] at h <;> split at h <;> (try (cases h)) <;> exact fun p hp => Or.inl hp
  | waitOther => simp only [next] at h; split at h <;> cases h; exact fun p hp => Or.inl hp
  | taskSet k => simp only [next] at h; cases h; exact fun p hp => Or.inl hp
  | taskClear self =>
    cases self <;> simp only [next] at h
    · split at h <;> cases h <;> exact fun p hp => Or.inl hp
    · split at h <;> cases h; exact fun p hp => Or.inl hp

theorem wireOK_step (s s' : State) (e : Ev) (h : next s e = some s') (hw : WireOK s) : WireOK s' := by
  intro p hp
  rcases wire_step s s' e h p hp with h1 | h1
  · exact seqOf_stable s s' e h p.1 p.2 (hw p h1)
  · exact h1

/-! ### orphaned buffer tasks -/

theorem orphans_mono (s s' : State) (e : Ev) (h : next s e = some s') : s.orphans ≤ s'.orphans := by
  cases e with
  | produce i k => simp only [next] at h; split at h <;> cases h; simp
  | send i q => simp only [next] at h; split at h <;> cases h; simp
  | buf i q => simp only [next] at h; (repeat' split at h) <;> (try (cases h)) <;> simp
  | bufTask i q => simp only [next] at h; split at h <;> cases h; simp
  | reject i => simp only [next] at h; split at h <;> cases h; simp
  | ok i =>
    simp only [next] at h
    split at h
    · split at h <;> cases h; simp
    · cases h
  | fail i =>
    simp only [next] at h
    split at h
    · split at h <;> cases h; simp
    · cases h
  | cancel i => simp only [next] at h; (repeat' split at h) <;> (try (cases h)) <;> simp
  | setState t =>
    cases t <;> simp only [next] at h <;> (try (cases h)) <;>
      (repeat' split at h) <;> (try (cases h)) <;> simp
  | take n => simp only [next] at h; split at h <;> cases h; simp
  | postBatch sent qs =>
    cases sent <;> simp only [next] at h <;> split at h <;> (try (cases h)) <;> simp
  | connect b => simp only [next] at h; split at h <;> cases h; simp
  | disconnect => simp only [next] at h; cases h; simp
  | wait i self =>
    cases self <;> simp only [next] at h <;> split at h <;> (try (cases h)) <;> simp
  | waitOther => simp only [next] at h; split at h <;> cases h; simp
  | taskSet k => simp only [next] at h; cases h; simp
  | taskClear self =>
    cases self <;> simp only [next] at h
    · split at h <;> cases h <;> simp
    · split at h <;> cases h; simp

theorem orphans_calm (s s' : State) (e : Ev) (h : next s e = some s') (hc : calmOrder s e = true)
    (hz : s.orphans = 0) : s'.orphans = 0 := by
  cases e with
  | taskClear self =>
    cases self <;> simp only [next] at h
    · split at h
      · rename_i hg
        simp [calmOrder, hg.1, hg.2.1, hg.2.2] at hc
      · cases h; exact hz
    · split at h <;> cases h; exact hz
  | produce i k => simp only [next] at h; split at h <;> cases h; exact hz
  | send i q => simp only [next] at h; split at h <;> cases h; exact hz
  | buf i q => simp only [next] at h; (repeat' split at h) <;> (try (cases h)) <;> exact hz
  | bufTask i q => simp only [next] at h; split at h <;> cases h; exact hz
  | reject i => simp only [next] at h; split at h <;> cases h; exact hz
  | ok i =>
    simp only [next] at h
    split at h
    · split at h <;> cases h; exact hz
    · cases h
  | fail i =>
    simp only [next] at h
    split at h
    · split at h <;> cases h; exact hz
    · cases h
  | cancel i => simp only [next] at h; (repeat' split at h) <;> (try (cases h)) <;> exact hz
  | setState t =>
    cases t <;> simp only [next] at h <;> (try (cases h)) <;>
      (repeat' split at h) <;> (try (cases h)) <;> exact hz
  | take n => simp only [next] at h; split at h <;> cases h; exact hz
  | postBatch sent qs =>
    cases sent <;> simp only [next] at h <;> split at h <;> (try (cases h)) <;> exact hz
  | connect b => simp only [next] at h; split at h <;> cases h; exact hz
  | disconnect => simp only [next] at h; cases h; exact hz
  | wait i self =>
    cases self <;> simp only [next] at h <;> split at h <;> (try (cases h)) <;> exact hz
  | waitOther => simp only [next] at h; split at h <;> cases h; exact hz
  | taskSet k => simp only [next] at h; cases h; exact hz

end OPM.Runner
