import OPM.Model.SaveConc
/-!
Helper lemmas for C31: the invariant of the system with the per-engine lock and a version that survives
re-registration, and its preservation.
-/
namespace OPM.SaveConc

/-- the repaired system: lock from check to commit, version continues across re-registration; with or without the
additional fast-path check in front of the lock -/
def fixed (precheck : Bool := false) : Cfg :=
  { locked := true, resetOnRegister := false, precheck := precheck, methodMsgSetsVersion := false }

/-- Invariant (relative to the initial version `v0`). -/
structure Good (v0 : Nat) (s : State) : Prop where
  one : s.awaiting.length ≤ 1
  cur : ∀ r ∈ s.awaiting, r.base = s.version ∨ r.id ∈ s.doomed
  away : s.registered = false → ∀ r ∈ s.awaiting, r.id ∈ s.doomed
  free : s.awaiting = [] → s.waiters = []
  old : ∀ r ∈ s.accepted, r.base < s.version
  nodup : (s.accepted.map (·.base)).Nodup
  count : s.version = v0 + s.accepted.length + s.reconnects

theorem good_init (v0 : Nat) : Good v0 (init v0) := by
  constructor <;> simp [init]

@[simp] theorem enter_version (s : State) (r : Req) : (enter s r).version = s.version := by
  unfold enter; split <;> rfl
@[simp] theorem enter_accepted (s : State) (r : Req) : (enter s r).accepted = s.accepted := by
  unfold enter; split <;> rfl
@[simp] theorem enter_waiters (s : State) (r : Req) : (enter s r).waiters = s.waiters := by
  unfold enter; split <;> rfl
@[simp] theorem enter_owner (s : State) (r : Req) : (enter s r).owner = s.owner := by
  unfold enter; split <;> rfl
@[simp] theorem enter_content (s : State) (r : Req) : (enter s r).content = s.content := by
  unfold enter; split <;> rfl
@[simp] theorem enter_reconnects (s : State) (r : Req) : (enter s r).reconnects = s.reconnects := by
  unfold enter; split <;> rfl
@[simp] theorem enter_registered (s : State) (r : Req) : (enter s r).registered = s.registered := by
  unfold enter; split <;> rfl
@[simp] theorem enter_doomed (s : State) (r : Req) : (enter s r).doomed = s.doomed := by
  unfold enter; split <;> rfl

@[simp] theorem settle_version (s : State) (ws : List Req) : (settle s ws).version = s.version := by
  induction ws generalizing s with
  | nil => rfl
  | cons w ws ih =>
    unfold settle
    split
    · rw [ih]
    · simp
@[simp] theorem settle_accepted (s : State) (ws : List Req) : (settle s ws).accepted = s.accepted := by
  induction ws generalizing s with
  | nil => rfl
  | cons w ws ih =>
    unfold settle
    split
    · rw [ih]
    · simp
@[simp] theorem settle_owner (s : State) (ws : List Req) : (settle s ws).owner = s.owner := by
  induction ws generalizing s with
  | nil => rfl
  | cons w ws ih =>
    unfold settle
    split
    · rw [ih]
    · simp
@[simp] theorem settle_content (s : State) (ws : List Req) : (settle s ws).content = s.content := by
  induction ws generalizing s with
  | nil => rfl
  | cons w ws ih =>
    unfold settle
    split
    · rw [ih]
    · simp
@[simp] theorem settle_reconnects (s : State) (ws : List Req) : (settle s ws).reconnects = s.reconnects := by
  induction ws generalizing s with
  | nil => rfl
  | cons w ws ih =>
    unfold settle
    split
    · rw [ih]
    · simp

/-- `enter` on a state whose lock is free keeps the invariant. -/
theorem good_enter {v0 : Nat} {s : State} (g : Good v0 s) (h : s.awaiting = []) (r : Req) :
    Good v0 (enter s r) := by
  unfold enter
  split
  · exact { one := g.one, cur := g.cur, away := g.away, free := g.free, old := g.old, nodup := g.nodup,
            count := g.count }
  · rename_i hb
    simp only [Bool.or_eq_true, Bool.not_eq_true', decide_eq_true_eq, not_or, Bool.not_eq_false] at hb
    obtain ⟨hreg, hb'⟩ := hb
    have hb'' : r.base = s.version := by simpa using hb'
    refine { one := ?_, cur := ?_, away := ?_, free := ?_, old := g.old, nodup := g.nodup, count := g.count }
    · simp [h]
    · intro q hq
      simp [h] at hq
      rw [hq]; exact Or.inl hb''
    · intro hr; simp only at hr; rw [hreg] at hr; cases hr
    · intro e
      simp [h] at e

/-- Handing the free lock on keeps the invariant, whatever the waiter queue is. -/
theorem good_settle {v0 : Nat} (ws : List Req) : ∀ {s : State}, Good v0 { s with waiters := [] } →
    s.awaiting = [] → Good v0 (settle s ws) := by
  induction ws with
  | nil =>
    intro s g _
    exact g
  | cons w ws ih =>
    intro s g h
    unfold settle
    split
    · apply ih
      · exact { one := g.one, cur := g.cur, away := g.away, free := fun _ => rfl, old := g.old, nodup := g.nodup,
                count := g.count }
      · exact h
    · rename_i hb
      simp only [Bool.or_eq_true, Bool.not_eq_true', decide_eq_true_eq, not_or, Bool.not_eq_false] at hb
      obtain ⟨hreg, hb'⟩ := hb
      have hb'' : w.base = s.version := by simpa using hb'
      have e : enter s w = { s with awaiting := s.awaiting ++ [w], engineLog := s.engineLog ++ [w.base + 1] } := by
        unfold enter; simp [hb'', hreg]
      rw [e]
      refine { one := ?_, cur := ?_, away := ?_, free := ?_, old := g.old, nodup := g.nodup, count := g.count }
      · simp [h]
      · intro q hq
        simp [h] at hq
        rw [hq]; exact Or.inl hb''
      · intro hr; simp only at hr; rw [hreg] at hr; cases hr
      · intro e'
        simp [h] at e'

/-- With at most one pending round trip, removing the answered request leaves none. -/
theorem filter_awaiting_nil {l : List Req} {r : Req} {id : Nat} (h1 : l.length ≤ 1)
    (hf : l.find? (·.id == id) = some r) : l.filter (·.id != id) = [] := by
  match l, h1 with
  | [], _ => simp at hf
  | [a], _ =>
    simp only [List.find?_cons] at hf
    split at hf
    · rename_i ha
      simp only [List.filter_cons, List.filter_nil]
      simp at ha
      simp [ha]
    · simp at hf

theorem find_mem {l : List Req} {r : Req} {id : Nat} (hf : l.find? (·.id == id) = some r) : r ∈ l :=
  List.mem_of_find?_eq_some hf

theorem find_id {l : List Req} {r : Req} {id : Nat} (hf : l.find? (·.id == id) = some r) : r.id = id := by
  have := List.find?_some hf
  simpa using this

/-- The invariant is preserved by every enabled step of the repaired system. -/
theorem good_step {v0 : Nat} {p : Bool} {s s' : State} {e : Ev} (g : Good v0 s) (h : step (fixed p) s e = some s') :
    Good v0 s' := by
  cases e with
  | start id base content =>
    simp only [step, fixed] at h
    split at h
    · cases h
    · split at h
      · cases h
        exact { one := g.one, cur := g.cur, away := g.away, free := g.free, old := g.old, nodup := g.nodup,
                count := g.count }
      · by_cases hnil : s.awaiting = []
        · simp only [hnil, List.isEmpty_nil, Bool.not_true, Bool.and_false, Bool.false_eq_true, if_false,
            Option.some.injEq] at h
          subst h
          exact good_enter g hnil _
        · have hne : (true && !s.awaiting.isEmpty) = true := by
            cases hs : s.awaiting with
            | nil => exact absurd hs hnil
            | cons a l => simp
          simp only [hne, if_true] at h
          by_cases hp : (p && decide (base ≠ s.version)) = true
          · simp only [hp, if_true, Option.some.injEq] at h
            subst h
            exact { one := g.one, cur := g.cur, away := g.away, free := g.free, old := g.old, nodup := g.nodup,
                    count := g.count }
          · have hp' : (p && decide (base ≠ s.version)) = false := by simpa using hp
            simp only [hp', Bool.false_eq_true, if_false, Option.some.injEq] at h
            subst h
            exact { one := g.one, cur := g.cur, away := g.away, free := fun e => absurd e hnil, old := g.old,
                    nodup := g.nodup, count := g.count }
  | reply id ok =>
    simp only [step, fixed] at h
    split at h
    · cases h
    · rename_i r hf
      split at h
      · cases h
      · rename_i hen
        cases h
        have hr : r ∈ s.awaiting := find_mem hf
        have hid : r.id = id := find_id hf
        have hnil : s.awaiting.filter (·.id != id) = [] := filter_awaiting_nil g.one hf
        simp only [if_true]
        cases ok with
        | true =>
          have hlive : ¬ (s.doomed.contains id = true) ∧ s.registered = true := by
            simp only [Bool.true_and, Bool.or_eq_true, Bool.not_eq_true', not_or] at hen
            exact ⟨hen.1, by simpa using hen.2⟩
          have hbase : r.base = s.version := by
            rcases g.cur r hr with hb | hd
            · exact hb
            · exact absurd (by simpa [hid] using hd) hlive.1
          simp only [if_true]
          apply good_settle
          · refine { one := ?_, cur := ?_, away := ?_, free := fun _ => rfl, old := ?_, nodup := ?_, count := ?_ }
            · simp [hnil]
            · intro q hq; simp [hnil] at hq
            · intro _ q hq; simp [hnil] at hq
            · intro q hq
              simp only [List.mem_append, List.mem_singleton] at hq
              rcases hq with hq | hq
              · have := g.old q hq
                simp only; omega
              · rw [hq]; simp only; omega
            · simp only [List.map_append, List.map_cons, List.map_nil]
              rw [List.nodup_append]
              refine ⟨g.nodup, by simp, ?_⟩
              intro a ha b hb
              simp only [List.mem_singleton] at hb
              simp only [List.mem_map] at ha
              obtain ⟨q, hq, rfl⟩ := ha
              have := g.old q hq
              omega
            · simp only [List.length_append, List.length_cons, List.length_nil]
              have := g.count
              omega
          · exact hnil
        | false =>
          simp only [Bool.false_eq_true, if_false]
          apply good_settle
          · refine { one := ?_, cur := ?_, away := ?_, free := fun _ => rfl, old := g.old, nodup := g.nodup,
                     count := g.count }
            · simp [hnil]
            · intro q hq; simp [hnil] at hq
            · intro _ q hq; simp [hnil] at hq
          · exact hnil
  | disconnect =>
    simp only [step, fixed] at h
    split at h
    · cases h
    · cases h
      refine { one := g.one, cur := ?_, away := ?_, free := g.free, old := g.old, nodup := g.nodup, count := g.count }
      · intro q hq
        right
        simp only [List.mem_append, List.mem_map]
        exact Or.inr ⟨q, hq, rfl⟩
      · intro _ q hq
        simp only [List.mem_append, List.mem_map]
        exact Or.inr ⟨q, hq, rfl⟩
  | register =>
    simp only [step, fixed] at h
    split at h
    · cases h
    · rename_i hreg
      cases h
      have hreg' : s.registered = false := by simpa using hreg
      refine { one := g.one, cur := ?_, away := ?_, free := g.free, old := ?_, nodup := g.nodup, count := ?_ }
      · intro q hq; exact Or.inr (g.away hreg' q hq)
      · intro hr; simp at hr
      · intro q hq
        have := g.old q hq
        simp only [Bool.false_eq_true, if_false]; omega
      · simp only [Bool.false_eq_true, if_false]
        have := g.count
        omega

  | engineMethod v content =>
    simp only [step, fixed] at h
    split at h
    · cases h
    · cases h
      exact { one := g.one, cur := g.cur, away := g.away, free := g.free, old := g.old, nodup := g.nodup,
              count := g.count }

end OPM.SaveConc
