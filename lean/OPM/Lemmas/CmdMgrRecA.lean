import OPM.Lemmas.CmdMgrCore
/-!
The record invariant `Rec` of the M2 model (repaired code incl. `fixes/C10-dispose-instances-on-stop.diff`):
what the runtime records (marks, node flags, stored command) say about the instances and the requests the
manager holds.  This file: the per-record part `TOK`, the shape of every tracking call, and `Rec` with its
preservation by tracking calls.
-/
namespace OPM.CmdMgr

/-! ### marks of one record -/

theorem concluded_false_iff (t : Track) : t.concluded = false ↔ ∀ p ∈ t.marks, p.1.conclusive = false := by
  simp [Track.concluded]

theorem hasMark_concluded {t : Track} {m : Mark} (h : t.hasMark m = true) (hm : m.conclusive = true) :
    t.concluded = true := by
  simp only [Track.hasMark, List.any_eq_true, beq_iff_eq] at h
  obtain ⟨p, hp, e⟩ := h
  simp only [Track.concluded, List.any_eq_true]
  exact ⟨p, hp, by rw [e]; exact hm⟩

/-- Per-record invariant: a conclusive state is the last one; the last snapshot is the node's flag while the
invocation is open; the stored command goes with the `UodCommandSet` state; a Forced state means a forced node. -/
structure TOK (t : Track) : Prop where
  last : ∀ pre m, t.marks = pre ++ [m] → ∀ p ∈ pre, p.1.conclusive = false
  snap : t.concluded = false → ∀ p, t.marks.getLast? = some p → p.2 = t.free
  cmdSet : t.hasMark .cmdSet = t.cmd.isSome
  forced : t.hasMark .forced = true → t.nForced = true
  /-- every record starts with its Created state -/
  created : t.hasMark .created = true

/-- A state was appended to an open invocation. -/
theorem TOK.push {t t' : Track} (h : TOK t) (m : Mark) (hm : t'.marks = t.marks ++ [(m, t'.free)])
    (hnc : t.concluded = false) (hcmd : t'.hasMark .cmdSet = t'.cmd.isSome)
    (hf : t'.hasMark .forced = true → t'.nForced = true) : TOK t' := by
  refine ⟨?_, ?_, hcmd, hf, ?_⟩
  rotate_left 2
  · have := h.created
    simp only [Track.hasMark, hm, List.any_append, Bool.or_eq_true] at this ⊢
    exact Or.inl this
  · intro pre m' he p hp
    rw [hm] at he
    obtain ⟨e1, _⟩ := List.append_inj' he rfl
    rw [← e1] at hp
    exact (concluded_false_iff t).mp hnc p hp
  · intro _ p hp
    rw [hm] at hp
    simp at hp
    rw [← hp]

/-- Flags changed, the states did not. -/
theorem TOK.keep {t t' : Track} (h : TOK t) (hm : t'.marks = t.marks)
    (hfree : t.concluded = false → t'.free = t.free) (hcmd : t'.cmd = t.cmd)
    (hf : t.nForced = true → t'.nForced = true) : TOK t' := by
  have hc : t'.concluded = t.concluded := by simp [Track.concluded, hm]
  refine ⟨?_, ?_, ?_, ?_, by simpa [Track.hasMark, hm] using h.created⟩
  · intro pre m he; rw [hm] at he; exact h.last pre m he
  · intro hnc p hp
    rw [hc] at hnc
    rw [hm] at hp
    rw [hfree hnc]
    exact h.snap hnc p hp
  · rw [hcmd, ← h.cmdSet]; simp [Track.hasMark, hm]
  · intro hx
    apply hf
    apply h.forced
    simpa [Track.hasMark, hm] using hx

theorem addMark_cases (t : Track) (m : Mark) :
    (t.addMark m = t ∧ (t.hasMark m = true ∨ t.concluded = true)) ∨
    (t.addMark m = { t with marks := t.marks ++ [(m, t.free)] } ∧ t.hasMark m = false ∧ t.concluded = false) := by
  unfold Track.addMark
  by_cases h : (t.hasMark m || t.concluded) = true
  · left
    rw [if_pos h]
    exact ⟨rfl, by simpa using h⟩
  · right
    rw [if_neg h]
    simp only [Bool.or_eq_true, not_or, Bool.not_eq_true] at h
    exact ⟨rfl, h.1, h.2⟩

theorem hasMark_push (t : Track) (m m' : Mark) (b : Bool) :
    ({ t with marks := t.marks ++ [(m, b)] } : Track).hasMark m' = (t.hasMark m' || m == m') := by
  simp [Track.hasMark]

@[simp] theorem addMark_cmd (t : Track) (m : Mark) : (t.addMark m).cmd = t.cmd := by
  unfold Track.addMark; split <;> rfl
@[simp] theorem addMark_free (t : Track) (m : Mark) : (t.addMark m).free = t.free := by
  unfold Track.addMark; split <;> rfl
@[simp] theorem addMark_nForced (t : Track) (m : Mark) : (t.addMark m).nForced = t.nForced := by
  unfold Track.addMark; split <;> rfl
@[simp] theorem addMark_nCancelled (t : Track) (m : Mark) : (t.addMark m).nCancelled = t.nCancelled := by
  unfold Track.addMark; split <;> rfl

theorem addMark_hasMark (t : Track) (m m' : Mark) :
    (t.addMark m).hasMark m' = true → t.hasMark m' = true ∨ m = m' := by
  rcases addMark_cases t m with ⟨e, _⟩ | ⟨e, _, _⟩ <;> rw [e]
  · exact Or.inl
  · rw [hasMark_push]
    intro h
    simp only [Bool.or_eq_true, beq_iff_eq] at h
    exact h

theorem addMark_hasMark_mono (t : Track) (m m' : Mark) (h : t.hasMark m' = true) :
    (t.addMark m).hasMark m' = true := by
  rcases addMark_cases t m with ⟨e, _⟩ | ⟨e, _, _⟩ <;> rw [e]
  · exact h
  · rw [hasMark_push, h]; rfl

theorem addMark_concluded_mono (t : Track) (m : Mark) (h : t.concluded = true) :
    (t.addMark m).concluded = true := by
  rcases addMark_cases t m with ⟨e, _⟩ | ⟨e, _, hc⟩ <;> rw [e]
  · exact h
  · rw [h] at hc; cases hc

theorem addMark_concluded_of (t : Track) (m : Mark) (hm : m.conclusive = true) :
    (t.addMark m).concluded = true := by
  rcases addMark_cases t m with ⟨e, hh | hh⟩ | ⟨e, _, _⟩ <;> rw [e]
  · exact hasMark_concluded hh hm
  · exact hh
  · simp [Track.concluded, hm]

theorem addMark_concluded_inv (t : Track) (m : Mark) (hm : m.conclusive = false)
    (h : (t.addMark m).concluded = true) : t.concluded = true := by
  rcases addMark_cases t m with ⟨e, _⟩ | ⟨e, _, _⟩ <;> rw [e] at h
  · exact h
  · have hh : ({ t with marks := t.marks ++ [(m, t.free)] } : Track).concluded = (t.concluded || m.conclusive) := by
      simp [Track.concluded]
    rw [hh, hm] at h
    simpa using h

/-- `addMark` of any state but `UodCommandSet` (and of `Forced` only on a forced node). -/
theorem TOK.addMark {t : Track} (h : TOK t) (m : Mark) (hm : m ≠ .cmdSet) (hf : m = .forced → t.nForced = true) :
    TOK (t.addMark m) := by
  rcases addMark_cases t m with ⟨e, _⟩ | ⟨e, _, hnc⟩ <;> rw [e]
  · exact h
  · apply h.push m rfl hnc
    · rw [hasMark_push, h.cmdSet]
      have : (m == Mark.cmdSet) = false := by simpa using hm
      simp [this]
    · rw [hasMark_push]
      intro hx
      simp only [Bool.or_eq_true, beq_iff_eq] at hx
      rcases hx with hx | hx
      · exact h.forced hx
      · exact hf hx

/-- The record of a node that was just cancelled / forced / completed / failed: flags change, then the state. -/
theorem TOK.flagThen {t t1 : Track} (h : TOK t) (m : Mark) (hm : m ≠ .cmdSet) (hmarks : t1.marks = t.marks)
    (hcmd : t1.cmd = t.cmd) (hforced : t.nForced = true → t1.nForced = true)
    (hf : m = .forced → t1.nForced = true)
    (hskip : t1.hasMark m = true → t1.concluded = false → t1.free = t.free) : TOK (t1.addMark m) := by
  have hc : t1.concluded = t.concluded := by simp [Track.concluded, hmarks]
  have hhm : ∀ m', t1.hasMark m' = t.hasMark m' := by intro m'; simp [Track.hasMark, hmarks]
  rcases addMark_cases t1 m with ⟨e, hs⟩ | ⟨e, _, hnc⟩ <;> rw [e]
  · -- nothing added
    refine ⟨by intro pre m' he; rw [hmarks] at he; exact h.last pre m' he, ?_, ?_, ?_,
      by rw [hhm]; exact h.created⟩
    · intro hnc p hp
      rcases hs with hs | hs
      · rw [hskip hs hnc]
        rw [hmarks] at hp
        exact h.snap (by rw [← hc]; exact hnc) p hp
      · rw [hs] at hnc; cases hnc
    · rw [hhm, hcmd]; exact h.cmdSet
    · intro hx; rw [hhm] at hx; exact hforced (h.forced hx)
  · apply h.push m (by show t1.marks ++ [(m, t1.free)] = t.marks ++ [(m, t1.free)]; rw [hmarks])
      (by rw [← hc]; exact hnc)
    · rw [hasMark_push, hhm, hcmd, h.cmdSet]
      have : (m == Mark.cmdSet) = false := by simpa using hm
      simp [this]
    · rw [hasMark_push, hhm]
      intro hx
      simp only [Bool.or_eq_true, beq_iff_eq] at hx
      rcases hx with hx | hx
      · exact hforced (h.forced hx)
      · exact hf hx

/-! ### the record functions of the tracking calls -/

def fCancelled (b : Bool) (t : Track) : Track :=
  (if b then { t with nCancelled := true } else t).addMark .cancelled
def fForced (t : Track) : Track := { t with nForced := true }.addMark .forced
def fCompleted (t : Track) : Track := (if t.nFailed then t else { t with nCompleted := true }).addMark .completed
def fFailed (t : Track) : Track := { t with nFailed := true }.addMark .failed
def fStarted (ser : Nat) (t : Track) : Track :=
  let t' := t.addMark .started
  if t'.hasMark .cmdSet || t'.concluded then t' else { t'.addMark .cmdSet with cmd := some ser }

/-- What a tracking call does to the state: nothing (tracking off), or it rewrites the record `i`. -/
def Marked (s s' : State) (i : Nat) (f : Track → Track) : Prop :=
  (s.tracking = false ∧ s' = s) ∨ (s.tracking = true ∧ s' = { s with track := modTrack s.track i f })

theorem markCancelled_shape {s s' : State} {i : Nat} {b : Bool} (h : markCancelled s i b = some s') :
    Marked s s' i (fCancelled b) := by
  unfold markCancelled at h
  split at h
  · rename_i ht
    cases h
    exact Or.inl ⟨by simpa using ht, rfl⟩
  · rename_i ht
    split at h
    · cases h
    · rename_i t hg
      split at h
      · cases h
      · cases h
        exact Or.inr ⟨by simpa using ht, rfl⟩

theorem markForced_shape {s s' : State} {i : Nat} (h : markForced s i = some s') : Marked s s' i fForced := by
  unfold markForced at h
  split at h
  · rename_i ht
    cases h
    exact Or.inl ⟨by simpa using ht, rfl⟩
  · rename_i ht
    split at h
    · cases h
    · rename_i t hg
      split at h
      · cases h
      · cases h
        exact Or.inr ⟨by simpa using ht, rfl⟩

theorem markCompleted_shape {s s' : State} {i : Nat} (h : markCompleted s i = some s') :
    Marked s s' i fCompleted := by
  unfold markCompleted at h
  split at h
  · rename_i ht
    cases h
    exact Or.inl ⟨by simpa using ht, rfl⟩
  · rename_i ht
    split at h
    · cases h
    · rename_i t hg
      cases h
      exact Or.inr ⟨by simpa using ht, rfl⟩

theorem markFailed_shape {s s' : State} {i : Nat} (h : markFailed s i = some s') : Marked s s' i fFailed := by
  unfold markFailed at h
  split at h
  · rename_i ht
    cases h
    exact Or.inl ⟨by simpa using ht, rfl⟩
  · rename_i ht
    split at h
    · cases h
    · rename_i t hg
      cases h
      exact Or.inr ⟨by simpa using ht, rfl⟩

theorem markUodStarted_shape {s s' : State} {i ser : Nat} (h : markUodStarted s i ser = some s') :
    Marked s s' i (fStarted ser) := by
  unfold markUodStarted at h
  split at h
  · rename_i ht
    cases h
    exact Or.inl ⟨by simpa using ht, rfl⟩
  · rename_i ht
    split at h
    · cases h
    · rename_i t hg
      cases h
      exact Or.inr ⟨by simpa using ht, rfl⟩

theorem markReqCancelled_shape {s s' : State} {i : Nat} (h : markReqCancelled s i = some s') :
    ∃ b, Marked s s' i (fCancelled b) := by
  unfold markReqCancelled at h
  split at h
  · rename_i s1 h1
    cases h
    exact ⟨true, markCancelled_shape h1⟩
  · split at h
    · exact ⟨false, markCancelled_shape h⟩
    · cases h

theorem modTrack_none (tr : List Track) (i : Nat) (f : Track → Track) (h : getTrack tr i = none) :
    modTrack tr i f = tr := by
  unfold getTrack at h
  unfold modTrack
  conv => rhs; rw [← List.map_id tr]
  apply List.map_congr_left
  intro t ht
  have := List.find?_eq_none.mp h t ht
  simp at this
  simp [this]

@[simp] theorem markDone_stale (s : State) (r : Req) : (markDone s r).stale = s.stale := by
  md_frame

theorem State.track_eta (s : State) : ({ s with track := s.track } : State) = s := rfl

/-- The tracking calls whose failure (`ValueError`: no record) the caller ignores. -/
theorem markFailed_getD (s : State) (i : Nat) : Marked s ((markFailed s i).getD s) i fFailed := by
  cases hmk : markFailed s i with
  | some s' => exact markFailed_shape hmk
  | none =>
    unfold markFailed at hmk
    split at hmk
    · cases hmk
    · rename_i ht
      split at hmk
      · rename_i hg
        refine Or.inr ⟨by simpa using ht, ?_⟩
        simp only [Option.getD_none]
        rw [modTrack_none _ _ _ hg]
      · cases hmk

theorem Marked.fields {s s' : State} {i : Nat} {f : Track → Track} (hm : Marked s s' i f) :
    s'.objs = s.objs ∧ s'.done = s.done ∧ s'.stale = s.stale ∧ s'.events = s.events ∧ s'.queue = s.queue ∧
    s'.executing = s.executing ∧ s'.tracking = s.tracking ∧ s'.cfg = s.cfg ∧ s'.nextId = s.nextId := by
  rcases hm with ⟨_, rfl⟩ | ⟨_, rfl⟩ <;> simp

/-! facts about the record functions -/

theorem fCancelled_facts (b : Bool) (t : Track) :
    (fCancelled b t).id = t.id ∧ (fCancelled b t).cmd = t.cmd ∧ (fCancelled b t).concluded = true ∧
    ((fCancelled b t).hasMark .started = true → t.hasMark .started = true) := by
  unfold fCancelled
  refine ⟨by simp; split <;> rfl, by simp; split <;> rfl, addMark_concluded_of _ _ rfl, ?_⟩
  intro h
  rcases addMark_hasMark _ _ _ h with h | h
  · split at h <;> exact h
  · cases h

theorem fCancelled_tok (b : Bool) {t : Track} (h : TOK t) : TOK (fCancelled b t) := by
  unfold fCancelled
  apply h.flagThen .cancelled (by decide)
  · split <;> rfl
  · split <;> rfl
  · intro hx; split <;> exact hx
  · intro hx; cases hx
  · intro hx hnc
    rw [hasMark_concluded hx rfl] at hnc; cases hnc

theorem fForced_facts (t : Track) :
    (fForced t).id = t.id ∧ (fForced t).cmd = t.cmd ∧ ((fForced t).concluded = true → t.concluded = true) ∧
    ((fForced t).hasMark .started = true → t.hasMark .started = true) := by
  unfold fForced
  refine ⟨by simp, by simp, ?_, ?_⟩
  · intro h
    have := addMark_concluded_inv _ _ (by rfl) h
    simpa [Track.concluded] using this
  · intro h
    rcases addMark_hasMark _ _ _ h with h | h
    · exact h
    · cases h

theorem fForced_tok {t : Track} (h : TOK t) : TOK (fForced t) := by
  unfold fForced
  apply h.flagThen (t1 := { t with nForced := true }) .forced (by decide) rfl rfl (fun _ => rfl) (fun _ => rfl)
  intro hx _
  have : t.nForced = true := h.forced (by simpa [Track.hasMark] using hx)
  simp [Track.free, this]

theorem fCompleted_facts (t : Track) :
    (fCompleted t).id = t.id ∧ (fCompleted t).cmd = t.cmd ∧ (fCompleted t).concluded = true ∧
    ((fCompleted t).hasMark .started = true → t.hasMark .started = true) := by
  unfold fCompleted
  refine ⟨by simp; split <;> rfl, by simp; split <;> rfl, addMark_concluded_of _ _ rfl, ?_⟩
  intro h
  rcases addMark_hasMark _ _ _ h with h | h
  · split at h <;> exact h
  · cases h

theorem fCompleted_tok {t : Track} (h : TOK t) : TOK (fCompleted t) := by
  unfold fCompleted
  apply h.flagThen .completed (by decide)
  · split <;> rfl
  · split <;> rfl
  · intro hx; split <;> exact hx
  · intro hx; cases hx
  · intro hx hnc
    rw [hasMark_concluded hx rfl] at hnc; cases hnc

theorem fFailed_facts (t : Track) :
    (fFailed t).id = t.id ∧ (fFailed t).cmd = t.cmd ∧ (fFailed t).concluded = true ∧
    ((fFailed t).hasMark .started = true → t.hasMark .started = true) := by
  unfold fFailed
  refine ⟨by simp, by simp, addMark_concluded_of _ _ rfl, ?_⟩
  intro h
  rcases addMark_hasMark _ _ _ h with h | h
  · exact h
  · cases h

theorem fFailed_tok {t : Track} (h : TOK t) : TOK (fFailed t) := by
  unfold fFailed
  apply h.flagThen (t1 := { t with nFailed := true }) .failed (by decide) rfl rfl (fun hx => hx)
    (fun hx => by cases hx)
  intro hx hnc
  rw [hasMark_concluded hx rfl] at hnc; cases hnc

theorem fStarted_id (ser : Nat) (t : Track) : (fStarted ser t).id = t.id := by
  unfold fStarted
  simp only
  split <;> simp

theorem fStarted_concluded (ser : Nat) (t : Track) (h : (fStarted ser t).concluded = true) :
    t.concluded = true := by
  unfold fStarted at h
  simp only at h
  split at h
  · exact addMark_concluded_inv _ _ (by rfl) h
  · have h' : ((t.addMark .started).addMark .cmdSet).concluded = true := by
      simpa [Track.concluded] using h
    exact addMark_concluded_inv _ _ (by rfl) (addMark_concluded_inv _ _ (by rfl) h')

/-- The stored command is the old one, or — for a record that is open — the command that starts now. -/
theorem fStarted_cmd (ser : Nat) (t : Track) :
    (fStarted ser t).cmd = t.cmd ∨ ((fStarted ser t).cmd = some ser ∧ t.concluded = false) := by
  unfold fStarted
  simp only
  split
  · left; simp
  · rename_i hc
    right
    simp only [Bool.or_eq_true, not_or, Bool.not_eq_true] at hc
    refine ⟨rfl, ?_⟩
    cases htc : t.concluded with
    | false => rfl
    | true => rw [addMark_concluded_mono t .started htc] at hc; cases hc.2

theorem fStarted_tok (ser : Nat) {t : Track} (h : TOK t) : TOK (fStarted ser t) := by
  have h1 : TOK (t.addMark .started) := h.addMark .started (by decide) (fun hx => by cases hx)
  unfold fStarted
  simp only
  split
  · exact h1
  · rename_i hc
    simp only [Bool.or_eq_true, not_or, Bool.not_eq_true] at hc
    obtain ⟨hc1, hc2⟩ := hc
    rcases addMark_cases (t.addMark .started) .cmdSet with ⟨_, hh | hh⟩ | ⟨e, _, _⟩
    · rw [hc1] at hh; cases hh
    · rw [hc2] at hh; cases hh
    · rw [e]
      apply h1.push .cmdSet rfl hc2
      · simp [Track.hasMark]
      · intro hx
        have hx' : (t.addMark .started).hasMark .forced = true := by
          simpa [Track.hasMark] using hx
        exact h1.forced hx'


/-! ### the invariant -/

/-- What records, instances and requests say about each other (repaired code, `fixStop` included). -/
structure Rec (s : State) : Prop where
  fixS : s.cfg.fixStop = true ∧ s.cfg.fixInstr = true
  /-- no never-initialised instance is kept -/
  stale : s.stale = []
  off : s.tracking = false → s.track = []
  tok : ∀ t ∈ s.track, TOK t
  /-- the command stored with a record is the instance its request created; once the record is concluded the
  instance has been finalized -/
  cmdObj : ∀ t ∈ s.track, ∀ ser, t.cmd = some ser →
    ∃ o, getObj s.objs ser = some o ∧ o.owner = t.id ∧ (t.concluded = true → o.finalized = true)
  /-- a started command without conclusive state is still held by the manager -/
  held : ∀ t ∈ s.track, t.hasMark .started = true → t.concluded = false →
    ∃ r ∈ s.executing, r.id = t.id ∧ r.isUod = true ∧ r.id ∉ s.done
  ownName : ∀ o ∈ s.objs, ∀ r ∈ s.queue ++ s.executing, r.id = o.owner → r.name = .uod o.name ∧ r.bad = false
  ownLt : ∀ o ∈ s.objs, o.owner < s.nextId
  /-- an instance in the map is neither cancelled nor complete, and the request that created it is still
  executing -/
  ownHeld : ∀ o ∈ s.objs, o.inMap = true →
    o.cancelled = false ∧ o.complete = false ∧ ∃ r ∈ s.executing, r.id = o.owner ∧ r.id ∉ s.done

theorem mem_modTrack {tr : List Track} {i : Nat} {f : Track → Track} {t' : Track} (h : t' ∈ modTrack tr i f) :
    ∃ t ∈ tr, (t.id = i ∧ t' = f t) ∨ (t.id ≠ i ∧ t' = t) := by
  unfold modTrack at h
  obtain ⟨t, ht, rfl⟩ := List.mem_map.mp h
  refine ⟨t, ht, ?_⟩
  by_cases e : t.id = i
  · left; simp [e]
  · right; simp [e]

/-- A tracking call keeps the invariant when the rewritten record keeps its id and its local invariant, a
newly stored command is the right instance, a conclusive state comes with a finalized instance, and a new
Started state belongs to a request that is held. -/
theorem Rec.marked {s s' : State} {i : Nat} {f : Track → Track} (h : Rec s) (hm : Marked s s' i f)
    (hid : ∀ t, (f t).id = t.id) (htok : ∀ t, TOK t → TOK (f t))
    (hcmd : ∀ t ∈ s.track, t.id = i → ∀ ser, (f t).cmd = some ser →
      ∃ o, getObj s.objs ser = some o ∧ o.owner = t.id ∧ ((f t).concluded = true → o.finalized = true))
    (hst : ∀ t ∈ s.track, t.id = i → (f t).hasMark .started = true → (f t).concluded = false →
      ∃ r ∈ s.executing, r.id = t.id ∧ r.isUod = true ∧ r.id ∉ s.done) : Rec s' := by
  rcases hm with ⟨_, rfl⟩ | ⟨htk, rfl⟩
  · exact h
  · refine ⟨h.fixS, h.stale, ?_, ?_, ?_, ?_, h.ownName, h.ownLt, h.ownHeld⟩
    · intro hoff
      have : s.tracking = false := hoff
      rw [htk] at this; cases this
    · intro t' ht'
      obtain ⟨t, ht, ⟨_, rfl⟩ | ⟨_, rfl⟩⟩ := mem_modTrack ht'
      · exact htok t (h.tok t ht)
      · exact h.tok t' ht
    · intro t' ht' ser hser
      obtain ⟨t, ht, ⟨e, rfl⟩ | ⟨_, rfl⟩⟩ := mem_modTrack ht'
      · obtain ⟨o, h1, h2, h3⟩ := hcmd t ht e ser hser
        exact ⟨o, h1, by rw [hid]; exact h2, h3⟩
      · exact h.cmdObj t' ht ser hser
    · intro t' ht' h1 h2
      obtain ⟨t, ht, ⟨e, rfl⟩ | ⟨_, rfl⟩⟩ := mem_modTrack ht'
      · obtain ⟨r, hr, e1, e2⟩ := hst t ht e h1 h2
        exact ⟨r, hr, by rw [hid]; exact e1, e2⟩
      · exact h.held t' ht h1 h2

/-- A conclusive state (Cancelled, Completed, Failed) for request `i` whose instance — if it had one — has been
finalized. -/
theorem Rec.conclude {s s' : State} {i : Nat} {f : Track → Track} (h : Rec s) (hm : Marked s s' i f)
    (hf : ∀ t, (f t).id = t.id ∧ (f t).cmd = t.cmd ∧ (f t).concluded = true ∧
      ((f t).hasMark .started = true → t.hasMark .started = true))
    (htok : ∀ t, TOK t → TOK (f t))
    (hfin : ∀ t ∈ s.track, t.id = i → ∀ ser o, t.cmd = some ser → getObj s.objs ser = some o → o.finalized = true) :
    Rec s' := by
  apply h.marked hm (fun t => (hf t).1) htok
  · intro t ht e ser hser
    rw [(hf t).2.1] at hser
    obtain ⟨o, h1, h2, _⟩ := h.cmdObj t ht ser hser
    exact ⟨o, h1, h2, fun _ => hfin t ht e ser o hser h1⟩
  · intro t _ _ _ h2
    rw [(hf t).2.2.1] at h2; cases h2

theorem Rec.forced {s s' : State} {i : Nat} (h : Rec s) (hm : Marked s s' i fForced) : Rec s' := by
  apply h.marked hm (fun t => (fForced_facts t).1) (fun t ht => fForced_tok ht)
  · intro t ht _ ser hser
    rw [(fForced_facts t).2.1] at hser
    obtain ⟨o, h1, h2, h3⟩ := h.cmdObj t ht ser hser
    exact ⟨o, h1, h2, fun hc => h3 ((fForced_facts t).2.2.1 hc)⟩
  · intro t ht _ h1 h2
    apply h.held t ht ((fForced_facts t).2.2.2 h1)
    cases hc : t.concluded with
    | false => rfl
    | true =>
      have : (fForced t).concluded = true := by
        unfold fForced
        apply addMark_concluded_mono
        simpa [Track.concluded] using hc
      rw [this] at h2; cases h2

/-- `mark_uod_command_started` for the instance `ser` created by request `i`, which is held. -/
theorem Rec.started {s s' : State} {i ser : Nat} (h : Rec s) (hm : Marked s s' i (fStarted ser))
    (hobj : ∃ o, getObj s.objs ser = some o ∧ o.owner = i)
    (hheld : ∃ r ∈ s.executing, r.id = i ∧ r.isUod = true ∧ r.id ∉ s.done) : Rec s' := by
  apply h.marked hm (fStarted_id ser) (fun t ht => fStarted_tok ser ht)
  · intro t ht e ser' hser
    rcases fStarted_cmd ser t with hc | ⟨hc, hnc⟩
    · rw [hc] at hser
      obtain ⟨o, h1, h2, h3⟩ := h.cmdObj t ht ser' hser
      exact ⟨o, h1, h2, fun hcc => h3 (fStarted_concluded ser t hcc)⟩
    · rw [hc] at hser
      injection hser with hser
      subst hser
      obtain ⟨o, h1, h2⟩ := hobj
      refine ⟨o, h1, by rw [h2, e], fun hcc => ?_⟩
      rw [fStarted_concluded ser t hcc] at hnc; cases hnc
  · intro t _ e _ _
    obtain ⟨r, hr, e1, e2⟩ := hheld
    exact ⟨r, hr, by rw [e1, e], e2⟩

/-! ### objects rewritten in place -/

theorem getObj_map (objs : List Cmd) (G : Cmd → Cmd) (hG : ∀ o, (G o).serial = o.serial) (ser : Nat) :
    getObj (objs.map G) ser = (getObj objs ser).map G := by
  unfold getObj
  induction objs with
  | nil => rfl
  | cons a rest ih =>
    simp only [List.map_cons, List.find?_cons, hG]
    split
    · rfl
    · exact ih

theorem getObj_append (a b : List Cmd) (ser : Nat) (o : Cmd) (h : getObj a ser = some o) :
    getObj (a ++ b) ser = some o := by
  unfold getObj at *
  rw [List.find?_append, h]; rfl

/-- In-place rewrite of the objects by `G` (which keeps serial, name, owner, and does not reset `finalized`),
all the rest unchanged: the clauses about records follow; the ones about live instances are asked for. -/
theorem Rec.mapObjs {s s' : State} (h : Rec s) (G : Cmd → Cmd) (hobjs : s'.objs = s.objs.map G)
    (hG : ∀ o, (G o).serial = o.serial ∧ (G o).name = o.name ∧ (G o).owner = o.owner ∧
      (o.finalized = true → (G o).finalized = true))
    (hcfg : s'.cfg = s.cfg) (hstale : s'.stale = s.stale) (htk : s'.tracking = s.tracking)
    (htr : s'.track = s.track) (hq : s'.queue = s.queue) (hex : s'.executing = s.executing)
    (hdone : s'.done = s.done) (hn : s'.nextId = s.nextId)
    (hlive : ∀ o ∈ s.objs, (G o).inMap = true →
      o.inMap = true ∧ (G o).cancelled = o.cancelled ∧ (G o).complete = o.complete) : Rec s' := by
  refine ⟨by rw [hcfg]; exact h.fixS, by rw [hstale]; exact h.stale, by rw [htk, htr]; exact h.off,
    by rw [htr]; exact h.tok, ?_, by rw [htr, hex, hdone]; exact h.held, ?_, ?_, ?_⟩
  · intro t ht ser hser
    rw [htr] at ht
    obtain ⟨o, h1, h2, h3⟩ := h.cmdObj t ht ser hser
    refine ⟨G o, by rw [hobjs, getObj_map _ _ (fun o => (hG o).1), h1]; rfl, by rw [(hG o).2.2.1]; exact h2,
      fun hc => (hG o).2.2.2 (h3 hc)⟩
  · intro o' ho' r hr e
    rw [hobjs] at ho'
    obtain ⟨o, ho, rfl⟩ := List.mem_map.mp ho'
    rw [hq, hex] at hr
    rw [(hG o).2.2.1] at e
    rw [(hG o).2.1]
    exact h.ownName o ho r hr e
  · intro o' ho'
    rw [hobjs] at ho'
    obtain ⟨o, ho, rfl⟩ := List.mem_map.mp ho'
    rw [(hG o).2.2.1, hn]
    exact h.ownLt o ho
  · intro o' ho' hm
    rw [hobjs] at ho'
    obtain ⟨o, ho, rfl⟩ := List.mem_map.mp ho'
    obtain ⟨hm0, hc0, hc1⟩ := hlive o ho hm
    obtain ⟨a, a', r, hr, e1, e2⟩ := h.ownHeld o ho hm0
    exact ⟨by rw [hc0]; exact a, by rw [hc1]; exact a', r, by rw [hex]; exact hr,
      by rw [(hG o).2.2.1]; exact e1, by rw [hdone]; exact e2⟩

/-- Request `r` becomes done: its record is concluded (or the command never started) and it holds no instance. -/
theorem Rec.doneReq {s s' : State} (h : Rec s) (r : Req) (hobjs : s'.objs = s.objs)
    (hcfg : s'.cfg = s.cfg) (hstale : s'.stale = s.stale) (htk : s'.tracking = s.tracking)
    (htr : s'.track = s.track) (hq : s'.queue = s.queue) (hex : s'.executing = s.executing)
    (hdone : ∀ i, i ∈ s'.done → i ∈ s.done ∨ i = r.id) (hn : s'.nextId = s.nextId)
    (hrec : ∀ t ∈ s.track, t.id = r.id → t.hasMark .started = true → t.concluded = true)
    (hown : ∀ o ∈ s.objs, o.inMap = true → o.owner ≠ r.id) : Rec s' := by
  refine ⟨by rw [hcfg]; exact h.fixS, by rw [hstale]; exact h.stale, by rw [htk, htr]; exact h.off,
    by rw [htr]; exact h.tok, by rw [htr, hobjs]; exact h.cmdObj, ?_, by rw [hobjs, hq, hex]; exact h.ownName,
    by rw [hobjs, hn]; exact h.ownLt, ?_⟩
  · intro t ht h1 h2
    rw [htr] at ht
    obtain ⟨q, hq', e1, eu, e2⟩ := h.held t ht h1 h2
    refine ⟨q, by rw [hex]; exact hq', e1, eu, fun hd => ?_⟩
    rcases hdone _ hd with hd | hd
    · exact e2 hd
    · have := hrec t ht (by rw [← e1, hd]) h1
      rw [this] at h2; cases h2
  · intro o ho hm
    rw [hobjs] at ho
    obtain ⟨a, a', q, hq', e1, e2⟩ := h.ownHeld o ho hm
    refine ⟨a, a', q, by rw [hex]; exact hq', e1, fun hd => ?_⟩
    rcases hdone _ hd with hd | hd
    · exact e2 hd
    · exact hown o ho hm (by rw [← e1, hd])

end OPM.CmdMgr
