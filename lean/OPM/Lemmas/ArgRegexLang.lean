import OPM.Model.ArgRegexAst
import OPM.Lemmas.ArgRegex
/-! Declarative semantics of the regex ASTs of C22 and the languages of their building blocks. -/
namespace OPM.ArgRegex

/-- The set of strings an expression matches in full (standard semantics of regular expressions; named groups
    are transparent, `(?!)` matches nothing). -/
def Lang : Re → Str → Prop
  | .eps, s => s = []
  | .never, _ => False
  | .chr c, s => s = [c]
  | .cls .space, s => ∃ c, s = [c] ∧ isSpace c = true
  | .cls .digit, s => ∃ c, s = [c] ∧ isDigit c = true
  | .seq a b, s => ∃ x y, s = x ++ y ∧ Lang a x ∧ Lang b y
  | .alt a b, s => Lang a s ∨ Lang b s
  | .star a, s => ∃ parts : List Str, s = parts.flatten ∧ ∀ p ∈ parts, Lang a p
  | .grp _ a, s => Lang a s

theorem lang_seq (a b : Re) (s : Str) : Lang (.seq a b) s ↔ ∃ x y, s = x ++ y ∧ Lang a x ∧ Lang b y := by
  simp [Lang]

theorem lang_alt (a b : Re) (s : Str) : Lang (.alt a b) s ↔ Lang a s ∨ Lang b s := by simp [Lang]

theorem lang_star (a : Re) (s : Str) :
    Lang (.star a) s ↔ ∃ parts : List Str, s = parts.flatten ∧ ∀ p ∈ parts, Lang a p := by simp [Lang]

theorem lang_grp (n : Str) (a : Re) (s : Str) : Lang (.grp n a) s ↔ Lang a s := by simp [Lang]

theorem lang_opt (a : Re) (s : Str) : Lang a.opt s ↔ Lang a s ∨ s = [] := by simp [Re.opt, Lang]

theorem lang_seqL_cons (a : Re) (l : List Re) (s : Str) :
    Lang (seqL (a :: l)) s ↔ ∃ x y, s = x ++ y ∧ Lang a x ∧ Lang (seqL l) y := by simp [seqL, Lang]

theorem lang_seqL_nil (s : Str) : Lang (seqL []) s ↔ s = [] := by simp [seqL, Lang]

theorem lang_seqL_append (l1 l2 : List Re) (s : Str) :
    Lang (seqL (l1 ++ l2)) s ↔ ∃ x y, s = x ++ y ∧ Lang (seqL l1) x ∧ Lang (seqL l2) y := by
  induction l1 generalizing s with
  | nil =>
    simp only [List.nil_append, lang_seqL_nil]
    constructor
    · intro h; exact ⟨[], s, rfl, rfl, h⟩
    · rintro ⟨x, y, rfl, rfl, hy⟩; simpa using hy
  | cons a l ih =>
    simp only [List.cons_append, lang_seqL_cons, ih]
    constructor
    · rintro ⟨x, y, rfl, hx, u, v, rfl, hu, hv⟩
      exact ⟨x ++ u, v, by simp, ⟨x, u, rfl, hx, hu⟩, hv⟩
    · rintro ⟨xy, v, rfl, ⟨x, u, rfl, hx, hu⟩, hv⟩
      exact ⟨x, u ++ v, by simp, hx, u, v, rfl, hu, hv⟩

theorem lang_mkSeq (l : List Re) (s : Str) : Lang (mkSeq l) s ↔ Lang (seqL l) s := by
  match l with
  | [] => rfl
  | [a] =>
    simp only [mkSeq, lang_seqL_cons, lang_seqL_nil]
    constructor
    · intro h; exact ⟨s, [], by simp, h, rfl⟩
    · rintro ⟨x, y, rfl, hx, rfl⟩; simpa using hx
  | _ :: _ :: _ => rfl

theorem lang_altL (l : List Re) (s : Str) : Lang (altL l) s ↔ ∃ r ∈ l, Lang r s := by
  induction l with
  | nil => simp [altL, Lang]
  | cons a l ih => simp [altL, Lang, ih]

theorem lang_mkAlt (l : List Re) (s : Str) : Lang (mkAlt l) s ↔ ∃ r ∈ l, Lang r s := by
  match l with
  | [] => simp [mkAlt, altL, Lang]
  | [a] => simp [mkAlt]
  | a :: b :: l => exact lang_altL _ s

theorem lang_lit (x s : Str) : Lang (lit x) s ↔ s = x := by
  unfold lit
  rw [lang_mkSeq]
  induction x generalizing s with
  | nil => simp [lang_seqL_nil]
  | cons c x ih =>
    simp only [List.map_cons, lang_seqL_cons, ih, Lang]
    constructor
    · rintro ⟨a, b, rfl, rfl, rfl⟩; rfl
    · rintro rfl; exact ⟨[c], x, rfl, rfl, rfl⟩

theorem lang_alts_lit (xs : List Str) (s : Str) : Lang (mkAlt (xs.map lit)) s ↔ s ∈ xs := by
  rw [lang_mkAlt]
  constructor
  · rintro ⟨r, hr, hs⟩
    obtain ⟨x, hx, rfl⟩ := List.mem_map.mp hr
    rw [lang_lit] at hs; exact hs ▸ hx
  · intro h; exact ⟨lit s, List.mem_map.mpr ⟨s, h, rfl⟩, (lang_lit s s).mpr rfl⟩

/-- `c*` over a character class given by a predicate. -/
theorem lang_star_class (a : Re) (p : Char → Bool) (ha : ∀ s, Lang a s ↔ ∃ c, s = [c] ∧ p c = true) (s : Str) :
    Lang (.star a) s ↔ ∀ c ∈ s, p c = true := by
  rw [lang_star]
  constructor
  · rintro ⟨parts, rfl, hp⟩ c hc
    obtain ⟨q, hq, hcq⟩ := List.mem_flatten.mp hc
    obtain ⟨d, rfl, hd⟩ := (ha q).mp (hp q hq)
    simp at hcq; exact hcq ▸ hd
  · intro h
    refine ⟨s.map (fun c => [c]), ?_, ?_⟩
    · induction s with
      | nil => rfl
      | cons c s ih => simp [List.flatten_cons, ← ih (fun d hd => h d (by simp [hd]))]
    · intro q hq
      obtain ⟨c, hc, rfl⟩ := List.mem_map.mp hq
      exact (ha [c]).mpr ⟨c, rfl, h c hc⟩

theorem lang_spaces (s : Str) : Lang (.star (.cls .space)) s ↔ allSpace s = true := by
  rw [lang_star_class (.cls .space) isSpace (fun s => by simp [Lang])]
  simp [allSpace, List.all_eq_true]

theorem lang_digits (s : Str) : Lang (.star (.cls .digit)) s ↔ AllDigits s := by
  rw [lang_star_class (.cls .digit) isDigit (fun s => by simp [Lang])]
  rfl

theorem lang_digits1 (s : Str) : Lang (Re.cls .digit).plus s ↔ s ≠ [] ∧ AllDigits s := by
  unfold Re.plus
  rw [lang_seq]
  constructor
  · rintro ⟨x, y, rfl, hx, hy⟩
    obtain ⟨c, rfl, hc⟩ : ∃ c, x = [c] ∧ isDigit c = true := by simpa [Lang] using hx
    rw [lang_digits] at hy
    refine ⟨by simp, ?_⟩
    intro d hd
    rcases List.mem_cons.mp hd with e | e
    · exact e ▸ hc
    · exact hy d e
  · rintro ⟨hne, hd⟩
    cases s with
    | nil => exact absurd rfl hne
    | cons c r =>
      refine ⟨[c], r, rfl, by simpa [Lang] using hd c (by simp), ?_⟩
      rw [lang_digits]; exact fun d hd' => hd d (by simp [hd'])

/-! ### the number group -/

theorem numBody_iff (io : Bool) (b : Str) :
    NumBody io b ↔ (b ≠ [] ∧ AllDigits b) ∨
      (io = false ∧ ((∃ d f, b = d ++ '.' :: f ∧ d ≠ [] ∧ AllDigits d ∧ AllDigits f) ∨
                     (∃ f, b = '.' :: f ∧ f ≠ [] ∧ AllDigits f))) := by
  constructor
  · intro h
    cases h with
    | int _ hne hd => exact Or.inl ⟨hne, hd⟩
    | frac d f hio hne hd hf => exact Or.inr ⟨hio, Or.inl ⟨d, f, rfl, hne, hd, hf⟩⟩
    | lead f hio hne hf => exact Or.inr ⟨hio, Or.inr ⟨f, rfl, hne, hf⟩⟩
  · rintro (⟨hne, hd⟩ | ⟨hio, ⟨d, f, rfl, hne, hd, hf⟩ | ⟨f, rfl, hne, hf⟩⟩)
    · exact NumBody.int b hne hd
    · exact NumBody.frac d f hio hne hd hf
    · exact NumBody.lead f hio hne hf

theorem lang_body_int (b : Str) : Lang (seqL [(Re.cls .digit).plus]) b ↔ b ≠ [] ∧ AllDigits b := by
  rw [← lang_mkSeq]; exact lang_digits1 b

theorem lang_body_frac (b : Str) :
    Lang (seqL [(Re.cls .digit).plus, .chr '.', .star (.cls .digit)]) b ↔
      ∃ d f, b = d ++ '.' :: f ∧ d ≠ [] ∧ AllDigits d ∧ AllDigits f := by
  simp only [lang_seqL_cons, lang_seqL_nil, lang_digits1, lang_digits]
  constructor
  · rintro ⟨d, y, rfl, ⟨hne, hd⟩, x, z, rfl, hx, f, e, rfl, hf, rfl⟩
    have : x = ['.'] := by simpa [Lang] using hx
    subst this
    exact ⟨d, f, by simp, hne, hd, hf⟩
  · rintro ⟨d, f, rfl, hne, hd, hf⟩
    exact ⟨d, '.' :: f, rfl, ⟨hne, hd⟩, ['.'], f, rfl, by simp [Lang], f, [], by simp, hf, rfl⟩

theorem lang_body_lead (b : Str) :
    Lang (seqL [.chr '.', (Re.cls .digit).plus]) b ↔ ∃ f, b = '.' :: f ∧ f ≠ [] ∧ AllDigits f := by
  simp only [lang_seqL_cons, lang_seqL_nil, lang_digits1]
  constructor
  · rintro ⟨x, y, rfl, hx, f, e, rfl, ⟨hne, hf⟩, rfl⟩
    have : x = ['.'] := by simpa [Lang] using hx
    subst this
    exact ⟨f, by simp, hne, hf⟩
  · rintro ⟨f, rfl, hne, hf⟩
    exact ⟨['.'], f, rfl, by simp [Lang], f, [], by simp, ⟨hne, hf⟩, rfl⟩

/-- A body with the optional sign in front of it. -/
theorem lang_signed (nn : Bool) (rest : List Re) (n : Str) :
    Lang (mkSeq ((if nn then [] else [Re.opt (.chr '-')]) ++ rest)) n ↔
      Lang (seqL rest) n ∨ (nn = false ∧ ∃ b, n = '-' :: b ∧ Lang (seqL rest) b) := by
  rw [lang_mkSeq]
  cases nn with
  | true => simp
  | false =>
    simp only [Bool.false_eq_true, if_false, List.cons_append, List.nil_append, lang_seqL_cons, lang_opt, true_and]
    constructor
    · rintro ⟨x, y, rfl, hx | rfl, hy⟩
      · have : x = ['-'] := by simpa [Lang] using hx
        subst this
        exact Or.inr ⟨y, rfl, hy⟩
      · exact Or.inl (by simpa using hy)
    · rintro (h | ⟨b, rfl, hb⟩)
      · exact ⟨[], n, rfl, Or.inr rfl, h⟩
      · exact ⟨['-'], b, rfl, Or.inl (by simp [Lang]), hb⟩

/-- The alternatives of the `number` group denote exactly the decimal numbers of the documented language. -/
theorem lang_numAlts (nn io : Bool) (n : Str) : Lang (astNumAlts nn io) n ↔ IsNumber nn io n := by
  unfold astNumAlts IsNumber
  simp only [numBody_iff]
  cases io with
  | true =>
    simp only [if_true, lang_mkAlt, List.mem_cons, List.mem_nil_iff, or_false, or_self, exists_eq_left,
      lang_signed, lang_body_int, Bool.true_eq_false, false_and]
  | false =>
    simp only [Bool.false_eq_true, if_false, lang_mkAlt, List.mem_cons, List.mem_nil_iff, or_false,
      exists_eq_or_imp, exists_eq_left, lang_signed, lang_body_int, lang_body_frac, lang_body_lead, true_and]
    constructor
    · rintro ((h | ⟨h0, b, hb, h⟩) | (h | ⟨h0, b, hb, h⟩) | (h | ⟨h0, b, hb, h⟩))
      · exact Or.inl (Or.inr (Or.inl h))
      · exact Or.inr ⟨h0, b, hb, Or.inr (Or.inl h)⟩
      · exact Or.inl (Or.inr (Or.inr h))
      · exact Or.inr ⟨h0, b, hb, Or.inr (Or.inr h)⟩
      · exact Or.inl (Or.inl h)
      · exact Or.inr ⟨h0, b, hb, Or.inl h⟩
    · rintro ((h | h | h) | ⟨h0, b, hb, h | h | h⟩)
      · exact Or.inr (Or.inr (Or.inl h))
      · exact Or.inl (Or.inl h)
      · exact Or.inr (Or.inl (Or.inl h))
      · exact Or.inr (Or.inr (Or.inr ⟨h0, b, hb, h⟩))
      · exact Or.inl (Or.inr ⟨h0, b, hb, h⟩)
      · exact Or.inr (Or.inl (Or.inr ⟨h0, b, hb, h⟩))

/-! ### the additive loop -/

theorem lang_plus_items (ad : List Str) (t : Str) :
    Lang (.star (mkSeq [.chr '+', mkAlt (ad.map lit)])) t ↔
      ∃ items : List Str, (∀ a ∈ items, a ∈ ad) ∧ t = plusTail items := by
  have hitem : ∀ p : Str, Lang (mkSeq [.chr '+', mkAlt (ad.map lit)]) p ↔ ∃ a ∈ ad, p = '+' :: a := by
    intro p
    rw [lang_mkSeq]
    simp only [lang_seqL_cons, lang_seqL_nil, lang_alts_lit]
    constructor
    · rintro ⟨x, y, rfl, hx, a, e, rfl, ha, rfl⟩
      have : x = ['+'] := by simpa [Lang] using hx
      subst this
      exact ⟨a, ha, by simp⟩
    · rintro ⟨a, ha, rfl⟩
      exact ⟨['+'], a, rfl, by simp [Lang], a, [], by simp, ha, rfl⟩
  rw [lang_star]
  constructor
  · rintro ⟨parts, rfl, hp⟩
    induction parts with
    | nil => exact ⟨[], by simp, rfl⟩
    | cons p ps ih =>
      obtain ⟨items, hi, he⟩ := ih (fun q hq => hp q (by simp [hq]))
      obtain ⟨a, ha, rfl⟩ := (hitem p).mp (hp p (by simp))
      refine ⟨a :: items, ?_, by simp [plusTail, he]⟩
      intro x hx
      rcases List.mem_cons.mp hx with e | e
      · exact e ▸ ha
      · exact hi x e
  · rintro ⟨items, hi, rfl⟩
    refine ⟨items.map (fun a => '+' :: a), ?_, ?_⟩
    · clear hi
      induction items with
      | nil => rfl
      | cons a as ih => simp [plusTail, ih]
    · intro q hq
      obtain ⟨a, ha, rfl⟩ := List.mem_map.mp hq
      exact (hitem _).mpr ⟨a, hi a ha, rfl⟩

end OPM.ArgRegex
