import OPM.Model.ParseText
import OPM.Lemmas.ParseLine
/-! Helper lemma for C17/C18: the lines `str.splitlines` (model) produces contain no line-boundary character. -/
namespace OPM.ParseText
set_option linter.unusedSimpArgs false
open OPM.ParseLine

theorem splitAux_noBreak (cur text : List Char) (h : ∀ c ∈ cur, isBreak c = false) :
    ∀ l ∈ splitAux cur text, ∀ c ∈ l, isBreak c = false := by
  fun_induction splitAux cur text with
  | case1 cur hc => intro l hl; simp [*] at hl
  | case2 cur hc =>
    intro l hl c hcl
    simp only [List.mem_singleton] at hl
    subst hl
    exact h c (List.mem_reverse.mp hcl)
  | case3 cur t ih =>
    intro l hl c hcl
    simp only [List.mem_cons] at hl
    rcases hl with rfl | hl
    · exact h c (List.mem_reverse.mp hcl)
    · exact ih (by simp) l hl c hcl
  | case4 cur c t hne hb ih =>
    intro l hl c' hcl
    simp only [List.mem_cons] at hl
    rcases hl with rfl | hl
    · exact h c' (List.mem_reverse.mp hcl)
    · exact ih (by simp) l hl c' hcl
  | case5 cur c t hne hb ih =>
    intro l hl c' hcl
    apply ih _ l hl c' hcl
    intro x hx
    rcases List.mem_cons.mp hx with rfl | hx
    · simpa using hb
    · exact h x hx

/-! the column the parser assigns is the indentation of the text -/

theorem strip_nil_takeWhile {cs : List Char} (h : strip cs = []) : cs.takeWhile isSpace = cs := by
  unfold strip stripL at h
  have hd : cs.dropWhile isSpace = [] := by
    cases hdw : cs.dropWhile isSpace with
    | nil => rfl
    | cons y t =>
      have hy : isSpace y = false := by
        have := List.head_dropWhile_not isSpace (l := cs) (by rw [hdw]; simp)
        simpa [hdw] using this
      rw [hdw] at h
      unfold stripR at h
      rw [List.reverse_cons, dropWhile_snoc_neg _ hy] at h
      simp at h
  have := List.takeWhile_append_dropWhile (p := isSpace) (l := cs)
  rw [hd, List.append_nil] at this
  exact this

theorem scanLine_indent {cs : List Char} {s : Scan} (h : scanLine cs = some s) : s.indent = srcIndent cs := by
  unfold scanLine at h
  simp only at h
  split at h
  · cases h
  · split at h
    · cases h
    · cases h; rfl

theorem infoOf_src (fx fe : Bool) (uod : List String) (cs : List Char) (h : fe = true ∨ scannable cs = true) :
    infoOf (parseLineE fx fe uod cs) = srcInfoOf (parseLineE fx fe uod cs) cs := by
  unfold scannable at h
  unfold srcInfoOf infoOf parseLineE
  cases h1 : strip cs with
  | nil => simp [blankNode, srcIndent, strip_nil_takeWhile h1]
  | cons c t =>
    rw [h1] at h
    by_cases hc : c = '#'
    · simp [hc, blankNode, srcIndent]
    · cases h3 : scanLine cs with
      | some s => simp [hc, scanLine_indent h3]
      | none =>
        rcases h with h | h
        · simp [hc, h, blankNode, srcIndent]
        · simp [hc, h3] at h

theorem infos_eq_src (fx fe : Bool) (uod : List String) (text : List Char) (h : fe = true ∨ AllScannable text) :
    (nodesOf fx fe uod text).map infoOf = srcInfos fx fe uod text := by
  unfold nodesOf srcInfos
  rw [List.map_map]
  apply List.map_congr_left
  intro cs hcs
  apply infoOf_src
  rcases h with h | h
  · exact Or.inl h
  · exact Or.inr (h cs hcs)

end OPM.ParseText
