import OPM.Model.ParseText
/-! Helper lemma for C17/C18: the lines `str.splitlines` (model) produces contain no line-boundary character. -/
namespace OPM.ParseText
set_option linter.unusedSimpArgs false
open OPM.ParseLine

theorem splitAux_noBreak (cur text : List Char) (h : ∀ c ∈ cur, isBreak c = false) :
    ∀ l ∈ splitAux cur text, ∀ c ∈ l, isBreak c = false := by
  fun_induction splitAux cur text with
  | case1 cur hc => intro l hl; simp [*] at hl
  | case2 cur hc =>
    intro l hl c hcl
    simp only [List.mem_singleton] at hl
    subst hl
    exact h c (List.mem_reverse.mp hcl)
  | case3 cur t ih =>
    intro l hl c hcl
    simp only [List.mem_cons] at hl
    rcases hl with rfl | hl
    · exact h c (List.mem_reverse.mp hcl)
    · exact ih (by simp) l hl c hcl
  | case4 cur c t hne hb ih =>
    intro l hl c' hcl
    simp only [List.mem_cons] at hl
    rcases hl with rfl | hl
    · exact h c' (List.mem_reverse.mp hcl)
    · exact ih (by simp) l hl c' hcl
  | case5 cur c t hne hb ih =>
    intro l hl c' hcl
    apply ih _ l hl c' hcl
    intro x hx
    rcases List.mem_cons.mp hx with rfl | hx
    · simpa using hb
    · exact h x hx

end OPM.ParseText
