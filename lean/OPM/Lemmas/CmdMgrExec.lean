import OPM.Lemmas.CmdMgrCancel
/-!
The cancel loops of the model as instances of `cancelWhere`; creating and executing an instance under the
object invariant.
-/
namespace OPM.CmdMgr

/-- `_cancel_command` touches objects, events, `done` and the marks only. -/
theorem view_cancelCommand (s : State) (c : Req) : view (cancelCommand s c) = view s := by
  unfold cancelCommand
  cases c.name with
  | uod k =>
    simp only
    cases findLive s.objs k with
    | some o =>
      simp only
      split
      · split
        · rename_i s2 hmk
          have := (markReqCancelled_frame _ s2 c.id hmk).1
          rw [view_finalizeCommand, this]; rfl
        · rfl
      · simp
    | none =>
      simp only
      cases staleOwner s.stale k with
      | some ow =>
        simp only
        cases hmk : markReqCancelled s c.id with
        | none => rfl
        | some s2 =>
          have := (markReqCancelled_frame _ s2 c.id hmk).1
          simp only [view_markDone]
          show view (tomb s2 k ow) = view s
          rw [← this]; rfl
      | none =>
        simp only
        split
        · cases hmk : markReqCancelled (markDone s c) c.id with
          | none => simp
          | some s2 =>
            have := (markReqCancelled_frame _ s2 c.id hmk).1
            simp [this]
        · rfl
  | start => rfl
  | stop => rfl
  | restart => rfl

theorem view_cancelWhere (sel : Req → Bool) (chk : Bool) (l : List Req) (s : State) :
    view (cancelWhere sel chk l s) = view s := by
  induction l generalizing s with
  | nil => rfl
  | cons c rest ih =>
    simp only [cancelWhere]
    rw [ih]
    split
    · exact view_cancelCommand s c
    · rfl

def selSame (r : Req) (k : Nat) (c : Req) : Bool := c.name == .uod k && c.id != r.id

def selOverlap (cfg : Cfg) (r : Req) (k : Nat) (c : Req) : Bool :=
  c.id != r.id && (match c.name with | .uod j => !(conflictLists cfg j k).isEmpty | _ => false)

theorem cancelSame_eq (r : Req) (k : Nat) (l : List Req) (s : State) :
    cancelSame r k l s = cancelWhere (selSame r k) true l s := by
  induction l generalizing s with
  | nil => rfl
  | cons c rest ih =>
    simp only [cancelSame, cancelWhere, selSame]
    rw [ih]
    congr 1
    simp [Bool.and_assoc]

theorem cancelOverlap_eq (r : Req) (k : Nat) (l : List Req) (s : State) :
    cancelOverlap r k l s = cancelWhere (selOverlap s.cfg r k) true l s := by
  induction l generalizing s with
  | nil => rfl
  | cons c rest ih =>
    simp only [cancelOverlap, cancelWhere]
    rw [ih]
    have hA : ∀ (A : State), (A = s ∨ A = cancelCommand s c) → A.cfg = s.cfg := by
      rintro A (rfl | rfl)
      · rfl
      · exact (view_eq (view_cancelCommand s c)).2.2.2.2.2.2.2.2.2.2.2.2.2.2.2.1
    congr 1
    · congr 1
      apply hA
      cases hd : isDone s c <;> cases hi : (c.id != r.id) <;> cases hn : c.name <;> simp
      by_cases he : conflictLists s.cfg ‹Nat› k = []
      · exact Or.inl (fun h => absurd he h)
      · exact Or.inr (fun h => absurd h he)
    · cases hd : isDone s c <;> cases hi : (c.id != r.id) <;> cases hn : c.name <;>
        simp [selOverlap, hi, hn]

theorem cancelAll_eq (src : Name) (l : List Req) (s : State) :
    cancelAll src l s = cancelWhere (fun c => !(c.name == src)) false l s := by
  induction l generalizing s with
  | nil => rfl
  | cons c rest ih =>
    simp only [cancelAll, cancelWhere]
    rw [ih]
    congr 1
    by_cases h : c.name = src <;> simp [h]



theorem modObj_id_of_not_mem (objs : List Cmd) (ser : Nat) (f : Cmd → Cmd) (h : ∀ o ∈ objs, o.serial ≠ ser) :
    modObj objs ser f = objs := by
  unfold modObj
  conv => rhs; rw [← List.map_id objs]
  apply List.map_congr_left
  intro o ho
  simp [h o ho]

theorem modObj_append_new (objs : List Cmd) (c : Cmd) (f : Cmd → Cmd)
    (h : objs.map (·.serial) = List.range objs.length) (hc : c.serial = objs.length) :
    modObj (objs ++ [c]) c.serial f = objs ++ [f c] := by
  have : modObj objs c.serial f = objs := modObj_id_of_not_mem _ _ _ (fun o ho e => by
    have := serial_lt h ho; omega)
  simp [modObj] at this ⊢
  exact this

/-- A new instance that has just been initialised (its first callback). -/
theorem Core.spawn {s s' : State} (h : Core s) {c : Cmd} {r : Req}
    (hobjs : s'.objs = s.objs ++ [c]) (hser : c.serial = s.objs.length) (hm : c.inMap = true)
    (hfin : c.finalized = false) (hini : c.initialized = true) (hit : c.iters = 0)
    (hr : r ∈ s.executing) (hrn : r.name = .uod c.name) (hrb : r.bad = false) (hrd : r.id ∉ s.done)
    (hev : s'.events = s.events ++ [.init c.serial])
    (hex : s'.executing = s.executing) (hcfg : s'.cfg = s.cfg) (hdone : s'.done = s.done)
    (hnc : ∀ o ∈ s.objs, o.inMap = true → conflict s.cfg o.name c.name = false) : Core s' := by
  have hlt : ∀ o ∈ s.objs, o.serial < s.objs.length := fun o ho => serial_lt h.serials ho
  refine ⟨?_, ?_, ?_, ?_, ?_, ?_, ?_⟩
  · rw [hobjs]; simp [h.serials, hser, List.range_succ]
  · rw [hex]; exact h.ids
  · intro o ho hmo
    rw [hobjs] at ho
    rcases List.mem_append.mp ho with ho | ho
    · obtain ⟨a, d, q, hq, h1, h2, h3⟩ := h.live o ho hmo
      exact ⟨a, d, q, by rw [hex]; exact hq, h1, h2, by rw [hdone]; exact h3⟩
    · simp at ho; subst ho
      exact ⟨hfin, hini, r, by rw [hex]; exact hr, hrn, hrb, by rw [hdone]; exact hrd⟩
  · intro o ho hmo
    rw [hobjs] at ho
    rcases List.mem_append.mp ho with ho | ho
    · exact h.dead o ho hmo
    · simp at ho; subst ho; rw [hm] at hmo; cases hmo
  · intro a ha b hb ma mb hc
    rw [hobjs] at ha hb
    rw [hcfg] at hc
    rcases List.mem_append.mp ha with ha1 | ha2 <;> rcases List.mem_append.mp hb with hb1 | hb2
    · exact h.excl a ha1 b hb1 ma mb hc
    · simp at hb2; subst hb2
      rw [hnc a ha1 ma] at hc; cases hc
    · simp at ha2; subst ha2
      rw [conflict_symm, hnc b hb1 mb] at hc; cases hc
    · simp at ha2 hb2; subst ha2; subst hb2; rfl
  · intro o ho
    rw [hobjs] at ho
    rw [hev, traceOf_append]
    rcases List.mem_append.mp ho with ho | ho
    · rw [h.trace o ho]
      have : o.serial ≠ c.serial := by have := hlt o ho; omega
      simp [traceOf, Ev.serial, Ne.symm this]
    · simp at ho; subst ho
      have : traceOf s.events o.serial = [] := by
        simp only [traceOf, List.filter_eq_nil_iff]
        intro e he
        have := h.evBound e he
        simp; omega
      rw [this]
      simp [traceOf, Ev.serial, expected, hini, hit, hfin]
  · intro e he
    rw [hev] at he
    rw [hobjs]
    simp only [List.length_append, List.length_cons, List.length_nil]
    rcases List.mem_append.mp he with he | he
    · have := h.evBound e he; omega
    · simp at he; subst he; simp [Ev.serial, hser]

/-- One more iteration of a live instance. -/
theorem Core.exec {s : State} (h : Core s) {c : Cmd} (hc : c ∈ s.objs) (hm : c.inMap = true) :
    Core (execObj s c).1 := by
  obtain ⟨hfin, hini, q, hq, h1, h2, h3⟩ := h.live c hc hm
  have hinj := @serial_inj _ h.serials
  apply h.update (fun o => if o.serial == c.serial then
      { o with iters := c.iters + 1, complete := o.complete || execCompletes s c } else o)
      [.exec c.serial c.name c.iters]
  · simp [execObj, modObj]
  · simp [execObj]
  · simp [execObj]
  · simp [execObj]
  · intro o; split <;> simp
  · intro o _; split <;> simp
  · intro o ho hmo
    by_cases hs : o.serial = c.serial
    · have : o = c := hinj ho hc hs
      subst this
      simp only [beq_self_eq_true, if_true]
      exact ⟨hfin, hini, q, hq, h1, h2, by simpa [execObj] using h3⟩
    · simp only [beq_iff_eq, hs, if_false] at hmo ⊢
      obtain ⟨a, d, q', hq', g1, g2, g3⟩ := h.live o ho hmo
      exact ⟨a, d, q', hq', g1, g2, by simpa [execObj] using g3⟩
  · intro o ho hmo
    by_cases hs : o.serial = c.serial
    · have : o = c := hinj ho hc hs
      subst this
      simp [hm] at hmo
    · simp only [beq_iff_eq, hs, if_false] at hmo ⊢
      exact h.dead o ho hmo
  · intro o ho
    rw [traceOf_append, h.trace o ho]
    by_cases hs : o.serial = c.serial
    · have : o = c := hinj ho hc hs
      subst this
      simp only [beq_self_eq_true, if_true]
      simp [expected, hini, hfin, List.range_succ, traceOf, Ev.serial]
    · simp only [beq_iff_eq, hs, if_false]
      simp [traceOf, Ev.serial, Ne.symm hs]
  · intro e he
    simp at he; subst he
    exact serial_lt h.serials hc

end OPM.CmdMgr
