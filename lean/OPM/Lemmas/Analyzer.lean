import OPM.Model.Analyzer
import OPM.Lemmas.Units
/-!
Helper lemmas for C19 (model `OPM.Analyzer`).  Core Lean only.
-/
namespace OPM.Analyzer
open OPM.Units

/-! ### collections -/

theorem tagsHas_ok {E : Env} {n : String} (h : isBlank n = false) :
    tagsHas E n = .ok (E.tags.any (fun t => t.name == n)) := by
  simp [tagsHas, h]

theorem cmdsHas_ok {E : Env} {n : String} (h : isBlank n = false) :
    cmdsHas E n = .ok (E.cmds.any (fun c => c.name == n)) := by
  simp [cmdsHas, h]

theorem tagsGet_of_any {E : Env} {n : String} (hb : isBlank n = false)
    (h : E.tags.any (fun t => t.name == n) = true) : ∃ t, tagsGet E n = .ok t ∧ t ∈ E.tags := by
  cases hf : E.tags.find? (fun t => t.name == n) with
  | none =>
    rw [List.find?_eq_none] at hf
    rw [List.any_eq_true] at h
    obtain ⟨x, hx, hp⟩ := h
    exact absurd hp (hf x hx)
  | some t =>
    exact ⟨t, by simp [tagsGet, hb, hf], List.mem_of_find?_eq_some hf⟩

theorem cmdsGet_of_any {E : Env} {n : String} (hb : isBlank n = false)
    (h : E.cmds.any (fun c => c.name == n) = true) : ∃ c, cmdsGet E n = .ok c := by
  cases hf : E.cmds.find? (fun c => c.name == n) with
  | none =>
    rw [List.find?_eq_none] at hf
    rw [List.any_eq_true] at h
    obtain ⟨x, hx, hp⟩ := h
    exact absurd hp (hf x hx)
  | some c => exact ⟨c, by simp [cmdsGet, hb, hf]⟩

theorem any_false_of_no_name {α : Type} (l : List α) (f : α → String) (n : String)
    (h : ∀ x ∈ l, f x ≠ n) : l.any (fun x => f x == n) = false := by
  rw [List.any_eq_false]
  intro x hx
  simp [h x hx]

/-! ### `collect` -/

theorem collect_ok {f : Node → Except AErr (List Item)} {ns : List Node}
    (h : ∀ n ∈ ns, ∃ l, f n = .ok l) : ∃ l, collect f ns = .ok l := by
  induction ns with
  | nil => exact ⟨[], rfl⟩
  | cons n ns ih =>
    obtain ⟨l, hl⟩ := h n (List.mem_cons_self ..)
    obtain ⟨l', hl'⟩ := ih (fun m hm => h m (List.mem_cons_of_mem _ hm))
    exact ⟨l ++ l', by simp [collect, hl, hl']⟩

theorem collect_mem {f : Node → Except AErr (List Item)} {ns : List Node} {js : List Item}
    (h : collect f ns = .ok js) {n : Node} (hn : n ∈ ns) : ∃ l, f n = .ok l ∧ ∀ i ∈ l, i ∈ js := by
  induction ns generalizing js with
  | nil => cases hn
  | cons m ms ih =>
    simp only [collect] at h
    split at h
    · cases h
    · rename_i is his
      split at h
      · cases h
      · rename_i ks hks
        cases h
        rcases List.mem_cons.mp hn with rfl | hn'
        · exact ⟨is, his, fun i hi => List.mem_append_left _ hi⟩
        · obtain ⟨l, hl, hmem⟩ := ih hks hn'
          exact ⟨l, hl, fun i hi => List.mem_append_right _ (hmem i hi)⟩

theorem compatibleNames_error {T : UnitSys} (hT : T.WF = true) {u : Option String} {e : Err}
    (h : compatibleNames T u = .error e) : e = .invalidUnit := by
  cases u with
  | none => simp [compatibleNames] at h
  | some u =>
    cases hq : quantityOf T u with
    | error e' =>
      simp only [compatibleNames, hq] at h
      split at h
      · cases h
      · cases h; exact quantityOf_error hq
    | ok q =>
      obtain ⟨l, hl⟩ := compatibleNames_ok hT hq
      rw [hl] at h; cases h

/-- with the repair the unit suggestions never make the analysis raise, whatever the tag's unit is -/
theorem suggestedUnits_ok {E : Env} (hE : EnvWF E) (u : Option String) :
    ∃ l, suggestedUnits E true u = .ok l := by
  unfold suggestedUnits
  cases hc : compatibleNames E.units u with
  | ok l => exact ⟨l, rfl⟩
  | error e =>
    have := compatibleNames_error hE hc
    subst this
    exact ⟨[], rfl⟩

theorem areComparable_error {T : UnitSys} (hT : T.WF = true) {a b : Option String} {e : Err}
    (h : areComparable T a b = .error e) : e = .invalidUnit := by
  unfold areComparable at h
  by_cases hab : a = b
  · simp [hab] at h
  · simp only [hab, if_false] at h
    cases a with
    | none => cases b <;> simp at h
    | some ua =>
      cases b with
      | none => simp at h
      | some ub =>
        simp only at h
        cases hqa : quantityOf T ua with
        | error ea => rw [hqa] at h; simp only at h; cases h; exact quantityOf_error hqa
        | ok qa =>
          rw [hqa] at h; simp only at h
          cases hqb : quantityOf T ub with
          | error eb => rw [hqb] at h; simp only at h; cases h; exact quantityOf_error hqb
          | ok qb =>
            rw [hqb] at h; simp only at h
            obtain ⟨ca, hca⟩ := compatibleNames_ok hT hqa
            obtain ⟨cb, hcb⟩ := compatibleNames_ok hT hqb
            rw [hca, hcb] at h
            simp only at h
            split at h
            · cases h
            · split at h <;> cases h

theorem undefinedTag_repaired (E : Env) (an : An) (line : Nat) (name : String) :
    ∃ i, undefinedTag E true an line name = some i ∧ i.line = line ∧ i.isError = true ∧ i.id = "UndefinedTag" := by
  unfold undefinedTag
  split
  · split
    · exact ⟨_, rfl, rfl, rfl, rfl⟩
    · exact ⟨_, rfl, rfl, rfl, rfl⟩
  · exact ⟨_, rfl, rfl, rfl, rfl⟩

theorem undefinedTag_item {E : Env} {r : Bool} {an : An} {line : Nat} {name : String} {i : Item}
    (h : undefinedTag E r an line name = some i) : i.line = line ∧ i.isError = true := by
  unfold undefinedTag at h
  split at h
  · split at h
    · cases h; exact ⟨rfl, rfl⟩
    · split at h
      · cases h; exact ⟨rfl, rfl⟩
      · cases h
  · cases h; exact ⟨rfl, rfl⟩

/-- every item `afterTag` produces is an error on the node's line -/
theorem afterTag_items {E : Env} {an : An} {sim : Bool} {line : Nat} {c : Cond} {name : String} {l : List Item}
    {r : Bool} (h : afterTag E r an sim line c name = .ok l) : ∀ i ∈ l, i.line = line ∧ i.isError = true := by
  unfold afterTag at h
  repeat' split at h
  all_goals first
    | (cases h; intro i hi; simp only [List.mem_singleton] at hi; subst hi; exact ⟨rfl, rfl⟩)
    | (cases h; intro i hi; cases hi)
    | cases h

theorem afterTag_ok {E : Env} (hE : EnvWF E) (an : An) (sim : Bool) (line : Nat) (c : Cond) {name : String}
    (hb : isBlank name = false) (hh : E.tags.any (fun t => t.name == name) = true) :
    ∃ l, afterTag E true an sim line c name = .ok l := by
  obtain ⟨t, hg, ht⟩ := tagsGet_of_any hb hh
  obtain ⟨valid, hv⟩ := suggestedUnits_ok hE t.unit
  unfold afterTag
  simp only [hg, hv]
  repeat' split
  all_goals first
    | exact ⟨_, rfl⟩
    | (rename_i e he _; have := areComparable_error hE he; contradiction)
    | (rename_i e he; have := areComparable_error hE he; subst this; contradiction)
    | skip

theorem analyzeTov_items {E : Env} {r : Bool} {an : An} {sim : Bool} {n : Node} {l : List Item}
    (h : analyzeTov E r an sim n = .ok l) : ∀ i ∈ l, i.line = n.line ∧ i.isError = true := by
  unfold analyzeTov at h
  have single : ∀ (j : Item), j.line = n.line → j.isError = true → ∀ i ∈ [j], i.line = n.line ∧ i.isError = true := by
    intro j h1 h2 i hi
    simp only [List.mem_singleton] at hi
    subst hi
    exact ⟨h1, h2⟩
  split at h
  · cases h; exact single _ rfl rfl
  · split at h
    · cases h; exact single _ rfl rfl
    · split at h
      · cases h; exact single _ rfl rfl
      · split at h
        · cases h
        · exact afterTag_items h
        · split at h
          · rename_i i hi
            cases h
            exact single _ (undefinedTag_item hi).1 (undefinedTag_item hi).2
          · exact afterTag_items h

theorem analyzeTov_ok {E : Env} (hE : EnvWF E) (an : An) (sim : Bool) (n : Node) :
    ∃ l, analyzeTov E true an sim n = .ok l := by
  unfold analyzeTov
  cases hc : n.cond with
  | none => exact ⟨_, rfl⟩
  | some c =>
    cases hn : c.tagName with
    | none => simp only [hn]; exact ⟨_, rfl⟩
    | some name =>
      simp only [hn]
      by_cases hb : isBlank name = true
      · simp only [hb, if_true]; exact ⟨_, rfl⟩
      · have hb' : isBlank name = false := by simpa using hb
        simp only [hb', Bool.false_eq_true, if_false, tagsHas_ok hb']
        cases hh : E.tags.any (fun t => t.name == name) with
        | true => exact afterTag_ok hE an sim n.line c hb' hh
        | false =>
          obtain ⟨i, hi, _⟩ := undefinedTag_repaired E an n.line name
          simp only [hi]
          exact ⟨_, rfl⟩

/-- an undefined, non-blank tag name in a Watch / Alarm / Simulate gets exactly the "Undefined tag" item -/
theorem analyzeTov_undefined {E : Env} (an : An) (sim : Bool) (n : Node) (c : Cond) (name : String)
    (hc : n.cond = some c) (hn : c.tagName = some name) (hb : isBlank name = false)
    (hu : ∀ t ∈ E.tags, t.name ≠ name) :
    ∃ i, analyzeTov E true an sim n = .ok [i] ∧ i.line = n.line ∧ i.isError = true ∧ i.id = "UndefinedTag" := by
  obtain ⟨i, hi, h1, h2, h3⟩ := undefinedTag_repaired E an n.line name
  refine ⟨i, ?_, h1, h2, h3⟩
  unfold analyzeTov
  simp only [hc, hn, hb, Bool.false_eq_true, if_false, tagsHas_ok hb,
    any_false_of_no_name E.tags (·.name) name hu, hi]

theorem analyzeSimulateOff_ok {E : Env} (n : Node)
    (hw : isBlank n.arguments = true → n.arguments = "") : ∃ l, analyzeSimulateOff E true n = .ok l := by
  unfold analyzeSimulateOff
  split
  · exact ⟨_, rfl⟩
  · rename_i hne
    have hb : isBlank n.arguments = false := by
      cases h : isBlank n.arguments with
      | false => rfl
      | true => exact absurd (by simp [hw h]) hne
    simp only [tagsHas_ok hb]
    cases E.tags.any (fun t => t.name == n.arguments) with
    | true => exact ⟨_, rfl⟩
    | false =>
      obtain ⟨i, hi, _⟩ := undefinedTag_repaired E .simulate n.line n.arguments
      simp only [hi]
      exact ⟨_, rfl⟩

theorem analyzeSimulateOff_undefined {E : Env} (n : Node) (hb : isBlank n.arguments = false)
    (hu : ∀ t ∈ E.tags, t.name ≠ n.arguments) :
    ∃ i, analyzeSimulateOff E true n = .ok [i] ∧ i.line = n.line ∧ i.isError = true ∧ i.id = "UndefinedTag" := by
  obtain ⟨i, hi, h1, h2, h3⟩ := undefinedTag_repaired E .simulate n.line n.arguments
  refine ⟨i, ?_, h1, h2, h3⟩
  have hne : (n.arguments == "") = false := by
    cases h : n.arguments == "" with
    | false => rfl
    | true =>
      have : n.arguments = "" := by simpa using h
      rw [this] at hb
      exact absurd hb (by decide)
  unfold analyzeSimulateOff
  simp only [hne, Bool.false_eq_true, if_false, tagsHas_ok hb,
    any_false_of_no_name E.tags (·.name) n.arguments hu, hi]

theorem checkCommand_ok {E : Env} (n : Node) (hb : isBlank (cmdName n) = false) :
    ∃ l, checkCommand E n = .ok l := by
  unfold checkCommand
  simp only [cmdsHas_ok hb]
  cases hh : E.cmds.any (fun c => c.name == cmdName n) with
  | false =>
    simp only
    split <;> exact ⟨_, rfl⟩
  | true =>
    obtain ⟨c, hc⟩ := cmdsGet_of_any hb hh
    simp only [hc]
    repeat' split
    all_goals exact ⟨_, rfl⟩

theorem checkCommand_undefined {E : Env} (n : Node) (hb : isBlank (cmdName n) = false)
    (hu : ∀ c ∈ E.cmds, c.name ≠ cmdName n) :
    ∃ i, checkCommand E n = .ok [i] ∧ i.line = n.line ∧ i.isError = true ∧ i.id = "UndefinedCommand" := by
  unfold checkCommand
  simp only [cmdsHas_ok hb, any_false_of_no_name E.cmds (·.name) (cmdName n) hu]
  split
  · exact ⟨_, rfl, rfl, rfl, rfl⟩
  · exact ⟨_, rfl, rfl, rfl, rfl⟩

end OPM.Analyzer
