import OPM.Model.PlotPersist
/-! Helper lemmas for C29. -/
namespace OPM.PlotPersist

/-! ### maxFrom -/

theorem maxFrom_ge_start (m : Rat) (ts : List Rat) : m ≤ maxFrom m ts := by
  induction ts generalizing m with
  | nil => simp [maxFrom]
  | cons t ts ih =>
    simp only [maxFrom]
    split
    · have := ih t; grind
    · exact ih m

theorem maxFrom_ge (m : Rat) (ts : List Rat) : ∀ t ∈ m :: ts, t ≤ maxFrom m ts := by
  induction ts generalizing m with
  | nil => intro t ht; simp at ht; subst ht; simp [maxFrom]
  | cons u ts ih =>
    intro t ht
    simp only [maxFrom]
    simp only [List.mem_cons] at ht
    split
    · rcases ht with rfl | rfl | ht
      · have := maxFrom_ge_start u ts; grind
      · exact maxFrom_ge_start t ts
      · exact ih u t (by simp [ht])
    · rcases ht with rfl | rfl | ht
      · exact maxFrom_ge_start t ts
      · have := maxFrom_ge_start m ts; grind
      · exact ih m t (by simp [ht])

theorem maxFrom_mem (m : Rat) (ts : List Rat) : maxFrom m ts ∈ m :: ts := by
  induction ts generalizing m with
  | nil => simp [maxFrom]
  | cons u ts ih =>
    simp only [maxFrom]
    split
    · have := ih u; simp only [List.mem_cons] at this ⊢; grind
    · have := ih m; simp only [List.mem_cons] at this ⊢; grind

theorem latestTagTime_ge (tags : List (String × TagVal)) : ∀ p ∈ tags, p.2.time ≤ latestTagTime tags := by
  intro p hp
  unfold latestTagTime
  match tags, hp with
  | q :: qs, hp =>
    simp only [List.map_cons]
    apply maxFrom_ge
    simp only [List.mem_cons] at hp
    rcases hp with rfl | hp
    · simp
    · simp only [List.mem_cons, List.mem_map]; exact Or.inr ⟨p, hp, rfl⟩

/-! ### upsert -/

def keys (tags : List (String × TagVal)) : List String := tags.map (·.1)

def ofUpdate (u : Update) : String × TagVal := (u.name, ⟨u.value, u.time⟩)

theorem mem_upsert (pol : Policy) (tags : List (String × TagVal)) (u : Update) :
    ∀ p ∈ upsert pol tags u, p ∈ tags ∨ p = ofUpdate u := by
  induction tags with
  | nil => intro p hp; simp [upsert] at hp; exact Or.inr hp
  | cons q rest ih =>
    intro p hp
    obtain ⟨n, tv⟩ := q
    simp only [upsert] at hp
    split at hp
    · rename_i hn
      simp only [List.mem_cons] at hp
      rcases hp with rfl | hp
      · split
        · left; simp
        · right; simp [ofUpdate, hn]
      · left; simp [hp]
    · simp only [List.mem_cons] at hp
      rcases hp with rfl | hp
      · left; simp
      · rcases ih p hp with h | h
        · left; simp [h]
        · right; exact h

theorem keys_upsert (pol : Policy) (tags : List (String × TagVal)) (u : Update) :
    ∀ k ∈ keys (upsert pol tags u), k ∈ keys tags ∨ k = u.name := by
  intro k hk
  simp only [keys, List.mem_map] at hk
  obtain ⟨p, hp, rfl⟩ := hk
  rcases mem_upsert pol tags u p hp with h | h
  · left; exact List.mem_map.mpr ⟨p, h, rfl⟩
  · right; rw [h]; rfl

theorem nodup_upsert (pol : Policy) (tags : List (String × TagVal)) (u : Update) (h : (keys tags).Nodup) :
    (keys (upsert pol tags u)).Nodup := by
  induction tags with
  | nil => simp [upsert, keys]
  | cons q rest ih =>
    obtain ⟨n, tv⟩ := q
    simp only [keys, List.map_cons, List.nodup_cons] at h
    simp only [upsert]
    split
    · split <;> (simp only [keys, List.map_cons, List.nodup_cons]; exact h)
    · rename_i hn
      simp only [keys, List.map_cons, List.nodup_cons]
      refine ⟨?_, ih h.2⟩
      intro hmem
      rcases keys_upsert pol rest u n hmem with h' | h'
      · exact h.1 h'
      · exact hn h'

theorem nodup_applyUpdates (pol : Policy) (tags : List (String × TagVal)) (ups : List Update) (h : (keys tags).Nodup) :
    (keys (applyUpdates pol tags ups)).Nodup := by
  induction ups generalizing tags with
  | nil => exact h
  | cons u ups ih =>
    simp only [applyUpdates, List.foldl_cons]
    split
    · exact ih tags h
    · exact ih _ (nodup_upsert pol tags u h)

theorem mem_applyUpdates (pol : Policy) (tags : List (String × TagVal)) (ups : List Update) :
    ∀ p ∈ applyUpdates pol tags ups, p ∈ tags ∨ ∃ u ∈ ups, p = ofUpdate u := by
  induction ups generalizing tags with
  | nil => intro p hp; exact Or.inl hp
  | cons u ups ih =>
    intro p hp
    simp only [applyUpdates, List.foldl_cons] at hp
    split at hp
    · rcases ih tags p hp with h | ⟨v, hv, h⟩
      · exact Or.inl h
      · exact Or.inr ⟨v, by simp [hv], h⟩
    · rcases ih _ p hp with h | ⟨v, hv, h⟩
      · rcases mem_upsert pol tags u p h with h' | h'
        · exact Or.inl h'
        · exact Or.inr ⟨u, by simp, h'⟩
      · exact Or.inr ⟨v, by simp [hv], h⟩

/-! ### one call of `_persist_tag_values` -/

/-- "more than the interval" as the variant tests it: `d < x` (threshold `>`) or `d ≤ x` (threshold `>=`) -/
def Gap (pol : Policy) (d x : Rat) : Prop := if pol.strict then d < x else d ≤ x

theorem gap_mono (pol : Policy) (d x y : Rat) (h : Gap pol d x) (hxy : x ≤ y) : Gap pol d y := by
  unfold Gap at *; split at h <;> simp_all <;> grind

/-- What a written batch looks like: time `h`, run `rid`. -/
structure Batch (pol : Policy) (interval : Option Rat) (entries : List String) (rid : Nat) (tags : List (String × TagVal))
    (L : Option Rat) (h : Rat) (rs : List Row) : Prop where
  time : ∀ r ∈ rs, r.time = h
  run : ∀ r ∈ rs, r.run = rid
  src_le : ∀ r ∈ rs, r.src ≤ h
  src_gt : ∀ l, L = some l → ∀ r ∈ rs, l < r.src
  from_map : ∀ r ∈ rs, (r.name, (⟨r.value, r.src⟩ : TagVal)) ∈ tags
  has_entry : ∀ r ∈ rs, r.name ∈ entries
  names : (rs.map (·.name)).Nodup
  later : ∀ l, L = some l → l < h
  apart : ∀ l, L = some l → interval ≠ none ∧ ∀ d, interval = some d → Gap pol d (h - l)

theorem nodup_map_filterMap_rows (entries : List String) (rid : Nat) (h : Rat) (ps : List (String × TagVal))
    (hk : (keys ps).Nodup) :
    ((ps.filterMap (fun q => if entries.contains q.1 then some (⟨rid, q.1, h, q.2.value, q.2.time⟩ : Row) else none)).map
      (·.name)).Nodup := by
  induction ps with
  | nil => simp
  | cons p ps ih =>
    simp only [keys, List.map_cons, List.nodup_cons] at hk
    by_cases hc : entries.contains p.1 = true
    · simp only [List.filterMap_cons, hc, if_true, List.map_cons, List.nodup_cons]
      refine ⟨?_, ih hk.2⟩
      intro hmem
      simp only [List.mem_map, List.mem_filterMap] at hmem
      obtain ⟨r, ⟨q, hq, hr⟩, hname⟩ := hmem
      split at hr
      · cases hr
        apply hk.1
        simp only at hname
        rw [← hname]
        exact List.mem_map.mpr ⟨q, hq, rfl⟩
      · cases hr
    · simp only [List.filterMap_cons, hc]
      exact ih hk.2

theorem nodup_filter_keys (tags : List (String × TagVal)) (f : String × TagVal → Bool) (h : (keys tags).Nodup) :
    (keys (tags.filter f)).Nodup := by
  induction tags with
  | nil => simp [keys]
  | cons p ps ih =>
    simp only [keys, List.map_cons, List.nodup_cons] at h
    simp only [List.filter_cons]
    split
    · simp only [keys, List.map_cons, List.nodup_cons]
      refine ⟨?_, ih h.2⟩
      intro hm
      apply h.1
      simp only [List.mem_map] at hm ⊢
      obtain ⟨q, hq, hqe⟩ := hm
      exact ⟨q, (List.mem_filter.mp hq).1, hqe⟩
    · exact ih h.2

def batchRows (entries : List String) (rid : Nat) (h : Rat) (ps : List (String × TagVal)) : List Row :=
  ps.filterMap (fun q => if entries.contains q.1 then some ⟨rid, q.1, h, q.2.value, q.2.time⟩ else none)

theorem persist_not_exceeded (pol : Policy) (interval : Option Rat) (entries : List String) (rid : Nat)
    (tags : List (String × TagVal)) (L : Option Rat)
    (hex : thresholdExceeded pol interval L (latestTagTime tags) = false) :
    persist pol interval entries rid tags L = (L, .rows []) := by
  simp [persist, hex]

theorem persist_empty (pol : Policy) (interval : Option Rat) (entries : List String) (rid : Nat)
    (tags : List (String × TagVal)) (L : Option Rat)
    (hex : thresholdExceeded pol interval L (latestTagTime tags) = true) (hps : toPersist tags L = []) :
    persist pol interval entries rid tags L = (L, .valueError) := by
  simp [persist, hex, hps]

theorem persist_batch (pol : Policy) (interval : Option Rat) (entries : List String) (rid : Nat)
    (tags : List (String × TagVal)) (L : Option Rat) (p : String × TagVal) (ps : List (String × TagVal))
    (hex : thresholdExceeded pol interval L (latestTagTime tags) = true) (hps : toPersist tags L = p :: ps) :
    persist pol interval entries rid tags L =
      (some (maxFrom p.2.time (ps.map (·.2.time))),
       .rows (batchRows entries rid (maxFrom p.2.time (ps.map (·.2.time))) (p :: ps))) := by
  simp [persist, hex, hps, batchRows]

theorem batch_of_persist (pol : Policy) (interval : Option Rat) (entries : List String) (rid : Nat)
    (tags : List (String × TagVal)) (L : Option Rat) (p : String × TagVal) (ps : List (String × TagVal))
    (hk : (keys tags).Nodup)
    (hex : thresholdExceeded pol interval L (latestTagTime tags) = true) (hps : toPersist tags L = p :: ps) :
    Batch pol interval entries rid tags L (maxFrom p.2.time (ps.map (·.2.time)))
      (batchRows entries rid (maxFrom p.2.time (ps.map (·.2.time))) (p :: ps)) := by
  have hsub : ∀ q ∈ p :: ps, q ∈ tags ∧ (∀ l, L = some l → l < q.2.time) := by
    intro q hq
    rw [← hps] at hq
    simp only [toPersist, List.mem_filter] at hq
    refine ⟨hq.1, ?_⟩
    intro l hl
    subst hl
    simpa using hq.2
  have hmax : ∀ q ∈ p :: ps, q.2.time ≤ maxFrom p.2.time (ps.map (·.2.time)) := by
    intro q hq
    apply maxFrom_ge
    simp only [List.mem_cons] at hq
    rcases hq with rfl | hq
    · simp
    · simp only [List.mem_cons, List.mem_map]; exact Or.inr ⟨q, hq, rfl⟩
  have hlater : ∀ l, L = some l → l < maxFrom p.2.time (ps.map (·.2.time)) := by
    intro l hl
    have h1 := (hsub p (by simp)).2 l hl
    have h2 := hmax p (by simp)
    grind
  have hrow : ∀ r ∈ batchRows entries rid (maxFrom p.2.time (ps.map (·.2.time))) (p :: ps),
      ∃ q ∈ p :: ps, entries.contains q.1 = true ∧
        r = ⟨rid, q.1, maxFrom p.2.time (ps.map (·.2.time)), q.2.value, q.2.time⟩ := by
    intro r hr
    simp only [batchRows, List.mem_filterMap] at hr
    obtain ⟨q, hq, hqr⟩ := hr
    split at hqr
    · rename_i hc; cases hqr; exact ⟨q, hq, hc, rfl⟩
    · cases hqr
  constructor
  · intro r hr; obtain ⟨q, _, _, rfl⟩ := hrow r hr; rfl
  · intro r hr; obtain ⟨q, _, _, rfl⟩ := hrow r hr; rfl
  · intro r hr; obtain ⟨q, hq, _, rfl⟩ := hrow r hr; exact hmax q hq
  · intro l hl r hr; obtain ⟨q, hq, _, rfl⟩ := hrow r hr; exact (hsub q hq).2 l hl
  · intro r hr; obtain ⟨q, hq, _, rfl⟩ := hrow r hr; exact (hsub q hq).1
  · intro r hr; obtain ⟨q, _, hc, rfl⟩ := hrow r hr; simpa using hc
  · apply nodup_map_filterMap_rows
    rw [← hps]
    exact nodup_filter_keys tags _ hk
  · exact hlater
  · intro l hl
    subst hl
    simp only [thresholdExceeded] at hex
    split at hex
    · cases hex
    · rename_i d
      refine ⟨by simp, ?_⟩
      intro d' hd'
      cases hd'
      have hex' : Gap pol d (latestTagTime tags - l) := by
        unfold Gap; split <;> simp_all
      -- the latest tag is newer than `l`, hence among the persisted ones
      have hm : latestTagTime tags ≤ maxFrom p.2.time (ps.map (·.2.time)) := by
        by_cases hle : latestTagTime tags ≤ l
        · have := hlater l rfl; grind
        · have hatt : ∃ q ∈ tags, q.2.time = latestTagTime tags := by
            unfold latestTagTime
            match tags, hps with
            | [], hps => simp [toPersist] at hps
            | q :: qs, _ =>
              simp only [List.map_cons]
              have := maxFrom_mem q.2.time (qs.map (·.2.time))
              simp only [List.mem_cons, List.mem_map] at this
              rcases this with h | ⟨x, hx, hxe⟩
              · exact ⟨q, by simp, h.symm⟩
              · exact ⟨x, by simp [hx], hxe⟩
          obtain ⟨q, hq, hqt⟩ := hatt
          have hqin : q ∈ p :: ps := by
            rw [← hps]
            simp only [toPersist, List.mem_filter]
            refine ⟨hq, ?_⟩
            have : l < q.2.time := by grind
            simpa using this
          have := hmax q hqin
          grind
      exact gap_mono pol d _ _ hex' (by grind)

/-- The three possible results of `_persist_tag_values`. -/
theorem persist_cases (pol : Policy) (interval : Option Rat) (entries : List String) (rid : Nat)
    (tags : List (String × TagVal)) (L : Option Rat) (hk : (keys tags).Nodup) :
    persist pol interval entries rid tags L = (L, .rows []) ∨
    persist pol interval entries rid tags L = (L, .valueError) ∨
    ∃ h rs, persist pol interval entries rid tags L = (some h, .rows rs) ∧ Batch pol interval entries rid tags L h rs := by
  cases hex : thresholdExceeded pol interval L (latestTagTime tags) with
  | false => exact Or.inl (persist_not_exceeded _ _ _ _ _ _ hex)
  | true =>
    cases hps : toPersist tags L with
    | nil => exact Or.inr (Or.inl (persist_empty _ _ _ _ _ _ hex hps))
    | cons p ps =>
      exact Or.inr (Or.inr ⟨_, _, persist_batch _ _ _ _ _ _ p ps hex hps, batch_of_persist _ _ _ _ _ _ p ps hk hex hps⟩)

/-! ### a stream of tag-update messages for an active run -/

/-- the op is a `TagsUpdatedMsg` -/
def IsTags : Op → Prop
  | .tags _ _ => True
  | _ => False

def updatesOf : Op → List Update
  | .tags _ ups => ups
  | _ => []

/-- Everything the engine reported: the map content at the start plus every tag value of the messages. -/
def Reported (s : State) (ops : List Op) (p : String × TagVal) : Prop :=
  p ∈ s.tags ∨ ∃ op ∈ ops, ∃ u ∈ updatesOf op, p = ofUpdate u

theorem step_tags_active (s : State) (rid : Nat) (L : Option Rat) (mr : Option Nat) (ups : List Update)
    (hrun : s.run = some (rid, L)) (hk : (keys s.tags).Nodup) :
    (step s (.tags mr ups)).1.pol = s.pol ∧
    (step s (.tags mr ups)).1.interval = s.interval ∧ (step s (.tags mr ups)).1.entries = s.entries ∧
    (keys (step s (.tags mr ups)).1.tags).Nodup ∧
    (∀ p ∈ (step s (.tags mr ups)).1.tags, p ∈ s.tags ∨ ∃ u ∈ ups, p = ofUpdate u) ∧
    (((step s (.tags mr ups)).1.run = some (rid, L) ∧ rowsOf (step s (.tags mr ups)).2 = []) ∨
      ∃ h, (step s (.tags mr ups)).1.run = some (rid, some h) ∧
        Batch s.pol s.interval s.entries rid (step s (.tags mr ups)).1.tags L h (rowsOf (step s (.tags mr ups)).2)) := by
  cases mr with
  | none =>
    have : step s (.tags none ups) = (s, .skipped) := by simp [step, hrun]
    rw [this]
    exact ⟨rfl, rfl, rfl, hk, fun p hp => Or.inl hp, Or.inl ⟨hrun, rfl⟩⟩
  | some m =>
    have hst : step s (.tags (some m) ups) =
        ({ s with tags := applyUpdates s.pol s.tags ups,
                  run := some (rid, (persist s.pol s.interval s.entries rid (applyUpdates s.pol s.tags ups) L).1) },
         (persist s.pol s.interval s.entries rid (applyUpdates s.pol s.tags ups) L).2) := by
      simp [step, hrun]
    rw [hst]
    have hk' := nodup_applyUpdates s.pol s.tags ups hk
    refine ⟨rfl, rfl, rfl, hk', mem_applyUpdates s.pol s.tags ups, ?_⟩
    rcases persist_cases s.pol s.interval s.entries rid (applyUpdates s.pol s.tags ups) L hk' with h | h | ⟨h, rs, he, hb⟩
    · left; rw [h]; exact ⟨rfl, rfl⟩
    · left; rw [h]; exact ⟨rfl, rfl⟩
    · right; rw [he]; exact ⟨h, rfl, hb⟩

/-- The relation between an earlier row `a` and a later row `b` of the run. -/
def Ordered (pol : Policy) (interval : Option Rat) (a b : Row) : Prop :=
  (a.time = b.time ∧ a.name ≠ b.name) ∨
  (a.time < b.src ∧ interval ≠ none ∧ ∀ d, interval = some d → Gap pol d (b.time - a.time))

structure RowsOK (pol : Policy) (interval : Option Rat) (entries : List String) (rid : Nat) (L : Option Rat)
    (reported : String × TagVal → Prop) (rs : List Row) : Prop where
  each : ∀ r ∈ rs, r.run = rid ∧ r.src ≤ r.time ∧ r.name ∈ entries ∧ reported (r.name, ⟨r.value, r.src⟩)
  afterL : ∀ l, L = some l → ∀ r ∈ rs, l < r.src ∧ interval ≠ none ∧ ∀ d, interval = some d → Gap pol d (r.time - l)
  pair : rs.Pairwise (Ordered pol interval)

theorem runOps_cons (s : State) (op : Op) (ops : List Op) :
    runOps s (op :: ops) = ((runOps (step s op).1 ops).1, rowsOf (step s op).2 ++ (runOps (step s op).1 ops).2) := by
  simp [runOps]

theorem batch_pairwise (pol : Policy) (interval : Option Rat) (h : Rat) (rs : List Row)
    (ht : ∀ r ∈ rs, r.time = h) (hn : (rs.map (·.name)).Nodup) : rs.Pairwise (Ordered pol interval) := by
  induction rs with
  | nil => exact List.Pairwise.nil
  | cons r rs ih =>
    simp only [List.map_cons, List.nodup_cons] at hn
    refine List.Pairwise.cons ?_ (ih (fun x hx => ht x (by simp [hx])) hn.2)
    intro b hb
    left
    refine ⟨by rw [ht r (by simp), ht b (by simp [hb])], ?_⟩
    intro he
    apply hn.1
    rw [he]
    exact List.mem_map.mpr ⟨b, hb, rfl⟩

theorem rows_ok (ops : List Op) (hops : ∀ op ∈ ops, IsTags op) :
    ∀ (s : State) (rid : Nat) (L : Option Rat), s.run = some (rid, L) → (keys s.tags).Nodup →
      RowsOK s.pol s.interval s.entries rid L (Reported s ops) (runOps s ops).2 := by
  induction ops with
  | nil =>
    intro s rid L _ _
    exact ⟨by simp [runOps], by simp [runOps], by simp [runOps]⟩
  | cons op ops ih =>
    intro s rid L hrun hk
    have hop := hops op (by simp)
    match op, hop with
    | .tags mr ups, _ =>
      obtain ⟨hp, hi, he, hk₁, hsub, hcase⟩ := step_tags_active s rid L mr ups hrun hk
      rw [runOps_cons]
      have hrep : ∀ p, Reported (step s (.tags mr ups)).1 ops p → Reported s (.tags mr ups :: ops) p := by
        intro p hp
        rcases hp with hp | ⟨o, ho, u, hu, hpe⟩
        · rcases hsub p hp with h | ⟨u, hu, hpe⟩
          · exact Or.inl h
          · exact Or.inr ⟨.tags mr ups, by simp, u, hu, hpe⟩
        · exact Or.inr ⟨o, by simp [ho], u, hu, hpe⟩
      rcases hcase with ⟨hrun₁, hrows⟩ | ⟨h, hrun₁, hb⟩
      · have IH := ih (fun o ho => hops o (by simp [ho])) _ rid L hrun₁ hk₁
        rw [hp, hi, he] at IH
        rw [hrows, List.nil_append]
        exact ⟨fun r hr => let ⟨a, b, c, d⟩ := IH.each r hr; ⟨a, b, c, hrep _ d⟩, IH.afterL, IH.pair⟩
      · have IH := ih (fun o ho => hops o (by simp [ho])) _ rid (some h) hrun₁ hk₁
        rw [hp, hi, he] at IH
        refine ⟨?_, ?_, ?_⟩
        · intro r hr
          rcases List.mem_append.mp hr with hr | hr
          · refine ⟨hb.run r hr, ?_, hb.has_entry r hr, ?_⟩
            · rw [hb.time r hr]; exact hb.src_le r hr
            · rcases hsub _ (hb.from_map r hr) with h' | ⟨u, hu, hpe⟩
              · exact Or.inl h'
              · exact Or.inr ⟨.tags mr ups, by simp, u, hu, hpe⟩
          · obtain ⟨a, b, c, d⟩ := IH.each r hr
            exact ⟨a, b, c, hrep _ d⟩
        · intro l hl r hr
          have hlh := hb.later l hl
          have hap := hb.apart l hl
          rcases List.mem_append.mp hr with hr | hr
          · refine ⟨hb.src_gt l hl r hr, hap.1, ?_⟩
            rw [hb.time r hr]; exact hap.2
          · obtain ⟨a, b, c⟩ := IH.afterL h rfl r hr
            refine ⟨by grind, b, ?_⟩
            intro d hd
            exact gap_mono _ d _ _ (c d hd) (by grind)
        · rw [List.pairwise_append]
          refine ⟨batch_pairwise _ _ h _ hb.time hb.names, IH.pair, ?_⟩
          intro a ha b hb'
          right
          obtain ⟨x, y, z⟩ := IH.afterL h rfl b hb'
          rw [hb.time a ha]
          exact ⟨x, y, z⟩

/-- keys of the tag map stay unique, whatever happens -/
theorem nodup_step (s : State) (op : Op) (hk : (keys s.tags).Nodup) : (keys (step s op).1.tags).Nodup := by
  cases op with
  | uod r i => exact hk
  | newRun => exact hk
  | stopRun => exact hk
  | reconnect => simp [step, keys]
  | dupStart => exact hk
  | tags mr ups =>
    simp only [step]
    split
    · exact hk
    · exact hk
    · exact nodup_applyUpdates _ _ _ hk
    · exact nodup_applyUpdates _ _ _ hk

theorem nodup_runOps (ops : List Op) : ∀ (s : State), (keys s.tags).Nodup → (keys (runOps s ops).1.tags).Nodup := by
  induction ops with
  | nil => intro s h; exact h
  | cons op ops ih =>
    intro s h
    rw [runOps_cons]
    exact ih _ (nodup_step s op h)

end OPM.PlotPersist
