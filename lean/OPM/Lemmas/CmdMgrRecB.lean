import OPM.Lemmas.CmdMgrLoop
import OPM.Lemmas.CmdMgrRecA
/-!
The record invariant `Rec` through `_cancel_command`, the cancel loops, `_execute_uod_command` and the loop of
`execute_commands` (parallel to the `*_spec` theorems, which supply the object invariant of the states in between).
-/
namespace OPM.CmdMgr

/-- How a tracking call changed the records, seen from a state with the same records as the one it ran in. -/
def TrackStep (s s2 : State) (i : Nat) (f : Track → Track) : Prop :=
  (s.tracking = false ∧ s2.track = s.track) ∨ (s.tracking = true ∧ s2.track = modTrack s.track i f)

theorem Marked.trackStep {s1 s2 : State} {i : Nat} {f : Track → Track} (hm : Marked s1 s2 i f) (s : State)
    (htr : s1.track = s.track) (htk : s1.tracking = s.tracking) : TrackStep s s2 i f := by
  rcases hm with ⟨a, rfl⟩ | ⟨a, rfl⟩
  · exact Or.inl ⟨by rw [← htk]; exact a, htr⟩
  · exact Or.inr ⟨by rw [← htk]; exact a, by show modTrack s1.track i f = _; rw [htr]⟩

/-- The instance stored with the record of request `r` is finalized once no instance of `r`'s command is left. -/
theorem Rec.cmdFinal {s : State} (h : Rec s) (hcore : Core s) {r : Req} {k : Nat} (hr : r ∈ s.executing)
    (hk : r.name = .uod k) (hnone : ∀ o ∈ s.objs, o.inMap = true → o.name ≠ k) :
    ∀ t ∈ s.track, t.id = r.id → ∀ ser o, t.cmd = some ser → getObj s.objs ser = some o → o.finalized = true := by
  intro t ht e ser o hser hget
  obtain ⟨o', h1, h2, _⟩ := h.cmdObj t ht ser hser
  rw [hget] at h1
  injection h1 with h1
  subst h1
  have ho := (getObj_some hget).1
  cases hm : o.inMap with
  | false => exact hcore.dead o ho hm
  | true =>
    have := (h.ownName o ho r (List.mem_append_right _ hr) (by rw [h2, e])).1
    rw [hk] at this
    injection this with this
    exact absurd this.symm (hnone o ho hm)

theorem finF_fin {ser k : Nat} {x : Cmd} (h : x.serial = ser) : (finF ser k x).finalized = true := by
  simp only [finF, h, beq_self_eq_true, if_true]
  split <;> rfl

/-- A live instance `c` (rewritten by `g` first: cancelled flag, last iteration) is finalized on behalf of
request `r`, whose record gets a conclusive state. -/
theorem Rec.kill {s s2 : State} (h : Rec s) (hcore : Core s) {c : Cmd} {r : Req} (g : Cmd → Cmd) {f : Track → Track}
    (hc : c ∈ s.objs) (hm : c.inMap = true) (hr : r ∈ s.executing) (hrn : r.name = .uod c.name)
    (hg : ∀ o, (g o).serial = o.serial ∧ (g o).name = o.name ∧ (g o).owner = o.owner ∧
      (g o).finalized = o.finalized ∧ (g o).inMap = o.inMap)
    (hobjs : s2.objs = modObj s.objs c.serial g)
    (hv : view s2 = view s) (hdone : s2.done = s.done) (hstale : s2.stale = s.stale)
    (htr : TrackStep s s2 r.id f)
    (hf : ∀ t, (f t).id = t.id ∧ (f t).cmd = t.cmd ∧ (f t).concluded = true ∧
      ((f t).hasMark .started = true → t.hasMark .started = true))
    (htok : ∀ t, TOK t → TOK (f t)) :
    Rec (finalizeCommand s2 r c) := by
  obtain ⟨v1, v2, v3, _, _, _, _, _, _, _, _, _, _, _, v15, v16, _⟩ := view_eq hv
  have hinj := @serial_inj _ hcore.serials
  -- the objects after the finalize, as one rewrite of the old ones
  let G : Cmd → Cmd := fun o => finF c.serial c.name (if o.serial == c.serial then g o else o)
  have hfo : (finalizeCommand s2 r c).objs = s.objs.map G := by
    simp [finalizeCommand, finalizeObj_objs, hobjs, modObj, List.map_map, Function.comp_def, G]
  have hGp : ∀ o, (G o).serial = o.serial ∧ (G o).name = o.name ∧ (G o).owner = o.owner ∧
      (o.finalized = true → (G o).finalized = true) := by
    intro o
    simp only [G, finF]
    by_cases hs : o.serial = c.serial
    · simp only [hs, beq_self_eq_true, if_true, (hg o).1, (hg o).2.1]
      split <;> simp [(hg o).1, (hg o).2.1, (hg o).2.2.1]
    · simp only [beq_iff_eq, hs, if_false]
      split <;> simp_all
  -- an instance that is still in the map is an untouched one of another command
  have hkeep : ∀ o ∈ s.objs, (G o).inMap = true → o.inMap = true ∧ G o = o ∧ o.name ≠ c.name := by
    intro o ho hmo
    have hxn : (if o.serial == c.serial then g o else o).name = o.name := by
      split
      · exact (hg o).2.1
      · rfl
    obtain ⟨_, hne'⟩ := finF_live (show (finF c.serial c.name (if o.serial == c.serial then g o else o)).inMap = true
      from hmo)
    have hne : o.name ≠ c.name := by rw [← hxn]; exact hne'
    have hns : o.serial ≠ c.serial := fun e => hne (by rw [hinj ho hc e])
    have hGo : G o = o := by simp [G, finF, hns, hne]
    rw [hGo] at hmo
    exact ⟨hmo, hGo, hne⟩
  -- the records
  have htrk : (finalizeCommand s2 r c).track = s2.track := by simp [finalizeCommand]
  have hrecs : ∀ t' ∈ s2.track, (t' ∈ s.track ∧ (s.tracking = false ∨ t'.id ≠ r.id)) ∨
      ∃ t ∈ s.track, t.id = r.id ∧ t' = f t := by
    intro t' ht'
    rcases htr with ⟨a, e⟩ | ⟨_, e⟩
    · rw [e] at ht'; exact Or.inl ⟨ht', Or.inl a⟩
    · rw [e] at ht'
      obtain ⟨t, ht, ⟨e1, e2⟩ | ⟨e1, e2⟩⟩ := mem_modTrack ht'
      · exact Or.inr ⟨t, ht, e1, e2⟩
      · exact Or.inl ⟨by rw [e2]; exact ht, Or.inr (by rw [e2]; exact e1)⟩
  have hempty : s.tracking = false → s2.track = [] := by
    intro a
    rcases htr with ⟨_, e⟩ | ⟨b, _⟩
    · rw [e]; exact h.off a
    · rw [a] at b; cases b
  have hdn : ∀ i, i ∈ (finalizeCommand s2 r c).done → i ∈ s.done ∨ i = r.id := by
    intro i hi
    simp only [finalizeCommand] at hi
    rw [markDone_done_mem] at hi
    rcases hi with hi | ⟨e, _⟩
    · left; simpa [hdone] using hi
    · exact Or.inr e
  refine ⟨?_, ?_, ?_, ?_, ?_, ?_, ?_, ?_, ?_⟩
  · show (finalizeCommand s2 r c).cfg.fixStop = true ∧ (finalizeCommand s2 r c).cfg.fixInstr = true
    simp only [finalizeCommand, markDone_cfg, finalizeObj_cfg, v16]; exact h.fixS
  · show (finalizeCommand s2 r c).stale = []
    have : (finalizeCommand s2 r c).stale = s2.stale := by
      simp only [finalizeCommand]; unfold markDone; split <;> (try split) <;> rfl
    rw [this, hstale]; exact h.stale
  · intro hoff
    have : s.tracking = false := by
      rw [← v3]; simpa [finalizeCommand] using hoff
    rw [htrk]; exact hempty this
  · intro t' ht'
    rw [htrk] at ht'
    rcases hrecs t' ht' with ⟨ht, _⟩ | ⟨t, ht, _, rfl⟩
    · exact h.tok t' ht
    · exact htok t (h.tok t ht)
  · intro t' ht' ser hser
    rw [htrk] at ht'
    rw [hfo]
    rcases hrecs t' ht' with ⟨ht, _⟩ | ⟨t, ht, e, rfl⟩
    · obtain ⟨o, h1, h2, h3⟩ := h.cmdObj t' ht ser hser
      exact ⟨G o, by rw [getObj_map _ _ (fun o => (hGp o).1), h1]; rfl, by rw [(hGp o).2.2.1]; exact h2,
        fun hcc => (hGp o).2.2.2 (h3 hcc)⟩
    · rw [(hf t).2.1] at hser
      obtain ⟨o, h1, h2, _⟩ := h.cmdObj t ht ser hser
      have ho := (getObj_some h1).1
      refine ⟨G o, by rw [getObj_map _ _ (fun o => (hGp o).1), h1]; rfl,
        by rw [(hGp o).2.2.1, (hf t).1]; exact h2, fun _ => ?_⟩
      -- the instance of `r`'s own record: it is `c`, or it was finalized before
      cases hmo : o.inMap with
      | false => exact (hGp o).2.2.2 (hcore.dead o ho hmo)
      | true =>
        have hn := (h.ownName o ho r (List.mem_append_right _ hr) (by rw [h2, e])).1
        rw [hrn] at hn
        injection hn with hn
        have hs : o.serial = c.serial := hcore.excl o ho c hc hmo hm (by rw [hn]; exact conflict_self _ _)
        have hb : (o.serial == c.serial) = true := by simp [hs]
        show (finF c.serial c.name (if o.serial == c.serial then g o else o)).finalized = true
        rw [hb, if_pos rfl]
        exact finF_fin (by rw [(hg o).1]; exact hs)
  · intro t' ht' h1 h2
    rw [htrk] at ht'
    rcases hrecs t' ht' with ⟨ht, hor⟩ | ⟨t, _, _, rfl⟩
    · obtain ⟨q, hq, e1, eu, e2⟩ := h.held t' ht h1 h2
      refine ⟨q, by simpa [finalizeCommand, v2] using hq, e1, eu, fun hd => ?_⟩
      rcases hdn _ hd with hd | hd
      · exact e2 hd
      · rcases hor with a | a
        · have := h.off a; rw [this] at ht; cases ht
        · exact a (by rw [← e1, hd])
    · rw [(hf t).2.2.1] at h2; cases h2
  · intro o' ho' q hq e
    rw [hfo] at ho'
    obtain ⟨o, ho, rfl⟩ := List.mem_map.mp ho'
    have hq' : q ∈ s.queue ++ s.executing := by simpa [finalizeCommand, v1, v2] using hq
    rw [(hGp o).2.2.1] at e
    rw [(hGp o).2.1]
    exact h.ownName o ho q hq' e
  · intro o' ho'
    rw [hfo] at ho'
    obtain ⟨o, ho, rfl⟩ := List.mem_map.mp ho'
    rw [(hGp o).2.2.1]
    have : (finalizeCommand s2 r c).nextId = s.nextId := by
      show (markDone (finalizeObj s2 c) r).nextId = _
      rw [markDone_nextId]; exact v15
    rw [this]
    exact h.ownLt o ho
  · intro o' ho' hmo
    rw [hfo] at ho'
    obtain ⟨o, ho, rfl⟩ := List.mem_map.mp ho'
    obtain ⟨hm0, hGo, hne⟩ := hkeep o ho hmo
    rw [hGo]
    obtain ⟨a, a', q, hq, e1, e2⟩ := h.ownHeld o ho hm0
    refine ⟨a, a', q, by simpa [finalizeCommand, v2] using hq, e1, fun hd => ?_⟩
    rcases hdn _ hd with hd | hd
    · exact e2 hd
    · have hqr : q = r := req_id_inj hcore.ids hq hr hd
      subst hqr
      have hn := (h.ownName o ho q (List.mem_append_right _ hq) e1).1
      rw [hrn] at hn
      injection hn with hn
      exact hne hn.symm


/-- Request `r`, which holds no instance, becomes done and its record gets a conclusive state. -/
theorem Rec.dropReq {s s2 : State} (h : Rec s) (hcore : Core s) {r : Req} {k : Nat} {f : Track → Track}
    (hr : r ∈ s.executing) (hk : r.name = .uod k)
    (hnone : ∀ o ∈ s.objs, o.inMap = true → o.name ≠ k)
    (hobjs : s2.objs = s.objs) (hv : view s2 = view s) (hstale : s2.stale = s.stale)
    (hdone : ∀ i, i ∈ s2.done → i ∈ s.done ∨ i = r.id)
    (htr : TrackStep s s2 r.id f)
    (hf : ∀ t, (f t).id = t.id ∧ (f t).cmd = t.cmd ∧ (f t).concluded = true ∧
      ((f t).hasMark .started = true → t.hasMark .started = true))
    (htok : ∀ t, TOK t → TOK (f t)) : Rec s2 := by
  obtain ⟨v1, v2, v3, _, _, _, _, _, _, _, _, _, _, _, v15, v16, _⟩ := view_eq hv
  -- the records first
  have hT : Rec { s with track := s2.track } := by
    apply h.conclude (i := r.id) (f := f) ?_ hf htok (h.cmdFinal hcore hr hk hnone)
    rcases htr with ⟨a, e⟩ | ⟨a, e⟩
    · left; exact ⟨a, by rw [e]⟩
    · right; exact ⟨a, by rw [e]⟩
  apply hT.doneReq r hobjs v16 hstale v3 rfl v1 v2 hdone v15
  · intro t ht e _
    have ht' : t ∈ s2.track := ht
    rcases htr with ⟨a, e'⟩ | ⟨a, e'⟩
    · rw [e', h.off a] at ht'; cases ht'
    · rw [e'] at ht'
      obtain ⟨t0, _, ⟨_, e2⟩ | ⟨e1, e2⟩⟩ := mem_modTrack ht'
      · rw [e2]; exact (hf t0).2.2.1
      · rw [e2] at e; exact absurd e e1
  · intro o ho hm e
    have := (h.ownName o ho r (List.mem_append_right _ hr) e.symm).1
    rw [hk] at this
    injection this with this
    exact hnone o ho hm this.symm

theorem staleOwner_nil (k : Nat) : staleOwner [] k = none := rfl

/-- `_cancel_command` keeps the record invariant. -/
theorem cancelCommand_rec {s : State} (h : Rec s) (hcore : Core s) (hfix : s.cfg.fixCancel = true) {c : Req}
    {k : Nat} (hc : c ∈ s.executing) (hk : c.name = .uod k)
    (htr : s.tracking = true → c.id ∈ s.track.map (·.id)) : Rec (cancelCommand s c) := by
  unfold cancelCommand
  rw [hk]
  simp only
  cases hfl : findLive s.objs k with
  | some o =>
    obtain ⟨ho, hm, hn⟩ := findLive_some hfl
    obtain ⟨_, hcomp, _⟩ := h.ownHeld o ho hm
    simp only [hcomp, Bool.not_false, if_true]
    let s1 : State := { s with objs := modObj s.objs o.serial (fun o => { o with cancelled := true }) }
    have hsome := markReqCancelled_isSome s1 c.id hfix htr
    cases hmk : markReqCancelled s1 c.id with
    | none => simp [s1, hmk] at hsome
    | some s2 =>
      obtain ⟨b, hsh⟩ := markReqCancelled_shape hmk
      obtain ⟨f1, f2, f3, _, _, _, _, _, _⟩ := hsh.fields
      obtain ⟨hv, _, _, _⟩ := markReqCancelled_frame s1 s2 c.id hmk
      show Rec (finalizeCommand s2 c o)
      exact h.kill hcore (fun o => { o with cancelled := true }) ho hm hc (by rw [hk, hn]) (by intro o; simp) f1 hv
        f2 f3 (hsh.trackStep s rfl rfl) (fCancelled_facts b) (fun t ht => fCancelled_tok b ht)
  | none =>
    have hnone := findLive_none hfl
    simp only [h.stale, staleOwner_nil, hfix, Bool.true_and]
    by_cases hd : isDone s c = true
    · simp only [hd, Bool.not_true, Bool.false_eq_true, if_false]
      exact h
    · have hd' : isDone s c = false := by simpa using hd
      simp only [hd', Bool.not_false, if_true]
      have hsome := markReqCancelled_isSome (markDone s c) c.id (by simpa using hfix) (by simpa using htr)
      cases hmk : markReqCancelled (markDone s c) c.id with
      | none => simp [hmk] at hsome
      | some s2 =>
        simp only [Option.getD_some]
        obtain ⟨b, hsh⟩ := markReqCancelled_shape hmk
        obtain ⟨f1, f2, f3, _, _, _, _, _, _⟩ := hsh.fields
        obtain ⟨hv, _, _, _⟩ := markReqCancelled_frame _ s2 c.id hmk
        apply h.dropReq hcore hc hk hnone (by simp [f1]) (by rw [hv]; simp) (by simp [f3]) ?_
          (hsh.trackStep s (by simp) (by simp)) (fCancelled_facts b) (fun t ht => fCancelled_tok b ht)
        intro i hi
        rw [f2, markDone_done_mem] at hi
        rcases hi with hi | ⟨e, _⟩
        · exact Or.inl hi
        · exact Or.inr e

theorem cancelWhere_rec (sel : Req → Bool) (chk : Bool) (l : List Req) :
    ∀ {s : State}, Rec s → Core s → s.cfg.fixCancel = true → TrackEx s → (∀ c ∈ l, c ∈ s.executing) →
      Rec (cancelWhere sel chk l s) := by
  induction l with
  | nil => intro s h _ _ _ _; exact h
  | cons c rest ih =>
    intro s h hcore hfix htr hl
    simp only [cancelWhere]
    have hc : c ∈ s.executing := hl c (List.mem_cons_self ..)
    have hrest : ∀ x ∈ rest, x ∈ s.executing := fun x hx => hl x (List.mem_cons_of_mem _ hx)
    by_cases hcond : ((!chk || !isDone s c) && sel c) = true
    · rw [if_pos hcond]
      cases hu : c.isUod with
      | false =>
        rw [cancelCommand_life s c hu]
        exact ih h hcore hfix htr hrest
      | true =>
        obtain ⟨k, hk⟩ : ∃ k, c.name = .uod k := by
          cases hn : c.name <;> simp_all [Req.isUod]
        have q := cancelCommand_spec hcore hfix hc hk (fun ht => htr ht c hc hu)
        have hq := cancelCommand_rec h hcore hfix hc hk (fun ht => htr ht c hc hu)
        obtain ⟨_, hex, _, _, _, _, _, _, _, _, _, _, _, _, _, hcfg, _⟩ := view_eq q.view
        exact ih hq q.core (by rw [hcfg]; exact hfix) (htr.of_view q.view) (fun x hx => by rw [hex]; exact hrest x hx)
    · rw [if_neg hcond]
      exact ih h hcore hfix htr hrest


/-! ### executing a request -/

theorem execFailed_rec {s : State} (h : Rec s) (hcore : Core s) (hfix : s.cfg.fixCancel = true) (htr : TrackEx s)
    {r : Req} {k : Nat} (hr : r ∈ s.executing) (hk : r.name = .uod k) {o : Cmd} (ho : o ∈ s.objs)
    (hcan : o.cancelled = false) : Rec (execFailed s r k o.serial) := by
  unfold execFailed
  rw [getObj_of_mem hcore.serials ho]
  simp only [hcan, Bool.not_false, if_true]
  have hu : r.isUod = true := by simp [Req.isUod, hk]
  have q := cancelCommand_spec hcore hfix hr hk (fun ht => htr ht r hr hu)
  have hq := cancelCommand_rec h hcore hfix hr hk (fun ht => htr ht r hr hu)
  obtain ⟨_, hex, _, _, _, _, _, _, _, _, _, _, _, _, _, _, _⟩ := view_eq q.view
  exact hq.conclude (markFailed_getD _ r.id) fFailed_facts (fun t ht => fFailed_tok ht)
    (hq.cmdFinal q.core (by rw [hex]; exact hr) hk q.noLive)

def execG (s : State) (c : Cmd) (o : Cmd) : Cmd :=
  { o with iters := c.iters + 1, complete := o.complete || execCompletes s c }

theorem execObj_objs (s : State) (c : Cmd) : (execObj s c).1.objs = modObj s.objs c.serial (execG s c) := rfl

theorem markDone_withTrack (s : State) (r : Req) (T : List Track) :
    markDone { s with track := T } r = { markDone s r with track := T } := by
  unfold markDone
  split <;> (try split) <;> rfl

/-- The Failed state of `_execute_command`'s handler and the finalize of the clean-up commute. -/
theorem markFailed_finalize_comm (s : State) (r : Req) (c : Cmd) (i : Nat) :
    (markFailed (finalizeCommand s r c) i).getD (finalizeCommand s r c) =
      finalizeCommand ((markFailed s i).getD s) r c := by
  have h1 : (finalizeCommand s r c).tracking = s.tracking := by simp [finalizeCommand]
  have h2 : (finalizeCommand s r c).track = s.track := by simp [finalizeCommand]
  rcases markFailed_getD (finalizeCommand s r c) i with ⟨a, e⟩ | ⟨a, e⟩ <;>
    rcases markFailed_getD s i with ⟨b, e'⟩ | ⟨b, e'⟩
  · rw [e, e']
  · rw [h1, b] at a; cases a
  · rw [h1, b] at a; cases a
  · rw [e, e', h2]
    exact (markDone_withTrack (finalizeObj s c) r (modTrack s.track i fFailed)).symm

theorem markCompleted_isSome (s : State) (i : Nat) (ht : s.tracking = true → i ∈ s.track.map (·.id)) :
    (markCompleted s i).isSome = true := by
  unfold markCompleted
  split
  · rfl
  · rename_i htr
    have htr : s.tracking = true := by simpa using htr
    have := (getTrack_isSome i s.track).mpr (ht htr)
    split
    · rename_i hn; rw [hn] at this; cases this
    · rfl

/-- The objects after `execute()` when the call does not complete the command. -/
theorem Rec.exec1 {s : State} (h : Rec s) (c : Cmd) (hcomp : execCompletes s c = false) : Rec (execObj s c).1 := by
  apply h.mapObjs (s' := (execObj s c).1) (fun o => if o.serial == c.serial then execG s c o else o) rfl ?_
    rfl rfl rfl rfl rfl rfl rfl rfl
  · intro o _ hmo
    split at hmo
    · refine ⟨hmo, ?_, ?_⟩ <;> simp [execG, hcomp, *]
    · simp [*]
  · intro o
    split <;> simp [execG]

theorem afterExec_rec {s : State} (h : Rec s) (hcore : Core s) (hfix : s.cfg.fixCancel = true) (htr : TrackEx s)
    {r : Req} {k : Nat} (hr : r ∈ s.executing) (hk : r.name = .uod k) {c : Cmd} (hc : c ∈ s.objs)
    (hm : c.inMap = true) (hn : c.name = k) :
    Rec (afterExec (execObj s c) r k c.serial).1 := by
  obtain ⟨hcan, hcomp, _⟩ := h.ownHeld c hc hm
  obtain ⟨hfin, _, _⟩ := hcore.live c hc hm
  have h3 := hcore.exec hc hm
  obtain ⟨hv, hd, _, _⟩ := execObj_facts s c
  obtain ⟨o, ho, hos, hom, hon, hoc⟩ := execObj_mem hcore hc hm
  obtain ⟨_, hex, _, _, _, _, _, _, _, _, _, _, _, _, _, hcfg, _⟩ := view_eq hv
  have hr3 : r ∈ (execObj s c).1.executing := by rw [hex]; exact hr
  have hfix3 : (execObj s c).1.cfg.fixCancel = true := by rw [hcfg]; exact hfix
  cases hf : (execObj s c).2 with
  | true =>
    have : execObj s c = ((execObj s c).1, true) := by rw [← hf]
    rw [this]
    simp only [afterExec]
    cases hcp : execCompletes s c with
    | false =>
      rw [← hos]
      exact execFailed_rec (h.exec1 c hcp) h3 hfix3 (htr.of_view hv) hr3 hk ho (by rw [hoc, hcan])
    | true =>
      -- `set_complete()` and then the exception: the clean-up finalizes the complete instance (no Cancelled
      -- state), the handler of `_execute_command` records Failed
      have hget : getObj (execObj s c).1.objs c.serial = some (execG s c c) := by
        rw [execObj_objs, show modObj s.objs c.serial (execG s c) =
          s.objs.map (fun o => if o.serial == c.serial then execG s c o else o) from rfl,
          getObj_map _ _ (by intro o; split <;> rfl), getObj_of_mem hcore.serials hc]
        simp
      have hoe : o = execG s c c := by
        have := getObj_of_mem h3.serials ho
        rw [hos, hget] at this
        injection this with this
        exact this.symm
      have hfl : findLive (execObj s c).1.objs k = some (execG s c c) := by
        cases hx : findLive (execObj s c).1.objs k with
        | none => exact absurd (by rw [hon, hn]) (findLive_none hx o ho hom)
        | some o' =>
          obtain ⟨ho', hm', hn'⟩ := findLive_some hx
          have hs : o'.serial = o.serial :=
            h3.excl o' ho' o ho hm' hom (by rw [hn', hon, hn]; exact conflict_self _ _)
          rw [serial_inj h3.serials ho' ho hs, hoe]
      unfold execFailed
      rw [hget]
      have hgc : (execG s c c).cancelled = false := hcan
      have hgd : (execG s c c).complete = true := by simp [execG, hcp]
      simp only [hgc, Bool.not_false, if_true]
      have hcc : cancelCommand (execObj s c).1 r = finalizeCommand (execObj s c).1 r (execG s c c) := by
        unfold cancelCommand
        rw [hk]
        simp only [hfl, hgd, Bool.not_true, Bool.false_eq_true, if_false]
      rw [hcc, markFailed_finalize_comm]
      have hmk := markFailed_getD (execObj s c).1 r.id
      obtain ⟨f1, f2, f3, _, _, _, _, _, _⟩ := hmk.fields
      have hvF : view ((markFailed (execObj s c).1 r.id).getD (execObj s c).1) = view s := by
        cases hmf : markFailed (execObj s c).1 r.id with
        | none => simpa using hv
        | some sF =>
          obtain ⟨hv', _, _, _⟩ := markFailed_frame _ sF r.id hmf
          simp [hv', hv]
      show Rec (finalizeCommand _ r c)
      exact h.kill hcore (execG s c) hc hm hr (by rw [hk, hn]) (by intro o; simp [execG]) (by rw [f1, execObj_objs])
        hvF (by rw [f2, hd]) (by rw [f3]; rfl) (hmk.trackStep s rfl rfl) fFailed_facts (fun t ht => fFailed_tok ht)
  | false =>
    have : execObj s c = ((execObj s c).1, false) := by rw [← hf]
    rw [this]
    simp only [afterExec]
    unfold finishCmd
    have hget : getObj (execObj s c).1.objs c.serial = some (execG s c c) := by
      rw [execObj_objs, show modObj s.objs c.serial (execG s c) =
        s.objs.map (fun o => if o.serial == c.serial then execG s c o else o) from rfl,
        getObj_map _ _ (by intro o; split <;> rfl), getObj_of_mem hcore.serials hc]
      simp
    rw [hget]
    have hcf : (execG s c c).finalized = false := hfin
    have hcc : (execG s c c).complete = execCompletes s c := by simp [execG, hcomp]
    simp only [hcf, hcc, Bool.not_false, Bool.and_true]
    cases hcp : execCompletes s c with
    | false =>
      simp only [Bool.false_eq_true, if_false]
      exact h.exec1 c hcp
    | true =>
      simp only [if_true]
      have hsome := markCompleted_isSome (execObj s c).1 r.id
        (fun ht => (htr.of_view hv) ht r hr3 (by simp [Req.isUod, hk]))
      cases hmk : markCompleted (execObj s c).1 r.id with
      | none => rw [hmk] at hsome; cases hsome
      | some s4 =>
        simp only
        have hsh := markCompleted_shape hmk
        obtain ⟨f1, f2, f3, _, _, _, _, _, _⟩ := hsh.fields
        obtain ⟨hv4, _, _, _⟩ := markCompleted_frame _ s4 r.id hmk
        show Rec (finalizeCommand s4 r c)
        exact h.kill hcore (execG s c) hc hm hr (by rw [hk, hn]) (by intro o; simp [execG]) (by rw [f1, execObj_objs])
          (by rw [hv4, hv]) (by rw [f2, hd]) (by rw [f3]; rfl) (hsh.trackStep s rfl rfl) fCompleted_facts
          (fun t ht => fCompleted_tok ht)

theorem runCmd_rec {s : State} (h : Rec s) (hcore : Core s) (hfix : s.cfg.fixCancel = true) (htr : TrackEx s)
    {r : Req} {k : Nat} (hr : r ∈ s.executing) (hk : r.name = .uod k) {c : Cmd} (hc : c ∈ s.objs)
    (hm : c.inMap = true) (hn : c.name = k) : Rec (runCmd s r k c).1 := by
  obtain ⟨hcan, hcomp, q, hq, hqo, hqd⟩ := h.ownHeld c hc hm
  unfold runCmd
  simp only [hcan, Bool.false_eq_true, if_false]
  by_cases hit : (c.iters == 0) = true
  · simp only [hit, if_true]
    cases hmk : markUodStarted s c.owner c.serial with
    | none => exact execFailed_rec h hcore hfix htr hr hk hc hcan
    | some sM =>
      simp only
      obtain ⟨hv, hobjs, hev, hdone⟩ := markUodStarted_frame s sM c.owner c.serial hmk
      obtain ⟨_, hex, _, _, _, _, _, _, _, _, _, _, _, _, _, hcfg, _⟩ := view_eq hv
      have hM : Core sM := hcore.congr hobjs hev hex hcfg (fun _ _ _ hd => by rw [← hdone]; exact hd)
      have hqu : q.isUod = true := by
        simp [Req.isUod, (h.ownName c hc q (List.mem_append_right _ hq) hqo).1]
      have hrM : Rec sM := h.started (markUodStarted_shape hmk) ⟨c, getObj_of_mem hcore.serials hc, rfl⟩
        ⟨q, hq, hqo, hqu, hqd⟩
      exact afterExec_rec hrM hM (by rw [hcfg]; exact hfix) (htr.of_view hv) (by rw [hex]; exact hr) hk
        (by rw [hobjs]; exact hc) hm hn
  · simp only [hit, Bool.false_eq_true, if_false, hcomp, Bool.not_false, if_true]
    exact afterExec_rec h hcore hfix htr hr hk hc hm hn

theorem Rec.reject {s : State} (h : Rec s) (k i : Nat) : Rec (rejectInst s k i) := by
  unfold rejectInst
  rw [if_pos h.fixS.1]
  exact ⟨h.fixS, by simp [h.stale, dropStale], h.off, h.tok, h.cmdObj, h.held, h.ownName, h.ownLt, h.ownHeld⟩

/-- A new instance is created for request `r` and initialised. -/
theorem Rec.spawn {s : State} (h : Rec s) (hcore : Core s) {r : Req} {k : Nat} (hr : r ∈ s.executing)
    (hk : r.name = .uod k) (hb : r.bad = false) (hrd : r.id ∉ s.done) (hlt : r.id < s.nextId)
    (hq : s.queue = []) : Rec (initNew s k r.id).1 := by
  have hown : (initNew s k r.id).2.owner = r.id := by simp [initNew, h.stale, staleOwner_nil]
  have hobjs : (initNew s k r.id).1.objs = s.objs ++ [(initNew s k r.id).2] := rfl
  have hmem : ∀ o' ∈ (initNew s k r.id).1.objs, o' ∈ s.objs ∨ o' = (initNew s k r.id).2 := by
    intro o' ho'
    rw [hobjs] at ho'
    simpa using ho'
  refine ⟨h.fixS, by simp [initNew, h.stale, dropStale], h.off, h.tok, ?_, h.held, ?_, ?_, ?_⟩
  · intro t ht ser hser
    obtain ⟨o, h1, h2, h3⟩ := h.cmdObj t ht ser hser
    exact ⟨o, by rw [hobjs]; exact getObj_append _ _ _ _ h1, h2, h3⟩
  · intro o' ho' q hq' e
    rcases hmem o' ho' with ho | rfl
    · exact h.ownName o' ho q hq' e
    · rw [hown] at e
      have hqe : q ∈ s.executing := by
        have : q ∈ s.queue ++ s.executing := hq'
        rw [hq] at this; simpa using this
      have : q = r := req_id_inj hcore.ids hqe hr e
      subst this
      exact ⟨hk, hb⟩
  · intro o' ho'
    rcases hmem o' ho' with ho | rfl
    · exact h.ownLt o' ho
    · rw [hown]; exact hlt
  · intro o' ho' hmo
    rcases hmem o' ho' with ho | rfl
    · exact h.ownHeld o' ho hmo
    · exact ⟨rfl, rfl, r, hr, hown.symm, hrd⟩


/-- `_execute_uod_command` keeps the record invariant. -/
theorem executeUod_rec {s : State} (h : Rec s) (hcore : Core s) (hfix : s.cfg.fixCancel = true) (htr : TrackEx s)
    {r : Req} {k : Nat} (hr : r ∈ s.executing) (hk : r.name = .uod k) (hrd : r.id ∉ s.done)
    (hp : s.paused = false) (hlt : r.id < s.nextId) (hq : s.queue = []) :
    Rec (executeUod s r k).1 := by
  unfold executeUod
  simp only [hp, Bool.false_eq_true, ↓reduceIte]
  rw [cancelSame_eq]
  have p1 := cancelWhere_spec (selSame r k) true s.executing hcore hfix htr (fun c hc => hc)
  have r1 := cancelWhere_rec (selSame r k) true s.executing h hcore hfix htr (fun c hc => hc)
  obtain ⟨_, hex1, _, _, _, _, _, _, _, _, _, _, _, _, _, hcfg1, _⟩ := view_eq p1.view
  rw [cancelOverlap_eq, hex1, hcfg1]
  generalize cancelWhere (selSame r k) true s.executing s = s1 at *
  have p2 := cancelWhere_spec (selOverlap s.cfg r k) true s.executing p1.core (by rw [hcfg1]; exact hfix)
    (htr.of_view p1.view) (fun c hc => by rw [hex1]; exact hc)
  have r2 := cancelWhere_rec (selOverlap s.cfg r k) true s.executing r1 p1.core (by rw [hcfg1]; exact hfix)
    (htr.of_view p1.view) (fun c hc => by rw [hex1]; exact hc)
  generalize cancelWhere (selOverlap s.cfg r k) true s.executing s1 = s2 at *
  have hv2 : view s2 = view s := by rw [p2.view, p1.view]
  obtain ⟨hq2, hex2, _, _, _, _, _, _, _, _, _, _, _, _, hnid2, hcfg2, _⟩ := view_eq hv2
  have hr2 : r ∈ s2.executing := by rw [hex2]; exact hr
  have hfix2 : s2.cfg.fixCancel = true := by rw [hcfg2]; exact hfix
  have htr2 : TrackEx s2 := htr.of_view hv2
  have hrd2 : r.id ∉ s2.done := by
    intro hi
    rcases p2.doneOnly _ hi with h1 | ⟨c, _, hs, e⟩
    · rcases p1.doneOnly _ h1 with h0 | ⟨c, _, hs, e⟩
      · exact hrd h0
      · exact (selSame_uod hs).2 e
    · exact (selOverlap_uod hs).2 e
  have hconf : ∀ c ∈ s.executing, c.id ≠ r.id → ∀ j, c.name = .uod j → conflict s.cfg j k = true → c.id ∈ s2.done := by
    intro c hc hne j hj hcf
    have hu : c.isUod = true := by simp [Req.isUod, hj]
    by_cases hjk : j = k
    · exact p2.doneGrow _ (p1.allDone c hc (by simp [selSame, hj, hjk, hne]) hu)
    · apply p2.allDone c hc _ hu
      simp only [conflict, Bool.or_eq_true, beq_iff_eq, hjk, false_or] at hcf
      simp [selOverlap, hne, hj, hcf]
  have hhold : ∀ o ∈ s2.objs, o.inMap = true → conflict s.cfg o.name k = true → o.name = k ∧ r.bad = false := by
    intro o ho hm hcf
    obtain ⟨_, _, q, hq', h1, h2, h3⟩ := p2.core.live o ho hm
    have hqr : q.id = r.id := by
      false_or_by_contra
      rename_i hne
      exact h3 (hconf q (by rw [← hex2]; exact hq') hne o.name h1 hcf)
    have : q = r := req_id_inj p2.core.ids hq' hr2 hqr
    subst this
    rw [hk] at h1
    injection h1 with h1
    exact ⟨h1.symm, h2⟩
  cases hfl : findLive s2.objs k with
  | some c =>
    obtain ⟨hc, hm, hn⟩ := findLive_some hfl
    have hb := (hhold c hc hm (by rw [hn]; exact conflict_self _ _)).2
    simp only [hb, Bool.false_eq_true, ↓reduceIte]
    exact runCmd_rec r2 p2.core hfix2 htr2 hr2 hk hc hm hn
  | none =>
    have hnone := findLive_none hfl
    simp only
    cases hb : r.bad with
    | true =>
      simp only [↓reduceIte]
      have rS := r2.reject k r.id
      generalize hS : rejectInst s2 k r.id = sS at rS
      have hSo : sS.objs = s2.objs := by rw [← hS]; unfold rejectInst; split <;> rfl
      have hSe : sS.events = s2.events := by rw [← hS]; unfold rejectInst; split <;> rfl
      have hSx : sS.executing = s2.executing := by rw [← hS]; unfold rejectInst; split <;> rfl
      have hSd : sS.done = s2.done := by rw [← hS]; unfold rejectInst; split <;> rfl
      have hSc : sS.cfg = s2.cfg := by rw [← hS]; unfold rejectInst; split <;> rfl
      have hcS : Core sS := p2.core.congr hSo hSe hSx hSc (fun _ _ _ hd => by rw [hSd] at hd; exact hd)
      have hdn : ∀ i, i ∈ (markDone sS r).done → i ∈ sS.done ∨ i = r.id := by
        intro i hi
        rw [markDone_done_mem] at hi
        rcases hi with hi | ⟨e, _⟩
        · exact Or.inl hi
        · exact Or.inr e
      have hmk := markFailed_getD (markDone sS r) r.id
      obtain ⟨f1, f2, f3, _, _, _, _, _, _⟩ := hmk.fields
      have hvF : view ((markFailed (markDone sS r) r.id).getD (markDone sS r)) = view sS := by
        cases hmf : markFailed (markDone sS r) r.id with
        | none => simp
        | some sF =>
          obtain ⟨hv, _, _, _⟩ := markFailed_frame _ sF r.id hmf
          simp [hv]
      unfold failParse
      exact rS.dropReq hcS (by rw [hSx]; exact hr2) hk (by rw [hSo]; exact hnone) (by rw [f1]; simp) hvF
        (by rw [f3]; simp) (fun i hi => hdn i (by rw [f2] at hi; exact hi))
        (hmk.trackStep sS (by simp) (by simp)) fFailed_facts (fun t ht => fFailed_tok ht)
    | false =>
      simp only [Bool.false_eq_true, ↓reduceIte]
      have rN := r2.spawn p2.core hr2 hk hb hrd2 (by rw [hnid2]; exact hlt) (by rw [hq2]; exact hq)
      have hser : (initNew s2 k r.id).2.serial = s2.objs.length := rfl
      have hNo : (initNew s2 k r.id).1.objs = s2.objs ++ [(initNew s2 k r.id).2] := rfl
      have hNe : (initNew s2 k r.id).1.events = s2.events ++ [.init (initNew s2 k r.id).2.serial] := rfl
      have hNx : (initNew s2 k r.id).1.executing = s2.executing := rfl
      have hNd : (initNew s2 k r.id).1.done = s2.done := rfl
      have hNc : (initNew s2 k r.id).1.cfg = s2.cfg := rfl
      have hNv : view (initNew s2 k r.id).1 = view s2 := rfl
      have hc0n : (initNew s2 k r.id).2.name = k := rfl
      have hc0m : (initNew s2 k r.id).2.inMap = true := rfl
      have hc0f : (initNew s2 k r.id).2.finalized = false := rfl
      have hc0i : (initNew s2 k r.id).2.initialized = true := rfl
      have hc0t : (initNew s2 k r.id).2.iters = 0 := rfl
      generalize (initNew s2 k r.id).2 = c0 at *
      generalize (initNew s2 k r.id).1 = sN at *
      have hcN : Core sN := by
        apply p2.core.spawn (c := c0) (r := r) hNo hser hc0m hc0f hc0i hc0t hr2 (by rw [hk, hc0n]) hb hrd2 hNe hNx hNc hNd
        intro o ho hm
        cases hcf : conflict s2.cfg o.name c0.name with
        | false => rfl
        | true =>
          rw [hc0n, hcfg2] at hcf
          exact absurd (hhold o ho hm hcf).1 (hnone o ho hm)
      exact runCmd_rec (c := c0) rN hcN (by rw [hNc]; exact hfix2) (htr2.of_view hNv) (by rw [hNx]; exact hr2) hk
        (by rw [hNo]; simp) hc0m hc0n

/-- The loop of `execute_commands` over UOD requests keeps the record invariant. -/
theorem loop_rec : ∀ (todo : List Req) {s : State}, Rec s → Core s → s.cfg.fixCancel = true → TrackEx s →
    (∀ r ∈ todo, r ∈ s.executing ∧ r.isUod = true) → s.queue = [] → (∀ r ∈ todo, r.id < s.nextId) →
    Rec (loop todo s).1 := by
  intro todo
  induction todo with
  | nil => intro s h _ _ _ _ _ _; exact h
  | cons r rest ih =>
    intro s h hcore hfix htr hmem hq hlt
    have hr := (hmem r (List.mem_cons_self ..)).1
    have hru := (hmem r (List.mem_cons_self ..)).2
    have hrest : ∀ x ∈ rest, x ∈ s.executing ∧ x.isUod = true := fun x hx => hmem x (List.mem_cons_of_mem _ hx)
    have hltr : ∀ x ∈ rest, x.id < s.nextId := fun x hx => hlt x (List.mem_cons_of_mem _ hx)
    simp only [loop]
    by_cases hd : isDone s r = true
    · rw [if_pos hd]
      exact ih h hcore hfix htr hrest hq hltr
    · rw [if_neg hd]
      have hrd : r.id ∉ s.done := by rw [← isDone_iff]; exact hd
      obtain ⟨k, hk⟩ : ∃ k, r.name = .uod k := by
        cases hn : r.name <;> simp_all [Req.isUod]
      have hx : executeReq s r = executeUod s r k := by simp [executeReq, hk]
      rw [hx]
      cases hp : s.paused with
      | true =>
        rw [executeUod_paused r k hp]
        exact ih h hcore hfix htr hrest hq hltr
      | false =>
        have q := executeUod_spec hcore hfix htr hr hk hrd hp
        have hq' := executeUod_rec h hcore hfix htr hr hk hrd hp (hlt r (List.mem_cons_self ..)) hq
        obtain ⟨hq1, hex1, _, _, _, _, _, _, _, _, _, _, _, _, hnid1, hcfg1, _⟩ := view_eq q.view
        cases hres : executeUod s r k with
        | mk s1 raised =>
          have hs1 : s1 = (executeUod s r k).1 := by rw [hres]
          cases raised with
          | true => simp only; rw [hs1]; exact hq'
          | false =>
            simp only
            rw [hs1]
            exact ih hq' q.core (by rw [hcfg1]; exact hfix) (htr.of_view q.view)
              (fun x hx => by rw [hex1]; exact hrest x hx) (by rw [hq1]; exact hq)
              (fun x hx => by rw [hnid1]; exact hltr x hx)

end OPM.CmdMgr
