import OPM.Model.RunState
/-!
Proof architecture for M1 (RunState).

The controller part of the model (registry, command manager, request lists, generator phases) is shown to
*refine* a small transition system over the engine fields: every model function maps a state `s` to a state
`s'` such that `abs s'` is reachable from `abs s` by a sequence of *enabled* atomic actions (`Act`).  The
guards of the actions record what the controller guarantees at the place where it performs them (e.g. the
Stop body only begins when System State is neither Stopped nor Restarting).  Invariants of the engine fields
are then proved once on the small system (`Reach.inv`) and transfer to every operation sequence of the model.

With `Cfg.cancel2` (/repo 90a68ba6) Stop and Restart cancel all commands a second time at the start of their
second phase.  At that place the controller guarantees nothing locally about System State (that the Stop /
Restart instance is still alive there is a property of the request lists, not of the engine fields), so the
effects of this second cancel — Unpause / Unhold of cancelled Pause / Hold instances, the pending Restart
dropped — are not given as separate guarded actions but folded into the step they precede: `stopFinishC fx drop`
and `restartMidC fx` (= `stopFinish` / `restartMid` after `applyFx fx`).  Both end in the fully reset state, so
every invariant is checked on the result only; `cancelAll_fx` shows that the second cancel has no other effect
on the abstract state.

`Perm.err` says whether `set_error_state` may strike while no run is active; `Perm.clk` whether the clock
update is among the actions (it is excluded when a tick is split into "before / clock update / after").
-/
namespace OPM.RunState

/-! ## Abstract state, actions -/

/-- Phase of the resident, not cancelled Restart instance (0 = none / not past its first `yield`). -/
def rphaseOf (r : Reg) : Nat :=
  match r.restart with
  | some i => if i.cancelled || i.complete then 0 else i.phase
  | none => 0

structure A where
  core : Core
  rphase : Nat
  /-- `engine.tracking.enabled` (the tracking of the current interpreter generation) -/
  trk : Bool

def abs (s : State) : A := ⟨s.core, rphaseOf s.reg, s.emgr.tracking⟩

structure Perm where
  /-- `set_error_state` may strike while no run is active -/
  err : Bool
  /-- the clock update is among the actions -/
  clk : Bool
  /-- block/scope events (interpreter phase) are among the actions -/
  ev : Bool

inductive Act where
  | startRun | pause | unpause | hold | unhold | stopBegin | stopFinish
  | restartBegin | restartMid | restartFinish | dropRestart
  | error | write | ev (e : Ev) | setOut (i : Nat) (v : Int) | clock (inc : Int)
  | uwrite (i : Nat) (v : Int) (user : Bool)
  | userReq (i : Nat)
  /-- second phase of Stop with `Cfg.cancel2`: the effects of cancelling the other commands once more
      (`fx`: `true` = an Unpause, `false` = an Unhold; `drop`: the pending Restart is dropped), then the Stop
      body, as one step -/
  | stopFinishC (fx : List Bool) (drop : Bool)
  /-- second phase of Restart with `Cfg.cancel2`, likewise -/
  | restartMidC (fx : List Bool)

/-- what cancelling Pause (`true`) / Hold (`false`) instances does to the engine fields -/
def applyFx (fx : List Bool) (c : Core) : Core := fx.foldl (fun c b => if b then c.unpause else c.unhold) c

def Act.apply (cfg : Cfg) : Act → A → A
  | .startRun, a => { a with core := a.core.startRun cfg, trk := true }
  | .pause, a => { a with core := a.core.pause cfg }
  | .unpause, a => { a with core := a.core.unpause }
  | .hold, a => { a with core := a.core.hold }
  | .unhold, a => { a with core := a.core.unhold }
  | .stopBegin, a => { a with core := a.core.stopBegin }
  | .stopFinish, a => { a with core := a.core.stopFinish cfg, trk := false }
  | .restartBegin, a => { a with core := a.core.restartBegin, rphase := 1 }
  | .restartMid, a => { core := a.core.restartMid cfg, rphase := 2, trk := false }
  | .restartFinish, a => { core := a.core.restartFinish cfg, rphase := 0, trk := true }
  | .dropRestart, a => { a with rphase := 0 }
  | .error, a => { a with core := a.core.setError cfg }
  | .write, a => { a with core := a.core.writeImage }
  | .ev e, a => { a with core := a.core.event e }
  | .setOut i v, a => { a with core := a.core.setOut i v }
  | .clock inc, a => { a with core := a.core.clock cfg inc }
  | .uwrite i v u, a => { a with core := a.core.uwrite i v u }
  | .userReq i, a => { a with core := a.core.userRequest i }
  | .stopFinishC fx d, a =>
    { core := (applyFx fx a.core).stopFinish cfg, rphase := if d then 0 else a.rphase, trk := false }
  | .restartMidC fx, a => { core := (applyFx fx a.core).restartMid cfg, rphase := 2, trk := false }

/-- What the controller guarantees when it performs the action. -/
def Act.enabled (cfg : Cfg) (pm : Perm) : Act → A → Prop
  | .startRun, a => a.core.started = false
  | .pause, a => cfg.guard = true → a.core.started = true
  | .hold, a => cfg.guard = true → a.core.started = true
  | .unpause, a => cfg.guard = true → (a.core.started = true ∨ a.core.sys ≠ .stopped)
  | .unhold, a => cfg.guard = true → (a.core.started = true ∨ a.core.sys ≠ .stopped)
  | .stopBegin, a => a.core.sys ≠ .stopped ∧ a.core.sys ≠ .restarting
  | .restartBegin, a => a.core.sys ≠ .stopped ∧ a.core.sys ≠ .restarting
  | .restartMid, a => a.rphase = 1
  | .restartMidC _, a => a.rphase = 1
  | .dropRestart, a => a.core.sys ≠ .restarting ∧ a.core.sys ≠ .stopped
  | .error, a => pm.err = true ∨ a.core.started = true
  | .clock _, _ => pm.clk = true
  | .ev _, _ => pm.ev = true
  | .uwrite _ _ user, a => cfg.pauseGate = true → user = false → a.core.paused = false
  | _, _ => True

inductive Reach (cfg : Cfg) (pm : Perm) : A → A → Prop where
  | refl (a : A) : Reach cfg pm a a
  | tail {a b : A} (act : Act) : Reach cfg pm a b → act.enabled cfg pm b → Reach cfg pm a (act.apply cfg b)

theorem Reach.trans {cfg pm} {a b c : A} (h1 : Reach cfg pm a b) (h2 : Reach cfg pm b c) :
    Reach cfg pm a c := by
  induction h2 with
  | refl => exact h1
  | tail act _ hen ih => exact Reach.tail act ih hen

theorem Reach.one {cfg pm} {a : A} (act : Act) (h : act.enabled cfg pm a) :
    Reach cfg pm a (act.apply cfg a) := Reach.tail act (Reach.refl a) h

theorem Reach.of_eq {cfg pm} {a b : A} (h : a = b) : Reach cfg pm a b := h ▸ Reach.refl a

/-- One enabled action, given by the equation for its result. -/
theorem Reach.act {cfg pm} {a b : A} (act : Act) (h : act.enabled cfg pm a) (e : b = act.apply cfg a) :
    Reach cfg pm a b := e ▸ Reach.one act h

/-- An invariant of the enabled actions holds along every path. -/
theorem Reach.inv {cfg pm} {P : A → Prop}
    (hP : ∀ a act, P a → Act.enabled cfg pm act a → P (act.apply cfg a))
    {a b : A} (h : Reach cfg pm a b) (ha : P a) : P b := by
  induction h with
  | refl => exact ha
  | tail act _ hen ih => exact hP _ act ih hen

/-- Permissions can only be weakened. -/
theorem Reach.mono {cfg} {pm pm' : Perm} (he : pm.err = true → pm'.err = true)
    (hc : pm.clk = true → pm'.clk = true) (hv : pm.ev = true → pm'.ev = true)
    {a b : A} (h : Reach cfg pm a b) : Reach cfg pm' a b := by
  induction h with
  | refl => exact Reach.refl _
  | tail act _ hen ih =>
    refine Reach.tail act ih ?_
    cases act <;> simp only [Act.enabled] at hen ⊢ <;> first | exact hen | skip
    · rcases hen with h | h
      · exact Or.inl (he h)
      · exact Or.inr h
    · exact hv hen
    · exact hc hen

/-! ## Registry and frame lemmas -/

@[simp] theorem Reg.get_set_same (r : Reg) (c : Cmd) (v : Option Inst) : (r.set c v).get c = v := by
  cases c <;> rfl

theorem Reg.restart_set_ne (r : Reg) (c : Cmd) (v : Option Inst) (h : c ≠ .restart) :
    (r.set c v).restart = r.restart := by
  cases c <;> first | rfl | exact absurd rfl h

theorem rphaseOf_set_ne (r : Reg) (c : Cmd) (v : Option Inst) (h : c ≠ .restart) :
    rphaseOf (r.set c v) = rphaseOf r := by
  simp only [rphaseOf, Reg.restart_set_ne r c v h]

theorem Reg.get_restart (r : Reg) : r.get .restart = r.restart := rfl

theorem Reg.restart_set (r : Reg) (v : Option Inst) : (r.set .restart v).restart = v := rfl

@[simp] theorem abs_core (s : State) : (abs s).core = s.core := rfl

theorem abs_eq {s s' : State} (h1 : s'.core = s.core) (h2 : s'.reg = s.reg)
    (h3 : s'.emgr.tracking = s.emgr.tracking) : abs s' = abs s := by
  simp only [abs, h1, h2, h3]

@[simp] theorem emgr_setEmgr (s : State) (m : Mgr) : (s.setEmgr m).emgr = m := by
  unfold State.setEmgr State.emgr; split <;> simp_all

@[simp] theorem setEmgr_core (s : State) (m : Mgr) : (s.setEmgr m).core = s.core := by
  unfold State.setEmgr; split <;> rfl
@[simp] theorem setEmgr_reg (s : State) (m : Mgr) : (s.setEmgr m).reg = s.reg := by
  unfold State.setEmgr; split <;> rfl
@[simp] theorem setEmgr_now (s : State) (m : Mgr) : (s.setEmgr m).now = s.now := by
  unfold State.setEmgr; split <;> rfl
@[simp] theorem setTracking_core (s : State) (b : Bool) : (s.setTracking b).core = s.core := by
  simp [State.setTracking]
@[simp] theorem setTracking_reg (s : State) (b : Bool) : (s.setTracking b).reg = s.reg := by
  simp [State.setTracking]
@[simp] theorem setTracking_trk (s : State) (b : Bool) : (s.setTracking b).emgr.tracking = b := by
  simp [State.setTracking]
@[simp] theorem swapMgr_trk (s : State) : s.swapMgr.emgr.tracking = false := rfl
@[simp] theorem dispose_emgr (s : State) (c : Cmd) : (s.dispose c).emgr = s.emgr := rfl
@[simp] theorem markDone_trk (s : State) (r : Req) : (s.markDone r).emgr.tracking = s.emgr.tracking := by
  unfold State.markDone; split
  · unfold State.emgr; cases s.next <;> rfl
  · rfl
@[simp] theorem markDoneE_trk (s : State) (r : Req) : (s.markDoneE r).emgr.tracking = s.emgr.tracking := by
  unfold State.markDoneE; split <;> simp
@[simp] theorem swapMgr_core (s : State) : s.swapMgr.core = s.core := rfl
@[simp] theorem swapMgr_reg (s : State) : s.swapMgr.reg = s.reg := rfl
@[simp] theorem dispose_core (s : State) (c : Cmd) : (s.dispose c).core = s.core := rfl
@[simp] theorem dispose_reg (s : State) (c : Cmd) : (s.dispose c).reg = s.reg.set c none := rfl
@[simp] theorem markDone_core (s : State) (r : Req) : (s.markDone r).core = s.core := by
  unfold State.markDone; split <;> rfl
@[simp] theorem markDone_reg (s : State) (r : Req) : (s.markDone r).reg = s.reg := by
  unfold State.markDone; split <;> rfl
@[simp] theorem markDoneE_core (s : State) (r : Req) : (s.markDoneE r).core = s.core := by
  unfold State.markDoneE; split <;> simp
@[simp] theorem markDoneE_reg (s : State) (r : Req) : (s.markDoneE r).reg = s.reg := by
  unfold State.markDoneE; split <;> simp

theorem abs_markDone (s : State) (r : Req) : abs (s.markDone r) = abs s :=
  abs_eq (by simp) (by simp) (by simp)
theorem abs_markDoneE (s : State) (r : Req) : abs (s.markDoneE r) = abs s :=
  abs_eq (by simp) (by simp) (by simp)
theorem abs_setTracking (s : State) (b : Bool) : abs (s.setTracking b) = { abs s with trk := b } := by
  simp [abs]
theorem abs_swapMgr (s : State) : abs s.swapMgr = { abs s with trk := false } := rfl

theorem abs_dispose_ne (s : State) (c : Cmd) (h : c ≠ .restart) : abs (s.dispose c) = abs s := by
  simp only [abs, dispose_core, dispose_reg, dispose_emgr, rphaseOf_set_ne _ _ _ h]

/-! ## Cancelling (`cancel_commands` of Stop / Restart) -/

/-- What holds while Stop (resp. Restart) cancels the other commands. -/
def CInv (src : Cmd) (c : Core) : Prop := c.sys ≠ .stopped ∧ (src = .stop → c.sys ≠ .restarting)

theorem CInv_unpause {src : Cmd} {c : Core} : CInv src c.unpause := by
  unfold CInv Core.unpause
  by_cases h : c.holding <;> simp [h]

theorem CInv_unhold {src : Cmd} {c : Core} (h : CInv src c) : CInv src c.unhold := by
  unfold CInv Core.unhold at *
  by_cases hp : c.paused <;> simp [hp] <;> exact h

theorem rphaseOf_restart_some (r : Reg) (i : Inst) (h : r.get .restart = some i) :
    rphaseOf r = if i.cancelled || i.complete then 0 else i.phase := by
  simp only [Reg.get_restart] at h
  simp only [rphaseOf, h]

theorem instCancel_ref {cfg : Cfg} {pm : Perm} (src : Cmd) (s : State) (c : Cmd) (i : Inst) (hne : c ≠ src)
    (hsrc : src = .stop ∨ src = .restart) (hc : CInv src s.core) :
    Reach cfg pm (abs s) (abs (instCancel s c i)) ∧ CInv src (instCancel s c i).core ∧
      (c = .restart → rphaseOf (instCancel s c i).reg = 0) := by
  have hstop : c = .restart → src = .stop := by
    intro h
    rcases hsrc with h' | h'
    · exact h'
    · exact absurd (h.trans h'.symm) hne
  cases c
  case pause =>
    refine ⟨Reach.act .unpause (fun _ => Or.inr hc.1) ?_, CInv_unpause, by simp⟩
    simp [abs, instCancel, Act.apply, rphaseOf_set_ne, State.emgr]
  case hold =>
    refine ⟨Reach.act .unhold (fun _ => Or.inr hc.1) ?_, CInv_unhold hc, by simp⟩
    simp [abs, instCancel, Act.apply, rphaseOf_set_ne, State.emgr]
  case restart =>
    refine ⟨Reach.act .dropRestart ⟨hc.2 (hstop rfl), hc.1⟩ ?_, hc, ?_⟩
    · simp [abs, instCancel, Act.apply, rphaseOf, Reg.restart_set, State.emgr]
    · intro _; simp [instCancel, rphaseOf, Reg.restart_set]
  all_goals
    refine ⟨Reach.of_eq ?_, hc, by simp⟩
    simp [abs, instCancel, rphaseOf_set_ne, State.emgr]

theorem abs_dispose_restart0 (s : State) (c : Cmd) (h : c = .restart → rphaseOf s.reg = 0) :
    abs (s.dispose c) = abs s := by
  by_cases hr : c = .restart
  · subst hr
    simp only [abs, dispose_core, dispose_reg, h rfl]
    simp [rphaseOf, Reg.restart_set]
  · exact abs_dispose_ne s c hr

theorem cancelOne_ref {cfg : Cfg} {pm : Perm} (src : Cmd) (s : State) (r : Req) (hne : r.cmd ≠ src)
    (hsrc : src = .stop ∨ src = .restart) (hc : CInv src s.core) :
    Reach cfg pm (abs s) (abs (cancelOne s r)) ∧ CInv src (cancelOne s r).core := by
  unfold cancelOne
  split
  · exact ⟨Reach.refl _, hc⟩
  · rename_i i hi
    by_cases hcomp : i.complete = true
    · simp only [hcomp, if_true]
      refine ⟨Reach.of_eq ?_, by simpa using hc⟩
      rw [abs_markDoneE]
      refine (abs_dispose_restart0 s r.cmd ?_).symm
      intro hr
      have := rphaseOf_restart_some s.reg i (hr ▸ hi)
      simp [this, hcomp]
    · simp only [hcomp, Bool.false_eq_true, if_false]
      obtain ⟨k1, k2, k3⟩ := instCancel_ref (cfg := cfg) (pm := pm) src s r.cmd i hne hsrc hc
      split
      · refine ⟨k1.trans (Reach.of_eq ?_), by simpa using k2⟩
        rw [abs_markDoneE]
        exact (abs_dispose_restart0 _ r.cmd k3).symm
      · exact ⟨k1, k2⟩

theorem cancelList_ref {cfg : Cfg} {pm : Perm} (src : Cmd) (hsrc : src = .stop ∨ src = .restart)
    (rs : List Req) (s : State) (hc : CInv src s.core) :
    Reach cfg pm (abs s) (abs (cancelList src rs s)) ∧ CInv src (cancelList src rs s).core := by
  induction rs generalizing s with
  | nil => exact ⟨Reach.refl _, hc⟩
  | cons r rs ih =>
    unfold cancelList
    by_cases h : r.cmd = src
    · simp only [h, if_true]; exact ih s hc
    · simp only [h, if_false]
      obtain ⟨h1, h2⟩ := cancelOne_ref (cfg := cfg) (pm := pm) src s r h hsrc hc
      obtain ⟨h3, h4⟩ := ih _ h2
      exact ⟨h1.trans h3, h4⟩

theorem cancelAll_ref {cfg : Cfg} {pm : Perm} (src : Cmd) (hsrc : src = .stop ∨ src = .restart)
    (s : State) (hc : CInv src s.core) :
    Reach cfg pm (abs s) (abs (cancelAll src s)) := by
  have h := (cancelList_ref (cfg := cfg) (pm := pm) src hsrc s.emgr.exec s hc).1
  have e : abs (cancelAll src s) = abs (cancelList src s.emgr.exec s) := abs_eq rfl rfl rfl
  rw [e]; exact h

/-! ## Frame of the cancel effects: only `paused`, `holding`, `sys`, `outs`, `prev`, `clkPaused`, `capLive` change -/

theorem applyFx_cons (b : Bool) (fx : List Bool) (c : Core) :
    applyFx (b :: fx) c = applyFx fx (if b then c.unpause else c.unhold) := rfl

@[simp] theorem applyFx_nil (c : Core) : applyFx [] c = c := rfl

@[simp] theorem applyFx_started (fx : List Bool) (c : Core) : (applyFx fx c).started = c.started := by
  induction fx generalizing c with
  | nil => rfl
  | cons b fx ih => rw [applyFx_cons, ih]; cases b <;> rfl

@[simp] theorem applyFx_stopping (fx : List Bool) (c : Core) : (applyFx fx c).stopping = c.stopping := by
  induction fx generalizing c with
  | nil => rfl
  | cons b fx ih => rw [applyFx_cons, ih]; cases b <;> rfl

@[simp] theorem applyFx_methodErr (fx : List Bool) (c : Core) : (applyFx fx c).methodErr = c.methodErr := by
  induction fx generalizing c with
  | nil => rfl
  | cons b fx ih => rw [applyFx_cons, ih]; cases b <;> rfl

@[simp] theorem applyFx_lastErr (fx : List Bool) (c : Core) : (applyFx fx c).lastErr = c.lastErr := by
  induction fx generalizing c with
  | nil => rfl
  | cons b fx ih => rw [applyFx_cons, ih]; cases b <;> rfl

@[simp] theorem applyFx_runId (fx : List Bool) (c : Core) : (applyFx fx c).runId = c.runId := by
  induction fx generalizing c with
  | nil => rfl
  | cons b fx ih => rw [applyFx_cons, ih]; cases b <;> rfl

@[simp] theorem applyFx_nextRunId (fx : List Bool) (c : Core) : (applyFx fx c).nextRunId = c.nextRunId := by
  induction fx generalizing c with
  | nil => rfl
  | cons b fx ih => rw [applyFx_cons, ih]; cases b <;> rfl

@[simp] theorem applyFx_pt (fx : List Bool) (c : Core) : (applyFx fx c).pt = c.pt := by
  induction fx generalizing c with
  | nil => rfl
  | cons b fx ih => rw [applyFx_cons, ih]; cases b <;> rfl

@[simp] theorem applyFx_rt (fx : List Bool) (c : Core) : (applyFx fx c).rt = c.rt := by
  induction fx generalizing c with
  | nil => rfl
  | cons b fx ih => rw [applyFx_cons, ih]; cases b <;> rfl

@[simp] theorem applyFx_blocks (fx : List Bool) (c : Core) : (applyFx fx c).blocks = c.blocks := by
  induction fx generalizing c with
  | nil => rfl
  | cons b fx ih => rw [applyFx_cons, ih]; cases b <;> rfl

@[simp] theorem applyFx_scopeT (fx : List Bool) (c : Core) : (applyFx fx c).scopeT = c.scopeT := by
  induction fx generalizing c with
  | nil => rfl
  | cons b fx ih => rw [applyFx_cons, ih]; cases b <;> rfl

@[simp] theorem applyFx_scopeS (fx : List Bool) (c : Core) : (applyFx fx c).scopeS = c.scopeS := by
  induction fx generalizing c with
  | nil => rfl
  | cons b fx ih => rw [applyFx_cons, ih]; cases b <;> rfl

@[simp] theorem applyFx_hw (fx : List Bool) (c : Core) : (applyFx fx c).hw = c.hw := by
  induction fx generalizing c with
  | nil => rfl
  | cons b fx ih => rw [applyFx_cons, ih]; cases b <;> rfl

@[simp] theorem applyFx_writes (fx : List Bool) (c : Core) : (applyFx fx c).writes = c.writes := by
  induction fx generalizing c with
  | nil => rfl
  | cons b fx ih => rw [applyFx_cons, ih]; cases b <;> rfl

@[simp] theorem applyFx_touched (fx : List Bool) (c : Core) : (applyFx fx c).touched = c.touched := by
  induction fx generalizing c with
  | nil => rfl
  | cons b fx ih => rw [applyFx_cons, ih]; cases b <;> rfl

@[simp] theorem applyFx_touchedRun (fx : List Bool) (c : Core) : (applyFx fx c).touchedRun = c.touchedRun := by
  induction fx generalizing c with
  | nil => rfl
  | cons b fx ih => rw [applyFx_cons, ih]; cases b <;> rfl

@[simp] theorem applyFx_lastCap (fx : List Bool) (c : Core) : (applyFx fx c).lastCap = c.lastCap := by
  induction fx generalizing c with
  | nil => rfl
  | cons b fx ih => rw [applyFx_cons, ih]; cases b <;> rfl

@[simp] theorem applyFx_capRun (fx : List Bool) (c : Core) : (applyFx fx c).capRun = c.capRun := by
  induction fx generalizing c with
  | nil => rfl
  | cons b fx ih => rw [applyFx_cons, ih]; cases b <;> rfl

@[simp] theorem applyFx_onsetCap (fx : List Bool) (c : Core) : (applyFx fx c).onsetCap = c.onsetCap := by
  induction fx generalizing c with
  | nil => rfl
  | cons b fx ih => rw [applyFx_cons, ih]; cases b <;> rfl

@[simp] theorem applyFx_restartGap (fx : List Bool) (c : Core) : (applyFx fx c).restartGap = c.restartGap := by
  induction fx generalizing c with
  | nil => rfl
  | cons b fx ih => rw [applyFx_cons, ih]; cases b <;> rfl

/-! ## Cancelling once more in the second phase of Stop / Restart (`Cfg.cancel2`): the effects, unguarded -/

/-- the effect of a second `cancel_commands` on the abstract state -/
def absFx (fx : List Bool) (d : Bool) (a : A) : A :=
  { a with core := applyFx fx a.core, rphase := if d then 0 else a.rphase }

theorem absFx_nil (a : A) : absFx [] false a = a := rfl

theorem absFx_comp (fx1 fx2 : List Bool) (d1 d2 : Bool) (a : A) :
    absFx fx2 d2 (absFx fx1 d1 a) = absFx (fx1 ++ fx2) (d1 || d2) a := by
  cases d1 <;> cases d2 <;> simp [absFx, applyFx, List.foldl_append]

theorem rphaseOf_complete (r : Reg) (i : Inst) (h : r.get .restart = some i) (hc : i.complete = true) :
    rphaseOf r = 0 := by
  rw [rphaseOf_restart_some r i h]; simp [hc]

theorem instCancel_fx (s : State) (c : Cmd) (i : Inst) :
    ∃ fx d, abs (instCancel s c i) = absFx fx d (abs s) ∧
      (c = .restart → rphaseOf (instCancel s c i).reg = 0) := by
  cases c
  case pause => exact ⟨[true], false, by simp [abs, absFx, applyFx, instCancel, rphaseOf_set_ne, State.emgr], by simp⟩
  case hold => exact ⟨[false], false, by simp [abs, absFx, applyFx, instCancel, rphaseOf_set_ne, State.emgr], by simp⟩
  case restart =>
    exact ⟨[], true, by simp [abs, absFx, applyFx, instCancel, rphaseOf, Reg.restart_set, State.emgr],
      fun _ => by simp [instCancel, rphaseOf, Reg.restart_set]⟩
  all_goals
    exact ⟨[], false, by simp [abs, absFx, applyFx, instCancel, rphaseOf_set_ne, State.emgr], by simp⟩

theorem cancelOne_fx (s : State) (r : Req) : ∃ fx d, abs (cancelOne s r) = absFx fx d (abs s) := by
  unfold cancelOne
  split
  · exact ⟨[], false, rfl⟩
  · rename_i i hi
    by_cases hcomp : i.complete = true
    · simp only [hcomp, if_true]
      refine ⟨[], false, ?_⟩
      rw [abs_markDoneE, absFx_nil]
      refine abs_dispose_restart0 s r.cmd ?_
      intro hr
      exact rphaseOf_complete s.reg i (hr ▸ hi) hcomp
    · simp only [hcomp, Bool.false_eq_true, if_false]
      obtain ⟨fx, d, k1, k3⟩ := instCancel_fx s r.cmd i
      split
      · refine ⟨fx, d, ?_⟩
        rw [abs_markDoneE, abs_dispose_restart0 _ r.cmd k3]; exact k1
      · exact ⟨fx, d, k1⟩

theorem cancelList_fx (src : Cmd) (rs : List Req) (s : State) :
    ∃ fx d, abs (cancelList src rs s) = absFx fx d (abs s) := by
  induction rs generalizing s with
  | nil => exact ⟨[], false, rfl⟩
  | cons r rs ih =>
    unfold cancelList
    by_cases h : r.cmd = src
    · simp only [h, if_true]; exact ih s
    · simp only [h, if_false]
      obtain ⟨fx1, d1, h1⟩ := cancelOne_fx s r
      obtain ⟨fx2, d2, h2⟩ := ih (cancelOne s r)
      exact ⟨fx1 ++ fx2, d1 || d2, by rw [h2, h1, absFx_comp]⟩

theorem cancelAll_fx (src : Cmd) (s : State) : ∃ fx d, abs (cancelAll src s) = absFx fx d (abs s) := by
  obtain ⟨fx, d, h⟩ := cancelList_fx src s.emgr.exec s
  have e : abs (cancelAll src s) = abs (cancelList src s.emgr.exec s) := abs_eq rfl rfl rfl
  exact ⟨fx, d, e.trans h⟩

/-! ## One tick of a resident command instance -/

theorem pause_started (cfg : Cfg) (c : Core) : (c.pause cfg).started = c.started := by
  unfold Core.pause; split <;> rfl

theorem abs_with_core (s : State) (k : Core) :
    abs { s with core := k } = ⟨k, rphaseOf s.reg, s.emgr.tracking⟩ := rfl

theorem abs_with_core_reg (s : State) (k : Core) (r : Reg) :
    abs { s with core := k, reg := r } = ⟨k, rphaseOf r, s.emgr.tracking⟩ := rfl

theorem CInv_of_not (src : Cmd) (c : Core) (h : ¬(c.sys = .stopped ∨ c.sys = .restarting)) : CInv src c :=
  ⟨fun e => h (Or.inl e), fun _ e => h (Or.inr e)⟩

theorem instTick_ref {cfg : Cfg} {pm : Perm} (s : State) (c : Cmd) (i : Inst)
    (hi : s.reg.get c = some i)
    (hG : cfg.guard = true → needsRun c = true → s.core.started = true) :
    Reach cfg pm (abs s) (abs (instTick cfg s c i).1) := by
  unfold instTick
  by_cases hcan : i.cancelled = true
  · rw [if_pos hcan]; exact Reach.refl _
  rw [if_neg hcan]
  by_cases hcomp : i.complete = true
  · rw [if_pos hcomp]
    refine Reach.of_eq (abs_dispose_restart0 s c ?_).symm
    intro hr
    have := rphaseOf_restart_some s.reg i (hr ▸ hi)
    simp [this, hcomp]
  rw [if_neg hcomp]
  have hph : c = .restart → rphaseOf s.reg = i.phase := by
    intro hr
    have := rphaseOf_restart_some s.reg i (hr ▸ hi)
    simpa [hcan, hcomp] using this
  cases c
  case start =>
    by_cases hs : s.core.started = true
    · simp only [hs, if_true]
      exact Reach.of_eq (abs_dispose_ne s .start (by decide)).symm
    · simp only [hs, Bool.false_eq_true, if_false]
      refine Reach.act .startRun (show s.core.started = false by simpa using hs) ?_
      rw [abs_dispose_ne _ _ (by decide), abs_setTracking]; rfl
  case unpause =>
    refine Reach.act .unpause (fun g => Or.inl (hG g rfl)) ?_
    simp only []
    rw [abs_dispose_ne _ _ (by decide)]; rfl
  case unhold =>
    refine Reach.act .unhold (fun g => Or.inl (hG g rfl)) ?_
    simp only []
    rw [abs_dispose_ne _ _ (by decide)]; rfl
  case pause =>
    have h1 : Reach cfg pm (abs s) ⟨s.core.pause cfg, rphaseOf s.reg, s.emgr.tracking⟩ :=
      Reach.act .pause (fun g => hG g rfl) rfl
    simp only []
    split
    · split
      · refine h1.trans (Reach.of_eq ?_)
        rw [abs_dispose_ne _ _ (by decide)]; rfl
      · split
        · refine h1.trans (Reach.of_eq ?_)
          simp [abs, rphaseOf_set_ne, State.emgr]
        · refine h1.trans (Reach.act .unpause (fun g => Or.inl ?_) ?_)
          · show (Core.pause cfg s.core).started = true
            rw [pause_started]; exact hG g rfl
          · rw [abs_dispose_ne _ _ (by decide)]; rfl
    · split
      · exact Reach.refl _
      · refine Reach.act .unpause (fun g => Or.inl (hG g rfl)) ?_
        rw [abs_dispose_ne _ _ (by decide)]; rfl
  case hold =>
    have h1 : Reach cfg pm (abs s) ⟨s.core.hold, rphaseOf s.reg, s.emgr.tracking⟩ :=
      Reach.act .hold (fun g => hG g rfl) rfl
    simp only []
    split
    · split
      · refine h1.trans (Reach.of_eq ?_)
        rw [abs_dispose_ne _ _ (by decide)]; rfl
      · split
        · refine h1.trans (Reach.of_eq ?_)
          simp [abs, rphaseOf_set_ne, State.emgr]
        · refine h1.trans (Reach.act .unhold (fun g => Or.inl ?_) ?_)
          · simpa [Core.hold] using hG g rfl
          · rw [abs_dispose_ne _ _ (by decide)]; rfl
    · split
      · exact Reach.refl _
      · refine Reach.act .unhold (fun g => Or.inl (hG g rfl)) ?_
        rw [abs_dispose_ne _ _ (by decide)]; rfl
  case stop =>
    by_cases hp : i.phase = 0
    · simp only [hp, if_true]
      split
      · exact Reach.of_eq (abs_dispose_ne s .stop (by decide)).symm
      · rename_i hsys
        have hsys' : s.core.sys ≠ .stopped ∧ s.core.sys ≠ .restarting :=
          ⟨fun e => hsys (Or.inl e), fun e => hsys (Or.inr e)⟩
        have h1 : Reach cfg pm (abs s)
            (abs { s with core := s.core.stopBegin, reg := s.reg.set .stop (some { i with phase := 1 }) }) := by
          refine Reach.act .stopBegin hsys' ?_
          simp [abs, Act.apply, rphaseOf_set_ne, State.emgr]
        refine h1.trans ?_
        exact cancelAll_ref (cfg := cfg) (pm := pm) .stop (Or.inl rfl)
          { s with core := s.core.stopBegin, reg := s.reg.set .stop (some { i with phase := 1 }) }
          (CInv_of_not _ _ (by simpa [Core.stopBegin] using hsys))
    · simp only [hp, if_false]
      by_cases h2 : cfg.cancel2 = true
      · simp only [h2, if_true]
        obtain ⟨fx, d, h⟩ := cancelAll_fx .stop s
        generalize cancelAll .stop s = s0 at h ⊢
        simp only [abs, absFx, A.mk.injEq] at h
        refine Reach.act (.stopFinishC fx d) trivial ?_
        simp [abs, Act.apply, rphaseOf_set_ne, h.1, h.2.1]
      · simp only [h2, Bool.false_eq_true, if_false]
        refine Reach.act .stopFinish trivial ?_
        simp [abs, Act.apply, rphaseOf_set_ne]
  case restart =>
    have hph := hph rfl
    by_cases hp : i.phase = 0
    · simp only [hp, if_true]
      split
      · refine Reach.of_eq (abs_dispose_restart0 s .restart (fun _ => ?_)).symm
        rw [hph, hp]
      · rename_i hsys
        have hsys' : s.core.sys ≠ .stopped ∧ s.core.sys ≠ .restarting :=
          ⟨fun e => hsys (Or.inl e), fun e => hsys (Or.inr e)⟩
        have h1 : Reach cfg pm (abs s)
            (abs { s with core := s.core.restartBegin,
                          reg := s.reg.set .restart (some { i with phase := 1 }) }) := by
          refine Reach.act .restartBegin hsys' ?_
          simp [abs, Act.apply, rphaseOf, Reg.restart_set, hcan, hcomp, State.emgr]
        refine h1.trans ?_
        exact cancelAll_ref (cfg := cfg) (pm := pm) .restart (Or.inr rfl)
          { s with core := s.core.restartBegin, reg := s.reg.set .restart (some { i with phase := 1 }) }
          ⟨by simp [Core.restartBegin], fun h => by cases h⟩
    · simp only [hp, if_false]
      by_cases hp1 : i.phase = 1
      · simp only [hp1, if_true]
        by_cases h2 : cfg.cancel2 = true
        · simp only [h2, if_true]
          obtain ⟨fx, d, h⟩ := cancelAll_fx .restart s
          generalize cancelAll .restart s = s0 at h ⊢
          simp only [abs, absFx, A.mk.injEq] at h
          refine Reach.act (.restartMidC fx) (by simp [abs, Act.enabled, hph, hp1]) ?_
          simp [abs, Act.apply, rphaseOf, Reg.restart_set, hcan, hcomp, State.emgr, State.swapMgr, h.1]
        · simp only [h2, Bool.false_eq_true, if_false]
          refine Reach.act .restartMid (by simp [abs, Act.enabled, hph, hp1]) ?_
          simp [abs, Act.apply, rphaseOf, Reg.restart_set, hcan, hcomp, State.emgr, State.swapMgr]
      · simp only [hp1, if_false]
        refine Reach.act .restartFinish trivial ?_
        simp [abs, Act.apply, rphaseOf, Reg.restart_set]

/-! ## Executing requests, the command loop -/

/-- A request that cannot make `_execute_internal_command` raise: its argument is accepted by the command
    and its instance id is registered (or the command is one that tracking skips by name). -/
def okReq (r : Req) : Prop := argValid r.cmd r.arg = true ∧ (r.tracked = true ∨ skipName r.cmd = true)

theorem trkRaise_false (s : State) (r : Req) (h : okReq r) : trkRaise s r = false := by
  unfold trkRaise
  rcases h.2 with h | h <;> simp [h]

theorem abs_set_fresh (s : State) (c : Cmd) (i : Inst) (hnone : s.reg.get c = none) (hp : i.phase = 0) :
    abs { s with reg := s.reg.set c (some i) } = abs s := by
  by_cases hr : c = .restart
  · subst hr
    have : s.reg.restart = none := hnone
    simp [abs, rphaseOf, Reg.restart_set, this, hp, State.emgr]
  · simp [abs, rphaseOf_set_ne _ _ _ hr, State.emgr]

theorem abs_afterTick (r : Req) (p : State × Res) : abs (afterTick r p).1 = abs p.1 := by
  obtain ⟨s1, res⟩ := p
  cases res <;> simp [afterTick, abs_markDone]

theorem afterTick_noraise (r : Req) (p : State × Res) (h : okReq r) : (afterTick r p).2 = false := by
  obtain ⟨s1, res⟩ := p
  cases res <;> simp [afterTick, trkRaise_false _ r h]

theorem execReq_ref {cfg : Cfg} {pm : Perm} (s : State) (r : Req) :
    Reach cfg pm (abs s) (abs (execReq cfg s r).1) := by
  unfold execReq
  by_cases hg : (cfg.guard && !s.core.started && needsRun r.cmd) = true
  · rw [if_pos hg]; exact Reach.of_eq (abs_markDone s r).symm
  rw [if_neg hg]
  have hG : cfg.guard = true → needsRun r.cmd = true → s.core.started = true := by
    intro h1 h2
    by_cases h3 : s.core.started = true
    · exact h3
    · exfalso; apply hg; simp [h1, h2, h3]
  split
  · rename_i i hi
    by_cases hcan : i.cancelled = true
    · rw [if_pos hcan]
      refine Reach.of_eq ?_
      show abs s = abs ((s.dispose r.cmd).markDone r)
      rw [abs_markDone]
      refine (abs_dispose_restart0 s r.cmd ?_).symm
      intro hr
      have := rphaseOf_restart_some s.reg i (hr ▸ hi)
      simp [this, hcan]
    · rw [if_neg hcan, abs_afterTick]
      exact instTick_ref s r.cmd i hi hG
  · rename_i hnone
    have hf := abs_set_fresh s r.cmd (freshInst r.cmd r.arg) hnone rfl
    simp only []
    split
    · exact Reach.of_eq hf.symm
    · have key : ∀ s0 : State, s0.core = s.core → abs s0 = abs s →
          s0.reg.get r.cmd = some (freshInst r.cmd r.arg) →
          Reach cfg pm (abs s)
            (abs (if trkRaise s0 r = true then (s0, true)
                  else afterTick r (instTick cfg s0 r.cmd (freshInst r.cmd r.arg))).1) := by
        intro s0 hc ha hi0
        split
        · exact Reach.of_eq ha.symm
        · rw [abs_afterTick, ← ha]
          exact instTick_ref s0 r.cmd _ hi0 (by rw [hc]; exact hG)
      split
      · refine key _ rfl ?_ (by simp)
        rw [← hf]
        refine abs_eq rfl rfl ?_
        unfold State.emgr; cases s.next <;> rfl
      · exact key _ rfl hf (by simp)

theorem execReq_noraise {cfg : Cfg} (s : State) (r : Req) (h : okReq r) : (execReq cfg s r).2 = false := by
  unfold execReq
  split
  · rfl
  · split
    · split
      · exact trkRaise_false _ r h
      · exact afterTick_noraise _ _ h
    · simp only [h.1, Bool.not_true, Bool.false_eq_true, if_false, trkRaise_false _ r h]
      exact afterTick_noraise _ _ h

theorem cmdLoop_ref {cfg : Cfg} {pm : Perm} (rs : List Req) (s : State) :
    Reach cfg pm (abs s) (abs (cmdLoop cfg rs s).1) := by
  induction rs generalizing s with
  | nil => exact Reach.refl _
  | cons r rs ih =>
    unfold cmdLoop
    split
    · exact ih s
    · have h1 := execReq_ref (cfg := cfg) (pm := pm) s r
      generalize execReq cfg s r = p at h1 ⊢
      obtain ⟨s1, b⟩ := p
      cases b
      · exact h1.trans (ih s1)
      · exact h1

theorem cmdLoop_noraise {cfg : Cfg} (rs : List Req) (s : State) (h : ∀ r ∈ rs, okReq r) :
    (cmdLoop cfg rs s).2 = false := by
  induction rs generalizing s with
  | nil => rfl
  | cons r rs ih =>
    unfold cmdLoop
    have hr := h r List.mem_cons_self
    have hrs : ∀ r' ∈ rs, okReq r' := fun r' m => h r' (List.mem_cons_of_mem _ m)
    split
    · exact ih s hrs
    · have h2 := execReq_noraise (cfg := cfg) s r hr
      generalize execReq cfg s r = p at h2 ⊢
      obtain ⟨s1, b⟩ := p
      cases b
      · exact ih s1 hrs
      · cases h2

/-! ## The command phase, the tick, one operation -/

theorem abs_adopt (s : State) : abs (adopt s) = abs s := by
  unfold adopt
  split
  · rename_i nm h
    refine abs_eq rfl rfl ?_
    simp [State.emgr, h]
  · rename_i h
    refine abs_eq rfl rfl ?_
    simp [State.emgr, h, Mgr.commit]

theorem abs_drain (s : State) : abs (drain s) = abs s := by
  refine abs_eq rfl rfl ?_
  unfold drain State.emgr; cases s.next <;> rfl

theorem cmdPhase_ref {cfg : Cfg} {pm : Perm} (s : State)
    (h : pm.err = true ∨ ∀ r ∈ s.mgr.queue.reverse ++ s.mgr.exec, okReq r) :
    Reach cfg pm (abs s) (abs (cmdPhase cfg s)) := by
  unfold cmdPhase
  simp only []
  have h1 := cmdLoop_ref (cfg := cfg) (pm := pm) (drain s).mgr.exec (drain s)
  rw [abs_drain] at h1
  have h2 : pm.err = true ∨ (cmdLoop cfg (drain s).mgr.exec (drain s)).2 = false := by
    rcases h with h | h
    · exact Or.inl h
    · exact Or.inr (cmdLoop_noraise _ _ h)
  generalize cmdLoop cfg (drain s).mgr.exec (drain s) = p at h1 h2 ⊢
  split
  · rename_i hr
    have he : pm.err = true := by
      rcases h2 with h | h
      · exact h
      · rw [hr] at h; cases h
    refine h1.trans (Reach.act .error (Or.inl he) ?_)
    have h3 := abs_adopt p.1
    simp only [abs, A.mk.injEq] at h3
    simp only [abs, Act.apply, h3.1, h3.2.1]
    congr 1
    exact h3.2.2
  · rw [abs_adopt]; exact h1

theorem abs_enqueue (s : State) (c : Cmd) (u : Bool) (a : Arg) : abs (enqueue s c u a) = abs s := by
  unfold enqueue
  refine abs_eq (by simp) (by simp) ?_
  show (State.emgr { s.setEmgr _ with nextReq := _ }).tracking = _
  have : ∀ (t : State) (n : Nat), State.emgr { t with nextReq := n } = t.emgr := fun _ _ => rfl
  rw [this, emgr_setEmgr]

theorem interpItems_ref {cfg : Cfg} {pm : Perm} (hev : pm.ev = true) (items : List Item) (s : State) :
    Reach cfg pm (abs s) (abs (items.foldl interpItem s)) := by
  induction items generalizing s with
  | nil => exact Reach.refl _
  | cons it items ih =>
    simp only [List.foldl_cons]
    refine Reach.trans ?_ (ih _)
    cases it with
    | ev e => exact Reach.act (.ev e) hev rfl
    | cmd c a => exact Reach.of_eq (abs_enqueue s c false a).symm

theorem interpItems_started (items : List Item) (s : State) :
    (items.foldl interpItem s).core.started = s.core.started := by
  induction items generalizing s with
  | nil => rfl
  | cons it items ih =>
    simp only [List.foldl_cons]
    rw [ih]
    cases it with
    | ev e => cases e <;> simp [interpItem, Core.event] <;> split <;> rfl
    | cmd c a => simp [interpItem, enqueue]

theorem tickPre_ref {cfg : Cfg} {pm : Perm} (hev : pm.ev = true) (s : State) (t : TickIn)
    (h : pm.err = true ∨ t.readFail = false) :
    Reach cfg pm (abs s) (abs (tickPre cfg s t)) := by
  unfold tickPre
  simp only []
  have h1 : Reach cfg pm (abs s)
      (abs (if (t.readFail && !s.core.lastErr) = true
            then { s with now := s.now + t.adv, core := s.core.setError cfg }
            else { s with now := s.now + t.adv })) := by
    split
    · rename_i hc
      refine Reach.act .error (Or.inl ?_) rfl
      rcases h with h | h
      · exact h
      · simp [h] at hc
    · exact Reach.refl _
  generalize (if (t.readFail && !s.core.lastErr) = true
            then ({ s with now := s.now + t.adv, core := s.core.setError cfg } : State)
            else { s with now := s.now + t.adv }) = s1 at h1 ⊢
  refine h1.trans ?_
  split
  · rename_i hgate
    have hst : s1.core.started = true := by
      simp only [Core.gate, Bool.and_eq_true] at hgate
      exact hgate.1.1.1
    have h2 := interpItems_ref (cfg := cfg) (pm := pm) hev t.items s1
    have h3 := interpItems_started t.items s1
    generalize t.items.foldl interpItem s1 = s2 at h2 h3 ⊢
    refine h2.trans ?_
    split
    · exact Reach.act .error (Or.inr (by rw [abs_core, h3, hst])) rfl
    · exact Reach.refl _
  · exact Reach.refl _

theorem tickClock_ref {cfg : Cfg} {pm : Perm} (s : State) (inc : Int) (h : pm.clk = true) :
    Reach cfg pm (abs s) (abs (tickClock cfg inc s)) :=
  Reach.act (.clock inc) h rfl

theorem tickPost_ref {cfg : Cfg} {pm : Perm} (s : State)
    (h : pm.err = true ∨ ∀ r ∈ s.mgr.queue.reverse ++ s.mgr.exec, okReq r) :
    Reach cfg pm (abs s) (abs (tickPost cfg s)) :=
  (cmdPhase_ref s h).trans (Reach.act .write trivial rfl)

/-! ## The requests held by the managers -/

def Mgr.reqs (m : Mgr) : List Req := m.queue ++ m.exec ++ m.pendingRestart.toList

/-- every request the engine still holds: in the manager of the running loop and in the engine's new one -/
def State.reqs (s : State) : List Req :=
  s.mgr.reqs ++ (match s.next with
    | some m => m.reqs
    | none => [])

/-- `s'` holds no request that `s` does not hold. -/
def Sub (s' s : State) : Prop := ∀ r, r ∈ s'.reqs → r ∈ s.reqs

theorem Sub.refl (s : State) : Sub s s := fun _ h => h
theorem Sub.trans {a b c : State} (h1 : Sub a b) (h2 : Sub b c) : Sub a c := fun r h => h2 r (h1 r h)

theorem Sub.of_eq {s' s : State} (h1 : s'.mgr = s.mgr) (h2 : s'.next = s.next) : Sub s' s := by
  intro r h; simpa [State.reqs, h1, h2] using h

theorem mem_emgr_reqs {s : State} {r : Req} (h : r ∈ s.emgr.reqs) : r ∈ s.reqs := by
  unfold State.reqs State.emgr at *
  cases hn : s.next with
  | none => simp [hn] at h ⊢; exact h
  | some m => simp [hn] at h ⊢; exact Or.inr h

theorem sub_setEmgr (s : State) (m : Mgr) (h : ∀ r, r ∈ m.reqs → r ∈ s.emgr.reqs) : Sub (s.setEmgr m) s := by
  intro r hr
  unfold State.setEmgr at hr
  cases hn : s.next with
  | none =>
    simp only [hn, State.reqs, List.append_nil] at hr
    exact mem_emgr_reqs (h r hr)
  | some m0 =>
    simp only [hn, State.reqs, List.mem_append] at hr
    rcases hr with hr | hr
    · simp only [State.reqs, hn, List.mem_append]; exact Or.inl hr
    · exact mem_emgr_reqs (h r hr)

theorem sub_setTracking (s : State) (b : Bool) : Sub (s.setTracking b) s :=
  sub_setEmgr s _ (fun _ h => h)

theorem sub_swapMgr (s : State) : Sub s.swapMgr s := by
  intro r hr
  have hr' : r ∈ s.mgr.reqs ∨ r ∈ s.emgr.pendingRestart.toList := by
    simpa [State.swapMgr, State.reqs, Mgr.reqs, or_assoc] using hr
  rcases hr' with hr' | hr'
  · unfold State.reqs; simp only [List.mem_append]; exact Or.inl hr'
  · apply mem_emgr_reqs
    simp only [Mgr.reqs, List.mem_append]
    exact Or.inr hr'

theorem sub_markDone (s : State) (r : Req) : Sub (s.markDone r) s := by
  unfold State.markDone; split
  · intro x hx; simpa [State.reqs, Mgr.reqs] using hx
  · exact Sub.refl s

theorem sub_markDoneE (s : State) (r : Req) : Sub (s.markDoneE r) s := by
  unfold State.markDoneE; split
  · exact sub_setEmgr s _ (fun _ h => by simpa [Mgr.reqs] using h)
  · exact Sub.refl s

theorem sub_instCancel (s : State) (c : Cmd) (i : Inst) : Sub (instCancel s c i) s := by
  unfold instCancel; split <;> exact Sub.of_eq rfl rfl

theorem sub_cancelOne (s : State) (r : Req) : Sub (cancelOne s r) s := by
  unfold cancelOne
  split
  · exact Sub.refl s
  · simp only []
    split
    · exact (sub_markDoneE _ r).trans (Sub.of_eq rfl rfl)
    · split
      · exact ((sub_markDoneE _ r).trans (Sub.of_eq rfl rfl)).trans (sub_instCancel s _ _)
      · exact sub_instCancel s _ _

theorem sub_cancelList (src : Cmd) (rs : List Req) (s : State) : Sub (cancelList src rs s) s := by
  induction rs generalizing s with
  | nil => exact Sub.refl s
  | cons r rs ih =>
    unfold cancelList
    split
    · exact ih s
    · exact (ih _).trans (sub_cancelOne s r)

theorem sub_cancelAll (src : Cmd) (s : State) : Sub (cancelAll src s) s :=
  (Sub.of_eq rfl rfl).trans (sub_cancelList src _ s)

theorem sub_cancel2 (cfg : Cfg) (src : Cmd) (s : State) :
    Sub (if cfg.cancel2 = true then cancelAll src s else s) s := by
  split
  · exact sub_cancelAll src s
  · exact Sub.refl s

theorem sub_instTick (cfg : Cfg) (s : State) (c : Cmd) (i : Inst) : Sub (instTick cfg s c i).1 s := by
  unfold instTick
  split
  · exact Sub.refl s
  split
  · exact Sub.of_eq rfl rfl
  cases c
  case start =>
    simp only []
    split
    · exact Sub.of_eq rfl rfl
    · exact (Sub.of_eq rfl rfl).trans ((sub_setTracking _ true).trans (Sub.of_eq rfl rfl))
  case unpause => exact Sub.of_eq rfl rfl
  case unhold => exact Sub.of_eq rfl rfl
  case pause =>
    simp only []
    split
    · split
      · exact Sub.of_eq rfl rfl
      · split <;> exact Sub.of_eq rfl rfl
    · split
      · exact Sub.refl s
      · exact Sub.of_eq rfl rfl
  case hold =>
    simp only []
    split
    · split
      · exact Sub.of_eq rfl rfl
      · split <;> exact Sub.of_eq rfl rfl
    · split
      · exact Sub.refl s
      · exact Sub.of_eq rfl rfl
  case stop =>
    simp only []
    split
    · split
      · exact Sub.of_eq rfl rfl
      · exact (sub_cancelAll .stop _).trans (Sub.of_eq rfl rfl)
    · exact ((Sub.of_eq rfl rfl).trans ((sub_swapMgr _).trans ((sub_setTracking _ false).trans
        (Sub.of_eq rfl rfl)))).trans (sub_cancel2 cfg .stop s)
  case restart =>
    simp only []
    split
    · split
      · exact Sub.of_eq rfl rfl
      · exact (sub_cancelAll .restart _).trans (Sub.of_eq rfl rfl)
    · split
      · exact ((Sub.of_eq rfl rfl).trans ((sub_swapMgr _).trans ((sub_setTracking _ false).trans
          (Sub.of_eq rfl rfl)))).trans (sub_cancel2 cfg .restart s)
      · exact (Sub.of_eq rfl rfl).trans ((sub_setTracking _ true).trans (Sub.of_eq rfl rfl))

theorem sub_afterTick (r : Req) (p : State × Res) : Sub (afterTick r p).1 p.1 := by
  obtain ⟨s1, res⟩ := p
  cases res
  · exact Sub.refl _
  · exact sub_markDone _ r
  · exact sub_markDone _ r

theorem reqs_execReq (cfg : Cfg) (s : State) (r : Req) :
    ∀ x ∈ (execReq cfg s r).1.reqs, x ∈ s.reqs ∨ x = r := by
  intro x hx
  unfold execReq at hx
  split at hx
  · exact Or.inl (sub_markDone s r x hx)
  · split at hx
    · split at hx
      · have h2 : Sub ((s.dispose r.cmd).markDone r) s := (sub_markDone _ r).trans (Sub.of_eq rfl rfl)
        exact Or.inl (h2 x hx)
      · exact Or.inl (((sub_afterTick r _).trans (sub_instTick cfg s _ _)) x hx)
    · simp only [] at hx
      split at hx
      · exact Or.inl ((Sub.of_eq (s := s) rfl rfl) x hx)
      · have key : ∀ s0 : State, (∀ y ∈ s0.reqs, y ∈ s.reqs ∨ y = r) →
            x ∈ (if trkRaise s0 r = true then (s0, true)
                  else afterTick r (instTick cfg s0 r.cmd (freshInst r.cmd r.arg))).1.reqs →
            x ∈ s.reqs ∨ x = r := by
          intro s0 h0 hx
          split at hx
          · exact h0 x hx
          · exact h0 x (((sub_afterTick r _).trans (sub_instTick cfg s0 _ _)) x hx)
        split at hx
        · refine key _ ?_ hx
          intro y hy
          simp only [State.reqs, Mgr.reqs, List.mem_append, Option.mem_toList] at hy ⊢
          rcases hy with ((hy | hy) | hy) | hy
          · exact Or.inl (Or.inl (Or.inl (Or.inl hy)))
          · exact Or.inl (Or.inl (Or.inl (Or.inr hy)))
          · exact Or.inr (Option.some.inj hy).symm
          · exact Or.inl (Or.inr hy)
        · exact key { s with reg := s.reg.set r.cmd (some (freshInst r.cmd r.arg)) }
            (fun y hy => Or.inl ((Sub.of_eq (s := s) rfl rfl) y hy)) hx

theorem reqs_cmdLoop (cfg : Cfg) (rs : List Req) (s : State) :
    ∀ x ∈ (cmdLoop cfg rs s).1.reqs, x ∈ s.reqs ∨ x ∈ rs := by
  induction rs generalizing s with
  | nil => intro x hx; exact Or.inl hx
  | cons r rs ih =>
    intro x hx
    unfold cmdLoop at hx
    split at hx
    · rcases ih s x hx with h | h
      · exact Or.inl h
      · exact Or.inr (List.mem_cons_of_mem _ h)
    · have h1 := reqs_execReq cfg s r
      generalize execReq cfg s r = p at h1 hx
      obtain ⟨s1, b⟩ := p
      have fin : ∀ y, y ∈ s1.reqs → y ∈ s.reqs ∨ y ∈ r :: rs := by
        intro y hy
        rcases h1 y hy with h | h
        · exact Or.inl h
        · exact Or.inr (h ▸ List.mem_cons_self)
      cases b
      · rcases ih s1 x hx with h | h
        · exact fin x h
        · exact Or.inr (List.mem_cons_of_mem _ h)
      · exact fin x hx

theorem sub_drain (s : State) : Sub (drain s) s := by
  intro x hx
  simp only [drain, State.reqs, Mgr.reqs, List.mem_append, List.mem_reverse, List.nil_append] at hx ⊢
  rcases hx with ((hx | hx) | hx) | hx
  · exact Or.inl (Or.inl (Or.inl hx))
  · exact Or.inl (Or.inl (Or.inr hx))
  · exact Or.inl (Or.inr hx)
  · exact Or.inr hx

theorem mem_drain_exec (s : State) : ∀ x ∈ (drain s).mgr.exec, x ∈ s.reqs := by
  intro x hx
  simp only [drain, List.mem_append, List.mem_reverse] at hx
  simp only [State.reqs, Mgr.reqs, List.mem_append]
  rcases hx with hx | hx
  · exact Or.inl (Or.inl (Or.inl hx))
  · exact Or.inl (Or.inl (Or.inr hx))

theorem sub_adopt (s : State) : Sub (adopt s) s := by
  intro x hx
  unfold adopt at hx
  split at hx
  · rename_i nm h
    simp only [State.reqs, List.append_nil] at hx
    simp only [State.reqs, h, List.mem_append]
    exact Or.inr hx
  · rename_i h
    simp only [State.reqs, h, List.append_nil, Mgr.reqs, Mgr.commit, List.mem_append, List.mem_filter] at hx ⊢
    rcases hx with (hx | hx) | hx
    · exact Or.inl (Or.inl hx)
    · exact Or.inl (Or.inr hx.1)
    · exact Or.inr hx

theorem sub_cmdPhase (cfg : Cfg) (s : State) : Sub (cmdPhase cfg s) s := by
  intro x hx
  unfold cmdPhase at hx
  simp only [] at hx
  have h1 : x ∈ (adopt (cmdLoop cfg (drain s).mgr.exec (drain s)).1).reqs := by
    split at hx
    · exact (Sub.of_eq rfl rfl) x hx
    · exact hx
  rcases reqs_cmdLoop cfg _ _ x (sub_adopt _ x h1) with h | h
  · exact sub_drain s x h
  · exact mem_drain_exec s x h

/-- The request that `enqueue` creates. -/
def newReq (s : State) (c : Cmd) (u : Bool) (a : Arg) : Req :=
  { id := s.nextReq, cmd := c, user := u, arg := a, tracked := s.emgr.tracking }

theorem reqs_enqueue (s : State) (c : Cmd) (u : Bool) (a : Arg) :
    ∀ x ∈ (enqueue s c u a).reqs, x ∈ s.reqs ∨ x = newReq s c u a := by
  intro x hx
  unfold enqueue at hx
  have h1 : x ∈ (s.setEmgr { s.emgr with queue := s.emgr.queue ++ [newReq s c u a] }).reqs :=
    (Sub.of_eq rfl rfl) x hx
  unfold State.setEmgr at h1
  cases hn : s.next with
  | none =>
    simp only [hn, State.reqs, State.emgr, Mgr.reqs, List.mem_append, List.append_nil, Option.getD_none,
      List.mem_singleton] at h1 ⊢
    rcases h1 with ((h1 | h1) | h1) | h1
    · exact Or.inl (Or.inl (Or.inl h1))
    · exact Or.inr h1
    · exact Or.inl (Or.inl (Or.inr h1))
    · exact Or.inl (Or.inr h1)
  | some m0 =>
    simp only [hn, State.reqs, State.emgr, Mgr.reqs, List.mem_append, Option.getD_some,
      List.mem_singleton] at h1 ⊢
    rcases h1 with h1 | ((h1 | h1) | h1) | h1
    · exact Or.inl (Or.inl h1)
    · exact Or.inl (Or.inr (Or.inl (Or.inl h1)))
    · exact Or.inr h1
    · exact Or.inl (Or.inr (Or.inl (Or.inr h1)))
    · exact Or.inl (Or.inr (Or.inr h1))

/-- Every held request satisfies `P`. -/
def AllReq (P : Req → Prop) (s : State) : Prop := ∀ r ∈ s.reqs, P r

theorem AllReq.sub {P : Req → Prop} {s s' : State} (h : AllReq P s) (hs : Sub s' s) : AllReq P s' :=
  fun r hr => h r (hs r hr)

/-! ## Operation sequences -/

/-- Interpreter items whose command arguments the commands accept. -/
def Item.quiet : Item → Prop
  | .ev _ => True
  | .cmd c a => argValid c a = true

/-- A tick without hardware read error and without ill-formed command arguments
    (an interpreter error is allowed: it can only strike while a run is active). -/
def TickIn.quiet (t : TickIn) : Prop := t.readFail = false ∧ ∀ it ∈ t.items, it.quiet

/-- Operations of the C06 quantifier: user commands, method-issued commands, ticks, output changes —
    no error injected from outside a run. -/
def Op.quiet : Op → Prop
  | .tick t => t.quiet
  | .errApi => False
  | _ => True

theorem enqueue_trk (s : State) (c : Cmd) (u : Bool) (a : Arg) :
    (enqueue s c u a).emgr.tracking = s.emgr.tracking := by
  have h := abs_enqueue s c u a
  simp only [abs, A.mk.injEq] at h
  exact h.2.2

theorem interpItem_trk (s : State) (it : Item) : (interpItem s it).emgr.tracking = s.emgr.tracking := by
  cases it with
  | ev e => rfl
  | cmd c a => exact enqueue_trk s c false a

theorem allReq_interpItems (items : List Item) (s : State) (hq : AllReq okReq s)
    (hi : ∀ it ∈ items, it.quiet) (ht : s.emgr.tracking = true) :
    AllReq okReq (items.foldl interpItem s) := by
  induction items generalizing s with
  | nil => exact hq
  | cons it items ih =>
    simp only [List.foldl_cons]
    refine ih _ ?_ (fun x hx => hi x (List.mem_cons_of_mem _ hx)) (by rw [interpItem_trk]; exact ht)
    cases it with
    | ev e => exact hq.sub (Sub.of_eq rfl rfl)
    | cmd c a =>
      intro r hr
      rcases reqs_enqueue s c false a r hr with h | h
      · exact hq r h
      · subst h
        exact ⟨hi _ List.mem_cons_self, Or.inl ht⟩

theorem allReq_tickPre {cfg : Cfg} (s : State) (t : TickIn) (hq : AllReq okReq s) (ht : t.quiet)
    (hT : s.core.started = true → s.emgr.tracking = true) : AllReq okReq (tickPre cfg s t) := by
  unfold tickPre
  simp only [ht.1, Bool.false_and, Bool.false_eq_true, if_false]
  split
  · rename_i hgate
    have hst : s.core.started = true := by
      simp only [Core.gate, Bool.and_eq_true] at hgate
      exact hgate.1.1.1
    have h1 := allReq_interpItems t.items { s with now := s.now + t.adv } (hq.sub (Sub.of_eq rfl rfl)) ht.2
      (hT hst)
    split
    · exact h1.sub (Sub.of_eq rfl rfl)
    · exact h1.sub (Sub.of_eq rfl rfl)
  · exact hq.sub (Sub.of_eq rfl rfl)

theorem okReq_user (s : State) (c : Cmd) (hv : s.core.valid c = true)
    (hT : s.core.started = true → s.emgr.tracking = true)
    (hA : s.core.sys ≠ .stopped → s.core.started = true) : okReq (newReq s c true .none) := by
  refine ⟨by cases c <;> rfl, ?_⟩
  by_cases hs : skipName c = true
  · exact Or.inr hs
  · refine Or.inl (hT (hA ?_))
    intro hst
    cases c <;> simp_all [Core.valid, skipName]

/-- One operation refines the action system; with `Op.quiet` input no error strikes outside a run. -/
theorem step_ref {cfg : Cfg} (s : State) (op : Op) (hop : op.quiet) (hq : AllReq okReq s)
    (hT : s.core.started = true → s.emgr.tracking = true)
    (hA : s.core.sys ≠ .stopped → s.core.started = true) :
    Reach cfg ⟨false, true, true⟩ (abs s) (abs (step cfg s op).1) ∧ AllReq okReq (step cfg s op).1 := by
  cases op with
  | user c =>
    by_cases hv : s.core.valid c = true
    · simp only [step, hv, if_true]
      refine ⟨Reach.of_eq (abs_enqueue s c true .none).symm, ?_⟩
      intro r hr
      rcases reqs_enqueue s c true .none r hr with h | h
      · exact hq r h
      · exact h ▸ okReq_user s c hv hT hA
    · simp only [step, hv, Bool.false_eq_true, if_false]
      exact ⟨Reach.refl _, hq⟩
  | userUnknown => exact ⟨Reach.refl _, hq⟩
  | userBlank => exact ⟨Reach.refl _, hq⟩
  | setOut i v => exact ⟨Reach.act (.setOut i v) trivial rfl, hq.sub (Sub.of_eq rfl rfl)⟩
  | errApi => exact absurd hop (by simp [Op.quiet])
  | tick t =>
    have ht : t.quiet := hop
    have q1 := allReq_tickPre (cfg := cfg) s t hq ht hT
    have q2 : AllReq okReq (tickClock cfg t.inc (tickPre cfg s t)) := q1.sub (Sub.of_eq rfl rfl)
    have r1 := tickPre_ref (cfg := cfg) (pm := ⟨false, true, true⟩) rfl s t (Or.inr ht.1)
    have r2 := tickClock_ref (cfg := cfg) (pm := ⟨false, true, true⟩) (tickPre cfg s t) t.inc rfl
    have r3 := tickPost_ref (cfg := cfg) (pm := ⟨false, true, true⟩) (tickClock cfg t.inc (tickPre cfg s t))
      (Or.inr (fun r hr => q2 r (by
        simp only [List.mem_append, List.mem_reverse] at hr
        simp only [State.reqs, Mgr.reqs, List.mem_append]
        rcases hr with hr | hr
        · exact Or.inl (Or.inl (Or.inl hr))
        · exact Or.inl (Or.inl (Or.inr hr)))))
    refine ⟨(r1.trans r2).trans r3, ?_⟩
    show AllReq okReq (tickPost cfg (tickClock cfg t.inc (tickPre cfg s t)))
    exact q2.sub ((Sub.of_eq rfl rfl).trans (sub_cmdPhase cfg _))

/-- One operation refines the action system when errors may strike at any time: no hypothesis at all. -/
theorem step_ref_err {cfg : Cfg} (s : State) (op : Op) :
    Reach cfg ⟨true, true, true⟩ (abs s) (abs (step cfg s op).1) := by
  cases op with
  | user c =>
    by_cases hv : s.core.valid c = true
    · simp only [step, hv, if_true]
      exact Reach.of_eq (abs_enqueue s c true .none).symm
    · simp only [step, hv, Bool.false_eq_true, if_false]
      exact Reach.refl _
  | userUnknown => exact Reach.refl _
  | userBlank => exact Reach.refl _
  | setOut i v => exact Reach.act (.setOut i v) trivial rfl
  | errApi => exact Reach.act .error (Or.inl rfl) rfl
  | tick t =>
    exact ((tickPre_ref rfl s t (Or.inl rfl)).trans (tickClock_ref _ t.inc rfl)).trans
      (tickPost_ref _ (Or.inl rfl))

theorem run_ref_err {cfg : Cfg} (ops : List Op) (s : State) :
    Reach cfg ⟨true, true, true⟩ (abs s) (abs (run cfg s ops)) := by
  induction ops generalizing s with
  | nil => exact Reach.refl _
  | cons o ops ih => exact (step_ref_err s o).trans (ih _)

end OPM.RunState
