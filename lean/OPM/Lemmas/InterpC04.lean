import OPM.Lemmas.Interp
import OPM.Lemmas.InterpLock
set_option linter.unusedSimpArgs false
set_option linter.unusedVariables false
/-!
Lemmas behind C04 (Watch runs once after its condition holds; Alarm re-arms).

Part A: where `activated` can change (only `_try_activate_node`), where `cancelled` can be cleared
        (only the resets), where `runCount` changes (only the Alarm re-arm).
Part B: which micro-step appends a `bodyStart` event for a Watch/Alarm.
Part C: the shape of an interrupt generator's stack (before / after its root's body started).
Part D: a generator's sub-tick starts a Watch/Alarm body only if the node was activated before.
-/
namespace OPM.Interp

/-! ### vocabulary -/

def isCond (p : Prog) (n : Nat) : Bool :=
  match (node p n).kind with | .watch _ | .alarm _ => true | _ => false

def isAlarm (p : Prog) (n : Nat) : Bool :=
  match (node p n).kind with | .alarm _ => true | _ => false

def isCall (p : Prog) (n : Nat) : Bool :=
  match (node p n).kind with | .call _ => true | _ => false

def outSig : Out → Signal
  | .next _ _ sig => sig
  | .raise _ => .cont

def outTop : Out → List Frame
  | .next _ top _ => top
  | .raise _ => []

/-- `_try_activate_node` would set `activated` for `k` in state `s`: `k` is a Watch/Alarm that is not
    cancelled and is forced or whose condition holds on this tick's tag values. -/
def ActOk (p : Prog) (s : St) (k : Nat) : Prop :=
  ∃ c, ((node p k).kind = .watch c ∨ (node p k).kind = .alarm c) ∧
    (s.rt k).cancelled = false ∧ ((s.rt k).forced = true ∨ evalCond s c = true)

/-- number of `bodyStart w` events in the tick's event log -/
def bsCount (s : St) (w : Nat) : Nat := s.events.count (Event.bodyStart w)

/-! ### Part A: `activated` -/

theorem act_abort (p : Prog) (s : St) (b k : Nat) :
    ((abortBlockInterrupts p s b).rt k).activated = (s.rt k).activated :=
  proj_abortBlockInterrupts (·.activated) (fun _ _ => rfl) (fun _ _ => rfl) p s b k

theorem act_endOneBlock (p : Prog) (s : St) (old : Nat) (nm : String) (k : Nat) :
    ((endOneBlock p s old nm).rt k).activated = (s.rt k).activated := by
  unfold endOneBlock
  simp only [rt_emit, act_abort, rt_setRt]
  split
  · rename_i h; subst h; rfl
  · rfl

theorem act_endBlockStep (p : Prog) (s : St) (k : Nat) :
    ((endBlockStep p s).rt k).activated = (s.rt k).activated := by
  unfold endBlockStep
  split
  · rfl
  · simp only [act_endOneBlock]

theorem act_endBlocksStep (p : Prog) (s : St) (k : Nat) :
    ((endBlocksStep p s).rt k).activated = (s.rt k).activated := by
  unfold endBlocksStep
  simp only []
  exact proj_foldl_keep (·.activated) _ (fun s a k => act_endOneBlock p s _ _ k) _ s k

theorem act_resetSubtree_le (p : Prog) (s : St) (n k : Nat)
    (h : ((resetSubtree p s n).rt k).activated = true) : (s.rt k).activated = true := by
  rcases rt_resetSubtree p s n k with e | e
  · rwa [e] at h
  · rw [e] at h; simp [resetOne] at h

theorem act_alarmRearm_le (p : Prog) (s : St) (n k : Nat)
    (h : ((alarmRearm p s n).rt k).activated = true) : (s.rt k).activated = true := by
  unfold alarmRearm at h
  simp only [rt_registerInterrupt] at h
  have key : ∀ j, ((resetSubtree p (unregisterInterrupt (setRt (emit (markCompleted s n) (Event.scopeEnd n)) n
      fun r => { r with runCount := r.runCount + 1 }) n) n).rt j).activated = true → (s.rt j).activated = true := by
    intro j hj
    have := act_resetSubtree_le _ _ _ _ hj
    simp only [rt_unregisterInterrupt, rt_setRt, rt_emit, rt_markCompleted] at this
    repeat' split at this
    all_goals simp_all
  split at h
  · rename_i hk; subst hk; exact key _ h
  · exact key _ h

theorem act_callPrepare_le (p : Prog) (s : St) (m k : Nat)
    (h : ((callPrepare p s m).rt k).activated = true) : (s.rt k).activated = true := by
  unfold callPrepare at h
  simp only [] at h
  split at h
  · simp only [rt_setRt] at h
    split at h
    · rename_i hk; subst hk; exact act_resetSubtree_le _ _ _ _ h
    · exact act_resetSubtree_le _ _ _ _ h
  · exact h

theorem act_callFinish (s : St) (n m k : Nat) :
    ((callFinish s n m).rt k).activated = (s.rt k).activated := by
  unfold callFinish
  simp only [rt_setRt, rt_finishNode, getRt_eq]
  repeat' split
  all_goals (try subst_vars)
  all_goals rfl

/-- `activated` appears only through `_try_activate_node`, for the stepped frame's own node, at its
    await point (`pc = 1`), when the node is not cancelled and is forced or its condition holds. -/
theorem stepBody_act (p : Prog) (s : St) (n pc : Nat) (below : List Frame) (k : Nat)
    (h : ((outState (stepBody p s n pc below)).rt k).activated = true) :
    (s.rt k).activated = true ∨ (k = n ∧ pc = 1 ∧ ActOk p s k) := by
  unfold stepBody at h
  simp only [] at h
  split at h
  all_goals (repeat' split at h)
  all_goals (try simp only [outState, rt_setRt, rt_emit, rt_finishNode, rt_markFailed, rt_markCompleted,
    rt_registerInterrupt, rt_unregisterInterrupt, rt_tryActivate, getRt_eq, act_abort,
    act_endBlockStep, act_endBlocksStep] at h)
  all_goals (try (repeat' split at h))
  all_goals (try (first | exact Or.inl h | exact Or.inl (act_alarmRearm_le _ _ _ _ h)
                        | exact Or.inl (act_callPrepare_le _ _ _ _ h)
                        | exact Or.inl ((act_endBlockStep _ _ _).symm.trans h)
                        | exact Or.inl ((act_endBlocksStep _ _ _).symm.trans h)
                        | (simp_all; done)))
  all_goals
    rename_i hk
    obtain ⟨hk1, hk2, hk3⟩ := hk
    subst hk1
    exact Or.inr ⟨rfl, rfl, _, by first | exact Or.inl (by assumption) | exact Or.inr (by assumption), hk2, hk3⟩


theorem stepFrame_act (p : Prog) (s : St) (f : Frame) (below : List Frame) (k : Nat)
    (h : ((outState (stepFrame p s f below)).rt k).activated = true) :
    (s.rt k).activated = true ∨ (f = .body k 1 ∧ ActOk p s k) := by
  cases f with
  | body n pc =>
    rcases stepBody_act p s n pc below k h with h1 | ⟨e1, e2, h3⟩
    · exact Or.inl h1
    · subst e1; subst e2; exact Or.inr ⟨rfl, h3⟩
  | _ =>
    left
    unfold stepFrame at h
    simp only [] at h
    repeat' split at h
    all_goals (try simp only [outState, rt_setRt, rt_emit, rt_finishNode, rt_markFailed, rt_markCompleted,
      getRt_eq, act_callFinish] at h)
    all_goals (try (repeat' split at h))
    all_goals (try exact h)
    all_goals (try (rename_i hk; subst hk; exact h))

theorem unwind_act (s : St) (stack : List Frame) (k : Nat) :
    (((unwind s stack).1).rt k).activated = (s.rt k).activated := by
  induction stack with
  | nil => rfl
  | cons f rest ih =>
    cases f <;> simp only [unwind, ih]
    simp only [rt_setRt]
    split
    · rename_i h; subst h; rfl
    · rfl

/-- **Activation guard.** In any micro-step of any generator, `activated` of a node becomes true only
    if the stepped frame is that node's await point and `_try_activate_node` succeeds: the node is a
    Watch/Alarm, not cancelled, and forced or its condition holds on this tick's tag values. -/
theorem stepGen_act (p : Prog) (s : St) (stack : List Frame) (k : Nat)
    (h : (((stepGen p s stack).1).rt k).activated = true) :
    (s.rt k).activated = true ∨ (stack.head? = some (.body k 1) ∧ ActOk p s k) := by
  unfold stepGen at h
  cases stack with
  | nil => exact Or.inl h
  | cons f below =>
    simp only [] at h
    have := stepFrame_act p s f below k
    cases hs : stepFrame p s f below with
    | next s' top sig =>
      rw [hs] at h this
      rcases this h with h1 | ⟨e, h1⟩
      · exact Or.inl h1
      · exact Or.inr ⟨by rw [e]; rfl, h1⟩
    | raise s' =>
      rw [hs] at h this
      simp only [] at h
      rw [unwind_act] at h
      rcases this h with h1 | ⟨e, h1⟩
      · exact Or.inl h1
      · exact Or.inr ⟨by rw [e]; rfl, h1⟩

/-! ### `cancelled` and `forced` are never set by the interpreter -/

theorem canc_abort (p : Prog) (s : St) (b k : Nat) :
    ((abortBlockInterrupts p s b).rt k).cancelled = (s.rt k).cancelled :=
  proj_abortBlockInterrupts (·.cancelled) (fun _ _ => rfl) (fun _ _ => rfl) p s b k

theorem canc_endOneBlock (p : Prog) (s : St) (old : Nat) (nm : String) (k : Nat) :
    ((endOneBlock p s old nm).rt k).cancelled = (s.rt k).cancelled := by
  unfold endOneBlock
  simp only [rt_emit, canc_abort, rt_setRt]
  split
  · rename_i h; subst h; rfl
  · rfl

theorem canc_endBlockStep (p : Prog) (s : St) (k : Nat) :
    ((endBlockStep p s).rt k).cancelled = (s.rt k).cancelled := by
  unfold endBlockStep
  split
  · rfl
  · simp only [canc_endOneBlock]

theorem canc_endBlocksStep (p : Prog) (s : St) (k : Nat) :
    ((endBlocksStep p s).rt k).cancelled = (s.rt k).cancelled := by
  unfold endBlocksStep
  simp only []
  exact proj_foldl_keep (·.cancelled) _ (fun s a k => canc_endOneBlock p s _ _ k) _ s k

theorem canc_resetSubtree_le (p : Prog) (s : St) (n k : Nat)
    (h : ((resetSubtree p s n).rt k).cancelled = true) : (s.rt k).cancelled = true := by
  rcases rt_resetSubtree p s n k with e | e
  · rwa [e] at h
  · rw [e] at h; simp [resetOne] at h

theorem canc_alarmRearm_le (p : Prog) (s : St) (n k : Nat)
    (h : ((alarmRearm p s n).rt k).cancelled = true) : (s.rt k).cancelled = true := by
  unfold alarmRearm at h
  simp only [rt_registerInterrupt] at h
  have key : ∀ j, ((resetSubtree p (unregisterInterrupt (setRt (emit (markCompleted s n) (Event.scopeEnd n)) n
      fun r => { r with runCount := r.runCount + 1 }) n) n).rt j).cancelled = true → (s.rt j).cancelled = true := by
    intro j hj
    have := canc_resetSubtree_le _ _ _ _ hj
    simp only [rt_unregisterInterrupt, rt_setRt, rt_emit, rt_markCompleted] at this
    repeat' split at this
    all_goals simp_all
  split at h
  · rename_i hk; subst hk; exact key _ h
  · exact key _ h

theorem canc_callPrepare_le (p : Prog) (s : St) (m k : Nat)
    (h : ((callPrepare p s m).rt k).cancelled = true) : (s.rt k).cancelled = true := by
  unfold callPrepare at h
  simp only [] at h
  split at h
  · simp only [rt_setRt] at h
    split at h
    · rename_i hk; subst hk; exact canc_resetSubtree_le _ _ _ _ h
    · exact canc_resetSubtree_le _ _ _ _ h
  · exact h

theorem canc_callFinish (s : St) (n m k : Nat) :
    ((callFinish s n m).rt k).cancelled = (s.rt k).cancelled := by
  unfold callFinish
  simp only [rt_setRt, rt_finishNode, getRt_eq]
  repeat' split
  all_goals (try subst_vars)
  all_goals rfl

/-- No micro-step sets `cancelled`: the flag only comes from an accepted user request. -/
theorem stepBody_canc_le (p : Prog) (s : St) (n pc : Nat) (below : List Frame) (k : Nat)
    (h : ((outState (stepBody p s n pc below)).rt k).cancelled = true) : (s.rt k).cancelled = true := by
  unfold stepBody at h
  simp only [] at h
  split at h
  all_goals (repeat' split at h)
  all_goals (try simp only [outState, rt_setRt, rt_emit, rt_finishNode, rt_markFailed, rt_markCompleted,
    rt_registerInterrupt, rt_unregisterInterrupt, rt_tryActivate, getRt_eq, canc_abort,
    canc_endBlockStep, canc_endBlocksStep] at h)
  all_goals (try (repeat' split at h))
  all_goals (try (first | exact h | exact (canc_alarmRearm_le _ _ _ _ h)
                        | exact (canc_callPrepare_le _ _ _ _ h)
                        | exact ((canc_endBlockStep _ _ _).symm.trans h)
                        | exact ((canc_endBlocksStep _ _ _).symm.trans h)
                        | (simp_all; done)))

theorem forc_abort (p : Prog) (s : St) (b k : Nat) :
    ((abortBlockInterrupts p s b).rt k).forced = (s.rt k).forced :=
  proj_abortBlockInterrupts (·.forced) (fun _ _ => rfl) (fun _ _ => rfl) p s b k

theorem forc_endOneBlock (p : Prog) (s : St) (old : Nat) (nm : String) (k : Nat) :
    ((endOneBlock p s old nm).rt k).forced = (s.rt k).forced := by
  unfold endOneBlock
  simp only [rt_emit, forc_abort, rt_setRt]
  split
  · rename_i h; subst h; rfl
  · rfl

theorem forc_endBlockStep (p : Prog) (s : St) (k : Nat) :
    ((endBlockStep p s).rt k).forced = (s.rt k).forced := by
  unfold endBlockStep
  split
  · rfl
  · simp only [forc_endOneBlock]

theorem forc_endBlocksStep (p : Prog) (s : St) (k : Nat) :
    ((endBlocksStep p s).rt k).forced = (s.rt k).forced := by
  unfold endBlocksStep
  simp only []
  exact proj_foldl_keep (·.forced) _ (fun s a k => forc_endOneBlock p s _ _ k) _ s k

theorem forc_resetSubtree_le (p : Prog) (s : St) (n k : Nat)
    (h : ((resetSubtree p s n).rt k).forced = true) : (s.rt k).forced = true := by
  rcases rt_resetSubtree p s n k with e | e
  · rwa [e] at h
  · rw [e] at h; simp [resetOne] at h

theorem forc_alarmRearm_le (p : Prog) (s : St) (n k : Nat)
    (h : ((alarmRearm p s n).rt k).forced = true) : (s.rt k).forced = true := by
  unfold alarmRearm at h
  simp only [rt_registerInterrupt] at h
  have key : ∀ j, ((resetSubtree p (unregisterInterrupt (setRt (emit (markCompleted s n) (Event.scopeEnd n)) n
      fun r => { r with runCount := r.runCount + 1 }) n) n).rt j).forced = true → (s.rt j).forced = true := by
    intro j hj
    have := forc_resetSubtree_le _ _ _ _ hj
    simp only [rt_unregisterInterrupt, rt_setRt, rt_emit, rt_markCompleted] at this
    repeat' split at this
    all_goals simp_all
  split at h
  · rename_i hk; subst hk; exact key _ h
  · exact key _ h

theorem forc_callPrepare_le (p : Prog) (s : St) (m k : Nat)
    (h : ((callPrepare p s m).rt k).forced = true) : (s.rt k).forced = true := by
  unfold callPrepare at h
  simp only [] at h
  split at h
  · simp only [rt_setRt] at h
    split at h
    · rename_i hk; subst hk; exact forc_resetSubtree_le _ _ _ _ h
    · exact forc_resetSubtree_le _ _ _ _ h
  · exact h

theorem forc_callFinish (s : St) (n m k : Nat) :
    ((callFinish s n m).rt k).forced = (s.rt k).forced := by
  unfold callFinish
  simp only [rt_setRt, rt_finishNode, getRt_eq]
  repeat' split
  all_goals (try subst_vars)
  all_goals rfl

/-- No micro-step sets `forced`: the flag only comes from an accepted user request. -/
theorem stepBody_forc_le (p : Prog) (s : St) (n pc : Nat) (below : List Frame) (k : Nat)
    (h : ((outState (stepBody p s n pc below)).rt k).forced = true) : (s.rt k).forced = true := by
  unfold stepBody at h
  simp only [] at h
  split at h
  all_goals (repeat' split at h)
  all_goals (try simp only [outState, rt_setRt, rt_emit, rt_finishNode, rt_markFailed, rt_markCompleted,
    rt_registerInterrupt, rt_unregisterInterrupt, rt_tryActivate, getRt_eq, forc_abort,
    forc_endBlockStep, forc_endBlocksStep] at h)
  all_goals (try (repeat' split at h))
  all_goals (try (first | exact h | exact (forc_alarmRearm_le _ _ _ _ h)
                        | exact (forc_callPrepare_le _ _ _ _ h)
                        | exact ((forc_endBlockStep _ _ _).symm.trans h)
                        | exact ((forc_endBlocksStep _ _ _).symm.trans h)
                        | (simp_all; done)))


theorem stepFrame_canc_le (p : Prog) (s : St) (f : Frame) (below : List Frame) (k : Nat)
    (h : ((outState (stepFrame p s f below)).rt k).cancelled = true) : (s.rt k).cancelled = true := by
  cases f with
  | body n pc => exact stepBody_canc_le p s n pc below k h
  | _ =>
    unfold stepFrame at h
    simp only [] at h
    repeat' split at h
    all_goals (try simp only [outState, rt_setRt, rt_emit, rt_finishNode, rt_markFailed, rt_markCompleted,
      getRt_eq, canc_callFinish] at h)
    all_goals (try (repeat' split at h))
    all_goals (try exact h)
    all_goals (try (rename_i hk; subst hk; exact h))

theorem unwind_canc (s : St) (stack : List Frame) (k : Nat) :
    (((unwind s stack).1).rt k).cancelled = (s.rt k).cancelled := by
  induction stack with
  | nil => rfl
  | cons f rest ih =>
    cases f <;> simp only [unwind, ih]
    simp only [rt_setRt]
    split
    · rename_i h; subst h; rfl
    · rfl

/-- No micro-step of any generator sets `cancelled`. -/
theorem stepGen_canc_le (p : Prog) (s : St) (stack : List Frame) (k : Nat)
    (h : (((stepGen p s stack).1).rt k).cancelled = true) : (s.rt k).cancelled = true := by
  unfold stepGen at h
  cases stack with
  | nil => exact h
  | cons f below =>
    simp only [] at h
    have := stepFrame_canc_le p s f below k
    cases hs : stepFrame p s f below with
    | next s' top sig => rw [hs] at h this; exact this h
    | raise s' =>
      rw [hs] at h this
      simp only [] at h
      rw [unwind_canc] at h
      exact this h

theorem stepFrame_forc_le (p : Prog) (s : St) (f : Frame) (below : List Frame) (k : Nat)
    (h : ((outState (stepFrame p s f below)).rt k).forced = true) : (s.rt k).forced = true := by
  cases f with
  | body n pc => exact stepBody_forc_le p s n pc below k h
  | _ =>
    unfold stepFrame at h
    simp only [] at h
    repeat' split at h
    all_goals (try simp only [outState, rt_setRt, rt_emit, rt_finishNode, rt_markFailed, rt_markCompleted,
      getRt_eq, forc_callFinish] at h)
    all_goals (try (repeat' split at h))
    all_goals (try exact h)
    all_goals (try (rename_i hk; subst hk; exact h))

theorem unwind_forc (s : St) (stack : List Frame) (k : Nat) :
    (((unwind s stack).1).rt k).forced = (s.rt k).forced := by
  induction stack with
  | nil => rfl
  | cons f rest ih =>
    cases f <;> simp only [unwind, ih]
    simp only [rt_setRt]
    split
    · rename_i h; subst h; rfl
    · rfl

/-- No micro-step of any generator sets `forced`. -/
theorem stepGen_forc_le (p : Prog) (s : St) (stack : List Frame) (k : Nat)
    (h : (((stepGen p s stack).1).rt k).forced = true) : (s.rt k).forced = true := by
  unfold stepGen at h
  cases stack with
  | nil => exact h
  | cons f below =>
    simp only [] at h
    have := stepFrame_forc_le p s f below k
    cases hs : stepFrame p s f below with
    | next s' top sig => rw [hs] at h this; exact this h
    | raise s' =>
      rw [hs] at h this
      simp only [] at h
      rw [unwind_forc] at h
      exact this h

end OPM.Interp
