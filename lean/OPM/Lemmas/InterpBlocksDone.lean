import OPM.Lemmas.InterpBlocksTag
import OPM.Lemmas.InterpC02d
set_option linter.unusedSimpArgs false
set_option linter.unusedVariables false
/-!
# Blocks: a Block is completed only after it was ended — over whole runs  (C05)

`BlockDone p s`: every completed Block has `block_ended`.  `blockDone_lifts` shows it is kept by every
micro-step of every generator (with the two small well-formedness invariants of C02d: the macro table
holds macro nodes, `callRet` / `waitLoop` frames do not sit on Blocks), hence by every tick
(`OPM.InterpC02.good_tick`) and by every schedule of requests (`blockDone_final`).
-/
namespace OPM.Interp
open OPM.InterpC02 OPM.InterpRun

/-- The `completed` flag of a Block flips to true only in a micro-step that found `block_ended` set. -/
theorem block_completed_needs_ended (p : Prog) (s : St) (n pc : Nat) (name : String) (below : List Frame)
    (hk : (node p n).kind = .block name)
    (hnc : (s.rt n).completed = false)
    (hc : ((outState (stepBody p s n pc below)).rt n).completed = true) :
    (s.rt n).blockEnded = true := by
  by_cases hbe : (s.rt n).blockEnded = true
  · exact hbe
  · exfalso
    unfold stepBody at hc
    simp only [hk, getRt_eq, hnc, hbe] at hc
    repeat' split at hc
    all_goals (try simp only [outState, rt_setRt, rt_emit, rt_finishNode] at hc)
    all_goals simp_all

/-- frames that complete a node other than through its own body dispatch do not belong to Blocks -/
def frameOKB (p : Prog) : Frame → Bool
  | .callRet n m => isMacroNode p m && !isBlock p n
  | .waitLoop n _ => !isBlock p n
  | _ => true

def FramesOKB (p : Prog) (stack : List Frame) : Prop := ∀ f ∈ stack, frameOKB p f = true

/-- **A completed Block is an ended Block.** -/
def BlockDone (p : Prog) (s : St) : Prop :=
  ∀ k, isBlock p k = true → (s.rt k).completed = true → (s.rt k).blockEnded = true

def DoneInv (p : Prog) (s : St) : Prop := MacrosOK p s ∧ BlockDone p s

theorem isMacro_not_block (p : Prog) (m : Nat) (h : isMacroNode p m = true) : isBlock p m = false := by
  unfold isMacroNode at h; unfold isBlock
  split at h <;> simp_all

/-- `block_ended` survives every body step for a node that is completed afterwards (a reset clears both). -/
theorem ended_keep_of_effect (p : Prog) (s s' : St) (n pc k : Nat) (eff : BlkEffect p s n pc s')
    (he : (s.rt k).blockEnded = true) (hc' : (s'.rt k).completed = true) : (s'.rt k).blockEnded = true := by
  cases eff with
  | same hs => rw [(hs.2 k).2]; exact he
  | acquire name hk hpc hnl hall hs =>
    rw [(hs.2 k).2]; simp only [rt_setRt]; split
    · rename_i e; subst e; exact he
    · exact he
  | release hb hcond hs =>
    rw [(hs.2 k).2]; simp only [rt_setRt]; split
    · rename_i e; subst e; exact he
    · exact he
  | endBlock hk hpc hs =>
    rw [(hs.2 k).2]
    cases hl : lockedBlocks p s with
    | nil => rw [endBlockStep_nil p s hl]; exact he
    | cons old rest =>
      rw [(endBlockStep_cons p s old rest hl).2.1 k]
      split
      · rfl
      · exact he
  | endBlocks hk hpc hs =>
    rw [(hs.2 k).2, (endBlocksStep_effect p s).2.1 k, he]; rfl
  | rearm c hk hpc hs hcomp =>
    by_cases hm : k ∈ n :: descendants p n
    · rw [hcomp k hm] at hc'; cases hc'
    · rw [(hs.2 k).2, rt_resetSubtree_mem, if_neg hm]; exact he
  | recall name m hk hpc hl hs hcomp =>
    by_cases hm : k ∈ m :: descendants p m
    · rw [hcomp k hm] at hc'; cases hc'
    · rw [(hs.2 k).2, rt_resetSubtree_mem, if_neg hm]; exact he

theorem stepBody_blockDone (p : Prog) (s : St) (n pc : Nat) (below : List Frame) (h : BlockDone p s) :
    BlockDone p (outState (stepBody p s n pc below)) := by
  intro k hb hc'
  have eff := stepBody_blk p s n pc below
  apply ended_keep_of_effect p s _ n pc k eff _ hc'
  by_cases hkn : k = n
  · subst hkn
    cases hc : (s.rt k).completed with
    | true => exact h k hb hc
    | false =>
      unfold isBlock at hb
      split at hb
      · rename_i name hk
        exact block_completed_needs_ended p s k pc name below hk hc hc'
      · cases hb
  · exact h k hb (stepBody_completed_other p s n pc below k hkn hc')

theorem stepFrame_blockDone (p : Prog) (s : St) (f : Frame) (below : List Frame)
    (hf : frameOKB p f = true) (h : BlockDone p s) : BlockDone p (outState (stepFrame p s f below)) := by
  cases f with
  | body n pc => exact stepBody_blockDone p s n pc below h
  | callRet n m =>
    intro k hb hc'
    simp only [frameOKB, Bool.and_eq_true, Bool.not_eq_true'] at hf
    have hkm : k ≠ m := by
      intro e; subst e; rw [isMacro_not_block p k hf.1] at hb; cases hb
    have hkn : k ≠ n := by
      intro e; subst e; rw [hf.2] at hb; cases hb
    simp only [stepFrame, outState] at hc' ⊢
    unfold callFinish at hc' ⊢
    simp only [rt_setRt, rt_finishNode, getRt_eq, hkm, hkn, if_false] at hc' ⊢
    exact h k hb hc'
  | waitLoop n e =>
    intro k hb hc'
    simp only [frameOKB, Bool.not_eq_true'] at hf
    have hkn : k ≠ n := by
      intro e; subst e; rw [hf] at hb; cases hb
    unfold stepFrame at hc' ⊢
    simp only [] at hc' ⊢
    repeat' split at hc'
    all_goals (repeat' split)
    all_goals (simp only [outState, rt_finishNode, hkn, if_false] at hc' ⊢)
    all_goals (first | exact h k hb hc' | simp_all)
  | wrapEnter n =>
    intro k hb hc'
    unfold stepFrame at hc' ⊢
    simp only [] at hc' ⊢
    split at hc'
    · rename_i hcond; rw [if_pos hcond]; exact h k hb hc'
    · rename_i hcond; rw [if_neg hcond]
      simp only [outState, rt_setRt] at hc' ⊢
      split at hc'
      · rename_i e; subst e; simp only [if_true] at hc' ⊢; exact h k hb hc'
      · rename_i e; simp only [e, if_false]; exact h k hb hc'
  | wrapThr n =>
    intro k hb hc'
    have hs := stepFrame_same p s (.wrapThr n) below (by intros; simp)
    rw [(hs.2 k).2]
    apply h k hb
    unfold stepFrame at hc'
    simp only [] at hc'
    repeat' split at hc'
    all_goals (simp only [outState, rt_setRt, rt_emit] at hc')
    all_goals (try (split at hc'))
    all_goals (try subst_vars)
    all_goals (first | exact hc' | simp_all)
  | wrapDispatch n => exact h
  | wrapAfter n => exact h
  | children n inx ic =>
    intro k hb hc'
    have hs := stepFrame_same p s (.children n inx ic) below (by intros; simp)
    rw [(hs.2 k).2]
    apply h k hb
    unfold stepFrame at hc'
    simp only [] at hc'
    repeat' split at hc'
    all_goals (simp only [outState, rt_setRt, rt_emit] at hc')
    all_goals (try (split at hc'))
    all_goals (try subst_vars)
    all_goals (first | exact hc' | simp_all)

/-! ### frames -/

theorem stepBody_framesB (p : Prog) (s : St) (n pc : Nat) (below : List Frame) (h : MacrosOK p s) :
    ∀ f ∈ outTop (stepBody p s n pc below), frameOKB p f = true := by
  cases hk : (node p n).kind with
  | call name =>
    have hnb : isBlock p n = false := by simp [isBlock, hk]
    unfold stepBody
    simp only [hk]
    split
    · split
      · simp [outTop]
      · rename_i m hm
        split
        · simp [outTop]
        · split
          · simp [outTop]
          · obtain ⟨e, he, hem⟩ := lookup_mem_snd _ _ _ hm
            have hmac := h e he
            rw [hem] at hmac
            simp [outTop, frameOKB, hmac, hnb]
    · simp [outTop]
  | wait d =>
    have hnb : isBlock p n = false := by simp [isBlock, hk]
    unfold stepBody
    simp only [hk]
    repeat' split
    all_goals simp [outTop, frameOKB, hnb]
  | _ =>
    unfold stepBody
    simp only [hk]
    repeat' split
    all_goals simp [outTop, frameOKB]

theorem stepFrame_framesB (p : Prog) (s : St) (f : Frame) (below : List Frame) (h : MacrosOK p s)
    (hf : frameOKB p f = true) : ∀ g ∈ outTop (stepFrame p s f below), frameOKB p g = true := by
  cases f with
  | body n pc => exact stepBody_framesB p s n pc below h
  | _ =>
    unfold stepFrame
    simp only []
    repeat' split
    all_goals (simp only [outTop, List.mem_cons, List.mem_nil_iff, or_false, forall_eq_or_imp, forall_eq, frameOKB,
      List.not_mem_nil, false_implies, implies_true, and_self, and_true, true_and])
    all_goals (try trivial)
    all_goals (try (simp_all [frameOKB]))

theorem framesOKB_unwind (p : Prog) (s : St) (stack : List Frame) (h : FramesOKB p stack) :
    FramesOKB p (unwind s stack).2 := by
  obtain ⟨pre, hp⟩ := unwind_suffix s stack
  intro f hf
  apply h
  rw [hp]
  exact List.mem_append_right _ hf

theorem doneInv_stepGen (p : Prog) (s : St) (stack : List Frame) (h : DoneInv p s) (hs : FramesOKB p stack) :
    DoneInv p (stepGen p s stack).1 ∧ FramesOKB p (stepGen p s stack).2.1 := by
  cases stack with
  | nil => exact ⟨h, hs⟩
  | cons f below =>
    have hf : frameOKB p f = true := hs f (by simp)
    have hbelow : FramesOKB p below := fun g hg => hs g (List.mem_cons_of_mem _ hg)
    have hm := stepFrame_macros p s f below h.1
    have hfr := stepFrame_framesB p s f below h.1 hf
    have hbd := stepFrame_blockDone p s f below hf h.2
    unfold stepGen
    simp only []
    cases hst : stepFrame p s f below with
    | next s' top sig =>
      rw [hst] at hm hfr hbd
      simp only [outState, outTop] at hm hfr hbd
      refine ⟨⟨hm, hbd⟩, ?_⟩
      intro g hg
      rcases List.mem_append.mp hg with h1 | h1
      · exact hfr g h1
      · exact hbelow g h1
    | raise s' =>
      rw [hst] at hm hbd
      simp only [outState] at hm hbd
      simp only []
      refine ⟨⟨?_, ?_⟩, framesOKB_unwind p s' below hbelow⟩
      · intro e he; rw [macros_unwind] at he; exact hm e he
      · intro k hb hc
        rw [unwind_completed] at hc
        rw [unwind_ended]
        exact hbd k hb hc

theorem blockDone_lifts (p : Prog) : Lifts p (DoneInv p) (FramesOKB p) where
  fresh := fun n f hf => by simp only [List.mem_singleton] at hf; subst hf; rfl
  step := fun s stack h hs => doneInv_stepGen p s stack h hs
  congr := fun s s' hc h => by
    refine ⟨?_, ?_⟩
    · intro e he; rw [hc.macros] at he; exact h.1 e he
    · intro k hb; rw [hc.rt]; exact h.2 k hb

theorem doneGood_init (p : Prog) : Good (DoneInv p) (FramesOKB p) (init p) := by
  refine ⟨⟨?_, ?_⟩, ?_⟩
  · intro e he; simp [init] at he
  · intro k _ hc; simp [init] at hc
  · intro g hg
    simp only [init, List.mem_singleton] at hg
    subst hg
    intro f hf
    simp only [List.mem_singleton] at hf
    subst hf; rfl

theorem doneGood_setRt (p : Prog) (s : St) (n : Nat) (f : NodeRt → NodeRt)
    (hf : ∀ r, ((f r).completed = true → r.completed = true) ∧ (f r).blockEnded = r.blockEnded)
    (h : Good (DoneInv p) (FramesOKB p) s) : Good (DoneInv p) (FramesOKB p) (setRt s n f) := by
  refine ⟨⟨h.1.1, ?_⟩, h.2⟩
  intro k hb hc
  simp only [rt_setRt] at hc ⊢
  split at hc
  · rename_i e; subst e
    simp only [if_true]
    rw [(hf _).2]
    exact h.1.2 k hb ((hf _).1 hc)
  · rename_i e; simp only [e, if_false]; exact h.1.2 k hb hc

theorem doneGood_applyReq (p : Prog) (s : St) (r : Req) (h : Good (DoneInv p) (FramesOKB p) s) :
    Good (DoneInv p) (FramesOKB p) (applyReq p s r) := by
  cases r with
  | tick i =>
    apply good_tick (blockDone_lifts p) s i
    exact ⟨⟨fun e he => h.1.1 e he, fun k hb hc => h.1.2 k hb hc⟩, h.2⟩
  | cancel n =>
    simp only [applyReq, cancel]
    split
    · simp only [Option.getD_some]
      exact doneGood_setRt p s n _ (fun r => ⟨fun hc => hc, rfl⟩) h
    · exact h
  | force n =>
    simp only [applyReq, force]
    split
    · simp only [Option.getD_some]
      exact doneGood_setRt p s n _ (fun r => ⟨fun hc => hc, rfl⟩) h
    · exact h
  | complete n =>
    simp only [applyReq]
    split
    · rename_i hcmd
      unfold completeCmd
      split
      · exact h
      · -- a command node is not a Block
        refine ⟨⟨h.1.1, ?_⟩, h.2⟩
        intro k hb hc
        have hkn : k ≠ n := by
          intro e; subst e
          unfold isCmd at hcmd; unfold isBlock at hb
          split at hcmd <;> simp_all
        simp only [rt_setRt, hkn, if_false] at hc ⊢
        exact h.1.2 k hb hc
    · exact h

/-- **Over every schedule** (ticks with any clock / tag inputs, cancel / force requests, completion reports
    for command nodes) from the start of the method: a completed Block has been ended. -/
theorem blockDone_final (p : Prog) (reqs : List Req) : BlockDone p (final p reqs) := by
  have key : ∀ (reqs : List Req) (acc : St × List Event), Good (DoneInv p) (FramesOKB p) acc.1 →
      Good (DoneInv p) (FramesOKB p) (reqs.foldl (execStep p) acc).1 := by
    intro reqs
    induction reqs with
    | nil => intro acc h; exact h
    | cons r rs ih =>
      intro acc h
      simp only [List.foldl]
      apply ih
      exact doneGood_applyReq p acc.1 r h
  exact (key reqs (init p, []) (doneGood_init p)).1.2

end OPM.Interp
