import OPM.Lemmas.CmdMgrCore
/-!
`_cancel_command` and the three loops that call it (same name, overlapping, Stop/Restart): what they guarantee
under the object invariant.
-/
namespace OPM.CmdMgr

@[simp] theorem view_finalizeObj (s : State) (c : Cmd) : view (finalizeObj s c) = view s := rfl
@[simp] theorem view_finalizeCommand (s : State) (r : Req) (c : Cmd) :
    view (finalizeCommand s r c) = view s := by simp [finalizeCommand]

@[simp] theorem finF_name (ser k : Nat) (o : Cmd) : (finF ser k o).name = o.name := by
  simp only [finF]; split <;> split <;> rfl
@[simp] theorem finF_serial (ser k : Nat) (o : Cmd) : (finF ser k o).serial = o.serial := by
  simp only [finF]; split <;> split <;> rfl

theorem finF_live {ser k : Nat} {o : Cmd} (h : (finF ser k o).inMap = true) :
    (o.serial ≠ ser → finF ser k o = o) ∧ o.name ≠ k := by
  unfold finF at h ⊢
  by_cases hs : o.serial = ser <;> by_cases hn : o.name = k <;> simp_all

structure CancelPost (s s' : State) (c : Req) (k : Nat) : Prop where
  core : Core s'
  view : view s' = view s
  done : ∀ i, i ∈ s'.done ↔ i ∈ s.done ∨ i = c.id
  noLive : ∀ o ∈ s'.objs, o.inMap = true → o.name ≠ k
  evs : ∃ evs, s'.events = s.events ++ evs ∧ ∀ e ∈ evs, ∃ ser, e = Ev.final ser
  len : s.objs.length ≤ s'.objs.length
  mono : ∀ o' ∈ s'.objs, o'.inMap = true → o' ∈ s.objs ∧ o'.inMap = true

theorem cancelCommand_spec {s : State} (h : Core s) (hfix : s.cfg.fixCancel = true) {c : Req} {k : Nat}
    (hc : c ∈ s.executing) (hk : c.name = .uod k)
    (htr : s.tracking = true → c.id ∈ s.track.map (·.id)) :
    CancelPost s (cancelCommand s c) c k := by
  unfold cancelCommand
  rw [hk]
  simp only
  cases hfl : findLive s.objs k with
  | some o =>
    obtain ⟨ho, hm, hn⟩ := findLive_some hfl
    obtain ⟨hfin, _, _, _⟩ := h.live o ho hm
    by_cases hcomp : o.complete = true
    · -- already complete: finalized without a cancel mark
      simp only [hcomp, Bool.not_true, Bool.false_eq_true, ↓reduceIte]
      have hcore : Core (finalizeCommand s c o) :=
        h.kill false ho hm hc (by rw [hk, hn]) (by simp [modObj]) rfl rfl rfl rfl
      have hobjs2 : (finalizeCommand s c o).objs = s.objs.map (finF o.serial o.name) := by
        simp [finalizeCommand, finalizeObj_objs]
      show CancelPost s (finalizeCommand s c o) c k
      refine ⟨hcore, by simp, ?_, ?_, ⟨[.final o.serial], by simp [finalizeCommand], ?_⟩, ?_, ?_⟩
      · intro i
        simp only [finalizeCommand]
        rw [markDone_done_mem]
        simp only [finalizeObj_done, finalizeObj_executing]
        constructor
        · rintro (hd | ⟨e, _⟩)
          · exact Or.inl hd
          · exact Or.inr e
        · rintro (hd | e)
          · exact Or.inl hd
          · exact Or.inr ⟨e, c, hc, rfl⟩
      · intro x hx hmx
        rw [hobjs2] at hx
        obtain ⟨y, hy, rfl⟩ := List.mem_map.mp hx
        have := (finF_live hmx).2
        rw [← hn, finF_name]
        exact this
      · intro e he; simp at he; exact ⟨_, he⟩
      · rw [hobjs2]; simp
      · intro x hx hmx
        rw [hobjs2] at hx
        obtain ⟨y, hy, rfl⟩ := List.mem_map.mp hx
        obtain ⟨e1, e2⟩ := finF_live hmx
        have hys : y.serial ≠ o.serial := by
          intro e
          have : y = o := serial_inj h.serials hy ho e
          subst this
          simp at e2
        rw [e1 hys] at hmx ⊢
        exact ⟨hy, hmx⟩
    have hcomp : o.complete = false := by simpa using hcomp
    simp only [hcomp, Bool.not_false, if_true]
    let s1 : State := { s with objs := modObj s.objs o.serial (fun o => { o with cancelled := true }) }
    have hsome := markReqCancelled_isSome s1 c.id hfix htr
    cases hmk : markReqCancelled s1 c.id with
    | none => simp [s1, hmk] at hsome
    | some s2 =>
      obtain ⟨hv, hobjs, hev, hdone⟩ := markReqCancelled_frame s1 s2 c.id hmk
      obtain ⟨_, hex, _, _, _, _, _, _, _, _, _, _, _, _, _, hcfg, _⟩ := view_eq hv
      have hcore : Core (finalizeCommand s2 c o) :=
        h.kill true ho hm hc (by rw [hk, hn]) (by rw [hobjs]; simp [s1, modObj]) hev hex hdone hcfg
      have hobjs2 : (finalizeCommand s2 c o).objs = s.objs.map (fun x => finF o.serial o.name
          (if x.serial == o.serial then { x with cancelled := true } else x)) := by
        simp [finalizeCommand, finalizeObj_objs, hobjs, s1, modObj, List.map_map, Function.comp_def]
      show CancelPost s (finalizeCommand s2 c o) c k
      refine ⟨hcore, ?_, ?_, ?_, ?_, ?_, ?_⟩
      · rw [view_finalizeCommand, hv]; rfl
      · intro i
        simp only [finalizeCommand]
        rw [markDone_done_mem]
        simp only [finalizeObj_done, finalizeObj_executing, hdone, hex, s1]
        constructor
        · rintro (hd | ⟨e, _⟩)
          · exact Or.inl hd
          · exact Or.inr e
        · rintro (hd | e)
          · exact Or.inl hd
          · exact Or.inr ⟨e, c, hc, rfl⟩
      · intro x hx hmx
        rw [hobjs2] at hx
        obtain ⟨y, hy, rfl⟩ := List.mem_map.mp hx
        have := (finF_live hmx).2
        rw [← hn, finF_name]
        split at this <;> split <;> simpa using this
      · refine ⟨[.final o.serial], ?_, ?_⟩
        · simp [finalizeCommand, hev, s1]
        · intro e he; simp at he; exact ⟨_, he⟩
      · rw [hobjs2]; simp
      · intro x hx hmx
        rw [hobjs2] at hx
        obtain ⟨y, hy, rfl⟩ := List.mem_map.mp hx
        obtain ⟨e1, e2⟩ := finF_live hmx
        have hys : y.serial ≠ o.serial := by
          intro e
          have : y = o := serial_inj h.serials hy ho e
          subst this
          simp at e2
        simp only [beq_iff_eq, hys, if_false] at e1 hmx ⊢
        rw [e1 hys] at hmx ⊢
        exact ⟨hy, hmx⟩
  | none =>
    have hnone := findLive_none hfl
    simp only
    -- `c` holds no initialised instance: making it done keeps the invariant
    have hdrop : ∀ s2 : State, s2.objs = s.objs → s2.events = s.events → s2.executing = s.executing →
        s2.cfg = s.cfg → (∀ i, i ∈ s2.done ↔ i ∈ s.done ∨ i = c.id) → Core s2 := by
      intro s2 hobjs hev hex hcfg hdn
      apply h.congr_done hobjs hev hex hcfg c hc
      · intro o ho hm hn
        rw [hk] at hn
        injection hn with hn
        exact absurd hn.symm (hnone o ho hm)
      · intro i hi; exact (hdn i).mp hi
    cases hst : staleOwner s.stale k with
    | some ow =>
      -- an uninitialised instance of that name: cancelled + finalized (its only callback), released
      simp only
      have hsome := markReqCancelled_isSome s c.id hfix htr
      cases hmk : markReqCancelled s c.id with
      | none => simp [hmk] at hsome
      | some s2 =>
        obtain ⟨hv, hobjs, hev, hdone⟩ := markReqCancelled_frame _ s2 c.id hmk
        obtain ⟨_, hex, _, _, _, _, _, _, _, _, _, _, _, _, _, hcfg, _⟩ := view_eq hv
        simp only
        have hdn : ∀ i, i ∈ (markDone (tomb s2 k ow) c).done ↔ i ∈ s.done ∨ i = c.id := by
          intro i
          rw [markDone_done_mem]
          simp only [tomb, hdone, hex]
          constructor
          · rintro (hh | ⟨e, _⟩)
            · exact Or.inl hh
            · exact Or.inr e
          · rintro (hh | e)
            · exact Or.inl hh
            · exact Or.inr ⟨e, c, hc, rfl⟩
        have hcoreT : Core (tomb s2 k ow) := by
          apply h.appendDead (c := ⟨k, s.objs.length, ow, 0, false, true, false, true, false⟩)
          · simp [tomb, hobjs]
          · rfl
          · rfl
          · rfl
          · rfl
          · rfl
          · simp [tomb, hev, hobjs]
          · simp [tomb, hex]
          · simp [tomb, hcfg]
          · simp [tomb, hdone]
        refine ⟨?_, by rw [view_markDone]; simp only [tomb]; rw [← hv]; rfl, hdn, ?_,
          ⟨[.final s2.objs.length], by simp [tomb, hev], by intro e he; simp at he; exact ⟨_, he⟩⟩,
          by simp [tomb, hobjs], ?_⟩
        · apply hcoreT.congr_done (by simp) (by simp) (by simp) (by simp) c (by simp [tomb, hex, hc])
          · intro o ho hm hn
            simp only [tomb, List.mem_append, List.mem_singleton] at ho
            rcases ho with ho | rfl
            · rw [hobjs] at ho
              rw [hk] at hn
              injection hn with hn
              exact absurd hn.symm (hnone o ho hm)
            · simp at hm
          · intro i hi
            rcases (hdn i).mp hi with h1 | h1
            · left; simp [tomb, hdone, h1]
            · exact Or.inr h1
        · intro o ho hm
          simp only [markDone_objs, tomb, List.mem_append, List.mem_singleton] at ho
          rcases ho with ho | rfl
          · rw [hobjs] at ho; exact hnone o ho hm
          · simp at hm
        · intro o ho hm
          simp only [markDone_objs, tomb, List.mem_append, List.mem_singleton] at ho
          rcases ho with ho | rfl
          · rw [hobjs] at ho; exact ⟨ho, hm⟩
          · simp at hm
    | none =>
      simp only [hfix, Bool.true_and]
      by_cases hd : isDone s c = true
      · simp only [hd, Bool.not_true]
        refine ⟨h, rfl, ?_, hnone, ⟨[], by simp, by simp⟩, Nat.le_refl _, fun o ho hm => ⟨ho, hm⟩⟩
        intro i
        rw [isDone_iff] at hd
        constructor
        · exact Or.inl
        · rintro (hh | rfl)
          · exact hh
          · exact hd
      · have hd' : isDone s c = false := by simpa using hd
        simp only [hd', Bool.not_false, if_true]
        have hsome := markReqCancelled_isSome (markDone s c) c.id (by simpa using hfix) (by simpa using htr)
        cases hmk : markReqCancelled (markDone s c) c.id with
        | none => simp [hmk] at hsome
        | some s2 =>
          obtain ⟨hv, hobjs, hev, hdone⟩ := markReqCancelled_frame _ s2 c.id hmk
          obtain ⟨_, hex, _, _, _, _, _, _, _, _, _, _, _, _, _, hcfg, _⟩ := view_eq hv
          simp only [Option.getD_some]
          have hdn : ∀ i, i ∈ s2.done ↔ i ∈ s.done ∨ i = c.id := by
            intro i
            rw [hdone, markDone_done_mem]
            constructor
            · rintro (hh | ⟨e, _⟩)
              · exact Or.inl hh
              · exact Or.inr e
            · rintro (hh | e)
              · exact Or.inl hh
              · exact Or.inr ⟨e, c, hc, rfl⟩
          refine ⟨hdrop s2 (by simp [hobjs]) (by simp [hev]) (by simpa using hex) (by simpa using hcfg) hdn,
            by simp [hv], hdn, ?_, ⟨[], by simp [hev], by simp⟩, by simp [hobjs], ?_⟩
          · intro o ho hm
            rw [hobjs] at ho
            exact hnone o (by simpa using ho) hm
          · intro o ho hm
            rw [hobjs] at ho
            exact ⟨by simpa using ho, hm⟩

/-- Records exist for the requests of the manager while tracking is on (a statement about `view`). -/
def TrackEx (s : State) : Prop :=
  s.tracking = true → ∀ r ∈ s.executing, r.isUod = true → r.id ∈ s.track.map (·.id)

theorem TrackEx.of_view {s s' : State} (h : TrackEx s) (hv : view s' = view s) : TrackEx s' := by
  obtain ⟨_, hex, htr, _, _, _, _, _, _, _, _, _, _, _, _, _, hids⟩ := view_eq hv
  intro ht r hr hu
  rw [hids]
  exact h (by rw [← htr]; exact ht) r (by rw [← hex]; exact hr) hu

/-- The three cancel loops of the manager as one function: `chk` = skip requests that are done. -/
def cancelWhere (sel : Req → Bool) (chk : Bool) : List Req → State → State
  | [], s => s
  | c :: rest, s =>
    cancelWhere sel chk rest (if (!chk || !isDone s c) && sel c then cancelCommand s c else s)

theorem cancelCommand_life (s : State) (c : Req) (h : c.isUod = false) : cancelCommand s c = s := by
  unfold cancelCommand
  cases hn : c.name <;> simp_all [Req.isUod]

structure PassPost (sel : Req → Bool) (l : List Req) (s s' : State) : Prop where
  core : Core s'
  view : view s' = view s
  doneGrow : ∀ i, i ∈ s.done → i ∈ s'.done
  doneOnly : ∀ i, i ∈ s'.done → i ∈ s.done ∨ ∃ c ∈ l, sel c = true ∧ c.id = i
  allDone : ∀ c ∈ l, sel c = true → c.isUod = true → c.id ∈ s'.done
  evs : ∃ evs, s'.events = s.events ++ evs ∧ ∀ e ∈ evs, ∃ ser, e = Ev.final ser
  len : s.objs.length ≤ s'.objs.length
  mono : ∀ o' ∈ s'.objs, o'.inMap = true → o' ∈ s.objs ∧ o'.inMap = true

theorem cancelWhere_spec (sel : Req → Bool) (chk : Bool) (l : List Req) :
    ∀ {s : State}, Core s → s.cfg.fixCancel = true → TrackEx s → (∀ c ∈ l, c ∈ s.executing) →
      PassPost sel l s (cancelWhere sel chk l s) := by
  induction l with
  | nil =>
    intro s h _ _ _
    exact ⟨h, rfl, fun _ hi => hi, fun _ hi => Or.inl hi, by simp, ⟨[], by simp [cancelWhere], by simp⟩, Nat.le_refl _,
      fun o ho hm => ⟨ho, hm⟩⟩
  | cons c rest ih =>
    intro s h hfix htr hl
    simp only [cancelWhere]
    have hc : c ∈ s.executing := hl c (List.mem_cons_self ..)
    have hrest : ∀ x ∈ rest, x ∈ s.executing := fun x hx => hl x (List.mem_cons_of_mem _ hx)
    by_cases hcond : ((!chk || !isDone s c) && sel c) = true
    · rw [if_pos hcond]
      have hsel : sel c = true := by simp at hcond; exact hcond.2
      cases hu : c.isUod with
      | false =>
        rw [cancelCommand_life s c hu]
        have p := ih h hfix htr hrest
        refine ⟨p.core, p.view, p.doneGrow, ?_, ?_, p.evs, p.len, p.mono⟩
        · intro i hi
          rcases p.doneOnly i hi with hh | ⟨x, hx, h1, h2⟩
          · exact Or.inl hh
          · exact Or.inr ⟨x, List.mem_cons_of_mem _ hx, h1, h2⟩
        · intro x hx hs hxu
          rcases List.mem_cons.mp hx with rfl | hx'
          · rw [hu] at hxu; cases hxu
          · exact p.allDone x hx' hs hxu
      | true =>
        obtain ⟨k, hk⟩ : ∃ k, c.name = .uod k := by
          cases hn : c.name <;> simp_all [Req.isUod]
        have q := cancelCommand_spec h hfix hc hk (fun ht => htr ht c hc hu)
        obtain ⟨_, hex, _, _, _, _, _, _, _, _, _, _, _, _, _, hcfg, _⟩ := view_eq q.view
        have p := ih q.core (by rw [hcfg]; exact hfix) (htr.of_view q.view)
          (fun x hx => by rw [hex]; exact hrest x hx)
        refine ⟨p.core, by rw [p.view, q.view], ?_, ?_, ?_, ?_, Nat.le_trans q.len p.len, ?_⟩
        · intro i hi
          exact p.doneGrow i ((q.done i).mpr (Or.inl hi))
        · intro i hi
          rcases p.doneOnly i hi with hh | ⟨x, hx, h1, h2⟩
          · rcases (q.done i).mp hh with h3 | h3
            · exact Or.inl h3
            · exact Or.inr ⟨c, List.mem_cons_self .., hsel, h3.symm⟩
          · exact Or.inr ⟨x, List.mem_cons_of_mem _ hx, h1, h2⟩
        · intro x hx hs hxu
          rcases List.mem_cons.mp hx with rfl | hx'
          · exact p.doneGrow _ ((q.done _).mpr (Or.inr rfl))
          · exact p.allDone x hx' hs hxu
        · obtain ⟨e1, h1, h2⟩ := q.evs
          obtain ⟨e2, h3, h4⟩ := p.evs
          refine ⟨e1 ++ e2, by rw [h3, h1, List.append_assoc], ?_⟩
          intro e he
          rcases List.mem_append.mp he with he | he
          · exact h2 e he
          · exact h4 e he
        · intro o ho hm
          obtain ⟨a, b⟩ := p.mono o ho hm
          exact q.mono o a b
    · rw [if_neg hcond]
      have p := ih h hfix htr hrest
      refine ⟨p.core, p.view, p.doneGrow, ?_, ?_, p.evs, p.len, p.mono⟩
      · intro i hi
        rcases p.doneOnly i hi with hh | ⟨x, hx, h1, h2⟩
        · exact Or.inl hh
        · exact Or.inr ⟨x, List.mem_cons_of_mem _ hx, h1, h2⟩
      · intro x hx hs hxu
        rcases List.mem_cons.mp hx with rfl | hx'
        · -- selected but skipped: it was done already
          have : isDone s x = true := by
            simp [hs] at hcond
            exact hcond.2
          exact p.doneGrow _ ((isDone_iff s x).mp this)
        · exact p.allDone x hx' hs hxu

end OPM.CmdMgr
