import OPM.Lemmas.Interp
import OPM.Lemmas.InterpLock
set_option linter.unusedSimpArgs false
set_option linter.unusedVariables false
/-!
C02 lemmas, part 1 (all programs):

* `Keep` — the primitives of the interpreter touch only `rt`, `events`, `imap`, `blockTag`;
* `coreEvs` — the observable "instruction" events (`start`, `effect`, `bodyStart`) are emitted by no
  primitive, only by the step function itself, one per micro-step, at one site each (`stepFrame_core`);
* stack discipline — every generator stack is a chain: the frames directly above a children-loop
  frame `children n inx true` belong to child number `inx` of `n`, a children loop sits directly on its
  owner's body frame, body frames sit directly on their wrapper (`chain_stepGen`).
-/
namespace OPM.InterpC02
open OPM.Interp

def outTop : Out → List Frame
  | .next _ t _ => t
  | .raise _ => []

def outSig : Out → Signal
  | .next _ _ sig => sig
  | .raise _ => .cont

/-! ### fields no primitive touches -/

structure Keep (s s' : St) : Prop where
  gens : s'.gens = s.gens
  nextGid : s'.nextGid = s.nextGid
  macros : s'.macros = s.macros
  marks : s'.marks = s.marks
  lastError : s'.lastError = s.lastError
  tickTime : s'.tickTime = s.tickTime
  inInterrupt : s'.inInterrupt = s.inInterrupt

theorem Keep.refl (s : St) : Keep s s := ⟨rfl, rfl, rfl, rfl, rfl, rfl, rfl⟩

theorem Keep.trans {a b c : St} (h1 : Keep a b) (h2 : Keep b c) : Keep a c :=
  ⟨h2.gens.trans h1.gens, h2.nextGid.trans h1.nextGid, h2.macros.trans h1.macros, h2.marks.trans h1.marks,
   h2.lastError.trans h1.lastError, h2.tickTime.trans h1.tickTime, h2.inInterrupt.trans h1.inInterrupt⟩

theorem keep_setRt (s : St) (n : Nat) (f : NodeRt → NodeRt) : Keep s (setRt s n f) := ⟨rfl, rfl, rfl, rfl, rfl, rfl, rfl⟩
theorem keep_emit (s : St) (e : Event) : Keep s (emit s e) := ⟨rfl, rfl, rfl, rfl, rfl, rfl, rfl⟩
theorem keep_blockTag (s : St) (b : Option String) : Keep s { s with blockTag := b } := ⟨rfl, rfl, rfl, rfl, rfl, rfl, rfl⟩

theorem keep_markCompleted (s : St) (n : Nat) : Keep s (markCompleted s n) := by
  unfold markCompleted; split
  · exact keep_emit _ _
  · exact (keep_setRt _ _ _).trans (keep_emit _ _)

theorem keep_finishNode (s : St) (n : Nat) : Keep s (finishNode s n) :=
  (keep_markCompleted s n).trans (keep_setRt _ _ _)

theorem keep_markFailed (s : St) (n : Nat) : Keep s (markFailed s n) :=
  (keep_setRt _ _ _).trans (keep_emit _ _)

theorem keep_unregister (s : St) (n : Nat) : Keep s (unregisterInterrupt s n) := ⟨rfl, rfl, rfl, rfl, rfl, rfl, rfl⟩

theorem keep_foldl {α : Type} (g : St → α → St) (hg : ∀ s a, Keep s (g s a)) (l : List α) (s : St) :
    Keep s (l.foldl g s) := by
  induction l generalizing s with
  | nil => exact Keep.refl s
  | cons a l ih => exact (hg s a).trans (ih (g s a))

theorem keep_abort (p : Prog) (s : St) (b : Nat) : Keep s (abortBlockInterrupts p s b) := by
  unfold abortBlockInterrupts
  apply keep_foldl
  intro s a
  split
  · exact (keep_setRt _ _ _).trans (keep_unregister _ _)
  · exact Keep.refl s

theorem keep_endOneBlock (p : Prog) (s : St) (old : Nat) (nm : String) : Keep s (endOneBlock p s old nm) :=
  (((keep_emit _ _).trans (keep_setRt _ _ _)).trans (keep_abort p _ old)).trans (keep_emit _ _)

theorem keep_endBlockStep (p : Prog) (s : St) : Keep s (endBlockStep p s) := by
  unfold endBlockStep
  split
  · exact Keep.refl s
  · exact (keep_blockTag s _).trans (keep_endOneBlock p _ _ _)

theorem keep_endBlocksStep (p : Prog) (s : St) : Keep s (endBlocksStep p s) := by
  unfold endBlocksStep
  exact (keep_foldl _ (fun s a => keep_endOneBlock p s _ _) _ s).trans (keep_blockTag _ _)

theorem keep_resetSubtree (p : Prog) (s : St) (n : Nat) : Keep s (resetSubtree p s n) := by
  unfold resetSubtree
  exact keep_foldl _ (fun s a => keep_setRt s a _) _ s

theorem keep_tryActivate (s : St) (n : Nat) (c : Cond) : Keep s (tryActivate s n c) := by
  unfold tryActivate
  simp only []
  split
  · exact Keep.refl s
  · split
    · exact keep_setRt _ _ _
    · exact Keep.refl s

theorem keep_callPrepare (p : Prog) (s : St) (m : Nat) : Keep s (callPrepare p s m) := by
  unfold callPrepare
  simp only []
  split
  · exact (keep_resetSubtree p s m).trans (keep_setRt _ _ _)
  · exact Keep.refl s

theorem keep_callFinish (s : St) (n m : Nat) : Keep s (callFinish s n m) := by
  unfold callFinish
  exact (((keep_setRt _ _ _).trans (keep_finishNode _ _)).trans (keep_setRt _ _ _)).trans (keep_setRt _ _ _)

/-- `_register_interrupt` appends one fresh generator. -/
theorem gens_register (p : Prog) (s : St) (n : Nat) :
    (registerInterrupt p s n).gens = s.gens ++ [{ gid := s.nextGid, node := n, stack := [.wrapEnter n] }] := by
  unfold registerInterrupt; simp only []; split <;> rfl

theorem macros_register (p : Prog) (s : St) (n : Nat) : (registerInterrupt p s n).macros = s.macros := by
  unfold registerInterrupt; simp only []; split <;> rfl

theorem gens_alarmRearm (p : Prog) (s : St) (n : Nat) :
    ∃ g, (alarmRearm p s n).gens = s.gens ++ [{ gid := g, node := n, stack := [.wrapEnter n] }] := by
  unfold alarmRearm
  simp only [gens_register]
  have k : Keep s (resetSubtree p (unregisterInterrupt (setRt (emit (markCompleted s n) (Event.scopeEnd n)) n
      fun r => { r with runCount := r.runCount + 1 }) n) n) :=
    ((((keep_markCompleted s n).trans (keep_emit _ _)).trans (keep_setRt _ _ _)).trans (keep_unregister _ _)).trans
      (keep_resetSubtree p _ n)
  exact ⟨_, by rw [k.gens]⟩

theorem macros_alarmRearm (p : Prog) (s : St) (n : Nat) : (alarmRearm p s n).macros = s.macros := by
  unfold alarmRearm
  simp only [macros_register]
  exact (((((keep_markCompleted s n).trans (keep_emit _ _)).trans (keep_setRt _ _ _)).trans (keep_unregister _ _)).trans
      (keep_resetSubtree p _ n)).macros

/-! ### the instruction events -/

/-- `start` (wrapper set `started`), `effect` (the instruction acted), `bodyStart` (a body began). -/
def isCore : Event → Bool
  | .start _ | .effect _ _ | .bodyStart _ => true
  | _ => false

def coreEvs (s : St) : List Event := s.events.filter isCore

theorem core_setRt (s : St) (n : Nat) (f : NodeRt → NodeRt) : coreEvs (setRt s n f) = coreEvs s := rfl
theorem core_blockTag (s : St) (b : Option String) : coreEvs { s with blockTag := b } = coreEvs s := rfl

theorem core_emit (s : St) (e : Event) : coreEvs (emit s e) = if isCore e then e :: coreEvs s else coreEvs s := by
  unfold coreEvs emit
  simp only [List.filter_cons]

theorem core_emit_other (s : St) (e : Event) (h : isCore e = false) : coreEvs (emit s e) = coreEvs s := by
  rw [core_emit, h]; rfl

theorem core_markCompleted (s : St) (n : Nat) : coreEvs (markCompleted s n) = coreEvs s := by
  unfold markCompleted; split
  · exact core_emit_other _ _ rfl
  · rw [core_emit_other _ _ rfl, core_setRt]

theorem core_finishNode (s : St) (n : Nat) : coreEvs (finishNode s n) = coreEvs s := by
  unfold finishNode; rw [core_setRt, core_markCompleted]

theorem core_markFailed (s : St) (n : Nat) : coreEvs (markFailed s n) = coreEvs s := by
  unfold markFailed; rw [core_emit_other _ _ rfl, core_setRt]

theorem core_unregister (s : St) (n : Nat) : coreEvs (unregisterInterrupt s n) = coreEvs s := rfl

theorem core_register (p : Prog) (s : St) (n : Nat) : coreEvs (registerInterrupt p s n) = coreEvs s := by
  unfold registerInterrupt; simp only []; split <;> rfl

theorem core_foldl {α : Type} (g : St → α → St) (hg : ∀ s a, coreEvs (g s a) = coreEvs s) (l : List α) (s : St) :
    coreEvs (l.foldl g s) = coreEvs s := by
  induction l generalizing s with
  | nil => rfl
  | cons a l ih => simp only [List.foldl]; rw [ih, hg]

theorem core_abort (p : Prog) (s : St) (b : Nat) : coreEvs (abortBlockInterrupts p s b) = coreEvs s := by
  unfold abortBlockInterrupts
  apply core_foldl
  intro s a
  split <;> rfl

theorem core_endOneBlock (p : Prog) (s : St) (old : Nat) (nm : String) : coreEvs (endOneBlock p s old nm) = coreEvs s := by
  unfold endOneBlock
  rw [core_emit_other _ _ rfl, core_abort, core_setRt, core_emit_other _ _ rfl]

theorem core_endBlockStep (p : Prog) (s : St) : coreEvs (endBlockStep p s) = coreEvs s := by
  unfold endBlockStep
  split
  · rfl
  · rw [core_endOneBlock]; rfl

theorem core_endBlocksStep (p : Prog) (s : St) : coreEvs (endBlocksStep p s) = coreEvs s := by
  unfold endBlocksStep
  simp only []
  rw [core_blockTag]
  exact core_foldl _ (fun s a => core_endOneBlock p s _ _) _ s

theorem core_resetSubtree (p : Prog) (s : St) (n : Nat) : coreEvs (resetSubtree p s n) = coreEvs s := by
  unfold resetSubtree
  exact core_foldl (fun s k => setRt s k resetOne) (fun s a => rfl) _ s

theorem core_tryActivate (s : St) (n : Nat) (c : Cond) : coreEvs (tryActivate s n c) = coreEvs s := by
  unfold tryActivate
  simp only []
  split
  · rfl
  · split <;> rfl

theorem core_callPrepare (p : Prog) (s : St) (m : Nat) : coreEvs (callPrepare p s m) = coreEvs s := by
  unfold callPrepare
  simp only []
  split
  · rw [core_setRt, core_resetSubtree]
  · rfl

theorem core_callFinish (s : St) (n m : Nat) : coreEvs (callFinish s n m) = coreEvs s := by
  unfold callFinish
  simp only [core_setRt, core_finishNode]

theorem core_alarmRearm (p : Prog) (s : St) (n : Nat) : coreEvs (alarmRearm p s n) = coreEvs s := by
  unfold alarmRearm
  simp only [core_register, core_resetSubtree, core_unregister, core_setRt, core_emit_other _ _ (rfl : isCore (.scopeEnd n) = false),
    core_markCompleted]

theorem core_marks (s : St) (m : List String) : coreEvs { s with marks := m } = coreEvs s := rfl
theorem core_base (s : St) (f : Rat) (u : String) : coreEvs { s with baseFactor := f, baseUnit := u } = coreEvs s := rfl
theorem core_macros (s : St) (m : List (String × Nat)) : coreEvs { s with macros := m } = coreEvs s := rfl

/-- the effect text of an instruction kind -/
def effKind : Kind → Option String
  | .mark name => some ("mark:" ++ name)
  | .simple label => some label
  | .base _ u => some ("base:" ++ u)
  | .cmd name false => some ("cmd:" ++ name)
  | _ => none

/-- kinds whose effect step also completes the node (everything but commands handed to the engine) -/
def completesAtEffect : Kind → Bool
  | .cmd _ _ => false
  | _ => true

/-- Where a body step may emit its instruction event, and what else is true of that step. -/
def SiteB (p : Prog) (s : St) (n pc : Nat) (e : Event) (o : Out) : Prop :=
  match e with
  | .effect k w =>
      k = n ∧ pc = 0 ∧ effKind (node p n).kind = some w ∧ outTop o = [.body n 1] ∧ outSig o = .endTick ∧
      (completesAtEffect (node p n).kind = true → ((outState o).rt n).completed = true) ∧
      (∀ nm, (node p n).kind = .mark nm → (s.rt n).completed = false)
  | .bodyStart k =>
      k = n ∧ outSig o = .cont ∧ ∃ m fr, outTop o = [.children m 0 false, fr] ∧
        (m = n ∨ ∃ nm, (node p n).kind = .call nm ∧ s.macros.lookup nm = some m ∧ fr = .callRet n m)
  | _ => False

/-- Every body micro-step emits at most one instruction event, and only at its site. -/
theorem stepBody_core (p : Prog) (s : St) (n pc : Nat) (below : List Frame) :
    coreEvs (outState (stepBody p s n pc below)) = coreEvs s ∨
    ∃ e, coreEvs (outState (stepBody p s n pc below)) = e :: coreEvs s ∧ SiteB p s n pc e (stepBody p s n pc below) := by
  unfold stepBody
  simp only []
  split
  all_goals (repeat' split)
  all_goals (simp only [outState, core_setRt, core_finishNode, core_markFailed, core_register, core_tryActivate,
    core_endBlockStep, core_endBlocksStep, core_alarmRearm, core_callPrepare, core_emit, isCore, core_marks, core_base,
    core_macros, core_blockTag, if_true, if_false, Bool.false_eq_true])
  all_goals (try (first | exact Or.inl trivial | exact Or.inl rfl))
  all_goals (try (refine Or.inr ⟨_, rfl, ?_⟩
                  simp_all [SiteB, outTop, outSig, outState, effKind, completesAtEffect]))
  all_goals (try exact ⟨_, _, ⟨rfl, rfl⟩, Or.inr ⟨rfl, rfl⟩⟩)

/-- Where any micro-step may emit its instruction event. -/
def SiteF (p : Prog) (s : St) (f : Frame) (e : Event) (o : Out) : Prop :=
  match f with
  | .body n pc => SiteB p s n pc e o
  | .wrapThr n =>
      e = .start n ∧ outTop o = [.wrapDispatch n] ∧ outSig o = .endTick ∧ ((outState o).rt n).started = true ∧
      ¬ ((s.rt n).started = false ∧ (s.rt n).completed = false ∧ awaitingThreshold p s n = true)
  | _ => False

theorem stepFrame_core (p : Prog) (s : St) (f : Frame) (below : List Frame) :
    coreEvs (outState (stepFrame p s f below)) = coreEvs s ∨
    ∃ e, coreEvs (outState (stepFrame p s f below)) = e :: coreEvs s ∧ SiteF p s f e (stepFrame p s f below) := by
  cases f with
  | body n pc => exact stepBody_core p s n pc below
  | _ =>
    unfold stepFrame
    simp only []
    repeat' split
    all_goals (simp only [outState, core_setRt, core_finishNode, core_callFinish, core_emit, isCore, if_true, if_false,
      Bool.false_eq_true])
    all_goals (try (first | exact Or.inl trivial | exact Or.inl rfl))
    all_goals (try (refine Or.inr ⟨_, rfl, ?_⟩
                    simp_all [SiteF, outTop, outSig, outState]))

theorem core_unwind (s : St) (stack : List Frame) : coreEvs (unwind s stack).1 = coreEvs s := by
  induction stack with
  | nil => rfl
  | cons f rest ih => cases f <;> simp only [unwind, ih] <;> rfl

/-- One micro-step of a generator: at most one instruction event, emitted by the top frame at its site. -/
theorem stepGen_core (p : Prog) (s : St) (stack : List Frame) :
    coreEvs (stepGen p s stack).1 = coreEvs s ∨
    ∃ e f below, stack = f :: below ∧ coreEvs (stepGen p s stack).1 = e :: coreEvs s ∧
      SiteF p s f e (stepFrame p s f below) := by
  cases stack with
  | nil => exact Or.inl rfl
  | cons f below =>
    unfold stepGen
    simp only []
    rcases stepFrame_core p s f below with h | ⟨e, h, hs⟩
    · left
      cases hs : stepFrame p s f below with
      | next s' top sig => rw [hs] at h; exact h
      | raise s' => rw [hs] at h; simp only [outState] at h; simp only []; rw [core_unwind]; exact h
    · right
      refine ⟨e, f, below, rfl, ?_, hs⟩
      cases hs' : stepFrame p s f below with
      | next s' top sig => rw [hs'] at h; exact h
      | raise s' => rw [hs'] at h; simp only [outState] at h; simp only []; rw [core_unwind]; exact h

/-! ### stack discipline -/

/-- Frames by their place in a visit: wrapper frames of a node, body-level frames of a node, and the
    children loop of a node. -/
inductive FCls where
  | V (n : Nat)
  | B (n : Nat)
  | L (n : Nat)
deriving DecidableEq

def cls : Frame → FCls
  | .wrapEnter n | .wrapThr n | .wrapDispatch n | .wrapAfter n => .V n
  | .body n _ | .waitLoop n _ | .callRet n _ => .B n
  | .children n _ _ => .L n

/-- A frame of class `c` may sit directly above frame `g`:
    the wrapper of child number `inx` above `children n inx true`; body-level frames above their own
    `wrapAfter`; a children loop above its owner's body frame (or above the `callRet` of the call that
    runs the macro's body). Nothing sits above any other frame. -/
def aboveC (p : Prog) : FCls → Frame → Prop
  | .V c, .children n inx true => (node p n).children[inx]? = some c
  | .B c, .wrapAfter c' => c = c'
  | .L n, .body n' _ => n = n'
  | .L m, .callRet _ m' => m = m'
  | _, _ => False

def headOK (p : Prog) (c : FCls) : List Frame → Prop
  | [] => True
  | g :: _ => aboveC p c g

def chainOK (p : Prog) : List Frame → Prop
  | [] => True
  | f :: rest => headOK p (cls f) rest ∧ chainOK p rest

/-- the frames that replace a stepped frame of class `c`: chained among themselves, the last one of class `c` -/
def topOK (p : Prog) (c : FCls) : List Frame → Prop
  | [] => True
  | x :: rest => (match rest with | [] => cls x = c | y :: _ => aboveC p (cls x) y) ∧ topOK p c rest

theorem chainOK_tail {p : Prog} {f : Frame} {rest : List Frame} (h : chainOK p (f :: rest)) : chainOK p rest := h.2

theorem chainOK_append (p : Prog) (c : FCls) (top below : List Frame)
    (ht : topOK p c top) (hh : headOK p c below) (hb : chainOK p below) : chainOK p (top ++ below) := by
  induction top with
  | nil => exact hb
  | cons x rest ih =>
    simp only [List.cons_append, chainOK]
    refine ⟨?_, ih ht.2⟩
    cases rest with
    | nil =>
      simp only [List.nil_append]
      have : cls x = c := ht.1
      rw [this]; exact hh
    | cons y rest' => exact ht.1

theorem stepBody_top (p : Prog) (s : St) (n pc : Nat) (below : List Frame) :
    topOK p (.B n) (outTop (stepBody p s n pc below)) := by
  unfold stepBody
  simp only []
  split
  all_goals (repeat' split)
  all_goals simp [outTop, topOK, cls, aboveC]

theorem stepFrame_top (p : Prog) (s : St) (f : Frame) (below : List Frame) :
    topOK p (cls f) (outTop (stepFrame p s f below)) := by
  cases f with
  | body n pc => exact stepBody_top p s n pc below
  | _ =>
    unfold stepFrame
    simp only []
    repeat' split
    all_goals simp_all [outTop, topOK, cls, aboveC]

theorem unwind_suffix (s : St) (stack : List Frame) : ∃ pre, stack = pre ++ (unwind s stack).2 := by
  induction stack with
  | nil => exact ⟨[], rfl⟩
  | cons f rest ih =>
    obtain ⟨pre, h⟩ := ih
    cases f
    case wrapAfter n => exact ⟨[.wrapAfter n], rfl⟩
    all_goals exact ⟨_ :: pre, by simp only [unwind, List.cons_append]; rw [← h]⟩

theorem chainOK_suffix (p : Prog) (pre rest : List Frame) (h : chainOK p (pre ++ rest)) : chainOK p rest := by
  induction pre with
  | nil => exact h
  | cons f pre ih => exact ih h.2

/-- **Stack discipline, one micro-step.** -/
theorem chain_stepGen (p : Prog) (s : St) (stack : List Frame) (h : chainOK p stack) :
    chainOK p (stepGen p s stack).2.1 := by
  cases stack with
  | nil => exact h
  | cons f below =>
    unfold stepGen
    simp only []
    have ht := stepFrame_top p s f below
    cases hs : stepFrame p s f below with
    | next s' top sig =>
      rw [hs] at ht
      exact chainOK_append p (cls f) top below ht h.1 h.2
    | raise s' =>
      simp only []
      obtain ⟨pre, hp⟩ := unwind_suffix s' below
      have := h.2
      rw [hp] at this
      exact chainOK_suffix p pre _ this

/-! ### the generator list -/

theorem gens_unwind (s : St) (stack : List Frame) : (unwind s stack).1.gens = s.gens := by
  induction stack with
  | nil => rfl
  | cons f rest ih => cases f <;> simp only [unwind, ih] <;> rfl

def freshGen (g : Gen) : Prop := g.stack = [.wrapEnter g.node]

theorem stepBody_gens (p : Prog) (s : St) (n pc : Nat) (below : List Frame) :
    ∀ g ∈ (outState (stepBody p s n pc below)).gens, g ∈ s.gens ∨ freshGen g := by
  intro g
  unfold stepBody
  simp only []
  split
  all_goals (repeat' split)
  all_goals (simp only [outState, (keep_setRt _ _ _).gens, (keep_emit _ _).gens, (keep_finishNode _ _).gens,
    (keep_markFailed _ _).gens, (keep_tryActivate _ _ _).gens, (keep_endBlockStep _ _).gens,
    (keep_endBlocksStep _ _).gens, (keep_callPrepare _ _ _).gens, gens_register])
  all_goals (try (intro h; exact Or.inl h))
  all_goals (try (intro h
                  rcases List.mem_append.mp h with h | h
                  · exact Or.inl h
                  · simp only [List.mem_singleton] at h; subst h; exact Or.inr rfl))
  -- alarm re-arm
  all_goals (
    intro h
    obtain ⟨g0, hg⟩ := gens_alarmRearm p s n
    rw [hg] at h
    rcases List.mem_append.mp h with h | h
    · exact Or.inl h
    · simp only [List.mem_singleton] at h; subst h; exact Or.inr rfl)

theorem stepFrame_gens (p : Prog) (s : St) (f : Frame) (below : List Frame) :
    ∀ g ∈ (outState (stepFrame p s f below)).gens, g ∈ s.gens ∨ freshGen g := by
  cases f with
  | body n pc => exact stepBody_gens p s n pc below
  | _ =>
    intro g
    unfold stepFrame
    simp only []
    repeat' split
    all_goals (simp only [outState, (keep_setRt _ _ _).gens, (keep_emit _ _).gens, (keep_finishNode _ _).gens,
      (keep_callFinish _ _ _).gens])
    all_goals (intro h; exact Or.inl h)

theorem stepGen_gens (p : Prog) (s : St) (stack : List Frame) :
    ∀ g ∈ (stepGen p s stack).1.gens, g ∈ s.gens ∨ freshGen g := by
  cases stack with
  | nil => intro g h; exact Or.inl h
  | cons f below =>
    unfold stepGen
    simp only []
    have := stepFrame_gens p s f below
    cases hs : stepFrame p s f below with
    | next s' top sig => rw [hs] at this; exact this
    | raise s' => rw [hs] at this; simp only []; rw [gens_unwind]; exact this

/-- every stored generator stack obeys the discipline -/
def AllChain (p : Prog) (s : St) : Prop := ∀ g ∈ s.gens, chainOK p g.stack

theorem chainOK_fresh (p : Prog) (g : Gen) (h : freshGen g) : chainOK p g.stack := by
  rw [h]; exact ⟨trivial, trivial⟩

theorem allChain_runGen (p : Prog) (fuel : Nat) (s : St) (stack : List Frame)
    (h : AllChain p s) (hs : chainOK p stack) :
    AllChain p (runGen p fuel s stack).1 ∧ chainOK p (runGen p fuel s stack).2.1 := by
  induction fuel generalizing s stack with
  | zero => exact ⟨h, hs⟩
  | succ fuel ih =>
    unfold runGen
    have h1 : AllChain p (stepGen p s stack).1 := by
      intro g hg
      rcases stepGen_gens p s stack g hg with h0 | h0
      · exact h g h0
      · exact chainOK_fresh p g h0
    have h2 := chain_stepGen p s stack hs
    rcases hst : stepGen p s stack with ⟨s1, stack1, sig⟩
    rw [hst] at h1 h2
    cases sig
    · exact ih s1 stack1 h1 h2
    · exact ⟨h1, h2⟩
    · exact ⟨h1, h2⟩

theorem allChain_setGenStack (p : Prog) (s : St) (gid : Nat) (stack : List Frame)
    (h : AllChain p s) (hs : chainOK p stack) : AllChain p (setGenStack s gid stack) := by
  intro g hg
  unfold setGenStack at hg
  simp only [List.mem_map] at hg
  obtain ⟨g0, hg0, e⟩ := hg
  split at e
  · rw [← e]; exact hs
  · rw [← e]; exact h g0 hg0

theorem allChain_runGid (p : Prog) (fuel : Nat) (s : St) (gid : Nat) (h : AllChain p s) :
    AllChain p (runGid p fuel s gid).1 := by
  unfold runGid
  split
  · exact h
  · rename_i g hg
    have hgm : g ∈ s.gens := List.mem_of_find?_eq_some hg
    have := allChain_runGen p fuel s g.stack h (h g hgm)
    rcases hr : runGen p fuel s g.stack with ⟨s1, stack1, ok⟩
    rw [hr] at this
    exact allChain_setGenStack p s1 gid stack1 this.1 this.2

theorem allChain_congr (p : Prog) (s s' : St) (hg : s'.gens = s.gens) (h : AllChain p s) : AllChain p s' := by
  intro g hgm; rw [hg] at hgm; exact h g hgm

theorem allChain_foldInterrupts (p : Prog) (l : List Nat) (acc : St × Bool) (h : AllChain p acc.1) :
    AllChain p (l.foldl (fun (acc : St × Bool) gid =>
      let r := runGid p microFuel { acc.1 with inInterrupt := true } gid
      ({ r.1 with inInterrupt := false }, acc.2 && r.2)) acc).1 := by
  induction l generalizing acc with
  | nil => exact h
  | cons g l ih =>
    simp only [List.foldl]
    apply ih
    apply allChain_congr p _ _ rfl
    exact allChain_runGid p microFuel _ g (allChain_congr p acc.1 _ rfl h)

theorem allChain_sub (p : Prog) (s s' : St) (h : AllChain p s) (hsub : ∀ g ∈ s'.gens, g ∈ s.gens) : AllChain p s' :=
  fun g hg => h g (hsub g hg)

/-- **Stack discipline, whole tick.** -/
theorem allChain_tick (p : Prog) (s : St) (i : TickIn) (h : AllChain p s) : AllChain p (tick p s i).1 := by
  unfold tick
  simp only []
  refine allChain_sub p _ _ ?_ (fun g hg => (List.mem_filter.mp hg).1)
  apply allChain_foldInterrupts
  apply allChain_runGid
  exact allChain_congr p s _ rfl h

theorem allChain_init (p : Prog) : AllChain p (init p) := by
  intro g hg
  simp only [init, List.mem_singleton] at hg
  subst hg
  exact ⟨trivial, trivial⟩

/-! ### a generic lifting of micro-step invariants to ticks

`I` is an invariant of the interpreter state that does not look at the generator list, `P` one of a
generator stack.  If every micro-step keeps both and fresh generators satisfy `P`, a tick keeps
`Good I P` (the invariant plus `P` for every stored generator). -/

structure SameCore (s s' : St) : Prop where
  rt : s'.rt = s.rt
  events : s'.events = s.events
  macros : s'.macros = s.macros
  marks : s'.marks = s.marks
  imap : s'.imap = s.imap
  blockTag : s'.blockTag = s.blockTag

def Good (I : St → Prop) (P : List Frame → Prop) (s : St) : Prop := I s ∧ ∀ g ∈ s.gens, P g.stack

structure Lifts (p : Prog) (I : St → Prop) (P : List Frame → Prop) : Prop where
  fresh : ∀ n, P [.wrapEnter n]
  step : ∀ s stack, I s → P stack → I (stepGen p s stack).1 ∧ P (stepGen p s stack).2.1
  congr : ∀ s s', SameCore s s' → I s → I s'

theorem good_runGen {p : Prog} {I : St → Prop} {P : List Frame → Prop} (L : Lifts p I P)
    (fuel : Nat) (s : St) (stack : List Frame) (h : Good I P s) (hs : P stack) :
    Good I P (runGen p fuel s stack).1 ∧ P (runGen p fuel s stack).2.1 := by
  induction fuel generalizing s stack with
  | zero => exact ⟨h, hs⟩
  | succ fuel ih =>
    unfold runGen
    have h0 := L.step s stack h.1 hs
    have h1 : Good I P (stepGen p s stack).1 := by
      refine ⟨h0.1, ?_⟩
      intro g hg
      rcases stepGen_gens p s stack g hg with hh | hh
      · exact h.2 g hh
      · rw [hh]; exact L.fresh _
    have h2 := h0.2
    rcases hst : stepGen p s stack with ⟨s1, stack1, sig⟩
    rw [hst] at h1 h2
    cases sig
    · exact ih s1 stack1 h1 h2
    · exact ⟨h1, h2⟩
    · exact ⟨h1, h2⟩

theorem good_runGid {p : Prog} {I : St → Prop} {P : List Frame → Prop} (L : Lifts p I P)
    (fuel : Nat) (s : St) (gid : Nat) (h : Good I P s) : Good I P (runGid p fuel s gid).1 := by
  unfold runGid
  split
  · exact h
  · rename_i g hg
    have hgm : g ∈ s.gens := List.mem_of_find?_eq_some hg
    have := good_runGen L fuel s g.stack h (h.2 g hgm)
    rcases hr : runGen p fuel s g.stack with ⟨s1, stack1, ok⟩
    rw [hr] at this
    refine ⟨L.congr s1 _ ⟨rfl, rfl, rfl, rfl, rfl, rfl⟩ this.1.1, ?_⟩
    intro g' hg'
    unfold setGenStack at hg'
    simp only [List.mem_map] at hg'
    obtain ⟨g0, hg0, e⟩ := hg'
    split at e
    · rw [← e]; exact this.2
    · rw [← e]; exact this.1.2 g0 hg0

theorem good_foldInterrupts {p : Prog} {I : St → Prop} {P : List Frame → Prop} (L : Lifts p I P)
    (l : List Nat) (acc : St × Bool) (h : Good I P acc.1) :
    Good I P (l.foldl (fun (acc : St × Bool) gid =>
      let r := runGid p microFuel { acc.1 with inInterrupt := true } gid
      ({ r.1 with inInterrupt := false }, acc.2 && r.2)) acc).1 := by
  induction l generalizing acc with
  | nil => exact h
  | cons g l ih =>
    simp only [List.foldl]
    apply ih
    have h1 : Good I P { acc.1 with inInterrupt := true } :=
      ⟨L.congr acc.1 _ ⟨rfl, rfl, rfl, rfl, rfl, rfl⟩ h.1, h.2⟩
    have h2 := good_runGid L microFuel _ g h1
    refine ⟨L.congr _ _ ?_ h2.1, h2.2⟩
    exact ⟨rfl, rfl, rfl, rfl, rfl, rfl⟩

/-- the state a tick starts from: new clock / tag inputs, empty event list -/
def tickStart (s : St) (i : TickIn) : St :=
  { s with tickTime := i.time, scopeClock := i.scopeClock, blockClock := i.blockClock,
           tags := i.tags, events := [], inInterrupt := false }

theorem good_tick {p : Prog} {I : St → Prop} {P : List Frame → Prop} (L : Lifts p I P)
    (s : St) (i : TickIn) (h : Good I P (tickStart s i)) : Good I P (tick p s i).1 := by
  unfold tick
  simp only []
  have h1 := good_foldInterrupts L
    ((runGid p microFuel (tickStart s i) 0).1.imap.map (·.2)) (runGid p microFuel (tickStart s i) 0)
    (good_runGid L microFuel _ 0 h)
  refine ⟨L.congr _ _ ?_ h1.1, ?_⟩
  · exact ⟨rfl, rfl, rfl, rfl, rfl, rfl⟩
  · intro g hg
    exact h1.2 g (List.mem_filter.mp hg).1

end OPM.InterpC02
