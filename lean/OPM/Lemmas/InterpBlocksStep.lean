import OPM.Lemmas.InterpBlocks
set_option linter.unusedSimpArgs false
/-!
# Blocks: what one micro-step does to (Block tag, lock flags, ended flags)  (C05)

`BlkSame s s'`: the Block tag, every `lock_acquired` and every `block_ended` flag agree.  Everything C05
says about a state depends on the state only through these three (`lockedBlocks_same`, …).
`stepFrame_blk` classifies every micro-step of every generator: it leaves them alone, or it is one of
five named steps (acquire, release, End block, End blocks, a reset by an Alarm re-arm / a macro call).
-/
namespace OPM.Interp

def BlkSame (s s' : St) : Prop :=
  s'.blockTag = s.blockTag ∧
  ∀ k, (s'.rt k).lockAcquired = (s.rt k).lockAcquired ∧ (s'.rt k).blockEnded = (s.rt k).blockEnded

theorem BlkSame.rfl' (s : St) : BlkSame s s := ⟨rfl, fun _ => ⟨rfl, rfl⟩⟩

theorem BlkSame.trans {a b c : St} (h1 : BlkSame a b) (h2 : BlkSame b c) : BlkSame a c :=
  ⟨h2.1.trans h1.1, fun k => ⟨(h2.2 k).1.trans (h1.2 k).1, (h2.2 k).2.trans (h1.2 k).2⟩⟩

theorem BlkSame.symm {a b : St} (h : BlkSame a b) : BlkSame b a :=
  ⟨h.1.symm, fun k => ⟨(h.2 k).1.symm, (h.2 k).2.symm⟩⟩

/-! ### the Block tag is written in three places only -/

@[simp] theorem blockTag_setRt (s : St) (n : Nat) (f : NodeRt → NodeRt) : (setRt s n f).blockTag = s.blockTag := rfl
@[simp] theorem blockTag_emit (s : St) (e : Event) : (emit s e).blockTag = s.blockTag := rfl
@[simp] theorem blockTag_markCompleted (s : St) (n : Nat) : (markCompleted s n).blockTag = s.blockTag := by
  unfold markCompleted; split <;> rfl
@[simp] theorem blockTag_finishNode (s : St) (n : Nat) : (finishNode s n).blockTag = s.blockTag := by
  unfold finishNode; simp
@[simp] theorem blockTag_markFailed (s : St) (n : Nat) : (markFailed s n).blockTag = s.blockTag := rfl
@[simp] theorem blockTag_registerInterrupt (p : Prog) (s : St) (n : Nat) :
    (registerInterrupt p s n).blockTag = s.blockTag := by
  unfold registerInterrupt; simp only []; split <;> rfl
@[simp] theorem blockTag_unregisterInterrupt (s : St) (n : Nat) : (unregisterInterrupt s n).blockTag = s.blockTag := rfl
@[simp] theorem blockTag_tryActivate (s : St) (n : Nat) (c : Cond) : (tryActivate s n c).blockTag = s.blockTag := by
  unfold tryActivate; simp only []; repeat' split
  all_goals rfl

theorem blockTag_foldl_keep {α : Type} (g : St → α → St) (hg : ∀ s a, (g s a).blockTag = s.blockTag)
    (l : List α) (s : St) : (l.foldl g s).blockTag = s.blockTag := by
  induction l generalizing s with
  | nil => rfl
  | cons a l ih => simp [List.foldl, ih, hg]

@[simp] theorem blockTag_abort (p : Prog) (s : St) (b : Nat) : (abortBlockInterrupts p s b).blockTag = s.blockTag := by
  unfold abortBlockInterrupts
  apply blockTag_foldl_keep
  intro s a; split <;> rfl

@[simp] theorem blockTag_resetSubtree (p : Prog) (s : St) (n : Nat) : (resetSubtree p s n).blockTag = s.blockTag := by
  unfold resetSubtree
  apply blockTag_foldl_keep
  intro s a; rfl

@[simp] theorem blockTag_alarmRearm (p : Prog) (s : St) (n : Nat) : (alarmRearm p s n).blockTag = s.blockTag := by
  unfold alarmRearm; simp

@[simp] theorem blockTag_callPrepare (p : Prog) (s : St) (m : Nat) : (callPrepare p s m).blockTag = s.blockTag := by
  unfold callPrepare; simp only []; split <;> simp

@[simp] theorem blockTag_callFinish (s : St) (n m : Nat) : (callFinish s n m).blockTag = s.blockTag := by
  unfold callFinish; simp

theorem blockTag_unwind (s : St) (stack : List Frame) : ((unwind s stack).1).blockTag = s.blockTag := by
  induction stack with
  | nil => rfl
  | cons f rest ih => cases f <;> simp only [unwind, ih] <;> rfl

/-! ### `block_ended` frame lemmas (the `lock_acquired` ones are in InterpLock) -/

theorem ended_abort (p : Prog) (s : St) (b k : Nat) :
    ((abortBlockInterrupts p s b).rt k).blockEnded = (s.rt k).blockEnded :=
  proj_abortBlockInterrupts (·.blockEnded) (fun _ _ => rfl) (fun _ _ => rfl) p s b k

theorem ended_callFinish (s : St) (n m k : Nat) :
    ((callFinish s n m).rt k).blockEnded = (s.rt k).blockEnded := by
  unfold callFinish
  simp only [rt_setRt, rt_finishNode, getRt_eq]
  repeat' split
  all_goals (try subst_vars)
  all_goals rfl

theorem unwind_ended (s : St) (stack : List Frame) (k : Nat) :
    (((unwind s stack).1).rt k).blockEnded = (s.rt k).blockEnded := by
  induction stack with
  | nil => rfl
  | cons f rest ih =>
    cases f <;> simp only [unwind, ih]
    simp only [rt_setRt]
    split
    · rename_i h; subst h; rfl
    · rfl

theorem blkSame_unwind (s : St) (stack : List Frame) : BlkSame s (unwind s stack).1 :=
  ⟨blockTag_unwind s stack, fun k => ⟨unwind_lock s stack k, unwind_ended s stack k⟩⟩

theorem blkSame_callFinish (s : St) (n m : Nat) : BlkSame s (callFinish s n m) :=
  ⟨blockTag_callFinish s n m, fun k => ⟨lock_callFinish s n m k, ended_callFinish s n m k⟩⟩

theorem blkSame_abort (p : Prog) (s : St) (b : Nat) : BlkSame s (abortBlockInterrupts p s b) :=
  ⟨blockTag_abort p s b, fun k => ⟨lock_abort p s b k, ended_abort p s b k⟩⟩

/-- `reset_runtime_state(recursive=True)`: exactly the nodes of the subtree are reset. -/
theorem rt_resetSubtree_mem (p : Prog) (s : St) (n k : Nat) :
    (resetSubtree p s n).rt k = if k ∈ n :: descendants p n then resetOne (s.rt k) else s.rt k := by
  unfold resetSubtree
  generalize (n :: descendants p n) = l
  induction l generalizing s with
  | nil => simp
  | cons a l ih =>
    simp only [List.foldl, List.mem_cons]
    rw [ih]
    simp only [rt_setRt]
    by_cases hk : k = a
    · subst hk
      simp only [true_or, if_true]
      split
      · simp [resetOne]
      · rfl
    · simp only [hk, false_or, if_false]

theorem blkSame_resetSubtree (p : Prog) (s s0 : St) (n : Nat) (h : BlkSame s s0) :
    BlkSame (resetSubtree p s n) (resetSubtree p s0 n) := by
  refine ⟨by simp [h.1], fun k => ?_⟩
  rw [rt_resetSubtree_mem, rt_resetSubtree_mem]
  split
  · exact ⟨rfl, rfl⟩
  · exact h.2 k

/-- The Alarm re-arm resets the Alarm's subtree; nothing else of it touches tag, locks or ended flags. -/
theorem blkSame_alarmRearm (p : Prog) (s : St) (n : Nat) :
    BlkSame (resetSubtree p s n) (alarmRearm p s n) := by
  unfold alarmRearm
  simp only []
  have h1 : BlkSame s (unregisterInterrupt (setRt (emit (markCompleted s n) (Event.scopeEnd n)) n
      fun r => { r with runCount := r.runCount + 1 }) n) := by
    refine ⟨by simp, fun k => ?_⟩
    simp only [rt_unregisterInterrupt, rt_setRt, rt_emit, rt_markCompleted]
    repeat' split
    all_goals (first | exact ⟨rfl, rfl⟩ | (subst_vars; exact ⟨rfl, rfl⟩) | (simp_all; done))
  refine BlkSame.trans (blkSame_resetSubtree p s _ n h1) ?_
  refine ⟨by simp, fun k => ?_⟩
  simp only [rt_registerInterrupt]
  split
  · rename_i h; subst h; exact ⟨rfl, rfl⟩
  · exact ⟨rfl, rfl⟩

/-- After the re-arm every node of the Alarm's subtree (the Alarm included) is not completed. -/
theorem completed_alarmRearm_mem (p : Prog) (s : St) (n k : Nat) (hk : k ∈ n :: descendants p n) :
    ((alarmRearm p s n).rt k).completed = false := by
  unfold alarmRearm
  simp only [rt_registerInterrupt, rt_resetSubtree_mem, hk, if_true]
  split <;> simp [resetOne]

/-- solves `BlkSame s (…primitive updates of s…)` -/
macro "blk_same" : tactic => `(tactic|
  (refine ⟨by simp, fun k => ?_⟩
   simp only [rt_setRt, rt_emit, rt_finishNode, rt_markFailed, rt_markCompleted, rt_registerInterrupt,
     rt_unregisterInterrupt, rt_tryActivate, getRt_eq]
   repeat' split
   all_goals (first | exact ⟨rfl, rfl⟩ | (subst_vars; exact ⟨rfl, rfl⟩) | (simp_all; done))))

/-- Frames other than a node body never touch tag, locks or ended flags. -/
theorem stepFrame_same (p : Prog) (s : St) (f : Frame) (below : List Frame)
    (hf : ∀ n pc, f ≠ .body n pc) : BlkSame s (outState (stepFrame p s f below)) := by
  cases f with
  | body n pc => exact absurd rfl (hf n pc)
  | callRet n m => exact blkSame_callFinish s n m
  | wrapEnter n => unfold stepFrame; simp only []; split <;> simp only [outState] <;> blk_same
  | wrapThr n => unfold stepFrame; simp only []; repeat' split
                 all_goals (simp only [outState]; blk_same)
  | wrapDispatch n => exact BlkSame.rfl' s
  | wrapAfter n => exact BlkSame.rfl' s
  | children n inx inChild =>
    unfold stepFrame; simp only []; repeat' split
    all_goals (simp only [outState]; blk_same)
  | waitLoop n endT =>
    unfold stepFrame; simp only []; repeat' split
    all_goals (simp only [outState]; blk_same)

/-- What the body step of node `n` at `pc` can do to (Block tag, locks, ended flags). -/
inductive BlkEffect (p : Prog) (s : St) (n pc : Nat) (s' : St) : Prop
  | same : BlkSame s s' → BlkEffect p s n pc s'
  /-- `try_acquire_lock` succeeded: the lock and the Block tag are taken. -/
  | acquire (name : String) : (node p n).kind = .block name → pc = 1 → (s.rt n).lockAcquired = false →
      (lockedBlocks p s).all (fun b => (ancestors p n).contains b) = true →
      BlkSame { (setRt s n (fun r => { r with lockAcquired := true })) with blockTag := some name } s' →
      BlkEffect p s n pc s'
  /-- the Block gives the lock back: it found itself ended, or (pc 0) already completed. -/
  | release : isBlock p n = true → ((s.rt n).blockEnded = true ∨ (pc = 0 ∧ (s.rt n).completed = true)) →
      BlkSame (setRt s n (fun r => { r with lockAcquired := false })) s' → BlkEffect p s n pc s'
  | endBlock : (node p n).kind = .endBlock → pc = 0 → BlkSame (endBlockStep p s) s' → BlkEffect p s n pc s'
  | endBlocks : (node p n).kind = .endBlocks → pc = 0 → BlkSame (endBlocksStep p s) s' → BlkEffect p s n pc s'
  /-- Alarm re-arm: `reset_runtime_state(recursive=True)` of the Alarm's subtree. -/
  | rearm (c : Cond) : (node p n).kind = .alarm c → pc = 3 → BlkSame (resetSubtree p s n) s' →
      (∀ k, k ∈ n :: descendants p n → (s'.rt k).completed = false) → BlkEffect p s n pc s'
  /-- Call macro "prepare invoke": the macro's subtree is reset. -/
  | recall (name : String) (m : Nat) : (node p n).kind = .call name → pc = 0 → s.macros.lookup name = some m →
      BlkSame (resetSubtree p s m) s' → (∀ k, k ∈ m :: descendants p m → (s'.rt k).completed = false) →
      BlkEffect p s n pc s'

theorem stepBody_blk (p : Prog) (s : St) (n pc : Nat) (below : List Frame) :
    BlkEffect p s n pc (outState (stepBody p s n pc below)) := by
  cases hk : (node p n).kind with
  | block name =>
    have hb : isBlock p n = true := by simp [isBlock, hk]
    unfold stepBody
    simp only [hk]
    split
    · -- pc 0
      split
      · exact .release hb (Or.inr ⟨rfl, by assumption⟩) (by simp only [outState]; exact BlkSame.rfl' _)
      · split
        · refine .release hb (Or.inl (by assumption)) ?_
          simp only [outState]; blk_same
        · exact .same (BlkSame.rfl' _)
    · -- pc 1
      split
      · exact .same (BlkSame.rfl' _)
      · split
        · refine .acquire name hk rfl (by simp_all) (by assumption) ?_
          simp only [outState]
          exact ⟨rfl, fun k => ⟨rfl, rfl⟩⟩
        · exact .same (BlkSame.rfl' _)
    · -- pc 3
      split
      · refine .release hb (Or.inl (by assumption)) ?_
        simp only [outState]; blk_same
      · exact .same (BlkSame.rfl' _)
    · exact .same (BlkSame.rfl' _)
  | endBlock =>
    unfold stepBody
    simp only [hk]
    split
    · refine .endBlock hk rfl ?_
      simp only [outState]; blk_same
    · exact .same (BlkSame.rfl' _)
  | endBlocks =>
    unfold stepBody
    simp only [hk]
    split
    · refine .endBlocks hk rfl ?_
      simp only [outState]; blk_same
    · exact .same (BlkSame.rfl' _)
  | alarm c =>
    unfold stepBody
    simp only [hk]
    split
    · apply BlkEffect.same; repeat' split
      all_goals (simp only [outState]; blk_same)
    · apply BlkEffect.same; repeat' split
      all_goals (simp only [outState]; blk_same)
    · apply BlkEffect.same; simp only [outState]; blk_same
    · refine .rearm c hk rfl (by simp only [outState]; exact blkSame_alarmRearm p s n) ?_
      intro k hk'
      simp only [outState]
      exact completed_alarmRearm_mem p s n k hk'
    · exact .same (BlkSame.rfl' _)
  | call name =>
    unfold stepBody
    simp only [hk]
    split
    · split
      · apply BlkEffect.same; simp only [outState]; blk_same
      · rename_i m hm
        split
        · exact .same (BlkSame.rfl' _)
        · split
          · apply BlkEffect.same; simp only [outState]; blk_same
          · simp only [outState]
            unfold callPrepare
            simp only []
            by_cases hrs : (getRt s m).runStarted ≤ (getRt s m).runCompleted
            · rw [if_pos hrs]
              refine .recall name m hk rfl hm (by blk_same) ?_
              intro k hk'
              simp only [rt_emit, rt_setRt, rt_resetSubtree_mem, hk', if_true]
              split <;> simp [resetOne]
            · rw [if_neg hrs]
              exact .same (by blk_same)
    · exact .same (BlkSame.rfl' _)
  | _ =>
    apply BlkEffect.same
    unfold stepBody
    simp only [hk]
    repeat' split
    all_goals (simp only [outState]; blk_same)

end OPM.Interp
