import OPM.Model.RunState
import OPM.Model.RunStateOut
import OPM.Lemmas.RunState
/-!
Refinement of the extended command loop (internal + UOD requests, model RunStateOut) to the guarded action
system of `OPM.Lemmas.RunState`: a UOD command iteration is the action `uwrite r v user`, whose guard records
that — with the repair `Cfg.pauseGate` — an interpreter-sourced command is never executed while paused.
Everything else the UOD half does (instances, cancelling, done-sets) is invisible to the abstraction.
-/
namespace OPM.RunState

/-! ## The UOD half leaves the M1 state alone except for `uwrite` -/

theorem cancelU_base (tr : Bool) (o : OState) (u : UReq) : (cancelU tr o u).base = o.base := by
  unfold cancelU
  simp only []
  split
  · split <;> rfl
  · split
    · rfl
    · split <;> rfl

theorem foldl_cancelU_base (tr : Bool) (us : List UReq) (o : OState) : (us.foldl (cancelU tr) o).base = o.base := by
  induction us generalizing o with
  | nil => rfl
  | cons u us ih => simp only [List.foldl_cons]; rw [ih, cancelU_base]

theorem cancelUAll_base (pre : State) (o : OState) : (cancelUAll pre o).base = o.base := by
  unfold cancelUAll; split
  · rfl
  · exact foldl_cancelU_base _ _ _

/-- the M1 part after `execUod`: unchanged, or one `uwrite` -/
theorem execUod_base (cfg : Cfg) (o : OState) (u : UReq) :
    (execUod cfg o u).base = o.base ∨
    ((cfg.pauseGate = true → u.user = false → o.base.core.paused = false) ∧
      (execUod cfg o u).base = { o.base with core := o.base.core.uwrite u.reg u.val u.user }) := by
  unfold execUod
  by_cases hg : (cfg.pauseGate && o.base.core.paused && !u.user) = true
  · rw [if_pos hg]; exact Or.inl rfl
  rw [if_neg hg]
  have hguard : cfg.pauseGate = true → u.user = false → o.base.core.paused = false := by
    intro h1 h2
    cases hp : o.base.core.paused
    · rfl
    · exfalso; apply hg; simp [h1, h2, hp]
  simp only []
  have hb := foldl_cancelU_base o.base.mgr.tracking
    (o.um.exec.filter (fun c => c.cmd == u.cmd && c.id != u.id && !o.um.done.contains c.id)) o
  generalize (o.um.exec.filter (fun c => c.cmd == u.cmd && c.id != u.id && !o.um.done.contains c.id)).foldl
    (cancelU o.base.mgr.tracking) o = o1 at hb ⊢
  split
  · left; exact hb
  · right
    refine ⟨hguard, ?_⟩
    split <;> split <;> (try split) <;> simp [OState.dispose, OState.markDone, hb]

theorem execUod_ref {cfg : Cfg} {pm : Perm} (o : OState) (u : UReq) :
    Reach cfg pm (abs o.base) (abs (execUod cfg o u).base) := by
  rcases execUod_base cfg o u with h | ⟨hg, h⟩
  · rw [h]; exact Reach.refl _
  · rw [h]
    exact Reach.act (.uwrite u.reg u.val u.user) hg rfl

theorem mem_merge_int (rs : List Req) (us : List UReq) (r : Req) :
    AnyReq.int r ∈ mergeReqs rs us → r ∈ rs := by
  induction rs generalizing us with
  | nil =>
    intro h
    unfold mergeReqs at h
    simp at h
  | cons x xs ih =>
    intro h
    unfold mergeReqs at h
    simp only [List.mem_append, List.mem_map, List.mem_cons] at h
    rcases h with ⟨u, _, hu⟩ | h | h
    · cases hu
    · cases h; exact List.mem_cons_self
    · exact List.mem_cons_of_mem _ (ih _ h)

/-! ## The loop -/

theorem cmdLoopO_ref {cfg : Cfg} {pm : Perm} (l : List AnyReq) (o : OState) :
    Reach cfg pm (abs o.base) (abs (cmdLoopO cfg l o).1.base) := by
  induction l generalizing o with
  | nil => exact Reach.refl _
  | cons x rest ih =>
    cases x with
    | int r =>
      unfold cmdLoopO
      split
      · exact ih o
      · have h1 := execReq_ref (cfg := cfg) (pm := pm) o.base r
        generalize execReq cfg o.base r = p at h1 ⊢
        obtain ⟨s1, raised⟩ := p
        simp only []
        have h2 : abs (if (s1.cancels != o.base.cancels) = true then cancelUAll o.base { o with base := s1 }
            else { o with base := s1 }).base = abs s1 := by
          split
          · rw [cancelUAll_base]
          · rfl
        cases raised
        · simp only [Bool.false_eq_true, if_false]
          refine Reach.trans ?_ (ih _)
          rw [h2]; exact h1
        · simp only [if_true]
          rw [h2]; exact h1
    | uod u =>
      unfold cmdLoopO
      split
      · exact ih o
      · exact (execUod_ref o u).trans (ih _)

theorem cmdLoopO_noraise {cfg : Cfg} (l : List AnyReq) (o : OState)
    (h : ∀ r, AnyReq.int r ∈ l → okReq r) : (cmdLoopO cfg l o).2 = false := by
  induction l generalizing o with
  | nil => rfl
  | cons x rest ih =>
    have hrest : ∀ r, AnyReq.int r ∈ rest → okReq r := fun r hr => h r (List.mem_cons_of_mem _ hr)
    cases x with
    | int r =>
      unfold cmdLoopO
      split
      · exact ih o hrest
      · have h2 := execReq_noraise (cfg := cfg) o.base r (h r List.mem_cons_self)
        generalize execReq cfg o.base r = p at h2 ⊢
        obtain ⟨s1, raised⟩ := p
        simp only [] at h2
        subst h2
        simp only [Bool.false_eq_true, if_false]
        exact ih _ hrest
    | uod u =>
      unfold cmdLoopO
      split
      · exact ih o hrest
      · exact ih _ hrest

/-- internal requests held after the loop were held before or are in the list -/
theorem reqs_cmdLoopO (cfg : Cfg) (l : List AnyReq) (o : OState) :
    ∀ x ∈ (cmdLoopO cfg l o).1.base.reqs, x ∈ o.base.reqs ∨ AnyReq.int x ∈ l := by
  induction l generalizing o with
  | nil => intro x hx; exact Or.inl hx
  | cons y rest ih =>
    intro x hx
    cases y with
    | int r =>
      unfold cmdLoopO at hx
      split at hx
      · rcases ih o x hx with h | h
        · exact Or.inl h
        · exact Or.inr (List.mem_cons_of_mem _ h)
      · have h1 := reqs_execReq cfg o.base r
        generalize execReq cfg o.base r = p at h1 hx
        obtain ⟨s1, raised⟩ := p
        simp only [] at hx h1
        have fin : ∀ z, z ∈ s1.reqs → z ∈ o.base.reqs ∨ AnyReq.int z ∈ AnyReq.int r :: rest := by
          intro z hz
          rcases h1 z hz with h | h
          · exact Or.inl h
          · exact Or.inr (h ▸ List.mem_cons_self)
        have hb : (if (s1.cancels != o.base.cancels) = true then cancelUAll o.base { o with base := s1 }
            else { o with base := s1 }).base = s1 := by
          split
          · rw [cancelUAll_base]
          · rfl
        cases raised
        · simp only [Bool.false_eq_true, if_false] at hx
          rcases ih _ x hx with h | h
          · rw [hb] at h; exact fin x h
          · exact Or.inr (List.mem_cons_of_mem _ h)
        · simp only [if_true] at hx
          rw [hb] at hx; exact fin x hx
    | uod u =>
      unfold cmdLoopO at hx
      split at hx
      · rcases ih o x hx with h | h
        · exact Or.inl h
        · exact Or.inr (List.mem_cons_of_mem _ h)
      · rcases ih _ x hx with h | h
        · left
          rcases execUod_base cfg o u with e | ⟨_, e⟩
          · rw [e] at h; exact h
          · rw [e] at h; exact (Sub.of_eq (s := o.base) rfl rfl) x h
        · exact Or.inr (List.mem_cons_of_mem _ h)

/-! ## Command phase, tick, operation -/

theorem cmdPhaseO_ref {cfg : Cfg} {pm : Perm} (o : OState)
    (h : pm.err = true ∨ ∀ r ∈ o.base.mgr.queue.reverse ++ o.base.mgr.exec, okReq r) :
    Reach cfg pm (abs o.base) (abs (cmdPhaseO cfg o).base) := by
  unfold cmdPhaseO
  simp only []
  have h1 := cmdLoopO_ref (cfg := cfg) (pm := pm)
    (mergeReqs (drain o.base).mgr.exec o.um.drain.exec) { o with base := drain o.base, um := o.um.drain }
  simp only [] at h1
  rw [abs_drain] at h1
  have h2 : pm.err = true ∨ (cmdLoopO cfg (mergeReqs (drain o.base).mgr.exec o.um.drain.exec)
      { o with base := drain o.base, um := o.um.drain }).2 = false := by
    rcases h with h | h
    · exact Or.inl h
    · refine Or.inr (cmdLoopO_noraise _ _ (fun r hr => h r ?_))
      exact mem_merge_int _ _ r hr
  generalize cmdLoopO cfg (mergeReqs (drain o.base).mgr.exec o.um.drain.exec)
    { o with base := drain o.base, um := o.um.drain } = p at h1 h2 ⊢
  split
  · rename_i hr
    have he : pm.err = true := by
      rcases h2 with h | h
      · exact h
      · rw [hr] at h; cases h
    refine h1.trans (Reach.act .error (Or.inl he) ?_)
    have h3 := abs_adopt p.1.base
    simp only [abs, A.mk.injEq] at h3
    simp only [abs, Act.apply, h3.1, h3.2.1]
    congr 1
    exact h3.2.2
  · show Reach cfg pm (abs o.base) (abs (adopt p.1.base))
    rw [abs_adopt]; exact h1

theorem sub_cmdPhaseO (cfg : Cfg) (o : OState) : Sub (cmdPhaseO cfg o).base o.base := by
  intro x hx
  unfold cmdPhaseO at hx
  simp only [] at hx
  have h1 : x ∈ (adopt (cmdLoopO cfg (mergeReqs (drain o.base).mgr.exec o.um.drain.exec)
      { o with base := drain o.base, um := o.um.drain }).1.base).reqs := by
    split at hx
    · exact (Sub.of_eq rfl rfl) x hx
    · exact hx
  rcases reqs_cmdLoopO cfg _ _ x (sub_adopt _ x h1) with h | h
  · exact sub_drain o.base x h
  · exact mem_drain_exec o.base x (mem_merge_int _ _ x h)

theorem abs_enqueueU (o : OState) (c : Nat) (v : Int) (n : Nat) :
    abs (enqueueU o c false v n).base = abs o.base := by
  unfold enqueueU
  exact abs_eq rfl rfl rfl

theorem abs_enqueueU_user (cfg : Cfg) (o : OState) (c : Nat) (v : Int) (n : Nat) :
    abs (enqueueU o c true v n).base = Act.apply cfg (.userReq (c / 2)) (abs o.base) := by
  unfold enqueueU
  simp [abs, Act.apply, State.emgr]

theorem sub_enqueueU (o : OState) (c : Nat) (u : Bool) (v : Int) (n : Nat) :
    Sub (enqueueU o c u v n).base o.base := by
  unfold enqueueU
  exact Sub.of_eq rfl rfl

/-- interpreter items of the extended model that cannot make a command raise -/
def ItemO.quiet : ItemO → Prop
  | .m it => it.quiet
  | .u _ _ _ => True

theorem interpItemsO_ref {cfg : Cfg} {pm : Perm} (hev : pm.ev = true) (items : List ItemO) (o : OState) :
    Reach cfg pm (abs o.base) (abs (items.foldl interpItemO o).base) := by
  induction items generalizing o with
  | nil => exact Reach.refl _
  | cons it items ih =>
    simp only [List.foldl_cons]
    refine Reach.trans ?_ (ih _)
    cases it with
    | m it =>
      cases it with
      | ev e => exact Reach.act (.ev e) hev rfl
      | cmd c a => exact Reach.of_eq (abs_enqueue o.base c false a).symm
    | u c v n => exact Reach.of_eq (abs_enqueueU o c v n).symm

theorem interpItemsO_started (items : List ItemO) (o : OState) :
    (items.foldl interpItemO o).base.core.started = o.base.core.started := by
  induction items generalizing o with
  | nil => rfl
  | cons it items ih =>
    simp only [List.foldl_cons]
    rw [ih]
    cases it with
    | m it =>
      cases it with
      | ev e => cases e <;> simp [interpItemO, interpItem, Core.event] <;> split <;> rfl
      | cmd c a => simp [interpItemO, interpItem, enqueue]
    | u c v n => rfl

theorem interpItemO_trk (o : OState) (it : ItemO) :
    (interpItemO o it).base.emgr.tracking = o.base.emgr.tracking := by
  cases it with
  | m it => exact interpItem_trk o.base it
  | u c v n =>
    have h := abs_enqueueU o c v n
    simp only [abs, A.mk.injEq] at h
    exact h.2.2

theorem allReq_interpItemsO (items : List ItemO) (o : OState) (hq : AllReq okReq o.base)
    (hi : ∀ it ∈ items, it.quiet) (ht : o.base.emgr.tracking = true) :
    AllReq okReq (items.foldl interpItemO o).base := by
  induction items generalizing o with
  | nil => exact hq
  | cons it items ih =>
    simp only [List.foldl_cons]
    refine ih _ ?_ (fun x hx => hi x (List.mem_cons_of_mem _ hx)) (by rw [interpItemO_trk]; exact ht)
    cases it with
    | m it =>
      cases it with
      | ev e => exact hq.sub (Sub.of_eq rfl rfl)
      | cmd c a =>
        intro r hr
        rcases reqs_enqueue o.base c false a r hr with h | h
        · exact hq r h
        · subst h
          exact ⟨hi _ List.mem_cons_self, Or.inl ht⟩
    | u c v n => exact hq.sub (sub_enqueueU o c false v n)

/-- input of a tick that injects a hardware error only while a run is active, with well-formed arguments -/
def TickInO.okAt (o : OState) (t : TickInO) : Prop :=
  (t.readFail = true → o.base.core.started = true) ∧ ∀ it ∈ t.items, it.quiet

theorem setError_started (cfg : Cfg) (c : Core) : (c.setError cfg).started = c.started := by
  unfold Core.setError; split
  · rfl
  · split <;> rfl

theorem tickReadO_ref {cfg : Cfg} {pm : Perm} (o : OState) (t : TickInO)
    (h : pm.err = true ∨ (t.readFail = true → o.base.core.started = true)) :
    Reach cfg pm (abs o.base) (abs (tickReadO cfg o t).base) := by
  unfold tickReadO
  simp only []
  split
  · rename_i hc
    refine Reach.act .error ?_ rfl
    rcases h with h | h
    · exact Or.inl h
    · refine Or.inr (h ?_)
      simp only [Bool.and_eq_true] at hc
      exact hc.1
  · exact Reach.refl _

theorem tickInterpO_ref {cfg : Cfg} {pm : Perm} (hev : pm.ev = true) (o : OState) (t : TickInO) :
    Reach cfg pm (abs o.base) (abs (tickInterpO cfg o t).base) := by
  unfold tickInterpO
  split
  · rename_i hgate
    have hst : o.base.core.started = true := by
      simp only [Core.gate, Bool.and_eq_true] at hgate
      exact hgate.1.1.1
    have h2 := interpItemsO_ref (cfg := cfg) (pm := pm) hev t.items o
    have h3 := interpItemsO_started t.items o
    simp only []
    generalize t.items.foldl interpItemO o = o2 at h2 h3 ⊢
    refine h2.trans ?_
    split
    · exact Reach.act .error (Or.inr (by rw [abs_core, h3]; exact hst)) rfl
    · exact Reach.refl _
  · exact Reach.refl _

theorem tickPreO_ref {cfg : Cfg} {pm : Perm} (hev : pm.ev = true) (o : OState) (t : TickInO)
    (h : pm.err = true ∨ (t.readFail = true → o.base.core.started = true)) :
    Reach cfg pm (abs o.base) (abs (tickPreO cfg o t).base) :=
  (tickReadO_ref o t h).trans (tickInterpO_ref hev _ t)

theorem allReq_tickInterpO {cfg : Cfg} (o : OState) (t : TickInO) (hq : AllReq okReq o.base)
    (ht : ∀ it ∈ t.items, it.quiet)
    (hT : o.base.core.started = true → o.base.emgr.tracking = true) :
    AllReq okReq (tickInterpO cfg o t).base := by
  unfold tickInterpO
  split
  · rename_i hgate
    have hst : o.base.core.started = true := by
      simp only [Core.gate, Bool.and_eq_true] at hgate
      exact hgate.1.1.1
    have h1 := allReq_interpItemsO t.items o hq ht (hT hst)
    simp only []
    split
    · exact h1.sub (Sub.of_eq rfl rfl)
    · exact h1.sub (Sub.of_eq rfl rfl)
  · exact hq.sub (Sub.of_eq rfl rfl)

theorem allReq_tickPreO {cfg : Cfg} (o : OState) (t : TickInO) (hq : AllReq okReq o.base)
    (ht : ∀ it ∈ t.items, it.quiet)
    (hT : o.base.core.started = true → o.base.emgr.tracking = true) :
    AllReq okReq (tickPreO cfg o t).base := by
  unfold tickPreO
  refine allReq_tickInterpO _ t ?_ ht ?_
  · unfold tickReadO
    simp only []
    split
    · exact hq.sub (Sub.of_eq rfl rfl)
    · exact hq.sub (Sub.of_eq rfl rfl)
  · unfold tickReadO
    simp only []
    split
    · intro hs
      rw [setError_started] at hs
      exact hT hs
    · exact hT

/-- operations that inject errors only while a run is active and carry well-formed arguments -/
def OpO.okAt (o : OState) : OpO → Prop
  | .tick t => t.okAt o
  | .errApi => o.base.core.started = true
  | _ => True

/-- the state of a tick just before its final `write_process_image` -/
def preWrite (cfg : Cfg) (o : OState) (t : TickInO) : OState :=
  cmdPhaseO cfg { tickPreO cfg o t with base := tickClock cfg t.inc (tickPreO cfg o t).base }

theorem tickO_core (cfg : Cfg) (o : OState) (t : TickInO) :
    (tickO cfg o t).base.core = (preWrite cfg o t).base.core.writeImage := rfl

theorem preWrite_ref {cfg : Cfg} (o : OState) (t : TickInO) (ht : t.okAt o) (hq : AllReq okReq o.base)
    (hT : o.base.core.started = true → o.base.emgr.tracking = true) :
    Reach cfg ⟨false, true, true⟩ (abs o.base) (abs (preWrite cfg o t).base) ∧
      AllReq okReq (preWrite cfg o t).base := by
  have q1 := allReq_tickPreO (cfg := cfg) o t hq ht.2 hT
  have r1 := tickPreO_ref (cfg := cfg) (pm := ⟨false, true, true⟩) rfl o t (Or.inr ht.1)
  let o2 : OState := { tickPreO cfg o t with base := tickClock cfg t.inc (tickPreO cfg o t).base }
  have q2 : AllReq okReq o2.base := q1.sub (Sub.of_eq rfl rfl)
  have r2 : Reach cfg ⟨false, true, true⟩ (abs (tickPreO cfg o t).base) (abs o2.base) :=
    tickClock_ref (cfg := cfg) (pm := ⟨false, true, true⟩) (tickPreO cfg o t).base t.inc rfl
  have r3 := cmdPhaseO_ref (cfg := cfg) (pm := ⟨false, true, true⟩) o2
    (Or.inr (fun r hr => q2 r (by
      simp only [List.mem_append, List.mem_reverse] at hr
      simp only [State.reqs, Mgr.reqs, List.mem_append]
      rcases hr with hr | hr
      · exact Or.inl (Or.inl (Or.inl hr))
      · exact Or.inl (Or.inl (Or.inr hr)))))
  exact ⟨(r1.trans r2).trans r3, q2.sub (sub_cmdPhaseO cfg o2)⟩

/-- One operation of the extended model refines the action system (no error outside a run). The state
    before the final `write_process_image` of a tick is exposed for the per-tick statement of C08. -/
theorem stepO_ref {cfg : Cfg} (o : OState) (op : OpO) (hop : op.okAt o) (hq : AllReq okReq o.base)
    (hT : o.base.core.started = true → o.base.emgr.tracking = true)
    (hA : o.base.core.sys ≠ .stopped → o.base.core.started = true) :
    Reach cfg ⟨false, true, true⟩ (abs o.base) (abs (stepO cfg o op).1.base) ∧
      AllReq okReq (stepO cfg o op).1.base := by
  cases op with
  | user c =>
    by_cases hv : o.base.core.valid c = true
    · simp only [stepO, hv, if_true]
      refine ⟨Reach.of_eq (abs_enqueue o.base c true .none).symm, ?_⟩
      intro r hr
      rcases reqs_enqueue o.base c true .none r hr with h | h
      · exact hq r h
      · exact h ▸ okReq_user o.base c hv hT hA
    · simp only [stepO, hv, Bool.false_eq_true, if_false]
      exact ⟨Reach.refl _, hq⟩
  | userU c v n =>
    exact ⟨Reach.act (.userReq (c / 2)) trivial (abs_enqueueU_user cfg o c v n), hq.sub (sub_enqueueU o c true v n)⟩
  | errApi => exact ⟨Reach.act .error (Or.inr hop) rfl, hq.sub (Sub.of_eq rfl rfl)⟩
  | tick t =>
    obtain ⟨r, q⟩ := preWrite_ref (cfg := cfg) o t hop hq hT
    refine ⟨r.trans (Reach.act .write trivial rfl), ?_⟩
    show AllReq okReq (tickO cfg o t).base
    exact q.sub (Sub.of_eq rfl rfl)

end OPM.RunState
