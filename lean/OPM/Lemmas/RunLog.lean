import OPM.Model.RunLog
/-! Helper lemmas for C15, part 1: the projection records → run log. -/
namespace OPM.RunLog

/-! ### `dedup`, `split` -/

theorem mem_dedup {x : Nat} : ∀ {l : List Nat}, x ∈ dedup l ↔ x ∈ l
  | [] => by simp [dedup]
  | y :: ys => by
    have ih := @mem_dedup x ys
    by_cases h : x = y
    · simp [dedup, h]
    · simp [dedup, h, ih]

theorem nodup_dedup : ∀ (l : List Nat), (dedup l).Nodup
  | [] => by simp [dedup]
  | y :: ys => by
    have ih := nodup_dedup ys
    simp only [dedup, List.nodup_cons, List.mem_filter, bne_self_eq_false, Bool.false_eq_true, and_false,
      not_false_eq_true, true_and]
    exact ih.sublist List.filter_sublist

theorem mem_group {sts : List St} {i : Nat} {st : St} : st ∈ group sts i ↔ st ∈ sts ∧ st.inst = i := by
  simp [group]

theorem group_sublist (sts : List St) (i : Nat) : (group sts i).Sublist sts := List.filter_sublist

/-! ### `checkOrdered` -/

/-- Time/tick order of an invocation (all pairs; equivalent to adjacent pairs by transitivity). -/
def Ordered (g : List St) : Prop := g.Pairwise (fun a b => a.tick ≤ b.tick ∧ a.time ≤ b.time)

theorem checkOrdered_ok : ∀ (g : List St), (∀ a ∈ g, ∀ b ∈ g, a.inst = b.inst) → Ordered g →
    checkOrdered g = .ok ()
  | [], _, _ => rfl
  | [_], _, _ => rfl
  | a :: b :: rest, hi, ho => by
    have hab : a.inst = b.inst := hi a (by simp) b (by simp)
    have ho' := List.pairwise_cons.mp ho
    have h1 := ho'.1 b (by simp)
    have ih := checkOrdered_ok (b :: rest)
      (fun x hx y hy => hi x (List.mem_cons_of_mem _ hx) y (List.mem_cons_of_mem _ hy)) ho'.2
    simp [checkOrdered, hab, h1.1, h1.2, ih]

theorem checkOrdered_head_le : ∀ (rest : List St) (a : St), checkOrdered (a :: rest) = .ok () →
    ∀ b ∈ rest, a.time ≤ b.time
  | [], _, _ => by simp
  | b :: rest, a, h => by
    unfold checkOrdered at h
    split at h
    · cases h
    · split at h
      · cases h
      · split at h
        · cases h
        · rename_i _ _ ht
          have hab : a.time ≤ b.time := by simpa using ht
          intro c hc
          rcases List.mem_cons.mp hc with rfl | hc
          · exact hab
          · exact Int.le_trans hab (checkOrdered_head_le rest b h c hc)

/-! ### one state of the loop -/

theorem applyState_id (it : Item) (cmd : CmdKind) (st : St) :
    (applyState it cmd st).1.id = it.id ∧ (applyState it cmd st).1.start = it.start := by
  unfold applyState
  cases st.name <;> simp [StName.conclusive] <;> split <;> simp

theorem applyState_conclusive (it : Item) (cmd : CmdKind) (st : St) (h : st.name.conclusive = true) :
    let r := (applyState it cmd st).1
    r.stop = some st.time ∧ r.cancellable = false ∧ r.forcible = false ∧ r.state.conclusive = true ∧
      r.state.shown = true ∧ (st.name = .completed → r.state = .completed) := by
  unfold applyState
  cases hn : st.name <;> simp [StName.conclusive, hn] at h ⊢ <;> simp [ItemState.conclusive, ItemState.shown]

theorem applyState_open (it : Item) (cmd : CmdKind) (st : St) (h : st.name.conclusive = false)
    (ho : it.state.conclusive = false) :
    (applyState it cmd st).1.stop = it.stop ∧ (applyState it cmd st).1.state.conclusive = false := by
  unfold applyState
  cases hn : st.name <;> simp [StName.conclusive, hn] at h ⊢ <;>
    (split <;> simp [ItemState.conclusive] <;> simpa [ItemState.conclusive] using ho)

/-! ### the loop of one invocation -/

theorem loop_none {cmd : CmdKind} {sts : List St} {out : List Item} (h : loop none cmd sts = .ok out) :
    sts = [] ∧ out = [] := by
  cases sts with
  | nil => simp [loop] at h; exact ⟨rfl, h⟩
  | cons s r => simp [loop] at h

/-- No state follows a conclusive state. -/
def ConclLast (g : List St) : Prop := g.Pairwise (fun a _ => a.name.conclusive = false)

theorem loop_total : ∀ (sts : List St) (it : Item) (cmd : CmdKind), ConclLast sts →
    ∃ out, loop (some it) cmd sts = .ok out
  | [], _, _, _ => ⟨[], rfl⟩
  | st :: rest, it, cmd, h => by
    have h' := List.pairwise_cons.mp h
    unfold loop
    simp only
    split
    · rename_i hc
      cases rest with
      | nil => exact ⟨[(applyState it cmd st).1], by simp [loop]⟩
      | cons b r =>
        have : st.name.conclusive = false := h'.1 b (by simp)
        simp [this] at hc
    · exact loop_total rest _ _ h'.2

/-- What an invocation contributes when the loop does not raise. -/
structure LoopSpec (it : Item) (sts : List St) (out : List Item) : Prop where
  len : out.length ≤ 1
  ids : ∀ x ∈ out, x.id = it.id ∧ x.start = it.start
  stop : ∀ x ∈ out, ∀ e, x.stop = some e → ∃ st ∈ sts, e = st.time
  concl : ∀ x ∈ out, x.state.conclusive = true → x.stop.isSome ∧ x.cancellable = false ∧ x.forcible = false
  completed : ∀ st ∈ sts, st.name = .completed → ∃ x ∈ out, x.state = .completed ∧ x.stop = some st.time

theorem loop_spec : ∀ (sts : List St) (it : Item) (cmd : CmdKind) (out : List Item),
    loop (some it) cmd sts = .ok out → it.state.conclusive = false → it.stop = none → LoopSpec it sts out
  | [], it, cmd, out, h, _, _ => by
    simp [loop] at h
    subst h
    exact ⟨by simp, by simp, by simp, by simp, by simp⟩
  | st :: rest, it, cmd, out, h, ho, hs => by
    unfold loop at h
    simp only at h
    have hid := applyState_id it cmd st
    split at h
    · -- the item is appended here
      rename_i hc
      cases hl : loop none CmdKind.none rest with
      | error e => simp [hl] at h
      | ok out' =>
        simp [hl] at h
        obtain ⟨hr, ho'⟩ := loop_none hl
        subst hr; subst ho'; subst h
        by_cases hcon : st.name.conclusive = true
        · have ha := applyState_conclusive it cmd st hcon
          simp only at ha
          refine ⟨by simp, ?_, ?_, ?_, ?_⟩
          · intro x hx; simp at hx; subst hx; exact hid
          · intro x hx e he; simp at hx; subst hx
            exact ⟨st, by simp, by rw [ha.1] at he; exact (Option.some.inj he).symm⟩
          · intro x hx _; simp at hx; subst hx
            exact ⟨by rw [ha.1]; rfl, ha.2.1, ha.2.2.1⟩
          · intro st' hst' hcomp; simp at hst'; subst hst'
            exact ⟨_, by simp, ha.2.2.2.2.2 hcomp, ha.1⟩
        · have hcon' : st.name.conclusive = false := by simpa using hcon
          have ha := applyState_open it cmd st hcon' ho
          refine ⟨by simp, ?_, ?_, ?_, ?_⟩
          · intro x hx; simp at hx; subst hx; exact hid
          · intro x hx e he; simp at hx; subst hx
            rw [ha.1, hs] at he; cases he
          · intro x hx hc'; simp at hx; subst hx
            rw [ha.2] at hc'; cases hc'
          · intro st' hst' hcomp; simp at hst'; subst hst'
            rw [hcomp] at hcon'; simp [StName.conclusive] at hcon'
    · -- the item stays under construction
      rename_i hc
      have hcon' : st.name.conclusive = false := by
        cases hcon : st.name.conclusive with
        | false => rfl
        | true =>
          have ha := applyState_conclusive it cmd st hcon
          simp only at ha
          simp [hcon, ha.2.2.2.2.1] at hc
      have ha := applyState_open it cmd st hcon' ho
      have ih := loop_spec rest _ _ out h ha.2 (by rw [ha.1]; exact hs)
      refine ⟨ih.len, ?_, ?_, ih.concl, ?_⟩
      · intro x hx
        have := ih.ids x hx
        exact ⟨this.1.trans hid.1, this.2.trans hid.2⟩
      · intro x hx e he
        obtain ⟨s', hs', he'⟩ := ih.stop x hx e he
        exact ⟨s', List.mem_cons_of_mem _ hs', he'⟩
      · intro st' hst' hcomp
        rcases List.mem_cons.mp hst' with rfl | hst'
        · rw [hcomp] at hcon'; simp [StName.conclusive] at hcon'
        · exact ih.completed st' hst' hcomp

/-! ### `collect` -/

theorem collect_ok_all {α : Type} {f : α → Except Err (List Item)} : ∀ {l : List α} {out : List Item},
    collect f l = .ok out → ∀ a ∈ l, ∃ o, f a = .ok o ∧ ∀ x ∈ o, x ∈ out
  | [], _, _ => by simp
  | a :: l, out, h => by
    unfold collect at h
    cases hf : f a with
    | error e => simp [hf] at h
    | ok o =>
      cases hc : collect f l with
      | error e => simp [hf, hc] at h
      | ok o' =>
        simp [hf, hc] at h
        subst h
        intro b hb
        rcases List.mem_cons.mp hb with rfl | hb
        · exact ⟨o, hf, fun x hx => List.mem_append_left _ hx⟩
        · obtain ⟨o2, h2, h3⟩ := collect_ok_all hc b hb
          exact ⟨o2, h2, fun x hx => List.mem_append_right _ (h3 x hx)⟩

theorem collect_ok_mem {α : Type} {f : α → Except Err (List Item)} : ∀ {l : List α} {out : List Item},
    collect f l = .ok out → ∀ x ∈ out, ∃ a ∈ l, ∃ o, f a = .ok o ∧ x ∈ o
  | [], out, h => by simp [collect] at h; subst h; simp
  | a :: l, out, h => by
    unfold collect at h
    cases hf : f a with
    | error e => simp [hf] at h
    | ok o =>
      cases hc : collect f l with
      | error e => simp [hf, hc] at h
      | ok o' =>
        simp [hf, hc] at h
        subst h
        intro x hx
        rcases List.mem_append.mp hx with hx | hx
        · exact ⟨a, by simp, o, hf, hx⟩
        · obtain ⟨b, hb, o2, h2, h3⟩ := collect_ok_mem hc x hx
          exact ⟨b, List.mem_cons_of_mem _ hb, o2, h2, h3⟩

theorem collect_total {α : Type} {f : α → Except Err (List Item)} : ∀ {l : List α},
    (∀ a ∈ l, ∃ o, f a = .ok o) → ∃ out, collect f l = .ok out
  | [], _ => ⟨[], rfl⟩
  | a :: l, h => by
    obtain ⟨o, ho⟩ := h a (by simp)
    obtain ⟨o', ho'⟩ := collect_total (l := l) (fun b hb => h b (List.mem_cons_of_mem _ hb))
    exact ⟨o ++ o', by simp [collect, ho, ho']⟩

/-! ### one invocation, one record -/

/-- What `groupItems` returns for the invocation `i` of a state list. -/
theorem groupItems_spec {sts : List St} {i : Nat} {out : List Item} (h : groupItems (group sts i) = .ok out) :
    out.length ≤ 1 ∧
    (∀ x ∈ out, x.id = i ∧
      (∀ e, x.stop = some e → x.start ≤ e) ∧
      (x.state.conclusive = true → x.stop.isSome ∧ x.cancellable = false ∧ x.forcible = false)) ∧
    (∀ st ∈ sts, st.inst = i → st.name = .completed →
      ∃ x ∈ out, x.state = .completed ∧ x.stop = some st.time) := by
  unfold groupItems at h
  cases hc : checkOrdered (group sts i) with
  | error e => simp [hc] at h
  | ok u =>
    simp [hc] at h
    cases hg : group sts i with
    | nil =>
      simp [hg, invocationItems] at h
      subst h
      refine ⟨by simp, by simp, ?_⟩
      intro st hst hi _
      have : st ∈ group sts i := mem_group.mpr ⟨hst, hi⟩
      simp [hg] at this
    | cons a rest =>
      rw [hg] at h hc
      simp only [invocationItems] at h
      have sp := loop_spec (a :: rest) (newItem a) CmdKind.none out h (by simp [newItem, ItemState.conclusive])
        (by simp [newItem])
      have ha : a.inst = i := (mem_group.mp (by rw [hg]; simp : a ∈ group sts i)).2
      refine ⟨sp.len, ?_, ?_⟩
      · intro x hx
        have hid := sp.ids x hx
        refine ⟨by rw [hid.1]; simpa [newItem] using ha, ?_, sp.concl x hx⟩
        intro e he
        obtain ⟨st, hst, rfl⟩ := sp.stop x hx e he
        rw [hid.2]
        simp only [newItem]
        rcases List.mem_cons.mp hst with rfl | hst
        · exact Int.le_refl _
        · exact checkOrdered_head_le rest a hc st hst
      · intro st hst hi hcomp
        have : st ∈ a :: rest := by rw [← hg]; exact mem_group.mpr ⟨hst, hi⟩
        exact sp.completed st this hcomp

/-- Instance ids of a record. -/
def Rec.insts (r : Rec) : List Nat := r.states.map (·.inst)

theorem collect_groups_ids (sts : List St) : ∀ (keys : List Nat) (out : List Item),
    collect groupItems (keys.map (group sts)) = .ok out → (out.map (·.id)).Sublist keys
  | [], out, h => by simp [collect] at h; subst h; simp
  | k :: keys, out, h => by
    simp only [List.map_cons] at h
    unfold collect at h
    cases hf : groupItems (group sts k) with
    | error e => simp [hf] at h
    | ok o =>
      cases hc : collect groupItems (keys.map (group sts)) with
      | error e => simp [hf, hc] at h
      | ok o' =>
        simp [hf, hc] at h
        subst h
        have ih := collect_groups_ids sts keys o' hc
        have sp := groupItems_spec hf
        match o, sp with
        | [], _ => simpa using ih.cons k
        | [x], sp =>
          have : x.id = k := (sp.2.1 x (by simp)).1
          simpa [this] using ih.cons_cons k
        | _ :: _ :: _, sp => simp at sp

theorem recordItems_ids {r : Rec} {out : List Item} (h : recordItems r = .ok out) :
    (out.map (·.id)).Nodup ∧ ∀ x ∈ out, x.id ∈ r.insts := by
  unfold recordItems at h
  split at h
  · have hs := collect_groups_ids r.states _ out h
    refine ⟨(nodup_dedup _).sublist hs, ?_⟩
    intro x hx
    have : x.id ∈ dedup (r.states.map (·.inst)) := hs.subset (List.mem_map_of_mem hx)
    exact mem_dedup.mp this
  · cases h; simp

/-- Instance ids are not shared between records. -/
def InstDisjoint (rs : List Rec) : Prop :=
  rs.Pairwise (fun a b => ∀ i, i ∈ a.insts → i ∉ b.insts)

theorem collect_records_ids : ∀ (rs : List Rec) (out : List Item), collect recordItems rs = .ok out →
    InstDisjoint rs → (out.map (·.id)).Nodup
  | [], out, h, _ => by simp [collect] at h; subst h; simp
  | r :: rs, out, h, hd => by
    unfold collect at h
    cases hf : recordItems r with
    | error e => simp [hf] at h
    | ok o =>
      cases hc : collect recordItems rs with
      | error e => simp [hf, hc] at h
      | ok o' =>
        simp [hf, hc] at h
        subst h
        have hd' := List.pairwise_cons.mp hd
        have ih := collect_records_ids rs o' hc hd'.2
        have hr := recordItems_ids hf
        rw [List.map_append, List.nodup_append]
        refine ⟨hr.1, ih, ?_⟩
        intro a ha b hb hab
        obtain ⟨x, hx, rfl⟩ := List.mem_map.mp ha
        obtain ⟨y, hy, rfl⟩ := List.mem_map.mp hb
        obtain ⟨r', hr', o2, ho2, hy2⟩ := collect_ok_mem hc y hy
        have h1 : x.id ∈ r.insts := hr.2 x hx
        have h2 : y.id ∈ r'.insts := (recordItems_ids ho2).2 y hy2
        exact hd'.1 r' hr' x.id h1 (hab ▸ h2)

/-! ### well-formedness -/

/-- One invocation is well-formed: time/tick ordered and nothing after a conclusive state. -/
def GroupWF (g : List St) : Prop := Ordered g ∧ ConclLast g

/-- The well-formedness predicate on record lists: every invocation of every record that is shown in the
run log is ordered and has no state after a conclusive one. -/
def WF (rs : List Rec) : Prop :=
  ∀ r ∈ rs, r.visible = true → ∀ i, GroupWF (group r.states i)

theorem groupItems_total {sts : List St} {i : Nat} (h : GroupWF (group sts i)) :
    ∃ out, groupItems (group sts i) = .ok out := by
  unfold groupItems
  have hc := checkOrdered_ok (group sts i)
    (fun a ha b hb => by rw [(mem_group.mp ha).2, (mem_group.mp hb).2]) h.1
  rw [hc]
  simp only
  cases hg : group sts i with
  | nil => exact ⟨[], rfl⟩
  | cons a rest =>
    simp only [invocationItems]
    exact loop_total (a :: rest) _ _ (hg ▸ h.2)

theorem recordItems_total {r : Rec} (h : r.rendered = true → ∀ i, GroupWF (group r.states i)) :
    ∃ out, recordItems r = .ok out := by
  unfold recordItems
  split
  · rename_i hr
    apply collect_total
    intro g hg
    simp only [split, List.mem_map] at hg
    obtain ⟨i, _, rfl⟩ := hg
    exact groupItems_total (h hr i)
  · exact ⟨[], rfl⟩

/-! ### the converse: when `get_runlog` returns, the record list was well-formed -/

theorem checkOrdered_tail : ∀ (rest : List St) (a : St), checkOrdered (a :: rest) = .ok () → checkOrdered rest = .ok ()
  | [], _, _ => rfl
  | b :: rest, a, h => by
    unfold checkOrdered at h
    split at h
    · cases h
    · split at h
      · cases h
      · split at h
        · cases h
        · exact h

theorem checkOrdered_head_tick_le : ∀ (rest : List St) (a : St), checkOrdered (a :: rest) = .ok () →
    ∀ b ∈ rest, a.tick ≤ b.tick
  | [], _, _ => by simp
  | b :: rest, a, h => by
    have h0 := h
    unfold checkOrdered at h
    split at h
    · cases h
    · split at h
      · cases h
      · rename_i _ hk
        have hab : a.tick ≤ b.tick := by simpa using hk
        split at h
        · cases h
        · intro c hc
          rcases List.mem_cons.mp hc with rfl | hc
          · exact hab
          · exact Int.le_trans hab (checkOrdered_head_tick_le rest b h c hc)

theorem checkOrdered_ordered : ∀ (g : List St), checkOrdered g = .ok () → Ordered g
  | [], _ => List.Pairwise.nil
  | a :: rest, h => by
    unfold Ordered
    rw [List.pairwise_cons]
    exact ⟨fun b hb => ⟨checkOrdered_head_tick_le rest a h b hb, checkOrdered_head_le rest a h b hb⟩,
      checkOrdered_ordered rest (checkOrdered_tail rest a h)⟩

theorem loop_conclLast : ∀ (sts : List St) (it : Item) (cmd : CmdKind) (out : List Item),
    loop (some it) cmd sts = .ok out → ConclLast sts
  | [], _, _, _, _ => List.Pairwise.nil
  | st :: rest, it, cmd, out, h => by
    unfold loop at h
    simp only at h
    unfold ConclLast
    rw [List.pairwise_cons]
    split at h
    · cases hl : loop none CmdKind.none rest with
      | error e => simp [hl] at h
      | ok out' =>
        obtain ⟨hr, _⟩ := loop_none hl
        subst hr
        exact ⟨by simp, List.Pairwise.nil⟩
    · rename_i hc
      have hcon' : st.name.conclusive = false := by
        cases hcon : st.name.conclusive with
        | false => rfl
        | true =>
          have ha := applyState_conclusive it cmd st hcon
          simp only at ha
          simp [hcon, ha.2.2.2.2.1] at hc
      exact ⟨fun _ _ => hcon', loop_conclLast rest _ _ out h⟩

theorem groupItems_ok_wf {g : List St} {out : List Item} (h : groupItems g = .ok out) : GroupWF g := by
  unfold groupItems at h
  cases hc : checkOrdered g with
  | error e => simp [hc] at h
  | ok u =>
    simp [hc] at h
    refine ⟨checkOrdered_ordered g hc, ?_⟩
    cases g with
    | nil => exact List.Pairwise.nil
    | cons a rest => exact loop_conclLast _ _ _ out h

theorem recordItems_ok_wf {r : Rec} {out : List Item} (h : recordItems r = .ok out) (hr : r.rendered = true) :
    ∀ i, GroupWF (group r.states i) := by
  intro i
  unfold recordItems at h
  simp only [hr, if_true] at h
  by_cases hi : i ∈ r.states.map (·.inst)
  · have hg : group r.states i ∈ split r.states := by
      simp only [split, List.mem_map]
      exact ⟨i, mem_dedup.mpr hi, rfl⟩
    obtain ⟨o, ho, _⟩ := collect_ok_all h _ hg
    exact groupItems_ok_wf ho
  · have : group r.states i = [] := by
      unfold group
      rw [List.filter_eq_nil_iff]
      intro st hst hsi
      exact hi (List.mem_map.mpr ⟨st, hst, by simpa using hsi⟩)
    rw [this]
    exact ⟨List.Pairwise.nil, List.Pairwise.nil⟩

end OPM.RunLog
