import OPM.Lemmas.InterpC02e
import OPM.Lemmas.InterpC02c
set_option linter.unusedSimpArgs false
set_option linter.unusedVariables false
/-!
C02 lemmas, part 6: sequential methods — counting `start` events over a whole run, and lifting the
structural invariant `SeqInv` from micro-steps to ticks and schedules (one generator, no interrupts).
-/
namespace OPM.InterpC02
open OPM.Interp OPM.InterpRun

/-! ### the interrupt map stays empty, the generator list stays `[main]` -/

theorem abort_of_imap_nil (p : Prog) (s : St) (b : Nat) (h : s.imap = []) : abortBlockInterrupts p s b = s := by
  unfold abortBlockInterrupts; rw [h]; rfl

theorem imap_markCompleted (s : St) (n : Nat) : (markCompleted s n).imap = s.imap := by
  unfold markCompleted; split <;> rfl

theorem imap_finishNode (s : St) (n : Nat) : (finishNode s n).imap = s.imap := by
  unfold finishNode; exact imap_markCompleted s n

theorem imap_endOneBlock_nil (p : Prog) (s : St) (old : Nat) (nm : String) (h : s.imap = []) :
    (endOneBlock p s old nm).imap = [] := by
  unfold endOneBlock
  simp only []
  rw [abort_of_imap_nil p _ old (by exact h)]
  exact h

theorem imap_endBlockStep_nil (p : Prog) (s : St) (h : s.imap = []) : (endBlockStep p s).imap = [] := by
  unfold endBlockStep
  split
  · exact h
  · exact imap_endOneBlock_nil p _ _ _ h

theorem imap_endBlocksStep_nil (p : Prog) (s : St) (h : s.imap = []) : (endBlocksStep p s).imap = [] := by
  unfold endBlocksStep
  simp only []
  have : ∀ (l : List (Nat × Nat)) (g : Nat × Nat → String) (s : St), s.imap = [] →
      (l.foldl (fun s x => endOneBlock p s x.1 (g x)) s).imap = [] := by
    intro l g
    induction l with
    | nil => intro s h; exact h
    | cons x l ih => intro s h; exact ih _ (imap_endOneBlock_nil p s _ _ h)
  exact this _ _ s h

theorem imap_emit' (s : St) (e : Event) : (emit s e).imap = s.imap := rfl

theorem stepBody_imap_seq (p : Prog) (s : St) (n pc : Nat) (below : List Frame)
    (hk : seqKind (node p n).kind = true) (h : s.imap = []) :
    (outState (stepBody p s n pc below)).imap = [] ∧ (outState (stepBody p s n pc below)).gens = s.gens := by
  constructor
  · unfold stepBody
    simp only []
    split
    all_goals (try (rename_i hkind; rw [hkind] at hk; simp [seqKind] at hk; done))
    all_goals (repeat' split)
    all_goals (simp only [outState, imap_setRt, imap_finishNode, imap_emit'])
    all_goals (first
      | exact h
      | exact imap_endBlockStep_nil p s h
      | exact imap_endBlocksStep_nil p s h)
  · unfold stepBody
    simp only []
    split
    all_goals (try (rename_i hkind; rw [hkind] at hk; simp [seqKind] at hk; done))
    all_goals (repeat' split)
    all_goals (simp only [outState, (keep_setRt _ _ _).gens, (keep_emit _ _).gens,
      (keep_finishNode _ _).gens, (keep_markFailed _ _).gens, (keep_endBlockStep _ _).gens, (keep_endBlocksStep _ _).gens])

theorem stepFrame_imap_seq (p : Prog) (hseq : sequential p = true) (s : St) (f : Frame) (below : List Frame)
    (h : s.imap = []) :
    (outState (stepFrame p s f below)).imap = [] ∧ (outState (stepFrame p s f below)).gens = s.gens := by
  cases f with
  | body n pc => exact stepBody_imap_seq p s n pc below (seq_kind p hseq n) h
  | callRet n m =>
    simp only [stepFrame, outState]
    unfold callFinish
    exact ⟨by simp only [imap_setRt, imap_finishNode]; exact h, by simp only [(keep_setRt _ _ _).gens, (keep_finishNode _ _).gens]⟩
  | _ =>
    unfold stepFrame
    simp only []
    repeat' split
    all_goals (simp only [outState, imap_setRt, imap_finishNode, (keep_setRt _ _ _).gens, (keep_emit _ _).gens,
      (keep_finishNode _ _).gens])
    all_goals (first | exact ⟨h, rfl⟩ | exact ⟨h, trivial⟩ | exact h)

theorem imap_unwind (s : St) (stack : List Frame) : (unwind s stack).1.imap = s.imap := by
  induction stack with
  | nil => rfl
  | cons f rest ih => cases f <;> simp only [unwind, ih] <;> rfl

theorem stepGen_imap_seq (p : Prog) (hseq : sequential p = true) (s : St) (st : List Frame) (h : s.imap = []) :
    (stepGen p s st).1.imap = [] ∧ (stepGen p s st).1.gens = s.gens := by
  cases st with
  | nil => exact ⟨h, rfl⟩
  | cons f below =>
    have := stepFrame_imap_seq p hseq s f below h
    unfold stepGen
    simp only []
    cases hst : stepFrame p s f below with
    | next s' top sig => rw [hst] at this; exact this
    | raise s' =>
      rw [hst] at this
      simp only [outState] at this
      simp only []
      rw [imap_unwind, gens_unwind]
      exact this

/-! ### counting starts -/

def isStartOf (n : Nat) : Event → Bool
  | .start k => k == n
  | _ => false

def cntStart (n : Nat) (l : List Event) : Nat := (l.filter (isStartOf n)).length

theorem isStartOf_core (n : Nat) (e : Event) (h : isStartOf n e = true) : isCore e = true := by
  cases e <;> simp_all [isStartOf, isCore]

theorem cntStart_core (n : Nat) (s : St) : cntStart n (coreEvs s) = cntStart n s.events := by
  unfold cntStart coreEvs
  rw [List.filter_filter]
  congr 1
  apply List.filter_congr
  intro e _
  cases h : isStartOf n e
  · simp
  · simp [isStartOf_core n e h]

theorem cntStart_append (n : Nat) (a b : List Event) : cntStart n (a ++ b) = cntStart n a + cntStart n b := by
  unfold cntStart; simp [List.filter_append]

theorem cntStart_reverse (n : Nat) (a : List Event) : cntStart n a.reverse = cntStart n a := by
  unfold cntStart; simp [List.filter_reverse]

theorem cntStart_cons (n : Nat) (e : Event) (l : List Event) :
    cntStart n (e :: l) = (if isStartOf n e then 1 else 0) + cntStart n l := by
  unfold cntStart
  simp only [List.filter_cons]
  split <;> simp <;> omega

/-- node `k` has not been entered, or its wrapper is still before its `start` -/
def NotYetStarted (s : St) (st : List Frame) (k : Nat) : Prop :=
  (s.rt k).hasRecord = false ∨ st.head? = some (.wrapEnter k) ∨ st.head? = some (.wrapThr k)

/-- `c0 k` starts of `k` before this tick plus those of this tick so far: at most one, none before the wrapper passed -/
def CntInv (c0 : Nat → Nat) (s : St) (st : List Frame) : Prop :=
  ∀ k, c0 k + cntStart k s.events ≤ 1 ∧ (NotYetStarted s st k → c0 k + cntStart k s.events = 0)

/-- a line the loop is about to enter has never been entered before -/
theorem entered_child_is_fresh (p : Prog) (s : St) (n inx c : Nat) (below : List Frame)
    (h : SeqInv p s (.children n inx false :: below)) (hc : (node p n).children[inx]? = some c)
    (hge : (s.rt n).childIndex ≤ inx) : (s.rt c).hasRecord = false := by
  cases hr : (s.rt c).hasRecord with
  | false => rfl
  | true =>
    exfalso
    have hle := (h.K n inx false (by simp)).2 rfl
    rcases h.J n inx c hc hr with h1 | h1
    · omega
    · rcases List.mem_cons.mp h1 with h2 | h2
      · cases h2
      · exact no_loop_of_own_node_below _ below h.pair n inx true rfl h2

/-- which frame can make `wrapEnter k` / `wrapThr k` the new top -/
theorem new_head_cases (p : Prog) (hseq : sequential p = true) (s : St) (f : Frame) (below : List Frame)
    (s' : St) (top : List Frame) (sig : Signal) (hst : stepFrame p s f below = .next s' top sig) (k : Nat) :
    (top.head? = some (.wrapEnter k) →
      ∃ n inx, f = .children n inx false ∧ (node p n).children[inx]? = some k ∧ (s.rt n).childIndex ≤ inx) ∧
    (top.head? = some (.wrapThr k) → f = .wrapEnter k ∨ f = .wrapThr k) := by
  cases f with
  | body n pc =>
    have hshape := stepBody_topShape p s n pc below (seq_kind p hseq n)
    simp only [stepFrame] at hst
    rw [hst] at hshape
    simp only [outTop] at hshape
    exact ⟨fun h => absurd (List.mem_of_mem_head? h) (hshape.2.2.2 k).1,
           fun h => absurd (List.mem_of_mem_head? h) (hshape.2.2.2 k).2⟩
  | wrapEnter n =>
    by_cases hc : (s.rt n).completed = true
    · have : stepFrame p s (.wrapEnter n) below = .next s [] .cont := by
        simp only [stepFrame, getRt_eq, hc, if_true]
      rw [this] at hst; cases hst
      exact ⟨fun h => (by simp at h), fun h => (by simp at h)⟩
    · have : stepFrame p s (.wrapEnter n) below =
          .next (setRt s n (fun r => { r with hasRecord := true })) [.wrapThr n] .cont := by
        simp only [stepFrame, getRt_eq, hc, if_false, Bool.false_eq_true]
      rw [this] at hst; cases hst
      refine ⟨fun h => (by simp at h), fun h => ?_⟩
      simp only [List.head?_cons, Option.some.injEq, Frame.wrapThr.injEq] at h
      subst h; exact Or.inl rfl
  | wrapThr n =>
    rcases wrapThr_cases p s n below s' top sig hst with ⟨_, e2⟩ | ⟨_, e2⟩ | ⟨_, e2⟩ <;> subst e2
    · exact ⟨fun h => (by simp at h), fun h => (by simp at h)⟩
    · refine ⟨fun h => (by simp at h), fun h => ?_⟩
      simp only [List.head?_cons, Option.some.injEq, Frame.wrapThr.injEq] at h
      subst h; exact Or.inr rfl
    · exact ⟨fun h => (by simp at h), fun h => (by simp at h)⟩
  | wrapDispatch n =>
    simp only [stepFrame] at hst; cases hst
    exact ⟨fun h => (by simp at h), fun h => (by simp at h)⟩
  | wrapAfter n =>
    simp only [stepFrame] at hst; cases hst
    exact ⟨fun h => (by simp at h), fun h => (by simp at h)⟩
  | callRet n m =>
    simp only [stepFrame] at hst; cases hst
    exact ⟨fun h => (by simp at h), fun h => (by simp at h)⟩
  | waitLoop n e =>
    rcases waitLoop_cases p s n e below s' top sig hst with ⟨_, e2⟩ | ⟨_, e2⟩ <;> subst e2 <;>
      exact ⟨fun h => (by simp at h), fun h => (by simp at h)⟩
  | children n inx b =>
    cases b with
    | true =>
      simp only [stepFrame, if_true] at hst; cases hst
      exact ⟨fun h => (by simp at h), fun h => (by simp at h)⟩
    | false =>
      rcases children_false_cases p s n inx below with ⟨s1, h1, _⟩ | ⟨h1, _⟩ | ⟨c, hc, hge, h1⟩ <;>
        rw [h1] at hst <;> cases hst
      · exact ⟨fun h => (by simp at h), fun h => (by simp at h)⟩
      · exact ⟨fun h => (by simp at h), fun h => (by simp at h)⟩
      · refine ⟨fun h => ?_, fun h => (by simp at h)⟩
        simp only [List.head?_cons, Option.some.injEq, Frame.wrapEnter.injEq] at h
        subst h
        exact ⟨n, inx, rfl, hc, hge⟩

theorem exists_snoc {α : Type} (a : α) (l : List α) : ∃ x pre', a :: l = pre' ++ [x] := by
  induction l generalizing a with
  | nil => exact ⟨a, [], rfl⟩
  | cons b l ih =>
    obtain ⟨x, pre', h⟩ := ih b
    exact ⟨x, a :: pre', by rw [h]; rfl⟩

/-- what the next state's top frame and `hasRecord` say about the state before the step -/
theorem post_head_facts (p : Prog) (hseq : sequential p = true) (s : St) (st : List Frame) (h : SeqInv p s st) (k : Nat) :
    (((stepGen p s st).1.rt k).hasRecord = false → (s.rt k).hasRecord = false) ∧
    ((stepGen p s st).2.1.head? = some (.wrapEnter k) → (s.rt k).hasRecord = false ∨ st.head? = some (.wrapEnter k)) ∧
    ((stepGen p s st).2.1.head? = some (.wrapThr k) → st.head? = some (.wrapEnter k) ∨ st.head? = some (.wrapThr k)) := by
  cases st with
  | nil => exact ⟨fun h => h, fun h => by simp [stepGen] at h, fun h => by simp [stepGen] at h⟩
  | cons f below =>
    have hbelow : ∀ c, below.head? ≠ some (.wrapEnter c) ∧ below.head? ≠ some (.wrapThr c) := by
      intro c
      cases below with
      | nil => exact ⟨by simp, by simp⟩
      | cons g rest =>
        have := chain_top_only p f g rest h.chain
        exact ⟨by simp only [List.head?_cons, ne_eq, Option.some.injEq]; exact this.1 c,
               by simp only [List.head?_cons, ne_eq, Option.some.injEq]; exact this.2.1 c⟩
    unfold stepGen
    simp only []
    cases hst : stepFrame p s f below with
    | next s' top sig =>
      simp only []
      have sp := stepFrame_spec p hseq s f below s' top sig hst
        (fun n inx b e => h.K n inx b (by rw [e]; simp)) (fun c e => h.H c (by rw [e]; rfl))
      have nh := new_head_cases p hseq s f below s' top sig hst k
      refine ⟨?_, ?_, ?_⟩
      · intro hf
        cases hr : (s.rt k).hasRecord with
        | false => rfl
        | true => rw [sp.hrMono k hr] at hf; cases hf
      · intro hh
        cases top with
        | nil => exact absurd hh (hbelow k).1
        | cons a rest =>
          obtain ⟨n, inx, e, hc, hge⟩ := nh.1 (by simpa using hh)
          subst e
          exact Or.inl (entered_child_is_fresh p s n inx k below h hc hge)
      · intro hh
        cases top with
        | nil => exact absurd hh (hbelow k).2
        | cons a rest =>
          rcases nh.2 (by simpa using hh) with e | e <;> subst e
          · exact Or.inl rfl
          · exact Or.inr rfl
    | raise s' =>
      simp only []
      have hhr : ∀ c, (((unwind s' below).1).rt c).hasRecord = (s.rt c).hasRecord := by
        intro c
        rw [unwind_hr]
        rcases raise_only_body p s f below s' hst with ⟨n, pc, e, hb⟩ | ⟨n, e', e, hs⟩
        · have := stepBody_hasRecord p s n pc below c (seq_kind p hseq n)
          rw [hb] at this; exact this
        · rw [hs]
      have hrest : ∀ c, (unwind s' below).2.head? ≠ some (.wrapEnter c) ∧ (unwind s' below).2.head? ≠ some (.wrapThr c) := by
        intro c
        obtain ⟨pre, hp⟩ := unwind_suffix s' below
        cases hr : (unwind s' below).2 with
        | nil => exact ⟨by simp, by simp⟩
        | cons g rest =>
          rw [hr] at hp
          -- `g` has a frame above it in the old stack
          have hch : chainOK p ((f :: pre) ++ g :: rest) := by
            have := h.chain; rw [hp] at this; exact this
          have : ∃ x pre', (f :: pre) = pre' ++ [x] := exists_snoc f pre
          obtain ⟨x, pre', hx⟩ := this
          rw [hx, List.append_assoc] at hch
          have := chain_top_only p x g rest (chainOK_suffix p pre' _ hch)
          exact ⟨by simp only [List.head?_cons, ne_eq, Option.some.injEq]; exact this.1 c,
                 by simp only [List.head?_cons, ne_eq, Option.some.injEq]; exact this.2.1 c⟩
      exact ⟨fun hf => by rw [hhr k] at hf; exact hf, fun hh => absurd hh (hrest k).1, fun hh => absurd hh (hrest k).2⟩

/-- **Counting: a micro-step of a sequential method keeps "every line has started at most once".** -/
theorem cntInv_stepGen (p : Prog) (hseq : sequential p = true) (c0 : Nat → Nat) (s : St) (st : List Frame)
    (hi : SeqInv p s st) (hc : CntInv c0 s st) : CntInv c0 (stepGen p s st).1 (stepGen p s st).2.1 := by
  intro k
  have hpost := post_head_facts p hseq s st hi k
  have hnys : NotYetStarted (stepGen p s st).1 (stepGen p s st).2.1 k → NotYetStarted s st k := by
    intro hn
    rcases hn with h1 | h1 | h1
    · exact Or.inl (hpost.1 h1)
    · rcases hpost.2.1 h1 with h2 | h2
      · exact Or.inl h2
      · exact Or.inr (Or.inl h2)
    · exact Or.inr (hpost.2.2 h1)
  rcases stepGen_core p s st with hcore | ⟨e, f, below, hst, hcore, hsite⟩
  · have : cntStart k (stepGen p s st).1.events = cntStart k s.events := by
      rw [← cntStart_core, ← cntStart_core, hcore]
    rw [this]
    exact ⟨(hc k).1, fun hn => (hc k).2 (hnys hn)⟩
  · have hcnt : cntStart k (stepGen p s st).1.events = (if isStartOf k e then 1 else 0) + cntStart k s.events := by
      rw [← cntStart_core, hcore, cntStart_cons, cntStart_core]
    by_cases he : isStartOf k e = true
    · -- the wrapper of `k` passes its threshold wait: it was the top frame, so nothing was counted yet
      cases e with
      | start k' =>
        have hk : k' = k := by simpa [isStartOf] using he
        subst hk
        cases f with
        | wrapThr n =>
          simp only [SiteF] at hsite
          obtain ⟨e1, htop, _, _, _⟩ := hsite
          have hn : n = k' := by cases e1; rfl
          subst hn
          have h0 := (hc n).2 (Or.inr (Or.inr (by rw [hst]; rfl)))
          rw [hcnt, he]
          refine ⟨by simp only [if_true]; omega, fun hn => ?_⟩
          exfalso
          -- afterwards the top is `wrapDispatch n` and `n` has its record
          have hrec : (s.rt n).hasRecord = true := hi.H n (by rw [hst]; rfl)
          have hstack : (stepGen p s st).2.1 = .wrapDispatch n :: below := by
            rw [hst]
            unfold stepGen
            simp only []
            cases hs : stepFrame p s (.wrapThr n) below with
            | next s' top sig => rw [hs] at htop; simp only [outTop] at htop; subst htop; rfl
            | raise s' => rw [hs] at htop; simp [outTop] at htop
          rcases hn with h1 | h1 | h1
          · have := hpost.1 h1; rw [hrec] at this; cases this
          · rw [hstack] at h1; simp at h1
          · rw [hstack] at h1; simp at h1
        | body n pc => simp only [SiteF, SiteB] at hsite
        | _ => simp only [SiteF] at hsite
      | _ => simp [isStartOf] at he
    · have he' : isStartOf k e = false := by simpa using he
      rw [hcnt, he']
      simp only [Bool.false_eq_true, if_false, Nat.zero_add]
      exact ⟨(hc k).1, fun hn => (hc k).2 (hnys hn)⟩

/-! ### from micro-steps to ticks and schedules -/

/-- `SeqInv` looks at `child_index` and `hasRecord` only -/
theorem seqInv_of_proj (p : Prog) (s s' : St) (st : List Frame) (h : SeqInv p s st)
    (hp : ∀ k, (s'.rt k).childIndex = (s.rt k).childIndex ∧ (s'.rt k).hasRecord = (s.rt k).hasRecord) :
    SeqInv p s' st := by
  refine ⟨h.chain, h.pair, ?_, ?_, ?_, h.Z⟩
  · intro n inx b hm; rw [(hp n).1]; exact h.K n inx b hm
  · intro n i c hc hr; rw [(hp c).2] at hr; rw [(hp n).1]; exact h.J n i c hc hr
  · intro c hc; rw [(hp c).2]; exact h.H c hc

theorem seqAll_runGen (p : Prog) (hseq : sequential p = true) (c0 : Nat → Nat) (fuel : Nat) (s : St)
    (st : List Frame) (hi : SeqInv p s st) (hc : CntInv c0 s st) (him : s.imap = []) :
    SeqInv p (runGen p fuel s st).1 (runGen p fuel s st).2.1 ∧ CntInv c0 (runGen p fuel s st).1 (runGen p fuel s st).2.1 ∧
    (runGen p fuel s st).1.imap = [] ∧ (runGen p fuel s st).1.gens = s.gens := by
  induction fuel generalizing s st with
  | zero => exact ⟨hi, hc, him, rfl⟩
  | succ fuel ih =>
    unfold runGen
    have h1 := seqInv_stepGen p hseq s st hi
    have h2 := cntInv_stepGen p hseq c0 s st hi hc
    have h3 := stepGen_imap_seq p hseq s st him
    rcases hst : stepGen p s st with ⟨s1, st1, sig⟩
    rw [hst] at h1 h2 h3
    simp only [] at h1 h2 h3
    cases sig
    · simp only []
      have := ih s1 st1 h1 h2 h3.1
      exact ⟨this.1, this.2.1, this.2.2.1, this.2.2.2.trans h3.2⟩
    · exact ⟨h1, h2, h3.1, h3.2⟩
    · exact ⟨h1, h2, h3.1, h3.2⟩

/-- the state of a sequential run between ticks: one generator, no interrupts, the structural invariant,
    and `c k` (the number of `start k` events so far) at most one and zero before the wrapper passed -/
def SeqState (p : Prog) (c : Nat → Nat) (s : St) : Prop :=
  s.imap = [] ∧ ∃ st, s.gens = [{ gid := 0, node := 0, stack := st }] ∧ SeqInv p s st ∧
    ∀ k, c k ≤ 1 ∧ (NotYetStarted s st k → c k = 0)

/-- `tick` with the micro-step budget as a parameter -/
def tickF (fuel : Nat) (p : Prog) (s : St) (i : TickIn) : St × Bool :=
  let s := tickStart s i
  let (s, ok) := runGid p fuel s 0
  let snapshot := s.imap.map (·.2)
  let (s, ok) := snapshot.foldl (fun (acc : St × Bool) gid =>
      let (s, ok1) := runGid p fuel { acc.1 with inInterrupt := true } gid
      ({ s with inInterrupt := false }, acc.2 && ok1)) (s, ok)
  let live := s.imap.map (·.2)
  ({ s with gens := s.gens.filter (fun g => g.gid = 0 || live.contains g.gid) }, ok)

theorem tick_eq_tickF (p : Prog) (s : St) (i : TickIn) : tick p s i = tickF microFuel p s i := rfl

theorem seqState_tickF (fuel : Nat) (p : Prog) (hseq : sequential p = true) (c : Nat → Nat) (s : St) (i : TickIn)
    (h : SeqState p c s) :
    SeqState p (fun k => c k + cntStart k (tickF fuel p s i).1.events.reverse) (tickF fuel p s i).1 := by
  obtain ⟨him, st, hg, hi, hc⟩ := h
  have hi0 : SeqInv p (tickStart s i) st := seqInv_of_proj p s _ st hi (fun k => ⟨rfl, rfl⟩)
  have hc0 : CntInv c (tickStart s i) st := by
    intro k
    have : cntStart k (tickStart s i).events = 0 := by simp [tickStart, cntStart]
    rw [this]
    exact ⟨(hc k).1, fun hn => (hc k).2 hn⟩
  have hget : getGen (tickStart s i) 0 = some { gid := 0, node := 0, stack := st } := by
    simp [getGen, tickStart, hg]
  have hrun := seqAll_runGen p hseq c fuel (tickStart s i) st hi0 hc0 him
  generalize hR : runGen p fuel (tickStart s i) st = R at hrun
  have hr : runGid p fuel (tickStart s i) 0 = (setGenStack R.1 0 R.2.1, R.2.2) := by
    unfold runGid
    rw [hget]
    simp only [hR]
  have hgens : (setGenStack R.1 0 R.2.1).gens = [{ gid := 0, node := 0, stack := R.2.1 }] := by
    unfold setGenStack
    simp only [hrun.2.2.2]
    simp [tickStart, hg]
  have himap : (setGenStack R.1 0 R.2.1).imap = [] := hrun.2.2.1
  have htick : (tickF fuel p s i).1 =
      { (setGenStack R.1 0 R.2.1) with gens := [{ gid := 0, node := 0, stack := R.2.1 }] } := by
    unfold tickF
    simp only [hr, himap, List.map_nil, List.foldl_nil, hgens]
    simp
  have hrt : ∀ k, (tickF fuel p s i).1.rt k = R.1.rt k := by
    intro k; rw [htick]; rfl
  have hev : (tickF fuel p s i).1.events = R.1.events := by
    rw [htick]; rfl
  refine ⟨by rw [htick]; exact himap, R.2.1, by rw [htick], ?_, ?_⟩
  · exact seqInv_of_proj p _ _ _ hrun.1 (fun k => by rw [hrt k]; exact ⟨rfl, rfl⟩)
  · intro k
    have := hrun.2.1 k
    show c k + cntStart k (tickF fuel p s i).1.events.reverse ≤ 1 ∧
      (NotYetStarted (tickF fuel p s i).1 R.2.1 k → c k + cntStart k (tickF fuel p s i).1.events.reverse = 0)
    rw [cntStart_reverse, hev]
    refine ⟨this.1, fun hn => this.2 ?_⟩
    rcases hn with h1 | h1 | h1
    · exact Or.inl (by rw [hrt k] at h1; exact h1)
    · exact Or.inr (Or.inl h1)
    · exact Or.inr (Or.inr h1)

theorem seqState_tick (p : Prog) (hseq : sequential p = true) (c : Nat → Nat) (s : St) (i : TickIn)
    (h : SeqState p c s) :
    SeqState p (fun k => c k + cntStart k (tick p s i).1.events.reverse) (tick p s i).1 := by
  rw [tick_eq_tickF]
  exact seqState_tickF microFuel p hseq c s i h

theorem seqState_setRt (p : Prog) (c : Nat → Nat) (s : St) (n : Nat) (f : NodeRt → NodeRt)
    (hf : ∀ r, (f r).childIndex = r.childIndex ∧ (f r).hasRecord = r.hasRecord)
    (h : SeqState p c s) : SeqState p c (setRt s n f) := by
  obtain ⟨him, st, hg, hi, hc⟩ := h
  have hp : ∀ k, ((setRt s n f).rt k).childIndex = (s.rt k).childIndex ∧
      ((setRt s n f).rt k).hasRecord = (s.rt k).hasRecord := by
    intro k; simp only [rt_setRt]; split
    · rename_i e; subst e; exact hf _
    · exact ⟨rfl, rfl⟩
  refine ⟨him, st, hg, seqInv_of_proj p s _ st hi hp, ?_⟩
  intro k
  refine ⟨(hc k).1, fun hn => (hc k).2 ?_⟩
  rcases hn with h1 | h1 | h1
  · exact Or.inl (by rw [(hp k).2] at h1; exact h1)
  · exact Or.inr (Or.inl h1)
  · exact Or.inr (Or.inr h1)

theorem seqState_execStep (p : Prog) (hseq : sequential p = true) (acc : St × List Event) (r : Req)
    (h : SeqState p (fun k => cntStart k acc.2) acc.1) :
    SeqState p (fun k => cntStart k (execStep p acc r).2) (execStep p acc r).1 := by
  cases r with
  | tick i =>
    simp only [execStep, applyReq, reqEvents, cntStart_append]
    exact seqState_tick p hseq _ acc.1 i h
  | cancel n =>
    simp only [execStep, applyReq, reqEvents, List.append_nil]
    cases hc : cancel p acc.1 n with
    | none => exact h
    | some s' =>
      simp only [Option.getD]
      unfold cancel at hc
      split at hc
      · cases hc; exact seqState_setRt p _ acc.1 n _ (fun _ => ⟨rfl, rfl⟩) h
      · cases hc
  | force n =>
    simp only [execStep, applyReq, reqEvents, List.append_nil]
    cases hc : force p acc.1 n with
    | none => exact h
    | some s' =>
      simp only [Option.getD]
      unfold force at hc
      split at hc
      · cases hc; exact seqState_setRt p _ acc.1 n _ (fun _ => ⟨rfl, rfl⟩) h
      · cases hc
  | complete n =>
    simp only [execStep, applyReq, reqEvents, List.append_nil]
    split
    · unfold completeCmd
      split
      · exact h
      · exact seqState_setRt p _ acc.1 n _ (fun _ => ⟨rfl, rfl⟩) h
    · exact h

theorem seqState_init (p : Prog) : SeqState p (fun k => cntStart k ([] : List Event)) (init p) := by
  refine ⟨rfl, [.wrapEnter 0], rfl, ?_, ?_⟩
  · refine ⟨⟨trivial, trivial⟩, by simp, ?_, ?_, by simp, ?_⟩
    · intro n inx b hm; simp at hm
    · intro n i c _ hr; simp [init] at hr
    · intro f0 hl; simp at hl; subst hl; rfl
  · intro k; simp [cntStart]

theorem seqState_run (p : Prog) (hseq : sequential p = true) (reqs : List Req) (acc : St × List Event)
    (h : SeqState p (fun k => cntStart k acc.2) acc.1) :
    SeqState p (fun k => cntStart k (reqs.foldl (execStep p) acc).2) (reqs.foldl (execStep p) acc).1 := by
  induction reqs generalizing acc with
  | nil => exact h
  | cons r rs ih => exact ih _ (seqState_execStep p hseq acc r h)

end OPM.InterpC02
