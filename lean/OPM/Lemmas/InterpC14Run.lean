import OPM.Lemmas.InterpC14
import OPM.Lemmas.InterpC04Rearm
import OPM.Lemmas.InterpC04Tick
set_option linter.unusedSimpArgs false
set_option linter.unusedVariables false
/-!
# The injected body starts at most once in a whole run (lemmas for C14)

`OPM.Lemmas.InterpC14` bounds the body starts of *one generator*.  Here the rest of the argument:
in a program without `Call macro`, numbered in tree order, in which the injected wrapper `n` is
nobody's child,

* a micro-step only appends generators, each at the entry of a Watch/Alarm node and with a gid taken
  from `nextGid` (`RegExt`), so no second generator is ever registered for `n`;
* a generator whose stack does not mention `n` (`NoN`) never comes to mention it and never emits
  `bodyStart n`;
* hence the potential "`bodyStart n` events of this tick + 1 if the injected generator has not yet
  started the body" never grows (`Ph`, `tick_ph`), and summed over any run of ticks and requests the
  number of body starts is at most one (`run_bodyStarts_le_one`).
-/
namespace OPM.Interp

/-! ### generators are only appended -/

/-- the generator list and the gid counter -/
def gn (s : St) : List Gen × Nat := (s.gens, s.nextGid)

@[simp] theorem gn_setRt (s : St) (n : Nat) (f : NodeRt → NodeRt) : gn (setRt s n f) = gn s := rfl
@[simp] theorem gn_emit (s : St) (e : Event) : gn (emit s e) = gn s := rfl

@[simp] theorem gn_markCompleted (s : St) (n : Nat) : gn (markCompleted s n) = gn s := by
  unfold markCompleted; simp only []; split <;> rfl

@[simp] theorem gn_finishNode (s : St) (n : Nat) : gn (finishNode s n) = gn s := by
  unfold finishNode; simp

@[simp] theorem gn_markFailed (s : St) (n : Nat) : gn (markFailed s n) = gn s := rfl

@[simp] theorem gn_tryActivate (s : St) (n : Nat) (c : Cond) : gn (tryActivate s n c) = gn s := by
  unfold tryActivate; simp only []; repeat' split
  all_goals rfl

@[simp] theorem gn_unregisterInterrupt (s : St) (n : Nat) : gn (unregisterInterrupt s n) = gn s := rfl

theorem gn_foldl_keep {α : Type} (g : St → α → St) (hg : ∀ s a, gn (g s a) = gn s)
    (l : List α) (s : St) : gn (l.foldl g s) = gn s := by
  induction l generalizing s with
  | nil => rfl
  | cons a l ih => simp [List.foldl, ih, hg]

@[simp] theorem gn_abort (p : Prog) (s : St) (b : Nat) : gn (abortBlockInterrupts p s b) = gn s := by
  unfold abortBlockInterrupts
  apply gn_foldl_keep
  intro s a; split <;> rfl

@[simp] theorem gn_resetSubtree (p : Prog) (s : St) (n : Nat) : gn (resetSubtree p s n) = gn s := by
  unfold resetSubtree
  apply gn_foldl_keep
  intro s a; rfl

@[simp] theorem gn_endOneBlock (p : Prog) (s : St) (old : Nat) (nm : String) :
    gn (endOneBlock p s old nm) = gn s := by
  unfold endOneBlock; simp

@[simp] theorem gn_endBlockStep (p : Prog) (s : St) : gn (endBlockStep p s) = gn s := by
  unfold endBlockStep
  split
  · rfl
  · simp only [gn_endOneBlock]; rfl

@[simp] theorem gn_endBlocksStep (p : Prog) (s : St) : gn (endBlocksStep p s) = gn s := by
  unfold endBlocksStep
  simp only []
  show gn (List.foldl _ s _) = _
  apply gn_foldl_keep
  intro s a; exact gn_endOneBlock p s _ _

@[simp] theorem gn_callPrepare (p : Prog) (s : St) (m : Nat) : gn (callPrepare p s m) = gn s := by
  unfold callPrepare; simp only []; split
  · simp
  · rfl

@[simp] theorem gn_callFinish (s : St) (n m : Nat) : gn (callFinish s n m) = gn s := by
  unfold callFinish; simp

/-- every generator of `s'` is one of `s` (unchanged) or a fresh one at the entry of a Watch/Alarm node
    with a gid from `s.nextGid` on; the gid counter does not go back -/
def RegExt (p : Prog) (s s' : St) : Prop :=
  s.nextGid ≤ s'.nextGid ∧
  ∀ g ∈ s'.gens, g ∈ s.gens ∨
    (g.stack = [.wrapEnter g.node] ∧ isCond p g.node = true ∧ s.nextGid ≤ g.gid ∧ g.gid < s'.nextGid)

theorem regExt_refl (p : Prog) (s : St) : RegExt p s s := ⟨Nat.le_refl _, fun g hg => Or.inl hg⟩

theorem regExt_of_eq (p : Prog) {s s' : St} (h : gn s' = gn s) : RegExt p s s' := by
  have h1 : s'.gens = s.gens := congrArg Prod.fst h
  have h2 : s'.nextGid = s.nextGid := congrArg Prod.snd h
  exact ⟨by rw [h2]; exact Nat.le_refl _, fun g hg => Or.inl (by rw [h1] at hg; exact hg)⟩

theorem regExt_trans {p : Prog} {a b c : St} (h1 : RegExt p a b) (h2 : RegExt p b c) : RegExt p a c := by
  refine ⟨Nat.le_trans h1.1 h2.1, ?_⟩
  intro g hg
  rcases h2.2 g hg with h | ⟨e1, e2, e3, e4⟩
  · rcases h1.2 g h with h' | ⟨e1, e2, e3, e4⟩
    · exact Or.inl h'
    · exact Or.inr ⟨e1, e2, e3, Nat.lt_of_lt_of_le e4 h2.1⟩
  · exact Or.inr ⟨e1, e2, Nat.le_trans h1.1 e3, e4⟩

theorem regExt_registerInterrupt (p : Prog) (s : St) (n : Nat) (hn : isCond p n = true) :
    RegExt p s (registerInterrupt p s n) := by
  have hr := reg_registerInterrupt p s n
  have hg : (registerInterrupt p s n).gens = s.gens ++ [{ gid := s.nextGid, node := n, stack := [.wrapEnter n] }] :=
    congrArg Reg.gens hr
  have hx : (registerInterrupt p s n).nextGid = s.nextGid + 1 := congrArg Reg.nextGid hr
  refine ⟨by rw [hx]; exact Nat.le_succ _, ?_⟩
  intro g hmem
  rw [hg, List.mem_append] at hmem
  rcases hmem with h | h
  · exact Or.inl h
  · simp only [List.mem_cons, List.mem_nil_iff, or_false] at h
    subst h
    exact Or.inr ⟨rfl, hn, Nat.le_refl _, by rw [hx]; exact Nat.lt_succ_self _⟩

theorem regExt_alarmRearm (p : Prog) (s : St) (n : Nat) (hn : isCond p n = true) :
    RegExt p s (alarmRearm p s n) := by
  unfold alarmRearm
  simp only []
  refine regExt_trans (regExt_of_eq p ?_) (regExt_registerInterrupt p _ n hn)
  simp

theorem stepBody_regExt (p : Prog) (s : St) (n pc : Nat) (below : List Frame) :
    RegExt p s (outState (stepBody p s n pc below)) := by
  unfold stepBody
  simp only []
  split
  all_goals (repeat' split)
  all_goals (first
    | exact regExt_refl p s
    | exact regExt_registerInterrupt p s n (by simp only [isCond, *])
    | exact regExt_alarmRearm p s n (by simp only [isCond, *])
    | (apply regExt_of_eq
       simp only [outState, gn_setRt, gn_emit, gn_finishNode, gn_markFailed, gn_tryActivate, gn_endBlockStep,
         gn_endBlocksStep, gn_callPrepare, gn_callFinish, gn_markCompleted]
       done)
    | (apply regExt_of_eq
       simp only [outState, gn_setRt, gn_emit, gn_finishNode, gn_markFailed, gn_tryActivate, gn_endBlockStep,
         gn_endBlocksStep, gn_callPrepare, gn_callFinish, gn_markCompleted]
       rfl))

theorem stepFrame_regExt (p : Prog) (s : St) (f : Frame) (below : List Frame) :
    RegExt p s (outState (stepFrame p s f below)) := by
  cases f with
  | body n pc => exact stepBody_regExt p s n pc below
  | _ =>
    unfold stepFrame
    simp only []
    repeat' split
    all_goals (first
      | exact regExt_refl p s
      | (apply regExt_of_eq
         simp only [outState, gn_setRt, gn_emit, gn_finishNode, gn_callFinish]
         done)
      | (apply regExt_of_eq
         simp only [outState, gn_setRt, gn_emit, gn_finishNode, gn_callFinish]
         rfl))

theorem gn_unwind (s : St) (stack : List Frame) : gn (unwind s stack).1 = gn s := by
  induction stack with
  | nil => rfl
  | cons f rest ih =>
    cases f <;> simp only [unwind, ih]
    rfl

theorem stepGen_regExt (p : Prog) (s : St) (stack : List Frame) : RegExt p s (stepGen p s stack).1 := by
  cases stack with
  | nil => exact regExt_refl p s
  | cons f below =>
    rw [stepGen_cons]
    have := stepFrame_regExt p s f below
    cases hs : stepFrame p s f below with
    | next s' top sig => rw [hs] at this; exact this
    | raise s' =>
      rw [hs] at this
      simp only [finishStep]
      exact regExt_trans this (regExt_of_eq p (gn_unwind s' below))

theorem runGen_regExt (p : Prog) (fuel : Nat) (s : St) (stack : List Frame) :
    RegExt p s (runGen p fuel s stack).1 := by
  induction fuel generalizing s stack with
  | zero => exact regExt_refl p s
  | succ fuel ih =>
    unfold runGen
    have h1 := stepGen_regExt p s stack
    rcases hs : stepGen p s stack with ⟨s1, st1, sig⟩
    rw [hs] at h1
    cases sig
    · exact regExt_trans h1 (ih s1 st1)
    · exact h1
    · exact h1

/-! ### stacks that do not mention the injected wrapper -/

def NoN (n : Nat) (stack : List Frame) : Prop := ∀ f ∈ stack, frameNode f ≠ n

theorem stepBody_nodes (p : Prog) (s : St) (n pc : Nat) (below : List Frame)
    (hnc : ∀ nm, (node p n).kind ≠ .call nm) :
    ∀ g ∈ outTop (stepBody p s n pc below), frameNode g = n := by
  unfold stepBody
  simp only []
  split
  all_goals (repeat' split)
  all_goals (try (simp only [outTop, List.mem_cons, List.mem_nil_iff, or_false, forall_eq_or_imp, forall_eq,
    frameNode, List.not_mem_nil, false_imp_iff, implies_true, and_true, and_self]))
  all_goals (try (simp_all; done))

theorem stepFrame_nodes (p : Prog) (s : St) (f : Frame) (below : List Frame) (hnc : noCalls p = true) :
    ∀ g ∈ outTop (stepFrame p s f below),
      frameNode g = frameNode f ∨ frameNode g ∈ (node p (frameNode f)).children := by
  cases f with
  | body n pc =>
    intro g hg
    exact Or.inl (stepBody_nodes p s n pc below (noCalls_kind p hnc n) g hg)
  | children n inx inChild =>
    unfold stepFrame
    simp only []
    repeat' split
    all_goals (simp only [outTop, List.mem_cons, List.mem_nil_iff, or_false, forall_eq_or_imp, forall_eq,
      frameNode, List.not_mem_nil, false_imp_iff, implies_true, and_true, true_or])
    rename_i c hc _ _ _
    exact Or.inr (List.mem_of_getElem? hc)
  | _ =>
    unfold stepFrame
    simp only []
    repeat' split
    all_goals (simp only [outTop, List.mem_cons, List.mem_nil_iff, or_false, forall_eq_or_imp, forall_eq,
      frameNode, List.not_mem_nil, false_imp_iff, implies_true, and_true, true_or, and_self])

theorem noN_step (p : Prog) (s : St) (stack : List Frame) (n : Nat)
    (hnc : noCalls p = true) (hch : ∀ k, n ∉ (node p k).children) (hn : isInjected p n = true)
    (h : NoN n stack) :
    NoN n (stepGen p s stack).2.1 ∧ bsCount (stepGen p s stack).1 n = bsCount s n := by
  cases stack with
  | nil => exact ⟨by simpa [stepGen] using h, rfl⟩
  | cons f below =>
    constructor
    · intro g hg
      rcases stepGen_stack p s f below g hg with h1 | h1
      · rcases stepFrame_nodes p s f below hnc g h1 with e | e
        · rw [e]; exact h f List.mem_cons_self
        · intro hgn; rw [hgn] at e; exact hch _ e
      · exact h g (List.mem_cons_of_mem _ h1)
    · rcases stepGen_bsI p s (f :: below) n hn with h1 | h1
      · exact h1
      · simp only [List.head?, Option.some.injEq] at h1
        have := h f List.mem_cons_self
        rw [h1] at this
        exact absurd rfl this

theorem runGen_noN (p : Prog) (n : Nat) (hnc : noCalls p = true) (hch : ∀ k, n ∉ (node p k).children)
    (hn : isInjected p n = true) (fuel : Nat) (s : St) (stack : List Frame) (h : NoN n stack) :
    NoN n (runGen p fuel s stack).2.1 ∧ bsCount (runGen p fuel s stack).1 n = bsCount s n := by
  induction fuel generalizing s stack with
  | zero => exact ⟨h, rfl⟩
  | succ fuel ih =>
    unfold runGen
    have h1 := noN_step p s stack n hnc hch hn h
    rcases hs : stepGen p s stack with ⟨s1, st1, sig⟩
    rw [hs] at h1
    cases sig
    · have h2 := ih s1 st1 h1.1
      exact ⟨h2.1, h2.2.trans h1.2⟩
    · exact h1
    · exact h1

theorem runGen_spentI (p : Prog) (n : Nat) (hnc : noCalls p = true) (hord : ordered p = true)
    (hn : isInjected p n = true) (fuel : Nat) (s : St) (stack : List Frame) (h : SpentI n stack) :
    SpentI n (runGen p fuel s stack).2.1 ∧ bsCount (runGen p fuel s stack).1 n = bsCount s n := by
  induction fuel generalizing s stack with
  | zero => exact ⟨h, rfl⟩
  | succ fuel ih =>
    unfold runGen
    have h1 := spentI_step p s stack n hnc hord hn h
    rcases hs : stepGen p s stack with ⟨s1, st1, sig⟩
    rw [hs] at h1
    cases sig
    · have h2 := ih s1 st1 h1.1
      exact ⟨h2.1, h2.2.trans h1.2⟩
    · exact h1
    · exact h1

theorem runGen_earlyI (p : Prog) (n : Nat) (hnc : noCalls p = true) (hord : ordered p = true)
    (hn : isInjected p n = true) (fuel : Nat) (s : St) (stack : List Frame) (h : EarlyI n stack) :
    (EarlyI n (runGen p fuel s stack).2.1 ∧ bsCount (runGen p fuel s stack).1 n = bsCount s n) ∨
    (SpentI n (runGen p fuel s stack).2.1 ∧ bsCount (runGen p fuel s stack).1 n ≤ bsCount s n + 1) := by
  induction fuel generalizing s stack with
  | zero => exact Or.inl ⟨h, rfl⟩
  | succ fuel ih =>
    unfold runGen
    have h1 := earlyI_step p s stack n hn h
    rcases hs : stepGen p s stack with ⟨s1, st1, sig⟩
    rw [hs] at h1
    cases sig
    · rcases h1 with ⟨e, b⟩ | ⟨e, b⟩
      · rcases ih s1 st1 e with ⟨e2, b2⟩ | ⟨e2, b2⟩
        · exact Or.inl ⟨e2, b2.trans b⟩
        · exact Or.inr ⟨e2, by simp only [] at b b2 ⊢; omega⟩
      · have h2 := runGen_spentI p n hnc hord hn fuel s1 st1 e
        exact Or.inr ⟨h2.1, by have := h2.2; simp only [] at b this ⊢; omega⟩
    · exact h1
    · exact h1

/-! ### the phase of the injected generator, and the potential -/

inductive Phase where | early | spent
deriving DecidableEq

def Phase.budget : Phase → Nat
  | .early => 1
  | .spent => 0

def Phase.ok (n : Nat) : Phase → List Frame → Prop
  | .early, st => EarlyI n st
  | .spent, st => SpentI n st

/-- `γ` is the gid the injection used: generators with that gid are in phase `ph`, all others do not
    mention the injected wrapper; `γ` has been handed out. -/
def Ph (n γ : Nat) (ph : Phase) (s : St) : Prop :=
  γ < s.nextGid ∧ ∀ g ∈ s.gens, (g.gid = γ → ph.ok n g.stack) ∧ (g.gid ≠ γ → NoN n g.stack)

theorem ph_regExt (p : Prog) (n γ : Nat) (ph : Phase) (hn : isInjected p n = true) (s s' : St)
    (h : Ph n γ ph s) (he : RegExt p s s') : Ph n γ ph s' := by
  refine ⟨Nat.lt_of_lt_of_le h.1 he.1, ?_⟩
  intro g hg
  rcases he.2 g hg with h1 | ⟨e1, e2, e3, _⟩
  · exact h.2 g h1
  · constructor
    · intro e; rw [e] at e3; exact absurd h.1 (Nat.not_lt.mpr e3)
    · intro _ f hf
      rw [e1] at hf
      simp only [List.mem_cons, List.mem_nil_iff, or_false] at hf
      subst hf
      intro e
      simp only [frameNode] at e
      rw [e] at e2
      unfold isCond at e2; unfold isInjected at hn
      split at hn <;> simp_all

theorem ph_of_gens_eq (n γ : Nat) (ph : Phase) (s s' : St) (h : Ph n γ ph s)
    (hg : s'.gens = s.gens) (hx : s'.nextGid = s.nextGid) : Ph n γ ph s' := by
  refine ⟨by rw [hx]; exact h.1, ?_⟩
  intro g hmem; rw [hg] at hmem; exact h.2 g hmem

theorem getGen_mem (s : St) (gid : Nat) (g : Gen) (h : getGen s gid = some g) : g ∈ s.gens ∧ g.gid = gid := by
  unfold getGen at h
  exact ⟨List.mem_of_find?_eq_some h, by simpa using List.find?_some h⟩

/-- One generator's sub-tick: the potential `bodyStart n events + budget of the phase` does not grow. -/
theorem runGid_ph (p : Prog) (n γ : Nat) (hnc : noCalls p = true) (hord : ordered p = true)
    (hch : ∀ k, n ∉ (node p k).children) (hn : isInjected p n = true)
    (fuel : Nat) (s : St) (gid : Nat) (ph : Phase) (h : Ph n γ ph s) :
    ∃ ph', Ph n γ ph' (runGid p fuel s gid).1 ∧
      bsCount (runGid p fuel s gid).1 n + ph'.budget ≤ bsCount s n + ph.budget := by
  unfold runGid
  cases hg : getGen s gid with
  | none => exact ⟨ph, h, Nat.le_refl _⟩
  | some g =>
    simp only []
    obtain ⟨hmem, hgid⟩ := getGen_mem s gid g hg
    have hext := runGen_regExt p fuel s g.stack
    have hcls := h.2 g hmem
    rcases hr : runGen p fuel s g.stack with ⟨s1, st1, ok⟩
    rw [hr] at hext
    simp only [] at hext ⊢
    have h1 : Ph n γ ph s1 := ph_regExt p n γ ph hn s s1 h hext
    have bsSet : ∀ st, bsCount (setGenStack s1 gid st) n = bsCount s1 n := fun _ => rfl
    by_cases hγ : gid = γ
    · -- the injected generator itself
      have hok := hcls.1 (hgid.trans hγ)
      have finish : ∀ ph', ph'.ok n st1 → Ph n γ ph' (setGenStack s1 gid st1) := by
        intro ph' hst
        refine ⟨h1.1, ?_⟩
        intro g' hg'
        simp only [setGenStack, List.mem_map] at hg'
        obtain ⟨g0, hg0, e⟩ := hg'
        split at e
        · rename_i e0; subst e
          exact ⟨fun _ => hst, fun hne => absurd (e0.trans hγ) hne⟩
        · rename_i e0; subst e
          exact ⟨fun e1 => absurd (e1.trans hγ.symm) e0, (h1.2 g0 hg0).2⟩
      cases ph with
      | early =>
        rcases runGen_earlyI p n hnc hord hn fuel s g.stack hok with ⟨e, b⟩ | ⟨e, b⟩
        · rw [hr] at e b
          exact ⟨.early, finish .early e, by rw [bsSet]; simp only [] at b; omega⟩
        · rw [hr] at e b
          exact ⟨.spent, finish .spent e, by rw [bsSet]; simp only [Phase.budget] at b ⊢; omega⟩
      | spent =>
        have h2 := runGen_spentI p n hnc hord hn fuel s g.stack hok
        rw [hr] at h2
        exact ⟨.spent, finish .spent h2.1, by rw [bsSet]; have := h2.2; simp only [] at this; omega⟩
    · -- another generator
      have hno := hcls.2 (by rw [hgid]; exact hγ)
      have h2 := runGen_noN p n hnc hch hn fuel s g.stack hno
      rw [hr] at h2
      refine ⟨ph, ⟨h1.1, ?_⟩, by rw [bsSet]; have := h2.2; simp only [] at this; omega⟩
      intro g' hg'
      simp only [setGenStack, List.mem_map] at hg'
      obtain ⟨g0, hg0, e⟩ := hg'
      split at e
      · rename_i e0; subst e
        exact ⟨fun e1 => absurd (e0.symm.trans e1) hγ, fun _ => h2.1⟩
      · subst e; exact h1.2 g0 hg0

theorem ph_flag (n γ : Nat) (ph : Phase) (s : St) (b : Bool) (h : Ph n γ ph s) :
    Ph n γ ph { s with inInterrupt := b } := h

theorem fold_ph (p : Prog) (n γ : Nat) (hnc : noCalls p = true) (hord : ordered p = true)
    (hch : ∀ k, n ∉ (node p k).children) (hn : isInjected p n = true)
    (l : List Nat) (acc : St × Bool) (ph : Phase) (h : Ph n γ ph acc.1) :
    let r := l.foldl (fun (acc : St × Bool) gid =>
      let r := runGid p microFuel { acc.1 with inInterrupt := true } gid
      ({ r.1 with inInterrupt := false }, acc.2 && r.2)) acc
    ∃ ph', Ph n γ ph' r.1 ∧ bsCount r.1 n + ph'.budget ≤ bsCount acc.1 n + ph.budget := by
  induction l generalizing acc ph with
  | nil => exact ⟨ph, h, Nat.le_refl _⟩
  | cons g l ih =>
    simp only [List.foldl]
    obtain ⟨ph1, h1, b1⟩ := runGid_ph p n γ hnc hord hch hn microFuel { acc.1 with inInterrupt := true } g ph
      (ph_flag n γ ph acc.1 true h)
    obtain ⟨ph2, h2, b2⟩ := ih ({ (runGid p microFuel { acc.1 with inInterrupt := true } g).1 with inInterrupt := false },
      acc.2 && (runGid p microFuel { acc.1 with inInterrupt := true } g).2) ph1 (ph_flag n γ ph1 _ false h1)
    exact ⟨ph2, h2, Nat.le_trans b2 b1⟩

/-- **One tick.** The events of a tick start empty; after the tick the number of `bodyStart n` events
    of this tick plus the budget of the new phase is at most the budget of the old phase. -/
theorem tick_ph (p : Prog) (n γ : Nat) (hnc : noCalls p = true) (hord : ordered p = true)
    (hch : ∀ k, n ∉ (node p k).children) (hn : isInjected p n = true)
    (s : St) (i : TickIn) (ph : Phase) (h : Ph n γ ph s) :
    ∃ ph', Ph n γ ph' (tick p s i).1 ∧ bsCount (tick p s i).1 n + ph'.budget ≤ ph.budget := by
  unfold tick
  simp only []
  have h0 : Ph n γ ph (prelude s i) := h
  have b0 : bsCount (prelude s i) n = 0 := rfl
  obtain ⟨ph1, h1, b1⟩ := runGid_ph p n γ hnc hord hch hn microFuel (prelude s i) 0 ph h0
  obtain ⟨ph2, h2, b2⟩ := fold_ph p n γ hnc hord hch hn
    ((runGid p microFuel (prelude s i) 0).1.imap.map (·.2))
    ((runGid p microFuel (prelude s i) 0).1, (runGid p microFuel (prelude s i) 0).2) ph1 h1
  refine ⟨ph2, ⟨h2.1, ?_⟩, ?_⟩
  · intro g hg
    simp only [List.mem_filter] at hg
    exact h2.2 g hg.1
  · have e : ∀ (s' : St) (gs : List Gen), bsCount { s' with gens := gs } n = bsCount s' n := fun _ _ => rfl
    simp only [prelude] at b1 b2 b0 ⊢
    rw [e]
    omega

/-! ### a whole run -/

/-- what happens to an interpreter between an injection and the end of the run (no edit) -/
inductive ROp where
  | tick (i : TickIn)
  | complete (k : Nat)
  | cancel (k : Nat)
  | force (k : Nat)

def stepR (p : Prog) (s : St) : ROp → St
  | .tick i => (tick p s i).1
  | .complete k => completeCmd s k
  | .cancel k => (cancel p s k).getD s
  | .force k => (force p s k).getD s

/-- `bodyStart n` events summed over the ticks of a run (the event log is per tick) -/
def runStarts (p : Prog) (n : Nat) : St → List ROp → Nat
  | _, [] => 0
  | s, .tick i :: ops => bsCount (tick p s i).1 n + runStarts p n (tick p s i).1 ops
  | s, o :: ops => runStarts p n (stepR p s o) ops

theorem ph_request (p : Prog) (n γ : Nat) (ph : Phase) (s : St) (o : ROp) (hno : ∀ i, o ≠ .tick i)
    (h : Ph n γ ph s) : Ph n γ ph (stepR p s o) := by
  cases o with
  | tick i => exact absurd rfl (hno i)
  | complete k =>
    simp only [stepR, completeCmd]
    split
    · exact h
    · exact ph_of_gens_eq n γ ph s _ h rfl rfl
  | cancel k =>
    simp only [stepR, cancel]
    split
    · exact ph_of_gens_eq n γ ph s _ h rfl rfl
    · exact h
  | force k =>
    simp only [stepR, force]
    split
    · exact ph_of_gens_eq n γ ph s _ h rfl rfl
    · exact h

theorem runStarts_le_budget (p : Prog) (n γ : Nat) (hnc : noCalls p = true) (hord : ordered p = true)
    (hch : ∀ k, n ∉ (node p k).children) (hn : isInjected p n = true)
    (ops : List ROp) (s : St) (ph : Phase) (h : Ph n γ ph s) :
    runStarts p n s ops ≤ ph.budget := by
  induction ops generalizing s ph with
  | nil => exact Nat.zero_le _
  | cons o ops ih =>
    cases o with
    | tick i =>
      simp only [runStarts]
      obtain ⟨ph', h', b⟩ := tick_ph p n γ hnc hord hch hn s i ph h
      have := ih _ ph' h'
      omega
    | complete k =>
      simp only [runStarts]
      exact ih _ ph (ph_request p n γ ph s (.complete k) (by intro i e; cases e) h)
    | cancel k =>
      simp only [runStarts]
      exact ih _ ph (ph_request p n γ ph s (.cancel k) (by intro i e; cases e) h)
    | force k =>
      simp only [runStarts]
      exact ih _ ph (ph_request p n γ ph s (.force k) (by intro i e; cases e) h)

/-- the state in which code is injected: gids are below the counter, no stack mentions the new node -/
def readyFor (n : Nat) (s : St) : Bool :=
  s.gens.all (fun g => decide (g.gid < s.nextGid) && g.stack.all (fun f => decide (frameNode f ≠ n)))

theorem ph_inject (p : Prog) (n : Nat) (s : St) (h : readyFor n s = true) :
    Ph n s.nextGid .early (inject p s n) := by
  unfold inject
  simp only []
  have key : ∀ (l : List Nat) (s0 : St),
      gn (l.foldl (fun s j => setRt s j (fun r => { r with hasRecord := true })) s0) = gn s0 := by
    intro l
    induction l with
    | nil => intro s0; rfl
    | cons a l ih => intro s0; simp only [List.foldl]; rw [ih]; rfl
  have hk := key (n :: descendants p n) s
  have hgens : (List.foldl (fun s j => setRt s j (fun r => { r with hasRecord := true })) s (n :: descendants p n)).gens = s.gens :=
    congrArg Prod.fst hk
  have hnext : (List.foldl (fun s j => setRt s j (fun r => { r with hasRecord := true })) s (n :: descendants p n)).nextGid = s.nextGid :=
    congrArg Prod.snd hk
  have hr := reg_registerInterrupt p (List.foldl (fun s j => setRt s j (fun r => { r with hasRecord := true })) s (n :: descendants p n)) n
  have hg := congrArg Reg.gens hr
  have hx := congrArg Reg.nextGid hr
  simp only [reg] at hg hx
  refine ⟨by rw [hx, hnext]; exact Nat.lt_succ_self _, ?_⟩
  intro g hmem
  rw [hg, hgens, hnext, List.mem_append] at hmem
  unfold readyFor at h
  rw [List.all_eq_true] at h
  rcases hmem with hm | hm
  · have := h g hm
    simp only [Bool.and_eq_true, decide_eq_true_eq, List.all_eq_true] at this
    constructor
    · intro e; rw [e] at this; exact absurd this.1 (Nat.lt_irrefl _)
    · intro _ f hf; exact this.2 f hf
  · simp only [List.mem_cons, List.mem_nil_iff, or_false] at hm
    subst hm
    exact ⟨fun _ => Or.inl rfl, fun hne => absurd rfl hne⟩

/-- **At most once in a whole run.** -/
theorem run_bodyStarts_le_one (p : Prog) (n : Nat) (hnc : noCalls p = true) (hord : ordered p = true)
    (hch : ∀ k, n ∉ (node p k).children) (hn : isInjected p n = true)
    (s : St) (hs : readyFor n s = true) (ops : List ROp) :
    runStarts p n (inject p s n) ops ≤ 1 :=
  runStarts_le_budget p n s.nextGid hnc hord hch hn ops (inject p s n) .early (ph_inject p n s hs)

end OPM.Interp
